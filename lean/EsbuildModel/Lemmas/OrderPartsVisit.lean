import EsbuildModel.Lemmas.OrderParts
/-! Partial-correctness analysis of `Order.visit` at part granularity: whenever a (sub-)traversal returns, what it
appended to `jsParts` / `jsPartsPrefix` is, file by file, exactly the canonical contribution of the files it
entered (`PPost`), and a part is appended only after everything its followed imports contribute, unless the
import closes a cycle (`Topo4`). -/
namespace EsbuildModel.Order
open EsbuildModel.Dfs (Edge Reach)

/-- what `jsParts` denotes -/
def E (st : St) : List (Nat × Nat) := expand st.parts
/-- what `jsPartsPrefix` denotes -/
def P (st : St) : List (Nat × Nat) := expand st.pre

def ROK (st : St) : Prop := RangesOK st.parts ∧ RangesOK st.pre

/-- a completed sub-traversal -/
structure PPost (files : List File) (st st' : St) : Prop where
  ok : ROK st'
  mono : ∀ x ∈ st.visited, x ∈ st'.visited
  segE : ∃ n, E st' = E st ++ n ∧ Seg st.visited st'.visited n (emitE files)
  segP : ∃ n, P st' = P st ++ n ∧ Seg st.visited st'.visited n (emitP files)

/-- a stretch of work inside file `f`, which itself contributed `oE` / `oP` meanwhile -/
structure XPost (files : List File) (f : Nat) (oE oP : List (Nat × Nat)) (st st' : St) : Prop where
  ok : ROK st'
  mono : ∀ x ∈ st.visited, x ∈ st'.visited
  segE : ∃ n, E st' = E st ++ n ∧ SegX st.visited st'.visited n (emitE files) f oE
  segP : ∃ n, P st' = P st ++ n ∧ SegX st.visited st'.visited n (emitP files) f oP

theorem PPost.rfl' {files : List File} {st : St} (h : ROK st) : PPost files st st :=
  ⟨h, fun _ hx => hx, ⟨[], by simp, Seg.refl _ _⟩, ⟨[], by simp, Seg.refl _ _⟩⟩

theorem XPost.rfl' {files : List File} {f : Nat} {st : St} (h : ROK st) : XPost files f [] [] st st :=
  ⟨h, fun _ hx => hx, ⟨[], by simp, SegX.refl _ _ _⟩, ⟨[], by simp, SegX.refl _ _ _⟩⟩

theorem PPost.trans {files : List File} {a b c : St} (h1 : PPost files a b) (h2 : PPost files b c) :
    PPost files a c := by
  obtain ⟨n1, e1, s1⟩ := h1.segE
  obtain ⟨n2, e2, s2⟩ := h2.segE
  obtain ⟨m1, f1, t1⟩ := h1.segP
  obtain ⟨m2, f2, t2⟩ := h2.segP
  exact ⟨h2.ok, fun x hx => h2.mono x (h1.mono x hx),
    ⟨n1 ++ n2, by rw [e2, e1, List.append_assoc], s1.trans s2 h1.mono h2.mono⟩,
    ⟨m1 ++ m2, by rw [f2, f1, List.append_assoc], t1.trans t2 h1.mono h2.mono⟩⟩

theorem XPost.trans {files : List File} {f : Nat} {o1 o2 p1 p2 : List (Nat × Nat)} {a b c : St}
    (h1 : XPost files f o1 p1 a b) (h2 : XPost files f o2 p2 b c) :
    XPost files f (o1 ++ o2) (p1 ++ p2) a c := by
  obtain ⟨n1, e1, s1⟩ := h1.segE
  obtain ⟨n2, e2, s2⟩ := h2.segE
  obtain ⟨m1, f1, t1⟩ := h1.segP
  obtain ⟨m2, f2, t2⟩ := h2.segP
  exact ⟨h2.ok, fun x hx => h2.mono x (h1.mono x hx),
    ⟨n1 ++ n2, by rw [e2, e1, List.append_assoc], s1.trans s2 h1.mono h2.mono⟩,
    ⟨m1 ++ m2, by rw [f2, f1, List.append_assoc], t1.trans t2 h1.mono h2.mono⟩⟩

theorem PPost.toX {files : List File} {f : Nat} {a b : St} (h : PPost files a b) (hf : f ∈ a.visited) :
    XPost files f [] [] a b := by
  obtain ⟨n1, e1, s1⟩ := h.segE
  obtain ⟨m1, f1, t1⟩ := h.segP
  exact ⟨h.ok, h.mono, ⟨n1, e1, s1.toX hf⟩, ⟨m1, f1, t1.toX hf⟩⟩

/-! ## the ordering invariant -/

/-- part `i` of file `a` carries an import record to `b` that the traversal follows -/
def FollowedRec (files : List File) (a i b : Nat) : Prop :=
  ∃ file p r, files[a]? = some file ∧ file.isJS = true ∧ file.parts[i]? = some p ∧ r ∈ p.recs ∧
    follow file.inChunk p r = true ∧ r.target = b

/-- everything file `y` contributes to `jsParts` is in `l` -/
def Done (files : List File) (y : Nat) (l : List (Nat × Nat)) : Prop := onFile y l = emitE files y

/-- every appended part (index ≥ 1) comes after the complete contribution of each file that it or an earlier
part of the same file imports, unless the import closes a cycle -/
def Topo4 (files : List File) (l : List (Nat × Nat)) : Prop :=
  ∀ a i k b, (a, i) ∈ l → i ≠ 0 → k ≤ i → FollowedRec files a k b → ¬ Reach (succ files) b a →
    ∃ l1 l2, l = l1 ++ (a, i) :: l2 ∧ Done files b l1

/-- files entered before: complete, or on the stack (and then they reach the current file) -/
def Hstk (files : List File) (st : St) (f : Nat) : Prop :=
  ∀ y ∈ st.visited, Done files y (E st) ∨ Reach (succ files) y f

def FreshE (st : St) : Prop := ∀ q ∈ E st, q.1 ∈ st.visited

theorem Topo4.append {files : List File} {l n : List (Nat × Nat)} (h : Topo4 files l)
    (hn : ∀ a i k b, (a, i) ∈ n → i ≠ 0 → k ≤ i → FollowedRec files a k b → ¬ Reach (succ files) b a →
      ∃ l1 l2, l ++ n = l1 ++ (a, i) :: l2 ∧ Done files b l1) : Topo4 files (l ++ n) := by
  intro a i k b hm hi hk hf hr
  rcases List.mem_append.1 hm with hm | hm
  · obtain ⟨l1, l2, e, d⟩ := h a i k b hm hi hk hf hr
    exact ⟨l1, l2 ++ n, by rw [e]; simp, d⟩
  · exact hn a i k b hm hi hk hf hr

theorem FreshE.postX {files : List File} {f : Nat} {oE oP : List (Nat × Nat)} {st st' : St}
    (h : XPost files f oE oP st st') (hf : f ∈ st.visited) (hfr : FreshE st) : FreshE st' := by
  obtain ⟨n, e, s⟩ := h.segE
  intro q hq
  rw [e] at hq
  rcases List.mem_append.1 hq with hq | hq
  · exact h.mono _ (hfr q hq)
  · rcases s.src hq with h1 | h1
    · rw [h1]; exact h.mono _ hf
    · exact h1.1

theorem Hstk.postX {files : List File} {f : Nat} {oE oP : List (Nat × Nat)} {st st' : St}
    (h : XPost files f oE oP st st') (hfr : FreshE st) (hs : Hstk files st f) : Hstk files st' f := by
  obtain ⟨n, e, s⟩ := h.segE
  intro y hy
  by_cases hyf : y = f
  · subst hyf; exact Or.inr (.refl _)
  · by_cases hyv : y ∈ st.visited
    · rcases hs y hyv with hd | hr
      · left
        unfold Done at hd ⊢
        rw [e, onFile_append, hd, s y]
        simp [hyf, hyv]
      · exact Or.inr hr
    · left
      unfold Done
      rw [e, onFile_append, s y]
      have : onFile y (E st) = [] := onFile_eq_nil (fun q hq heq => hyv (heq ▸ hfr q hq))
      simp [this, hyf, hy, hyv]

theorem Hstk.edge {files : List File} {st : St} {f c : Nat} (hs : Hstk files st f) (he : Edge (succ files) f c) :
    Hstk files st c := by
  intro y hy
  rcases hs y hy with h | h
  · exact Or.inl h
  · exact Or.inr (.step h he)

/-- what the analysis assumes of the recursive call -/
def KSpec (files : List File) (k : Nat → St → Option St) : Prop :=
  ∀ c st st', k c st = some st' → ROK st →
    PPost files st st' ∧ c ∈ st'.visited ∧
    (FreshE st → Hstk files st c → Topo4 files (E st) → Topo4 files (E st'))

theorem recLoop_parts {files : List File} {k : Nat → St → Option St} (hk : KSpec files k) (f : Nat)
    (inThis : Bool) (p : Part) : ∀ (rs : List Rec) (st st' : St), recLoop k inThis p rs st = some st' → ROK st →
      f ∈ st.visited → (∀ r ∈ rs, follow inThis p r = true → Edge (succ files) f r.target) →
      PPost files st st' ∧ (∀ r ∈ rs, follow inThis p r = true → r.target ∈ st'.visited) ∧
      (FreshE st → Hstk files st f → Topo4 files (E st) → Topo4 files (E st')) := by
  intro rs
  induction rs with
  | nil =>
    intro st st' h hok _ _
    simp only [recLoop, Option.some.injEq] at h
    subst h
    exact ⟨PPost.rfl' hok, by simp, fun _ _ h => h⟩
  | cons r rs ih =>
    intro st st' h hok hf hedge
    unfold recLoop at h
    by_cases hfo : follow inThis p r = true
    · simp only [hfo, if_true] at h
      cases h1 : k r.target st with
      | none => simp [h1] at h
      | some st1 =>
        simp only [h1] at h
        obtain ⟨p1, hv1, t1⟩ := hk r.target st st1 h1 hok
        obtain ⟨p2, hv2, t2⟩ := ih st1 st' h p1.ok (p1.mono f hf) (fun r' hr' => hedge r' (by simp [hr']))
        refine ⟨p1.trans p2, ?_, ?_⟩
        · intro r' hr' hfo'
          rcases List.mem_cons.1 hr' with rfl | hr'
          · exact p2.mono _ hv1
          · exact hv2 r' hr' hfo'
        · intro hfr hs ht
          have he := hedge r (by simp) hfo
          have x1 := p1.toX hf
          exact t2 (FreshE.postX x1 hf hfr) (Hstk.postX x1 hfr hs) (t1 hfr (hs.edge he) ht)
    · simp only [hfo, Bool.false_eq_true, if_false] at h
      obtain ⟨p2, hv2, t2⟩ := ih st st' h hok hf (fun r' hr' => hedge r' (by simp [hr']))
      refine ⟨p2, ?_, t2⟩
      intro r' hr' hfo'
      rcases List.mem_cons.1 hr' with rfl | hr'
      · exact absurd hfo' hfo
      · exact hv2 r' hr' hfo'

/-- the bookkeeping after the records of part `idx`: at most one pair is appended, to one of the two lists -/
theorem emitStep_post (files : List File) (f : Nat) (file : File) (idx : Nat) (p : Part) (st1 : St) (hok : ROK st1) :
    ∀ st2, st2 = (if file.inChunk && p.live && file.canSplit && idx != 0 && p.incl then
          (if f = 0 then { st1 with pre := extend st1.pre f idx } else { st1 with parts := extend st1.parts f idx })
        else st1) →
    XPost files f (if loopCond file idx p && f != 0 then [(f, idx)] else [])
      (if loopCond file idx p && f == 0 then [(f, idx)] else []) st1 st2 ∧
    E st2 = E st1 ++ (if loopCond file idx p && f != 0 then [(f, idx)] else []) := by
  intro st2 h2
  have hc : (file.inChunk && p.live && file.canSplit && idx != 0 && p.incl) = loopCond file idx p := rfl
  rw [hc] at h2
  by_cases hl : loopCond file idx p = true
  · by_cases h0 : f = 0
    · have hpre := expand_extend st1.pre f idx hok.2
      simp only [hl, if_true, h0] at h2
      subst h2
      simp only [hl, h0, bne_self_eq_false, Bool.and_false, Bool.false_eq_true, if_false, BEq.rfl, Bool.and_self,
        if_true, List.append_nil]
      refine ⟨⟨⟨hok.1, h0 ▸ hpre.2⟩, fun _ hx => hx, ⟨[], by simp [E], SegX.refl _ _ _⟩,
        ⟨[(0, idx)], by simp only [P]; rw [← h0]; exact hpre.1, ?_⟩⟩, rfl⟩
      have := SegX.own st1.visited (emitP files) 0 [(0, idx)] (by simp)
      rw [h0] at *
      exact this
    · have hparts := expand_extend st1.parts f idx hok.1
      simp only [hl, if_true, h0, if_false] at h2
      subst h2
      have hb : (f != 0) = true := by simpa using h0
      have hb' : (f == 0) = false := by simpa using h0
      simp only [hl, hb, hb', Bool.and_self, Bool.and_false, Bool.false_eq_true, if_false, if_true]
      exact ⟨⟨⟨hparts.2, hok.2⟩, fun _ hx => hx, ⟨[(f, idx)], hparts.1, SegX.own _ _ _ _ (by simp)⟩,
        ⟨[], by simp [P], SegX.refl _ _ _⟩⟩, hparts.1⟩
  · simp only [hl, Bool.false_eq_true, if_false] at h2
    subst h2
    simp only [hl, Bool.false_and, Bool.false_eq_true, if_false, List.append_nil]
    exact ⟨XPost.rfl' hok, trivial⟩

theorem partLoop_parts {files : List File} {k : Nat → St → Option St} (hk : KSpec files k) (f : Nat)
    (file : File) (hfile : files[f]? = some file) (hjs : file.isJS = true) :
    ∀ (ps : List Part) (idx : Nat) (st st' : St), partLoop k f file idx ps st = some st' → ROK st →
      f ∈ st.visited → (∀ j, ps[j]? = file.parts[idx + j]?) →
      (∀ k p' r, k < idx → file.parts[k]? = some p' → r ∈ p'.recs → follow file.inChunk p' r = true →
        r.target ∈ st.visited) →
      XPost files f (loopE f file idx ps) (loopP f file idx ps) st st' ∧
      (FreshE st → Hstk files st f → Topo4 files (E st) → Topo4 files (E st')) := by
  intro ps
  induction ps with
  | nil =>
    intro idx st st' h hok _ _ _
    simp only [partLoop, Option.some.injEq] at h
    subst h
    exact ⟨by simpa [loopE, loopP] using (XPost.rfl' hok : XPost files f [] [] st st), fun _ _ h => h⟩
  | cons p ps ih =>
    intro idx st st' h hok hf hidx hprev
    unfold partLoop at h
    have hp : file.parts[idx]? = some p := by have := hidx 0; simpa using this.symm
    have hpm : p ∈ file.parts := List.mem_of_getElem? hp
    have hne : file.parts.isEmpty = false := by
      cases hq : file.parts with
      | nil => rw [hq] at hpm; simp at hpm
      | cons _ _ => rfl
    have hsucc : succ files f = some (targets file) := by simp [succ, hfile, hjs, hne]
    have hedge : ∀ r ∈ p.recs, follow file.inChunk p r = true → Edge (succ files) f r.target := by
      intro r hr hfo
      refine ⟨_, hsucc, ?_⟩
      simp only [targets, partTargets, List.mem_flatMap, List.mem_map, List.mem_filter]
      exact ⟨p, hpm, r, ⟨hr, hfo⟩, rfl⟩
    cases h1 : recLoop k file.inChunk p p.recs st with
    | none => simp [h1] at h
    | some st1 =>
      simp only [h1] at h
      obtain ⟨p1, hv1, t1⟩ := recLoop_parts hk f file.inChunk p p.recs st st1 h1 hok hf hedge
      have x1 := p1.toX hf
      obtain ⟨x2, e2⟩ := emitStep_post files f file idx p st1 p1.ok _ rfl
      have hf1 : f ∈ st1.visited := p1.mono f hf
      have x12 := x1.trans x2
      have hprev1 : ∀ k p' r, k < idx + 1 → file.parts[k]? = some p' → r ∈ p'.recs →
          follow file.inChunk p' r = true → r.target ∈ st1.visited := by
        intro k p' r hk hp' hr hfo
        by_cases hki : k = idx
        · subst hki
          rw [hp] at hp'; cases hp'
          exact hv1 r hr hfo
        · exact p1.mono _ (hprev k p' r (by omega) hp' hr hfo)
      obtain ⟨x3, t3⟩ := ih (idx + 1) _ st' h x2.ok (x2.mono f hf1)
        (fun j => by have := hidx (j + 1); simp only [List.getElem?_cons_succ] at this; rw [this]; congr 1; omega)
        (fun k p' r hk hp' hr hfo => x2.mono _ (hprev1 k p' r hk hp' hr hfo))
      refine ⟨?_, ?_⟩
      · have := x12.trans x3
        simpa [loopE, loopP] using this
      · intro hfr hs ht
        have hfr1 := FreshE.postX x1 hf hfr
        have hs1 := Hstk.postX x1 hfr hs
        have ht1 := t1 hfr hs ht
        apply t3 (FreshE.postX x12 hf hfr) (Hstk.postX x12 hfr hs)
        rw [e2]
        apply ht1.append
        intro a i k b hm hi hk hfol hnr
        split at hm
        · rename_i hc
          rw [if_pos hc]
          simp only [List.mem_singleton, Prod.mk.injEq] at hm
          obtain ⟨rfl, rfl⟩ := hm
          obtain ⟨file', p', r, hf', _, hp', hr, hfo, rfl⟩ := hfol
          rw [hfile] at hf'; cases hf'
          have hbv := hprev1 k p' r (by omega) hp' hr hfo
          rcases hs1 _ hbv with hd | hreach
          · exact ⟨E st1, [], rfl, hd⟩
          · exact absurd hreach hnr
        · simp at hm

/-- `mark`, `enter`, `finish` only touch what they say -/
theorem enter_parts {file : File} {f : Nat} {st st1 : St} (h : enter file f st = some st1) (hok : ROK st) :
    ROK st1 ∧ st1.visited = st.visited ∧ E st1 = E st ++ headE f file ∧ P st1 = P st := by
  unfold enter at h
  unfold headE
  split at h
  · split at h
    · cases h
    · rename_i p0 ps hps
      cases h
      rw [hps]
      simp only
      split
      · have := expand_extend st.parts f 0 hok.1
        exact ⟨⟨this.2, hok.2⟩, rfl, this.1, rfl⟩
      · exact ⟨hok, rfl, by simp, rfl⟩
  · rename_i hc
    cases h; rw [if_neg hc]; exact ⟨hok, rfl, by simp, rfl⟩

theorem headE_src {f : Nat} {file : File} : ∀ q ∈ headE f file, q.1 = f ∧ q.2 = 0 := by
  intro q hq
  rw [mem_headE] at hq
  rw [hq.1]; exact ⟨rfl, rfl⟩

theorem finish_parts (file : File) (f : Nat) (st : St) (hok : ROK st) :
    ROK (finish file f st) ∧ (finish file f st).visited = st.visited ∧ E (finish file f st) = E st ∧
    P (finish file f st) = P st ++ tailP f file := by
  unfold finish tailP
  cases hin : file.inChunk with
  | false => simp [hok]
  | true =>
    cases hcs : file.canSplit with
    | true =>
      refine ⟨hok, ?_, ?_, ?_⟩ <;> simp [E, P]
    | false =>
      refine ⟨⟨hok.1, ?_⟩, by simp, by simp [E], ?_⟩
      · simp only [if_true, Bool.not_false]
        intro r hr
        rcases List.mem_append.1 hr with hr | hr
        · exact hok.2 r hr
        · simp at hr; subst hr; simp
      · simp only [P, if_true, Bool.not_false, Bool.and_self, expand_append, expand_block]

theorem tailP_src {f : Nat} {file : File} : ∀ q ∈ tailP f file, q.1 = f := by
  intro q hq
  unfold tailP at hq
  split at hq
  · exact ((mem_block _ _ _).1 hq).1
  · simp at hq

/-- the traversal of one file, at part granularity -/
theorem visit_parts (files : List File) : ∀ fuel, KSpec files (visit files fuel) := by
  intro fuel
  induction fuel with
  | zero => intro c st st' h; simp [visit] at h
  | succ fuel ih =>
    intro f st st' h hok
    unfold visit at h
    by_cases hc : st.visited.contains f = true
    · rw [if_pos hc] at h
      cases h
      exact ⟨PPost.rfl' hok, by simpa using hc, fun _ _ h => h⟩
    · rw [if_neg hc] at h
      have hnv : f ∉ st.visited := by simpa using hc
      cases hfile : files[f]? with
      | none => simp [hfile] at h
      | some file =>
        simp only [hfile] at h
        have hmono : ∀ x ∈ st.visited, x ∈ (mark f st).visited := fun x hx => by simp [mark, hx]
        by_cases hjs : file.isJS = true
        · simp only [hjs, Bool.not_true, Bool.false_eq_true, if_false] at h
          cases hen : enter file f (mark f st) with
          | none => simp [hen] at h
          | some st1 =>
            simp only [hen] at h
            cases hpl : partLoop (visit files fuel) f file 0 file.parts st1 with
            | none => simp [hpl] at h
            | some st2 =>
              simp only [hpl, Option.some.injEq] at h
              subst h
              have hok0 : ROK (mark f st) := hok
              obtain ⟨hok1, hv1, hE1, hP1⟩ := enter_parts hen hok0
              have hf1 : f ∈ st1.visited := by rw [hv1]; simp [mark]
              obtain ⟨x2, t2⟩ := partLoop_parts ih f file hfile hjs file.parts 0 st1 st2 hpl hok1 hf1
                (fun j => by simp) (fun k _ _ hk => absurd hk (Nat.not_lt_zero k))
              obtain ⟨hok3, hv3, hE3, hP3⟩ := finish_parts file f st2 x2.ok
              obtain ⟨nE, eE, sE⟩ := x2.segE
              obtain ⟨nP, eP, sP⟩ := x2.segP
              have hfv : f ∈ (finish file f st2).visited := by rw [hv3]; exact x2.mono f hf1
              have hmono' : ∀ x ∈ st.visited, x ∈ (finish file f st2).visited := by
                intro x hx; rw [hv3]; apply x2.mono; rw [hv1]; exact hmono x hx
              have hnew : ∀ x, x ≠ f → ((x ∈ st2.visited ∧ x ∉ st1.visited) ↔
                  (x ∈ (finish file f st2).visited ∧ x ∉ st.visited)) := by
                intro x hx
                rw [hv3, hv1]
                simp [mark, hx]
              refine ⟨⟨hok3, hmono', ⟨headE f file ++ nE, ?_, ?_⟩, ⟨nP ++ tailP f file, ?_, ?_⟩⟩, hfv, ?_⟩
              · rw [hE3, eE, hE1]; simp [E, mark]
              · intro x
                rw [onFile_append, sE x]
                by_cases hx : x = f
                · subst hx
                  rw [onFile_eq_self (fun q hq => (headE_src q hq).1)]
                  simp [hfv, hnv, emitE, hfile, hjs]
                · rw [onFile_eq_nil (fun q hq => by rw [(headE_src q hq).1]; exact fun e => hx e.symm)]
                  simp only [hx, if_false, List.nil_append]
                  by_cases hn : x ∈ st2.visited ∧ x ∉ st1.visited
                  · rw [if_pos hn, if_pos ((hnew x hx).1 hn)]
                  · rw [if_neg hn, if_neg (fun h' => hn ((hnew x hx).2 h'))]
              · rw [hP3, eP, hP1]; simp [P, mark]
              · intro x
                rw [onFile_append, sP x]
                by_cases hx : x = f
                · subst hx
                  rw [onFile_eq_self (fun q hq => tailP_src q hq)]
                  simp [hfv, hnv, emitP, hfile, hjs]
                · rw [onFile_eq_nil (l := tailP f file) (fun q hq => by rw [tailP_src q hq]; exact fun e => hx e.symm)]
                  simp only [hx, if_false, List.append_nil]
                  by_cases hn : x ∈ st2.visited ∧ x ∉ st1.visited
                  · rw [if_pos hn, if_pos ((hnew x hx).1 hn)]
                  · rw [if_neg hn, if_neg (fun h' => hn ((hnew x hx).2 h'))]
              · intro hfr hs ht
                rw [hE3]
                have hE0 : E (mark f st) = E st := rfl
                apply t2
                · intro q hq
                  rw [hE1] at hq
                  rw [hv1]
                  rcases List.mem_append.1 hq with hq | hq
                  · exact hmono _ (hfr q hq)
                  · rw [(headE_src q hq).1]; simp [mark]
                · intro y hy
                  rw [hv1] at hy
                  by_cases hyf : y = f
                  · subst hyf; exact Or.inr (.refl _)
                  · have hy' : y ∈ st.visited := by simpa [mark, hyf] using hy
                    rcases hs y hy' with hd | hr
                    · left
                      unfold Done at hd ⊢
                      rw [hE1, onFile_append, hE0, hd,
                        onFile_eq_nil (fun q hq => by rw [(headE_src q hq).1]; exact fun e => hyf e.symm)]
                      simp
                    · exact Or.inr hr
                · rw [hE1, hE0]
                  apply ht.append
                  intro a i k b hm hi
                  exact absurd (headE_src _ hm).2 hi
        · have hjs' : file.isJS = false := by simpa using hjs
          simp only [hjs', Bool.not_false, if_true, Option.some.injEq] at h
          subst h
          refine ⟨⟨hok, hmono, ⟨[], by simp [E, mark], ?_⟩, ⟨[], by simp [P, mark], ?_⟩⟩, by simp [mark], fun _ _ h => h⟩
          · intro x
            by_cases hx : x = f
            · subst hx; simp [onFile, emitE, hfile, hjs']
            · simp [onFile, mark, hx]
          · intro x
            by_cases hx : x = f
            · subst hx; simp [onFile, emitP, hfile, hjs']
            · simp [onFile, mark, hx]
