/-
Lemmas/MiniJSIf — MangleIfExpr preserves the full behaviour of the conditional: every rule separately, then
the recursive function.
-/
import EsbuildModel.Lemmas.MiniJSSbe
namespace EsbuildModel.MiniJS

theorem firstSome_some : ∀ (l : List (Option Expr)) (r : Expr), firstSome l = some r → some r ∈ l
  | [], r, h => by simp [firstSome] at h
  | some x :: rest, r, h => by simp [firstSome] at h; subst h; simp
  | none :: rest, r, h => by
    simp only [firstSome] at h
    exact List.mem_cons_of_mem _ (firstSome_some rest r h)

theorem boolOf?_some (e : Expr) (b : Bool) (h : boolOf? e = some b) : e = .bool b := by
  cases e <;> simp [boolOf?] at h; subst h; rfl

theorem isNull_true (e : Expr) (h : isNull e = true) : e = .null := by
  cases e <;> simp [isNull] at h; rfl

theorem cond_pure_same (w : World) (a b b2 : Expr) (hp : Pure w a) (h : EvalEq w b b2) :
    EvalEq w (.cond a b b2) b := by
  intro tr
  obtain ⟨v, hv⟩ := hp tr
  simp only [eval, hv, bind_val, ← h tr, ite_self]

theorem ruleSame_sound (w : World) (ub : Nat → Bool) (H : BoundOK w ub) (test yes no r : Expr)
    (h : ruleSame ub test yes no = some r) : EvalEq w (.cond test yes no) r := by
  simp only [ruleSame] at h
  split at h
  · rename_i hv
    have he := vlts_sound w yes no hv
    split at h
    · rename_i hr
      simp at h; subst h
      exact cond_pure_same w test yes no (rm_sound w ub H test hr) he
    · simp at h; subst h
      exact law_same_branches w test yes no he
  · simp at h

theorem ruleBools_sound (w : World) (test yes no r : Expr)
    (h : ruleBools test yes no = some r) : EvalEq w (.cond test yes no) r := by
  simp only [ruleBools] at h
  split at h
  · rename_i y n hy hn
    have e1 := boolOf?_some _ _ hy
    have e2 := boolOf?_some _ _ hn
    subst e1 e2
    split at h
    · rename_i hc
      simp at h; subst h
      simp at hc; obtain ⟨rfl, rfl⟩ := hc
      exact (law_true_false w test).trans
        ((notExpr_equiv w test).symm.unaryNot.trans (notExpr_equiv w (notExpr test)).symm)
    · split at h
      · rename_i hc
        simp at h; subst h
        simp at hc; obtain ⟨rfl, rfl⟩ := hc
        exact (law_false_true w test).trans (notExpr_equiv w test).symm
      · simp at h
  · simp at h

theorem law_ident_or (w : World) (x : Nat) (b : Expr) :
    EvalEq w (.cond (.ident x) (.ident x) b) (.binary .or (.ident x) b) := by
  intro tr
  rw [eval_or]
  simp only [eval]
  cases hr : w.read tr x with
  | none => simp
  | some v => simp; split <;> simp_all

theorem law_ident_and (w : World) (x : Nat) (b : Expr) :
    EvalEq w (.cond (.ident x) b (.ident x)) (.binary .and (.ident x) b) := by
  intro tr
  rw [eval_and]
  simp only [eval]
  cases hr : w.read tr x with
  | none => simp
  | some v => simp; split <;> simp_all

theorem ruleIdent_sound (w : World) (test yes no r : Expr)
    (h : ruleIdent test yes no = some r) : EvalEq w (.cond test yes no) r := by
  simp only [ruleIdent] at h
  split at h
  · rename_i id hid
    have e1 := identOf?_some _ _ hid
    subst e1
    split at h
    · rename_i hy
      have e2 := identOf?_some _ _ hy
      subst e2
      simp at h; subst h
      exact (law_ident_or w id no).trans (join_equiv w .or rfl _ _).symm
    · split at h
      · rename_i hn
        have e2 := identOf?_some _ _ hn
        subst e2
        simp at h; subst h
        exact (law_ident_and w id yes).trans (join_equiv w .and rfl _ _).symm
      · simp at h
  · simp at h

theorem ruleR4_sound (w : World) (test yes no r : Expr)
    (h : ruleR4 test yes no = some r) : EvalEq w (.cond test yes no) r := by
  simp only [ruleR4] at h
  split at h
  · split at h
    · rename_i yc yy yn hv
      simp at h; subst h
      exact (law_R4 w test yc yy yn no (vlts_sound w _ _ hv)).trans
        (BoolEq.cond (join_equiv w .and rfl test yc).symm.toBool yy no)
    · simp at h
  · simp at h

theorem ruleR5_sound (w : World) (test yes no r : Expr)
    (h : ruleR5 test yes no = some r) : EvalEq w (.cond test yes no) r := by
  simp only [ruleR5] at h
  split at h
  · split at h
    · rename_i nc ny nn hv
      simp at h; subst h
      exact (law_R5 w test yes ny nc nn (vlts_sound w _ _ hv)).trans
        (BoolEq.cond (join_equiv w .or rfl test nc).symm.toBool yes nn)
    · simp at h
  · simp at h

theorem ruleR6_sound (w : World) (test yes no r : Expr)
    (h : ruleR6 test yes no = some r) : EvalEq w (.cond test yes no) r := by
  simp only [ruleR6] at h
  split at h
  · split at h
    · rename_i op l r2 hc
      obtain ⟨rfl, hv⟩ := hc
      simp at h; subst h
      exact (law_R6 w test l yes r2 (vlts_sound w _ _ hv)).trans
        (EvalEq.binary .comma (join_equiv w .or rfl test l).symm (EvalEq.refl w _))
    · simp at h
  · simp at h

theorem ruleR7_sound (w : World) (test yes no r : Expr)
    (h : ruleR7 test yes no = some r) : EvalEq w (.cond test yes no) r := by
  simp only [ruleR7] at h
  split at h
  · split at h
    · rename_i op l r2 hc
      obtain ⟨rfl, hv⟩ := hc
      simp at h; subst h
      exact (law_R7 w test l r2 no (vlts_sound w _ _ hv)).trans
        (EvalEq.binary .comma (join_equiv w .and rfl test l).symm (EvalEq.refl w _))
    · simp at h
  · simp at h

theorem ruleR8_sound (w : World) (test yes no r : Expr)
    (h : ruleR8 test yes no = some r) : EvalEq w (.cond test yes no) r := by
  simp only [ruleR8] at h
  split at h
  · split at h
    · rename_i op l r2 hc
      obtain ⟨rfl, hv⟩ := hc
      simp at h; subst h
      exact (law_R8 w test l r2 no (vlts_sound w _ _ hv)).trans
        (EvalEq.binary .or (join_equiv w .and rfl test l).symm (EvalEq.refl w _))
    · simp at h
  · simp at h

theorem ruleR9_sound (w : World) (test yes no r : Expr)
    (h : ruleR9 test yes no = some r) : EvalEq w (.cond test yes no) r := by
  simp only [ruleR9] at h
  split at h
  · split at h
    · rename_i op l r2 hc
      obtain ⟨rfl, hv⟩ := hc
      simp at h; subst h
      exact (law_R9 w test l yes r2 (vlts_sound w _ _ hv)).trans
        (EvalEq.binary .and (join_equiv w .or rfl test l).symm (EvalEq.refl w _))
    · simp at h
  · simp at h

theorem mangleIfRulesA_sound (w : World) (ub : Nat → Bool) (H : BoundOK w ub) (test yes no r : Expr)
    (h : mangleIfRulesA ub test yes no = some r) : EvalEq w (.cond test yes no) r := by
  have hm := firstSome_some _ _ h
  simp only [List.mem_cons, List.mem_nil_iff, or_false] at hm
  rcases hm with h | h | h | h | h | h | h | h | h
  · exact ruleSame_sound w ub H _ _ _ _ h.symm
  · exact ruleBools_sound w _ _ _ _ h.symm
  · exact ruleIdent_sound w _ _ _ _ h.symm
  · exact ruleR4_sound w _ _ _ _ h.symm
  · exact ruleR5_sound w _ _ _ _ h.symm
  · exact ruleR6_sound w _ _ _ _ h.symm
  · exact ruleR7_sound w _ _ _ _ h.symm
  · exact ruleR8_sound w _ _ _ _ h.symm
  · exact ruleR9_sound w _ _ _ _ h.symm


-- ---------------------------------------------------------------- the `??` rule

theorem looseEq_null_right (w : World) (v : Val) (tr : Trace) :
    looseEq w v .null tr = (.val v.nullish, tr) := by
  cases v <;> simp [looseEq, looseEqPrim, boolToNum, Val.nullish]

theorem looseEq_null_left (w : World) (v : Val) (tr : Trace) :
    looseEq w .null v tr = (.val v.nullish, tr) := by
  cases v <;> simp [looseEq, looseEqPrim, boolToNum, Val.nullish]

/-- truthiness of the four null tests on a pure operand -/
theorem evalBool_nulltest (w : World) (a : Expr) (v : Val) (tr : Trace) (hv : eval w a tr = (.val v, tr)) :
    evalBool w (.binary .looseEq a .null) tr = (.val v.nullish, tr) ∧
    evalBool w (.binary .looseEq .null a) tr = (.val v.nullish, tr) ∧
    evalBool w (.binary .looseNe a .null) tr = (.val (!v.nullish), tr) ∧
    evalBool w (.binary .looseNe .null a) tr = (.val (!v.nullish), tr) := by
  simp [evalBool_eq, eval, hv, BinOp.short, applyBinary, looseEq_null_right, looseEq_null_left, toBoolean]

/-- "a == null ? b : a" is "a ?? b" when `a` is pure (the copy `a2` looks the same) -/
theorem law_nullish (w : World) (test check a2 wn : Expr) (hp : Pure w check) (he : EvalEq w check a2)
    (ht : ∀ tr v, eval w check tr = (.val v, tr) → evalBool w test tr = (.val v.nullish, tr)) :
    EvalEq w (.cond test wn a2) (.binary .nullish check wn) := by
  intro tr
  obtain ⟨v, hv⟩ := hp tr
  rw [eval_cond, ht tr v hv, eval_nullish, hv, bind_val, bind_val, ← he tr, hv]

theorem law_nullish_ne (w : World) (test check a2 wn : Expr) (hp : Pure w check) (he : EvalEq w check a2)
    (ht : ∀ tr v, eval w check tr = (.val v, tr) → evalBool w test tr = (.val (!v.nullish), tr)) :
    EvalEq w (.cond test a2 wn) (.binary .nullish check wn) := by
  intro tr
  obtain ⟨v, hv⟩ := hp tr
  rw [eval_cond, ht tr v hv, eval_nullish, hv, bind_val, bind_val, ← he tr, hv]
  cases v.nullish <;> rfl

theorem mangleIfRulesB_sound (w : World) (ub : Nat → Bool) (H : BoundOK w ub) (nullishOK : Bool)
    (test yes no : Expr) : EvalEq w (.cond test yes no) (mangleIfRulesB ub nullishOK test yes no) := by
  simp only [mangleIfRulesB]
  split
  · rename_i op bl br
    split
    · rename_i check whenNull whenNonNull hsel
      split
      · rename_i hc
        simp only [Bool.and_eq_true] at hc
        obtain ⟨⟨hrm, -⟩, hv⟩ := hc
        have hp := rm_sound w ub H check hrm
        have he := vlts_sound w check whenNonNull hv
        refine EvalEq.trans ?_ (join_equiv w .nullish rfl check whenNull).symm
        cases op <;> simp at hsel
        case looseEq =>
          split at hsel
          · rename_i hn
            have := isNull_true _ hn; subst this
            simp at hsel; obtain ⟨rfl, rfl, rfl⟩ := hsel
            exact law_nullish w _ _ _ _ hp he (fun tr v hv => (evalBool_nulltest w _ v tr hv).1)
          · split at hsel
            · rename_i hn
              have := isNull_true _ hn; subst this
              simp at hsel; obtain ⟨rfl, rfl, rfl⟩ := hsel
              exact law_nullish w _ _ _ _ hp he (fun tr v hv => (evalBool_nulltest w _ v tr hv).2.1)
            · simp at hsel
        case looseNe =>
          split at hsel
          · rename_i hn
            have := isNull_true _ hn; subst this
            simp at hsel; obtain ⟨rfl, rfl, rfl⟩ := hsel
            exact law_nullish_ne w _ _ _ _ hp he (fun tr v hv => (evalBool_nulltest w _ v tr hv).2.2.1)
          · split at hsel
            · rename_i hn
              have := isNull_true _ hn; subst this
              simp at hsel; obtain ⟨rfl, rfl, rfl⟩ := hsel
              exact law_nullish_ne w _ _ _ _ hp he (fun tr v hv => (evalBool_nulltest w _ v tr hv).2.2.2)
            · simp at hsel
      · exact EvalEq.refl w _
    · exact EvalEq.refl w _
  · exact EvalEq.refl w _


-- ---------------------------------------------------------------- the call rule and the main theorem

/-- "a ? f(c, d) : f(e, d)" => "f(a ? c : e, d)" when `a` and `f` are pure -/
theorem law_call (w : World) (test fy fn ay an m : Expr) (ry rn : Args) (hpt : Pure w test) (hpf : Pure w fy)
    (hf : EvalEq w fy fn) (hr : ∀ tr, evalArgs w ry tr = evalArgs w rn tr)
    (hm : EvalEq w (.cond test ay an) m) :
    EvalEq w (.cond test (.call fy (.cons ay ry)) (.call fn (.cons an rn))) (.call fy (.cons m ry)) := by
  intro tr
  obtain ⟨vt, hvt⟩ := hpt tr
  obtain ⟨vf, hvf⟩ := hpf tr
  have hvf2 : eval w fn tr = (.val vf, tr) := by rw [← hf tr, hvf]
  have hm' := hm tr
  simp only [eval, hvt, bind_val] at hm'
  simp only [eval, evalArgs, hvt, hvf, hvf2, bind_val, ← hm', hr]
  cases toBoolean vt <;> rfl

mutual
theorem mangleIfExpr_sound (w : World) (ub : Nat → Bool) (H : BoundOK w ub) (nullishOK : Bool) (c y n : Expr) :
    EvalEq w (.cond c y n) (mangleIfExpr ub nullishOK c y n) := by
  cases c with
  | binary op cl cr =>
    rw [mangleIfExpr.eq_def]
    simp only
    split
    · rename_i hop; subst hop
      exact (law_comma_test w cl cr y n).trans
        (EvalEq.binary .comma (EvalEq.refl w cl) (mangleIfExpr_sound w ub H nullishOK cr y n))
    · exact mangleIfCore_sound w ub H nullishOK _ y n
  | unary op v =>
    rw [mangleIfExpr.eq_def]
    simp only
    split
    · rename_i hop; subst hop
      exact (law_not_test w v y n).trans (mangleIfCore_sound w ub H nullishOK v n y)
    · exact mangleIfCore_sound w ub H nullishOK _ y n
  | _ =>
    rw [mangleIfExpr.eq_def]
    exact mangleIfCore_sound w ub H nullishOK _ y n
termination_by 2 * (c.size + y.size + n.size) + 1
decreasing_by all_goals (try simp only [Expr.size]); all_goals omega
theorem mangleIfCore_sound (w : World) (ub : Nat → Bool) (H : BoundOK w ub) (nullishOK : Bool)
    (test yes no : Expr) : EvalEq w (.cond test yes no) (mangleIfCore ub nullishOK test yes no) := by
  rw [mangleIfCore.eq_def]
  split
  · rename_i r hr
    exact mangleIfRulesA_sound w ub H test yes no r hr
  · by_cases hcall : ∃ fy ay ry fn an rn, yes = .call fy (.cons ay ry) ∧ no = .call fn (.cons an rn)
    · obtain ⟨fy, ay, ry, fn, an, rn, hye, hne⟩ := hcall
      rw [hye, hne]
      simp only
      split
      · rename_i hc
        simp only [Bool.and_eq_true, beq_iff_eq] at hc
        obtain ⟨⟨⟨⟨hlen, hvf⟩, hrt⟩, hrf⟩, hargs⟩ := hc
        exact law_call w test fy fn ay an _ ry rn (rm_sound w ub H test hrt) (rm_sound w ub H fy hrf)
          (vlts_sound w fy fn hvf) (alts_sound w ry rn hlen hargs)
          (mangleIfExpr_sound w ub H nullishOK test ay an)
      · exact mangleIfRulesB_sound w ub H nullishOK test _ _
    · split
      · exact absurd ⟨_, _, _, _, _, _, rfl, rfl⟩ hcall
      · exact mangleIfRulesB_sound w ub H nullishOK test yes no
termination_by 2 * (test.size + yes.size + no.size)
decreasing_by
  all_goals (try subst_vars)
  all_goals (try simp only [Expr.size, Args.size])
  all_goals omega
end

end EsbuildModel.MiniJS
