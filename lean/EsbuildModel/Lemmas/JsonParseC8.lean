import EsbuildModel.Lemmas.JsonParseC7
/-
Completeness of the parser: the recursion on the derivation (arrays; objects are in the next file's part).
-/
namespace EsbuildModel.Json
open EsbuildModel.Spec.Json EsbuildModel.Spec.NumLit

section
variable {P : Params} {Rd : Rat → F64} (hP : ParamsOK P Rd) (o : Opts)

theorem elemsS1_ok {d : Dialect} {es : Elems} (h : es.ok d = true) : Sep.ok d false false (elemsS1 es) = true := by
  cases es <;> simp only [Elems.ok, Bool.and_eq_true] at h <;> exact h.1.1.1

theorem membersS1_ok {d : Dialect} {ms : Members} (h : ms.ok d = true) : Sep.ok d false false (membersS1 ms) = true := by
  cases ms <;> simp only [Members.ok, Bool.and_eq_true] at h <;> exact h.1.1.1.1.1.1

theorem elemsTail_stop (es : Elems) (h : es.ok (dialectOf o.flavor) = true) (x : List Cp) :
    SepStop (cps (elemsTail es) ++ x) := by
  cases es with
  | last s1 v s2 tr =>
    simp only [Elems.ok, Bool.and_eq_true] at h
    simp only [elemsTail, cps_append, List.append_assoc]
    exact val_head_stop o.flavor v h.1.1.2 _
  | cons s1 v s2 rest =>
    simp only [Elems.ok, Bool.and_eq_true] at h
    simp only [elemsTail, cps_append, List.append_assoc]
    exact val_head_stop o.flavor v h.1.1.2 _

theorem membersTail_stop (ms : Members) (x : List Cp) : SepStop (cps (membersTail ms) ++ x) := by
  cases ms <;> exact sepStop_of_punct (c := '"') (by simp)

/-- the step of an array loop that reads `, ws` and goes on with the next element -/
theorem arr_comma_step (m : Nat) (L1v : Lx) (s2 s1' : List SepItem) (inp : List Cp) (items : List Ast) (single : Bool)
    (hrest : L1v.rest = cps (Sep.render s2) ++ cpOf ',' :: (cps (Sep.render s1') ++ inp))
    (hcl : L1v.log.Clean) (hend : 0 < L1v.end_) (hs2 : Sep.ok (dialectOf o.flavor) false false s2 = true)
    (hs1 : Sep.ok (dialectOf o.flavor) false false s1' = true) (hstop : SepStop inp) (hne : items ≠ []) :
    ∃ Lm sk' , sk'.log.Clean ∧ 0 < sk'.pos ∧
      ∀ L2, lexAt o.flavor P Lm sk' inp = .ok L2 → L2.tok ≠ .closeBracket → L2.nl = sk'.nl →
        (next o.flavor P L1v).bind (fun L' => arrLoop o P (m + 1) L' items single) =
          (parseExpr o P m L2).bind (fun p => arrLoop o P m p.2 (items ++ [p.1])
            (if sk'.nl then false else if Lm.nl then false else single)) := by
  obtain ⟨Lm, c1, c2, c3, c4, c5⟩ := punct_next o.flavor P L1v s2 ',' .comma (cps (Sep.render s1') ++ inp)
    hrest hcl hend hs2 (by simp)
  have he : (Lm.end_ == 0) = false := by simp; omega
  obtain ⟨log', n1, n2⟩ := next_at o.flavor P Lm s1' inp false c3 (by rw [he]; exact hs1) c4 (by simp) hstop
  refine ⟨Lm, ⟨Lm.end_ + widths (cps (Sep.render s1')), (Lm.end_ == 0) || sepNl s1', log'⟩, n1, by simp only; omega, ?_⟩
  intro L2 hl ht hnl
  have hie : items.isEmpty = false := by cases items <;> simp_all
  rw [c1, R.bind_ok, arrLoop_succ, if_neg (by rw [c2]; simp)]
  simp only [sepStep, hie, Bool.not_false, Bool.not_true, Bool.false_eq_true, if_false, maybeTrailingComma, expect, c2,
    ne_eq, not_true_eq_false, n2, hl, R.bind_ok, ht, if_true, hnl]

/-- the step of an object loop that reads `, ws` and goes on with the next member -/
theorem obj_comma_step (m : Nat) (L1v : Lx) (s2 s1' : List SepItem) (inp : List Cp) (items : List (List Nat × Bool × Ast)) (seen : List (List Nat)) (single : Bool)
    (hrest : L1v.rest = cps (Sep.render s2) ++ cpOf ',' :: (cps (Sep.render s1') ++ inp))
    (hcl : L1v.log.Clean) (hend : 0 < L1v.end_) (hs2 : Sep.ok (dialectOf o.flavor) false false s2 = true)
    (hs1 : Sep.ok (dialectOf o.flavor) false false s1' = true) (hstop : SepStop inp) (hne : items ≠ []) :
    ∃ Lm sk' , sk'.log.Clean ∧ 0 < sk'.pos ∧
      ∀ L2, lexAt o.flavor P Lm sk' inp = .ok L2 → L2.tok ≠ .closeBrace → L2.nl = sk'.nl →
        (next o.flavor P L1v).bind (fun L' => objLoop o P (m + 1) L' items seen single) =
          (keyStep o P L2 seen).bind (fun ks => (parseExpr o P m ks.2.2).bind fun p =>
            objLoop o P m p.2 (items ++ [(ks.1, decide (ks.1 = protoKey) && o.objExt, p.1)]) ks.2.1
              (if sk'.nl then false else if Lm.nl then false else single)) := by
  obtain ⟨Lm, c1, c2, c3, c4, c5⟩ := punct_next o.flavor P L1v s2 ',' .comma (cps (Sep.render s1') ++ inp)
    hrest hcl hend hs2 (by simp)
  have he : (Lm.end_ == 0) = false := by simp; omega
  obtain ⟨log', n1, n2⟩ := next_at o.flavor P Lm s1' inp false c3 (by rw [he]; exact hs1) c4 (by simp) hstop
  refine ⟨Lm, ⟨Lm.end_ + widths (cps (Sep.render s1')), (Lm.end_ == 0) || sepNl s1', log'⟩, n1, by simp only; omega, ?_⟩
  intro L2 hl ht hnl
  have hie : items.isEmpty = false := by cases items <;> simp_all
  rw [c1, R.bind_ok, objLoop_succ, if_neg (by rw [c2]; simp)]
  simp only [sepStep, hie, Bool.not_false, Bool.not_true, Bool.false_eq_true, if_false, maybeTrailingComma, expect, c2,
    ne_eq, not_true_eq_false, n2, hl, R.bind_ok, ht, if_true, hnl]

end
end EsbuildModel.Json
