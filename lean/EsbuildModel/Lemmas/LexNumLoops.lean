import EsbuildModel.Lemmas.LexNumBase
/-
The scanning loops of the lexer model: what an accepting run looks like (soundness) and that every run of the right
shape is accepted (completeness).
-/
namespace EsbuildModel.LexNum
open EsbuildModel.Spec.Num EsbuildModel.Spec.NumLit

/-- the head of the remaining input is neither accepted by `isD` nor an underscore (or the input is at its end) -/
def StopAt (isD : Char → Bool) (r : List Char) : Prop :=
  ∀ c r', r = c :: r' → isD c = false ∧ c ≠ '_'

theorem stopAt_nil (isD : Char → Bool) : StopAt isD [] := by intro c r' h; cases h

/-- what a loop did: it consumed `run` -/
structure Seg (cs : List Char) (st : St) (run r : List Char) (st' : St) : Prop where
  split : cs = run ++ r
  end_ : st'.end_ = st.end_ + run.length
  inv : Inv st'
  count : st'.usCount = st.usCount + run.count '_'

theorem digLoop_ok {il : Bool} {cs : List Char} {st : St} {r : List Char} {st' : St}
    (hinv : Inv st) (h : digLoop il cs st = .ok (r, st')) :
    ∃ run, Seg cs st run r st' ∧ runOK isDig st.prevUS run = some st'.prevUS ∧ StopAt isDig r ∧
      (il = true → ∀ c ∈ run, c ≠ '_') := by
  induction cs generalizing st with
  | nil =>
    simp only [digLoop, Except.ok.injEq, Prod.mk.injEq] at h
    obtain ⟨rfl, rfl⟩ := h
    exact ⟨[], ⟨rfl, by simp, hinv, by simp⟩, by simp [runOK], stopAt_nil _, by simp⟩
  | cons c cs ih =>
    simp only [digLoop] at h
    split at h
    · rename_i hd
      obtain ⟨run, hseg, hrun, hstop, hil⟩ := ih (inv_step hinv) h
      have hc : c ≠ '_' := by rintro rfl; revert hd; decide
      refine ⟨c :: run, ⟨by rw [hseg.split]; rfl, by rw [hseg.end_]; simp; omega, hseg.inv, ?_⟩, ?_, hstop, ?_⟩
      · rw [hseg.count, List.count_cons]; simp [hc]
      · rw [prevUS_step hinv] at hrun
        simp [runOK, hd, hrun]
      · intro h1 x hx
        rcases List.mem_cons.1 hx with rfl | hx
        · exact hc
        · exact hil h1 x hx
    · rename_i hd
      split at h
      · rename_i hc
        simp only [Except.ok.injEq, Prod.mk.injEq] at h
        obtain ⟨rfl, rfl⟩ := h
        refine ⟨[], ⟨rfl, by simp, hinv, by simp⟩, by simp [runOK], ?_, by simp⟩
        intro x r' hx
        cases hx
        exact ⟨by simpa using hd, hc⟩
      · rename_i hc
        have hc : c = '_' := by simpa using hc
        subst hc
        split at h
        · cases h
        · rename_i hp
          split at h
          · cases h
          · rename_i hil0
            obtain ⟨run, hseg, hrun, hstop, hil⟩ := ih (inv_us_step hinv) h
            refine ⟨'_' :: run, ⟨by rw [hseg.split]; rfl, by rw [hseg.end_]; simp; omega, hseg.inv, ?_⟩, ?_, hstop, ?_⟩
            · rw [hseg.count, List.count_cons]; simp; omega
            · rw [prevUS_us_step hinv] at hrun
              have hp : st.prevUS = false := by simpa using hp
              simp [runOK, hd, hp, hrun]
            · intro h1; exact absurd h1 hil0

theorem digLoop_complete {il : Bool} {run r : List Char} {st : St} {p' : Bool}
    (hinv : Inv st) (hrun : runOK isDig st.prevUS run = some p') (hstop : StopAt isDig r)
    (hil : il = true → ∀ c ∈ run, c ≠ '_') :
    ∃ st', digLoop il (run ++ r) st = .ok (r, st') ∧ Seg (run ++ r) st run r st' ∧ st'.prevUS = p' := by
  induction run generalizing st with
  | nil =>
    simp only [runOK, Option.some.injEq] at hrun
    refine ⟨st, ?_, ⟨rfl, by simp, hinv, by simp⟩, hrun⟩
    cases r with
    | nil => simp [digLoop]
    | cons c r' =>
      obtain ⟨h1, h2⟩ := hstop c r' rfl
      simp [digLoop, h1, h2]
  | cons c run ih =>
    simp only [runOK] at hrun
    by_cases hd : isDig c = true
    · simp only [hd, if_true] at hrun
      have hc : c ≠ '_' := by rintro rfl; revert hd; decide
      have hrun' : runOK isDig st.step.prevUS run = some p' := by rw [prevUS_step hinv]; exact hrun
      obtain ⟨st', h1, hseg, hp⟩ := ih (inv_step hinv) hrun' (fun h x hx => hil h x (List.mem_cons_of_mem _ hx))
      refine ⟨st', by simp [digLoop, hd, h1], ⟨rfl, by rw [hseg.end_]; simp; omega, hseg.inv, ?_⟩, hp⟩
      rw [hseg.count, List.count_cons]; simp [hc]
    · have hd : isDig c = false := by simpa using hd
      simp only [hd] at hrun
      by_cases hc : c = '_'
      · subst hc
        cases hp : st.prevUS with
        | true => simp [hp] at hrun
        | false =>
          simp [hp] at hrun
          have hrun' : runOK isDig st.us.step.prevUS run = some p' := by rw [prevUS_us_step hinv]; exact hrun
          have hil0 : il = false := by
            cases il with
            | false => rfl
            | true => exact absurd rfl (hil rfl '_' List.mem_cons_self)
          subst hil0
          obtain ⟨st', h1, hseg, hp'⟩ := ih (inv_us_step hinv) hrun' (fun h => by cases h)
          refine ⟨st', by simp [digLoop, hd, hp, h1], ⟨rfl, by rw [hseg.end_]; simp; omega, hseg.inv, ?_⟩, hp'⟩
          rw [hseg.count, List.count_cons]; simp; omega
      · simp [hc] at hrun

end EsbuildModel.LexNum
