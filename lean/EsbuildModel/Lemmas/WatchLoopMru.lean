import EsbuildModel.Lemmas.WatchLoop
/-
List lemmas for the "most recently used" reading of `recentItems`: `dedupKeepLast` (distinct elements of a history in the
order of their last occurrence) grows by `touch` (move to the back, or append), and a window of the last `n` elements of a
duplicate-free list follows a `touch` exactly the way `tryToFindDirtyPath` updates `recentItems`.
-/
namespace EsbuildModel.WatchLoop

set_option linter.unusedSectionVars false

variable {α : Type} [DecidableEq α]

/-- move `p` to the back (appending it if it is new) -/
def touch (l : List α) (p : α) : List α := l.erase p ++ [p]

theorem mem_dedupKeepLast {x : α} : ∀ {l : List α}, x ∈ dedupKeepLast l ↔ x ∈ l
  | [] => by simp [dedupKeepLast]
  | y :: ys => by
    unfold dedupKeepLast
    split
    · rename_i hy
      rw [mem_dedupKeepLast (l := ys)]
      constructor
      · intro h; exact List.mem_cons_of_mem _ h
      · intro h
        rcases List.mem_cons.mp h with rfl | h
        · exact hy
        · exact h
    · rw [List.mem_cons, List.mem_cons, mem_dedupKeepLast (l := ys)]

theorem nodup_dedupKeepLast : ∀ (l : List α), (dedupKeepLast l).Nodup
  | [] => by simp [dedupKeepLast]
  | y :: ys => by
    unfold dedupKeepLast
    split
    · exact nodup_dedupKeepLast ys
    · rename_i hy
      exact List.nodup_cons.mpr ⟨fun h => hy (mem_dedupKeepLast.mp h), nodup_dedupKeepLast ys⟩

theorem dedupKeepLast_of_nodup : ∀ {l : List α}, l.Nodup → dedupKeepLast l = l
  | [], _ => rfl
  | y :: ys, h => by
    have ⟨hy, hys⟩ := List.nodup_cons.mp h
    unfold dedupKeepLast
    rw [if_neg hy, dedupKeepLast_of_nodup hys]

theorem dedupKeepLast_append_singleton (p : α) : ∀ (l : List α),
    dedupKeepLast (l ++ [p]) = touch (dedupKeepLast l) p
  | [] => by simp [dedupKeepLast, touch]
  | x :: xs => by
    have ih := dedupKeepLast_append_singleton p xs
    unfold touch at ih ⊢
    show dedupKeepLast (x :: (xs ++ [p])) = _
    by_cases hxp : x = p
    · subst hxp
      have h1 : x ∈ xs ++ [x] := by simp
      rw [dedupKeepLast, if_pos h1, ih]
      by_cases hx : x ∈ xs
      · rw [dedupKeepLast, if_pos hx]
      · rw [dedupKeepLast, if_neg hx]
        have : x ∉ dedupKeepLast xs := fun h => hx (mem_dedupKeepLast.mp h)
        rw [List.erase_cons_head, List.erase_of_not_mem this]
    · by_cases hx : x ∈ xs
      · have h1 : x ∈ xs ++ [p] := by simp [hx]
        rw [dedupKeepLast, if_pos h1, ih, dedupKeepLast, if_pos hx]
      · have h1 : x ∉ xs ++ [p] := by simp [hx, hxp]
        rw [dedupKeepLast, if_neg h1, ih, dedupKeepLast, if_neg hx]
        rw [List.erase_cons_tail (by simpa using hxp)]
        rfl

theorem foldl_touch_dedupKeepLast : ∀ (hs A : List α),
    hs.foldl touch (dedupKeepLast A) = dedupKeepLast (A ++ hs)
  | [], A => by simp
  | h :: t, A => by
    rw [List.foldl_cons, ← dedupKeepLast_append_singleton, foldl_touch_dedupKeepLast t (A ++ [h])]
    simp

theorem nodup_touch {D : List α} (hD : D.Nodup) (p : α) : (touch D p).Nodup := by
  unfold touch
  refine List.nodup_append.mpr ⟨hD.erase p, by simp, ?_⟩
  intro a ha b hb
  simp at hb; subst hb
  exact ((hD.mem_erase_iff).mp ha).1

/-! ## windows -/

theorem lastN_of_length_le {n : Nat} {l : List α} (h : l.length ≤ n) : lastN n l = l := by
  unfold lastN
  have : l.length - n = 0 := by omega
  rw [this]; rfl

theorem lastN_append_of_le {n : Nat} (A X : List α) (h : n ≤ X.length) : lastN n (A ++ X) = lastN n X := by
  unfold lastN
  have e : (A ++ X).length - n = A.length + (X.length - n) := by rw [List.length_append]; omega
  rw [e, List.drop_length_add_append]

theorem lastN_split (n : Nat) (D : List α) : D = D.take (D.length - n) ++ lastN n D :=
  (List.take_append_drop _ _).symm

theorem length_lastN (n : Nat) (D : List α) : (lastN n D).length = min n D.length := by
  unfold lastN; rw [List.length_drop]; omega

theorem nodup_lastN {n : Nat} {D : List α} (h : D.Nodup) : (lastN n D).Nodup :=
  h.sublist (List.drop_sublist _ _)

theorem lastN_lastN_append (n : Nat) (D Y : List α) : lastN n (lastN n D ++ Y) = lastN n (D ++ Y) := by
  by_cases h : D.length ≤ n
  · rw [lastN_of_length_le h]
  · have hR : (lastN n D).length = n := by rw [length_lastN]; omega
    have e : D ++ Y = D.take (D.length - n) ++ (lastN n D ++ Y) := by
      rw [← List.append_assoc, ← lastN_split n D]
    rw [e, lastN_append_of_le (D.take (D.length - n)) (lastN n D ++ Y) (by rw [List.length_append]; omega)]

/-- the touched element is in the window: the window moves it to its back -/
theorem lastN_touch_mem {n : Nat} {D : List α} (hD : D.Nodup) {p : α} (hp : p ∈ lastN n D) :
    lastN n (touch D p) = touch (lastN n D) p := by
  have hsplit := lastN_split n D
  generalize hA : D.take (D.length - n) = A at hsplit
  generalize hR : lastN n D = R at hsplit hp
  have hlenR : R.length = min n D.length := by rw [← hR]; exact length_lastN n D
  subst hsplit
  have hpA : p ∉ A := fun h => (List.nodup_append.mp hD).2.2 p h p hp rfl
  unfold touch
  rw [List.erase_append_right _ hpA, List.append_assoc]
  have hRpos : 0 < R.length := List.length_pos_iff.mpr (List.ne_nil_of_mem hp)
  have hlen : (R.erase p ++ [p]).length = R.length := by
    rw [List.length_append, List.length_erase_of_mem hp]; simp; omega
  by_cases hAnil : A = []
  · subst hAnil
    simp only [List.nil_append]
    apply lastN_of_length_le
    rw [hlen, hlenR]; exact Nat.min_le_left _ _
  · have hApos : 0 < A.length := List.length_pos_iff.mpr hAnil
    have hRn : R.length = n := by
      rw [List.length_append] at hlenR
      have : (A ++ R).take ((A ++ R).length - n) = A := hA
      have h2 := congrArg List.length this
      rw [List.length_take, List.length_append] at h2
      omega
    rw [lastN_append_of_le _ _ (by rw [hlen]; omega)]
    apply lastN_of_length_le
    rw [hlen]; omega

/-- the touched element is not in the window: it is appended and the window slides -/
theorem lastN_touch_not_mem {n : Nat} {D : List α} (hD : D.Nodup) {p : α} (hp : p ∉ lastN n D) :
    lastN n (touch D p) = lastN n (lastN n D ++ [p]) := by
  by_cases hpD : p ∈ D
  · have hsplit := lastN_split n D
    generalize hA : D.take (D.length - n) = A at hsplit
    generalize hR : lastN n D = R at hsplit hp
    have hlenR : R.length = min n D.length := by rw [← hR]; exact length_lastN n D
    subst hsplit
    have hpA : p ∈ A := by
      rcases List.mem_append.mp hpD with h | h
      · exact h
      · exact absurd h hp
    have hApos : 0 < A.length := List.length_pos_iff.mpr (List.ne_nil_of_mem hpA)
    have hRn : R.length = n := by
      rw [List.length_append] at hlenR
      have : (A ++ R).take ((A ++ R).length - n) = A := hA
      have h2 := congrArg List.length this
      rw [List.length_take, List.length_append] at h2
      omega
    unfold touch
    rw [List.erase_append_left _ hpA, List.append_assoc]
    rw [lastN_append_of_le _ _ (by rw [List.length_append]; omega)]
  · unfold touch
    rw [List.erase_of_not_mem hpD, lastN_lastN_append]

theorem eraseIdx_eq_erase_of_nodup : ∀ (l : List α) (i : Nat) (p : α), l.Nodup → l[i]? = some p →
    l.eraseIdx i = l.erase p
  | [], _, _, _, h => by simp at h
  | x :: xs, 0, p, _, h => by
    simp at h; subst h; simp
  | x :: xs, i + 1, p, hn, h => by
    have ⟨hx, hxs⟩ := List.nodup_cons.mp hn
    have hp : xs[i]? = some p := by simpa using h
    have hpm : p ∈ xs := List.mem_of_getElem? hp
    have hne : x ≠ p := fun e => hx (e ▸ hpm)
    rw [List.eraseIdx_cons_succ, List.erase_cons_tail (by simpa using hne), eraseIdx_eq_erase_of_nodup xs i p hxs hp]

/-! ## how one poll changes `recentItems` -/

/-- the predicate answers do not change while ONE poll runs (they may change between polls) -/
def Stable (ask : Ask α) : Prop := ∀ c c' x, ask c x = ask c' x

theorem refill_recentItems (w : W α) (order : List α) : (refill w order).recentItems = w.recentItems := by
  unfold refill; split <;> rfl

theorem pollCore_recent_step {w : W α} (hw : Inv w) (hn : w.recentItems.Nodup) {ask : Ask α} (hs : Stable ask)
    {o : Out α} (h : pollCore w ask = some o) :
    (o.hit = none ∧ o.w.recentItems = w.recentItems) ∨
    (∃ p, o.hit = some p ∧ p ∈ w.recentItems ∧ o.w.recentItems = touch w.recentItems p) ∨
    (∃ p, o.hit = some p ∧ p ∉ w.recentItems ∧
      o.w.recentItems = lastN maxRecentItemCount (w.recentItems ++ [p])) := by
  rcases pollCore_cases w ask hw.recentSub hw.itemsSub with ⟨i, p, d, hsc, ho⟩ | ⟨h1, i, p, d, hsc, ho⟩ | ⟨_, _, ho⟩
  · rw [h] at ho; cases ho
    obtain ⟨hip, _, _, _, _⟩ := scan_hit _ _ _ _ _ hsc
    right; left
    refine ⟨p, rfl, List.mem_of_getElem? hip, ?_⟩
    show w.recentItems.eraseIdx i ++ [p] = touch w.recentItems p
    rw [eraseIdx_eq_erase_of_nodup _ _ _ hn hip]; rfl
  · rw [h] at ho; cases ho
    obtain ⟨_, _, hd, hdne, _⟩ := scan_hit _ _ _ _ _ hsc
    right; right
    refine ⟨p, rfl, ?_, pushRecent_eq_lastN hw.recentLen p⟩
    intro hp
    obtain ⟨j, hj, hjp⟩ := List.mem_iff_getElem.mp hp
    have h0 := (scan_clean _ _ h1).2 j p (by simp [List.getElem?_eq_getElem hj, hjp])
    rw [hd, hs _ (0 + j) p] at hdne
    exact hdne h0
  · rw [h] at ho; cases ho
    left; exact ⟨rfl, rfl⟩

/-- `recentItems` is always the window of the last 16 elements of a duplicate-free list `D` that every hit `touch`es -/
theorem runPolls_recent_window : ∀ (polls : List (PollIn α)) (w : W α) (D : List α) (wf : W α) (hs cs : List α),
    Inv w → D.Nodup → w.recentItems = lastN maxRecentItemCount D →
    (∀ q ∈ polls, q.order.Perm w.keys ∧ Stable q.ask) → runPolls w polls = some (wf, hs, cs) →
    wf.recentItems = lastN maxRecentItemCount (hs.foldl touch D) := by
  intro polls
  induction polls with
  | nil =>
    intro w D wf hs cs _ _ hwin _ h
    simp [runPolls] at h
    obtain ⟨rfl, rfl, _⟩ := h
    simpa using hwin
  | cons q qs ih =>
    intro w D wf hs cs hw hD hwin hq h
    have hv : ValidOrder w q.order := (hq q (by simp)).1
    obtain ⟨o, ho⟩ := poll_isSome hw hv q.ask
    unfold runPolls at h
    rw [ho] at h
    simp only [] at h
    cases hr : runPolls o.w qs with
    | none => rw [hr] at h; cases h
    | some t =>
      obtain ⟨wf', hs', cs'⟩ := t
      rw [hr] at h
      simp only [Option.some.injEq, Prod.mk.injEq] at h
      obtain ⟨rfl, rfl, _⟩ := h
      have hwo : Inv o.w := inv_poll hw hv ho
      have hko : o.w.keys = w.keys := poll_keys hw hv ho
      have hq' : ∀ q' ∈ qs, q'.order.Perm o.w.keys ∧ Stable q'.ask := by
        intro q' hq'; rw [hko]; exact hq q' (by simp [hq'])
      have hw1 : Inv (refill w q.order) := inv_refill hw hv
      have hn1 : (refill w q.order).recentItems.Nodup := by
        rw [refill_recentItems, hwin]; exact nodup_lastN hD
      rcases pollCore_recent_step hw1 hn1 (hq q (by simp)).2 ho with ⟨hh, hrec⟩ | ⟨p, hh, hp, hrec⟩ | ⟨p, hh, hp, hrec⟩
      · rw [hh]
        exact ih o.w D wf' hs' cs' hwo hD (by rw [hrec, refill_recentItems, hwin]) hq' hr
      · rw [hh]
        rw [refill_recentItems, hwin] at hp hrec
        exact ih o.w (touch D p) wf' hs' cs' hwo (nodup_touch hD p) (by rw [hrec, lastN_touch_mem hD hp]) hq' hr
      · rw [hh]
        rw [refill_recentItems, hwin] at hp hrec
        exact ih o.w (touch D p) wf' hs' cs' hwo (nodup_touch hD p) (by rw [hrec, lastN_touch_not_mem hD hp]) hq' hr

/-! ## every path is asked once per round -/

theorem pollCore_hit_none {w : W α} (hw : Inv w) {ask : Ask α} {o : Out α} (h : pollCore w ask = some o)
    (hh : o.hit = none) :
    o = { w := { w with itemsToScan := remaining w }, ret := "", hit := none, calls := w.recentItems ++ toCheck w } := by
  rcases pollCore_cases w ask hw.recentSub hw.itemsSub with ⟨_, _, _, _, ho⟩ | ⟨_, _, _, _, _, ho⟩ | ⟨_, _, ho⟩
  · rw [h] at ho; cases ho; cases hh
  · rw [h] at ho; cases ho; cases hh
  · rw [h] at ho; cases ho; rfl

/-- a path waiting in `itemsToScan` has its predicate called within `⌈len / itemsPerIteration⌉` polls, if no poll hits -/
theorem runPolls_covers_phase1 {p : α} : ∀ (polls : List (PollIn α)) (w wf : W α) (cs : List α), Inv w →
    p ∈ w.itemsToScan → runPolls w polls = some (wf, [], cs) →
    cdiv w.itemsToScan.length w.perIter ≤ polls.length → p ∈ cs := by
  intro polls
  induction polls with
  | nil =>
    intro w wf cs hw hp _ hlen
    have hne : w.itemsToScan ≠ [] := List.ne_nil_of_mem hp
    have := cdiv_pos (List.length_pos_iff.mpr hne) (hw.perPos hne)
    simp at hlen; omega
  | cons q qs ih =>
    intro w wf cs hw hp h hlen
    have hne : w.itemsToScan ≠ [] := List.ne_nil_of_mem hp
    have hpoll : poll w q.order q.ask = pollCore w q.ask := by unfold poll; rw [refill_of_ne_nil hne]
    obtain ⟨o, ho⟩ := pollCore_isSome hw q.ask
    unfold runPolls at h
    rw [hpoll, ho] at h
    simp only [] at h
    cases hr : runPolls o.w qs with
    | none => rw [hr] at h; cases h
    | some t =>
      obtain ⟨wf', hs', cs'⟩ := t
      rw [hr] at h
      simp only [Option.some.injEq, Prod.mk.injEq, List.append_eq_nil_iff] at h
      obtain ⟨rfl, ⟨hh, rfl⟩, rfl⟩ := h
      have hnone : o.hit = none := by cases hx : o.hit with
        | none => rfl
        | some x => rw [hx] at hh; simp at hh
      have heq := pollCore_hit_none hw ho hnone
      rw [← remaining_append_toCheck w] at hp
      rcases List.mem_append.mp hp with hp | hp
      · have hlen' : o.w.itemsToScan.length = w.itemsToScan.length - w.perIter := by
          rw [heq]; exact length_remaining w
        have hper : o.w.perIter = w.perIter := by rw [heq]
        have hstep := cdiv_step (List.length_pos_iff.mpr hne) (hw.perPos hne)
        have hp' : p ∈ o.w.itemsToScan := by rw [heq]; exact hp
        have := ih o.w wf' cs' (inv_pollCore hw ho) hp' hr (by rw [hlen', hper]; simp at hlen; omega)
        exact List.mem_append_right _ this
      · apply List.mem_append_left
        rw [heq]; exact List.mem_append_right _ hp

/-- from any state: every key has its predicate called within the rest of this round plus one complete round -/
theorem runPolls_covers_anywhere {p : α} : ∀ (polls : List (PollIn α)) (w wf : W α) (cs : List α), Inv w →
    p ∈ w.keys → (∀ q ∈ polls, q.order.Perm w.keys) → runPolls w polls = some (wf, [], cs) →
    cdiv w.itemsToScan.length w.perIter + roundLen w.keys.length ≤ polls.length → p ∈ cs := by
  intro polls
  induction polls with
  | nil =>
    intro w wf cs hw hp _ _ hlen
    have hn : 0 < w.keys.length := List.length_pos_iff.mpr (List.ne_nil_of_mem hp)
    have : 0 < roundLen w.keys.length := cdiv_pos hn (perIterOf_pos _)
    simp at hlen; omega
  | cons q qs ih =>
    intro w wf cs hw hp hq h hlen
    have hv : ValidOrder w q.order := hq q (by simp)
    have hn : 0 < w.keys.length := List.length_pos_iff.mpr (List.ne_nil_of_mem hp)
    obtain ⟨o, ho⟩ := poll_isSome hw hv q.ask
    have h' := h
    unfold runPolls at h'
    rw [ho] at h'
    simp only [] at h'
    cases hr : runPolls o.w qs with
    | none => rw [hr] at h'; cases h'
    | some t =>
      obtain ⟨wf', hs', cs'⟩ := t
      rw [hr] at h'
      simp only [Option.some.injEq, Prod.mk.injEq, List.append_eq_nil_iff] at h'
      obtain ⟨rfl, ⟨hh, rfl⟩, rfl⟩ := h'
      have hnone : o.hit = none := by cases hx : o.hit with
        | none => rfl
        | some x => rw [hx] at hh; simp at hh
      have hwo : Inv o.w := inv_poll hw hv ho
      have hko : o.w.keys = w.keys := poll_keys hw hv ho
      by_cases hnil : w.itemsToScan = []
      · have hw1 : Inv (refill w q.order) := inv_refill hw hv
        have href : refill w q.order = { w with itemsToScan := q.order, perIter := perIterOf q.order.length } := by
          unfold refill; rw [if_pos (by simp [hnil])]
        have heq := pollCore_hit_none hw1 ho hnone
        have hp1 : p ∈ remaining (refill w q.order) ++ toCheck (refill w q.order) := by
          rw [remaining_append_toCheck, href]; exact hv.mem_iff.mpr hp
        rcases List.mem_append.mp hp1 with hp1 | hp1
        · have hlen' : o.w.itemsToScan.length = w.keys.length - perIterOf w.keys.length := by
            rw [heq]; show (remaining (refill w q.order)).length = _
            rw [length_remaining, href]; show q.order.length - perIterOf q.order.length = _
            rw [hv.length_eq]
          have hper : o.w.perIter = perIterOf w.keys.length := by
            rw [heq]; show (refill w q.order).perIter = _
            rw [href]; show perIterOf q.order.length = _
            rw [hv.length_eq]
          have hstep := cdiv_step hn (perIterOf_pos w.keys.length)
          have h0 : cdiv w.itemsToScan.length w.perIter = 0 := by rw [hnil]; exact cdiv_zero _
          have hp' : p ∈ o.w.itemsToScan := by rw [heq]; exact hp1
          have := runPolls_covers_phase1 qs o.w wf' cs' hwo hp' hr
            (by rw [hlen', hper]; simp at hlen; unfold roundLen at hlen; omega)
          exact List.mem_append_right _ this
        · apply List.mem_append_left
          rw [heq]; exact List.mem_append_right _ hp1
      · have hpoll : poll w q.order q.ask = pollCore w q.ask := by unfold poll; rw [refill_of_ne_nil hnil]
        rw [hpoll] at ho
        have heq := pollCore_hit_none hw ho hnone
        have hlen' : o.w.itemsToScan.length = w.itemsToScan.length - w.perIter := by
          rw [heq]; exact length_remaining w
        have hper : o.w.perIter = w.perIter := by rw [heq]
        have hstep := cdiv_step (List.length_pos_iff.mpr hnil) (hw.perPos hnil)
        have := ih o.w wf' cs' hwo (by rw [hko]; exact hp) (fun q' hq' => by rw [hko]; exact hq q' (by simp [hq'])) hr
          (by rw [hlen', hper, hko]; simp at hlen; omega)
        exact List.mem_append_right _ this

/-! ## the bound, and the states the goroutine can be in at its loop head -/

/-- number of polls within which a path that stays dirty is reported, as a function of the state -/
def bound (w : W α) (p : α) : Nat :=
  if p ∈ w.recentItems then 1
  else if p ∈ w.itemsToScan then cdiv w.itemsToScan.length w.perIter
  else cdiv w.itemsToScan.length w.perIter + roundLen w.keys.length

/-- the state at the head of the loop of `start`: `itemsToScan` is empty (after a rebuild, or a finished round), or a round
is in progress and at least one poll of it has been done -/
def MidRound (w : W α) : Prop :=
  w.itemsToScan = [] ∨ (w.perIter = perIterOf w.keys.length ∧ w.itemsToScan.length + w.perIter ≤ w.keys.length)

theorem cdiv_mono {a a' : Nat} (b : Nat) (h : a ≤ a') : cdiv a b ≤ cdiv a' b := by
  unfold cdiv; exact Nat.div_le_div_right (by omega)

theorem cdiv_add_self {a b : Nat} (hb : 0 < b) : cdiv (a + b) b = cdiv a b + 1 := by
  unfold cdiv
  have e : a + b + b - 1 = (a + b - 1) + b := by omega
  rw [e, Nat.add_div_right _ hb]

theorem bound_le_of_midRound {w : W α} (hm : MidRound w) {p : α} (hp : p ∈ w.keys) :
    bound w p ≤ 2 * roundLen w.keys.length - 1 := by
  have hn : 0 < w.keys.length := List.length_pos_iff.mpr (List.ne_nil_of_mem hp)
  have hrpos : 0 < roundLen w.keys.length := cdiv_pos hn (perIterOf_pos _)
  have hmid : cdiv w.itemsToScan.length w.perIter + 1 ≤ roundLen w.keys.length := by
    rcases hm with h0 | ⟨hper, hlen⟩
    · rw [h0]; simp only [List.length_nil]; rw [cdiv_zero]; omega
    · rw [hper] at hlen ⊢
      have := cdiv_mono (perIterOf w.keys.length) hlen
      rw [cdiv_add_self (perIterOf_pos _)] at this
      exact this
  unfold bound
  split
  · omega
  · split <;> omega

theorem setWatchData_midRound (w : W α) (newKeys : List α) : MidRound (setWatchData w newKeys) := Or.inl rfl

/-- a poll that returns "" leaves the watcher in a loop-head state again -/
theorem poll_clean_midRound {w : W α} (hw : Inv w) (hm : MidRound w) {order : List α} (hv : ValidOrder w order)
    {ask : Ask α} {o : Out α} (h : poll w order ask = some o) (hr : o.ret = "") : MidRound o.w := by
  have hw1 : Inv (refill w order) := inv_refill hw hv
  obtain ⟨heq, _, _⟩ := pollCore_ret_empty hw1 h hr
  have hk : o.w.keys = w.keys := poll_keys hw hv h
  have hlen : o.w.itemsToScan.length = (refill w order).itemsToScan.length - (refill w order).perIter := by
    rw [heq]; exact length_remaining _
  have hper : o.w.perIter = (refill w order).perIter := by rw [heq]
  by_cases h0 : o.w.itemsToScan = []
  · exact Or.inl h0
  · right
    have hpos : 0 < o.w.itemsToScan.length := List.length_pos_iff.mpr h0
    rw [hk, hper]
    by_cases hnil : w.itemsToScan = []
    · have href : refill w order = { w with itemsToScan := order, perIter := perIterOf order.length } := by
        unfold refill; rw [if_pos (by simp [hnil])]
      rw [href] at hlen ⊢
      simp only [] at hlen ⊢
      rw [hv.length_eq] at hlen ⊢
      exact ⟨rfl, by omega⟩
    · rw [refill_of_ne_nil hnil] at hlen ⊢
      rcases hm with h' | ⟨hp', hl'⟩
      · exact absurd h' hnil
      · exact ⟨hp', by omega⟩

/-! ## a poll depends only on the predicates it calls -/

theorem scan_congr {keys : List α} {ask ask' : Ask α} : ∀ (l : List α) (c : Nat),
    (∀ x ∈ l, ∀ c, ask' c x = ask c x) → scan keys ask' c l = scan keys ask c l
  | [], _, _ => rfl
  | p :: rest, c, h => by
    unfold scan
    rw [h p (by simp) c, scan_congr rest (c + 1) (fun x hx => h x (by simp [hx]))]

theorem pollCore_congr {w : W α} {ask ask' : Ask α}
    (h : ∀ x ∈ w.recentItems ++ toCheck w, ∀ c, ask' c x = ask c x) : pollCore w ask' = pollCore w ask := by
  unfold pollCore
  rw [scan_congr _ _ (fun x hx => h x (List.mem_append_left _ hx))]
  have h2 := scan_congr (keys := w.keys) (ask := ask) (ask' := ask') (toCheck w) w.recentItems.length
    (fun x hx => h x (List.mem_append_right _ hx))
  unfold toCheck remCount at h2
  simp only []
  rw [h2]

/-! ## the log of the goroutine -/

/-- total time slept before the first rebuild of a log, and the change that rebuild was started for -/
def sleptBefore : List Ev → Option (Nat × String)
  | [] => none
  | .sleep ms :: r => (sleptBefore r).map (fun x => (x.1 + ms, x.2))
  | .rebuild d :: _ => some (0, d)

/-- `--watch-delay`: the extra sleep before a rebuild -/
def delayOf (delayMs : Int) : Nat := if delayMs > 0 then delayMs.toNat else 0

theorem iteration_hit {delayMs : Int} {w : W α} {it : Iter α} {o : Out α} (hp : poll w it.order it.ask = some o)
    (hr : o.ret ≠ "") : iteration delayMs w it = some (afterRebuild o.w it.newKeys it.rebuildSets,
      [Ev.sleep watchIntervalSleepMs] ++ (if delayMs > 0 then [Ev.sleep delayMs.toNat] else []) ++ [Ev.rebuild o.ret], o) := by
  unfold iteration; rw [hp]; simp only []; rw [if_pos hr]

theorem iteration_clean {delayMs : Int} {w : W α} {it : Iter α} {o : Out α} (hp : poll w it.order it.ask = some o)
    (hr : o.ret = "") : iteration delayMs w it = some (o.w, [Ev.sleep watchIntervalSleepMs], o) := by
  unfold iteration; rw [hp]; simp only []; rw [if_neg (by simp [hr])]

theorem iteration_none {delayMs : Int} {w : W α} {it : Iter α} (hp : poll w it.order it.ask = none) :
    iteration delayMs w it = none := by
  unfold iteration; rw [hp]

theorem runLoop_cons {delayMs : Int} {w : W α} {it : Iter α} {rest : List (Iter α)} (hs : it.stop = false)
    {w' : W α} {evs : List Ev} {o : Out α} (hi : iteration delayMs w it = some (w', evs, o)) :
    runLoop delayMs w (it :: rest) = (runLoop delayMs w' rest).map (fun out => { out with log := evs ++ out.log }) := by
  conv => lhs; unfold runLoop
  rw [hs, hi]
  simp only [Bool.false_eq_true, if_false]
  cases runLoop delayMs w' rest <;> rfl

theorem runLoop_of_firstHit (delayMs : Int) : ∀ (its : List (Iter α)) (k : Nat) (w : W α) (i : Nat) (d : String)
    (out : LoopOut α),
    firstHit w ((its.take k).map (fun it => ⟨it.order, it.ask⟩)) = some (i, d) →
    (∀ it ∈ its.take k, it.stop = false) → runLoop delayMs w its = some out →
    sleptBefore out.log = some (watchIntervalSleepMs * (i + 1) + delayOf delayMs, d) := by
  intro its
  induction its with
  | nil => intro k w i d out hf; simp [firstHit] at hf
  | cons it rest ih =>
    intro k w i d out hf hstop hrun
    cases k with
    | zero => simp [firstHit] at hf
    | succ k =>
      have hs : it.stop = false := hstop it (by simp)
      simp only [List.take_succ_cons, List.map_cons] at hf
      unfold firstHit at hf
      simp only [] at hf
      cases hp : poll w it.order it.ask with
      | none => rw [hp] at hf; cases hf
      | some o =>
        rw [hp] at hf
        simp only [] at hf
        by_cases hr : o.ret ≠ ""
        · rw [if_pos hr] at hf
          simp only [Option.some.injEq, Prod.mk.injEq] at hf
          obtain ⟨rfl, rfl⟩ := hf
          rw [runLoop_cons hs (iteration_hit hp hr)] at hrun
          cases hrest : runLoop delayMs (afterRebuild o.w it.newKeys it.rebuildSets) rest with
          | none => rw [hrest] at hrun; cases hrun
          | some out' =>
            rw [hrest] at hrun
            simp only [Option.map_some, Option.some.injEq] at hrun
            subst hrun
            unfold delayOf watchIntervalSleepMs
            by_cases hd : delayMs > 0
            · simp [hd, sleptBefore]; omega
            · simp [hd, sleptBefore]
        · rw [if_neg hr] at hf
          have hr' : o.ret = "" := by simpa using hr
          rw [runLoop_cons hs (iteration_clean hp hr')] at hrun
          cases hrest : runLoop delayMs o.w rest with
          | none => rw [hrest] at hrun; cases hrun
          | some out' =>
            rw [hrest] at hrun
            simp only [Option.map_some, Option.some.injEq] at hrun
            subst hrun
            cases hf' : firstHit o.w ((rest.take k).map (fun it => ⟨it.order, it.ask⟩)) with
            | none => rw [hf'] at hf; cases hf
            | some r =>
              rw [hf'] at hf
              simp only [Option.map_some, Option.some.injEq, Prod.mk.injEq] at hf
              obtain ⟨rfl, rfl⟩ := hf
              have := ih k o.w r.1 r.2 out' hf' (fun it' h' => hstop it' (by simp [h'])) hrest
              simp only [List.cons_append, List.nil_append, sleptBefore, this, Option.map_some]
              unfold watchIntervalSleepMs
              congr 2
              omega

end EsbuildModel.WatchLoop
