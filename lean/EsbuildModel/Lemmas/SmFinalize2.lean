import EsbuildModel.Lemmas.SmFinalize
/-!
# Helper lemmas for `Props/C07Join.lean` — part 12: the loop of `SourceMapPieces.Finalize`
-/
namespace EsbuildModel.SmJoin
open Vlq
open Spec.SourceMapV3 (Ev Orig Seg segsOf)

/-- the column shift `Finalize` applies to a segment at `(line, c)`: the shift it has just crossed into, if that
shift lies on this line; otherwise the one in force before (`prevΔ`, 0 at the start of every line) -/
def shiftFor (line : Int) (prevΔ : Int) (ps : List SMShift × Bool) : Int :=
  if ps.2 then
    match ps.1 with
    | sh :: _ => if sh.after.lines = line then sh.after.columns - sh.before.columns else prevΔ
    | [] => prevΔ
  else prevΔ

/-- event-level meaning of `Finalize`'s loop -/
def finEvs (line : Int) (prevΔ : Int) (shifts : List SMShift) : List Ev → List Ev
  | [] => []
  | .nl :: es => .nl :: finEvs (line + 1) 0 shifts es
  | .seg c o :: es =>
    .seg (c + shiftFor line prevΔ (popShifts ⟨line, c⟩ shifts false)) o ::
      finEvs line (shiftFor line prevΔ (popShifts ⟨line, c⟩ shifts false)) (popShifts ⟨line, c⟩ shifts false).1 es

theorem startsWithSeg_finEvs (line prevΔ : Int) (shifts : List SMShift) (es : List Ev) :
    startsWithSeg (finEvs line prevΔ shifts es) = startsWithSeg es := by
  cases es with
  | nil => rfl
  | cons e es => cases e <;> rfl

theorem popShifts_mem (g : Offset) (shifts : List SMShift) (b : Bool) :
    ∀ sh ∈ (popShifts g shifts b).1, sh ∈ shifts := by
  induction shifts generalizing b with
  | nil => simp [popShifts]
  | cons s0 rest ih =>
    cases rest with
    | nil => simp [popShifts]
    | cons s1 rest =>
      unfold popShifts
      split
      · intro sh hsh; exact List.mem_cons_of_mem _ (ih true sh hsh)
      · intro sh hsh; exact hsh

theorem popShifts_crossed (g : Offset) (shifts : List SMShift) (b : Bool)
    (h : (popShifts g shifts b).2 = true) (hb : b = false) : (popShifts g shifts b).1 ≠ [] := by
  induction shifts generalizing b with
  | nil => simp [popShifts, hb] at h
  | cons s0 rest ih =>
    cases rest with
    | nil => simp [popShifts, hb] at h
    | cons s1 rest =>
      unfold popShifts at h ⊢
      split
      · rename_i hc
        simp only [hc, ↓reduceIte] at h
        -- after a pop the list still has `s1` in front or further pops keep it non-empty
        have : ∀ (l : List SMShift) (b' : Bool), l ≠ [] → (popShifts g l b').1 ≠ [] := by
          intro l
          induction l with
          | nil => intro _ hl; exact absurd rfl hl
          | cons x xs ihx =>
            intro b' _
            cases xs with
            | nil => simp [popShifts]
            | cons y ys =>
              unfold popShifts
              split
              · exact ihx true (by simp)
              · simp
        exact this _ _ (by simp)
      · simp

theorem nextOf_genCol (p : State) (c : Int) (o : Option Orig) : (nextOf p (curOf p c o)).genCol = c := by
  cases o with
  | none => simp [nextOf, curOf]
  | some o => obtain ⟨a, l, cl, n⟩ := o; cases n <;> simp [nextOf, curOf]

/-- moving the generated column of the encoder state and of the segment by the same amount changes nothing but the
state's column -/
theorem seg_shift_col (p : State) (c x y : Int) (o : Option Orig) :
    restFields { p with genCol := x } o = restFields p o ∧
    nextOf { p with genCol := x } (curOf { p with genCol := x } y o) =
      { nextOf p (curOf p c o) with genCol := y } := by
  cases o with
  | none => simp [restFields, nextOf, curOf]
  | some o => obtain ⟨a, l, cl, n⟩ := o; cases n <;> simp [restFields, nextOf, curOf]

theorem encT_shifted_seg (p : State) (c Δ prevΔ : Int) (o : Option Orig) (es X : List Ev)
    (hX : startsWithSeg X = startsWithSeg es) :
    encT { p with genCol := p.genCol + prevΔ } (Ev.seg (c + Δ) o :: X) =
      enc (c - p.genCol + Δ - prevΔ) ++ (restFields p o ++ (commaAfter es ++
        encT { nextOf p (curOf p c o) with genCol := c + Δ } X)) := by
  obtain ⟨h1, h2⟩ := seg_shift_col p c (p.genCol + prevΔ) (c + Δ) o
  simp only [encT, h1, h2, commaAfter, hX]
  congr 2
  omega

theorem drop_append_of_le (A S : Bytes) (k : Nat) (h : k ≤ A.length) : (A ++ S).drop k = A.drop k ++ S :=
  List.drop_append_of_le_length h

/-- the loop on the bytes of the sequential encoder (commas after): it ends, and what it has written plus what
is left of the current run is what was there before plus the encoding of the shifted remaining events -/
theorem finLoop_spec (todo : List Ev) (M A : Bytes) (p : State) (st : FinState) (fuel : Nat) (L : Int)
    (hM : M = A ++ encT p todo) (hcur : st.current = A.length) (hsor : st.startOfRun ≤ A.length)
    (hgen : st.generated = ⟨L, p.genCol⟩) (hfuel : todo.length < fuel)
    (hsh : ∀ sh ∈ st.shifts, sh.before.lines = sh.after.lines) :
    ∃ st', finLoop M fuel st = some st' ∧
      st'.out ++ M.drop st'.startOfRun =
        (st.out ++ A.drop st.startOfRun) ++
          encT { p with genCol := p.genCol + st.prevShiftColumnDelta }
            (finEvs L st.prevShiftColumnDelta st.shifts todo) := by
  induction todo generalizing A p st fuel L with
  | nil =>
    cases fuel with
    | zero => simp at hfuel
    | succ f =>
      refine ⟨st, ?_, ?_⟩
      · simp [finLoop, hcur, hM, encT]
      · simp [hM, encT, finEvs]
  | cons e es ih =>
    cases fuel with
    | zero => simp at hfuel
    | succ f =>
      have hf : es.length < f := by simp at hfuel; omega
      cases e with
      | nl =>
        simp only [encT] at hM
        have hget : M[st.current]? = some 59 := by
          rw [hM, hcur, getElem?_at]; rfl
        have hlt : st.current < M.length := by rw [hM, hcur]; simp
        generalize hst1 : ({ st with
            generated := ⟨st.generated.lines + 1, 0⟩, prevShiftColumnDelta := 0, current := st.current + 1 } : FinState)
            = st1
        have hstep : finStep M st = some st1 := by
          simp [finStep, hget, ← hst1]
        obtain ⟨st', h1, h2⟩ := ih (A ++ [59]) { p with genLine := p.genLine + 1, genCol := 0 } st1
          f (L + 1) (by simp [hM]) (by simp [← hst1, hcur]) (by simp [← hst1]; omega) (by simp [← hst1, hgen]) hf
          (by simpa [← hst1] using hsh)
        refine ⟨st', ?_, ?_⟩
        · simp only [finLoop, hlt, ↓reduceIte, hstep, h1]
        · rw [h2]
          have e1 : st1.out = st.out := by simp [← hst1]
          have e2 : st1.startOfRun = st.startOfRun := by simp [← hst1]
          have e3 : st1.prevShiftColumnDelta = 0 := by simp [← hst1]
          have e4 : st1.shifts = st.shifts := by simp [← hst1]
          rw [e1, e2, e3, e4]
          simp only [finEvs, encT, drop_append_of_le A [59] _ hsor, List.append_assoc, Int.add_zero]
          simp
      | seg c o =>
        simp only [encT] at hM
        obtain ⟨b, tl, hb, _, hb59, _, _⟩ := enc_cons (c - p.genCol)
        have hget : ¬ M[st.current]? = some 59 := by
          rw [hM, hcur, getElem?_at, hb]; simp [hb59]
        have hlt : st.current < M.length := by rw [hM, hcur]; simp [hb]
        have hdec : decodeVLQ M st.current = some (c - p.genCol, A.length + (enc (c - p.genCol)).length) := by
          rw [hM, hcur]; exact decodeVLQ_at A _ _ _ rfl
        have hskip : skipRest M (A.length + (enc (c - p.genCol)).length) =
            some (A.length + (enc (c - p.genCol)).length + (restFields p o).length + (commaAfter es).length) := by
          have := skipRest_seg (A ++ enc (c - p.genCol)) p (nextOf p (curOf p c o)) o es
            (A.length + (enc (c - p.genCol)).length) (by simp)
          rw [hM]; simpa [List.append_assoc] using this
        have hgen' : (⟨st.generated.lines, st.generated.columns + (c - p.genCol)⟩ : Offset) = ⟨L, c⟩ := by
          rw [hgen]; simp; omega
        have hgl : st.generated.lines = L := by rw [hgen]
        have hgc : st.generated.columns + (c - p.genCol) = c := by rw [hgen]; simp; omega
        have hA1 : M = (A ++ (enc (c - p.genCol) ++ (restFields p o ++ commaAfter es))) ++
            encT (nextOf p (curOf p c o)) es := by rw [hM]; simp [List.append_assoc]
        have hA1len : (A ++ (enc (c - p.genCol) ++ (restFields p o ++ commaAfter es))).length =
            A.length + (enc (c - p.genCol)).length + (restFields p o).length + (commaAfter es).length := by
          simp; omega
        have hX := startsWithSeg_finEvs L (shiftFor L st.prevShiftColumnDelta (popShifts ⟨L, c⟩ st.shifts false))
          (popShifts ⟨L, c⟩ st.shifts false).1 es
        have hgoal := encT_shifted_seg p c (shiftFor L st.prevShiftColumnDelta (popShifts ⟨L, c⟩ st.shifts false))
          st.prevShiftColumnDelta o es _ hX
        have hshifts1 : ∀ sh ∈ (popShifts ⟨L, c⟩ st.shifts false).1, sh.before.lines = sh.after.lines :=
          fun sh h => hsh sh (popShifts_mem _ _ _ sh h)
        simp only [finEvs]
        rw [hgoal]
        -- the three ways a round can end
        cases hcross : (popShifts ⟨L, c⟩ st.shifts false).2 with
        | false =>
          generalize hst1 : ({ st with generated := ⟨L, c⟩, current := A.length + (enc (c - p.genCol)).length +
            (restFields p o).length + (commaAfter es).length, shifts := (popShifts ⟨L, c⟩ st.shifts false).1 } : FinState)
            = st1
          have hstep : finStep M st = some st1 := by
            simp [finStep, hget, hdec, hskip, hgl, hgc, hcross, ← hst1]
          obtain ⟨st', h1, h2⟩ := ih _ (nextOf p (curOf p c o)) st1 f L hA1 (by simp [← hst1]; omega)
            (by simp [← hst1]; omega) (by simp [← hst1, nextOf_genCol]) hf (by simpa [← hst1] using hshifts1)
          refine ⟨st', by simp only [finLoop, hlt, ↓reduceIte, hstep, h1], ?_⟩
          rw [h2]
          have e1 : st1.out = st.out := by simp [← hst1]
          have e2 : st1.startOfRun = st.startOfRun := by simp [← hst1]
          have e3 : st1.prevShiftColumnDelta = st.prevShiftColumnDelta := by simp [← hst1]
          have e4 : st1.shifts = (popShifts ⟨L, c⟩ st.shifts false).1 := by simp [← hst1]
          have e5 : shiftFor L st.prevShiftColumnDelta (popShifts ⟨L, c⟩ st.shifts false) =
              st.prevShiftColumnDelta := by simp [shiftFor, hcross]
          rw [e1, e2, e3, e4, e5, nextOf_genCol, drop_append_of_le A _ _ hsor]
          have e6 : c - p.genCol + st.prevShiftColumnDelta - st.prevShiftColumnDelta = c - p.genCol := by omega
          rw [e6]
          simp [List.append_assoc]
        | true =>
          have hne := popShifts_crossed ⟨L, c⟩ st.shifts false hcross rfl
          cases hps : (popShifts ⟨L, c⟩ st.shifts false).1 with
          | nil => exact absurd hps hne
          | cons sh shs =>
            have hshl : sh.before.lines = sh.after.lines := hshifts1 sh (by rw [hps]; simp)
            by_cases hline : sh.after.lines = L
            · -- the generated column is rewritten
              generalize hst1 : FinState.mk (A.length + (enc (c - p.genCol)).length)
                (A.length + (enc (c - p.genCol)).length + (restFields p o).length + (commaAfter es).length)
                ⟨L, c⟩ (sh.after.columns - sh.before.columns) (sh :: shs)
                (st.out ++ (M.take st.current).drop st.startOfRun ++
                  enc (c - p.genCol + (sh.after.columns - sh.before.columns) - st.prevShiftColumnDelta))
                = st1
              have hstep : finStep M st = some st1 := by
                simp [finStep, hget, hdec, hskip, hgl, hgc, hcross, hps, hline, hshl, ← hst1]
              obtain ⟨st', h1, h2⟩ := ih _ (nextOf p (curOf p c o)) st1 f L hA1 (by simp [← hst1]; omega)
                (by simp [← hst1]) (by simp [← hst1, nextOf_genCol]) hf
                (by rw [hps] at hshifts1; simpa [← hst1] using hshifts1)
              refine ⟨st', by simp only [finLoop, hlt, ↓reduceIte, hstep, h1], ?_⟩
              rw [h2]
              have e1 : st1.out = st.out ++ (M.take st.current).drop st.startOfRun ++
                  enc (c - p.genCol + (sh.after.columns - sh.before.columns) - st.prevShiftColumnDelta) := by
                simp [← hst1]
              have e2 : st1.startOfRun = A.length + (enc (c - p.genCol)).length := by simp [← hst1]
              have e3 : st1.prevShiftColumnDelta = sh.after.columns - sh.before.columns := by simp [← hst1]
              have e4 : st1.shifts = sh :: shs := by simp [← hst1]
              have e5 : shiftFor L st.prevShiftColumnDelta (popShifts ⟨L, c⟩ st.shifts false) =
                  sh.after.columns - sh.before.columns := by simp [shiftFor, hcross, hps, hline]
              have e6 : M.take st.current = A := by rw [hM, hcur]; exact List.take_left' rfl
              have e7 : List.drop (A.length + (enc (c - p.genCol)).length)
                  (A ++ (enc (c - p.genCol) ++ (restFields p o ++ commaAfter es))) = restFields p o ++ commaAfter es := by
                rw [← List.append_assoc, List.drop_left' (by simp)]
              rw [e1, e2, e3, e4, e5, e6, e7, nextOf_genCol]
              simp [List.append_assoc]
            · -- the shift lies on an earlier line
              generalize hst1 : ({ st with generated := ⟨L, c⟩, current := A.length + (enc (c - p.genCol)).length +
                (restFields p o).length + (commaAfter es).length, shifts := sh :: shs } : FinState) = st1
              have hstep : finStep M st = some st1 := by
                simp [finStep, hget, hdec, hskip, hgl, hgc, hcross, hps, hline, ← hst1]
              obtain ⟨st', h1, h2⟩ := ih _ (nextOf p (curOf p c o)) st1 f L hA1 (by simp [← hst1]; omega)
                (by simp [← hst1]; omega) (by simp [← hst1, nextOf_genCol]) hf
                (by rw [hps] at hshifts1; simpa [← hst1] using hshifts1)
              refine ⟨st', by simp only [finLoop, hlt, ↓reduceIte, hstep, h1], ?_⟩
              rw [h2]
              have e1 : st1.out = st.out := by simp [← hst1]
              have e2 : st1.startOfRun = st.startOfRun := by simp [← hst1]
              have e3 : st1.prevShiftColumnDelta = st.prevShiftColumnDelta := by simp [← hst1]
              have e4 : st1.shifts = sh :: shs := by simp [← hst1]
              have e5 : shiftFor L st.prevShiftColumnDelta (popShifts ⟨L, c⟩ st.shifts false) =
                  st.prevShiftColumnDelta := by simp [shiftFor, hcross, hps, hline]
              rw [e1, e2, e3, e4, e5, nextOf_genCol, drop_append_of_le A _ _ hsor]
              have e6 : c - p.genCol + st.prevShiftColumnDelta - st.prevShiftColumnDelta = c - p.genCol := by omega
              rw [e6]
              simp [List.append_assoc]


theorem finEvs_single (s : SMShift) (evs : List Ev) (L : Int) : finEvs L 0 [s] evs = evs := by
  induction evs generalizing L with
  | nil => rfl
  | cons e es ih =>
    cases e with
    | nl => simp [finEvs, ih]
    | seg c o => simp [finEvs, popShifts, shiftFor, ih]

theorem encT_length_ge (evs : List Ev) (p : State) : evs.length ≤ (encT p evs).length := by
  induction evs generalizing p with
  | nil => simp [encT]
  | cons e es ih =>
    cases e with
    | nl => simp only [encT, List.length_cons]; have := ih { p with genLine := p.genLine + 1, genCol := 0 }; omega
    | seg c o =>
      obtain ⟨b, tl, hb, _⟩ := enc_cons (c - p.genCol)
      have := ih (nextOf p (curOf p c o))
      simp only [encT, hb, List.length_cons, List.length_append]
      omega

/-- **`Finalize` on what the sequential encoder wrote**: no panic (every shift stays on its line), the loop ends,
and the result is the sequential encoding of the same line breaks and segments with shifted generated columns. -/
theorem finalize_eq (evs : List Ev) (shifts : List SMShift)
    (hsh : ∀ sh ∈ shifts, sh.before.lines = sh.after.lines) :
    finalize (encEvs {} 34 evs).bytes shifts = some (encEvs {} 34 (finEvs 0 0 shifts evs)).bytes := by
  rw [encEvs_zero_eq_encT, encEvs_zero_eq_encT]
  have hloop : ∀ sh : List SMShift, (∀ s ∈ sh, s.before.lines = s.after.lines) →
      (match finLoop (encT {} evs) ((encT {} evs).length + 1) { shifts := sh } with
        | none => none
        | some st => some (st.out ++ (encT {} evs).drop st.startOfRun)) =
        some (encT {} (finEvs 0 0 sh evs)) := by
    intro sh hs
    obtain ⟨st', h1, h2⟩ := finLoop_spec evs (encT {} evs) [] {} { shifts := sh } ((encT {} evs).length + 1) 0
      (by simp) rfl (by simp) rfl (by have := encT_length_ge evs {}; omega) hs
    rw [h1]
    simp only [h2]
    simp
  unfold finalize
  cases shifts with
  | nil => exact hloop [] hsh
  | cons s0 rest =>
    cases rest with
    | nil => simp [finEvs_single]
    | cons s1 rest => exact hloop (s0 :: s1 :: rest) hsh

end EsbuildModel.SmJoin
