import EsbuildModel.Lemmas.PkgExportsStr
/-! Substituting a pattern match without empty or dot segments for every "*" of a path that has no dot segment
gives a path that has no dot segment (so URL resolution leaves it alone). Proved with a four-state automaton
that reads a path and remembers whether the current segment is "", ".", ".." or anything else. -/
namespace EsbuildModel.PkgExports
open EsbuildModel.NodeExports

inductive DS where
  | e | d1 | d2 | o
  deriving DecidableEq

def dotStep (q : DS) (c : Char) : Option DS :=
  if c = '/' then (if q = .d1 ∨ q = .d2 then none else some .e)
  else if c = '.' then (if q = .e then some .d1 else if q = .d1 then some .d2 else some .o)
  else some .o

def dotRun (q : DS) : Str → Option DS
  | [] => some q
  | c :: cs => (dotStep q c).bind fun q' => dotRun q' cs

def stateOf (pre : Str) : DS :=
  if pre = [] then .e else if pre = ['.'] then .d1 else if pre = ['.', '.'] then .d2 else .o

def isDotSeg (s : Str) : Prop := s = ['.'] ∨ s = ['.', '.']

instance (s : Str) : Decidable (isDotSeg s) := by unfold isDotSeg; infer_instance

def accepts (s : Str) : Prop := ∃ q, dotRun .e s = some q ∧ q ≠ .d1 ∧ q ≠ .d2

theorem stateOf_snoc (pre : Str) (c : Char) (hc : c ≠ '/') :
    dotStep (stateOf pre) c = some (stateOf (pre ++ [c])) := by
  by_cases h0 : pre = []
  · subst h0
    by_cases hd : c = '.'
    · subst hd; decide
    · simp [stateOf, dotStep, hc, hd]
  · by_cases h1 : pre = ['.']
    · subst h1
      by_cases hd : c = '.'
      · subst hd; decide
      · simp [stateOf, dotStep, hc, hd]
    · by_cases h2 : pre = ['.', '.']
      · subst h2
        by_cases hd : c = '.'
        · subst hd; decide
        · simp [stateOf, dotStep, hc, hd]
      · have hs : stateOf pre = .o := by simp [stateOf, h0, h1, h2]
        have hn0 : pre ++ [c] ≠ [] := by simp
        have hn1 : pre ++ [c] ≠ ['.'] := by
          intro h
          cases pre with
          | nil => exact h0 rfl
          | cons a as => cases as <;> simp at h
        have hn2 : pre ++ [c] ≠ ['.', '.'] := by
          intro h
          cases pre with
          | nil => exact h0 rfl
          | cons a as =>
            cases as with
            | nil => simp at h; exact h1 (by rw [h.1])
            | cons b bs => cases bs <;> simp at h
        rw [hs]
        simp only [stateOf, hn0, hn1, hn2, ↓reduceIte]
        by_cases hd : c = '.' <;> simp [dotStep, hc, hd]

theorem dotRun_noslash (pre h X : Str) (hh : ¬ '/' ∈ h) :
    dotRun (stateOf pre) (h ++ X) = dotRun (stateOf (pre ++ h)) X := by
  induction h generalizing pre with
  | nil => simp
  | cons c cs ih =>
    simp only [List.mem_cons, not_or] at hh
    simp only [List.cons_append, dotRun]
    rw [stateOf_snoc pre c (fun e => hh.1 e.symm)]
    simp only [Option.bind_some]
    rw [ih (pre ++ [c]) hh.2]
    simp

theorem stateOf_dot_iff (s : Str) : (stateOf s = .d1 ∨ stateOf s = .d2) ↔ isDotSeg s := by
  unfold stateOf isDotSeg
  by_cases h0 : s = []
  · subst h0; simp
  · by_cases h1 : s = ['.']
    · subst h1; simp
    · by_cases h2 : s = ['.', '.']
      · subst h2; simp
      · simp [h0, h1, h2]

theorem dotRun_slash (s J : Str) (hs : ¬ '/' ∈ s) :
    dotRun .e (s ++ '/' :: J) = if isDotSeg s then none else dotRun .e J := by
  have := dotRun_noslash [] s ('/' :: J) hs
  simp only [List.nil_append] at this
  have he : stateOf [] = .e := rfl
  rw [he] at this
  rw [this]
  simp only [dotRun, dotStep, ↓reduceIte]
  have hiff := stateOf_dot_iff s
  cases hq : stateOf s <;> simp [hq] at hiff ⊢ <;> simp [hiff]

/-- the automaton accepts a joined list of "/"-free segments iff none of them is a dot segment -/
theorem accepts_join (segs : List Str) (hne : segs ≠ []) (hs : ∀ s ∈ segs, ¬ '/' ∈ s) :
    accepts (joinWith '/' segs) ↔ ∀ s ∈ segs, ¬ isDotSeg s := by
  induction segs with
  | nil => exact absurd rfl hne
  | cons h t ih =>
    cases t with
    | nil =>
      simp only [joinWith, List.mem_singleton, forall_eq]
      have := dotRun_noslash [] h [] (hs h (by simp))
      simp only [List.nil_append, List.append_nil, dotRun] at this
      have he : stateOf [] = .e := rfl
      rw [he] at this
      unfold accepts
      rw [this]
      have hiff := stateOf_dot_iff h
      constructor
      · rintro ⟨q, hq, h1, h2⟩ hd
        have := Option.some.inj hq
        rcases hiff.mpr hd with h' | h'
        · exact h1 (by rw [← this, h'])
        · exact h2 (by rw [← this, h'])
      · intro hd
        refine ⟨_, rfl, ?_, ?_⟩
        · intro h'; exact hd (hiff.mp (Or.inl h'))
        · intro h'; exact hd (hiff.mp (Or.inr h'))
    | cons t1 ts =>
      have hsh : ¬ '/' ∈ h := hs h (by simp)
      have hst : ∀ s ∈ t1 :: ts, ¬ '/' ∈ s := fun s hm => hs s (by simp [hm])
      have ih' := ih (by simp) hst
      rw [joinWith_cons _ _ _ (by simp)]
      unfold accepts at ih' ⊢
      rw [dotRun_slash h _ hsh]
      constructor
      · intro hacc s hm
        by_cases hd : isDotSeg h
        · simp [hd] at hacc
        · simp only [hd, ↓reduceIte] at hacc
          rcases List.mem_cons.mp hm with rfl | hm'
          · exact hd
          · exact ih'.mp hacc s hm'
      · intro hall
        have hd : ¬ isDotSeg h := hall h (by simp)
        simp only [hd, ↓reduceIte]
        exact ih'.mpr (fun s hm => hall s (by simp [hm]))

/-- after a non-empty, non-dot, "/"-free segment the automaton is in state `o`, wherever it started -/
theorem dotRun_goodSeg (q : DS) (h X : Str) (hs : ¬ '/' ∈ h) (hne : h ≠ []) (hd : ¬ isDotSeg h) :
    dotRun q (h ++ X) = dotRun .o X := by
  have key : ∀ pre : Str, stateOf (pre ++ h) = .o → dotRun (stateOf pre) (h ++ X) = dotRun .o X := by
    intro pre hp
    rw [dotRun_noslash pre h X hs, hp]
  unfold isDotSeg at hd
  simp only [not_or] at hd
  cases q with
  | e =>
    have := key [] (by
      simp only [List.nil_append, stateOf, hne, hd.1, hd.2, ↓reduceIte])
    simpa [stateOf] using this
  | d1 =>
    have := key ['.'] (by
      cases h with
      | nil => exact absurd rfl hne
      | cons a as =>
        cases as with
        | nil => simp at hd; simp [stateOf, hd]
        | cons b bs => simp [stateOf])
    simpa [stateOf] using this
  | d2 =>
    have := key ['.', '.'] (by
      cases h with
      | nil => exact absurd rfl hne
      | cons a as => simp [stateOf])
    simpa [stateOf] using this
  | o =>
    have := key ['x'] (by simp [stateOf])
    simpa [stateOf] using this

/-- a valid pattern match drives the automaton from any state to `o` without failing -/
theorem dotRun_goodSegs (segs : List Str) (hne : segs ≠ [])
    (hs : ∀ s ∈ segs, ¬ '/' ∈ s ∧ s ≠ [] ∧ ¬ isDotSeg s) (q : DS) (X : Str) :
    dotRun q (joinWith '/' segs ++ X) = dotRun .o X := by
  induction segs generalizing q with
  | nil => exact absurd rfl hne
  | cons h t ih =>
    have hh := hs h (by simp)
    cases t with
    | nil =>
      simp only [joinWith]
      exact dotRun_goodSeg q h X hh.1 hh.2.1 hh.2.2
    | cons t1 ts =>
      rw [joinWith_cons _ _ _ (by simp)]
      have : h ++ '/' :: joinWith '/' (t1 :: ts) ++ X = h ++ ('/' :: (joinWith '/' (t1 :: ts) ++ X)) := by simp
      rw [this, dotRun_goodSeg q h _ hh.1 hh.2.1 hh.2.2]
      simp only [dotRun, dotStep, ↓reduceIte]
      simp only [reduceCtorEq, or_self, ↓reduceIte, Option.bind_some]
      exact ih (by simp) (fun s hm => hs s (by simp [hm])) .e

theorem splitBy_noSep (p : Char → Bool) (s : Str) : ∀ seg ∈ splitBy p s, ∀ c ∈ seg, p c = false := by
  induction s with
  | nil => simp [splitBy]
  | cons c cs ih =>
    simp only [splitBy]
    by_cases hp : p c = true
    · simp only [hp, ↓reduceIte, List.mem_cons]
      rintro seg (rfl | hm)
      · simp
      · exact ih seg hm
    · simp only [hp]
      cases hsp : splitBy p cs with
      | nil => exact absurd hsp (splitBy_ne_nil _ _)
      | cons a as =>
        rw [hsp] at ih
        intro seg hm0
        have hm1 : seg ∈ (c :: a) :: as := hm0
        rcases List.mem_cons.mp hm1 with rfl | hm
        · intro d hd
          rcases List.mem_cons.mp hd with rfl | hd'
          · simpa using hp
          · exact ih a (by simp) d hd'
        · exact ih seg (by simp [hm])

theorem splitBy_subset (p : Char → Bool) (s : Str) : ∀ seg ∈ splitBy p s, ∀ c ∈ seg, c ∈ s := by
  induction s with
  | nil => simp [splitBy]
  | cons c cs ih =>
    simp only [splitBy]
    by_cases hp : p c = true
    · simp only [hp, ↓reduceIte, List.mem_cons]
      rintro seg (rfl | hm)
      · simp
      · intro d hd; exact Or.inr (ih seg hm d hd)
    · simp only [hp]
      cases hsp : splitBy p cs with
      | nil => exact absurd hsp (splitBy_ne_nil _ _)
      | cons a as =>
        rw [hsp] at ih
        intro seg hm0
        have hm1 : seg ∈ (c :: a) :: as := hm0
        rcases List.mem_cons.mp hm1 with rfl | hm
        · intro d hd
          rcases List.mem_cons.mp hd with rfl | hd'
          · simp
          · exact List.mem_cons_of_mem _ (ih a (by simp) d hd')
        · intro d hd; exact List.mem_cons_of_mem _ (ih seg (by simp [hm]) d hd)

theorem mem_replaceStar (r pm : Str) (c : Char) (h : c ∈ replaceStar r pm) : c ∈ r ∨ c ∈ pm := by
  simp only [replaceStar, List.mem_flatMap] at h
  obtain ⟨a, ha, hc⟩ := h
  by_cases hs : a = '*'
  · simp [hs] at hc; exact Or.inr hc
  · simp [hs] at hc; exact Or.inl (hc ▸ ha)

/-- the automaton reads `r` with every "*" replaced by a valid pattern match exactly as it reads `r` -/
theorem dotRun_replaceStar (r pm : Str)
    (hpm : ∀ s ∈ splitBy (· = '/') pm, s ≠ [] ∧ ¬ isDotSeg s) (q : DS) :
    dotRun q (replaceStar r pm) = dotRun q r := by
  have hpm' : ∀ s ∈ splitBy (· = '/') pm, ¬ '/' ∈ s ∧ s ≠ [] ∧ ¬ isDotSeg s := by
    intro s hm
    refine ⟨?_, hpm s hm⟩
    intro hc
    have := splitBy_noSep (· = '/') pm s hm '/' hc
    simp at this
  induction r generalizing q with
  | nil => rfl
  | cons c cs ih =>
    by_cases hs : c = '*'
    · subst hs
      have : replaceStar ('*' :: cs) pm = joinWith '/' (splitBy (· = '/') pm) ++ replaceStar cs pm := by
        simp [replaceStar, joinWith_splitBy]
      rw [this, dotRun_goodSegs _ (splitBy_ne_nil _ _) hpm' q, ih]
      simp [dotRun, dotStep]
    · have : replaceStar (c :: cs) pm = c :: replaceStar cs pm := by
        simp [replaceStar, hs]
      rw [this]
      simp only [dotRun]
      cases dotStep q c with
      | none => rfl
      | some q' => simp [ih]

/-- THE GLUE LEMMA: no dot segment in `r`, a pattern match without empty or dot segments
⟹ no dot segment in `r` with every "*" replaced -/
theorem noDotSeg_replaceStar (r pm : Str)
    (hr : ∀ s ∈ splitBy (· = '/') r, ¬ isDotSeg s)
    (hpm : ∀ s ∈ splitBy (· = '/') pm, s ≠ [] ∧ ¬ isDotSeg s) :
    ∀ s ∈ splitBy (· = '/') (replaceStar r pm), ¬ isDotSeg s := by
  have noslash : ∀ x : Str, ∀ s ∈ splitBy (· = '/') x, ¬ '/' ∈ s := by
    intro x s hm hc
    have := splitBy_noSep (· = '/') x s hm '/' hc
    simp at this
  have h1 : accepts r := by
    have := (accepts_join (splitBy (· = '/') r) (splitBy_ne_nil _ _) (noslash r)).mpr hr
    rwa [joinWith_splitBy] at this
  have h2 : accepts (replaceStar r pm) := by
    unfold accepts at h1 ⊢
    rwa [dotRun_replaceStar r pm hpm]
  have := (accepts_join (splitBy (· = '/') (replaceStar r pm)) (splitBy_ne_nil _ _) (noslash _)).mp
  rw [joinWith_splitBy] at this
  exact this h2

end EsbuildModel.PkgExports
