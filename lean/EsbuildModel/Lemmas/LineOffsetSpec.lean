import EsbuildModel.Lemmas.LineOffsetRun
/-!
The specified position (`Spec.TextPosition.posOfIndex`: counting line ends, summing UTF-16 units) along the
decomposition of a text into a first line and the rest.
-/
namespace EsbuildModel.LineOffset
open EsbuildModel.Spec.Unicode EsbuildModel.Spec.TextPosition

/-- specified position of the boundary in front of character `k` -/
def pos (chs : List Ch) (k : Nat) : Pos := posOfIndex (chs.map (·.cp)) k

theorem marks_map_cons (c : Ch) (r : List Ch) :
    marks ((c :: r).map (·.cp)) = (c.cp, ends c r) :: marks (r.map (·.cp)) := by
  simp only [List.map_cons, marks, ends, nextCp, List.head?_map]

theorem marks_noEnd (p tail : List Ch) (h : NoEnd p tail) :
    marks ((p ++ tail).map (·.cp)) = p.map (fun c => (c.cp, false)) ++ marks (tail.map (·.cp)) := by
  induction p with
  | nil => rfl
  | cons c r ih =>
    obtain ⟨he, hr⟩ := h
    rw [List.cons_append, marks_map_cons, he, ih hr]
    rfl

theorem falseMarks_countP (q : List Ch) : (q.map (fun c => (c.cp, false))).countP (·.2) = 0 := by
  rw [List.countP_eq_zero]
  intro x hx
  rw [List.mem_map] at hx
  obtain ⟨c, _, rfl⟩ := hx
  simp

theorem takeWhile_all {α : Type} (f : α → Bool) (l : List α) (h : ∀ x ∈ l, f x = true) : l.takeWhile f = l := by
  induction l with
  | nil => rfl
  | cons a t ih =>
    rw [List.takeWhile_cons, h a (List.mem_cons_self ..)]
    simp only [if_true]
    rw [ih (fun x hx => h x (List.mem_cons_of_mem _ hx))]

theorem takeWhile_stop {α : Type} (f : α → Bool) (l1 : List α) (x : α) (l2 : List α) (hx : f x = false) :
    (l1 ++ x :: l2).takeWhile f = l1.takeWhile f := by
  induction l1 with
  | nil => simp [hx]
  | cons a t ih =>
    simp only [List.cons_append, List.takeWhile_cons, ih]

theorem falseMarks_col (q : List Ch) :
    ((((q.map (fun c => (c.cp, false))).reverse).takeWhile (fun m => !m.2)).map (fun m => units m.1)).sum
      = unitsOf q := by
  rw [takeWhile_all]
  · rw [← List.map_reverse, List.map_map, List.map_reverse, List.sum_reverse]
    unfold unitsOf
    congr 1
    apply List.map_congr_left
    intro c _
    simp [units_eq_colWidth]
  · intro x hx
    rw [List.mem_reverse, List.mem_map] at hx
    obtain ⟨c, _, rfl⟩ := hx
    rfl

/-- inside the first line: line 0, column = UTF-16 units of the characters in front -/
theorem pos_first_line (p tail : List Ch) (h : NoEnd p tail) (k : Nat) (hk : k ≤ p.length) :
    pos (p ++ tail) k = ⟨0, unitsOf (p.take k)⟩ := by
  unfold pos posOfIndex
  rw [marks_noEnd p tail h]
  have e : (p.map (fun c => (c.cp, false)) ++ marks (tail.map (·.cp))).take k = (p.take k).map (fun c => (c.cp, false)) := by
    rw [List.take_append_of_le_length (by simpa using hk), List.map_take]
  simp only [e, falseMarks_countP, falseMarks_col]

/-- behind the first line end: one line further down than in the rest of the text -/
theorem pos_later (p : List Ch) (t : Ch) (rest : List Ch) (h : NoEnd p (t :: rest)) (ht : ends t rest = true)
    (k : Nat) (hk : p.length + 1 ≤ k) :
    pos (p ++ t :: rest) k =
      ⟨(pos rest (k - (p.length + 1))).line + 1, (pos rest (k - (p.length + 1))).col⟩ := by
  unfold pos posOfIndex
  rw [marks_noEnd p (t :: rest) h, marks_map_cons, ht]
  have e : (p.map (fun c => (c.cp, false)) ++ (t.cp, true) :: marks (rest.map (·.cp))).take k
      = p.map (fun c => (c.cp, false)) ++ (t.cp, true) :: (marks (rest.map (·.cp))).take (k - (p.length + 1)) := by
    rw [List.take_append]
    simp only [List.length_map]
    rw [List.take_of_length_le (by simp; omega)]
    obtain ⟨j, hj⟩ : ∃ j, k - p.length = j + 1 := ⟨k - p.length - 1, by omega⟩
    rw [hj, List.take_succ_cons]
    have : k - (p.length + 1) = j := by omega
    rw [this]
  simp only [e]
  congr 1
  · rw [List.countP_append, falseMarks_countP, List.countP_cons]
    simp only [if_true]
    omega
  · rw [List.reverse_append, List.reverse_cons, List.append_assoc, List.singleton_append]
    rw [takeWhile_stop _ _ _ _ (by rfl)]

theorem pos_zero (chs : List Ch) : pos chs 0 = ⟨0, 0⟩ := by
  unfold pos posOfIndex; simp

end EsbuildModel.LineOffset
