import EsbuildModel.Lemmas.ScopesFlat
import EsbuildModel.Lemmas.ScopesDecls
/-!
Flat programs: the names of the environments of the spec against the declarations the parser meets.
-/
namespace EsbuildModel.Scopes
open JsScopes

theorem nat_beq_decide (a b : Nat) : (a == b) = decide (a = b) := by
  cases h : a == b <;> simp_all

-- which names a list of items declares -----------------------------------------------------------------------------

def declaresL (n : Name) (is : List Item) : Bool :=
  is.any (fun i => match i with | .decl _ n' => n' == n | _ => false)
def hasDeclArgs (is : List Item) : Bool := is.any (fun i => match i with | .declArgs => true | _ => false)

theorem hasAfterL_eq (n : Name) : ∀ (is : List Item) (x : Bool),
    hasAfterL n is x = (x || declaresL n is || (hasDeclArgs is && n == argumentsName))
  | [], x => by simp [hasAfterL, declaresL, hasDeclArgs]
  | i :: is, x => by
    simp only [hasAfterL, hasAfterL_eq n is]
    cases i with
    | declArgs =>
      simp only [hasAfter, declaresL, hasDeclArgs, List.any_cons, Bool.false_or, Bool.true_or, Bool.true_and]
      generalize (is.any fun i => match i with | Item.decl _ n' => n' == n | _ => false) = b
      generalize (is.any fun i => match i with | Item.declArgs => true | _ => false) = c
      cases x <;> cases (n == argumentsName) <;> cases b <;> cases c <;> rfl
    | _ => simp [hasAfter, declaresL, hasDeclArgs, Bool.or_assoc, Bool.or_comm, Bool.or_left_comm]

theorem declaresL_append (n : Name) (a b : List Item) : declaresL n (a ++ b) = (declaresL n a || declaresL n b) := by
  simp [declaresL]
theorem hasDeclArgs_append (a b : List Item) : hasDeclArgs (a ++ b) = (hasDeclArgs a || hasDeclArgs b) := by
  simp [hasDeclArgs]

theorem declaresL_decls (n : Name) (ds : List (SK × Name)) :
    declaresL n (ds.map (fun d => Item.decl d.1 d.2)) = (ds.map (·.2)).contains n := by
  induction ds with
  | nil => simp [declaresL]
  | cons d ds ih =>
    simp only [declaresL, List.map_cons, List.any_cons, List.contains_cons] at ih ⊢
    rw [ih]; simp [Bool.beq_comm]

theorem hasDeclArgs_decls (ds : List (SK × Name)) : hasDeclArgs (ds.map (fun d => Item.decl d.1 d.2)) = false := by
  induction ds with
  | nil => rfl
  | cons d ds ih => simp only [hasDeclArgs, List.map_cons, List.any_cons, Bool.false_or] at ih ⊢; exact ih

mutual
theorem stmt_declares (n : Name) : ∀ (s : Stmt), s.flat true = true ∨ s.flat false = true →
    declaresL n (stmtItems s) = ((stmtDeclKind s).map (·.2)).contains n ∧ hasDeclArgs (stmtItems s) = false
  | .var_ m, _ => by simp [stmtItems, stmtDeclKind, declaresL, hasDeclArgs, Bool.beq_comm, nat_beq_decide]
  | .lex k m, h => by
    have hk : k ≠ .class_ := by
      rcases h with h | h <;> (simp [Stmt.flat] at h; exact h.1)
    simp [stmtItems, stmtDeclKind, declaresL, hasDeclArgs, hk, Bool.beq_comm, nat_beq_decide]
  | .fn m gen ps us body, _ => by
    simp [stmtItems, stmtDeclKind, declaresL, hasDeclArgs, Bool.beq_comm, nat_beq_decide]
  | .ref m, _ => by simp [stmtItems, stmtDeclKind, declaresL, hasDeclArgs]
  | .block b, _ => by simp [stmtItems, stmtDeclKind, declaresL, hasDeclArgs]
  | .try_ b c h, _ => by simp [stmtItems, stmtDeclKind, declaresL, hasDeclArgs]
  | .fnExpr m ps us body, _ => by simp [stmtItems, stmtDeclKind, declaresL, hasDeclArgs]
  | .arrow ps body, _ => by simp [stmtItems, stmtDeclKind, declaresL, hasDeclArgs]
theorem list_declares (n : Name) : ∀ (ss : List Stmt) (top : Bool), flatL top ss = true →
    declaresL n (listItems ss) = ((declKinds ss).map (·.2)).contains n ∧ hasDeclArgs (listItems ss) = false
  | [], _, _ => by simp [listItems, declKinds, declaresL, hasDeclArgs]
  | s :: ss, top, h => by
    simp only [flatL, Bool.and_eq_true] at h
    obtain ⟨h1, h2⟩ := stmt_declares n s (by cases top <;> simp_all)
    obtain ⟨h3, h4⟩ := list_declares n ss top h.2
    simp only [listItems, declKinds, declaresL_append, hasDeclArgs_append, h1, h2, h3, h4, List.map_append,
      List.contains_append, Bool.or_self, and_self]
end

-- the names of the environments ------------------------------------------------------------------------------------

mutual
theorem flat_varNames : ∀ (s : Stmt), s.flat false = true → s.varNames = []
  | .var_ _, h => by simp [Stmt.flat] at h
  | .lex _ _, _ => rfl
  | .fn _ _ _ _ _, _ => rfl
  | .ref _, _ => rfl
  | .block b, h => by simp only [Stmt.flat] at h; simp only [Stmt.varNames]; exact flat_varNamesL b h
  | .try_ b c hd, h => by
    simp only [Stmt.flat, Bool.and_eq_true] at h
    simp only [Stmt.varNames, flat_varNamesL b h.1.1, flat_varNamesL hd h.2, List.append_nil]
  | .fnExpr _ _ _ _, _ => rfl
  | .arrow _ _, _ => rfl
theorem flat_varNamesL : ∀ (ss : List Stmt), flatL false ss = true → varNamesL ss = []
  | [], _ => rfl
  | s :: ss, h => by
    simp only [flatL, Bool.and_eq_true] at h
    simp only [varNamesL, flat_varNames s h.1, flat_varNamesL ss h.2, List.append_nil]
end

theorem flat_plainFn : ∀ (ss : List Stmt), flatL false ss = true → plainFnNames ss = []
  | [], _ => rfl
  | s :: ss, h => by
    simp only [flatL, Bool.and_eq_true] at h
    have ih := flat_plainFn ss h.2
    cases s with
    | fn n gen ps us body => simp [Stmt.flat] at h
    | _ => simp only [plainFnNames, ih]

mutual
theorem flat_annexB (bl : List JsScopes.Name) : ∀ (s : Stmt) (top : Bool), s.flat top = true → s.annexB bl = []
  | .var_ _, _, _ => by simp [Stmt.annexB]
  | .lex _ _, _, _ => by simp [Stmt.annexB]
  | .fn _ _ _ _ _, _, _ => by simp [Stmt.annexB]
  | .ref _, _, _ => by simp [Stmt.annexB]
  | .block b, _, h => by
    simp only [Stmt.flat] at h
    simp only [Stmt.annexB, annexBBlock, flat_plainFn b h, List.filter_nil, List.nil_append]
    exact flat_annexBL _ b false h
  | .try_ b c hd, _, h => by
    simp only [Stmt.flat, Bool.and_eq_true] at h
    simp only [Stmt.annexB, annexBBlock, flat_plainFn b h.1.1, flat_plainFn hd h.2, List.filter_nil, List.nil_append]
    rw [flat_annexBL _ b false h.1.1, flat_annexBL _ hd false h.2]; rfl
  | .fnExpr _ _ _ _, _, _ => by simp [Stmt.annexB]
  | .arrow _ _, _, _ => by simp [Stmt.annexB]
theorem flat_annexBL (bl : List JsScopes.Name) : ∀ (ss : List Stmt) (top : Bool), flatL top ss = true → annexBList bl ss = []
  | [], _, _ => by simp [annexBList]
  | s :: ss, top, h => by
    simp only [flatL, Bool.and_eq_true] at h
    simp only [annexBList, flat_annexB bl s top h.1, flat_annexBL bl ss top h.2, List.append_nil]
end

theorem flat_annexBFn (ps : List JsScopes.Name) (body : List Stmt) (top : Bool) (h : flatL top body = true) :
    annexBFn ps body = [] := by
  simp [annexBFn, flat_annexBL _ body top h]

/-- VarDeclaredNames of a flat function body: the top-level `var`s -/
theorem flat_varNames_top : ∀ (ss : List Stmt), flatL true ss = true → varNamesL ss = topVarNames ss
  | [], _ => rfl
  | s :: ss, h => by
    simp only [flatL, Bool.and_eq_true] at h
    have ih := flat_varNames_top ss h.2
    cases s with
    | var_ n => simp [varNamesL, Stmt.varNames, topVarNames, ih]
    | block b =>
      have : flatL false b = true := by simpa [Stmt.flat] using h.1
      simp [varNamesL, Stmt.varNames, topVarNames, ih, flat_varNamesL b this]
    | try_ b c hd =>
      have h1 := h.1
      simp only [Stmt.flat, Bool.and_eq_true] at h1
      simp [varNamesL, Stmt.varNames, topVarNames, ih, flat_varNamesL b h1.1.1, flat_varNamesL hd h1.2]
    | _ => simp [varNamesL, Stmt.varNames, topVarNames, ih]

/-- the declarations of the statement list of a flat block are its lexical declarations -/
theorem flat_block_decls : ∀ (ss : List Stmt), flatL false ss = true → (declKinds ss).map (·.2) = lexNames ss
  | [], _ => rfl
  | s :: ss, h => by
    simp only [flatL, Bool.and_eq_true] at h
    have ih := flat_block_decls ss h.2
    cases s with
    | var_ n => simp [Stmt.flat] at h
    | fn n gen ps us body => simp [Stmt.flat] at h
    | lex k n => simp [declKinds, stmtDeclKind, lexNames, ih]
    | _ => simp [declKinds, stmtDeclKind, lexNames, ih]

theorem mem_declKinds_top (n : JsScopes.Name) : ∀ (ss : List Stmt),
    n ∈ (declKinds ss).map (·.2) ↔ n ∈ topVarNames ss ∨ n ∈ topLexNames ss ∨ n ∈ topFnNames ss
  | [] => by simp [declKinds, topVarNames, topLexNames, topFnNames]
  | s :: ss => by
    have ih := mem_declKinds_top n ss
    simp only [declKinds, List.map_append, List.mem_append, ih]
    cases s <;> simp [stmtDeclKind, topVarNames, topLexNames, topFnNames, or_assoc, or_comm, or_left_comm]

theorem mem_lexNames (n : JsScopes.Name) : ∀ (ss : List Stmt), n ∈ lexNames ss ↔ n ∈ topLexNames ss ∨ n ∈ topFnNames ss
  | [] => by simp [lexNames, topLexNames, topFnNames]
  | s :: ss => by
    have ih := mem_lexNames n ss
    cases s <;> simp [lexNames, topLexNames, topFnNames, ih, or_assoc, or_comm, or_left_comm]

-- the members of the scopes of a function ------------------------------------------------------------------------------

theorem kindAfterL_append (n : Name) : ∀ (a b : List Item) (x : Option SK),
    kindAfterL n (a ++ b) x = kindAfterL n b (kindAfterL n a x)
  | [], _, _ => rfl
  | i :: a, b, x => by simp only [List.cons_append, kindAfterL]; exact kindAfterL_append n a b _

theorem kindAfterL_params (n : Name) : ∀ (ps : List Name) (x : Option SK),
    kindAfterL n (ps.map (Item.decl .hoisted)) x = if n ∈ ps then some .hoisted else x
  | [], x => by simp [kindAfterL]
  | p :: ps, x => by
    simp only [List.map_cons, kindAfterL, kindAfter, kindAfterL_params n ps, List.mem_cons]
    by_cases h1 : n ∈ ps
    · simp [h1]
    · by_cases h2 : p = n
      · simp [h1, h2]
      · have : ¬ n = p := fun e => h2 e.symm
        simp [h1, h2, this]

/-- the kind of the member of the argument scope of a function for a name (`arguments` is nobody's name) -/
theorem args_kind (n : Name) (name : Option Name) (ps : List Name) (hasArgs us : Bool) (bodyItems : List Item)
    (hn : name ≠ some argumentsName) (hps : argumentsName ∉ ps) :
    kindAfterL n ((nameDecl name ++ ps.map (fun p => (SK.hoisted, p))).map (fun d => Item.decl d.1 d.2) ++
        ((if hasArgs then [Item.declArgs] else []) ++ [.scope .fnBody us none bodyItems])) none =
      if n ∈ ps then some .hoisted
      else if name = some n then some .hoistedFunction
      else if hasArgs ∧ n = argumentsName then some .arguments else none := by
  have hmap : (nameDecl name ++ ps.map (fun p => (SK.hoisted, p))).map (fun d => Item.decl d.1 d.2) =
      (nameDecl name).map (fun d => Item.decl d.1 d.2) ++ ps.map (Item.decl .hoisted) := by
    simp [List.map_map, Function.comp_def]
  rw [hmap, kindAfterL_append, kindAfterL_append, kindAfterL_append, kindAfterL_params]
  have h1 : kindAfterL n ((nameDecl name).map (fun d => Item.decl d.1 d.2)) none =
      if name = some n then some .hoistedFunction else none := by
    cases name with
    | none => simp [nameDecl, kindAfterL]
    | some m =>
      simp only [nameDecl, List.map_cons, List.map_nil, kindAfterL, kindAfter, Option.some.injEq]
  rw [h1]
  by_cases hnp : n ∈ ps
  · have hna : n ≠ argumentsName := fun e => hps (e ▸ hnp)
    simp only [hnp, if_true]
    cases hasArgs <;> simp [kindAfterL, kindAfter, hna]
  · simp only [hnp, if_false]
    by_cases hnm : name = some n
    · have hna : n ≠ argumentsName := fun e => hn (e ▸ hnm)
      simp only [hnm, if_true]
      cases hasArgs <;> simp [kindAfterL, kindAfter, hna]
    · simp only [hnm, if_false]
      cases hasArgs <;> simp [kindAfterL, kindAfter]

/-- the items of the argument scope of a function -/
def argsItems (name : Option Name) (ps : List Name) (hasArgs us : Bool) (bodyItems : List Item) : List Item :=
  (nameDecl name ++ ps.map (fun p => (SK.hoisted, p))).map (fun d => Item.decl d.1 d.2) ++
    ((if hasArgs then [Item.declArgs] else []) ++ [.scope .fnBody us none bodyItems])

theorem fnItems_eq (name : Option Name) (ps : List Name) (hasArgs us : Bool) (bodyItems : List Item) :
    fnItems name ps hasArgs us bodyItems = .scope .fnArgs false none (argsItems name ps hasArgs us bodyItems) := rfl

/-- the members of the two scopes of a flat function, by name -/
theorem fn_frames {syms : Syms} {mem : Members} {fA fB : Frame} {name : Option Name} {ps : List Name} {hasArgs us : Bool}
    {body : List Stmt}
    (seA : ScopeEqs syms mem .fnArgs fA (argsItems name ps hasArgs us (listItems body)))
    (seB : ScopeEqs syms fA.members .fnBody fB (listItems body))
    (hfl : flatL true body = true) (hn : name ≠ some argumentsName) (hps : argumentsName ∉ ps)
    (hna : noArgDeclL (argsItems name ps hasArgs us (listItems body)) = true) (n : Name) :
    (memberKind syms fA.members n =
      if n ∈ ps then some .hoisted
      else if name = some n then some .hoistedFunction
      else if hasArgs ∧ n = argumentsName then some .arguments else none) ∧
    ((lookup n fB.members).isSome =
      (ps.contains n || (hasArgs && n == argumentsName) || ((declKinds body).map (·.2)).contains n)) := by
  have hk : memberKind syms fA.members n = _ := seA.2.2.2 n (Or.inr hna)
  simp only [show (ScK.fnArgs = ScK.fnBody) = False from by simp, if_false] at hk
  unfold argsItems at hk
  rw [args_kind n name ps hasArgs us (listItems body) hn hps] at hk
  refine ⟨hk, ?_⟩
  have hb := seB.2.2.1 n
  simp only [if_true] at hb
  rw [hb, hasAfterL_eq, (list_declares n body true hfl).1, (list_declares n body true hfl).2, hk]
  by_cases h1 : n ∈ ps
  · simp [h1, copyKind]
  · by_cases h2 : name = some n
    · have hna' : n ≠ argumentsName := fun e => hn (e ▸ h2)
      simp [h1, h2, copyKind, hna']
    · by_cases h3 : hasArgs = true ∧ n = argumentsName
      · obtain ⟨h3a, h3b⟩ := h3
        subst h3b
        simp [hps, hn, h3a, copyKind]
      · have : (hasArgs && n == argumentsName) = false := by
          cases hasArgs <;> simp_all
        simp [h1, h2, h3, copyKind, this]

end EsbuildModel.Scopes
