import EsbuildModel.Impl.ScopesSyntax
import EsbuildModel.Lemmas.ScopesHoistK
/-!
The parse pass at the level of kinds on the statements of Spec/JsScopes.lean: what the scope of a statement list looks
like after `aParseItems (listItems ss)`.
-/
namespace EsbuildModel.Scopes
open JsScopes

theorem aParseItems_append : ∀ (a b : List Item) (c : ACtx),
    aParseItems (a ++ b) c = (aParseItems a c).bind (aParseItems b)
  | [], b, c => by simp [aParseItems]
  | i :: a, b, c => by
    simp only [List.cons_append, aParseItems]
    cases aParseItem i c with
    | none => simp
    | some c' => simp only [aParseItems_append a b c']

/-- the declareSymbol calls a statement makes in the scope it stands in -/
def stmtDeclKind : Stmt → List (SK × Name)
  | .var_ n => [(.hoisted, n)]
  | .lex k n => [(lexSK k, n)]
  | .fn n gen _ _ _ => [(if gen then .generatorOrAsyncFunction else .hoistedFunction, n)]
  | _ => []

def declKinds : List Stmt → List (SK × Name)
  | [] => []
  | s :: ss => stmtDeclKind s ++ declKinds ss

/-- a sequence of declarations in one scope: the scope and the errors -/
def declFold (f : AFrame) : List (SK × Name) → AFrame × List Name
  | [] => (f, [])
  | (k, n) :: ds =>
    let r := declFold (aDeclare f k n).1 ds
    (r.1, (if (aDeclare f k n).2 then [n] else []) ++ r.2)

theorem aDeclare_kind (f : AFrame) (k : SK) (n : Name) : (aDeclare f k n).1.kind = f.kind ∧ (aDeclare f k n).1.strict = f.strict := by
  unfold aDeclare
  split
  · exact ⟨rfl, rfl⟩
  · split <;> exact ⟨rfl, rfl⟩

theorem declFold_kind : ∀ (ds : List (SK × Name)) (f : AFrame), (declFold f ds).1.kind = f.kind ∧ (declFold f ds).1.strict = f.strict
  | [], f => ⟨rfl, rfl⟩
  | (k, n) :: ds, f => by
    simp only [declFold]
    have h1 := declFold_kind ds (aDeclare f k n).1
    have h2 := aDeclare_kind f k n
    exact ⟨h1.1.trans h2.1, h1.2.trans h2.2⟩

theorem declFold_append : ∀ (a b : List (SK × Name)) (f : AFrame),
    declFold f (a ++ b) = ((declFold (declFold f a).1 b).1, (declFold f a).2 ++ (declFold (declFold f a).1 b).2)
  | [], b, f => by simp [declFold]
  | (k, n) :: a, b, f => by
    simp only [List.cons_append, declFold, declFold_append a b, List.append_assoc]

/-- the declaration of the name of a named function expression -/
def nameDecl : Option Name → List (SK × Name)
  | some n => [(.hoistedFunction, n)]
  | none => []

/-- the scope of the parameters of a function after the parameters (and the name of a function expression) have been
declared and the "arguments" step has run -/
def aArgsFrame (strict : Strict) (name : Option Name) (ps : List Name) (hasArguments : Bool) : AFrame × List Name :=
  let a0 : AFrame := ⟨.fnArgs, strict, [], []⟩
  let r := declFold a0 (nameDecl name ++ ps.map (fun p => (.hoisted, p)))
  if hasArguments then
    match alookup argumentsName r.1.mem with
    | some _ => r
    | none => ((aDeclare r.1 .arguments argumentsName).1, r.2 ++ (if (aDeclare r.1 .arguments argumentsName).2 then [argumentsName] else []))
  else r

/-- argument scope and (empty) body scope of a function when the body scope is pushed -/
def aFnFrames (strict : Strict) (name : Option Name) (ps : List Name) (hasArguments us : Bool) : (AFrame × AFrame) × List Name :=
  let a := aArgsFrame strict name ps hasArguments
  let b0 : AFrame := ⟨.fnBody, a.1.strict, aCopyArgs a.1.mem, []⟩
  ((if us then aApplyUseStrict a.1 b0 else (a.1, b0)), a.2)

def catchDecls : CatchParam → List (SK × Name)
  | .none => []
  | .ident n => [(.catchIdentifier, n)]
  | .pattern ns => ns.map (fun n => (.other, n))

theorem catchItems_eq (c : CatchParam) : catchItems c = (catchDecls c).map (fun d => Item.decl d.1 d.2) := by
  cases c <;> simp [catchItems, catchDecls, List.map_map, Function.comp_def]

mutual
/-- the parse pass (kinds) on a statement in the scope `f`: the scope afterwards, the child scopes it contributes, the
errors in the order they are reported -/
def aStmt : Stmt → AFrame → AFrame × List AT × List Name
  | .var_ n, f => ((aDeclare f .hoisted n).1, [], if (aDeclare f .hoisted n).2 then [n] else [])
  | .lex k n, f =>
    ((aDeclare f (lexSK k) n).1,
      (if k = .class_ then [.node ⟨.className, f.strict, [], []⟩ [.node (aClassStrict ⟨.classBody, f.strict, [], []⟩) []]] else []),
      if (aDeclare f (lexSK k) n).2 then [n] else [])
  | .fn n gen ps us body, f =>
    let fr := aFnFrames f.strict none ps true us
    let r := aList body fr.1.2
    let k : SK := if gen then .generatorOrAsyncFunction else .hoistedFunction
    ((aDeclare f k n).1, [.node fr.1.1 [.node r.1 r.2.1]], fr.2 ++ r.2.2 ++ (if (aDeclare f k n).2 then [n] else []))
  | .ref _, f => (f, [], [])
  | .block b, f =>
    let r := aList b ⟨.block, f.strict, [], []⟩
    (f, [.node r.1 r.2.1], r.2.2)
  | .try_ b c h, f =>
    let r1 := aList b ⟨.block, f.strict, [], []⟩
    let cf := declFold ⟨.catchBinding, f.strict, [], []⟩ (catchDecls c)
    let r2 := aList h ⟨.block, cf.1.strict, [], []⟩
    (f, [.node r1.1 r1.2.1, .node cf.1 [.node r2.1 r2.2.1]], r1.2.2 ++ cf.2 ++ r2.2.2)
  | .fnExpr n ps us body, f =>
    let fr := aFnFrames f.strict n ps true us
    let r := aList body fr.1.2
    (f, [.node fr.1.1 [.node r.1 r.2.1]], fr.2 ++ r.2.2)
  | .arrow ps body, f =>
    let fr := aFnFrames f.strict none ps false false
    let r := aList body fr.1.2
    (f, [.node fr.1.1 [.node r.1 r.2.1]], fr.2 ++ r.2.2)
def aList : List Stmt → AFrame → AFrame × List AT × List Name
  | [], f => (f, [], [])
  | s :: ss, f =>
    let r1 := aStmt s f
    let r2 := aList ss r1.1
    (r2.1, r1.2.1 ++ r2.2.1, r1.2.2 ++ r2.2.2)
end

theorem aParse_decls : ∀ (ds : List (SK × Name)) (f : AFrame) (ks : List AT) (es : List Name),
    aParseItems (ds.map (fun d => Item.decl d.1 d.2)) ⟨f, ks, es⟩ = some ⟨(declFold f ds).1, ks, es ++ (declFold f ds).2⟩
  | [], f, ks, es => by simp [aParseItems, declFold]
  | (k, n) :: ds, f, ks, es => by
    simp only [List.map_cons, aParseItems, aParseItem, aDeclareCtx, declFold]
    rw [aParse_decls ds]
    simp [List.append_assoc]

theorem aParse_params (ps : List Name) (f : AFrame) (ks : List AT) (es : List Name) :
    aParseItems (ps.map (Item.decl .hoisted)) ⟨f, ks, es⟩ =
      some ⟨(declFold f (ps.map (fun p => (SK.hoisted, p)))).1, ks, es ++ (declFold f (ps.map (fun p => (SK.hoisted, p)))).2⟩ := by
  have := aParse_decls (ps.map (fun p => (SK.hoisted, p))) f ks es
  simpa [List.map_map, Function.comp_def] using this

theorem aArgsFrame_kind (strict : Strict) (name : Option Name) (ps : List Name) (ha : Bool) :
    (aArgsFrame strict name ps ha).1.kind = .fnArgs := by
  unfold aArgsFrame
  simp only
  split
  · split
    · exact (declFold_kind _ _).1
    · exact (aDeclare_kind _ _ _).1.trans (declFold_kind _ _).1
  · exact (declFold_kind _ _).1

/-- the items of a function: name?, parameters, "arguments"?, body -/
theorem aParse_fn (name : Option Name) (ps : List Name) (hasArguments us : Bool) (bodyItems : List Item)
    (ks : List AT) (es : List Name) (cur : AFrame) (r : AFrame × List AT × List Name)
    (hb : aParseItems bodyItems ⟨(aFnFrames cur.strict name ps hasArguments us).1.2, [],
        es ++ (aFnFrames cur.strict name ps hasArguments us).2⟩
      = some ⟨r.1, r.2.1, es ++ (aFnFrames cur.strict name ps hasArguments us).2 ++ r.2.2⟩) :
    aParseItem (.scope .fnArgs false none
        ((nameDecl name ++ ps.map (fun p => (SK.hoisted, p))).map
            (fun d => Item.decl d.1 d.2) ++
          ((if hasArguments then [Item.declArgs] else []) ++ [.scope .fnBody us none bodyItems]))) ⟨cur, ks, es⟩ =
      some ⟨cur, ks ++ [.node (aFnFrames cur.strict name ps hasArguments us).1.1 [.node r.1 r.2.1]],
        es ++ (aFnFrames cur.strict name ps hasArguments us).2 ++ r.2.2⟩ := by
  simp only [aParseItem, aPush, if_neg (show ScK.fnArgs ≠ ScK.fnBody by decide), Bool.false_eq_true, if_false]
  have hcs : aClassStrict ⟨.fnArgs, cur.strict, [], []⟩ = ⟨.fnArgs, cur.strict, [], []⟩ := by
    simp [aClassStrict]
  rw [hcs, aParseItems_append, aParse_decls]
  simp only [Option.bind_some]
  -- the "arguments" step
  have hargs : aParseItems ((if hasArguments then [Item.declArgs] else []) ++ [.scope .fnBody us none bodyItems])
      ⟨(declFold ⟨.fnArgs, cur.strict, [], []⟩ (nameDecl name ++ ps.map (fun p => (SK.hoisted, p)))).1, [],
        es ++ (declFold ⟨.fnArgs, cur.strict, [], []⟩ (nameDecl name ++ ps.map (fun p => (SK.hoisted, p)))).2⟩ =
      aParseItems [.scope .fnBody us none bodyItems]
        ⟨(aArgsFrame cur.strict name ps hasArguments).1, [], es ++ (aArgsFrame cur.strict name ps hasArguments).2⟩ := by
    simp only [aArgsFrame]
    cases hasArguments with
    | false => simp
    | true =>
      generalize declFold ⟨.fnArgs, cur.strict, [], []⟩ (nameDecl name ++ ps.map (fun p => (SK.hoisted, p))) = d
      simp only [if_true, List.cons_append, List.nil_append]
      rw [aParseItems]
      simp only [aParseItem]
      cases hx : alookup argumentsName d.1.mem with
      | some x => simp
      | none => simp [aDeclareCtx, List.append_assoc]
  rw [hargs]
  simp only [aParseItems, aParseItem, aPush, if_true]
  have hk := aArgsFrame_kind cur.strict name ps hasArguments
  simp only [hk, ne_eq, not_true_eq_false, if_false]
  have hcs2 : ∀ (m : AMembers) (st : Strict), aClassStrict ⟨.fnBody, st, m, []⟩ = ⟨.fnBody, st, m, []⟩ := by
    intro m st; simp [aClassStrict]
  rw [hcs2]
  have hfr : (aFnFrames cur.strict name ps hasArguments us) =
      ((if us = true then aApplyUseStrict (aArgsFrame cur.strict name ps hasArguments).1
          ⟨.fnBody, (aArgsFrame cur.strict name ps hasArguments).1.strict, aCopyArgs (aArgsFrame cur.strict name ps hasArguments).1.mem, []⟩
        else ((aArgsFrame cur.strict name ps hasArguments).1,
          ⟨.fnBody, (aArgsFrame cur.strict name ps hasArguments).1.strict, aCopyArgs (aArgsFrame cur.strict name ps hasArguments).1.mem, []⟩)),
        (aArgsFrame cur.strict name ps hasArguments).2) := rfl
  rw [hfr] at hb
  simp only at hb
  rw [hb]
  simp only [List.nil_append, hfr]

theorem aDeclare_strict (f : AFrame) (k : SK) (n : Name) : (aDeclare f k n).1.strict = f.strict := (aDeclare_kind f k n).2

mutual
theorem aStmt_strict : ∀ (s : Stmt) (f : AFrame), (aStmt s f).1.strict = f.strict ∧ (aStmt s f).1.kind = f.kind
  | .var_ n, f => by simp only [aStmt]; exact ⟨(aDeclare_kind _ _ _).2, (aDeclare_kind _ _ _).1⟩
  | .lex k n, f => by simp only [aStmt]; exact ⟨(aDeclare_kind _ _ _).2, (aDeclare_kind _ _ _).1⟩
  | .fn n gen ps us body, f => by simp only [aStmt]; exact ⟨(aDeclare_kind _ _ _).2, (aDeclare_kind _ _ _).1⟩
  | .ref _, f => ⟨rfl, rfl⟩
  | .block b, f => ⟨rfl, rfl⟩
  | .try_ b c h, f => ⟨rfl, rfl⟩
  | .fnExpr n ps us body, f => ⟨rfl, rfl⟩
  | .arrow ps body, f => ⟨rfl, rfl⟩
theorem aList_strict : ∀ (ss : List Stmt) (f : AFrame), (aList ss f).1.strict = f.strict ∧ (aList ss f).1.kind = f.kind
  | [], f => ⟨rfl, rfl⟩
  | s :: ss, f => by
    simp only [aList]
    have h1 := aStmt_strict s f
    have h2 := aList_strict ss (aStmt s f).1
    exact ⟨h2.1.trans h1.1, h2.2.trans h1.2⟩
end

/-- the shape `aParse_fn` expects -/
def fnItems (name : Option Name) (ps : List Name) (hasArguments us : Bool) (bodyItems : List Item) : Item :=
  .scope .fnArgs false none
    ((nameDecl name ++ ps.map (fun p => (SK.hoisted, p))).map (fun d => Item.decl d.1 d.2) ++
      ((if hasArguments then [Item.declArgs] else []) ++ [.scope .fnBody us none bodyItems]))

theorem stmtItems_fn (n : Name) (gen : Bool) (ps : List Name) (us : Bool) (body : List Stmt) :
    stmtItems (.fn n gen ps us body) =
      [fnItems none ps true us (listItems body), .decl (if gen then .generatorOrAsyncFunction else .hoistedFunction) n] := by
  simp [stmtItems, fnItems, nameDecl, List.map_map, Function.comp_def]

theorem stmtItems_fnExpr (n : Option Name) (ps : List Name) (us : Bool) (body : List Stmt) :
    stmtItems (.fnExpr n ps us body) = [fnItems n ps true us (listItems body)] := by
  cases n <;> simp [stmtItems, fnItems, nameDecl, List.map_map, Function.comp_def]

theorem stmtItems_arrow (ps : List Name) (body : List Stmt) :
    stmtItems (.arrow ps body) = [fnItems none ps false false (listItems body)] := by
  simp [stmtItems, fnItems, nameDecl, List.map_map, Function.comp_def]

mutual
/-- the parse pass (kinds) on the items of a statement is `aStmt` -/
theorem aParse_stmt : ∀ (s : Stmt) (f : AFrame) (ks : List AT) (es : List Name),
    aParseItems (stmtItems s) ⟨f, ks, es⟩ = some ⟨(aStmt s f).1, ks ++ (aStmt s f).2.1, es ++ (aStmt s f).2.2⟩
  | .var_ n, f, ks, es => by
    simp [stmtItems, aParseItems, aParseItem, aDeclareCtx, aStmt]
  | .lex k n, f, ks, es => by
    simp only [stmtItems]
    split
    · next hk =>
      subst hk
      simp only [aParseItems, aParseItem, aDeclareCtx, aStmt, lexSK, aPush, if_true]
      simp [aDeclare_strict, aClassStrict]
      rfl
    · next hk =>
      simp [aParseItems, aParseItem, aDeclareCtx, aStmt, hk]
  | .fn n gen ps us body, f, ks, es => by
    have hb := aParse_list body (aFnFrames f.strict none ps true us).1.2 [] (es ++ (aFnFrames f.strict none ps true us).2)
    simp only [List.nil_append] at hb
    have := aParse_fn none ps true us (listItems body) ks es f (aList body (aFnFrames f.strict none ps true us).1.2) hb
    rw [stmtItems_fn, aParseItems]
    unfold fnItems
    rw [this]
    simp only [aParseItems, aParseItem, aDeclareCtx, aStmt, List.append_assoc]
  | .ref _, f, ks, es => by simp [stmtItems, aParseItems, aParseItem, aStmt]
  | .block b, f, ks, es => by
    have hb := aParse_list b ⟨.block, f.strict, [], []⟩ [] es
    simp only [List.nil_append] at hb
    simp only [stmtItems, aParseItems, aParseItem, aPush, if_neg (show ScK.block ≠ ScK.fnBody by decide), Bool.false_eq_true,
      if_false]
    have hcs : aClassStrict ⟨.block, f.strict, [], []⟩ = ⟨.block, f.strict, [], []⟩ := by simp [aClassStrict]
    rw [hcs, hb]
    simp [aStmt]
  | .try_ b c h, f, ks, es => by
    have hb := aParse_list b ⟨.block, f.strict, [], []⟩ [] es
    simp only [List.nil_append] at hb
    have hcs : ∀ st : Strict, aClassStrict ⟨.block, st, [], []⟩ = ⟨.block, st, [], []⟩ := by intro st; simp [aClassStrict]
    have hcs2 : aClassStrict ⟨.catchBinding, f.strict, [], []⟩ = ⟨.catchBinding, f.strict, [], []⟩ := by simp [aClassStrict]
    have hstr : (declFold ⟨.catchBinding, f.strict, [], []⟩ (catchDecls c)).1.strict = f.strict := (declFold_kind _ _).2
    have hh := aParse_list h ⟨.block, (declFold ⟨.catchBinding, f.strict, [], []⟩ (catchDecls c)).1.strict, [], []⟩ []
      (es ++ (aList b ⟨.block, f.strict, [], []⟩).2.2 ++ (declFold ⟨.catchBinding, f.strict, [], []⟩ (catchDecls c)).2)
    simp only [List.nil_append] at hh
    simp only [stmtItems, aParseItems, aParseItem, aPush, if_neg (show ScK.block ≠ ScK.fnBody by decide),
      if_neg (show ScK.catchBinding ≠ ScK.fnBody by decide), Bool.false_eq_true, if_false, hcs, hcs2, hb, catchItems_eq,
      aParseItems_append, aParse_decls, Option.bind_some, hh]
    simp [aStmt, List.append_assoc]
  | .fnExpr n ps us body, f, ks, es => by
    have hb := aParse_list body (aFnFrames f.strict n ps true us).1.2 [] (es ++ (aFnFrames f.strict n ps true us).2)
    simp only [List.nil_append] at hb
    have := aParse_fn n ps true us (listItems body) ks es f (aList body (aFnFrames f.strict n ps true us).1.2) hb
    rw [stmtItems_fnExpr, aParseItems]
    unfold fnItems
    rw [this]
    simp only [aParseItems, aStmt, List.append_assoc]
  | .arrow ps body, f, ks, es => by
    have hb := aParse_list body (aFnFrames f.strict none ps false false).1.2 [] (es ++ (aFnFrames f.strict none ps false false).2)
    simp only [List.nil_append] at hb
    have := aParse_fn none ps false false (listItems body) ks es f (aList body (aFnFrames f.strict none ps false false).1.2) hb
    rw [stmtItems_arrow, aParseItems]
    unfold fnItems
    rw [this]
    simp only [aParseItems, aStmt, List.append_assoc]
theorem aParse_list : ∀ (ss : List Stmt) (f : AFrame) (ks : List AT) (es : List Name),
    aParseItems (listItems ss) ⟨f, ks, es⟩ = some ⟨(aList ss f).1, ks ++ (aList ss f).2.1, es ++ (aList ss f).2.2⟩
  | [], f, ks, es => by simp [listItems, aParseItems, aList]
  | s :: ss, f, ks, es => by
    simp only [listItems, aParseItems_append, aParse_stmt s, Option.bind_some, aParse_list ss, aList, List.append_assoc]
end

end EsbuildModel.Scopes
