import EsbuildModel.Lemmas.JsonParseC2
/-
The JavaScript value of the expression `ParseJSON` builds for a derivation is the value `JSON.parse` gives the
derivation — when `__proto__` keys are marked computed (`objExt`), or when there is no `__proto__` key at all.
-/
namespace EsbuildModel.Json
open EsbuildModel.Spec.Json

mutual
/-- no member key of the derivation is `__proto__` -/
def valProtoFree : Val → Bool
  | .arr es => elemsProtoFree es
  | .obj ms => membersProtoFree ms
  | _ => true
def elemsProtoFree : Elems → Bool
  | .last _ v _ _ => valProtoFree v
  | .cons _ v _ rest => valProtoFree v && elemsProtoFree rest
def membersProtoFree : Members → Bool
  | .last _ k _ _ v _ _ => !decide (strUnits k = protoKey) && valProtoFree v
  | .cons _ k _ _ v _ rest => !decide (strUnits k = protoKey) && valProtoFree v && membersProtoFree rest
end

section
variable (Rd : Rat → F64) (objExt : Bool)

theorem denoteProps_step (k : List SChar) (a : Ast) (v : JsVal) (t : List (List Nat × Bool × Ast))
    (acc : List (List Nat × JsVal)) (ps sp : Bool) (hd : denote a = some v)
    (h : objExt = true ∨ strUnits k ≠ protoKey) :
    denoteProps (propOf objExt k a :: t) acc ps sp = denoteProps t (setProp acc (strUnits k) v) ps sp := by
  simp only [propOf, denoteProps, hd]
  have : ¬ (strUnits k = protoKey ∧ (!(decide (strUnits k = protoKey) && objExt)) = true) := by
    rintro ⟨h1, h2⟩
    rcases h with h | h
    · simp [h1, h] at h2
    · exact h h1
  simp only [this, if_false]

mutual
theorem val_denote (v : Val) (a : Ast) (hr : RepV Rd objExt v a) (hp : objExt = true ∨ valProtoFree v = true) :
    denote a = some (v.value Rd) := by
  cases v with
  | null => simp only [RepV] at hr; subst hr; rfl
  | tt => simp only [RepV] at hr; subst hr; rfl
  | ff => simp only [RepV] at hr; subst hr; rfl
  | num n => simp only [RepV] at hr; subst hr; rfl
  | str cs => simp only [RepV] at hr; subst hr; rfl
  | arr0 s =>
    simp only [RepV] at hr
    obtain ⟨s', rfl⟩ := hr
    simp [denote, denoteItems, Val.value]
  | arr es =>
    simp only [RepV] at hr
    obtain ⟨items, s', rfl, he⟩ := hr
    have := elems_denote es items he (by simpa [valProtoFree] using hp)
    simp [denote, this, Val.value]
  | obj0 s =>
    simp only [RepV] at hr
    obtain ⟨s', rfl⟩ := hr
    simp [denote, denoteProps, Val.value]
  | obj ms =>
    simp only [RepV] at hr
    obtain ⟨props, s', rfl, hm⟩ := hr
    have := members_denote ms props hm (by simpa [valProtoFree] using hp) [] false false
    simp [denote, this, Val.value]

theorem elems_denote (es : Elems) (l : List Ast) (hr : RepE Rd objExt es l)
    (hp : objExt = true ∨ elemsProtoFree es = true) : denoteItems l = some (es.values Rd) := by
  cases es with
  | last s1 v s2 tr =>
    simp only [RepE] at hr
    obtain ⟨a, rfl, hv⟩ := hr
    have := val_denote v a hv (by simpa [elemsProtoFree] using hp)
    simp [denoteItems, this, Elems.values]
  | cons s1 v s2 rest =>
    simp only [RepE] at hr
    obtain ⟨a, t, rfl, hv, ht⟩ := hr
    have hp1 : objExt = true ∨ valProtoFree v = true := by
      rcases hp with h | h
      · exact Or.inl h
      · simp only [elemsProtoFree, Bool.and_eq_true] at h; exact Or.inr h.1
    have hp2 : objExt = true ∨ elemsProtoFree rest = true := by
      rcases hp with h | h
      · exact Or.inl h
      · simp only [elemsProtoFree, Bool.and_eq_true] at h; exact Or.inr h.2
    have h1 := val_denote v a hv hp1
    have h2 := elems_denote rest t ht hp2
    simp [denoteItems, h1, h2, Elems.values]

theorem members_denote (ms : Members) (l : List (List Nat × Bool × Ast)) (hr : RepM Rd objExt ms l)
    (hp : objExt = true ∨ membersProtoFree ms = true) :
    ∀ (acc : List (List Nat × JsVal)) (ps sp : Bool), denoteProps l acc ps sp = some (.obj (ms.props Rd acc) ps) := by
  cases ms with
  | last s1 k s2 s3 v s4 tr =>
    intro acc ps sp
    simp only [RepM] at hr
    obtain ⟨a, rfl, hv⟩ := hr
    have hp1 : objExt = true ∨ valProtoFree v = true := by
      rcases hp with h | h
      · exact Or.inl h
      · simp only [membersProtoFree, Bool.and_eq_true] at h; exact Or.inr h.2
    have hk : objExt = true ∨ strUnits k ≠ protoKey := by
      rcases hp with h | h
      · exact Or.inl h
      · simp only [membersProtoFree, Bool.and_eq_true, Bool.not_eq_true', decide_eq_false_iff_not] at h
        exact Or.inr h.1
    rw [denoteProps_step objExt k a _ [] acc ps sp (val_denote v a hv hp1) hk]
    simp [denoteProps, Members.props]
  | cons s1 k s2 s3 v s4 rest =>
    intro acc ps sp
    simp only [RepM] at hr
    obtain ⟨a, t, rfl, hv, ht⟩ := hr
    have hp1 : objExt = true ∨ valProtoFree v = true := by
      rcases hp with h | h
      · exact Or.inl h
      · simp only [membersProtoFree, Bool.and_eq_true] at h; exact Or.inr h.1.2
    have hp2 : objExt = true ∨ membersProtoFree rest = true := by
      rcases hp with h | h
      · exact Or.inl h
      · simp only [membersProtoFree, Bool.and_eq_true] at h; exact Or.inr h.2
    have hk : objExt = true ∨ strUnits k ≠ protoKey := by
      rcases hp with h | h
      · exact Or.inl h
      · simp only [membersProtoFree, Bool.and_eq_true, Bool.not_eq_true', decide_eq_false_iff_not] at h
        exact Or.inr h.1.1
    rw [denoteProps_step objExt k a _ t acc ps sp (val_denote v a hv hp1) hk]
    rw [members_denote rest t ht hp2]
    simp [Members.props]
end

end
end EsbuildModel.Json
