import EsbuildModel.Lemmas.OutPathsParser
/-
Parsing a template and substituting all four values = textual expansion of the template (`Spec.expand`).
-/
namespace EsbuildModel.OutPaths
open EsbuildModel.Spec.OutPath (expandFrom expand)

/-- all four placeholders known -/
def allValues (d n hs e : Str) : Placeholders := { dir := some d, name := some n, hash := some hs, ext := some e }

def valueOf (d n hs e : Str) : Placeholder → Str
  | .dir => d | .name => n | .hash => hs | .ext => e | .none => []

theorem partText_allValues (d n hs e : Str) (data : Str) (ph : Placeholder) :
    partText (allValues d n hs e) ⟨data, ph⟩ = data ++ valueOf d n hs e ph := by
  cases ph <;> simp [partText, allValues, Placeholders.get, valueOf, phText]

theorem expandFrom_zero_cons (d n hs e : Str) (c : Char) (cs : Str) :
    expandFrom d n hs e 0 (c :: cs) =
      if "[dir]".toList.isPrefixOf (c :: cs) then d ++ expandFrom d n hs e 4 cs
      else if "[name]".toList.isPrefixOf (c :: cs) then n ++ expandFrom d n hs e 5 cs
      else if "[hash]".toList.isPrefixOf (c :: cs) then hs ++ expandFrom d n hs e 5 cs
      else if "[ext]".toList.isPrefixOf (c :: cs) then e ++ expandFrom d n hs e 4 cs
      else c :: expandFrom d n hs e 0 cs := rfl

theorem expandFrom_match_some (d n hs e : Str) {c : Char} {cs : Str} {ph : Placeholder} {k : Nat}
    (h : matchPlaceholder (c :: cs) = some (ph, k)) :
    expandFrom d n hs e 0 (c :: cs) = valueOf d n hs e ph ++ expandFrom d n hs e (k - 1) cs := by
  rw [expandFrom_zero_cons]
  unfold matchPlaceholder lit at h
  split at h
  · rename_i h1; injection h with h; injection h with e1 e2; subst e1 e2
    simp only [h1, if_true]; rfl
  · rename_i h1
    split at h
    · rename_i h2; injection h with h; injection h with e1 e2; subst e1 e2
      simp only [h1, h2, if_true]; rfl
    · rename_i h2
      split at h
      · rename_i h3; injection h with h; injection h with e1 e2; subst e1 e2
        simp only [h1, h2, h3, if_true]; rfl
      · rename_i h3
        split at h
        · rename_i h4; injection h with h; injection h with e1 e2; subst e1 e2
          simp only [h1, h2, h3, h4, if_true]; rfl
        · exact absurd h (by simp)

theorem expandFrom_match_none (d n hs e : Str) {c : Char} {cs : Str}
    (h : matchPlaceholder (c :: cs) = none) :
    expandFrom d n hs e 0 (c :: cs) = c :: expandFrom d n hs e 0 cs := by
  rw [expandFrom_zero_cons]
  unfold matchPlaceholder lit at h
  split at h
  · exact absurd h (by simp)
  · rename_i h1
    split at h
    · exact absurd h (by simp)
    · rename_i h2
      split at h
      · exact absurd h (by simp)
      · rename_i h3
        split at h
        · exact absurd h (by simp)
        · rename_i h4
          simp only [h1, h2, h3, h4]
          rfl

theorem matchPlaceholder_ne_bracket {c : Char} (hc : c ≠ '[') (cs : Str) : matchPlaceholder (c :: cs) = none := by
  have hb : ('[' == c) = false := by
    simp only [beq_eq_false_iff_ne, ne_eq]
    exact fun e => hc e.symm
  simp [matchPlaceholder, lit, List.isPrefixOf, hb]

theorem expandFrom_noBracket (d n hs e : Str) {cs : Str} (h : '[' ∉ cs) : expandFrom d n hs e 0 cs = cs := by
  induction cs with
  | nil => rfl
  | cons c cs ih =>
    have hc : c ≠ '[' := fun e => h (by simp [e])
    rw [expandFrom_match_none _ _ _ _ (matchPlaceholder_ne_bracket hc cs), ih (fun e => h (by simp [e]))]

theorem renderWith_parseLoop (d n hs e : Str) (N : Nat) : ∀ (rest h : Str), rest.length ≤ N → ¬ EndsOpen rest →
    (rest = [] → h = []) →
    renderWith (allValues d n hs e) (parseLoop 0 h rest) = h.reverse ++ expandFrom d n hs e 0 rest := by
  induction N with
  | zero =>
    intro rest h hl _ hh
    have : rest = [] := List.eq_nil_of_length_eq_zero (by omega)
    subst this
    simp [parseLoop_nil, renderWith_nil, hh rfl, expandFrom_nil]
  | succ N ih =>
    intro rest h hl ho hh
    cases rest with
    | nil => simp [parseLoop_nil, renderWith_nil, hh rfl, expandFrom_nil]
    | cons c cs =>
      rw [parseLoop_zero_cons]
      simp only [List.length_cons] at hl
      by_cases hc : c = '['
      · simp only [hc, if_true]
        cases hm : matchPlaceholder ('[' :: cs) with
        | some pn =>
          obtain ⟨ph, k⟩ := pn
          obtain ⟨_, h2, hphne⟩ := matchPlaceholder_some hm
          simp only
          rw [expandFrom_match_some d n hs e hm, renderWith_cons, partText_allValues, parseLoop_skip,
            expandFrom_skip]
          have hk : k ≥ 1 := by
            rw [h2]
            cases ph with
            | none => exact absurd rfl hphne
            | dir => decide
            | name => decide
            | hash => decide
            | ext => decide
          have hd : cs.drop (k - 1) = ('[' :: cs).drop k := by
            obtain ⟨m, rfl⟩ : ∃ m, k = m + 1 := ⟨k - 1, by omega⟩
            simp
          rw [ih _ [] (by simp only [List.length_drop]; omega)]
          · simp
          · intro hopen
            rw [hd] at hopen
            by_cases hnil : ('[' :: cs).drop k = []
            · simp [hnil, EndsOpen] at hopen
            · exact ho (by rw [hc]; exact (endsOpen_drop hnil).mp hopen)
          · intro _; rfl
        | none =>
          simp only
          have hcs : cs ≠ [] := by
            intro e'; subst e'; subst hc; exact ho (by simp [EndsOpen])
          rw [expandFrom_match_none d n hs e hm,
            ih cs _ (by omega) (fun hopen => ho ((endsOpen_cons hcs).mpr hopen)) (fun e' => absurd e' hcs)]
          simp
      · simp only [hc, if_false]
        rw [expandFrom_match_none d n hs e (matchPlaceholder_ne_bracket hc cs)]
        by_cases hb : cs.contains '[' = true
        · simp only [hb, if_true]
          have hcs : cs ≠ [] := by intro e'; subst e'; simp at hb
          rw [ih cs _ (by omega) (fun hopen => ho ((endsOpen_cons hcs).mpr hopen)) (fun e' => absurd e' hcs)]
          simp
        · simp only [hb]
          have hnb : '[' ∉ cs := by simpa using hb
          rw [expandFrom_noBracket d n hs e hnb]
          simp [renderWith_cons, renderWith_nil, partText_allValues, valueOf]

end EsbuildModel.OutPaths
