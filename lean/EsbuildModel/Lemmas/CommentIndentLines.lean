import EsbuildModel.Lemmas.CommentIndent
/-!
Byte-level facts about `Spec.CommentIndent.splitLines`: the lines contain no terminator, a text is its first line,
a terminator sequence and the rest, and joining terminator-free lines with LF and splitting again gives the lines back.
-/
namespace EsbuildModel.CommentIndent
open EsbuildModel.Spec.CommentIndent

/-- the five line terminator sequences -/
def IsTermSeq (t : List Nat) : Prop :=
  t = [10] ∨ t = [13] ∨ t = [13, 10] ∨ t = [0xE2, 0x80, 0xA8] ∨ t = [0xE2, 0x80, 0xA9]

theorem termLen_pos (s : List Nat) (h : termLen s ≠ 0) :
    (∃ t, s = 10 :: t) ∨ (∃ t, s = 13 :: t) ∨ (∃ t, s = 0xE2 :: 0x80 :: 0xA8 :: t) ∨ (∃ t, s = 0xE2 :: 0x80 :: 0xA9 :: t) := by
  unfold termLen at h
  split at h <;> simp_all

theorem termLen_cr_pos (t : List Nat) : termLen (13 :: t) ≠ 0 := by
  cases t with
  | nil => simp [termLen_cr_nil]
  | cons r0 t' =>
    by_cases h : r0 = 10
    · subst h; simp [termLen_crlf]
    · simp [termLen_cr r0 t' h]

/-- a terminator at the start of a prefix is a terminator at the start of the whole -/
theorem termLen_of_append (x y : List Nat) (h : termLen (x ++ y) = 0) : termLen x = 0 := by
  by_cases hx : termLen x = 0
  · exact hx
  · exfalso
    rcases termLen_pos x hx with ⟨t, rfl⟩ | ⟨t, rfl⟩ | ⟨t, rfl⟩ | ⟨t, rfl⟩
    · simp [termLen_lf] at h
    · exact termLen_cr_pos (t ++ y) (by simpa using h)
    · simp [termLen_ls] at h
    · simp [termLen_ps] at h

/-- what the terminator at the start of `s` consists of -/
theorem termSeq_of_termLen (s : List Nat) (h : termLen s ≠ 0) : IsTermSeq (s.take (termLen s)) := by
  rcases termLen_pos s h with ⟨t, rfl⟩ | ⟨t, rfl⟩ | ⟨t, rfl⟩ | ⟨t, rfl⟩
  · left; simp [termLen_lf]
  · cases t with
    | nil => right; left; simp [termLen_cr_nil]
    | cons r0 t' =>
      by_cases h10 : r0 = 10
      · subst h10; right; right; left; simp [termLen_crlf]
      · right; left; simp [termLen_cr r0 t' h10]
  · right; right; right; left; simp [termLen_ls]
  · right; right; right; right; simp [termLen_ps]

theorem splitSkip_drop : ∀ (s : List Nat) (k : Nat), splitSkip k s = splitSkip 0 (s.drop k)
  | [], k => by simp [splitSkip]
  | b :: rest, 0 => by simp
  | b :: rest, k + 1 => by rw [splitSkip_succ, List.drop_succ_cons]; exact splitSkip_drop rest k

theorem termFree_cons (b : Nat) (rest : List Nat) :
    termFree (b :: rest) = true ↔ termLen (b :: rest) = 0 ∧ termFree rest = true := by
  simp [termFree]

/-- `s` = first line (terminator free), then either nothing or a terminator sequence and the remaining text -/
theorem split_decomp : ∀ (s : List Nat), ∃ m, termFree m = true ∧
    ((s = m ∧ Spec.CommentIndent.splitLines s = [m]) ∨
     (∃ t s', s = m ++ t ++ s' ∧ IsTermSeq t ∧
        Spec.CommentIndent.splitLines s = m :: Spec.CommentIndent.splitLines s'))
  | [] => ⟨[], rfl, Or.inl ⟨rfl, rfl⟩⟩
  | b :: rest => by
    by_cases ht : termLen (b :: rest) = 0
    · obtain ⟨m', hm', hcase⟩ := split_decomp rest
      have hsp : Spec.CommentIndent.splitLines (b :: rest) = consHead [b] (Spec.CommentIndent.splitLines rest) :=
        splitSkip_zero_plain b rest ht
      rcases hcase with ⟨hs, hl⟩ | ⟨t, s', hs, htt, hl⟩
      · refine ⟨b :: m', ?_, Or.inl ⟨by rw [hs], by rw [hsp, hl]; rfl⟩⟩
        rw [termFree_cons]; exact ⟨by rw [← hs]; exact ht, hm'⟩
      · refine ⟨b :: m', ?_, Or.inr ⟨t, s', by rw [hs]; simp, htt, by rw [hsp, hl]; rfl⟩⟩
        rw [termFree_cons]
        refine ⟨termLen_of_append (b :: m') (t ++ s') ?_, hm'⟩
        rw [hs] at ht; simpa using ht
    · refine ⟨[], rfl, Or.inr ⟨(b :: rest).take (termLen (b :: rest)), (b :: rest).drop (termLen (b :: rest)), ?_,
        termSeq_of_termLen _ ht, ?_⟩⟩
      · simp
      · have hpos : termLen (b :: rest) = (termLen (b :: rest) - 1) + 1 := by omega
        show splitSkip 0 (b :: rest) = _
        rw [splitSkip_zero_term b rest ht, splitSkip_drop rest]
        conv => rhs; rw [hpos, List.drop_succ_cons]
        rfl
termination_by s => s.length


/-! ### joining terminator-free lines and splitting again -/

theorem termLen_append_lf (b : Nat) (l s : List Nat) (h : termLen (b :: l) = 0) : termLen (b :: (l ++ 10 :: s)) = 0 := by
  have h10 : b ≠ 10 := by rintro rfl; simp [termLen_lf] at h
  have h13 : b ≠ 13 := by rintro rfl; exact termLen_cr_pos l h
  apply termLen_zero b _ h10 h13
  · rintro ⟨rfl, t, ht⟩
    match l, ht with
    | [], ht => simp at ht
    | [x], ht => simp at ht
    | x :: y :: l'', ht =>
      simp only [List.cons_append, List.cons.injEq] at ht
      obtain ⟨rfl, rfl, _⟩ := ht
      simp [termLen_ls] at h
  · rintro ⟨rfl, t, ht⟩
    match l, ht with
    | [], ht => simp at ht
    | [x], ht => simp at ht
    | x :: y :: l'', ht =>
      simp only [List.cons_append, List.cons.injEq] at ht
      obtain ⟨rfl, rfl, _⟩ := ht
      simp [termLen_ps] at h

theorem splitSkip_termFree : ∀ (l : List Nat), termFree l = true → splitSkip 0 l = [l]
  | [], _ => rfl
  | b :: l, h => by
    rw [termFree_cons] at h
    rw [splitSkip_zero_plain b l h.1, splitSkip_termFree l h.2]; rfl

theorem splitSkip_termFree_append : ∀ (l s : List Nat), termFree l = true →
    splitSkip 0 (l ++ 10 :: s) = l :: splitSkip 0 s
  | [], s, _ => by
    simp only [List.nil_append]
    rw [splitSkip_zero_term 10 s (by simp [termLen_lf]), termLen_lf]
  | b :: l, s, h => by
    rw [termFree_cons] at h
    simp only [List.cons_append]
    rw [splitSkip_zero_plain b _ (termLen_append_lf b l s h.1), splitSkip_termFree_append l s h.2]; rfl

theorem joinLF_cons_cons (l m : List Nat) (ms : List (List Nat)) : joinLF (l :: m :: ms) = l ++ 10 :: joinLF (m :: ms) := by
  simp [joinLF]

/-- lines without terminators, joined by LF, split into exactly those lines -/
theorem split_join : ∀ (ls : List (List Nat)), ls ≠ [] → (∀ l ∈ ls, termFree l = true) →
    Spec.CommentIndent.splitLines (joinLF ls) = ls
  | [], h, _ => absurd rfl h
  | [l], _, hl => by
    simp only [joinLF, List.flatMap_nil, List.append_nil]
    exact splitSkip_termFree l (hl l (by simp))
  | l :: m :: ms, _, hl => by
    rw [joinLF_cons_cons]
    show splitSkip 0 _ = _
    rw [splitSkip_termFree_append l _ (hl l (by simp))]
    congr 1
    exact split_join (m :: ms) (by simp) (fun x hx => hl x (List.mem_cons_of_mem _ hx))

/-- every line of a split is terminator free -/
theorem split_lines_termFree (s : List Nat) : ∀ l ∈ Spec.CommentIndent.splitLines s, termFree l = true := by
  obtain ⟨m, hm, hcase⟩ := split_decomp s
  rcases hcase with ⟨_, hl⟩ | ⟨t, s', hs, htt, hl⟩
  · intro l hmem; rw [hl] at hmem; simp at hmem; rw [hmem]; exact hm
  · intro l hmem
    rw [hl] at hmem
    rcases List.mem_cons.mp hmem with rfl | h'
    · exact hm
    · have : s'.length < s.length := by
        rw [hs]; simp only [List.length_append]
        rcases htt with rfl | rfl | rfl | rfl | rfl <;> simp <;> omega
      exact split_lines_termFree s' l h'
termination_by s.length

theorem termFree_drop : ∀ (l : List Nat) (k : Nat), termFree l = true → termFree (l.drop k) = true
  | [], k, _ => by simp [termFree]
  | b :: l, 0, h => by simpa using h
  | b :: l, k + 1, h => by
    rw [termFree_cons] at h
    rw [List.drop_succ_cons]; exact termFree_drop l k h.2

theorem termFree_ws_append : ∀ (ind l : List Nat), (∀ x ∈ ind, isWs x = true) → termFree l = true →
    termFree (ind ++ l) = true
  | [], l, _, h => h
  | x :: ind, l, hw, h => by
    simp only [List.cons_append]
    rw [termFree_cons]
    have hx : x = 32 ∨ x = 9 := by
      have := hw x (by simp)
      simpa [isWs] using this
    exact ⟨termLen_zero_of_ne x _ (by omega) (by omega) (by omega),
      termFree_ws_append ind l (fun y hy => hw y (List.mem_cons_of_mem _ hy)) h⟩

theorem wsLen_ws_append : ∀ (ind l : List Nat), (∀ x ∈ ind, isWs x = true) → wsLen (ind ++ l) = ind.length + wsLen l
  | [], l, _ => by simp
  | x :: ind, l, hw => by
    have hx : x = 32 ∨ x = 9 := by
      have := hw x (by simp)
      simpa [isWs] using this
    simp only [List.cons_append, List.length_cons]
    rw [wsLen_cons_ws x _ hx, wsLen_ws_append ind l (fun y hy => hw y (List.mem_cons_of_mem _ hy))]; omega


/-! ### sizes, and the first line of a comment -/

theorem joinLF_length_cons (f : List Nat) (ls : List (List Nat)) :
    (joinLF (f :: ls)).length = f.length + (ls.map (fun m => m.length + 1)).sum := by
  induction ls with
  | nil => simp [joinLF]
  | cons m ms ih =>
    simp only [joinLF, List.length_append, List.flatMap_cons, List.length_cons, List.map_cons, List.sum_cons] at ih ⊢
    omega

theorem joinLF_drop_length (f : List Nat) (ls : List (List Nat)) (k : Nat) :
    (joinLF (f :: ls.map (List.drop k))).length ≤ (joinLF (f :: ls)).length := by
  rw [joinLF_length_cons, joinLF_length_cons]
  apply Nat.add_le_add_left
  induction ls with
  | nil => simp
  | cons m ms ih => simp only [List.map_cons, List.sum_cons, List.length_drop]; omega

/-- joining the lines of a text with LF never makes it longer -/
theorem joinLF_split_length (s : List Nat) : (joinLF (Spec.CommentIndent.splitLines s)).length ≤ s.length := by
  obtain ⟨m, _, hcase⟩ := split_decomp s
  rcases hcase with ⟨hs, hl⟩ | ⟨t, s', hs, htt, hl⟩
  · rw [hl, hs]; simp [joinLF]
  · have hlt : 1 ≤ t.length := by rcases htt with rfl | rfl | rfl | rfl | rfl <;> simp
    have : s'.length < s.length := by rw [hs]; simp only [List.length_append]; omega
    have ih := joinLF_split_length s'
    rw [hl]
    cases hsp : Spec.CommentIndent.splitLines s' with
    | nil => exact absurd hsp (splitSkip_ne_nil _ 0)
    | cons m' ms' =>
      rw [hsp] at ih
      rw [joinLF_cons_cons, hs]
      simp only [List.length_append, List.length_cons]
      omega
termination_by s.length

theorem dedent_length (col : Nat) (s : List Nat) : (dedent col s).length ≤ s.length := by
  unfold dedent
  cases hsp : Spec.CommentIndent.splitLines s with
  | nil => exact absurd hsp (splitSkip_ne_nil _ 0)
  | cons f ls =>
    simp only [dedentLines]
    have := joinLF_split_length s
    rw [hsp] at this
    exact Nat.le_trans (joinLF_drop_length f ls _) this

/-- the first line of a text that starts with `/*` starts with `/*` -/
theorem split_comment_head (rest : List Nat) :
    ∃ m ms, Spec.CommentIndent.splitLines (47 :: 42 :: rest) = (47 :: 42 :: m) :: ms := by
  show ∃ m ms, splitSkip 0 _ = _
  rw [splitSkip_zero_plain 47 _ (termLen_zero_of_ne 47 _ (by omega) (by omega) (by omega)),
    splitSkip_zero_plain 42 _ (termLen_zero_of_ne 42 _ (by omega) (by omega) (by omega))]
  cases h : splitSkip 0 rest with
  | nil => exact absurd h (splitSkip_ne_nil _ 0)
  | cons m ms => exact ⟨m, ms, rfl⟩

theorem startsComment_iff (text : List Nat) : StartsComment text ↔ ∃ rest, text = 47 :: 42 :: rest := by
  unfold StartsComment
  constructor
  · intro h
    match text, h with
    | [], h => simp at h
    | [x], h => simp at h
    | x :: y :: rest, h =>
      simp only [List.length_cons, List.take_succ_cons, List.take_zero, ne_eq, List.cons.injEq, and_true, not_or,
        Decidable.not_not] at h
      exact ⟨rest, by rw [h.2.1, h.2.2]⟩
  · rintro ⟨rest, rfl⟩; simp


theorem mem_takeWhile_pos (p : Nat → Bool) : ∀ (l : List Nat) (x : Nat), x ∈ l.takeWhile p → p x = true
  | [], _, h => by simp at h
  | b :: l, x, h => by
    by_cases hb : p b = true
    · simp only [List.takeWhile_cons, hb, if_true] at h
      rcases List.mem_cons.mp h with rfl | h'
      · exact hb
      · exact mem_takeWhile_pos p l x h'
    · simp [List.takeWhile_cons, hb] at h

/-- the first `k ≤ wsLen l` bytes of a line are spaces / tabs -/
theorem take_le_wsLen_ws (l : List Nat) (k : Nat) (hk : k ≤ wsLen l) : ∀ x ∈ l.take k, isWs x = true := by
  intro x hx
  have hpre : l.take k <+: l.takeWhile isWs := by
    unfold wsLen at hk
    exact List.prefix_of_prefix_length_le (List.take_prefix _ _) (List.takeWhile_prefix isWs)
      (by rw [List.length_take]; omega)
  exact mem_takeWhile_pos isWs l x (hpre.subset hx)

end EsbuildModel.CommentIndent
