import EsbuildModel.Spec.EsModules
/-!
GetExportedNames threads one `exportStarSet` through all recursive calls.  On a well-formed table it terminates within
the fuel used by `getExportedNames` and returns (as a set) the module's own export names plus every non-"default" own
export name of every module reachable through `export *` (`getExportedNames_spec`).
-/
namespace EsbuildModel.Spec.EsModules

/-- the [[ExportName]]s of the local and indirect export entries -/
def ownNames (module : ModuleRecord) : List Name :=
  module.localExportEntries.map (·.exportName) ++ module.indirectExportEntries.map (·.exportName)

def ownOf (T : Table) (m : ModuleId) : List Name :=
  match T[m]? with
  | some module => ownNames module
  | none => []

def starSucc (T : Table) (m : ModuleId) : List ModuleId :=
  match T[m]? with
  | some module => module.starExportEntries
  | none => []

inductive StarReach (T : Table) : ModuleId → ModuleId → Prop
  | refl (a : ModuleId) : StarReach T a a
  | step {a b c : ModuleId} : StarReach T a b → c ∈ starSucc T b → StarReach T a c

theorem StarReach.head {T : Table} {a b c : ModuleId} (h : b ∈ starSucc T a) (h2 : StarReach T b c) : StarReach T a c := by
  induction h2 with
  | refl => exact .step (.refl a) h
  | step _ e ih => exact .step ih e

theorem getExportedNamesAux_succ (T : Table) (fuel : Nat) (m : ModuleId) (V : List ModuleId) (module : ModuleRecord)
    (hm : T[m]? = some module) :
    getExportedNamesAux T (fuel + 1) m V =
      if V.contains m then some ([], V)
      else starNamesLoop (getExportedNamesAux T fuel) module.starExportEntries (ownNames module) (V ++ [m]) := by
  rw [getExportedNamesAux, hm]
  rfl

theorem mem_addStarNames (exported ns : List Name) (n : Name) :
    n ∈ addStarNames exported ns ↔ n ∈ exported ∨ (n ∈ ns ∧ n ≠ "default") := by
  induction ns generalizing exported with
  | nil => simp [addStarNames]
  | cons k ns ih =>
    rw [addStarNames]
    split
    · rename_i h
      rw [ih]
      simp only [List.mem_append, List.mem_cons, List.not_mem_nil, or_false]
      constructor
      · rintro ((h1 | h1) | h1)
        · exact Or.inl h1
        · subst h1; exact Or.inr ⟨Or.inl rfl, h.1⟩
        · exact Or.inr ⟨Or.inr h1.1, h1.2⟩
      · rintro (h1 | ⟨h1 | h1, h2⟩)
        · exact Or.inl (Or.inl h1)
        · exact Or.inl (Or.inr h1)
        · exact Or.inr ⟨h1, h2⟩
    · rename_i h
      rw [ih]
      simp only [List.mem_cons]
      constructor
      · rintro (h1 | h1)
        · exact Or.inl h1
        · exact Or.inr ⟨Or.inr h1.1, h1.2⟩
      · rintro (h1 | ⟨h1 | h1, h2⟩)
        · exact Or.inl h1
        · subst h1
          have : n ∈ exported := by
            by_cases hc : n ∈ exported
            · exact hc
            · exact absurd ⟨h2, by simpa using hc⟩ h
          exact Or.inl this
        · exact Or.inr ⟨h1, h2⟩

/-- what a traversal from `roots` added to the exportStarSet -/
structure NFrame (T : Table) (roots : List ModuleId) (V V' : List ModuleId) : Prop where
  nodup : V'.Nodup
  mono : ∀ y ∈ V, y ∈ V'
  lt : ∀ y ∈ V', y < T.length
  roots_in : ∀ x ∈ roots, x ∈ V'
  reach : ∀ y ∈ V', y ∉ V → ∃ x ∈ roots, StarReach T x y
  closed : ∀ y ∈ V', y ∉ V → ∀ z ∈ starSucc T y, z ∈ V'

theorem NFrame.rfl' {T : Table} {roots V : List ModuleId} (hn : V.Nodup) (hs : ∀ y ∈ V, y < T.length)
    (hr : ∀ x ∈ roots, x ∈ V) : NFrame T roots V V :=
  ⟨hn, fun _ h => h, hs, hr, fun _ h hn => absurd h hn, fun _ h hn => absurd h hn⟩

theorem NFrame.trans {T : Table} {r1 r2 V V1 V2 : List ModuleId} (h1 : NFrame T r1 V V1) (h2 : NFrame T r2 V1 V2) :
    NFrame T (r1 ++ r2) V V2 := by
  refine ⟨h2.nodup, fun y h => h2.mono y (h1.mono y h), h2.lt, ?_, ?_, ?_⟩
  · intro x hx
    rcases List.mem_append.1 hx with hx | hx
    · exact h2.mono x (h1.roots_in x hx)
    · exact h2.roots_in x hx
  · intro y hy hn
    by_cases h : y ∈ V1
    · obtain ⟨x, hx, hr⟩ := h1.reach y h hn
      exact ⟨x, List.mem_append_left _ hx, hr⟩
    · obtain ⟨x, hx, hr⟩ := h2.reach y hy h
      exact ⟨x, List.mem_append_right _ hx, hr⟩
  · intro y hy hn z hz
    by_cases h : y ∈ V1
    · exact h2.mono z (h1.closed y h hn z hz)
    · exact h2.closed y hy h z hz

theorem NFrame.push {T : Table} {V V' : List ModuleId} {x : ModuleId} (hx : x ∉ V)
    (h : NFrame T (starSucc T x) (V ++ [x]) V') : NFrame T [x] V V' := by
  refine ⟨h.nodup, fun y hy => h.mono y (List.mem_append_left _ hy), h.lt, ?_, ?_, ?_⟩
  · intro y hy
    simp at hy; subst hy
    exact h.mono _ (by simp)
  · intro y hy hn
    by_cases hxy : y = x
    · exact ⟨x, by simp, hxy ▸ .refl _⟩
    · have : y ∉ V ++ [x] := by simp [hn, hxy]
      obtain ⟨r, hr, hreach⟩ := h.reach y hy this
      exact ⟨x, by simp, StarReach.head hr hreach⟩
  · intro y hy hn z hz
    by_cases hxy : y = x
    · subst hxy
      exact h.roots_in z hz
    · exact h.closed y hy (by simp [hn, hxy]) z hz

theorem lt_length_le {n : Nat} {V : List Nat} (hn : V.Nodup) (hs : ∀ y ∈ V, y < n) : V.length ≤ n := by
  have := List.Nodup.length_le_of_subset (l₂ := List.range n) hn (fun x hx => List.mem_range.mpr (hs x hx))
  simpa using this

/-- the names that newly visited modules contribute through a star export -/
def NewName (T : Table) (V V' : List ModuleId) (n : Name) : Prop := n ≠ "default" ∧ ∃ y ∈ V', y ∉ V ∧ n ∈ ownOf T y

structure NPost (T : Table) (m : ModuleId) (V : List ModuleId) (names : List Name) (V' : List ModuleId) : Prop where
  seen : m ∈ V → names = [] ∧ V' = V
  frame : m ∉ V → NFrame T [m] V V'
  names : m ∉ V → ∀ n, n ∈ names ↔ n ∈ ownOf T m ∨ NewName T V V' n

structure NLoopPost (T : Table) (es : List ModuleId) (exported : List Name) (V : List ModuleId) (names : List Name)
    (V' : List ModuleId) : Prop where
  frame : NFrame T es V V'
  names : ∀ n, n ∈ names ↔ n ∈ exported ∨ NewName T V V' n

theorem newName_trans {T : Table} {V V1 V2 : List ModuleId} {n : Name}
    (m1 : ∀ y ∈ V, y ∈ V1) (m2 : ∀ y ∈ V1, y ∈ V2) :
    NewName T V V2 n ↔ NewName T V V1 n ∨ NewName T V1 V2 n := by
  constructor
  · rintro ⟨hd, y, hy, hn, ht⟩
    by_cases h : y ∈ V1
    · exact Or.inl ⟨hd, y, h, hn, ht⟩
    · exact Or.inr ⟨hd, y, hy, h, ht⟩
  · rintro (⟨hd, y, hy, hn, ht⟩ | ⟨hd, y, hy, hn, ht⟩)
    · exact ⟨hd, y, m2 y hy, hn, ht⟩
    · exact ⟨hd, y, hy, fun h => hn (m1 y h), ht⟩

theorem names_loop_post {T : Table} {fuel : Nat}
    (f : ModuleId → List ModuleId → Option (List Name × List ModuleId))
    (hf : ∀ e V, e < T.length → V.Nodup → (∀ y ∈ V, y < T.length) → T.length < fuel + V.length →
      ∃ names V', f e V = some (names, V') ∧ NPost T e V names V') :
    ∀ (es : List ModuleId) (exported : List Name) (V : List ModuleId), (∀ e ∈ es, e < T.length) →
      V.Nodup → (∀ y ∈ V, y < T.length) → T.length < fuel + V.length →
      ∃ names V', starNamesLoop f es exported V = some (names, V') ∧ NLoopPost T es exported V names V' := by
  intro es
  induction es with
  | nil =>
    intro exported V _ hn hs _
    refine ⟨exported, V, rfl, ⟨NFrame.rfl' hn hs (by simp), ?_⟩⟩
    intro n
    constructor
    · exact Or.inl
    · rintro (h | ⟨_, y, hy, hny, _⟩)
      · exact h
      · exact absurd hy hny
  | cons e es ih =>
    intro exported V hes hn hs hfuel
    obtain ⟨sn, V1, e1, p1⟩ := hf e V (hes e (by simp)) hn hs hfuel
    have hes' : ∀ e' ∈ es, e' < T.length := fun e' h => hes e' (by simp [h])
    by_cases hev : e ∈ V
    · obtain ⟨h1, h2⟩ := p1.seen hev
      subst h1; subst h2
      obtain ⟨names, V', e2, p2⟩ := ih (addStarNames exported []) V1 hes' hn hs hfuel
      refine ⟨names, V', by simp [starNamesLoop, e1, e2], ⟨?_, ?_⟩⟩
      · have := (NFrame.rfl' (T := T) (roots := [e]) hn hs (by simpa using hev)).trans p2.frame
        simpa using this
      · intro n
        rw [p2.names]
        simp [addStarNames]
    · have fr1 := p1.frame hev
      have hlen := List.Nodup.length_le_of_subset hn fr1.mono
      obtain ⟨names, V', e2, p2⟩ := ih (addStarNames exported sn) V1 hes' fr1.nodup fr1.lt (by omega)
      refine ⟨names, V', by simp [starNamesLoop, e1, e2], ⟨?_, ?_⟩⟩
      · have := fr1.trans p2.frame
        simpa using this
      · intro n
        rw [p2.names, mem_addStarNames, p1.names hev, newName_trans fr1.mono p2.frame.mono]
        constructor
        · rintro ((h | ⟨h | h, hd⟩) | h)
          · exact Or.inl h
          · exact Or.inr (Or.inl ⟨hd, e, fr1.roots_in e (by simp), hev, h⟩)
          · exact Or.inr (Or.inl h)
          · exact Or.inr (Or.inr h)
        · rintro (h | h | h)
          · exact Or.inl (Or.inl h)
          · exact Or.inl (Or.inr ⟨Or.inr h, h.1⟩)
          · exact Or.inr h

theorem names_post {T : Table} (hwf : WellFormed T) :
    ∀ (fuel : Nat) (m : ModuleId) (V : List ModuleId), m < T.length → V.Nodup → (∀ y ∈ V, y < T.length) →
      T.length < fuel + V.length →
      ∃ names V', getExportedNamesAux T fuel m V = some (names, V') ∧ NPost T m V names V' := by
  intro fuel
  induction fuel with
  | zero =>
    intro m V _ hn hs hfuel
    have := lt_length_le hn hs
    omega
  | succ fuel ih =>
    intro m V hm hn hs hfuel
    have hget : T[m]? = some T[m] := List.getElem?_eq_getElem hm
    rw [getExportedNamesAux_succ T fuel m V T[m] hget]
    by_cases hc : V.contains m = true
    · have hx : m ∈ V := by simpa using hc
      refine ⟨[], V, by simp [hx], ⟨fun _ => ⟨rfl, rfl⟩, fun h => absurd hx h, fun h => absurd hx h⟩⟩
    · have hx : m ∉ V := by simpa using hc
      have hn1 : (V ++ [m]).Nodup := by
        rw [List.nodup_append]
        refine ⟨hn, by simp, ?_⟩
        intro a ha b hb hab
        simp at hb; subst hb; subst hab
        exact hx ha
      have hs1 : ∀ y ∈ V ++ [m], y < T.length := by
        intro y hy
        rcases List.mem_append.1 hy with hy | hy
        · exact hs y hy
        · simp at hy; subst hy; exact hm
      have hstars : ∀ e ∈ T[m].starExportEntries, e < T.length :=
        (hwf T[m] (List.getElem_mem hm)).2.1
      obtain ⟨names, V', e, p⟩ := names_loop_post (T := T) (fuel := fuel) (getExportedNamesAux T fuel)
        (fun e V he hn hs hf => ih e V he hn hs hf) T[m].starExportEntries (ownNames T[m]) (V ++ [m]) hstars hn1 hs1
        (by simp; omega)
      have hsucc : starSucc T m = T[m].starExportEntries := by simp [starSucc, hget]
      have hown : ownOf T m = ownNames T[m] := by simp [ownOf, hget]
      have fr : NFrame T [m] V V' := NFrame.push hx (by rw [hsucc]; exact p.frame)
      refine ⟨names, V', by simp [hx, e], ⟨fun h => absurd h hx, fun _ => fr, ?_⟩⟩
      intro _ n
      rw [p.names, hown]
      constructor
      · rintro (h | ⟨hd, y, hy, hny, ho⟩)
        · exact Or.inl h
        · exact Or.inr ⟨hd, y, hy, fun h => hny (List.mem_append_left _ h), ho⟩
      · rintro (h | ⟨hd, y, hy, hny, ho⟩)
        · exact Or.inl h
        · by_cases hym : y = m
          · subst hym; rw [hown] at ho; exact Or.inl ho
          · exact Or.inr ⟨hd, y, hy, by simp [hny, hym], ho⟩

/-- **GetExportedNames computes the names reachable through export stars.** -/
theorem getExportedNames_spec {T : Table} (hwf : WellFormed T) {m : ModuleId} (hm : m < T.length) :
    ∃ names, getExportedNames T m = some names ∧
      ∀ n, n ∈ names ↔ n ∈ ownOf T m ∨ (n ≠ "default" ∧ ∃ s, StarReach T m s ∧ n ∈ ownOf T s) := by
  obtain ⟨names, V', e, p⟩ := names_post hwf (T.length + 1) m [] hm List.nodup_nil (by simp) (by simp)
  refine ⟨names, by simp [getExportedNames, e], ?_⟩
  have fr := p.frame (by simp)
  intro n
  rw [p.names (by simp)]
  constructor
  · rintro (h | ⟨hd, y, hy, hny, ho⟩)
    · exact Or.inl h
    · obtain ⟨x, hx, hr⟩ := fr.reach y hy hny
      simp at hx; subst hx
      exact Or.inr ⟨hd, y, hr, ho⟩
  · rintro (h | ⟨hd, s, hs, ho⟩)
    · exact Or.inl h
    · have hv : s ∈ V' := by
        clear ho
        induction hs with
        | refl => exact fr.roots_in _ (by simp)
        | step _ hz ih => exact fr.closed _ ih (by simp) _ hz
      exact Or.inr ⟨hd, s, hv, by simp, ho⟩

end EsbuildModel.Spec.EsModules
