import EsbuildModel.Lemmas.CssBoxInv
/-
`compactRules` preserves the tracker invariant and the cascade.
-/
namespace EsbuildModel.CssBox
open EsbuildModel.Spec.BoxCascade

section
variable {V : Type} {B : Browser Tok V} {F : Family} {ds : List CssBox.Decl}

/-- validity of the merged shorthand -/
def Tracker.allOk (B : Browser Tok V) (box : Tracker) : Bool :=
  okT B box.sides.top.token && okT B box.sides.right.token && okT B box.sides.bottom.token && okT B box.sides.left.token

theorem Tracker.allOk_true (box : Tracker) (h : ∀ s, okT B (box.sides.get s).token = true) : box.allOk B = true := by
  have a := h .top; have b' := h .right; have c := h .bottom; have d := h .left
  simp only [Sides.get] at a b' c d
  simp [Tracker.allOk, a, b', c, d]

theorem Tracker.allOk_false (box : Tracker) (s : Side) (h : okT B (box.sides.get s).token = false) : box.allOk B = false := by
  cases s <;> simp only [Sides.get] at h <;> simp [Tracker.allOk, h]

theorem Tracker.fires_class (box : Tracker) (hf : box.fires = true) :
    box.sides.top.unitSafety.status ≠ .unsafeMixed ∧
    ∀ s, (box.sides.get s).unitSafety.status = box.sides.top.unitSafety.status ∧
      ((box.sides.get s).unitSafety.status = .unsafeSingle → (box.sides.get s).unitSafety.unit = box.sides.top.unitSafety.unit) := by
  simp only [Tracker.fires, Bool.and_eq_true] at hf
  obtain ⟨_, ⟨h1, h2⟩, h3⟩ := hf
  have r := isSafeWith_spec _ _ h1
  have bo := isSafeWith_spec _ _ h2
  have l := isSafeWith_spec _ _ h3
  refine ⟨by rw [← r.1]; exact r.2.1, ?_⟩
  intro s
  cases s <;> simp only [Sides.get]
  · simp
  · exact ⟨r.1, r.2.2⟩
  · exact ⟨bo.1, bo.2.2⟩
  · exact ⟨l.1, l.2.2⟩

/-- when `compactRules` fires, every side's source declaration has the validity of the merged shorthand -/
theorem TInv.common_validity {box : Tracker} {rules : List (Option CssBox.Decl)} (h : TInv B F ds box rules)
    (hf : box.fires = true) (s : Side) (v : Bool) (hv : ClassOK B (box.sides.get s).unitSafety v) : v = box.allOk B := by
  have hp := box.fires_present hf
  obtain ⟨hnm, hcls⟩ := box.fires_class hf
  cases hst : box.sides.top.unitSafety.status with
  | unsafeMixed => exact absurd hst hnm
  | safe =>
    have hs : (box.sides.get s).unitSafety.status = .safe := by rw [(hcls s).1, hst]
    rw [hv.1 hs]
    symm
    apply box.allOk_true
    intro s'
    exact (h.tokclass s' (hp s')).1 (by rw [(hcls s').1, hst])
  | unsafeSingle =>
    have hst' : ∀ s', (box.sides.get s').unitSafety.status = .unsafeSingle := fun s' => by rw [(hcls s').1, hst]
    have hun : ∀ s', (box.sides.get s').unitSafety.unit = box.sides.top.unitSafety.unit := fun s' => (hcls s').2 (hst' s')
    obtain ⟨sw, hw⟩ := h.witness .top (hp _) (hst' .top)
    have hud : UDim box.sides.top.unitSafety.unit (box.sides.get sw).token := by
      rcases hw with hw | hw | hw
      · rw [hp sw] at hw; cases hw
      · exact absurd ⟨hst' sw, hun sw⟩ hw
      · exact hw
    -- every valid-or-not judgement of a unit-`u` token agrees with the witness
    have hvw : okT B (box.sides.get sw).token = v := hv.2 (hst' s) _ (by rw [hun s]; exact hud)
    have hall : ∀ s', okT B (box.sides.get s').token = true ∨ okT B (box.sides.get s').token = v := by
      intro s'
      rcases (h.tokclass s' (hp s')).2 (hst' s') with h1 | h1
      · exact Or.inl h1
      · right
        exact hv.2 (hst' s) _ (by rw [hun s, ← hun s']; exact h1)
    cases v with
    | true =>
      symm; apply box.allOk_true
      intro s'; rcases hall s' with h1 | h1 <;> exact h1
    | false =>
      symm; exact box.allOk_false sw hvw


theorem moved_present (x : BoxSide) (l : Nat) : (x.moved l).present = x.present := rfl

theorem compact_TInv (hB : CssFacts B F) {box : Tracker} {rules : List (Option CssBox.Decl)} (mw : Bool)
    (h : TInv B F ds box rules) (hf : box.fires = true) :
    TInv B F ds box.afterMerge (compactList box rules mw) ∧
    ∀ s imp, LS B F (compactList box rules mw) s imp = LS B F rules s imp := by
  have hp := box.fires_present hf
  have hacc : ∀ s, TrackerAccepts F (box.sides.get s).token := fun s => (h.pres s (hp s)).2.2
  have hlast_lt : box.lastIdx < rules.length := by
    rcases box.lastIdx_mem with e | e | e | e <;> rw [e]
    · exact (h.pres .top (hp _)).1
    · exact (h.pres .right (hp _)).1
    · exact (h.pres .bottom (hp _)).1
    · exact (h.pres .left (hp _)).1
  have hlast_own : Own ds F box.lastIdx := by
    rcases box.lastIdx_mem with e | e | e | e <;> rw [e]
    · exact (h.pres .top (hp _)).2.1
    · exact (h.pres .right (hp _)).2.1
    · exact (h.pres .bottom (hp _)).2.1
    · exact (h.pres .left (hp _)).2.1
  -- contribution of the merged declaration
  have hm : ∀ s imp, cD B F s imp (box.merged mw) =
      if box.important = imp ∧ box.allOk B = true then some (.known (B.den (box.sides.get s).token.core)) else none :=
    fun s imp => cD_merged hB box mw h.kt hacc s imp
  -- old contributions of a pointed slot vanish unless valid and of the tracker's importance
  have hold : ∀ j, box.pointsAt j → ∀ s imp, ¬(box.important = imp ∧ box.allOk B = true) → cAt B F rules s imp j = none := by
    intro j hj s imp hn
    obtain ⟨s0, hs0⟩ := (box.pointsAt_iff j).mp hj
    obtain ⟨v, hc, _, h3⟩ := h.value s0 (hp s0)
    have hv := h.common_validity hf s0 v hc
    apply Classical.byContradiction
    intro hne
    have := h3 s imp (by rw [hs0]; exact hne)
    exact hn ⟨this.2, by rw [← hv]; exact this.1⟩
  have hafter : ∀ s imp k, box.lastIdx < k → cAt B F (compactList box rules mw) s imp k = none := by
    intro s imp k hk
    rw [cAt_compactList B F box rules mw hlast_lt]
    have h1 : ¬(k = box.lastIdx) := by omega
    have h2 : ¬ box.pointsAt k := by
      intro hpk
      obtain ⟨s0, hs0⟩ := (box.pointsAt_iff k).mp hpk
      have := box.lastIdx_ge s0; omega
    simp only [h1, h2, if_false]
    exact h.latest s (hp s) k (by have := box.lastIdx_ge s; omega) imp
  refine ⟨⟨h.kt, h.aa, ?_, ?_, ?_, ?_, ?_, ?_⟩, ?_⟩
  · intro s _
    rw [Tracker.afterMerge_get]
    exact ⟨by rw [compactList_length]; exact hlast_lt, hlast_own, hacc s⟩
  · intro s _ i hi imp
    rw [Tracker.afterMerge_get] at hi
    exact hafter s imp i hi
  · intro s _
    rw [Tracker.afterMerge_get]
    obtain ⟨v, hc, _, _⟩ := h.value s (hp s)
    have hv := h.common_validity hf s v hc
    refine ⟨box.allOk B, by rw [← hv]; exact hc, ?_, ?_⟩
    · intro imp
      show cAt B F _ s imp box.lastIdx = _
      rw [cAt_compactList B F box rules mw hlast_lt]
      simp only [if_true]
      exact hm s imp
    · intro s' imp hne
      change cAt B F _ s' imp box.lastIdx ≠ none at hne
      rw [cAt_compactList B F box rules mw hlast_lt] at hne
      simp only [if_true, hm] at hne
      by_cases hcond : box.important = imp ∧ box.allOk B = true
      · exact ⟨hcond.2, hcond.1⟩
      · simp [hcond] at hne
  · intro s _ hs
    rw [Tracker.afterMerge_get] at hs
    simp [BoxSide.moved] at hs
  · intro s _
    rw [Tracker.afterMerge_get]
    exact h.tokclass s (hp s)
  · intro s _ hst
    rw [Tracker.afterMerge_get] at hst ⊢
    obtain ⟨s', hs'⟩ := h.witness s (hp s) hst
    refine ⟨s', ?_⟩
    rw [Tracker.afterMerge_get]
    exact hs'
  · intro s imp
    by_cases hcond : box.important = imp ∧ box.allOk B = true
    · -- the merged declaration is the last contribution now, the slot of `s` was before, with the same value
      obtain ⟨v, hc, h2, _⟩ := h.value s (hp s)
      have hv := h.common_validity hf s v hc
      have e1 : LS B F rules s imp = some (.known (B.den (box.sides.get s).token.core)) := by
        apply LS_eq_some_of B F rules s imp (box.sides.get s).ruleIndex
        · rw [h2 imp, hv]; simp [hcond]
        · intro k hk; exact h.latest s (hp s) k hk imp
      have e2 : LS B F (compactList box rules mw) s imp = some (.known (B.den (box.sides.get s).token.core)) := by
        apply LS_eq_some_of B F _ s imp box.lastIdx
        · rw [cAt_compactList B F box rules mw hlast_lt]; simp only [if_true, hm]; simp [hcond]
        · intro k hk; exact hafter s imp k hk
      rw [e1, e2]
    · apply LS_congr B F _ _ s imp (compactList_length box rules mw)
      intro j
      rw [cAt_compactList B F box rules mw hlast_lt]
      by_cases h1 : j = box.lastIdx
      · simp only [h1, if_true, hm, hcond, if_false]
        symm
        apply hold _ _ s imp hcond
        rcases box.lastIdx_mem with e | e | e | e <;> simp [Tracker.pointsAt, e]
      · simp only [h1, if_false]
        by_cases h2 : box.pointsAt j
        · simp only [h2, if_true]; exact (hold j h2 s imp hcond).symm
        · simp [h2]

end
end EsbuildModel.CssBox
