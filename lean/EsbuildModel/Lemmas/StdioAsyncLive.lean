import EsbuildModel.Lemmas.StdioAsyncInv
/-!
Progress of the service machine: as long as something is owed, an action that works the debt off is enabled.
-/
namespace EsbuildModel.StdioAsync
set_option linter.unusedSimpArgs false

/-- nothing in flight: every packet read, no handler running, nothing waiting for or inside the writer -/
def Settled (s : State) : Prop := s.stdin = [] ∧ s.tasks = [] ∧ s.pending = [] ∧ s.writing = none

/-- the actions that work off what is owed: the service's own steps and the host answering a request of the
service. (Not: new requests from the host, new requests to the host, closing stdin.) -/
def Draining : Action → Bool
  | .deliver | .hostAnswer _ | .start _ | .finish _ _ | .take _ _ | .writeDone | .helperDone _ => true
  | _ => false

theorem find_by_id {α : Type} (f : α → Nat) {l : List α} (hn : (l.map f).Nodup) {c : α} (hc : c ∈ l) :
    l.find? (fun x => f x == f c) = some c := by
  induction l with
  | nil => cases hc
  | cons x xs ih =>
    simp only [List.map_cons, List.nodup_cons] at hn
    rcases List.mem_cons.1 hc with rfl | hc
    · simp
    · have hne : f x ≠ f c := by
        intro he
        exact hn.1 (he ▸ List.mem_map.2 ⟨c, hc, rfl⟩)
      have : (f x == f c) = false := by simpa using hne
      simp only [List.find?_cons, this]
      exact ih hn.2 hc

theorem outstanding_nil {s : State} (h : s.callbacks = []) (tid : Nat) : outstanding s tid = 0 := by
  simp [outstanding, h]

/-- a handler that is neither a cancel nor a dispose can always end once its requests to the host have returned -/
theorem finish_free {s : State} {t : Task} (hout : outstanding s t.id = 0) (h1 : t.cmd ≠ .cancel) (h2 : t.cmd ≠ .dispose) :
    (finishTask s t false).isSome = true := by
  unfold finishTask
  simp only [hout, ne_eq, not_true_eq_false, if_false]
  cases hc : t.cmd <;> simp_all
  · split <;> simp

theorem finish_cancel {s : State} {t : Task} (hout : outstanding s t.id = 0) (hc : t.cmd = .cancel)
    (hb : cancelBlocked s t = false) : (finishTask s t false).isSome = true := by
  unfold finishTask
  simp [hout, hc, hb]

theorem finish_dispose {s : State} {t : Task} (hout : outstanding s t.id = 0) (hc : t.cmd = .dispose)
    (hb : disposeBlocked s t.key = false) : (finishTask s t false).isSome = true := by
  unfold finishTask
  simp [hout, hc, hb]

theorem step_finish {s : State} {t : Task} (hnp : s.panicked = false) (hf : findTask s t.id = some t) (ok : Bool) :
    step s (.finish t.id ok) = finishTask s t ok := by
  simp [step, hnp, hf]

/-- some handler can end when no request to the host is outstanding, no helper is running and nothing is queued -/
theorem some_finish_enabled (s : State) (hnp : s.panicked = false) (hcb : s.callbacks = []) (hh : s.helpers = [])
    (hp : s.pending = []) (ht : s.tasks ≠ []) (hn : (s.tasks.map (·.id)).Nodup) :
    ∃ tid, (step s (.finish tid false)).isSome = true := by
  have hfind : ∀ t ∈ s.tasks, findTask s t.id = some t := fun t ht => find_by_id (fun x : Task => x.id) hn ht
  by_cases hfree : ∃ t ∈ s.tasks, t.cmd ≠ .cancel ∧ t.cmd ≠ .dispose
  · obtain ⟨t, htm, h1, h2⟩ := hfree
    exact ⟨t.id, by rw [step_finish hnp (hfind t htm)]; exact finish_free (outstanding_nil hcb _) h1 h2⟩
  · have hall : ∀ t ∈ s.tasks, t.cmd = .cancel ∨ t.cmd = .dispose := by
      intro t htm
      by_cases h1 : t.cmd = .cancel
      · exact .inl h1
      · by_cases h2 : t.cmd = .dispose
        · exact .inr h2
        · exact absurd ⟨t, htm, h1, h2⟩ hfree
    by_cases hcan : ∃ t ∈ s.tasks, t.cmd = .cancel
    · obtain ⟨t, htm, hc⟩ := hcan
      have hb : cancelBlocked s t = false := by
        unfold cancelBlocked
        split
        · simp only [hh, List.any_nil, Bool.or_false]
          rw [List.any_eq_false]
          intro u hu
          rcases hall u hu with h | h <;> simp [h]
        · rfl
      exact ⟨t.id, by rw [step_finish hnp (hfind t htm)]; exact finish_cancel (outstanding_nil hcb _) hc hb⟩
    · obtain ⟨t, htm⟩ := List.exists_mem_of_ne_nil _ ht
      have hd : t.cmd = .dispose := by
        rcases hall t htm with h | h
        · exact absurd ⟨t, htm, h⟩ hcan
        · exact h
      have hb : disposeBlocked s t.key = false := by
        unfold disposeBlocked
        simp only [hp, hcb, List.any_nil, Bool.or_false]
        rw [List.any_eq_false]
        intro u hu
        rcases hall u hu with h | h <;> simp [h, isHolderCmd]
      exact ⟨t.id, by rw [step_finish hnp (hfind t htm)]; exact finish_dispose (outstanding_nil hcb _) hd hb⟩

/-- **No deadlock.** In every state that has not panicked and in which something is still in flight, a draining
action is enabled — provided the host can still answer (stdin is open while requests to the host are outstanding) and
the handlers have pairwise distinct request ids. -/
theorem progress (s : State) (hnp : s.panicked = false) (hns : ¬ Settled s)
    (hresp : s.callbacks ≠ [] → s.closed = false) (hn : (s.tasks.map (·.id)).Nodup) :
    ∃ a, Draining a = true ∧ (step s a).isSome = true := by
  cases hw : s.writing with
  | some p => exact ⟨.writeDone, rfl, by simp [step, hnp, hw]⟩
  | none =>
    cases hp : s.pending with
    | cons p ps =>
      refine ⟨.take p.pkt.isRequest p.pkt.id, rfl, ?_⟩
      simp [step, hnp, hw, hp]
    | nil =>
      cases hst : s.stdin with
      | cons x xs =>
        refine ⟨.deliver, rfl, ?_⟩
        have hb : readerBlocked s = false := by simp [readerBlocked, hp]
        simp only [step, hnp, hb, hst]
        cases x <;> simp
        split <;> simp
      | nil =>
        have ht : s.tasks ≠ [] := fun ht => hns ⟨hst, ht, hp, hw⟩
        cases hcb : s.callbacks with
        | cons c cs =>
          have hcl := hresp (by simp [hcb])
          refine ⟨.hostAnswer c.id, rfl, ?_⟩
          simp [step, hnp, hcl, hcb, hst]
        | nil =>
          cases hh : s.helpers with
          | cons g gs => exact ⟨.helperDone g, rfl, by simp [step, hnp, hh]⟩
          | nil =>
            obtain ⟨tid, h⟩ := some_finish_enabled s hnp hcb hh hp ht hn
            exact ⟨.finish tid false, rfl, h⟩


/-! ## draining terminates: a measure that every draining action decreases -/

/-- requests to the host that the host has not answered yet -/
def unanswered (cbs : List Callback) (stdin : List HostPkt) : Nat :=
  cbs.countP (fun c => !stdin.contains (.response c.id))

def unstarted (ts : List Task) : Nat := ts.countP (fun t => isBuildCmd t.cmd && !t.started)

/-- an upper bound for the number of draining actions still possible -/
def debt (s : State) : Nat :=
  16 * unanswered s.callbacks s.stdin + 8 * s.stdin.length + 4 * s.tasks.length + unstarted s.tasks +
  2 * s.pending.length + s.writing.toList.length + s.helpers.length + (1 - s.panicked.toNat)

theorem unanswered_cons_other (cbs : List Callback) (p : HostPkt) (rest : List HostPkt)
    (h : ∀ c ∈ cbs, HostPkt.response c.id ≠ p) : unanswered cbs (p :: rest) = unanswered cbs rest := by
  unfold unanswered
  apply List.countP_congr
  intro c hc
  have hne := h c hc
  have : (HostPkt.response c.id == p) = false := by simpa using hne
  simp only [List.contains_cons, this, Bool.false_or]

theorem unstarted_eraseP_le (ts : List Task) (p : Task → Bool) : unstarted (ts.eraseP p) ≤ unstarted ts :=
  List.Sublist.countP_le List.eraseP_sublist

theorem countP_lt_of_imp {α : Type} (p q : α → Bool) : ∀ (l : List α), (∀ x ∈ l, p x = true → q x = true) →
    (∃ x ∈ l, q x = true ∧ p x = false) → l.countP p < l.countP q
  | [], _, h => by obtain ⟨x, hx, _⟩ := h; cases hx
  | y :: ys, himp, hex => by
    have hle : ys.countP p ≤ ys.countP q := by
      apply List.countP_mono_left
      intro x hx; exact himp x (List.mem_cons_of_mem _ hx)
    simp only [List.countP_cons]
    obtain ⟨x, hx, hq, hp⟩ := hex
    rcases List.mem_cons.1 hx with rfl | hx
    · simp only [hq, hp, if_true, Bool.false_eq_true, if_false]; omega
    · have ih := countP_lt_of_imp p q ys (fun z hz => himp z (List.mem_cons_of_mem _ hz)) ⟨x, hx, hq, hp⟩
      have hy := himp y (List.mem_cons_self ..)
      by_cases hpy : p y = true
      · simp only [hpy, hy hpy, if_true]; omega
      · have : p y = false := by simpa using hpy
        simp only [this, Bool.false_eq_true, if_false]
        split <;> omega


theorem step_not_panicked {s s' : State} {a : Action} (hs : step s a = some s') : s.panicked = false := by
  unfold step at hs
  split at hs
  · cases hs
  · rename_i h; simpa using h

theorem debt_writeDone {s s' : State} (hs : step s .writeDone = some s') : debt s' < debt s := by
  have hnp := step_not_panicked hs
  simp only [step, hnp, Bool.false_eq_true, if_false] at hs
  split at hs
  · rename_i p hw
    cases hs
    simp only [debt, hw, hnp, Option.toList_some, Option.toList_none, List.length_cons, List.length_nil, Bool.toNat_false]
    omega
  · cases hs

theorem debt_take {s s' : State} {r : Bool} {id : Nat} (hs : step s (.take r id) = some s') : debt s' < debt s := by
  have hnp := step_not_panicked hs
  simp only [step, hnp, Bool.false_eq_true, if_false] at hs
  split at hs
  · cases hs
  · rename_i hw
    split at hs
    · rename_i p hp
      cases hs
      have hm := List.mem_of_find?_eq_some hp
      have hsel := List.find?_some hp
      have hl := List.length_eraseP_of_mem (p := fun p : Pending => p.pkt.isRequest == r && p.pkt.id == id) hm hsel
      have : 0 < s.pending.length := List.length_pos_of_mem hm
      simp only [debt, hw, hl, hnp, Option.toList_some, Option.toList_none, List.length_cons, List.length_nil, Bool.toNat_false]
      omega
    · cases hs

theorem debt_helperDone {s s' : State} {g : Nat} (hs : step s (.helperDone g) = some s') : debt s' < debt s := by
  have hnp := step_not_panicked hs
  simp only [step, hnp, Bool.false_eq_true, if_false] at hs
  split at hs
  · rename_i hg
    cases hs
    have hm : g ∈ s.helpers := by simpa using hg
    have := List.length_erase_of_mem hm
    have : 0 < s.helpers.length := List.length_pos_of_mem hm
    simp only [debt, hnp, Bool.toNat_false, *]
    omega
  · cases hs

theorem debt_hostAnswer {s s' : State} {id : Nat} (hs : step s (.hostAnswer id) = some s') : debt s' < debt s := by
  have hnp := step_not_panicked hs
  simp only [step, hnp, Bool.false_eq_true, if_false] at hs
  split at hs
  · cases hs
  · split at hs
    · rename_i hc
      cases hs
      simp only [Bool.and_eq_true, List.any_eq_true, Bool.not_eq_true'] at hc
      obtain ⟨⟨c, hcm, hcid⟩, hnot⟩ := hc
      have hcid : c.id = id := by simpa using hcid
      have hlt : unanswered s.callbacks (s.stdin ++ [.response id]) < unanswered s.callbacks s.stdin := by
        unfold unanswered
        apply countP_lt_of_imp
        · intro x _ hx
          simp only [Bool.not_eq_true', List.contains_eq_mem, List.mem_append, List.mem_singleton,
            decide_eq_false_iff_not, not_or] at hx ⊢
          exact hx.1
        · refine ⟨c, hcm, ?_, ?_⟩
          · simpa [hcid] using hnot
          · simp [hcid]
      simp only [debt, hnp, List.length_append, List.length_singleton, Bool.toNat_false]
      omega
    · cases hs


theorem unstarted_setStarted {tid : Nat} : ∀ (l : List Task) (t : Task), l.find? (·.id == tid) = some t →
    t.started = false → isBuildCmd t.cmd = true → unstarted (setStarted tid l) + 1 = unstarted l
  | [], _, h, _, _ => by simp at h
  | x :: xs, t, h, hst, hb => by
    unfold setStarted
    by_cases hx : (x.id == tid) = true
    · simp only [List.find?_cons, hx, Option.some.injEq] at h
      subst h
      simp [hx, unstarted, List.countP_cons, hst, hb]
    · have hx' : (x.id == tid) = false := by simpa using hx
      simp only [List.find?_cons, hx'] at h
      have ih := unstarted_setStarted xs t h hst hb
      simp only [hx', Bool.false_eq_true, if_false, unstarted, List.countP_cons] at ih ⊢
      omega

theorem debt_start {s s' : State} {tid : Nat} (hs : step s (.start tid) = some s') : debt s' < debt s := by
  have hnp := step_not_panicked hs
  simp only [step, hnp, Bool.false_eq_true, if_false] at hs
  split at hs
  · rename_i t ht
    split at hs
    · rename_i c pl hc
      split at hs
      · cases hs
      · rename_i hst
        have hst' : t.started = false := by simpa using hst
        split at hs
        · cases hs
          simp only [debt, panic, hnp, Bool.toNat_false, Bool.toNat_true]
          omega
        · cases hs
          have := unstarted_setStarted s.tasks t ht hst' (by simp [hc, isBuildCmd])
          simp only [debt, hnp, setStarted_length, Bool.toNat_false]
          omega
    · cases hs
  · cases hs

theorem debt_finish {s s' : State} {tid : Nat} {ok : Bool} (hs : step s (.finish tid ok) = some s') :
    debt s' < debt s := by
  have hnp := step_not_panicked hs
  simp only [step, hnp, Bool.false_eq_true, if_false] at hs
  split at hs
  · rename_i t ht
    obtain ⟨_, s1, hold, hsame, _, rfl⟩ := finishTask_shape s s' t ok hs
    have htm : t ∈ s.tasks := List.mem_of_find?_eq_some ht
    have hsel : (fun u : Task => u.id == t.id) t = true := by simp
    have hl := List.length_eraseP_of_mem (p := fun u : Task => u.id == t.id) htm hsel
    have hu := unstarted_eraseP_le s.tasks (fun u : Task => u.id == t.id)
    have hpos : 0 < s.tasks.length := List.length_pos_of_mem htm
    simp only [debt, reply, enqueue, removeTask, hsame.callbacks, hsame.stdin, hsame.tasks, hsame.pending,
      hsame.writing, hsame.helpers, hl, hnp, List.length_append, List.length_singleton, Bool.toNat_false]
    omega
  · cases hs

theorem eraseP_ids_ne {l : List Callback} (hn : (l.map (·.id)).Nodup) {id : Nat} {c : Callback}
    (hf : l.find? (·.id == id) = some c) : ∀ d ∈ l.eraseP (·.id == id), d.id ≠ id := by
  induction l with
  | nil => simp at hf
  | cons x xs ih =>
    simp only [List.map_cons, List.nodup_cons] at hn
    by_cases hx : x.id = id
    · have hb : (x.id == id) = true := by simpa using hx
      simp only [List.eraseP_cons, hb, cond_true]
      intro d hd hdi
      exact hn.1 (by rw [hx, ← hdi]; exact List.mem_map.2 ⟨d, hd, rfl⟩)
    · have hb : (x.id == id) = false := by simpa using hx
      simp only [List.find?_cons, hb] at hf
      simp only [List.eraseP_cons, hb, cond_false]
      intro d hd
      rcases List.mem_cons.1 hd with rfl | hd
      · exact hx
      · exact ih hn.2 hf d hd

theorem debt_deliver {s s' : State} (hi : IdsOk s) (hs : step s .deliver = some s') : debt s' < debt s := by
  have hnp := step_not_panicked hs
  simp only [step, hnp, Bool.false_eq_true, if_false] at hs
  split at hs
  · cases hs
  · split at hs
    · cases hs
    · rename_i p rest hst
      cases p with
      | garbage =>
        simp only [Option.some.injEq] at hs; subst hs
        have := unanswered_cons_other s.callbacks .garbage rest (by intro c _; simp)
        simp only [debt, hst, this, hnp, List.length_cons, Bool.toNat_false]
        omega
      | response id =>
        simp only at hs
        split at hs
        · rename_i c hf
          simp only [Option.some.injEq] at hs; subst hs
          have hne := eraseP_ids_ne hi.nodup hf
          have hle : unanswered (s.callbacks.eraseP (·.id == id)) rest ≤ unanswered s.callbacks (.response id :: rest) := by
            have h1 : unanswered (s.callbacks.eraseP (·.id == id)) rest
                = unanswered (s.callbacks.eraseP (·.id == id)) (.response id :: rest) :=
              (unanswered_cons_other _ _ rest (by intro d hd; simpa using hne d hd)).symm
            rw [h1]
            exact List.Sublist.countP_le List.eraseP_sublist
          simp only [debt, hst, hnp, List.length_cons, Bool.toNat_false]
          omega
        · rename_i hf
          simp only [Option.some.injEq] at hs; subst hs
          have hall : ∀ c ∈ s.callbacks, HostPkt.response c.id ≠ .response id := by
            intro c hc
            have := List.find?_eq_none.1 hf c hc
            simpa using this
          have := unanswered_cons_other s.callbacks (.response id) rest hall
          simp only [debt, panic, hst, this, hnp, List.length_cons, Bool.toNat_false, Bool.toNat_true]
          omega
      | request id cmd key =>
        simp only [Option.some.injEq] at hs; subst hs
        have hun := unanswered_cons_other s.callbacks (.request id cmd key) rest (by intro c _; simp)
        obtain ⟨s1, hsame, hcase⟩ :=
          deliverRequest_shape { s with stdin := rest, delivered := s.delivered ++ [.request id cmd key], panicked := false } id cmd key
        rcases hcase with ⟨t, _, _, _, _, h5⟩ | ⟨tag, _, h2⟩
        · rw [h5]
          have hu : unstarted (s.tasks ++ [t]) ≤ unstarted s.tasks + 1 := by
            simp only [unstarted, List.countP_append, List.countP_cons, List.countP_nil]
            split <;> omega
          simp only [debt, addTask, hsame.callbacks, hsame.stdin, hsame.tasks, hsame.pending, hsame.writing,
            hsame.helpers, hst, hun, hnp, List.length_append, List.length_singleton, List.length_cons, List.length_nil,
            Bool.toNat_false]
          omega
        · rw [h2]
          simp only [debt, syncReply, enqueue, hsame.callbacks, hsame.stdin, hsame.tasks, hsame.pending, hsame.writing,
            hsame.helpers, hst, hun, hnp, List.length_append, List.length_singleton, List.length_cons, List.length_nil,
            Bool.toNat_false]
          omega

/-- **Draining terminates.** Every draining action strictly decreases `debt`. -/
theorem drain_decreases (s s' : State) (a : Action) (hi : IdsOk s) (hd : Draining a = true)
    (hs : step s a = some s') : debt s' < debt s := by
  cases a with
  | hostSend p => cases hd
  | hostAnswer id => exact debt_hostAnswer hs
  | close => cases hd
  | deliver => exact debt_deliver hi hs
  | start tid => exact debt_start hs
  | finish tid ok => exact debt_finish hs
  | svcReq o t k => cases hd
  | take r id => exact debt_take hs
  | writeDone => exact debt_writeDone hs
  | startCancel tid => cases hd
  | helperDone g => exact debt_helperDone hs

/-- a run of draining actions from `s` is at most `debt s` long -/
theorem draining_run_bounded : ∀ (as : List Action) (s s' : State), IdsOk s → (∀ a ∈ as, Draining a = true) →
    run s as = some s' → as.length + debt s' ≤ debt s
  | [], s, s', _, _, h => by simp only [run, Option.some.injEq] at h; subst h; simp
  | a :: as, s, s', hi, hd, h => by
    simp only [run] at h
    cases hst : step s a with
    | none => simp [hst] at h
    | some s1 =>
      rw [hst] at h
      have h1 := drain_decreases s s1 a hi (hd a (List.mem_cons_self ..)) hst
      have h2 := draining_run_bounded as s1 s' (idsOk_step (step_shape s s1 a hst) hi)
        (fun b hb => hd b (List.mem_cons_of_mem _ hb)) h
      simp only [List.length_cons]
      omega

end EsbuildModel.StdioAsync
