import EsbuildModel.Impl.RegexLex
import EsbuildModel.Spec.JsRegExpLiteral
/-! Lemmas relating `RegexLex.scanBody` / `flagsLoop` / `lex` to the lexical grammar of `Spec.JsRegExpLiteral`. -/
namespace EsbuildModel.RegexLex
open Spec.JsRegExpLiteral

theorem isLT_false_iff (c : Nat) : isLT c = false ↔ NonTerminator c := by
  unfold isLT NonTerminator IsLineTerminator
  simp only [Bool.or_eq_false_iff, beq_eq_false_iff_ne]
  omega

theorem isLT_true_iff (c : Nat) : isLT c = true ↔ IsLineTerminator c := by
  unfold isLT IsLineTerminator
  simp only [Bool.or_eq_true, beq_iff_eq]
  omega

/-- one unfolding step of `scanBody` (the compiled equations split on the tail) -/
theorem scanBody_cons (inClass : Bool) (c : Nat) (rest : List Nat) (i : Nat) :
    scanBody inClass (c :: rest) i =
      if c = 92 then
        match rest with
        | [] => .inl (i + 1)
        | d :: r => if isLT d then .inl (i + 1) else scanBody inClass r (i + 2)
      else if inClass then
        if c = 93 then scanBody false rest (i + 1)
        else if isLT c then .inl i else scanBody true rest (i + 1)
      else if c = 47 then .inr (rest, i + 1)
      else if c = 91 then scanBody true rest (i + 1)
      else if isLT c then .inl i else scanBody false rest (i + 1) := by
  cases rest <;> simp only [scanBody]

theorem scanBody_nil (inClass : Bool) (i : Nat) : scanBody inClass [] i = .inl i := by
  rw [scanBody]

/-! ### right-recursive forms of the list productions -/

theorem classChars_cons {a b : List Nat} (ha : ClassChar a) (hb : ClassChars b) : ClassChars (a ++ b) := by
  induction hb with
  | empty => simpa using ClassChars.snoc [] a .empty ha
  | snoc b1 b2 _ h2 ih => rw [← List.append_assoc]; exact .snoc _ _ ih h2

theorem chars_cons {a b : List Nat} (ha : Char a) (hb : Chars b) : Chars (a ++ b) := by
  induction hb with
  | empty => simpa using Chars.snoc [] a .empty ha
  | snoc b1 b2 _ h2 ih => rw [← List.append_assoc]; exact .snoc _ _ ih h2

theorem chars_append {a b : List Nat} (ha : Chars a) (hb : Chars b) : Chars (a ++ b) := by
  induction hb with
  | empty => simpa using ha
  | snoc b1 b2 _ h2 ih => rw [← List.append_assoc]; exact .snoc _ _ ih h2

theorem char_ne_nil {u : List Nat} (h : Char u) : u ≠ [] := by
  cases h with
  | plain c => simp
  | esc s hs => cases hs; simp
  | cls s hs => cases hs; simp

/-- a non-empty RegularExpressionChars starts with a RegularExpressionChar -/
theorem chars_uncons {a : List Nat} (h : Chars a) : a = [] ∨ ∃ u cs, Char u ∧ Chars cs ∧ a = u ++ cs := by
  induction h with
  | empty => exact .inl rfl
  | snoc a b ha hb ih =>
    right
    rcases ih with rfl | ⟨u, cs, hu, hcs, rfl⟩
    · exact ⟨b, [], hb, .empty, by simp⟩
    · exact ⟨u, cs ++ b, hu, .snoc _ _ hcs hb, by simp⟩

theorem firstChar_toChar {u : List Nat} (h : FirstChar u) : Char u := by
  cases h with
  | plain c h1 h2 h3 h4 h5 => exact .plain c h1 h3 h4 h5
  | esc s hs => exact .esc _ hs
  | cls s hs => exact .cls _ hs

theorem body_chars {b : List Nat} (h : Body b) : Chars b := by
  cases h with
  | mk f cs hf hcs => exact chars_cons (firstChar_toChar hf) hcs

/-- the first character of a body is neither `/` nor `*` -/
theorem body_head {b : List Nat} (h : Body b) : ∃ d r, b = d :: r ∧ d ≠ 47 ∧ d ≠ 42 := by
  cases h with
  | mk f cs hf hcs =>
    cases hf with
    | plain c h1 h2 h3 h4 h5 => exact ⟨c, cs, rfl, h4, h2⟩
    | esc s hs => cases hs with | mk c hc => exact ⟨92, c :: cs, rfl, by decide, by decide⟩
    | cls s hs => cases hs with | mk s' hs' => exact ⟨91, s' ++ [93] ++ cs, by simp, by decide, by decide⟩

/-- a RegularExpressionChar that does not start with `*` is a RegularExpressionFirstChar -/
theorem char_toFirst {u : List Nat} (h : Char u) (hd : u.head? ≠ some 42) : FirstChar u := by
  cases h with
  | plain c h1 h2 h3 h4 => exact .plain c h1 (by simpa using hd) h2 h3 h4
  | esc s hs => exact .esc _ hs
  | cls s hs => exact .cls _ hs

/-! ### completeness: the scanner walks over every derivation -/

theorem scanBody_classChar {b : List Nat} (h : ClassChar b) (t : List Nat) (i : Nat) :
    scanBody true (b ++ t) i = scanBody true t (i + b.length) := by
  cases h with
  | plain c h1 h2 h3 =>
    have := (isLT_false_iff c).2 h1
    simp [scanBody_cons, h2, h3, this]
  | esc s hs =>
    cases hs with
    | mk c hc =>
      have := (isLT_false_iff c).2 hc
      simp [scanBody_cons, this]

theorem scanBody_classChars {a : List Nat} (h : ClassChars a) : ∀ (t : List Nat) (i : Nat),
    scanBody true (a ++ t) i = scanBody true t (i + a.length) := by
  induction h with
  | empty => intro t i; simp
  | snoc a b _ hb ih =>
    intro t i
    rw [List.append_assoc, ih, scanBody_classChar hb, List.length_append, Nat.add_assoc]

theorem scanBody_class {s : List Nat} (h : Class s) (t : List Nat) (i : Nat) :
    scanBody false (s ++ t) i = scanBody false t (i + s.length) := by
  cases h with
  | mk cc hcc =>
    have h1 : (91 :: cc ++ [93]) ++ t = 91 :: (cc ++ 93 :: t) := by simp
    rw [h1]
    rw [scanBody_cons]
    simp only [show (91 : Nat) ≠ 92 by decide, if_false, Bool.false_eq_true, show (91 : Nat) ≠ 47 by decide, if_true]
    rw [scanBody_classChars hcc, scanBody_cons]
    simp only [show (93 : Nat) ≠ 92 by decide, if_false, if_true]
    congr 1
    simp; omega

theorem scanBody_char {b : List Nat} (h : Char b) (t : List Nat) (i : Nat) :
    scanBody false (b ++ t) i = scanBody false t (i + b.length) := by
  cases h with
  | plain c h1 h2 h3 h4 =>
    have := (isLT_false_iff c).2 h1
    simp [scanBody_cons, h2, h3, h4, this]
  | esc s hs =>
    cases hs with
    | mk c hc =>
      have := (isLT_false_iff c).2 hc
      simp [scanBody_cons, this]
  | cls s hs => exact scanBody_class hs t i

theorem scanBody_chars {a : List Nat} (h : Chars a) : ∀ (t : List Nat) (i : Nat),
    scanBody false (a ++ t) i = scanBody false t (i + a.length) := by
  induction h with
  | empty => intro t i; simp
  | snoc a b _ hb ih =>
    intro t i
    rw [List.append_assoc, ih, scanBody_char hb, List.length_append, Nat.add_assoc]

/-- the scanner finds the `/` that follows a RegularExpressionChars -/
theorem scanBody_complete {cs : List Nat} (h : Chars cs) (rest : List Nat) (i : Nat) :
    scanBody false (cs ++ 47 :: rest) i = .inr (rest, i + cs.length + 1) := by
  rw [scanBody_chars h, scanBody_cons]
  simp

/-! ### soundness: what the scanner walked over is a derivation -/

/-- what a successful `scanBody` has consumed -/
def Consumed (inClass : Bool) (l : List Nat) (i : Nat) (rest : List Nat) (j : Nat) : Prop :=
  match inClass with
  | false => ∃ cs, Chars cs ∧ l = cs ++ 47 :: rest ∧ j = i + cs.length + 1
  | true => ∃ cc cs, ClassChars cc ∧ Chars cs ∧ l = cc ++ 93 :: (cs ++ 47 :: rest) ∧ j = i + cc.length + 1 + cs.length + 1

theorem consumed_esc {inClass : Bool} {d : Nat} {r : List Nat} {i : Nat} {rest : List Nat} {j : Nat}
    (hd : isLT d = false) (h : Consumed inClass r (i + 2) rest j) : Consumed inClass (92 :: d :: r) i rest j := by
  have hb : BackslashSequence [92, d] := .mk d ((isLT_false_iff d).1 hd)
  cases inClass with
  | false =>
    obtain ⟨cs, hcs, rfl, rfl⟩ := h
    exact ⟨[92, d] ++ cs, chars_cons (.esc _ hb) hcs, by simp, by simp; omega⟩
  | true =>
    obtain ⟨cc, cs, hcc, hcs, rfl, rfl⟩ := h
    exact ⟨[92, d] ++ cc, cs, classChars_cons (.esc _ hb) hcc, hcs, by simp, by simp; omega⟩

theorem scanBody_sound : ∀ (n : Nat) (l : List Nat), l.length ≤ n → ∀ (inClass : Bool) (i : Nat) (rest : List Nat) (j : Nat),
    scanBody inClass l i = .inr (rest, j) → Consumed inClass l i rest j := by
  intro n
  induction n with
  | zero =>
    intro l hl inClass i rest j h
    have : l = [] := List.eq_nil_of_length_eq_zero (by omega)
    subst this
    rw [scanBody_nil] at h; cases h
  | succ n ih =>
    intro l hl inClass i rest j h
    cases l with
    | nil => rw [scanBody_nil] at h; cases h
    | cons c rest0 =>
      rw [scanBody_cons] at h
      by_cases h92 : c = 92
      · subst h92
        simp only [if_true] at h
        cases rest0 with
        | nil => cases h
        | cons d r =>
          simp only at h
          cases hd : isLT d with
          | true => simp [hd] at h
          | false =>
            simp only [hd, Bool.false_eq_true, if_false] at h
            exact consumed_esc hd (ih r (by simp at hl; omega) inClass (i + 2) rest j h)
      · simp only [h92, if_false] at h
        have hlen : rest0.length ≤ n := by simp at hl; omega
        cases inClass with
        | true =>
          simp only [if_true] at h
          by_cases h93 : c = 93
          · subst h93
            simp only [if_true] at h
            obtain ⟨cs, hcs, rfl, rfl⟩ := ih rest0 hlen false (i + 1) rest j h
            exact ⟨[], cs, .empty, hcs, by simp, by simp⟩
          · simp only [h93, if_false] at h
            cases hc : isLT c with
            | true => simp [hc] at h
            | false =>
              simp only [hc, Bool.false_eq_true, if_false] at h
              obtain ⟨cc, cs, hcc, hcs, rfl, rfl⟩ := ih rest0 hlen true (i + 1) rest j h
              exact ⟨[c] ++ cc, cs, classChars_cons (.plain c ((isLT_false_iff c).1 hc) h93 h92) hcc, hcs, by simp,
                by simp; omega⟩
        | false =>
          simp only [Bool.false_eq_true, if_false] at h
          by_cases h47 : c = 47
          · subst h47
            simp only [if_true, Sum.inr.injEq, Prod.mk.injEq] at h
            obtain ⟨rfl, rfl⟩ := h
            exact ⟨[], .empty, by simp, by simp⟩
          · simp only [h47, if_false] at h
            by_cases h91 : c = 91
            · subst h91
              simp only [if_true] at h
              obtain ⟨cc, cs, hcc, hcs, rfl, rfl⟩ := ih rest0 hlen true (i + 1) rest j h
              exact ⟨(91 :: cc ++ [93]) ++ cs, chars_cons (.cls _ (.mk cc hcc)) hcs, by simp, by simp; omega⟩
            · simp only [h91, if_false] at h
              cases hc : isLT c with
              | true => simp [hc] at h
              | false =>
                simp only [hc, Bool.false_eq_true, if_false] at h
                obtain ⟨cs, hcs, rfl, rfl⟩ := ih rest0 hlen false (i + 1) rest j h
                exact ⟨[c] ++ cs, chars_cons (.plain c ((isLT_false_iff c).1 hc) h92 h47 h91) hcs, by simp,
                  by simp; omega⟩

/-- `scanBody` outside a class succeeds exactly on a RegularExpressionChars followed by `/` -/
theorem scanBody_iff (l : List Nat) (i : Nat) (rest : List Nat) (j : Nat) :
    scanBody false l i = .inr (rest, j) ↔ ∃ cs, Chars cs ∧ l = cs ++ 47 :: rest ∧ j = i + cs.length + 1 := by
  constructor
  · exact scanBody_sound l.length l (Nat.le_refl _) false i rest j
  · rintro ⟨cs, hcs, rfl, rfl⟩
    exact scanBody_complete hcs rest i

/-- the RegularExpressionChars before the first top-level `/` is unique -/
theorem chars_unique {cs1 cs2 r1 r2 : List Nat} (h1 : Chars cs1) (h2 : Chars cs2)
    (h : cs1 ++ 47 :: r1 = cs2 ++ 47 :: r2) : cs1 = cs2 ∧ r1 = r2 := by
  have e1 := scanBody_complete h1 r1 0
  have e2 := scanBody_complete h2 r2 0
  rw [h, e2] at e1
  simp only [Sum.inr.injEq, Prod.mk.injEq] at e1
  obtain ⟨hr, hl⟩ := e1
  subst hr
  have hlen : cs1.length = cs2.length := by omega
  exact ⟨(List.append_inj h hlen).1, rfl⟩

/-! ### the flags loop -/

theorem isFlag_idc (na : Nat → Bool) (c : Nat) (h : isFlag c = true) : idc na c = true := by
  have h97 : 97 ≤ c ∧ c ≤ 122 := by
    unfold isFlag at h
    simp only [Bool.or_eq_true, beq_iff_eq] at h
    omega
  unfold idc asciiIdc
  simp [h97.1, h97.2]

theorem bothUV_false_iff (seen : List Nat) : bothUV seen = false ↔ ¬ (117 ∈ seen ∧ 118 ∈ seen) := by
  unfold bothUV
  cases h1 : seen.contains 117 <;> cases h2 : seen.contains 118 <;> simp_all

/-- moving a letter from the scanned flags into `seen` does not change what has been seen -/
theorem mem_shift (x c : Nat) (fl seen : List Nat) : x ∈ fl ++ c :: seen ↔ x ∈ (c :: fl) ++ seen := by
  simp only [List.mem_append, List.mem_cons]
  constructor
  · rintro (h | h | h)
    · exact .inl (.inr h)
    · exact .inl (.inl h)
    · exact .inr h
  · rintro ((h | h) | h)
    · exact .inr (.inl h)
    · exact .inl h
    · exact .inr (.inr h)

theorem flagsLoop_ok_sound (na : Nat → Bool) (tok : List Nat) : ∀ (l : List Nat) (i : Nat) (seen : List Nat)
    (dups : List (Nat × Nat)) (n : Nat), flagsLoop na tok l i seen dups = .ok n [] false →
    dups = [] ∧ ∃ fl rest, l = fl ++ rest ∧ (∀ c ∈ fl, isFlag c = true) ∧ fl.Nodup ∧ (∀ c ∈ fl, c ∉ seen) ∧
      (∀ c, rest.head? = some c → idc na c = false) ∧ n = i + fl.length ∧
      ¬ (117 ∈ fl ++ seen ∧ 118 ∈ fl ++ seen) := by
  intro l
  induction l with
  | nil =>
    intro i seen dups n h
    rw [flagsLoop] at h
    simp only [Res.ok.injEq, List.reverse_eq_nil_iff] at h
    exact ⟨h.2.1, [], [], by simp, by simp, by simp, by simp, by simp, by simp [h.1],
      by simpa using (bothUV_false_iff seen).1 h.2.2⟩
  | cons c rest0 ih =>
    intro i seen dups n h
    rw [flagsLoop] at h
    cases hidc : idc na c with
    | false =>
      simp only [hidc, Bool.false_eq_true, if_false, Res.ok.injEq, List.reverse_eq_nil_iff] at h
      exact ⟨h.2.1, [], c :: rest0, by simp, by simp, by simp, by simp, by simp [hidc], by simp [h.1],
        by simpa using (bothUV_false_iff seen).1 h.2.2⟩
    | true =>
      simp only [hidc, if_true] at h
      cases hfl : isFlag c with
      | false => simp [hfl] at h
      | true =>
        simp only [hfl, if_true] at h
        cases hs : seen.contains c with
        | true =>
          simp only [hs, if_true] at h
          have := (ih _ _ _ _ h).1
          cases this
        | false =>
          simp only [hs, Bool.false_eq_true, if_false] at h
          obtain ⟨hd, fl, rest, rfl, h1, h2, h3, h4, rfl, huv⟩ := ih _ _ _ _ h
          have hcs : c ∉ seen := by simpa using hs
          refine ⟨hd, c :: fl, rest, by simp, ?_, ?_, ?_, h4, by simp; omega, ?_⟩
          · intro x hx
            rcases List.mem_cons.1 hx with rfl | hx
            · exact hfl
            · exact h1 x hx
          · refine List.nodup_cons.2 ⟨?_, h2⟩
            intro hc
            exact h3 c hc (by simp)
          · intro x hx
            rcases List.mem_cons.1 hx with rfl | hx
            · exact hcs
            · intro hxs
              exact h3 x hx (List.mem_cons_of_mem _ hxs)
          · intro ⟨ha, hb⟩
            exact huv ⟨(mem_shift 117 c fl seen).2 ha, (mem_shift 118 c fl seen).2 hb⟩

theorem flagsLoop_ok_complete (na : Nat → Bool) (tok : List Nat) : ∀ (fl rest : List Nat) (i : Nat) (seen : List Nat),
    (∀ c ∈ fl, isFlag c = true) → fl.Nodup → (∀ c ∈ fl, c ∉ seen) → (∀ c, rest.head? = some c → idc na c = false) →
    ¬ (117 ∈ fl ++ seen ∧ 118 ∈ fl ++ seen) →
    flagsLoop na tok (fl ++ rest) i seen [] = .ok (i + fl.length) [] false := by
  intro fl
  induction fl with
  | nil =>
    intro rest i seen _ _ _ h4 huv
    have hb : bothUV seen = false := (bothUV_false_iff seen).2 (by simpa using huv)
    cases rest with
    | nil => simp [flagsLoop, hb]
    | cons c r =>
      have := h4 c (by simp)
      simp [flagsLoop, this, hb]
  | cons c fl ih =>
    intro rest i seen h1 h2 h3 h4 huv
    have hfl : isFlag c = true := h1 c (by simp)
    have hs : seen.contains c = false := by
      have := h3 c (by simp)
      simpa using this
    have hnd := List.nodup_cons.1 h2
    rw [List.cons_append, flagsLoop]
    simp only [isFlag_idc na c hfl, hfl, hs, if_true, Bool.false_eq_true, if_false]
    rw [ih rest (i + 1) (c :: seen) (fun x hx => h1 x (List.mem_cons_of_mem _ hx)) hnd.2 ?_ h4 ?_]
    · simp; omega
    · intro x hx hxs
      rcases List.mem_cons.1 hxs with rfl | hxs
      · exact hnd.1 hx
      · exact h3 x (List.mem_cons_of_mem _ hx) hxs
    · intro ⟨ha, hb⟩
      exact huv ⟨(mem_shift 117 c fl seen).1 ha, (mem_shift 118 c fl seen).1 hb⟩

/-! ### `ScanRegExp` and `lex` -/

theorem isFlag_iff (c : Nat) : isFlag c = true ↔ c ∈ flagLetters := by
  unfold isFlag flagLetters
  simp only [Bool.or_eq_true, beq_iff_eq, List.mem_cons, List.not_mem_nil, or_false]
  omega

theorem flags_cons {U : Nat → Bool} {c : Nat} {a : List Nat} (hc : IdentifierPartChar U c) (ha : Flags U a) :
    Flags U (c :: a) := by
  induction ha with
  | empty => simpa using Flags.snoc [] c .empty hc
  | snoc a x _ hx ih => rw [← List.cons_append]; exact .snoc _ _ ih hx

theorem flags_iff_forall (U : Nat → Bool) (fl : List Nat) : Flags U fl ↔ ∀ c ∈ fl, IdentifierPartChar U c := by
  constructor
  · intro h
    induction h with
    | empty => simp
    | snoc a c _ hc ih =>
      intro x hx
      rcases List.mem_append.1 hx with hx | hx
      · exact ih x hx
      · simp at hx; subst hx; exact hc
  · intro h
    induction fl with
    | nil => exact .empty
    | cons c a ih =>
      exact flags_cons (h c (by simp)) (ih fun x hx => h x (List.mem_cons_of_mem _ hx))

/-- ScanRegExp accepts without any error exactly: a RegularExpressionChars, `/`, distinct flag letters not containing
both `u` and `v`, then something that is not an identifier character -/
theorem scanRegExp_ok_iff (na : Nat → Bool) (tok l : List Nat) (i n : Nat) :
    scanRegExp na tok l i = .ok n [] false ↔
      ∃ cs fl rest, Chars cs ∧ l = cs ++ 47 :: (fl ++ rest) ∧ (∀ c ∈ fl, isFlag c = true) ∧ fl.Nodup ∧
        (∀ c, rest.head? = some c → idc na c = false) ∧ n = i + cs.length + 1 + fl.length ∧
        ¬ (117 ∈ fl ∧ 118 ∈ fl) := by
  unfold scanRegExp
  constructor
  · intro h
    cases hb : scanBody false l i with
    | inl p => simp [hb] at h
    | inr q =>
      obtain ⟨rest', j⟩ := q
      simp only [hb] at h
      obtain ⟨cs, hcs, rfl, rfl⟩ := (scanBody_iff l i rest' j).1 hb
      obtain ⟨_, fl, rest, rfl, h1, h2, _, h4, rfl, huv⟩ := flagsLoop_ok_sound na tok _ _ _ _ _ h
      exact ⟨cs, fl, rest, hcs, rfl, h1, h2, h4, rfl, by simpa using huv⟩
  · rintro ⟨cs, fl, rest, hcs, rfl, h1, h2, h4, rfl, huv⟩
    rw [scanBody_complete hcs]
    simp only
    exact flagsLoop_ok_complete na tok fl rest _ [] h1 h2 (by simp) h4 (by simpa using huv)

/-- the part of a body after a first character that is neither `\` nor `[` -/
theorem body_tail {d : Nat} {r : List Nat} (h : Body (d :: r)) (h92 : d ≠ 92) (h91 : d ≠ 91) : Chars r := by
  generalize hb : d :: r = b at h
  cases h with
  | mk f cs hf hcs =>
    cases hf with
    | plain c =>
      simp only [List.singleton_append, List.cons.injEq] at hb
      rw [hb.2]; exact hcs
    | esc s hs =>
      cases hs with
      | mk c hc => simp at hb; exact absurd hb.1 h92
    | cls s hs =>
      cases hs with
      | mk s' hs' => simp at hb; exact absurd hb.1 h91

theorem lex_ok_iff (na : Nat → Bool) (U : Nat → Bool) (hU : ∀ c, IdentifierPartChar U c ↔ idc na c = true)
    (t : List Nat) (n : Nat) :
    lex na t = .ok n [] false ↔
      ∃ body flags, TokenAt U t body flags ∧ FlagsValid flags ∧ n = 2 + body.length + flags.length := by
  have hrest : ∀ rest : List Nat, (∀ c, rest.head? = some c → idc na c = false) ↔
      (∀ c, rest.head? = some c → ¬ IdentifierPartChar U c) := by
    intro rest
    constructor
    · intro h c hc hp; have := h c hc; rw [(hU c).1 hp] at this; cases this
    · intro h c hc
      cases hi : idc na c with
      | false => rfl
      | true => exact absurd ((hU c).2 hi) (h c hc)
  have hflags : ∀ fl : List Nat, (∀ c ∈ fl, isFlag c = true) → Flags U fl := by
    intro fl h
    exact (flags_iff_forall U fl).2 fun c hc => (hU c).2 (isFlag_idc na c (h c hc))
  constructor
  · intro h
    unfold lex at h
    cases t with
    | nil => cases h
    | cons c rest =>
      simp only at h
      by_cases hc : c ≠ 47
      · simp [hc] at h
      have hc : c = 47 := by omega
      subst hc
      simp only [ne_eq, not_true_eq_false, if_false] at h
      cases rest with
      | nil => simp [scanRegExp, scanBody_nil] at h
      | cons d r =>
        simp only at h
        by_cases hd : d = 47 ∨ d = 42
        · simp [hd] at h
        simp only [hd, if_false] at h
        have hd47 : d ≠ 47 := fun e => hd (.inl e)
        have hd42 : d ≠ 42 := fun e => hd (.inr e)
        by_cases h61 : d = 61
        · subst h61
          simp only [if_true] at h
          obtain ⟨cs, fl, rest, hcs, rfl, h1, h2, h4, rfl, huv⟩ := (scanRegExp_ok_iff na _ _ _ _).1 h
          refine ⟨61 :: cs, fl, ⟨?_, hflags fl h1, rest, by simp, (hrest rest).1 h4⟩,
            ⟨fun c hc => (isFlag_iff c).1 (h1 c hc), h2, huv⟩, by simp; omega⟩
          exact Body.mk [61] cs (.plain 61 (by unfold NonTerminator IsLineTerminator; omega) (by decide) (by decide)
            (by decide) (by decide)) hcs
        · simp only [h61, if_false] at h
          obtain ⟨cs, fl, rest, hcs, hl, h1, h2, h4, rfl, huv⟩ := (scanRegExp_ok_iff na _ _ _ _).1 h
          rcases chars_uncons hcs with rfl | ⟨u, cs', hu, hcs', rfl⟩
          · simp at hl; exact absurd hl.1 hd47
          have hune := char_ne_nil hu
          have hhead : u.head? ≠ some 42 := by
            cases u with
            | nil => exact absurd rfl hune
            | cons x xs =>
              simp only [List.cons_append, List.append_assoc, List.cons.injEq] at hl
              simp only [List.head?_cons, ne_eq, Option.some.injEq]
              omega
          refine ⟨u ++ cs', fl, ⟨Body.mk u cs' (char_toFirst hu hhead) hcs', hflags fl h1, rest, by simp [hl],
            (hrest rest).1 h4⟩, ⟨fun c hc => (isFlag_iff c).1 (h1 c hc), h2, huv⟩, by omega⟩
  · rintro ⟨body, flags, ⟨hb, _, rest, rfl, hr⟩, ⟨hf1, hf2, hf3⟩, rfl⟩
    obtain ⟨d, r, rfl, hd47, hd42⟩ := body_head hb
    have h1 : ∀ c ∈ flags, isFlag c = true := fun c hc => (isFlag_iff c).2 (hf1 c hc)
    unfold lex
    simp only [ne_eq, not_true_eq_false, if_false, List.cons_append, hd47, hd42, or_self]
    by_cases h61 : d = 61
    · subst h61
      simp only [if_true]
      rw [scanRegExp_ok_iff]
      exact ⟨r, flags, rest, body_tail hb (by decide) (by decide), by simp, h1, hf2, (hrest rest).2 hr, by simp; omega, hf3⟩
    · simp only [h61, if_false]
      rw [scanRegExp_ok_iff]
      exact ⟨d :: r, flags, rest, body_chars hb, by simp, h1, hf2, (hrest rest).2 hr, by simp; omega, hf3⟩

/-! ### uniqueness of the token, longest match -/

theorem run_unique {P : Nat → Prop} : ∀ (f f' rest rest' : List Nat), (∀ c ∈ f, P c) → (∀ c ∈ f', P c) →
    (∀ c, rest.head? = some c → ¬ P c) → (∀ c, rest'.head? = some c → ¬ P c) → f ++ rest = f' ++ rest' → f = f' := by
  intro f
  induction f with
  | nil =>
    intro f' rest rest' _ h2 h3 _ h
    cases f' with
    | nil => rfl
    | cons x xs =>
      simp only [List.nil_append, List.cons_append] at h
      exact absurd (h2 x (by simp)) (h3 x (by simp [h]))
  | cons y ys ih =>
    intro f' rest rest' h1 h2 h3 h4 h
    cases f' with
    | nil =>
      simp only [List.nil_append, List.cons_append] at h
      exact absurd (h1 y (by simp)) (h4 y (by simp [← h]))
    | cons x xs =>
      simp only [List.cons_append, List.cons.injEq] at h
      rw [h.1, ih xs rest rest' (fun c hc => h1 c (List.mem_cons_of_mem _ hc))
        (fun c hc => h2 c (List.mem_cons_of_mem _ hc)) h3 h4 h.2]

theorem run_longest {P : Nat → Prop} : ∀ (f' f x rest : List Nat), (∀ c ∈ f', P c) →
    (∀ c, rest.head? = some c → ¬ P c) → f' ++ x = f ++ rest → f'.length ≤ f.length := by
  intro f'
  induction f' with
  | nil => intros; simp
  | cons y ys ih =>
    intro f x rest h1 h3 h
    cases f with
    | nil =>
      simp only [List.nil_append, List.cons_append] at h
      exact absurd (h1 y (by simp)) (h3 y (by simp [← h]))
    | cons z zs =>
      simp only [List.cons_append, List.cons.injEq] at h
      have := ih zs x rest (fun c hc => h1 c (List.mem_cons_of_mem _ hc)) h3 h.2
      simp; omega

theorem tokenAt_unique {U : Nat → Bool} {t b f b' f' : List Nat} (h : TokenAt U t b f) (h' : TokenAt U t b' f') :
    b = b' ∧ f = f' := by
  obtain ⟨hb, hf, rest, rfl, hr⟩ := h
  obtain ⟨hb', hf', rest', e, hr'⟩ := h'
  simp only [List.cons_append, List.cons.injEq, true_and, List.append_assoc] at e
  obtain ⟨rfl, e2⟩ := chars_unique (body_chars hb) (body_chars hb') e
  exact ⟨rfl, run_unique f f' rest rest' ((flags_iff_forall U f).1 hf) ((flags_iff_forall U f').1 hf') hr hr' e2⟩

/-- no longer prefix of the text is a RegularExpressionLiteral -/
theorem tokenAt_longest {U : Nat → Bool} {t b f : List Nat} (h : TokenAt U t b f) (m : Nat) (hmt : m ≤ t.length)
    (hm : Literal U (t.take m)) : m ≤ 2 + b.length + f.length := by
  obtain ⟨hb, hf, rest, rfl, hr⟩ := h
  simp only [List.length_cons, List.length_append] at hmt
  generalize hp : List.take m (47 :: b ++ 47 :: f ++ rest) = p at hm
  cases hm with
  | mk b' f' hb' hf' =>
    have e : (47 :: b' ++ 47 :: f') ++ List.drop m (47 :: b ++ 47 :: f ++ rest) = 47 :: b ++ 47 :: f ++ rest := by
      rw [← hp]; exact List.take_append_drop _ _
    simp only [List.cons_append, List.cons.injEq, true_and, List.append_assoc] at e
    obtain ⟨rfl, e2⟩ := chars_unique (body_chars hb') (body_chars hb) e
    have hl := run_longest f' f _ rest ((flags_iff_forall U f').1 hf') hr e2
    have hlen := congrArg List.length hp
    simp only [List.length_take, List.length_cons, List.length_append] at hlen
    omega
