import EsbuildModel.Lemmas.WatchInv
/-! `step` unfolded into the primitives, and: a step keeps the invariant and answers like a fresh look at `fs`. -/
namespace EsbuildModel.Watch

theorem step_readDir (fs : FS) (st : St) (d : Path) :
    step fs st (.readDir d) = ((doReadDir fs st d).1, .dir (doReadDir fs st d).2.err) := rfl

theorem step_get (fs : FS) (st : St) (d : Path) (q : String) :
    step fs st (.get d q) =
      ((doGet (doReadDir fs st d).1 d (doReadDir fs st d).2 q).1,
       .entry (doReadDir fs st d).2.err (doGet (doReadDir fs st d).1 d (doReadDir fs st d).2 q).2.2) := rfl

theorem step_sortedKeys (fs : FS) (st : St) (d : Path) :
    step fs st (.sortedKeys d) =
      ((doSortedKeys (doReadDir fs st d).1 d (doReadDir fs st d).2).1,
       .keys (doReadDir fs st d).2.err (doSortedKeys (doReadDir fs st d).1 d (doReadDir fs st d).2).2) := rfl

/-- the state after the `Get` inside a `kind` operation -/
def kindMid (fs : FS) (st : St) (d : Path) (q : String) : St × DirCache × Option String :=
  doGet (doReadDir fs st d).1 d (doReadDir fs st d).2 q

theorem step_kind (fs : FS) (st : St) (d : Path) (q : String) :
    step fs st (.kind d q) =
      match (kindMid fs st d q).2.2 with
      | none => ((kindMid fs st d q).1, .kind (doReadDir fs st d).2.err none)
      | some b =>
        ((doStat fs (kindMid fs st d q).1 d (kindMid fs st d q).2.1 b).1,
         .kind (doReadDir fs st d).2.err (some (b, (doStat fs (kindMid fs st d q).1 d (kindMid fs st d q).2.1 b).2))) := by
  simp only [step, kindMid]
  split <;> rename_i h <;> simp [h]

theorem step_readFile (fs : FS) (st : St) (p : Path) :
    step fs st (.readFile p) = ((doReadFile fs st p).1, .file (fs.readFile p)) := rfl
theorem step_modKey (fs : FS) (st : St) (p : Path) :
    step fs st (.modKey p) = ((doModKey fs st p).1, .key (fs.modKey p)) := rfl
theorem step_cachedRead (fs : FS) (st : St) (p : Path) :
    step fs st (.cachedRead p) = ((doCachedRead fs st p).1, .file (doCachedRead fs st p).2) := rfl

theorem names_nil_of_dirErr {fs : FS} {d : Path} (h : (fs.dirErr d).isSome = true) : fs.names d = [] := by
  unfold FS.dirErr at h; unfold FS.names; cases hn : fs.node d <;> simp [hn] at h ⊢

theorem isDir_iff_dirErr (fs : FS) (d : Path) : fs.isDir d = !(fs.dirErr d).isSome := by
  unfold FS.dirErr FS.isDir; cases fs.node d <;> rfl

theorem doSortedKeys_ans (st : St) (d : Path) (c : DirCache) :
    (doSortedKeys st d c).2 = if c.err.isSome then none else some (sortedKeysOf c.names) := by
  unfold doSortedKeys; split <;> rfl

/-- Within one build (one `fs`), the caches are transparent: every step keeps the invariant and gives the
answer a fresh look at `fs` gives. -/
theorem step_spec {fs : FS} {st : St} (h : Inv fs st) (op : Op) :
    Inv fs (step fs st op).1 ∧ (step fs st op).2 = answer fs op := by
  cases op with
  | readDir d =>
    obtain ⟨h1, hc⟩ := doReadDir_spec h d
    rw [step_readDir]
    exact ⟨h1, by simp only [answer]; rw [(h1.cache d _ hc).err]⟩
  | get d q =>
    obtain ⟨h1, hc⟩ := doReadDir_spec h d
    obtain ⟨h2, _, he⟩ := doGet_spec h1 hc q
    have ok := h1.cache d _ hc
    rw [step_get]
    refine ⟨h2, ?_⟩
    simp only [answer, he, ok.err, ok.names]
    split
    · rename_i herr; rw [names_nil_of_dirErr herr]; rfl
    · rfl
  | sortedKeys d =>
    obtain ⟨h1, hc⟩ := doReadDir_spec h d
    have ok := h1.cache d _ hc
    rw [step_sortedKeys]
    refine ⟨doSortedKeys_spec h1 hc, ?_⟩
    simp only [answer, doSortedKeys_ans, ok.err, ok.names, isDir_iff_dirErr]
    cases (fs.dirErr d).isSome <;> rfl
  | kind d q =>
    obtain ⟨h1, hc⟩ := doReadDir_spec h d
    obtain ⟨h2, hc2, he⟩ := doGet_spec h1 hc q
    have ok := h1.cache d _ hc
    rw [step_kind]
    have hans : (kindMid fs st d q).2.2 = lookupLast (fs.names d) (lower q) := by
      unfold kindMid
      rw [he, ok.err, ok.names]
      split
      · rename_i herr; rw [names_nil_of_dirErr herr]; rfl
      · rfl
    cases hb : (kindMid fs st d q).2.2 with
    | none =>
      simp only
      refine ⟨h2, ?_⟩
      rw [hb] at hans
      simp only [answer, ← hans, ok.err, Option.map]
    | some b =>
      simp only
      obtain ⟨h3, hr⟩ := doStat_spec (fs := fs) h2 hc2 b
      refine ⟨h3, ?_⟩
      rw [hb] at hans
      unfold kindMid
      simp only [answer, ← hans, ok.err, Option.map, hr]
  | readFile p =>
    rw [step_readFile]; exact ⟨doReadFile_spec h p, rfl⟩
  | modKey p =>
    rw [step_modKey]; exact ⟨doModKey_spec h p, rfl⟩
  | cachedRead p =>
    rw [step_cachedRead]
    obtain ⟨h1, ha⟩ := doCachedRead_spec h p
    exact ⟨h1, by rw [ha]; rfl⟩

theorem recordAll_inv {fs : FS} (ops : List Op) : ∀ {st : St}, Inv fs st → Inv fs (recordAll fs st ops) := by
  induction ops with
  | nil => intro st h; exact h
  | cons op ops ih =>
    intro st h
    simp only [recordAll, List.foldl_cons]
    exact ih (step_spec h op).1

theorem answersOf_eq {fs : FS} (ops : List Op) : ∀ {st : St}, Inv fs st → answersOf fs st ops = ops.map (answer fs) := by
  induction ops with
  | nil => intro st _; rfl
  | cons op ops ih =>
    intro st h
    simp only [answersOf, List.map_cons]
    rw [(step_spec h op).2, ih (step_spec h op).1]

end EsbuildModel.Watch
