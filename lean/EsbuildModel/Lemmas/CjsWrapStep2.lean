import EsbuildModel.Lemmas.CjsWrapDyn
/-! Step 2 of `scanImportsAndExports` (`CjsWrap.step2`): for every order of the files it never panics on a
well-formed table, marks exactly the files `Touched` (reachable from a file wrapped by step 1 or from an imported
CommonJS file, not continuing through the runtime), and makes dynamic exactly the non-dynamic files with a chain of
`export *` to a dynamic or external module. `b` is the table at the start of step 2. -/
namespace EsbuildModel.CjsWrap

/-- the files `recursivelyWrapDependencies` is (transitively) called on during step 2 -/
inductive Touched (b : Files) : Nat → Prop
  | wrapped {x : Nat} {f : File} : b[x]? = some f → f.wrap ≠ .none → Touched b x
  | cjs {x j : Nat} {f : File} : b[x]? = some f → f.kind = .cjs → Edge b j x → Touched b x
  | step {y x : Nat} : Touched b y → ¬ Rt b y → Edge b y x → Touched b x

theorem Touched.of_reach {b : Files} {i x : Nat} (hi : Touched b i) (h : Reach b i x) : Touched b x := by
  induction h with
  | refl => exact hi
  | step _ hr he ih => exact .step ih hr he

/-- no file is marked yet -/
def NoDid (b : Files) : Prop := ∀ (i : Nat) (f : File), b[i]? = some f → f.didWrap = false

structure I2 (o : Opts) (b fs : Files) : Prop where
  st : St b fs
  rc : PW RC b fs
  closed : ∀ x, Did fs x → ¬ Rt b x → ∀ t, Edge b x t → Did fs t
  soundD : ∀ x, Did fs x → Touched b x
  soundK : ∀ x, Dy fs x → Dy b x ∨ DS o b b x

theorem I2.init {o : Opts} {b : Files} (h : NoDid b) : I2 o b b := by
  refine ⟨St.refl b, PW.rfl' RC.rfl' b, ?_, ?_, fun _ h => Or.inl h⟩
  · rintro x ⟨f, hf, hd⟩; rw [h x f hf] at hd; cases hd
  · rintro x ⟨f, hf, hd⟩; rw [h x f hf] at hd; cases hd

theorem PW_RC_trans {a b c : Files} (h1 : PW RC a b) (h2 : PW RC b c) : PW RC a c := PW.trans RC.trans' h1 h2

theorem Dy.of_R2 {fs fs' : Files} (h : PW R2 fs fs') {x : Nat} (hd : Dy fs' x) : Dy fs x := by
  obtain ⟨f', hf', hk⟩ := hd
  obtain ⟨f, hf, hr⟩ := h.get' hf'
  exact ⟨f, hf, by rw [← hr.2]; exact hk⟩

theorem Did.of_RD {fs fs' : Files} (h : PW RD fs fs') {x : Nat} (hd : Did fs' x) : Did fs x := by
  obtain ⟨f', hf', hk⟩ := hd
  obtain ⟨f, hf, hr⟩ := h.get' hf'
  exact ⟨f, hf, by rw [← hr.2.1]; exact hk⟩

theorem undone_le_length (fs : Files) : undone fs ≤ fs.length := List.countP_le_length

/-- a call of `recursivelyWrapDependencies` from the loop of step 2 -/
theorem wrapDeps_step {o : Opts} {b fs : Files} (hwf : WF b) (hI : I2 o b fs) {x : Nat} (hx : x < fs.length)
    (ht : Touched b x) :
    ∃ fs', wrapDeps (b.length + 1) fs x = some fs' ∧ I2 o b fs' ∧ PW RC fs fs' ∧ Did fs' x := by
  obtain ⟨fs', e, p⟩ := wrapDeps_post hwf (b.length + 1) x fs hI.st hx
    (Nat.lt_succ_of_le (hI.st.1 ▸ undone_le_length fs))
  have hrc := PW_R2_RC p.rel
  refine ⟨fs', e, ⟨hI.st.step2 p.rel, PW_RC_trans hI.rc hrc, ?_, ?_, ?_⟩, hrc, p.did⟩
  · intro y hy hrt t he
    by_cases hy0 : Did fs y
    · exact Did.mono hrc (hI.closed y hy0 hrt t he)
    · exact p.closed y hy hy0 hrt t he
  · intro y hy
    by_cases hy0 : Did fs y
    · exact hI.soundD y hy0
    · exact ht.of_reach (p.sound y hy hy0)
  · intro y hy
    exact hI.soundK y (Dy.of_R2 p.rel hy)

theorem DS.mono {o : Opts} {b fs fs' : Files} (h : ∀ y, Dy fs y → Dy fs' y ∨ DS o b fs' y) {x : Nat}
    (hx : DS o b fs x) : DS o b fs' x := by
  induction hx with
  | ext he => exact .ext he
  | base hs hd =>
    rcases h _ hd with hd' | hd'
    · exact .base hs hd'
    · exact .step hs hd'
  | step hs _ ih => exact .step hs ih

/-- a call of `hasDynamicExportsDueToExportStar` with a fresh `visited` map from the loop of step 2 -/
theorem hasDyn_step {o : Opts} {b fs : Files} (hwf : WF b) (hI : I2 o b fs) {i : Nat} (hi : i < fs.length) :
    ∃ r, hasDyn o (b.length + 1) fs [] i = some r ∧ I2 o b r.fs ∧ PW RC fs r.fs ∧ (DS o b b i → Dy r.fs i) := by
  have hlen : fs.length = b.length := hI.st.1.symm
  obtain ⟨r, e, p⟩ := hasDyn_post (o := o) hwf (b.length + 1) i fs [] hI.st (hlen ▸ hi)
    ⟨List.nodup_nil, by simp⟩ (by simp)
  have hrc := PW_RD_RC p.rel
  refine ⟨r, e, ⟨hI.st.stepD p.rel, PW_RC_trans hI.rc hrc, ?_, ?_, ?_⟩, hrc, ?_⟩
  · intro y hy hrt t he
    exact Did.mono hrc (hI.closed y (Did.of_RD p.rel hy) hrt t he)
  · intro y hy
    exact hI.soundD y (Did.of_RD p.rel hy)
  · intro y hy
    rcases p.sound y hy with hd | hd
    · exact hI.soundK y hd
    · exact Or.inr (DS.mono hI.soundK hd)
  · intro hds
    have hds' : DS o b fs i := DS.mono (fun y hy => Or.inl (Dy.mono hI.rc hy)) hds
    exact (hasDyn_root p).2 ((hasDyn_root p).1.2 (Or.inr hds'))

/-- the wrapper of a file can only change from "none" -/
theorem wrap_ne_none_of_rc {f1 f : File} {i : Nat} (h : RC i f1 f) (hw : f1.wrap ≠ .none) : f.wrap ≠ .none := by
  rcases h.2.2.2.2 with ⟨_, e⟩ | ⟨_, _, e⟩
  · rw [e]; exact hw
  · rw [e, wrapOf_eq]
    split
    · exact hw
    · simp [hw]

/-- `if repr.Meta.Wrap != graph.WrapNone { c.recursivelyWrapDependencies(sourceIndex) }` -/
theorem phase1 {o : Opts} {b fs : Files} (hwf : WF b) (hI : I2 o b fs) {i : Nat} {f : File} (hf : fs[i]? = some f) :
    ∃ fsA, (if (f.wrap != .none) = true then wrapDeps (b.length + 1) fs i else some fs) = some fsA ∧ I2 o b fsA ∧
      PW RC fs fsA ∧ (∀ f1 : File, b[i]? = some f1 → f1.wrap ≠ .none → Did fsA i) := by
  obtain ⟨f1, h1, hr⟩ := hI.rc.get' hf
  by_cases hw : f.wrap = .none
  · have : (f.wrap != .none) = false := by simp [hw]
    simp only [this, Bool.false_eq_true, if_false]
    refine ⟨fs, rfl, hI, PW.rfl' RC.rfl' _, ?_⟩
    intro f1' h1' hw1
    rw [h1] at h1'; injection h1' with h1'; subst h1'
    exact absurd hw (wrap_ne_none_of_rc hr hw1)
  · have : (f.wrap != .none) = true := by simpa using hw
    simp only [this, if_true]
    have ht : Touched b i := by
      rcases hr.2.2.2.2 with ⟨_, e⟩ | ⟨_, e, _⟩
      · exact .wrapped h1 (by rw [← e]; exact hw)
      · exact hI.soundD i ⟨f, hf, e⟩
    obtain ⟨fsA, e, hIA, hrc, hd⟩ := wrapDeps_step hwf hI (lt_of_get hf) ht
    exact ⟨fsA, e, hIA, hrc, fun _ _ _ => hd⟩

theorem not_DS_of_no_stars {o : Opts} {b fs : Files} {i : Nat} {f1 : File} (h1 : b[i]? = some f1)
    (he : f1.stars = []) : ¬ DS o b fs i := by
  intro h
  cases h with
  | ext h' =>
    obtain ⟨g, s, _, hg, hs, _⟩ := h'
    rw [h1] at hg; injection hg with hg; subst hg
    rw [he] at hs; cases hs
  | base h' _ =>
    obtain ⟨g, s, _, hg, hs, _⟩ := h'
    rw [h1] at hg; injection hg with hg; subst hg
    rw [he] at hs; cases hs
  | step h' _ =>
    obtain ⟨g, s, _, hg, hs, _⟩ := h'
    rw [h1] at hg; injection hg with hg; subst hg
    rw [he] at hs; cases hs

/-- `if len(repr.AST.ExportStarImportRecords) > 0 { c.hasDynamicExportsDueToExportStar(sourceIndex, visited) }` -/
theorem phase2 {o : Opts} {b fs : Files} (hwf : WF b) (hI : I2 o b fs) {i : Nat} {f1 : File} (h1 : b[i]? = some f1) :
    ∃ fsB, (if (!f1.stars.isEmpty) = true then (hasDyn o (b.length + 1) fs [] i).map (·.fs) else some fs) = some fsB ∧
      I2 o b fsB ∧ PW RC fs fsB ∧ (DS o b b i → Dy fsB i) := by
  by_cases he : f1.stars = []
  · simp only [he, List.isEmpty_nil, Bool.not_true, Bool.false_eq_true, if_false]
    exact ⟨fs, rfl, hI, PW.rfl' RC.rfl' _, fun h => absurd h (not_DS_of_no_stars h1 he)⟩
  · have : (!f1.stars.isEmpty) = true := by simpa using he
    simp only [this, if_true]
    obtain ⟨r, e, hIB, hrc, hd⟩ := hasDyn_step hwf hI (i := i) (by rw [← hI.st.1]; exact lt_of_get h1)
    exact ⟨r.fs, by simp [e], hIB, hrc, hd⟩

/-- one iteration of the last loop of step 2 -/
theorem wrapCjsTarget_step {o : Opts} {b fs : Files} (hwf : WF b) (hI : I2 o b fs) {i : Nat} {f1 : File}
    (h1 : b[i]? = some f1) {r : Rec} (hr : r ∈ f1.recs) :
    ∃ fs', wrapCjsTarget (b.length + 1) fs r = some fs' ∧ I2 o b fs' ∧ PW RC fs fs' ∧
      (∀ (t : Nat) (ft : File), r.target = some t → b[t]? = some ft → ft.kind = .cjs → Did fs' t) := by
  unfold wrapCjsTarget
  cases ht : r.target with
  | none => exact ⟨fs, rfl, hI, PW.rfl' RC.rfl' _, fun t _ h => by cases h⟩
  | some t =>
    have htlt : t < fs.length := by rw [← hI.st.1]; exact (hwf i f1 h1).1 r hr t ht
    obtain ⟨tf, htf⟩ := get_of_lt htlt
    obtain ⟨ft, hft, hrt⟩ := hI.rc.get' htf
    simp only [htf]
    by_cases hk : tf.kind = .cjs
    · have : (tf.kind == .cjs) = true := by simp [hk]
      simp only [this, if_true]
      have htch : Touched b t := .cjs hft (hrt.cjs_iff.1 hk) ⟨f1, r, h1, hr, ht⟩
      obtain ⟨fs', e, hI', hrc, hd⟩ := wrapDeps_step hwf hI htlt htch
      refine ⟨fs', e, hI', hrc, ?_⟩
      intro t' _ ht' _ _
      injection ht' with ht'; subst ht'
      exact hd
    · have : (tf.kind == .cjs) = false := by simp [hk]
      simp only [this, Bool.false_eq_true, if_false]
      refine ⟨fs, rfl, hI, PW.rfl' RC.rfl' _, ?_⟩
      intro t' ft' ht' hft' hkc
      injection ht' with ht'; subst ht'
      rw [hft] at hft'; injection hft' with hft'; subst hft'
      exact absurd (hrt.cjs_iff.2 hkc) hk

/-- what the visit of file `i` by the loop of step 2 establishes for good -/
structure Done2 (o : Opts) (b : Files) (i : Nat) (fs : Files) : Prop where
  p1 : ∀ f1 : File, b[i]? = some f1 → f1.wrap ≠ .none → Did fs i
  p2 : ∀ (t : Nat) (ft : File), Edge b i t → b[t]? = some ft → ft.kind = .cjs → Did fs t
  p3 : DS o b b i → Dy fs i

theorem Done2.mono {o : Opts} {b : Files} (i : Nat) (a c : Files) (h : PW RC a c) (d : Done2 o b i a) : Done2 o b i c :=
  ⟨fun f1 h1 hw => Did.mono h (d.p1 f1 h1 hw), fun t ft he hft hk => Did.mono h (d.p2 t ft he hft hk),
    fun hd => Dy.mono h (d.p3 hd)⟩

theorem step2File_ok {o : Opts} {b fs : Files} (hwf : WF b) (hI : I2 o b fs) {i : Nat} (hi : i < b.length) :
    ∃ fs', step2File o (b.length + 1) fs i = some fs' ∧ I2 o b fs' ∧ PW RC fs fs' ∧ Done2 o b i fs' := by
  obtain ⟨f, hf⟩ := get_of_lt (fs := fs) (i := i) (by rw [← hI.st.1]; exact hi)
  obtain ⟨f1, h1, _⟩ := hI.st.get hf
  obtain ⟨hrecs, _, hstars, _⟩ := hI.st.recs h1 hf
  obtain ⟨fsA, eA, hIA, rcA, dA⟩ := phase1 hwf hI hf
  obtain ⟨fsB, eB, hIB, rcB, dB⟩ := phase2 hwf hIA h1
  obtain ⟨fsC, eC, hIC, rcC, dC⟩ := forM_all (f := wrapCjsTarget (b.length + 1)) (P := I2 o b) (Q := PW RC)
    (D := fun r fs' => ∀ (t : Nat) (ft : File), r.target = some t → b[t]? = some ft → ft.kind = .cjs → Did fs' t)
    (PW.rfl' RC.rfl') (fun _ _ _ => PW_RC_trans)
    (fun r a c hq hd t ft ht hft hk => Did.mono hq (hd t ft ht hft hk)) f1.recs
    (fun a r hr hIa => wrapCjsTarget_step hwf hIa h1 hr) fsB hIB
  refine ⟨fsC, ?_, hIC, PW_RC_trans rcA (PW_RC_trans rcB rcC), ?_⟩
  · unfold step2File
    simp only [hf]
    simp only [bne_iff_ne, ne_eq, ite_not] at eA ⊢
    rw [hstars, hrecs]
    simp only [Bool.not_eq_true'] at eB ⊢
    split at eA
    · rename_i hw
      simp only [hw, if_true]
      injection eA with eA; subst eA
      simp only [eB, eC]
    · rename_i hw
      simp only [hw, if_false, eA]
      simp only [eB, eC]
  · refine ⟨fun f1' h1' hw => Did.mono (PW_RC_trans rcB rcC) (dA f1' h1' hw), ?_, fun hd => Dy.mono rcC (dB hd)⟩
    rintro t ft ⟨g, r, hg, hr, ht⟩ hft hk
    rw [h1] at hg; injection hg with hg; subst hg
    exact dC r hr t ft ht hft hk

theorem step2_ok {o : Opts} {b : Files} {order : List Nat} (hwf : WF b) (hnd : NoDid b)
    (hord : ∀ i ∈ order, i < b.length) :
    ∃ fs2, step2 o order b = some fs2 ∧ I2 o b fs2 ∧ ∀ i ∈ order, Done2 o b i fs2 := by
  obtain ⟨fs2, e, hI, _, hd⟩ := forM_all (f := step2File o (b.length + 1)) (P := I2 o b) (Q := PW RC)
    (D := Done2 o b) (PW.rfl' RC.rfl') (fun _ _ _ => PW_RC_trans) Done2.mono order
    (fun a i hi hIa => step2File_ok hwf hIa (hord i hi)) b (I2.init hnd)
  exact ⟨fs2, e, hI, hd⟩

/-- **What step 2 computes**, for every order of the files. -/
theorem step2_spec {o : Opts} {b fs2 : Files} {order : List Nat} (hwf : WF b) (hnd : NoDid b)
    (hcov : Covers order b) (h : step2 o order b = some fs2) :
    fs2.length = b.length ∧ ∀ (i : Nat) (f1 f2 : File), b[i]? = some f1 → fs2[i]? = some f2 →
      f2.static = f1.static ∧ f2.force = f1.force ∧ f2.needsExportsVar = f1.needsExportsVar ∧
      (f2.didWrap = true ↔ Touched b i) ∧
      (Touched b i → f2.wrap = wrapOf f1) ∧ (¬ Touched b i → f2.wrap = f1.wrap) ∧
      (Dy b i → f2.kind = f1.kind) ∧ (¬ Dy b i → DS o b b i → f2.kind = .dyn) ∧
      (¬ Dy b i → ¬ DS o b b i → f2.kind = f1.kind) := by
  obtain ⟨fs2', e, hI, hdone⟩ := step2_ok (o := o) hwf hnd hcov.1
  rw [h] at e; injection e with e; subst e
  refine ⟨hI.st.1.symm, ?_⟩
  intro i f1 f2 h1 h2
  have hdone' : ∀ j, j < b.length → Done2 o b j fs2 := fun j hj => hdone j (hcov.2 j hj)
  have hrc := hI.rc.2 i f1 f2 h1 h2
  have hdid : ∀ x, Touched b x → Did fs2 x := by
    intro x hx
    induction hx with
    | wrapped hb hw => exact (hdone' _ (lt_of_get hb)).p1 _ hb hw
    | cjs hb hk he =>
      have he' := he
      obtain ⟨g, _, hg, _, _⟩ := he'
      exact (hdone' _ (lt_of_get hg)).p2 _ _ he hb hk
    | step _ hr he ih => exact hI.closed _ ih hr _ he
  have hdidiff : f2.didWrap = true ↔ Touched b i := by
    constructor
    · intro hd; exact hI.soundD i ⟨f2, h2, hd⟩
    · intro ht
      obtain ⟨g, hg, hgd⟩ := hdid i ht
      rw [h2] at hg; injection hg with hg; subst hg
      exact hgd
  have hd1 : f1.didWrap = false := hnd i f1 h1
  obtain ⟨hs, hf, hn, hk, hw⟩ := hrc
  refine ⟨hs, hf, hn, hdidiff, ?_, ?_, ?_, ?_, ?_⟩
  · intro ht
    rcases hw with ⟨d, _⟩ | ⟨_, _, e⟩
    · rw [hd1] at d
      rw [hdidiff.2 ht] at d; cases d
    · exact e
  · intro hnt
    rcases hw with ⟨_, e⟩ | ⟨_, d, _⟩
    · exact e
    · exact absurd (hdidiff.1 d) hnt
  · intro hdy
    rcases hk with e | ⟨n1, n2, _⟩
    · exact e
    · obtain ⟨g, hg, hgk⟩ := hdy
      rw [h1] at hg; injection hg with hg; subst hg
      rcases hgk with hgk | hgk
      · exact absurd hgk n1
      · exact absurd hgk n2
  · intro hndy hds
    obtain ⟨g, hg, hgk⟩ := (hdone' i (lt_of_get h1)).p3 hds
    rw [h2] at hg; injection hg with hg; subst hg
    rcases hgk with hgk | hgk
    · exfalso
      apply hndy
      refine ⟨f1, h1, Or.inl ?_⟩
      rcases hk with e | ⟨_, _, e⟩
      · rw [← e]; exact hgk
      · rw [e] at hgk; cases hgk
    · exact hgk
  · intro hndy hnds
    rcases hk with e | ⟨_, _, e⟩
    · exact e
    · exfalso
      rcases hI.soundK i ⟨f2, h2, Or.inr e⟩ with hd | hd
      · exact hndy hd
      · exact hnds hd

end EsbuildModel.CjsWrap
