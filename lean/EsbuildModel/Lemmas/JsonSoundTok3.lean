import EsbuildModel.Lemmas.JsonSoundPos
import EsbuildModel.Lemmas.JsonSoundNumTs
/-
Soundness for tokens: what each token `lexAt` can hand to the parser says about the input.
-/
namespace EsbuildModel.Json
open EsbuildModel.Spec.Json EsbuildModel.Spec.NumLit EsbuildModel.LexNum

/-- what the token of `L`, lexed at the head of `inp`, says about `inp` -/
def TokFacts (fl : Flavor) (Rd : Rat → F64) (inp : List Cp) (L : Lx) : Prop :=
  match L.tok with
  | .other => True
  | .eof => inp = []
  | .openBracket => chars inp = '[' :: chars L.rest
  | .closeBracket => chars inp = ']' :: chars L.rest
  | .openBrace => chars inp = '{' :: chars L.rest
  | .closeBrace => chars inp = '}' :: chars L.rest
  | .comma => chars inp = ',' :: chars L.rest
  | .colon => chars inp = ':' :: chars L.rest
  | .minus => chars inp = '-' :: chars L.rest ∧ (fl = .json → headIs L.rest (fun d => d == '.' || isDigit d) = true)
  | .tTrue => chars inp = ['t', 'r', 'u', 'e'] ++ chars L.rest
  | .tFalse => chars inp = ['f', 'a', 'l', 's', 'e'] ++ chars L.rest
  | .tNull => chars inp = ['n', 'u', 'l', 'l'] ++ chars L.rest
  | .str => ∀ us L', stringLiteral fl L = .ok (us, L') →
      ∃ cs, strOk (dialectOf fl) cs = true ∧ chars inp = strTok cs ++ chars L.rest ∧ us = strUnits cs ∧ L'.view = L.view
  | .num => ∃ lit, JNum.ok (dialectOf fl) ⟨false, [], lit⟩ = true ∧ chars inp = lit.render ++ chars L.rest ∧
      L.number = Rd lit.mv

theorem jnum_ok_ts {lit : Lit} (h1 : lit.valid = true) (h2 : lit.isBig = false) (h3 : legacyIntWithTail lit = false) :
    JNum.ok esbuildTsconfig ⟨false, [], lit⟩ = true := by
  simp [JNum.ok, esbuildTsconfig, h1, h2, h3]

theorem lexNumber_sound {P : Params} {Rd : Rat → F64} (hP : ParamsOK P Rd) {fl : Flavor} {L0 : Lx} {sk : Sk} {src : List Cp}
    {L : Lx} (h : lexNumber fl P L0 sk src = .ok L) :
    L.tok = .other ∨ (L.tok = .num ∧ L.log = sk.log ∧ L.nl = sk.nl ∧ Suf L.rest src ∧ 0 < L.end_ ∧
      ∃ lit, JNum.ok (dialectOf fl) ⟨false, [], lit⟩ = true ∧ lit.render ≠ [] ∧ chars src = lit.render ++ chars L.rest ∧
        L.number = Rd lit.mv) := by
  unfold lexNumber at h
  cases hl : lexNum P.num (chars src) with
  | num len v lg =>
    rw [hl] at h
    simp only at h
    split at h
    · cases h
    · rename_i hb
      cases h
      right
      obtain ⟨l, l1, l2, l3, l4, _⟩ := lexNum_num_sound hP.num hl
      have hlen := (lexNum_len_pos hP.num (src := chars src)).1 len v lg hl
      have hok : JNum.ok (dialectOf fl) ⟨false, [], l⟩ = true := by
        cases fl with
        | json =>
          have hbad : jsonNumBad l.render = false := by
            cases hj : jsonNumBad l.render with
            | false => rfl
            | true => rw [l3] at hj; exact absurd ⟨rfl, hj⟩ hb
          simp [JNum.ok, dialectOf, rfcLit_of_notBad l1 l2 hbad]
        | tsconfig => exact jnum_ok_ts l1 l2 (lexNum_no_tail hl l1 l3)
      refine ⟨rfl, rfl, rfl, Suf.drop _ _, by simp only [Lx.at]; omega, l, hok, lit_render_ne_nil l1, ?_, l4⟩
      simp only [Lx.at]
      rw [l3]
      simp only [chars, ← List.map_take, ← List.map_drop, ← List.map_append, List.take_append_drop]
  | big len t lg => rw [hl] at h; cases h; left; rfl
  | dot => rw [hl] at h; cases h; left; rfl
  | dotDotDot => rw [hl] at h; cases h; left; rfl
  | err p => rw [hl] at h; cases h
  | notNumeric => rw [hl] at h; cases h

theorem lexString_shape {fl : Flavor} {L0 : Lx} {sk : Sk} {q : Cp} {r : List Cp} {L : Lx}
    (h : lexString fl L0 sk q r = .ok L) :
    (L.tok = .str ∨ L.tok = .other) ∧ Suf L.rest r ∧ sk.pos + q.w ≤ L.end_ := by
  unfold lexString at h
  split at h
  · cases h
  · cases h
  · rename_i text rest e slow hscan
    obtain ⟨h1, h2⟩ := scanStr_suf fl q.c r _ _ _ _ _ hscan
    simp only at h
    split at h <;> cases h <;> refine ⟨?_, h1, h2⟩ <;> simp only [Lx.at] <;> split <;> simp

theorem lexIdent_shape {fl : Flavor} {P : Params} {L0 : Lx} {sk : Sk} {c : Cp} {r : List Cp} {L : Lx}
    (h : lexIdent fl P L0 sk false [c] r = .ok L) (ht : L.tok ≠ .other) : Suf L.rest r ∧ sk.pos + c.w ≤ L.end_ := by
  unfold lexIdent at h
  simp only at h
  split at h
  · exact absurd (idEsc_other h) ht
  · cases h
    exact ⟨Suf.dropWhile _ _, by simp [Lx.at, widths]⟩

theorem tok_ne {a b : Tok} (h : a = b) (hb : b ≠ .other) : a ≠ .other := by rw [h]; exact hb

/-- **every token the lexer hands to the parser describes the input in front of it** -/
theorem lexAt_sound {P : Params} {Rd : Rat → F64} (hP : ParamsOK P Rd) {fl : Flavor} {L0 : Lx} {sk : Sk} {inp : List Cp} {L : Lx}
    (h : lexAt fl P L0 sk inp = .ok L) (hcl : sk.log.Clean) (hne : L.log.hasErrors = false) (hw : PosW inp) :
    TokFacts fl Rd inp L ∧ (L.tok ≠ .other → L.log = sk.log ∧ L.nl = sk.nl ∧ Suf L.rest inp ∧ (L.tok ≠ .eof → 0 < L.end_)) := by
  cases inp with
  | nil =>
    simp only [lexAt, R.ok.injEq] at h
    subst h
    exact ⟨by simp [TokFacts, Lx.at], fun _ => ⟨rfl, rfl, Suf.refl _, fun h => absurd rfl h⟩⟩
  | cons c r =>
    have hcw : 0 < c.w := hw c (by simp)
    by_cases hot : L.tok = .other
    · exact ⟨by simp [TokFacts, hot], fun h => absurd hot h⟩
    have key : TokFacts fl Rd (c :: r) L ∧ L.log = sk.log ∧ L.nl = sk.nl ∧ Suf L.rest r ∧ 0 < L.end_ := by
      cases lexAt_cases fl P L0 sk c r L h with
      | punct t ht hL =>
        subst hL
        refine ⟨?_, rfl, rfl, Suf.refl _, by simp only [Lx.at]; omega⟩
        rcases ht with ⟨h1, rfl⟩ | ⟨h1, rfl⟩ | ⟨h1, rfl⟩ | ⟨h1, rfl⟩ | ⟨h1, rfl⟩ | ⟨h1, rfl⟩ <;>
          simp [TokFacts, Lx.at, h1]
      | minus hc hL hj =>
        subst hL
        refine ⟨?_, rfl, rfl, Suf.refl _, by simp only [Lx.at]; omega⟩
        simp only [TokFacts, Lx.at, chars_cons, hc, true_and]
        exact hj
      | str hc hs =>
        obtain ⟨s1, s2, s3⟩ := lexString_shape hs
        have hst : L.tok = .str := by
          rcases s1 with s1 | s1
          · exact s1
          · exact absurd s1 hot
        obtain ⟨k1, k2, k3⟩ := lexString_sound hc hs hst hcl hne
        refine ⟨?_, k1, k2, s2, by omega⟩
        simp only [TokFacts, hst]
        exact k3
      | num hc hn =>
        rcases lexNumber_sound hP hn with h1 | ⟨h1, h2, h3, h4, h5, h6⟩
        · exact absurd h1 hot
        · refine ⟨?_, h2, h3, ?_, h5⟩
          · simp only [TokFacts, h1]
            obtain ⟨lit, l1, _, l2, l3⟩ := h6
            exact ⟨lit, l1, l2, l3⟩
          · obtain ⟨p, hp⟩ := h4
            cases p with
            | nil =>
              simp only [List.nil_append] at hp
              obtain ⟨lit, l1, hne', l2, _⟩ := h6
              rw [← hp] at l2
              have : (chars (c :: r)).length = (lit.render ++ chars (c :: r)).length := by rw [← l2]
              simp only [List.length_append] at this
              cases hr : lit.render with
              | nil => exact absurd hr hne'
              | cons a t => rw [hr] at this; simp at this
            | cons x p' =>
              simp only [List.cons_append, List.cons.injEq] at hp
              exact ⟨p', hp.2⟩
      | word hc hl =>
        obtain ⟨k1, k2, k3⟩ := lexIdent_word_sound hl hot
        obtain ⟨s1, s2⟩ := lexIdent_shape hl hot
        refine ⟨?_, k2, k3, s1, by omega⟩
        rcases k1 with ⟨t1, t2⟩ | ⟨t1, t2⟩ | ⟨t1, t2⟩ <;> simp only [TokFacts, t1] <;> exact t2
      | other ho => exact absurd ho hot
    obtain ⟨k1, k2, k3, k4, k5⟩ := key
    exact ⟨k1, fun _ => ⟨k2, k3, k4.cons c, fun _ => k5⟩⟩

end EsbuildModel.Json
