import EsbuildModel.Lemmas.WatchCover
/-! How one step changes the recording state: the caches and `watchKinds` only grow; `watchData` changes only at
the one path the operation names. -/
namespace EsbuildModel.Watch

structure Grow (st st' : St) : Prop where
  cache : ∀ d c, aget st.cache d = some c → ∃ c', aget st'.cache d = some c' ∧
    (∀ k, (aget c.acc.wasPresent k).isSome → (aget c'.acc.wasPresent k).isSome) ∧
    (c.acc.allEntries.isSome → c'.acc.allEntries.isSome)
  kinds : ∀ p, (aget st.kinds p).isSome → (aget st'.kinds p).isSome

theorem Grow.refl (st : St) : Grow st st := ⟨fun _ c h => ⟨c, h, fun _ h => h, fun h => h⟩, fun _ h => h⟩

theorem Grow.trans {a b c : St} (h₁ : Grow a b) (h₂ : Grow b c) : Grow a c := by
  refine ⟨?_, fun p h => h₂.kinds p (h₁.kinds p h)⟩
  intro d x hx
  obtain ⟨y, hy, hy1, hy2⟩ := h₁.cache d x hx
  obtain ⟨z, hz, hz1, hz2⟩ := h₂.cache d y hy
  exact ⟨z, hz, fun k h => hz1 k (hy1 k h), fun h => hz2 (hy2 h)⟩

/-- replacing the cache entry of `d` by a bigger one -/
theorem grow_setCache {st : St} {d : Path} {c c' : DirCache} (hc : aget st.cache d = some c)
    (h1 : ∀ k, (aget c.acc.wasPresent k).isSome → (aget c'.acc.wasPresent k).isSome)
    (h2 : c.acc.allEntries.isSome → c'.acc.allEntries.isSome) :
    Grow st { st with cache := aset st.cache d c' } := by
  refine ⟨?_, fun _ h => h⟩
  intro d' x hx
  by_cases hd : d = d'
  · subst hd
    rw [hc] at hx; cases hx
    exact ⟨c', by simp, h1, h2⟩
  · exact ⟨x, by simp [aget_aset, hd, hx], fun _ h => h, fun h => h⟩

theorem grow_doReadDir (fs : FS) (st : St) (d : Path) : Grow st (doReadDir fs st d).1 := by
  unfold doReadDir
  cases hc : aget st.cache d with
  | some c => exact Grow.refl st
  | none =>
    refine ⟨?_, fun _ h => h⟩
    intro d' x hx
    have hd : d ≠ d' := by intro h; subst h; rw [hc] at hx; cases hx
    exact ⟨x, by simp [aget_aset, hd, hx], fun _ h => h, fun h => h⟩

theorem grow_doGet {st : St} {d : Path} {c : DirCache} (hc : aget st.cache d = some c) (q : String) :
    Grow st (doGet st d c q).1 := by
  unfold doGet
  split
  · exact Grow.refl st
  · apply grow_setCache hc
    · intro k hk
      simp only [aget_aset]
      split
      · rfl
      · exact hk
    · exact fun h => h

theorem grow_doSortedKeys {st : St} {d : Path} {c : DirCache} (hc : aget st.cache d = some c) :
    Grow st (doSortedKeys st d c).1 := by
  unfold doSortedKeys
  split
  · exact Grow.refl st
  · exact grow_setCache hc (fun _ h => h) (fun _ => rfl)

theorem grow_doStat (fs : FS) {st : St} {d : Path} {c : DirCache} (hc : aget st.cache d = some c) (b : String) :
    Grow st (doStat fs st d c b).1 := by
  unfold doStat
  split
  · exact Grow.refl st
  · have h1 : Grow st { st with cache := aset st.cache d { c with statd := aset c.statd b (fs.kind (join d b)) } } :=
      grow_setCache hc (fun _ h => h) (fun h => h)
    refine ⟨h1.cache, ?_⟩
    intro p hp
    simp only [aget_aset]
    split
    · rfl
    · exact hp

theorem grow_doReadFile (fs : FS) (st : St) (p : Path) : Grow st (doReadFile fs st p).1 :=
  ⟨fun _ c h => ⟨c, h, fun _ h => h, fun h => h⟩, fun _ h => h⟩

theorem grow_doModKey (fs : FS) (st : St) (p : Path) : Grow st (doModKey fs st p).1 :=
  ⟨fun _ c h => ⟨c, h, fun _ h => h, fun h => h⟩, fun _ h => h⟩

theorem grow_fcStore (st : St) (p : Path) (k : KeyRes) (r : Except Err String) : Grow st (fcStore st p k r).1 := by
  unfold fcStore
  split
  · exact Grow.refl st
  · exact ⟨fun _ c h => ⟨c, h, fun _ h => h, fun h => h⟩, fun _ h => h⟩

theorem grow_doCachedRead (fs : FS) (st : St) (p : Path) : Grow st (doCachedRead fs st p).1 := by
  unfold doCachedRead
  simp only
  split
  · exact grow_doModKey fs st p
  · exact (grow_doModKey fs st p).trans ((grow_doReadFile fs _ p).trans (grow_fcStore _ p _ _))

theorem grow_step {fs : FS} {st : St} (h : Inv fs st) (op : Op) : Grow st (step fs st op).1 := by
  cases op with
  | readDir d => rw [step_readDir]; exact grow_doReadDir fs st d
  | get d q =>
    rw [step_get]
    exact (grow_doReadDir fs st d).trans (grow_doGet (doReadDir_spec h d).2 q)
  | sortedKeys d =>
    rw [step_sortedKeys]
    exact (grow_doReadDir fs st d).trans (grow_doSortedKeys (doReadDir_spec h d).2)
  | kind d q =>
    rw [step_kind]
    obtain ⟨h1, hc⟩ := doReadDir_spec h d
    obtain ⟨_, hc2, _⟩ := doGet_spec h1 hc q
    have g2 : Grow st (kindMid fs st d q).1 := (grow_doReadDir fs st d).trans (grow_doGet hc q)
    cases hb : (kindMid fs st d q).2.2 with
    | none => exact g2
    | some b => exact g2.trans (grow_doStat fs hc2 b)
  | readFile p => rw [step_readFile]; exact grow_doReadFile fs st p
  | modKey p => rw [step_modKey]; exact grow_doModKey fs st p
  | cachedRead p => rw [step_cachedRead]; exact grow_doCachedRead fs st p

theorem HasCache.grow {st st' : St} (g : Grow st st') {d : Path} (h : HasCache st d) : HasCache st' d := by
  unfold HasCache at h ⊢
  cases hc : aget st.cache d with
  | none => rw [hc] at h; cases h
  | some c => obtain ⟨c', hc', _⟩ := g.cache d c hc; rw [hc']; rfl

theorem HasWP.grow {st st' : St} (g : Grow st st') {d : Path} {k : String} (h : HasWP st d k) : HasWP st' d k := by
  obtain ⟨c, hc, hk⟩ := h
  obtain ⟨c', hc', h1, _⟩ := g.cache d c hc
  exact ⟨c', hc', h1 k hk⟩

theorem HasAll.grow {st st' : St} (g : Grow st st') {d : Path} (h : HasAll st d) : HasAll st' d := by
  obtain ⟨c, hc, hk⟩ := h
  obtain ⟨c', hc', _, h2⟩ := g.cache d c hc
  exact ⟨c', hc', h2 hk⟩

theorem HasKind.grow {st st' : St} (g : Grow st st') {p : Path} (h : HasKind st p) : HasKind st' p := g.kinds p h

/-! ### `watchData` changes only at the path the operation names -/
theorem doReadDir_hit {fs : FS} {st : St} {d : Path} {c : DirCache} (h : aget st.cache d = some c) :
    doReadDir fs st d = (st, c) := by
  unfold doReadDir; rw [h]

theorem doReadDir_watch_miss {fs : FS} {st : St} {d : Path} (h : aget st.cache d = none) (p : Path) :
    aget (doReadDir fs st d).1.watch p =
      match tReadDir (fs.dirErr d) (aget st.watch d) with
      | some data => if d = p then some data else aget st.watch p
      | none => aget st.watch p := by
  unfold doReadDir; rw [h]
  simp only
  cases tReadDir (fs.dirErr d) (aget st.watch d) with
  | none => rfl
  | some data => simp only [aget_aset]

theorem doReadDir_watch_ne {fs : FS} {st : St} {d p : Path} (h : d ≠ p) :
    aget (doReadDir fs st d).1.watch p = aget st.watch p := by
  cases hc : aget st.cache d with
  | some c => rw [doReadDir_hit hc]
  | none => rw [doReadDir_watch_miss hc]; split <;> simp [h]

theorem doGet_watch (st : St) (d : Path) (c : DirCache) (q : String) : (doGet st d c q).1.watch = st.watch := by
  unfold doGet; split <;> rfl
theorem doSortedKeys_watch (st : St) (d : Path) (c : DirCache) : (doSortedKeys st d c).1.watch = st.watch := by
  unfold doSortedKeys; split <;> rfl
theorem doStat_watch (fs : FS) (st : St) (d : Path) (c : DirCache) (b : String) : (doStat fs st d c b).1.watch = st.watch := by
  unfold doStat; split <;> rfl
theorem fcStore_watch (st : St) (p : Path) (k : KeyRes) (r : Except Err String) : (fcStore st p k r).1.watch = st.watch := by
  unfold fcStore; split <;> rfl

theorem doReadFile_watch (fs : FS) (st : St) (p p' : Path) :
    aget (doReadFile fs st p).1.watch p' = if p = p' then some (tReadFile (fs.readFile p) (aget st.watch p)) else aget st.watch p' := by
  unfold doReadFile; simp [aget_aset]

theorem doModKey_watch (fs : FS) (st : St) (p p' : Path) :
    aget (doModKey fs st p).1.watch p' = if p = p' then some (tModKey (fs.modKey p) (aget st.watch p)) else aget st.watch p' := by
  unfold doModKey; simp [aget_aset]

theorem step_watch_D {fs : FS} {st : St} {op : Op} {d : Path} (h : dirOf op = some d) :
    (step fs st op).1.watch = (doReadDir fs st d).1.watch := by
  cases op <;> simp only [dirOf, Option.some.injEq, reduceCtorEq] at h <;> subst h
  · rfl
  · rw [step_get]; exact doGet_watch _ _ _ _
  · rw [step_sortedKeys]; exact doSortedKeys_watch _ _ _
  · rename_i d' q
    rw [step_kind]
    have : (kindMid fs st d' q).1.watch = (doReadDir fs st d').1.watch := doGet_watch _ _ _ _
    split
    · exact this
    · simp only; rw [doStat_watch]; exact this

/-- the three shapes of the new `watchData[p]` after `FSCache.ReadFile(p)` -/
theorem doCachedRead_watch (fs : FS) (st : St) (p p' : Path) :
    aget (doCachedRead fs st p).1.watch p' =
      if p = p' then
        (match fcHit (aget st.fcache p) (fs.modKey p) with
         | some _ => some (tModKey (fs.modKey p) (aget st.watch p))
         | none => some (tReadFile (fs.readFile p) (some (tModKey (fs.modKey p) (aget st.watch p)))))
      else aget st.watch p' := by
  unfold doCachedRead
  simp only [doModKey_ans]
  cases hh : fcHit (aget st.fcache p) (fs.modKey p) with
  | some c => simp only; rw [doModKey_watch]
  | none =>
    simp only
    rw [fcStore_watch, doReadFile_watch, doModKey_watch]
    by_cases h : p = p'
    · simp [h]
    · simp [h, doModKey_watch]

theorem step_watch_other {fs : FS} {st : St} {op : Op} {p : Path}
    (hd : dirOf op ≠ some p) (hr : readOf op ≠ some p) (hm : op ≠ .modKey p) :
    aget (step fs st op).1.watch p = aget st.watch p := by
  cases hop : dirOf op with
  | some d =>
    rw [step_watch_D hop]
    apply doReadDir_watch_ne
    intro h; subst h; exact hd hop
  | none =>
    cases op with
    | readDir d => simp [dirOf] at hop
    | get d q => simp [dirOf] at hop
    | sortedKeys d => simp [dirOf] at hop
    | kind d q => simp [dirOf] at hop
    | readFile p' =>
      rw [step_readFile, doReadFile_watch]
      have : p' ≠ p := by intro h; subst h; exact hr rfl
      simp [this]
    | modKey p' =>
      rw [step_modKey, doModKey_watch]
      have : p' ≠ p := by intro h; subst h; exact hm rfl
      simp [this]
    | cachedRead p' =>
      rw [step_cachedRead, doCachedRead_watch]
      have : p' ≠ p := by intro h; subst h; exact hr rfl
      simp [this]

end EsbuildModel.Watch
