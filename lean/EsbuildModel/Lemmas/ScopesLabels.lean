import EsbuildModel.Lemmas.ScopesVisit
import EsbuildModel.Lemmas.ScopesSyms
/-!
Label symbols: the visit pass creates one fresh symbol of kind SymbolLabel per label scope, never marks it
MustNotBeRenamed and never declares it anywhere else.
-/
namespace EsbuildModel.Scopes

theorem SUpd.pinMembers {L0 : Nat} (f : Frame) : ∀ (syms : Syms),
    (∀ m, m ∈ refsOf f.members → m < L0 ∨ NotLab syms m) → SUpd L0 syms (pinMembers f syms) := by
  unfold Scopes.pinMembers
  split
  · generalize f.members = ms
    induction ms with
    | nil => intro syms _; exact SUpd.refl _ _
    | cons x xs ih =>
      intro syms h
      simp only [List.foldl_cons]
      have h1 : SUpd L0 syms (Scopes.pin syms x.2) := SUpd.pin (h x.2 (by simp [refsOf]))
      refine h1.trans (ih _ ?_)
      intro m hm
      rcases h m (by simp only [refsOf, List.map_cons, List.mem_cons]; exact Or.inr (by simpa [refsOf] using hm)) with h2 | h2
      · exact Or.inl h2
      · exact Or.inr (h1.notLab h2)
  · intro syms _; exact SUpd.refl _ _

theorem SUpd.pinChain {L0 : Nat} : ∀ (fuel : Nat) (syms : Syms) (t : Option Nat) (syms' : Syms),
    pinChain fuel syms t = some syms' → LinksOld L0 syms → (∀ x, t = some x → x < L0) → SUpd L0 syms syms'
  | _, syms, none, syms', h, _, _ => by simp [Scopes.pinChain] at h; subst h; exact SUpd.refl _ _
  | 0, _, some _, _, h, _, _ => by simp [Scopes.pinChain] at h
  | fuel + 1, syms, some t, syms', h, hl, ht => by
    simp only [Scopes.pinChain] at h
    split at h
    · cases h
    · next s hs =>
      have h1 : SUpd L0 syms (Scopes.pin syms t) := SUpd.pin (Or.inl (ht t rfl))
      exact h1.trans (SUpd.pinChain fuel _ _ _ h (h1.links hl) (fun x hx => hl t s x hs hx))

theorem relinkFns_spec {L0 : Nat} (ev : Bool) : ∀ (l : List Nat) (st st' : VSt), relinkFns ev l st = some st' →
    LinksOld L0 st.syms → (∀ r, r ∈ l → r < L0) →
    SUpd L0 st.syms st'.syms ∧ st'.refs = st.refs ∧ st'.declRefs = st.declRefs
  | [], st, st', h, _, _ => by simp [relinkFns] at h; subst h; exact ⟨SUpd.refl _ _, rfl, rfl⟩
  | r :: rest, st, st', h, hl, hr => by
    simp only [relinkFns] at h
    have hrest : ∀ x, x ∈ rest → x < L0 := fun x hx => hr x (by simp [hx])
    split at h
    · cases h
    · split at h
      · exact relinkFns_spec ev rest st st' h hl hrest
      · next hh _ =>
        split at h
        · cases h
        · next hs hhs =>
          split at h
          · split at h
            · cases h
            · next syms1 hp =>
              have h0 : SUpd L0 st.syms (Scopes.pin st.syms r) := SUpd.pin (Or.inl (hr r (by simp)))
              have h1 := SUpd.pinChain _ _ _ _ hp (h0.links hl) (fun x hx => hl hh hs x hhs hx)
              have h2 : SUpd L0 syms1 (setLink syms1 hh (some r)) := SUpd.setLink _ _ (hr r (by simp))
              obtain ⟨h3, h4, h5⟩ := relinkFns_spec ev rest _ st' h (h2.links (h1.links (h0.links hl))) hrest
              exact ⟨((h0.trans h1).trans h2).trans h3, h4, h5⟩
          · exact relinkFns_spec ev rest st st' h hl hrest

theorem mergeSymbols_spec {L0 : Nat} : ∀ (fuel : Nat) (syms : Syms) (a b : Nat) (syms' : Syms) (r : Nat),
    mergeSymbols fuel syms a b = some (syms', r) → LinksOld L0 syms → b < L0 → SUpd L0 syms syms' ∧ r < L0
  | 0, _, _, _, _, _, h, _, _ => by simp [mergeSymbols] at h
  | fuel + 1, syms, a, b, syms', r, h, hl, hb => by
    simp only [mergeSymbols] at h
    split at h
    · cases h; exact ⟨SUpd.refl _ _, hb⟩
    · split at h
      · next os ns hos hns =>
        split at h
        · next l hol =>
          split at h
          · cases h
          · next s1 r1 h1 =>
            cases h
            obtain ⟨u, hr⟩ := mergeSymbols_spec fuel _ _ _ _ _ h1 hl hb
            exact ⟨u.trans (SUpd.setLink _ _ hr), hr⟩
        · split at h
          · next l hnl =>
            split at h
            · cases h
            · next s1 r1 h1 =>
              cases h
              obtain ⟨u, hr⟩ := mergeSymbols_spec fuel _ _ _ _ _ h1 hl (hl b ns l hns hnl)
              exact ⟨u.trans (SUpd.setLink _ _ hr), hr⟩
          · have u1 : SUpd L0 syms (setLink syms a (some b)) := SUpd.setLink _ _ hb
            split at h
            · cases h
              refine ⟨u1.trans (SUpd.modify L0 _ b _ (fun _ => rfl) (fun _ h1 _ _ => by omega) (fun s x hx => Or.inl hx)), hb⟩
            · cases h; exact ⟨u1, hb⟩
      · cases h

theorem classEpilogue_spec {L0 : Nat} {ev : Bool} {cls : Option ClsInfo} {st st' : VSt}
    (h : classEpilogue ev cls st = some st') (hl : LinksOld L0 st.syms) (hn : ∀ ci, cls = some ci → ci.nameRef < L0) :
    SUpd L0 st.syms st'.syms ∧ st'.refs = st.refs ∧ st'.declRefs = st.declRefs := by
  unfold classEpilogue at h
  split at h
  · cases h; exact ⟨SUpd.refl _ _, rfl, rfl⟩
  · next ci =>
    have hci := hn ci rfl
    split at h
    · cases h; exact ⟨SUpd.refl _ _, rfl, rfl⟩
    · split at h
      · cases h
      · next isym _ =>
        have u1 : SUpd L0 st.syms (if (!ci.isExpr) = true ∧ ev = true ∧ isym.pinned = true then pin st.syms ci.nameRef
            else st.syms) := by
          split
          · exact SUpd.pin (Or.inl hci)
          · exact SUpd.refl _ _
        simp only at h
        generalize (if (!ci.isExpr) = true ∧ ev = true ∧ isym.pinned = true then pin st.syms ci.nameRef else st.syms) = syms1
          at h u1
        split at h
        · cases h
        · next syms2 r hm =>
          cases h
          obtain ⟨u2, _⟩ := mergeSymbols_spec _ _ _ _ _ _ hm (u1.links hl) hci
          exact ⟨u1.trans u2, rfl, rfl⟩

-- findSymbol ----------------------------------------------------------------------------------------

theorem findLoop_member {name : Name} {r : Nat} {w' : Bool} : ∀ (w : Bool) (chain : List Frame),
    findLoop name w chain = .member r w' → ∃ f, f ∈ chain ∧ r ∈ refsOf f.members
  | _, [], h => by simp [findLoop] at h
  | w, s :: rest, h => by
    simp only [findLoop] at h
    split at h
    · next r0 hr0 =>
      cases h
      exact ⟨s, by simp, lookup_mem_refsOf hr0⟩
    · obtain ⟨f, hf, hr⟩ := findLoop_member _ rest h
      exact ⟨f, by simp [hf], hr⟩

/-- MustNotBeRenamed on a symbol and on everything it is linked to -/
theorem SUpd.pinLinks {L0 : Nat} : ∀ (fuel : Nat) (syms : Syms) (t : Nat), (t < L0 ∨ NotLab syms t) → LinksOld L0 syms →
    SUpd L0 syms (pinLinks fuel syms t)
  | 0, syms, _, _, _ => SUpd.refl _ _
  | fuel + 1, syms, t, ht, hlo => by
    simp only [Scopes.pinLinks]
    split
    · exact SUpd.refl _ _
    · next s hs =>
      have u1 : SUpd L0 syms (Scopes.pin syms t) := SUpd.pin ht
      split
      · exact u1
      · next l hl =>
        exact u1.trans (SUpd.pinLinks fuel (Scopes.pin syms t) l (Or.inl (hlo t s l hs hl)) (u1.links hlo))

theorem findSymbol_supd {L0 : Nat} (chain : List Frame) (syms : Syms) (n : Name)
    (hm : ∀ f, f ∈ chain → ∀ m, m ∈ refsOf f.members → m < L0 ∨ NotLab syms m) (hlo : LinksOld L0 syms) :
    SUpd L0 syms (findSymbol chain syms n).2.1 ∧
    (∀ f, f ∈ (findSymbol chain syms n).1 → ∀ m, m ∈ refsOf f.members → m < L0 ∨ NotLab (findSymbol chain syms n).2.1 m) := by
  unfold findSymbol
  split
  · next r w hf =>
    obtain ⟨f, hfc, hr⟩ := findLoop_member _ _ hf
    have u : SUpd L0 syms (if w = true then pinLinks (syms.length + 1) syms r else syms) := by
      split
      · exact SUpd.pinLinks _ _ _ (hm f hfc r hr) hlo
      · exact SUpd.refl _ _
    refine ⟨u, ?_⟩
    intro f' hf' m hm'
    rcases hm f' hf' m hm' with h | h
    · exact Or.inl h
    · exact Or.inr (u.notLab h)
  · next w _ =>
    simp only [newSymbol]
    have u0 : SUpd L0 syms (syms ++ [⟨.unbound, n, none, false⟩]) := SUpd.append _ _ _ _
    have hnew : NotLab (syms ++ [⟨.unbound, n, none, false⟩]) syms.length :=
      ⟨⟨.unbound, n, none, false⟩, by simp, by simp⟩
    have u : SUpd L0 syms (if w = true then pin (syms ++ [⟨.unbound, n, none, false⟩]) syms.length
        else syms ++ [⟨.unbound, n, none, false⟩]) := by
      split
      · exact u0.trans (SUpd.pin (Or.inr hnew))
      · exact u0
    refine ⟨u, ?_⟩
    have hnew' : NotLab (if w = true then pin (syms ++ [⟨.unbound, n, none, false⟩]) syms.length
        else syms ++ [⟨.unbound, n, none, false⟩]) syms.length := by
      split
      · exact (SUpd.pin (L0 := L0) (Or.inr hnew)).notLab hnew
      · exact hnew
    -- the frames of the new chain
    have hch : ∀ (chain : List Frame), (∀ f, f ∈ chain → ∀ m, m ∈ refsOf f.members → m < L0 ∨ NotLab syms m) →
        ∀ f, f ∈ updLast (fun m => { m with members := insert n syms.length m.members }) chain →
        ∀ m, m ∈ refsOf f.members → m < L0 ∨ NotLab (if w = true then pin (syms ++ [⟨.unbound, n, none, false⟩]) syms.length
          else syms ++ [⟨.unbound, n, none, false⟩]) m := by
      intro chain
      induction chain with
      | nil => intro _ f hf; simp [updLast] at hf
      | cons x xs ih =>
        intro hc f hf m hmm
        cases xs with
        | nil =>
          simp only [updLast, List.mem_singleton] at hf
          subst hf
          rcases mem_refsOf_insert hmm with h | h
          · subst h; exact Or.inr hnew'
          · rcases hc x (by simp) m h with h1 | h1
            · exact Or.inl h1
            · exact Or.inr (u.notLab h1)
        | cons y ys =>
          simp only [updLast, List.mem_cons] at hf
          rcases hf with hf | hf
          · subst hf
            rcases hc f (by simp) m hmm with h1 | h1
            · exact Or.inl h1
            · exact Or.inr (u.notLab h1)
          · exact ih (fun f' hf' => hc f' (by simp [hf'])) f (by simpa [updLast] using hf) m hmm
    exact hch chain hm

-- labels of a tree -------------------------------------------------------------------------------

mutual
/-- the labels of all label scopes of the tree -/
def Sc.labelsL : Sc → List Nat
  | .node f kids => f.label.toList ++ labelsKids kids
def labelsKids : List Sc → List Nat
  | [] => []
  | k :: ks => k.labelsL ++ labelsKids ks
end

theorem labelsKids_append (a b : List Sc) : labelsKids (a ++ b) = labelsKids a ++ labelsKids b := by
  induction a with
  | nil => simp [labelsKids]
  | cons k ks ih => simp [labelsKids, ih]

mutual
theorem setStrictRec_labels (m : Strict) : ∀ (sc : Sc), (setStrictRec m sc).labelsL = sc.labelsL
  | .node f kids => by
    simp only [setStrictRec]
    split
    · simp only [Sc.labelsL, setStrictRecList_labels m kids]
    · rfl
theorem setStrictRecList_labels (m : Strict) : ∀ (ks : List Sc), labelsKids (setStrictRecList m ks) = labelsKids ks
  | [] => rfl
  | k :: ks => by simp only [setStrictRecList, labelsKids, setStrictRec_labels m k, setStrictRecList_labels m ks]
end

mutual
theorem labelsL_sub_all : ∀ (sc : Sc) (l : Nat), l ∈ sc.labelsL → l ∈ sc.all
  | .node f kids, l, h => by
    simp only [Sc.labelsL, List.mem_append, Option.mem_toList] at h
    simp only [Sc.all, List.mem_append]
    rcases h with h | h
    · exact Or.inl (mem_decls.mpr (Or.inr (Or.inr h)))
    · exact Or.inr (labelsKids_sub_all kids l h)
theorem labelsKids_sub_all : ∀ (ks : List Sc) (l : Nat), l ∈ labelsKids ks → l ∈ allKids ks
  | [], l, h => by simp [labelsKids] at h
  | k :: ks, l, h => by
    simp only [labelsKids, List.mem_append] at h
    simp only [allKids, List.mem_append]
    rcases h with h | h
    · exact Or.inl (labelsL_sub_all k l h)
    · exact Or.inr (labelsKids_sub_all ks l h)
end

theorem classNameStrict_frame (full : Bool) (k : ScK) (f : Frame) (kids : List Sc) :
    (classNameStrict full k (.node f kids)).frame.label = f.label ∧
    (classNameStrict full k (.node f kids)).frame.members = f.members ∧
    labelsKids (classNameStrict full k (.node f kids)).children = labelsKids kids := by
  unfold classNameStrict
  split
  · simp only [setStrictRec]
    split
    · exact ⟨rfl, rfl, setStrictRecList_labels _ _⟩
    · exact ⟨rfl, rfl, rfl⟩
  · exact ⟨rfl, rfl, rfl⟩

theorem updLast_labels (g : Frame → Frame) (hg : ∀ f, (g f).label = f.label) :
    ∀ (chain : List Frame), (updLast g chain).map (·.label) = chain.map (·.label)
  | [] => rfl
  | [x] => by simp [updLast, hg]
  | x :: y :: rest => by
    simp only [updLast, List.map_cons, updLast_labels g hg (y :: rest)]

theorem findSymbol_labels (chain : List Frame) (syms : Syms) (n : Name) :
    (findSymbol chain syms n).1.map (·.label) = chain.map (·.label) := by
  unfold findSymbol
  split
  · rfl
  · simp only [newSymbol]
    exact updLast_labels (fun m => { m with members := insert n syms.length m.members }) (fun _ => rfl) chain

theorem label_of_map_eq : ∀ {a b : List Frame}, b.map (·.label) = a.map (·.label) → ∀ f', f' ∈ b →
    ∃ f, f ∈ a ∧ f.label = f'.label
  | [], [], _, f', hf => by simp at hf
  | [], _ :: _, h, _, _ => by simp at h
  | _ :: _, [], h, _, _ => by simp at h
  | x :: xs, y :: ys, h, f', hf => by
    simp only [List.map_cons, List.cons.injEq] at h
    simp only [List.mem_cons] at hf
    rcases hf with hf | hf
    · subst hf; exact ⟨x, by simp, h.1.symm⟩
    · obtain ⟨f, hf1, hf2⟩ := label_of_map_eq h.2 f' hf
      exact ⟨f, by simp [hf1], hf2⟩

/-- the part of the invariant of the visit pass that concerns label symbols (`L0` = number of symbols before the
pass) -/
structure VLab (L0 : Nat) (c : VCtx) : Prop where
  le : L0 ≤ c.st.syms.length
  todoOld : KidsBelow L0 c.todo
  todoNoLab : labelsKids c.todo = []
  chainLab : ∀ f, f ∈ c.cur :: c.below → ∀ l, f.label = some l → L0 ≤ l ∧ IsLab c.st.syms l
  doneLab : ∀ l, l ∈ labelsKids c.done → L0 ≤ l ∧ IsLab c.st.syms l
  mem : ∀ f, f ∈ c.cur :: c.below → ∀ m, m ∈ refsOf f.members → m < L0 ∨ NotLab c.st.syms m
  links : LinksOld L0 c.st.syms
  declRefs : ∀ r, r ∈ c.st.declRefs → r < L0
  pending : ∀ r, r ∈ c.pending → r < L0
  lastDecl : ∀ d, c.lastDecl = some d → d.1 < L0
  cls : ∀ ci, c.cls = some ci → ci.nameRef < L0

/-- the invariant survives an update of the symbol table that leaves the scopes alone -/
theorem VLab.upd {L0 : Nat} {c : VCtx} (h : VLab L0 c) {st' : VSt} (u : SUpd L0 c.st.syms st'.syms)
    (hd : ∀ r, r ∈ st'.declRefs → r < L0) {pend : List Nat} (hp : ∀ r, r ∈ pend → r < L0)
    {ld : Option (Nat × Bool)} (hld : ∀ d, ld = some d → d.1 < L0) {cl : Option ClsInfo}
    (hcl : ∀ ci, cl = some ci → ci.nameRef < L0) :
    VLab L0 ⟨c.cur, c.todo, c.done, c.below, pend, ld, cl, st'⟩ :=
  ⟨Nat.le_trans h.le u.len, h.todoOld, h.todoNoLab,
    fun f hf l hl => ⟨(h.chainLab f hf l hl).1, u.isLab (h.chainLab f hf l hl).1 (h.chainLab f hf l hl).2⟩,
    fun l hl => ⟨(h.doneLab l hl).1, u.isLab (h.doneLab l hl).1 (h.doneLab l hl).2⟩,
    fun f hf m hm => (h.mem f hf m hm).imp id u.notLab,
    u.links h.links, hd, hp, hld, hcl⟩

/-- a step on the chain of scopes made by findSymbol -/
theorem VLab.find {L0 : Nat} {c c' : VCtx} (h : VLab L0 c) {n : Name} {chain' : List Frame} {syms' : Syms} {r : Nat}
    (hfs : findSymbol (c.cur :: c.below) c.st.syms n = (chain', syms', r))
    {g : Frame → Frame} (hg : ∀ f, (g f).label = f.label ∧ (g f).members = f.members)
    (hs : setChain { c with st := { c.st with syms := syms', refs := c.st.refs ++ [r] } } (chain'.map g) = some c') :
    VLab L0 c' ∧ SUpd L0 c.st.syms c'.st.syms := by
  obtain ⟨hch, ht, hd, hst⟩ := setChain_spec hs
  obtain ⟨u, hm⟩ := findSymbol_supd (L0 := L0) (c.cur :: c.below) c.st.syms n h.mem h.links
  have hlab := findSymbol_labels (c.cur :: c.below) c.st.syms n
  rw [hfs] at u hm hlab
  simp only at u hm hlab
  have hsy : c'.st.syms = syms' := by rw [hst]
  -- every frame of the new chain comes from a frame of the result of findSymbol
  have hfr : ∀ f', f' ∈ c'.cur :: c'.below → ∃ f0, f0 ∈ chain' ∧
      f'.label = f0.label ∧ f'.members = f0.members := by
    intro f' hf'
    rw [← hch, List.mem_map] at hf'
    obtain ⟨f0, hf0, hgf⟩ := hf'
    exact ⟨f0, hf0, by rw [← hgf]; exact (hg f0).1, by rw [← hgf]; exact (hg f0).2⟩
  have hpe : c'.pending = c.pending ∧ c'.lastDecl = c.lastDecl ∧ c'.cls = c.cls := by
    unfold setChain at hs
    split at hs
    · cases hs
    · cases hs; exact ⟨rfl, rfl, rfl⟩
  refine ⟨⟨?_, ?_, ?_, ?_, ?_, ?_, ?_, ?_, ?_, ?_, ?_⟩, by rw [hsy]; exact u⟩
  · rw [hsy]; exact Nat.le_trans h.le u.len
  · rw [ht]; exact h.todoOld
  · rw [ht]; exact h.todoNoLab
  · intro f' hf' l hl
    obtain ⟨f0, hf0, hl0, _⟩ := hfr f' hf'
    obtain ⟨f1, hf1, hl1⟩ := label_of_map_eq hlab f0 hf0
    have := h.chainLab f1 hf1 l (by rw [hl1, ← hl0]; exact hl)
    exact ⟨this.1, by rw [hsy]; exact u.isLab this.1 this.2⟩
  · intro l hl
    rw [hd] at hl
    exact ⟨(h.doneLab l hl).1, by rw [hsy]; exact u.isLab (h.doneLab l hl).1 (h.doneLab l hl).2⟩
  · intro f' hf' m hmm
    obtain ⟨f0, hf0, _, hm0⟩ := hfr f' hf'
    rw [hsy]
    exact hm f0 hf0 m (by rw [← hm0]; exact hmm)
  · rw [hsy]; exact u.links h.links
  · rw [hst]; exact h.declRefs
  · rw [hpe.1]; exact h.pending
  · rw [hpe.2.1]; exact h.lastDecl
  · rw [hpe.2.2]; exact h.cls

theorem labelStep_lab (full : Bool) (lbl : Option Name) (f : Frame) (syms : Syms) (L0 : Nat) (hL : L0 ≤ syms.length)
    (hf : f.label = none) :
    SUpd L0 syms (labelStep full lbl f syms).2 ∧ (labelStep full lbl f syms).1.members = f.members ∧
    (∀ l, (labelStep full lbl f syms).1.label = some l → L0 ≤ l ∧ IsLab (labelStep full lbl f syms).2 l) := by
  unfold labelStep
  split
  · next l0 =>
    simp only [newSymbol]
    refine ⟨SUpd.append _ _ _ _, trivial, ?_⟩
    intro l hl
    simp only [Option.some.injEq] at hl
    subst hl
    exact ⟨hL, ⟨⟨.label, l0, none, false⟩, by simp, rfl, rfl⟩⟩
  · refine ⟨SUpd.refl _ _, rfl, ?_⟩
    intro l hl; rw [hf] at hl; cases hl

mutual
theorem visitItem_lab (full : Bool) (L0 : Nat) : ∀ (i : Item) (c c' : VCtx), visitItem full i c = some c' → VLab L0 c →
    VLab L0 c' ∧ SUpd L0 c.st.syms c'.st.syms
  | .decl k n, c, c', h, hi => by
    simp only [visitItem] at h
    split at h
    · cases h
    · next r rs hrs =>
      have hr : r < L0 := hi.declRefs r (by rw [hrs]; simp)
      have hrs' : ∀ x, x ∈ rs → x < L0 := fun x hx => hi.declRefs x (by rw [hrs]; simp [hx])
      split at h <;> cases h
      · refine ⟨hi.upd (st' := { c.st with declRefs := rs }) (SUpd.refl _ _) hrs' ?_ ?_ hi.cls, SUpd.refl _ _⟩
        · intro x hx
          rw [List.mem_append, List.mem_singleton] at hx
          rcases hx with hx | hx
          · exact hi.pending x hx
          · subst hx; exact hr
        · intro d hd; cases hd; exact hr
      · refine ⟨hi.upd (st' := { c.st with declRefs := rs }) (SUpd.refl _ _) hrs' hi.pending ?_ hi.cls, SUpd.refl _ _⟩
        intro d hd; cases hd; exact hr
  | .declArgs, c, c', h, hi => by
    simp only [visitItem] at h; cases h; exact ⟨hi, SUpd.refl _ _⟩
  | .genSym _, c, c', h, hi => by
    simp only [visitItem] at h; cases h; exact ⟨hi, SUpd.refl _ _⟩
  | .rawSym _, c, c', h, hi => by
    simp only [visitItem] at h
    split at h
    · cases h
    · next r rs hrs =>
      cases h
      have hr : r < L0 := hi.declRefs r (by rw [hrs]; simp)
      have hrs' : ∀ x, x ∈ rs → x < L0 := fun x hx => hi.declRefs x (by rw [hrs]; simp [hx])
      refine ⟨hi.upd (st' := { c.st with declRefs := rs }) (SUpd.refl _ _) hrs' hi.pending ?_ hi.cls, SUpd.refl _ _⟩
      intro d hd; cases hd; exact hr
  | .classInner on, c, c', h, hi => by
    simp only [visitItem] at h
    split at h
    · split at h
      · next n =>
        simp only [newSymbol] at h
        cases h
        have u : SUpd L0 c.st.syms (c.st.syms ++ [⟨.const_, innerName (classNameOf c n), none, false⟩]) := SUpd.append _ _ _ _
        refine ⟨⟨Nat.le_trans hi.le u.len, hi.todoOld, hi.todoNoLab, ?_, ?_, ?_, u.links hi.links, hi.declRefs,
          hi.pending, hi.lastDecl, ?_⟩, u⟩
        · intro f hf l hl
          simp only [List.mem_cons] at hf
          rcases hf with hf | hf
          · subst hf
            have := hi.chainLab c.cur (by simp) l hl
            exact ⟨this.1, u.isLab this.1 this.2⟩
          · have := hi.chainLab f (by simp [hf]) l hl
            exact ⟨this.1, u.isLab this.1 this.2⟩
        · intro l hl
          exact ⟨(hi.doneLab l hl).1, u.isLab (hi.doneLab l hl).1 (hi.doneLab l hl).2⟩
        · intro f hf m hm
          simp only [List.mem_cons] at hf
          rcases hf with hf | hf
          · subst hf
            rcases mem_refsOf_insert hm with h1 | h1
            · subst h1
              exact Or.inr ⟨⟨.const_, innerName (classNameOf c n), none, false⟩, by simp, by simp⟩
            · exact (hi.mem c.cur (by simp) m h1).imp id u.notLab
          · exact (hi.mem f (by simp [hf]) m hm).imp id u.notLab
        · intro ci hci
          simp only [Option.map_eq_some_iff] at hci
          obtain ⟨d, hd, hci⟩ := hci
          subst hci
          exact hi.lastDecl d hd
      · simp only [newSymbol] at h
        cases h
        have u : SUpd L0 c.st.syms (c.st.syms ++ [⟨.const_, nameThis, none, false⟩]) := SUpd.append _ _ _ _
        exact ⟨hi.upd (st' := { c.st with syms := c.st.syms ++ [⟨.const_, nameThis, none, false⟩] }) u hi.declRefs
          hi.pending hi.lastDecl hi.cls, u⟩
    · cases h; exact ⟨hi, SUpd.refl _ _⟩
  | .ref n, c, c', h, hi => by
    simp only [visitItem] at h
    cases hfs : findSymbol (c.cur :: c.below) c.st.syms n with
    | mk chain' rest =>
      cases rest with
      | mk syms' r =>
        rw [hfs] at h
        exact hi.find hfs (g := id) (fun _ => ⟨rfl, rfl⟩) (by simpa using h)
  | .eval, c, c', h, hi => by
    simp only [visitItem] at h
    cases hfs : findSymbol (c.cur :: c.below) c.st.syms evalName with
    | mk chain' rest =>
      cases rest with
      | mk syms' r =>
        rw [hfs] at h
        exact hi.find hfs (g := fun f => { f with eval := true }) (fun _ => ⟨rfl, rfl⟩) h
  | .cut, c, c', h, hi => by
    simp only [visitItem] at h
    split at h
    · unfold endList at h
      split at h
      · cases h
      · next st hs =>
        cases h
        obtain ⟨u, _, hd⟩ := relinkFns_spec (L0 := L0) _ _ _ _ hs hi.links hi.pending
        exact ⟨hi.upd u (by rw [hd]; exact hi.declRefs) (by simp) hi.lastDecl hi.cls, u⟩
    · cases h; exact ⟨hi, SUpd.refl _ _⟩
  | .scope k us lbl body, c, c', h, hi => by
    simp only [visitItem] at h
    split at h
    · cases h
    · next f kids todo' htodo =>
      split at h
      · cases h
      · split at h
        · cases h
        · next r hr =>
          split at h
          · cases h
          · next r2 hr2 =>
            have hnolab := hi.todoNoLab
            rw [htodo] at hnolab
            simp only [labelsKids, Sc.labelsL, List.append_eq_nil_iff] at hnolab
            have hflab : f.label = none := by
              cases hfl : f.label with
              | none => rfl
              | some l => rw [hfl] at hnolab; simp at hnolab
            obtain ⟨u0, lm, ll⟩ := labelStep_lab full lbl f c.st.syms L0 hi.le hflab
            obtain ⟨cl, cm, clk⟩ := classNameStrict_frame full k (labelStep full lbl f c.st.syms).1 kids
            obtain ⟨_, ck, _⟩ := classNameStrict_spec full k (.node (labelStep full lbl f c.st.syms).1 kids)
            have hKold : ∀ s, s ∈ (Sc.node f kids).all → s < L0 := by
              intro s hs; exact hi.todoOld s (by rw [htodo]; simp [allKids, hs])
            have hi0 : VLab L0 ⟨(classNameStrict full k (.node (labelStep full lbl f c.st.syms).1 kids)).frame,
                (classNameStrict full k (.node (labelStep full lbl f c.st.syms).1 kids)).children, [],
                c.cur :: c.below, [], c.lastDecl, none, { c.st with syms := (labelStep full lbl f c.st.syms).2 }⟩ := by
              refine ⟨Nat.le_trans hi.le u0.len, ?_, ?_, ?_, ?_, ?_, u0.links hi.links, hi.declRefs, by simp,
                hi.lastDecl, by simp⟩
              · intro s hs
                simp only at hs
                rw [ck] at hs
                exact hKold s (by simp only [Sc.all, List.mem_append]; exact Or.inr hs)
              · simp only; rw [clk]; exact hnolab.1.2
              · intro f' hf' l hl
                simp only [List.mem_cons] at hf'
                rcases hf' with hf' | hf'
                · subst hf'
                  rw [cl] at hl
                  exact ll l hl
                · have := hi.chainLab f' (by simpa using hf') l hl
                  exact ⟨this.1, u0.isLab this.1 this.2⟩
              · intro l hl; simp [labelsKids] at hl
              · intro f' hf' m hm
                simp only [List.mem_cons] at hf'
                rcases hf' with hf' | hf'
                · subst hf'
                  rw [cm, lm] at hm
                  exact Or.inl (hKold m (by simp only [Sc.all, List.mem_append]; exact Or.inl (mem_decls.mpr (Or.inl hm))))
                · exact (hi.mem f' (by simpa using hf') m hm).imp id u0.notLab
            obtain ⟨hir, ur⟩ := visitItems_lab full L0 body _ r hr hi0
            simp only at ur
            -- the end of the statement list
            have hclose : VLab L0 r2 ∧ SUpd L0 r.st.syms r2.st.syms := by
              unfold closeList at hr2
              split at hr2
              · unfold endList at hr2
                split at hr2
                · cases hr2
                · next st hs =>
                  cases hr2
                  obtain ⟨u, _, hd⟩ := relinkFns_spec (L0 := L0) _ _ _ _ hs hir.links hir.pending
                  exact ⟨hir.upd u (by rw [hd]; exact hir.declRefs) (by simp) hir.lastDecl hir.cls, u⟩
              · cases hr2
                exact ⟨hir.upd (SUpd.refl _ _) hir.declRefs (by simp) hir.lastDecl hir.cls, SUpd.refl _ _⟩
            obtain ⟨hi2, u2⟩ := hclose
            unfold popVisit at h
            split at h
            · cases h
            · next cur' below' hbel =>
              split at h
              · cases h
              · next st' hce =>
                cases h
                have u3 : SUpd L0 r2.st.syms (pinMembers r2.cur r2.st.syms) :=
                  SUpd.pinMembers _ _ (hi2.mem r2.cur (by simp))
                obtain ⟨u4, _, hd4⟩ := classEpilogue_spec (L0 := L0) hce (u3.links hi2.links) hi2.cls
                simp only at u4 hd4
                have u24 : SUpd L0 r2.st.syms st'.syms := u3.trans u4
                have uall : SUpd L0 c.st.syms st'.syms := ((u0.trans ur).trans u2).trans u24
                refine ⟨⟨Nat.le_trans hi.le uall.len, ?_, ?_, ?_, ?_, ?_, u24.links hi2.links, ?_, hi.pending, by simp,
                  hi.cls⟩, uall⟩
                · intro s hs; exact hi.todoOld s (by rw [htodo]; simp [allKids, hs])
                · exact hnolab.2
                · intro f' hf' l hl
                  have := hi2.chainLab f' (by rw [hbel]; simp only [List.mem_cons] at hf' ⊢; exact Or.inr hf') l hl
                  exact ⟨this.1, u24.isLab this.1 this.2⟩
                · intro l hl
                  rw [labelsKids_append, List.mem_append] at hl
                  rcases hl with hl | hl
                  · exact ⟨(hi.doneLab l hl).1, uall.isLab (hi.doneLab l hl).1 (hi.doneLab l hl).2⟩
                  · simp only [labelsKids, Sc.labelsL, List.append_nil, List.mem_append, Option.mem_toList] at hl
                    rcases hl with hl | hl
                    · have := hi2.chainLab r2.cur (by simp) l hl
                      exact ⟨this.1, u24.isLab this.1 this.2⟩
                    · have := hi2.doneLab l hl
                      exact ⟨this.1, u24.isLab this.1 this.2⟩
                · intro f' hf' m hm
                  exact (hi2.mem f' (by rw [hbel]; simp only [List.mem_cons] at hf' ⊢; exact Or.inr hf') m hm).imp id
                    u24.notLab
                · rw [hd4]; exact hi2.declRefs
theorem visitItems_lab (full : Bool) (L0 : Nat) : ∀ (is : List Item) (c c' : VCtx), visitItems full is c = some c' →
    VLab L0 c → VLab L0 c' ∧ SUpd L0 c.st.syms c'.st.syms
  | [], c, c', h, hi => by
    simp only [visitItems] at h; cases h; exact ⟨hi, SUpd.refl _ _⟩
  | i :: is, c, c', h, hi => by
    simp only [visitItems] at h
    split at h
    · cases h
    · next c1 h1 =>
      obtain ⟨hi1, u1⟩ := visitItem_lab full L0 i c c1 h1 hi
      obtain ⟨hi2, u2⟩ := visitItems_lab full L0 is c1 c' h hi1
      exact ⟨hi2, u1.trans u2⟩
end

end EsbuildModel.Scopes
