/-
Helper lemmas about the reference parser alone (Spec/ExprGrammar.lean): which token continues an expression at
which stratum, "enough budget" monotonicity of the loops, and the lifting of a successful parse at one nonterminal
to every nonterminal below it in the chain of the grammar.
-/
import EsbuildModel.Spec.ExprGrammar

namespace EsbuildModel.JsExpr

/-- the stratum at which a token continues an already complete operand (infix / postfix / suffix position); 0 = never -/
def contRankP (io : Bool) : P → Nat
  | .comma => 1
  | .assign | .plusEq | .minusEq | .starEq | .slashEq | .percentEq | .starstarEq | .shlEq | .shrEq | .ushrEq
  | .barEq | .ampEq | .caretEq | .qqEq | .barbarEq | .ampampEq => 4
  | .question => 5 | .qq => 6 | .barbar => 7 | .ampamp => 8 | .bar => 9 | .caret => 10 | .amp => 11
  | .eq | .ne | .seq | .sne => 12
  | .lt | .le | .gt | .ge | .kInstanceof => 13
  | .kIn => if io then 13 else 0
  | .shl | .shr | .ushr => 14
  | .plus | .minus => 15
  | .star | .slash | .percent => 16
  | .starstar => 17
  | .plusplus | .minusminus => 19
  | .lparen => 21
  | .dot | .lbrack => 22
  | _ => 0

def contRank (io : Bool) : List Tok → Nat
  | .p x :: _ => contRankP io x
  | _ => 0

/-- the operator list and the stratum number of each left-associative production -/
def opsOfRank : Nat → List (P × BinOp)
  | 1 => commaOps | 6 => coalesceOps | 7 => orOps | 8 => andOps
  | r => bitOrStrata.getD (r - 9) []

theorem P.mem_all (x : P) : x ∈ P.all := by cases x <;> decide

theorem lookupOp_none_table :
    ∀ r ∈ [1, 6, 7, 8, 9, 10, 11, 12, 13, 14, 15, 16], ∀ x ∈ P.all, ∀ io ∈ [true, false],
      contRankP io x ≠ r → lookupOp (opsOfRank r) io (.p x) = none := by decide +kernel

theorem lookupOp_none_of_contRank (io : Bool) (r : Nat) (t : Tok) (ts : List Tok)
    (hr : r = 1 ∨ (6 ≤ r ∧ r ≤ 16)) (h : contRank io (t :: ts) ≠ r) : lookupOp (opsOfRank r) io t = none := by
  cases t with
  | p x =>
    refine lookupOp_none_table r ?_ x (P.mem_all x) io (by cases io <;> simp) h
    simp only [List.mem_cons, List.mem_nil_iff, or_false]; omega
  | _ => simp [lookupOp]

theorem lookupOp_tok (io : Bool) (op : BinOp) (h : op.assoc = .left) (hin : op = .in_ → io = true) :
    lookupOp (opsOfRank op.stratum) io (.p op.tok) = some op := by
  cases op <;> simp_all [lookupOp, opsOfRank, findOp, commaOps, coalesceOps, orOps, andOps, bitOrStrata, BinOp.stratum,
    BinOp.tok, BinOp.assoc]

theorem contRank_tok (io : Bool) (op : BinOp) (ts : List Tok) (hin : op = .in_ → io = true) :
    contRank io (.p op.tok :: ts) = op.stratum := by
  cases op <;> simp_all [contRank, contRankP, BinOp.tok, BinOp.stratum]

/-! ### loops: stopping, one step, more budget never hurts -/

theorem chainLoop_stop (sub : Parser) (ops : List (P × BinOp)) (io : Bool) (g : Nat) (l : Expr) (ts : List Tok)
    (hg : 1 ≤ g) (h : ∀ t ts', ts = t :: ts' → lookupOp ops io t = none) :
    chainLoop sub ops io g l ts = some (l, ts) := by
  obtain ⟨g, rfl⟩ : ∃ g', g = g' + 1 := ⟨g - 1, by omega⟩
  cases ts with
  | nil => simp [chainLoop]
  | cons t ts' => simp [chainLoop, h t ts' rfl]

theorem chainLoop_step (sub : Parser) (ops : List (P × BinOp)) (io : Bool) (g : Nat) (l r : Expr) (t : Tok)
    (ts' ts'' : List Tok) (op : BinOp) (h1 : lookupOp ops io t = some op) (h2 : sub ts' = some (r, ts'')) :
    chainLoop sub ops io (g + 1) l (t :: ts') = chainLoop sub ops io g (.binary op l r) ts'' := by
  simp [chainLoop, h1, h2]

theorem chainLoop_mono (sub : Parser) (ops : List (P × BinOp)) (io : Bool) (k : Nat) :
    ∀ (g : Nat) (l : Expr) (ts : List Tok) (res : Expr × List Tok),
      chainLoop sub ops io g l ts = some res → chainLoop sub ops io (g + k) l ts = some res := by
  intro g
  induction g with
  | zero => intro l ts res h; simp [chainLoop] at h
  | succ g ih =>
    intro l ts res h
    have e : g + 1 + k = (g + k) + 1 := by omega
    rw [e]
    cases ts with
    | nil => simpa [chainLoop] using h
    | cons t ts' =>
      simp only [chainLoop] at h ⊢
      cases h1 : lookupOp ops io t with
      | none => simpa [h1] using h
      | some op =>
        simp only [h1] at h ⊢
        cases h2 : sub ts' with
        | none => simp [h2] at h
        | some p =>
          obtain ⟨r, ts''⟩ := p
          simp only [h2] at h ⊢
          exact ih _ _ _ h

theorem memberLoop_stop (A : Bool → Parser) (F g : Nat) (io : Bool) (e : Expr) (ts : List Tok) (hg : 1 ≤ g)
    (h : contRank io ts ≠ 22) : memberLoop A F g e ts = some (e, ts) := by
  obtain ⟨g, rfl⟩ : ∃ g', g = g' + 1 := ⟨g - 1, by omega⟩
  cases ts with
  | nil => simp [memberLoop]
  | cons t ts' =>
    cases t with
    | p x => cases x <;> simp_all [memberLoop, contRank, contRankP]
    | _ => simp [memberLoop]

theorem callLoop_stop (A : Bool → Parser) (F g : Nat) (io : Bool) (e : Expr) (ts : List Tok) (hg : 1 ≤ g)
    (h : contRank io ts < 21) : callLoop A F g e ts = some (e, ts) := by
  obtain ⟨g, rfl⟩ : ∃ g', g = g' + 1 := ⟨g - 1, by omega⟩
  cases ts with
  | nil => simp [callLoop]
  | cons t ts' =>
    cases t with
    | p x => cases x <;> simp_all [callLoop, contRank, contRankP]
    | _ => simp [callLoop]

theorem memberLoop_dot (A : Bool → Parser) (F g : Nat) (e : Expr) (n : Nat) (ts : List Tok) :
    memberLoop A F (g + 1) e (.p .dot :: .ident n :: ts) = memberLoop A F g (.dot e n) ts := by
  simp [memberLoop]

theorem callLoop_dot (A : Bool → Parser) (F g : Nat) (e : Expr) (n : Nat) (ts : List Tok) :
    callLoop A F (g + 1) e (.p .dot :: .ident n :: ts) = callLoop A F g (.dot e n) ts := by
  simp [callLoop]

theorem memberLoop_index (A : Bool → Parser) (F g : Nat) (e i : Expr) (ts ts' : List Tok)
    (h : expressionWith A F true ts = some (i, .p .rbrack :: ts')) :
    memberLoop A F (g + 1) e (.p .lbrack :: ts) = memberLoop A F g (.index e i) ts' := by
  simp [memberLoop, h]

theorem callLoop_index (A : Bool → Parser) (F g : Nat) (e i : Expr) (ts ts' : List Tok)
    (h : expressionWith A F true ts = some (i, .p .rbrack :: ts')) :
    callLoop A F (g + 1) e (.p .lbrack :: ts) = callLoop A F g (.index e i) ts' := by
  simp [callLoop, h]

theorem callLoop_call (A : Bool → Parser) (F g : Nat) (e : Expr) (as : Args) (ts ts' : List Tok)
    (h : arguments A F (.p .lparen :: ts) = some (as, ts')) :
    callLoop A F (g + 1) e (.p .lparen :: ts) = callLoop A F g (.call e as) ts' := by
  simp [callLoop, h]


theorem memberLoop_mono (A : Bool → Parser) (F k : Nat) :
    ∀ (g : Nat) (e : Expr) (ts : List Tok) (res : Expr × List Tok),
      memberLoop A F g e ts = some res → memberLoop A F (g + k) e ts = some res := by
  intro g e ts
  fun_induction memberLoop A F g e ts with
  | case1 => intro res h; simp at h
  | case2 g e n ts' ih =>
    intro res h
    have e1 : g + 1 + k = (g + k) + 1 := by omega
    rw [e1, memberLoop_dot]; exact ih _ h
  | case3 g e ts hne =>
    intro res h; simp at h
  | case4 g e ts' i ts'' hx ih =>
    intro res h
    have e1 : g + 1 + k = (g + k) + 1 := by omega
    rw [e1, memberLoop_index _ _ _ _ _ _ _ hx]; exact ih _ h
  | case5 g e ts' hx =>
    intro res h; simp at h
  | case6 g e ts h1 h2 h3 =>
    intro res h
    have e1 : g + 1 + k = (g + k) + 1 := by omega
    rw [e1, ← h]
    rw [memberLoop] <;> assumption


theorem callLoop_mono (A : Bool → Parser) (F k : Nat) :
    ∀ (g : Nat) (e : Expr) (ts : List Tok) (res : Expr × List Tok),
      callLoop A F g e ts = some res → callLoop A F (g + k) e ts = some res := by
  intro g e ts
  fun_induction callLoop A F g e ts with
  | case1 => intro res h; simp at h
  | case2 g e n ts' ih =>
    intro res h
    have e1 : g + 1 + k = (g + k) + 1 := by omega
    rw [e1, callLoop_dot]; exact ih _ h
  | case3 g e ts hne =>
    intro res h; simp at h
  | case4 g e ts' i ts'' hx ih =>
    intro res h
    have e1 : g + 1 + k = (g + k) + 1 := by omega
    rw [e1, callLoop_index _ _ _ _ _ _ _ hx]; exact ih _ h
  | case5 g e ts' hx =>
    intro res h; simp at h
  | case6 g e ts' as ts'' hx ih =>
    intro res h
    have e1 : g.succ + k = (g + k) + 1 := by omega
    rw [e1, callLoop_call _ _ _ _ _ _ _ hx]
    simp only [hx] at h
    exact ih _ h
  | case7 g e ts' hx =>
    intro res h; simp [hx] at h
  | case8 g e ts h1 h2 h3 h4 =>
    intro res h
    have e1 : g.succ + k = (g + k) + 1 := by omega
    rw [e1, ← h]
    rw [callLoop] <;> assumption

theorem callLoop_of_memberLoop (A : Bool → Parser) (F : Nat) (io : Bool) :
    ∀ (g : Nat) (e : Expr) (ts : List Tok) (e' : Expr) (rest : List Tok),
      memberLoop A F g e ts = some (e', rest) → contRank io rest < 21 → callLoop A F g e ts = some (e', rest) := by
  intro g e ts
  fun_induction memberLoop A F g e ts with
  | case1 => intro e' rest h; simp at h
  | case2 g e n ts' ih =>
    intro e' rest h hc
    rw [callLoop_dot]; exact ih _ _ h hc
  | case3 g e ts hne =>
    intro e' rest h; simp at h
  | case4 g e ts' i ts'' hx ih =>
    intro e' rest h hc
    rw [callLoop_index _ _ _ _ _ _ _ hx]; exact ih _ _ h hc
  | case5 g e ts' hx =>
    intro e' rest h; simp at h
  | case6 g e ts h1 h2 h3 =>
    intro e' rest h hc
    simp only [Option.some.injEq, Prod.mk.injEq] at h
    obtain ⟨rfl, rfl⟩ := h
    exact callLoop_stop A F (g + 1) io e ts (by omega) hc


/-! ### lifting a successful parse down the chain of nonterminals -/

/-- MemberExpression (the operand of `new`): a head followed by member suffixes -/
def memberExprP (A : Bool → Parser) (F g : Nat) : Parser := fun ts =>
  match memberHead A F g ts with
  | some (h, ts1) => memberLoop A F F h ts1
  | none => none

/-- `Sat … r ts e rest`: the nonterminal of stratum `r` (2 ≤ r ≤ 23) derives `e` from a prefix of `ts`, leaving `rest`.
For the three self-recursive functions the statement holds for every private budget `g ≥ n`. -/
def Sat (A : Bool → Parser) (F : Nat) (io : Bool) (n r : Nat) (ts : List Tok) (e : Expr) (rest : List Tok) : Prop :=
  if r = 23 then primary A F ts = some (e, rest)
  else if r = 22 then ∀ g, n ≤ g → memberExprP A F g ts = some (e, rest)
  else if r = 21 ∨ r = 20 then lhs A F ts = some (e, rest)
  else if r = 19 then postfixExpr A F ts = some (e, rest)
  else if r = 18 then ∀ g, n ≤ g → unaryAux A F g ts = some (e, rest)
  else if r = 17 then ∀ g, n ≤ g → expAux A F g ts = some (e, rest)
  else if 9 ≤ r then parseStrata A F io (bitOrStrata.drop (r - 9)) ts = some (e, rest)
  else if r = 8 then logicalAnd A F io ts = some (e, rest)
  else if r = 7 then chain (logicalAnd A F io) orOps io F ts = some (e, rest)
  else if r = 6 then shortCircuit A F io ts = some (e, rest)
  else if r = 5 then conditional A F io ts = some (e, rest)
  else assignmentWith A F io ts = some (e, rest)

theorem chain_of_sub (sub : Parser) (ops : List (P × BinOp)) (io : Bool) (F : Nat) (ts : List Tok) (e : Expr)
    (rest : List Tok) (hs : sub ts = some (e, rest)) (hF : 1 ≤ F)
    (hstop : ∀ t ts', rest = t :: ts' → lookupOp ops io t = none) : chain sub ops io F ts = some (e, rest) := by
  simp only [chain, hs]
  exact chainLoop_stop sub ops io F e rest hF hstop

theorem primary_head (A : Bool → Parser) (F : Nat) (ts : List Tok) (p : Expr × List Tok)
    (h : primary A F ts = some p) : ∀ x ts', ts = .p x :: ts' → x = .lparen := by
  intro x ts' hts
  subst hts
  cases x <;> simp_all [primary]

theorem memberHead_head (A : Bool → Parser) (F g : Nat) (ts : List Tok) (p : Expr × List Tok)
    (h : memberHead A F g ts = some p) : ∀ x ts', ts = .p x :: ts' → x = .lparen ∨ x = .kNew := by
  intro x ts' hts
  subst hts
  cases g with
  | zero => simp [memberHead] at h
  | succ g =>
    by_cases hx : x = .kNew
    · exact Or.inr hx
    · left
      have : memberHead A F (g + 1) (.p x :: ts') = primary A F (.p x :: ts') := by
        rw [memberHead]; intro ts'' hh; simp at hh; exact hx hh.1
      rw [this] at h
      exact primary_head A F _ p h x ts' rfl

theorem memberHead_eq_primary (A : Bool → Parser) (F g : Nat) (ts : List Tok)
    (h : ∀ ts', ts = .p .kNew :: ts' → False) : memberHead A F (g + 1) ts = primary A F ts := by
  rw [memberHead]; exact h

theorem step_23_22 (A : Bool → Parser) (F : Nat) (io : Bool) (ts : List Tok) (e : Expr) (rest : List Tok)
    (h : primary A F ts = some (e, rest)) (hc : contRank io rest ≠ 22) (hF : 1 ≤ F) :
    ∀ g, 1 ≤ g → memberExprP A F g ts = some (e, rest) := by
  intro g hg
  obtain ⟨g, rfl⟩ : ∃ g', g = g' + 1 := ⟨g - 1, by omega⟩
  have hh : ∀ ts', ts = .p .kNew :: ts' → False := by
    intro ts' hts
    have := primary_head A F ts _ h .kNew ts' hts
    simp at this
  simp only [memberExprP, memberHead_eq_primary A F g ts hh, h]
  exact memberLoop_stop A F F io e rest hF hc

theorem step_22_21 (A : Bool → Parser) (F : Nat) (io : Bool) (ts : List Tok) (e : Expr) (rest : List Tok)
    (h : memberExprP A F F ts = some (e, rest)) (hc : contRank io rest < 21) : lhs A F ts = some (e, rest) := by
  simp only [memberExprP] at h
  simp only [lhs]
  cases hm : memberHead A F F ts with
  | none => simp [hm] at h
  | some p =>
    obtain ⟨hd, ts1⟩ := p
    simp only [hm] at h ⊢
    exact callLoop_of_memberLoop A F io F hd ts1 e rest h hc

theorem step_20_19 (A : Bool → Parser) (F : Nat) (io : Bool) (ts : List Tok) (e : Expr) (rest : List Tok)
    (h : lhs A F ts = some (e, rest)) (hc : contRank io rest ≠ 19) : postfixExpr A F ts = some (e, rest) := by
  simp only [postfixExpr, h]
  split <;> simp_all [contRank, contRankP]

theorem postfix_head (A : Bool → Parser) (F : Nat) (ts : List Tok) (p : Expr × List Tok)
    (h : postfixExpr A F ts = some p) : ∀ x ts', ts = .p x :: ts' → x = .lparen ∨ x = .kNew := by
  simp only [postfixExpr, lhs] at h
  cases hm : memberHead A F F ts with
  | none => simp [hm] at h
  | some q => exact memberHead_head A F F ts q hm

theorem step_19_18 (A : Bool → Parser) (F : Nat) (ts : List Tok) (e : Expr) (rest : List Tok)
    (h : postfixExpr A F ts = some (e, rest)) : ∀ g, 1 ≤ g → unaryAux A F g ts = some (e, rest) := by
  intro g hg
  obtain ⟨g, rfl⟩ : ∃ g', g = g' + 1 := ⟨g - 1, by omega⟩
  have hh := postfix_head A F ts _ h
  cases ts with
  | nil => simpa [unaryAux] using h
  | cons t ts' =>
    cases t with
    | p x =>
      rcases hh x ts' rfl with rfl | rfl <;> simpa [unaryAux, prefixOpOf, unaryOpOf] using h
    | _ => simpa [unaryAux] using h

theorem step_18_17 (A : Bool → Parser) (F : Nat) (io : Bool) (ts : List Tok) (e : Expr) (rest : List Tok)
    (h : unaryAux A F F ts = some (e, rest)) (hc : contRank io rest ≠ 17) :
    ∀ g, 1 ≤ g → expAux A F g ts = some (e, rest) := by
  intro g hg
  obtain ⟨g, rfl⟩ : ∃ g', g = g' + 1 := ⟨g - 1, by omega⟩
  simp only [expAux, h]
  split
  · rfl
  · split <;> simp_all [contRank, contRankP]

theorem strata_drop (i : Nat) (hi : i < 8) :
    bitOrStrata.drop i = opsOfRank (9 + i) :: bitOrStrata.drop (i + 1) := by
  have : i = 0 ∨ i = 1 ∨ i = 2 ∨ i = 3 ∨ i = 4 ∨ i = 5 ∨ i = 6 ∨ i = 7 := by omega
  rcases this with h | h | h | h | h | h | h | h <;> subst h <;> rfl

theorem strata_drop8 : bitOrStrata.drop 8 = [] := rfl

theorem stop_of_contRank (io : Bool) (r : Nat) (rest : List Tok) (hr : r = 1 ∨ (6 ≤ r ∧ r ≤ 16))
    (hc : contRank io rest ≠ r) : ∀ t ts', rest = t :: ts' → lookupOp (opsOfRank r) io t = none := by
  intro t ts' h
  subst h
  exact lookupOp_none_of_contRank io r t ts' hr hc

theorem step_strata (A : Bool → Parser) (F : Nat) (io : Bool) (i : Nat) (hi : i < 8) (ts : List Tok) (e : Expr)
    (rest : List Tok) (h : parseStrata A F io (bitOrStrata.drop (i + 1)) ts = some (e, rest))
    (hc : contRank io rest ≠ 9 + i) (hF : 1 ≤ F) :
    parseStrata A F io (bitOrStrata.drop i) ts = some (e, rest) := by
  rw [strata_drop i hi, parseStrata]
  exact chain_of_sub _ _ io F ts e rest h hF (stop_of_contRank io (9 + i) rest (by omega) hc)

theorem step_9_8 (A : Bool → Parser) (F : Nat) (io : Bool) (ts : List Tok) (e : Expr) (rest : List Tok)
    (h : parseStrata A F io (bitOrStrata.drop 0) ts = some (e, rest)) (hc : contRank io rest ≠ 8) (hF : 1 ≤ F) :
    logicalAnd A F io ts = some (e, rest) := by
  exact chain_of_sub _ _ io F ts e rest h hF (stop_of_contRank io 8 rest (by omega) hc)

theorem step_8_7 (A : Bool → Parser) (F : Nat) (io : Bool) (ts : List Tok) (e : Expr) (rest : List Tok)
    (h : logicalAnd A F io ts = some (e, rest)) (hc : contRank io rest ≠ 7) (hF : 1 ≤ F) :
    chain (logicalAnd A F io) orOps io F ts = some (e, rest) :=
  chain_of_sub _ _ io F ts e rest h hF (stop_of_contRank io 7 rest (by omega) hc)

theorem step_7_6 (A : Bool → Parser) (F : Nat) (io : Bool) (ts : List Tok) (e : Expr) (rest : List Tok)
    (h : chain (logicalAnd A F io) orOps io F ts = some (e, rest)) (hc6 : contRank io rest ≠ 6)
    (hF : 1 ≤ F) : shortCircuit A F io ts = some (e, rest) := by
  simp only [logicalAnd, chain] at h
  simp only [shortCircuit]
  cases hb : bitOr A F io ts with
  | none => simp [hb] at h
  | some p =>
    obtain ⟨x0, ts1⟩ := p
    simp only [hb] at h ⊢
    split
    next heq => simp at heq
    next l ts2 heq =>
      -- the operand is followed by `??`: the `&&` and `||` loops stopped at once, so `rest` starts with `??`
      simp only [Option.some.injEq, Prod.mk.injEq] at heq
      obtain ⟨rfl, rfl⟩ := heq
      have h1 : chainLoop (bitOr A F io) andOps io F x0 (.p .qq :: ts2) = some (x0, .p .qq :: ts2) :=
        chainLoop_stop _ _ io F _ _ hF (by intro t ts' ht; simp at ht; obtain ⟨rfl, rfl⟩ := ht; rfl)
      have h2 : chainLoop (chain (bitOr A F io) andOps io F) orOps io F x0 (.p .qq :: ts2) = some (x0, .p .qq :: ts2) :=
        chainLoop_stop _ _ io F _ _ hF (by intro t ts' ht; simp at ht; obtain ⟨rfl, rfl⟩ := ht; rfl)
      rw [h1] at h
      simp only [h2, Option.some.injEq, Prod.mk.injEq] at h
      obtain ⟨rfl, rfl⟩ := h
      simp [contRank, contRankP] at hc6
    next l ts2 hne heq =>
      simp only [Option.some.injEq, Prod.mk.injEq] at heq
      obtain ⟨rfl, rfl⟩ := heq
      exact h

/-- a CoalesceExpression is a ShortCircuitExpression -/
theorem shortCircuit_of_coalesce (A : Bool → Parser) (F : Nat) (io : Bool) (ts : List Tok) (e : Expr) (rest : List Tok)
    (h : chain (bitOr A F io) coalesceOps io F ts = some (e, rest)) (hc7 : contRank io rest ≠ 7)
    (hc8 : contRank io rest ≠ 8) (hF : 1 ≤ F) : shortCircuit A F io ts = some (e, rest) := by
  simp only [chain] at h
  simp only [shortCircuit]
  cases hb : bitOr A F io ts with
  | none => simp [hb] at h
  | some p =>
    obtain ⟨x0, ts1⟩ := p
    simp only [hb] at h ⊢
    split
    next heq => simp at heq
    next l ts2 heq =>
      simp only [Option.some.injEq, Prod.mk.injEq] at heq
      obtain ⟨rfl, rfl⟩ := heq
      exact h
    next l ts2 hne heq =>
      simp only [Option.some.injEq, Prod.mk.injEq] at heq
      obtain ⟨rfl, rfl⟩ := heq
      -- no `??` follows: the coalesce loop stopped at once
      have h0 : chainLoop (bitOr A F io) coalesceOps io F x0 ts1 = some (x0, ts1) := by
        apply chainLoop_stop _ _ io F _ _ hF
        intro t ts' ht
        subst ht
        cases t with
        | p x =>
          by_cases hx : x = .qq
          · subst hx; exact absurd rfl (hne ts')
          · cases x <;> simp_all [lookupOp, coalesceOps, findOp]
        | _ => simp [lookupOp]
      rw [h0] at h
      simp only [Option.some.injEq, Prod.mk.injEq] at h
      obtain ⟨rfl, rfl⟩ := h
      have h1 : chainLoop (bitOr A F io) andOps io F x0 ts1 = some (x0, ts1) :=
        chainLoop_stop _ _ io F _ _ hF (stop_of_contRank io 8 ts1 (by omega) hc8)
      have h2 : chainLoop (logicalAnd A F io) orOps io F x0 ts1 = some (x0, ts1) :=
        chainLoop_stop _ _ io F _ _ hF (stop_of_contRank io 7 ts1 (by omega) hc7)
      simp only [h1, h2]

theorem step_6_5 (A : Bool → Parser) (F : Nat) (io : Bool) (ts : List Tok) (e : Expr) (rest : List Tok)
    (h : shortCircuit A F io ts = some (e, rest)) (hc : contRank io rest ≠ 5) :
    conditional A F io ts = some (e, rest) := by
  simp only [conditional, h]
  split <;> simp_all [contRank, contRankP]

theorem assignOpOf_none (io : Bool) (t : Tok) (ts : List Tok) (hc : contRank io (t :: ts) ≠ 4) :
    assignOpOf t = none := by
  cases t with
  | p x => cases x <;> simp_all [assignOpOf, contRank, contRankP]
  | _ => simp [assignOpOf]

theorem step_5_4 (A : Bool → Parser) (F : Nat) (io : Bool) (ts : List Tok) (e : Expr) (rest : List Tok)
    (h : conditional A F io ts = some (e, rest)) (hc : contRank io rest ≠ 4) :
    assignmentWith A F io ts = some (e, rest) := by
  simp only [assignmentWith, h]
  cases rest with
  | nil => rfl
  | cons t ts' => simp [assignOpOf_none io t ts' hc]

theorem Sat_step (A : Bool → Parser) (F : Nat) (io : Bool) (n : Nat) (hn : 1 ≤ n) (hnF : n ≤ F) (ts : List Tok)
    (e : Expr) (rest : List Tok) (r : Nat) (h2 : 2 ≤ r) (h23 : r < 23)
    (h : Sat A F io n (r + 1) ts e rest) (hc : contRank io rest < r) : Sat A F io n r ts e rest := by
  have hF : 1 ≤ F := by omega
  have hr : r = 2 ∨ r = 3 ∨ r = 4 ∨ r = 5 ∨ r = 6 ∨ r = 7 ∨ r = 8 ∨ (9 ≤ r ∧ r ≤ 15) ∨ r = 16 ∨ r = 17 ∨ r = 18 ∨
      r = 19 ∨ r = 20 ∨ r = 21 ∨ r = 22 := by omega
  rcases hr with rfl | rfl | rfl | rfl | rfl | rfl | rfl | hr | rfl | rfl | rfl | rfl | rfl | rfl | rfl
  · simpa [Sat] using h
  · simpa [Sat] using h
  · simp only [Sat] at h ⊢; simp at h ⊢
    exact step_5_4 A F io ts e rest h (by omega)
  · simp only [Sat] at h ⊢; simp at h ⊢
    exact step_6_5 A F io ts e rest h (by omega)
  · simp only [Sat] at h ⊢; simp at h ⊢
    exact step_7_6 A F io ts e rest h (by omega) hF
  · simp only [Sat] at h ⊢; simp at h ⊢
    exact step_8_7 A F io ts e rest h (by omega) hF
  · simp only [Sat] at h ⊢; simp at h ⊢
    exact step_9_8 A F io ts e rest h (by omega) hF
  · obtain ⟨i, rfl⟩ : ∃ i, r = 9 + i := ⟨r - 9, by omega⟩
    have e1 : Sat A F io n (9 + i + 1) ts e rest = (parseStrata A F io (bitOrStrata.drop (i + 1)) ts = some (e, rest)) := by
      have : 9 + i + 1 - 9 = i + 1 := by omega
      simp only [Sat, this]
      simp only [show ¬ (9 + i + 1 = 23) by omega, show ¬ (9 + i + 1 = 22) by omega, show ¬ (9 + i + 1 = 21 ∨ 9 + i + 1 = 20) by omega,
        show ¬ (9 + i + 1 = 19) by omega, show ¬ (9 + i + 1 = 18) by omega, show ¬ (9 + i + 1 = 17) by omega,
        show 9 ≤ 9 + i + 1 by omega, if_true, if_false]
    have e2 : Sat A F io n (9 + i) ts e rest = (parseStrata A F io (bitOrStrata.drop i) ts = some (e, rest)) := by
      have : 9 + i - 9 = i := by omega
      simp only [Sat, this]
      simp only [show ¬ (9 + i = 23) by omega, show ¬ (9 + i = 22) by omega, show ¬ (9 + i = 21 ∨ 9 + i = 20) by omega,
        show ¬ (9 + i = 19) by omega, show ¬ (9 + i = 18) by omega, show ¬ (9 + i = 17) by omega,
        show 9 ≤ 9 + i by omega, if_true, if_false]
    rw [e1] at h; rw [e2]
    exact step_strata A F io i (by omega) ts e rest h (by omega) hF
  · simp only [Sat] at h ⊢; simp at h ⊢
    have := h F hnF
    exact step_strata A F io 7 (by omega) ts e rest (by simpa [strata_drop8, parseStrata] using this) (by omega) hF
  · simp only [Sat] at h ⊢; simp at h ⊢
    intro g hg
    exact step_18_17 A F io ts e rest (h F hnF) (by omega) g (by omega)
  · simp only [Sat] at h ⊢; simp at h ⊢
    intro g hg
    exact step_19_18 A F ts e rest h g (by omega)
  · simp only [Sat] at h ⊢; simp at h ⊢
    exact step_20_19 A F io ts e rest h (by omega)
  · simpa [Sat] using h
  · simp only [Sat] at h ⊢; simp at h ⊢
    exact step_22_21 A F io ts e rest (h F hnF) (by omega)
  · simp only [Sat] at h ⊢; simp at h ⊢
    intro g hg
    exact step_23_22 A F io ts e rest h (by omega) hF g (by omega)

theorem Sat_lift (A : Bool → Parser) (F : Nat) (io : Bool) (n : Nat) (hn : 1 ≤ n) (hnF : n ≤ F) (ts : List Tok)
    (e : Expr) (rest : List Tok) (r : Nat) (h2 : 2 ≤ r) (hc : contRank io rest < r) :
    ∀ d r₀, r₀ = r + d → r₀ ≤ 23 → Sat A F io n r₀ ts e rest → Sat A F io n r ts e rest := by
  intro d
  induction d with
  | zero => intro r₀ h0 _ h; simpa [h0] using h
  | succ d ih =>
    intro r₀ h0 h23 h
    subst h0
    exact ih (r + d) rfl (by omega) (Sat_step A F io n hn hnF ts e rest (r + d) (by omega) (by omega) h (by omega))



/-! ### left spines: a chain of operators of one stratum, absorbed by the loop -/

/-- `te` are tokens of `e`; whatever the loop does after having `e` in hand, the chain does from the tokens, given `k` more budget -/
def CLP (sub : Parser) (ops : List (P × BinOp)) (io : Bool) (s : Nat) (e : Expr) (te : List Tok) (k : Nat) : Prop :=
  ∀ (g : Nat) (res : Expr × List Tok) (rest : List Tok), contRank io rest ≤ s →
    chainLoop sub ops io g e rest = some res → chain sub ops io (g + k) (te ++ rest) = some res

theorem CLP_base (sub : Parser) (ops : List (P × BinOp)) (io : Bool) (s : Nat) (e : Expr) (te : List Tok) (k : Nat)
    (h : ∀ rest, contRank io rest ≤ s → sub (te ++ rest) = some (e, rest)) : CLP sub ops io s e te k := by
  intro g res rest hc hl
  simp only [chain, h rest hc]
  exact chainLoop_mono sub ops io k g e rest res hl

theorem CLP_weaken (sub : Parser) (ops : List (P × BinOp)) (io : Bool) (s : Nat) (e : Expr) (te : List Tok) (k k' : Nat)
    (hk : k ≤ k') (h : CLP sub ops io s e te k) : CLP sub ops io s e te k' := by
  intro g res rest hc hl
  have := h (g + (k' - k)) res rest hc (chainLoop_mono sub ops io (k' - k) g e rest res hl)
  have e1 : g + (k' - k) + k = g + k' := by omega
  rwa [e1] at this

theorem CLP_step (sub : Parser) (ops : List (P × BinOp)) (io : Bool) (s : Nat) (op : BinOp) (l r : Expr)
    (tl tr : List Tok) (k : Nat) (hl : CLP sub ops io s l tl k)
    (hr : ∀ rest, contRank io rest ≤ s → sub (tr ++ rest) = some (r, rest))
    (hop : lookupOp ops io (.p op.tok) = some op) (hs : ∀ ts, contRank io (.p op.tok :: ts) ≤ s) :
    CLP sub ops io s (.binary op l r) (tl ++ .p op.tok :: tr) (k + 1) := by
  intro g res rest hc hloop
  have e1 : (tl ++ .p op.tok :: tr) ++ rest = tl ++ (.p op.tok :: (tr ++ rest)) := by simp
  have e2 : g + (k + 1) = (g + 1) + k := by omega
  rw [e1, e2]
  apply hl (g + 1) res _ (hs _)
  rw [chainLoop_step sub ops io g l r (.p op.tok) (tr ++ rest) rest op hop (hr rest hc)]
  exact hloop

theorem chain_of_CLP (sub : Parser) (ops : List (P × BinOp)) (io : Bool) (s : Nat) (e : Expr) (te : List Tok) (k F : Nat)
    (h : CLP sub ops io s e te k) (hF : k + 1 ≤ F) (rest : List Tok) (hc : contRank io rest ≤ s)
    (hstop : ∀ t ts', rest = t :: ts' → lookupOp ops io t = none) :
    chain sub ops io F (te ++ rest) = some (e, rest) := by
  have := h (F - k) (e, rest) rest hc (chainLoop_stop sub ops io (F - k) e rest (by omega) hstop)
  have e1 : F - k + k = F := by omega
  rwa [e1] at this

/-! ### member / call spines -/

/-- head-then-call-suffixes version of `CLP` -/
def HLP (A : Bool → Parser) (F : Nat) (e : Expr) (te : List Tok) (k : Nat) : Prop :=
  ∀ (g0 g : Nat) (res : Expr × List Tok) (rest : List Tok), k ≤ g0 →
    callLoop A F g e rest = some res →
    (match memberHead A F g0 (te ++ rest) with
     | some (h, ts1) => callLoop A F (g + k) h ts1
     | none => none) = some res

/-- head-then-member-suffixes version of `CLP` -/
def MLP (A : Bool → Parser) (F : Nat) (e : Expr) (te : List Tok) (k : Nat) : Prop :=
  ∀ (g0 g : Nat) (res : Expr × List Tok) (rest : List Tok), k ≤ g0 →
    memberLoop A F g e rest = some res →
    (match memberHead A F g0 (te ++ rest) with
     | some (h, ts1) => memberLoop A F (g + k) h ts1
     | none => none) = some res

theorem HLP_base (A : Bool → Parser) (F : Nat) (e : Expr) (te : List Tok) (k : Nat)
    (h : ∀ g0 rest, k ≤ g0 → memberHead A F g0 (te ++ rest) = some (e, rest)) : HLP A F e te k := by
  intro g0 g res rest hg hl
  simp only [h g0 rest hg]
  exact callLoop_mono A F k g e rest res hl

theorem MLP_base (A : Bool → Parser) (F : Nat) (e : Expr) (te : List Tok) (k : Nat)
    (h : ∀ g0 rest, k ≤ g0 → memberHead A F g0 (te ++ rest) = some (e, rest)) : MLP A F e te k := by
  intro g0 g res rest hg hl
  simp only [h g0 rest hg]
  exact memberLoop_mono A F k g e rest res hl

theorem HLP_weaken (A : Bool → Parser) (F : Nat) (e : Expr) (te : List Tok) (k k' : Nat) (hk : k ≤ k')
    (h : HLP A F e te k) : HLP A F e te k' := by
  intro g0 g res rest hg hl
  have := h g0 (g + (k' - k)) res rest (by omega) (callLoop_mono A F (k' - k) g e rest res hl)
  have e1 : g + (k' - k) + k = g + k' := by omega
  rwa [e1] at this

theorem MLP_weaken (A : Bool → Parser) (F : Nat) (e : Expr) (te : List Tok) (k k' : Nat) (hk : k ≤ k')
    (h : MLP A F e te k) : MLP A F e te k' := by
  intro g0 g res rest hg hl
  have := h g0 (g + (k' - k)) res rest (by omega) (memberLoop_mono A F (k' - k) g e rest res hl)
  have e1 : g + (k' - k) + k = g + k' := by omega
  rwa [e1] at this

theorem HLP_dot (A : Bool → Parser) (F : Nat) (e : Expr) (te : List Tok) (k n : Nat) (h : HLP A F e te k) :
    HLP A F (.dot e n) (te ++ [.p .dot, .ident n]) (k + 1) := by
  intro g0 g res rest hg hl
  have e1 : (te ++ [.p .dot, .ident n]) ++ rest = te ++ (.p .dot :: .ident n :: rest) := by simp
  have e2 : g + (k + 1) = (g + 1) + k := by omega
  rw [e1, e2]
  apply h g0 (g + 1) res _ (by omega)
  rw [callLoop_dot]; exact hl

theorem MLP_dot (A : Bool → Parser) (F : Nat) (e : Expr) (te : List Tok) (k n : Nat) (h : MLP A F e te k) :
    MLP A F (.dot e n) (te ++ [.p .dot, .ident n]) (k + 1) := by
  intro g0 g res rest hg hl
  have e1 : (te ++ [.p .dot, .ident n]) ++ rest = te ++ (.p .dot :: .ident n :: rest) := by simp
  have e2 : g + (k + 1) = (g + 1) + k := by omega
  rw [e1, e2]
  apply h g0 (g + 1) res _ (by omega)
  rw [memberLoop_dot]; exact hl

theorem HLP_index (A : Bool → Parser) (F : Nat) (e i : Expr) (te ti : List Tok) (k : Nat) (h : HLP A F e te k)
    (hi : ∀ rest, expressionWith A F true (ti ++ .p .rbrack :: rest) = some (i, .p .rbrack :: rest)) :
    HLP A F (.index e i) (te ++ .p .lbrack :: (ti ++ [.p .rbrack])) (k + 1) := by
  intro g0 g res rest hg hl
  have e1 : (te ++ .p .lbrack :: (ti ++ [.p .rbrack])) ++ rest = te ++ (.p .lbrack :: (ti ++ .p .rbrack :: rest)) := by simp
  have e2 : g + (k + 1) = (g + 1) + k := by omega
  rw [e1, e2]
  apply h g0 (g + 1) res _ (by omega)
  rw [callLoop_index A F g e i _ _ (hi rest)]; exact hl

theorem MLP_index (A : Bool → Parser) (F : Nat) (e i : Expr) (te ti : List Tok) (k : Nat) (h : MLP A F e te k)
    (hi : ∀ rest, expressionWith A F true (ti ++ .p .rbrack :: rest) = some (i, .p .rbrack :: rest)) :
    MLP A F (.index e i) (te ++ .p .lbrack :: (ti ++ [.p .rbrack])) (k + 1) := by
  intro g0 g res rest hg hl
  have e1 : (te ++ .p .lbrack :: (ti ++ [.p .rbrack])) ++ rest = te ++ (.p .lbrack :: (ti ++ .p .rbrack :: rest)) := by simp
  have e2 : g + (k + 1) = (g + 1) + k := by omega
  rw [e1, e2]
  apply h g0 (g + 1) res _ (by omega)
  rw [memberLoop_index A F g e i _ _ (hi rest)]; exact hl

theorem HLP_call (A : Bool → Parser) (F : Nat) (f : Expr) (as : Args) (tf ta : List Tok) (k : Nat) (h : HLP A F f tf k)
    (ha : ∀ rest, arguments A F (.p .lparen :: (ta ++ .p .rparen :: rest)) = some (as, rest)) :
    HLP A F (.call f as) (tf ++ .p .lparen :: (ta ++ [.p .rparen])) (k + 1) := by
  intro g0 g res rest hg hl
  have e1 : (tf ++ .p .lparen :: (ta ++ [.p .rparen])) ++ rest = tf ++ (.p .lparen :: (ta ++ .p .rparen :: rest)) := by simp
  have e2 : g + (k + 1) = (g + 1) + k := by omega
  rw [e1, e2]
  apply h g0 (g + 1) res _ (by omega)
  rw [callLoop_call A F g f as _ _ (ha rest)]; exact hl

/-- `new` MemberExpression Arguments, as a head -/
theorem memberHead_new (A : Bool → Parser) (F : Nat) (io : Bool) (f : Expr) (as : Args) (tf ta : List Tok) (k : Nat)
    (h : MLP A F f tf k) (hF : k + 1 ≤ F)
    (ha : ∀ rest, arguments A F (.p .lparen :: (ta ++ .p .rparen :: rest)) = some (as, rest)) :
    ∀ g0 rest, k + 1 ≤ g0 →
      memberHead A F g0 ((.p .kNew :: (tf ++ .p .lparen :: (ta ++ [.p .rparen]))) ++ rest) = some (.new f as, rest) := by
  intro g0 rest hg
  obtain ⟨g0, rfl⟩ : ∃ g', g0 = g' + 1 := ⟨g0 - 1, by omega⟩
  have e1 : (.p .kNew :: (tf ++ .p .lparen :: (ta ++ [.p .rparen]))) ++ rest
      = .p .kNew :: (tf ++ (.p .lparen :: (ta ++ .p .rparen :: rest))) := by simp
  rw [e1]
  have hm := h g0 (F - k) (f, .p .lparen :: (ta ++ .p .rparen :: rest)) (.p .lparen :: (ta ++ .p .rparen :: rest)) (by omega)
    (memberLoop_stop A F (F - k) io f _ (by omega) (by simp [contRank, contRankP]))
  have e2 : F - k + k = F := by omega
  rw [e2] at hm
  rw [memberHead]
  cases hh : memberHead A F g0 (tf ++ (.p .lparen :: (ta ++ .p .rparen :: rest))) with
  | none => simp [hh] at hm
  | some p =>
    obtain ⟨hd, ts0⟩ := p
    simp only [hh] at hm ⊢
    simp only [hm, ha rest]

/-- `new` MemberExpression without Arguments (NewExpression), when no `(` follows -/
theorem memberHead_new_bare (A : Bool → Parser) (F : Nat) (io : Bool) (f : Expr) (tf : List Tok) (k : Nat)
    (h : MLP A F f tf k) (hF : k + 1 ≤ F) :
    ∀ g0 rest, k + 1 ≤ g0 → contRank io rest < 21 →
      memberHead A F g0 ((.p .kNew :: tf) ++ rest) = some (.new f .nil, rest) := by
  intro g0 rest hg hc
  obtain ⟨g0, rfl⟩ : ∃ g', g0 = g' + 1 := ⟨g0 - 1, by omega⟩
  have hm := h g0 (F - k) (f, rest) rest (by omega) (memberLoop_stop A F (F - k) io f _ (by omega) (by omega))
  have e2 : F - k + k = F := by omega
  rw [e2] at hm
  rw [List.cons_append, memberHead]
  cases hh : memberHead A F g0 (tf ++ rest) with
  | none => simp [hh] at hm
  | some p =>
    obtain ⟨hd, ts0⟩ := p
    simp only [hh] at hm ⊢
    simp only [hm]
    split
    · simp [contRank, contRankP] at hc
    · rfl

theorem lhs_of_HLP (A : Bool → Parser) (F : Nat) (io : Bool) (e : Expr) (te : List Tok) (k : Nat) (h : HLP A F e te k)
    (hF : k + 1 ≤ F) (rest : List Tok) (hc : contRank io rest < 21) : lhs A F (te ++ rest) = some (e, rest) := by
  have := h F (F - k) (e, rest) rest (by omega) (callLoop_stop A F (F - k) io e rest (by omega) hc)
  have e1 : F - k + k = F := by omega
  rw [e1] at this
  simp only [lhs]
  exact this

theorem memberExprP_of_MLP (A : Bool → Parser) (F : Nat) (io : Bool) (e : Expr) (te : List Tok) (k : Nat)
    (h : MLP A F e te k) (hF : k + 1 ≤ F) (rest : List Tok) (hc : contRank io rest ≠ 22) :
    ∀ g0, k ≤ g0 → memberExprP A F g0 (te ++ rest) = some (e, rest) := by
  intro g0 hg
  have := h g0 (F - k) (e, rest) rest hg (memberLoop_stop A F (F - k) io e rest (by omega) hc)
  have e1 : F - k + k = F := by omega
  rw [e1] at this
  simp only [memberExprP]
  exact this

/-! ### argument lists -/

theorem argsLoop_one (A : Bool → Parser) (g : Nat) (a : Expr) (ta rest : List Tok)
    (ha : A true (ta ++ .p .rparen :: rest) = some (a, .p .rparen :: rest)) :
    argsLoop A (g + 1) (ta ++ .p .rparen :: rest) = some (.cons a .nil, rest) := by
  simp [argsLoop, ha]

theorem argsLoop_cons (A : Bool → Parser) (g : Nat) (a : Expr) (as : Args) (ta tb rest : List Tok) (t : Tok)
    (ha : A true (ta ++ .p .comma :: t :: tb) = some (a, .p .comma :: t :: tb)) (ht : t ≠ .p .rparen)
    (hb : argsLoop A g (t :: tb) = some (as, rest)) :
    argsLoop A (g + 1) (ta ++ .p .comma :: t :: tb) = some (.cons a as, rest) := by
  rw [argsLoop]
  simp only [ha]
  split
  next heq =>
    simp only [Option.some.injEq, Prod.mk.injEq, List.cons.injEq] at heq
    exact absurd heq.2.2.1 ht
  next a' ts' hne heq =>
    simp only [Option.some.injEq, Prod.mk.injEq, List.cons.injEq, true_and] at heq
    obtain ⟨rfl, rfl⟩ := heq
    simp [hb]
  next heq => simp at heq
  next h1 h2 h3 => exact absurd rfl (h2 a (t :: tb))


/-! ### the knot: AssignmentExpression with one more unit of nesting budget -/

theorem assignment_succ (f : Nat) (io : Bool) : assignment (f + 1) io = assignmentWith (assignment f) (f + 1) io := rfl

theorem expression_of_assignment (f : Nat) (io : Bool) (ts : List Tok) (e : Expr) (rest : List Tok)
    (h : assignmentWith (assignment f) (f + 1) io ts = some (e, rest)) (hc : contRank io rest ≠ 1) :
    expressionWith (assignment (f + 1)) (f + 1 + 1) io ts = some (e, rest) := by
  simp only [expressionWith]
  exact chain_of_sub _ _ io _ ts e rest (by rw [assignment_succ]; exact h) (by omega)
    (stop_of_contRank io 1 rest (by omega) hc)

end EsbuildModel.JsExpr
