/-
Lemmas about the object helpers of Impl/Interop.lean: what `__copyProps` does to the heap.
-/
import EsbuildModel.Impl.Interop
namespace EsbuildModel.Interop
open EsbuildModel.Lower3 (Key alGet)

/-- the own property `k` of the object at address `a` -/
def own (h : Heap) (a : Nat) (k : Key) : Option PropD :=
  match h[a]? with
  | some o => alGet o.props k
  | none => none

/-- what a later step does not take back: no object disappears, no existing own property changes or disappears,
no object changes its code or its prototype -/
def Pres (h h' : Heap) : Prop :=
  h.length ≤ h'.length ∧
  (∀ a k p, own h a k = some p → own h' a k = some p) ∧
  (∀ (a : Nat) (o : Obj), h[a]? = some o → ∃ o' : Obj, h'[a]? = some o' ∧ o'.code = o.code ∧ o'.proto = o.proto)

theorem Pres.refl (h : Heap) : Pres h h := ⟨Nat.le_refl _, fun _ _ _ e => e, fun _ o e => ⟨o, e, rfl, rfl⟩⟩

theorem Pres.trans {a b c : Heap} (h1 : Pres a b) (h2 : Pres b c) : Pres a c :=
  ⟨Nat.le_trans h1.1 h2.1, fun x k p e => h2.2.1 x k p (h1.2.1 x k p e), fun x o e => by
    obtain ⟨o1, e1, c1, p1⟩ := h1.2.2 x o e
    obtain ⟨o2, e2, c2, p2⟩ := h2.2.2 x o1 e1
    exact ⟨o2, e2, c2.trans c1, p2.trans p1⟩⟩

theorem Pres.code_of {h h' : Heap} (hp : Pres h h') {g : Val} {c : Code} (e : codeOf h g = some c) :
    codeOf h' g = some c := by
  cases g with
  | obj a =>
    unfold codeOf at e ⊢
    cases ha : h[a]? with
    | none => simp [ha] at e
    | some o =>
      obtain ⟨o', e', c', _⟩ := hp.2.2 a o ha
      simp only [ha] at e
      simp only [e', c', e]
  | _ => simp [codeOf] at e

theorem alGet_alPut {σ : Type} (ps : List (Key × σ)) (k k' : Key) (x : σ) :
    alGet (alPut ps k x) k' = if k = k' then some x else alGet ps k' := by
  induction ps with
  | nil => simp [alPut, alGet]
  | cons q r ih =>
    obtain ⟨kq, sq⟩ := q
    unfold alPut
    by_cases h : kq = k
    · subst h; simp only [if_true]; unfold alGet; split <;> rfl
    · simp only [h, if_false]
      unfold alGet
      by_cases h2 : kq = k'
      · subst h2
        have hne : ¬ k = kq := fun e => h e.symm
        simp [hne]
      · simp only [h2, if_false]; exact ih

theorem own_append {h : Heap} {a : Nat} (o : Obj) (k : Key) (ha : a < h.length) : own (h ++ [o]) a k = own h a k := by
  unfold own; rw [List.getElem?_append_left ha]

theorem own_set_ne {h : Heap} {a b : Nat} (o : Obj) (k : Key) (hne : a ≠ b) : own (setObj h a o) b k = own h b k := by
  unfold own setObj; rw [List.getElem?_set_ne hne]

theorem own_set_eq {h : Heap} {a : Nat} (o : Obj) (k : Key) (ha : a < h.length) :
    own (setObj h a o) a k = alGet o.props k := by
  unfold own setObj; rw [List.getElem?_set_self ha]

theorem pres_append (h : Heap) (o : Obj) : Pres h (h ++ [o]) := by
  refine ⟨by simp, fun a k p e => ?_, fun a x e => ?_⟩
  · have ha : a < h.length := by
      unfold own at e
      cases hx : h[a]? with
      | none => simp [hx] at e
      | some _ => exact (List.getElem?_eq_some_iff.mp hx).1
    rw [own_append o k ha]; exact e
  · have ha : a < h.length := (List.getElem?_eq_some_iff.mp e).1
    exact ⟨x, by rw [List.getElem?_append_left ha]; exact e, rfl, rfl⟩

/-- the slot a descriptor creates on a property that does not exist yet -/
def Desc.newProp (d : Desc) : PropD :=
  ⟨if d.isAccessor then .acc (d.get.getD .undef) (d.set.getD .undef) else .data (d.value.getD .undef) (d.writable.getD false),
   d.enumerable.getD false, d.configurable.getD false⟩

theorem defineOwn_new {o o' : Obj} {k : Key} {d : Desc} (hk : alGet o.props k = none)
    (h : defineOwn o k d = some o') :
    o' = { o with props := alPut o.props k d.newProp } := by
  unfold defineOwn at h
  simp only [hk] at h
  split at h
  · cases h
  · cases h; rfl

/-- defining a property that the object does not have yet -/
theorem defPropV_new {a : Nat} {k : Key} {d : Desc} {s s' : St} {r : Res Unit}
    (hk : own s.heap a k = none) (h : defPropV (.obj a) k d s = (r, s')) :
    Pres s.heap s'.heap ∧ s'.tr = s.tr ∧ s'.heap.length = s.heap.length ∧
    (∀ b k' p, own s'.heap b k' = some p → own s.heap b k' = some p ∨ (b = a ∧ k' = k)) ∧
    (r = .ok () → own s'.heap a k = some d.newProp) := by
  unfold defPropV at h
  simp only at h
  cases ha : s.heap[a]? with
  | none =>
    simp only [ha] at h; cases h
    exact ⟨Pres.refl _, rfl, rfl, fun _ _ _ e => Or.inl e, fun e => by cases e⟩
  | some o =>
    have hlt : a < s.heap.length := (List.getElem?_eq_some_iff.mp ha).1
    have hko : alGet o.props k = none := by unfold own at hk; simpa [ha] using hk
    simp only [ha] at h
    by_cases hc : (!(okAccessorField s.heap d.get && okAccessorField s.heap d.set)) = true
    · simp only [hc, if_true] at h
      cases h; exact ⟨Pres.refl _, rfl, rfl, fun _ _ _ e => Or.inl e, fun e => by cases e⟩
    · simp only [hc, if_false] at h
      cases hd : defineOwn o k d with
      | none =>
        simp only [hd] at h; cases h
        exact ⟨Pres.refl _, rfl, rfl, fun _ _ _ e => Or.inl e, fun e => by cases e⟩
      | some o' =>
        simp only [hd] at h; cases h
        have ho' := defineOwn_new hko hd
        refine ⟨⟨by simp [setObj], fun b k' p e => ?_, fun b x e => ?_⟩, rfl, by simp [setObj], fun b k' p e => ?_, fun _ => ?_⟩
        · by_cases hb : a = b
          · subst hb
            simp only []
            rw [own_set_eq o' k' hlt, ho', alGet_alPut]
            have : own s.heap a k' = alGet o.props k' := by unfold own; simp [ha]
            by_cases hkk : k = k'
            · subst hkk; rw [this, hko] at e; cases e
            · simp only [hkk, if_false]; rw [← this]; exact e
          · simp only []; rw [own_set_ne o' k' hb]; exact e
        · by_cases hb : a = b
          · subst hb
            rw [ha] at e; cases e
            exact ⟨o', by simp [setObj, List.getElem?_set_self hlt], by rw [ho'], by rw [ho']⟩
          · exact ⟨x, by simp only [setObj]; rw [List.getElem?_set_ne hb]; exact e, rfl, rfl⟩
        · by_cases hb : a = b
          · subst hb
            simp only [] at e
            rw [own_set_eq o' k' hlt, ho', alGet_alPut] at e
            by_cases hkk : k = k'
            · exact Or.inr ⟨rfl, hkk.symm⟩
            · simp only [hkk, if_false] at e
              left; unfold own; simp [ha, e]
          · simp only [] at e; rw [own_set_ne o' k' hb] at e; exact Or.inl e
        · simp only []
          rw [own_set_eq o' k hlt, ho', alGet_alPut]; simp

/-- [[Enumerable]] of the forwarding getter: that of the source property (`true` if there is none) -/
def enOf (h : Heap) (f : Nat) (key : String) : Bool :=
  match own h f (.str key) with
  | none => true
  | some p => p.en

/-- the property `__copyProps` defines: a getter, no setter, not configurable -/
def fwdProp (g : Val) (en : Bool) : PropD := ⟨.acc g .undef, en, false⟩

theorem codeOf_append_new (h : Heap) (o : Obj) : codeOf (h ++ [o]) (.obj h.length) = o.code := by
  unfold codeOf; simp

theorem own_lt {h : Heap} {a : Nat} {k : Key} {p : PropD} (e : own h a k = some p) : a < h.length := by
  unfold own at e
  cases hx : h[a]? with
  | none => simp [hx] at e
  | some _ => exact (List.getElem?_eq_some_iff.mp hx).1

theorem copyStep_spec {a f : Nat} {ex : Val} {key : String} {s s1 : St} {r : Res Unit}
    (h : copyStep (.obj a) (.obj f) ex key s = (r, s1)) :
    Pres s.heap s1.heap ∧ s1.tr = s.tr ∧
    (∀ b k p, own s1.heap b k = some p → b < s.heap.length →
      own s.heap b k = some p ∨ (b = a ∧ k = .str key ∧ own s.heap a k = none ∧ Val.str key ≠ ex)) ∧
    (r = .ok () → Val.str key ≠ ex → own s.heap a (.str key) = none →
      ∃ g, own s1.heap a (.str key) = some (fwdProp g (enOf s.heap f key)) ∧
        codeOf s1.heap g = some (.fwd (.obj f) (.str key))) := by
  have triv : ∀ {r : Res Unit}, (r = .ok () → Val.str key ≠ ex → own s.heap a (.str key) = none → False) →
      Pres s.heap s.heap ∧ s.tr = s.tr ∧
      (∀ b k p, own s.heap b k = some p → b < s.heap.length →
        own s.heap b k = some p ∨ (b = a ∧ k = .str key ∧ own s.heap a k = none ∧ Val.str key ≠ ex)) ∧
      (r = .ok () → Val.str key ≠ ex → own s.heap a (.str key) = none →
        ∃ g, own s.heap a (.str key) = some (fwdProp g (enOf s.heap f key)) ∧
          codeOf s.heap g = some (.fwd (.obj f) (.str key))) :=
    fun hf => ⟨Pres.refl _, rfl, fun _ _ _ e _ => Or.inl e, fun a b c => (hf a b c).elim⟩
  unfold copyStep hasOwnV at h
  simp only at h
  cases ha : s.heap[a]? with
  | none => simp only [ha] at h; cases h; exact triv (fun e => by cases e)
  | some o =>
    simp only [ha] at h
    have hown : own s.heap a (.str key) = alGet o.props (.str key) := by unfold own; simp [ha]
    split at h
    · next hc =>
      have hnone : own s.heap a (.str key) = none := by
        rw [hown]; cases hg : alGet o.props (Key.str key) with
        | none => rfl
        | some _ => simp [hg] at hc
      have hex : Val.str key ≠ ex := by
        intro e; simp [e] at hc
      unfold copyDefine ownProp at h
      simp only [bind] at h
      cases hf : s.heap[f]? with
      | none => simp only [hf] at h; cases h; exact triv (fun e => by cases e)
      | some fo =>
        simp only [hf] at h
        unfold alloc at h
        simp only at h
        have hlt : a < s.heap.length := (List.getElem?_eq_some_iff.mp ha).1
        have hnone2 : own (s.heap ++ [closure (.obj f) key]) a (.str key) = none := by
          rw [own_append _ _ hlt]; exact hnone
        obtain ⟨hp, htr, hlen, honly, hok⟩ := defPropV_new (s := ⟨s.heap ++ [closure (.obj f) key], s.tr⟩) hnone2 h
        refine ⟨(pres_append _ _).trans hp, htr, fun b k p e hb => ?_, fun hr _ _ => ?_⟩
        · rcases honly b k p e with e' | ⟨hb', hk'⟩
          · left; rw [← own_append (closure (.obj f) key) k hb]; exact e'
          · right; subst hb'; subst hk'; exact ⟨rfl, rfl, hnone, hex⟩
        · refine ⟨.obj s.heap.length, ?_, ?_⟩
          · have := hok hr
            rw [this]
            have hen : enOf s.heap f key = (match alGet fo.props (Key.str key) with | none => true | some p => p.en) := by
              unfold enOf own; simp [hf]
            rw [hen]; rfl
          · exact hp.code_of (by rw [codeOf_append_new]; rfl)
    · next hc =>
      cases h
      refine triv (fun _ hex hn => ?_)
      rw [hown] at hn
      simp [hn, hex] at hc

theorem enOf_of_own {h : Heap} {f : Nat} {key : String} {p : PropD} (e : own h f (.str key) = some p) :
    enOf h f key = p.en := by
  unfold enOf; rw [e]

theorem copyLoop_spec {a f : Nat} {ex : Val} : ∀ (keys : List String) {s s' : St} {r : Res Unit},
    a < s.heap.length → copyLoop (.obj a) (.obj f) ex keys s = (r, s') →
    Pres s.heap s'.heap ∧ s'.tr = s.tr ∧
    (∀ b k p, own s'.heap b k = some p → b < s.heap.length →
      own s.heap b k = some p ∨ (b = a ∧ ∃ key, key ∈ keys ∧ k = .str key ∧ Val.str key ≠ ex)) ∧
    (r = .ok () → ∀ key, key ∈ keys → Val.str key ≠ ex → own s.heap a (.str key) = none →
      ∀ p, own s.heap f (.str key) = some p →
      ∃ g, own s'.heap a (.str key) = some (fwdProp g p.en) ∧ codeOf s'.heap g = some (.fwd (.obj f) (.str key)))
  | [], s, s', r, _, h => by
    cases h
    exact ⟨Pres.refl _, rfl, fun _ _ _ e _ => Or.inl e, fun _ key hk => by cases hk⟩
  | key0 :: rest, s, s', r, ha, h => by
    unfold copyLoop at h
    simp only [bind] at h
    cases h0 : copyStep (.obj a) (.obj f) ex key0 s with
    | mk r0 s1 =>
      obtain ⟨hp0, htr0, honly0, hpos0⟩ := copyStep_spec h0
      rw [h0] at h
      cases r0 with
      | err x =>
        simp only at h; cases h
        refine ⟨hp0, htr0, fun b k p e hb => ?_, fun e => by cases e⟩
        rcases honly0 b k p e hb with e' | ⟨hb', hk', _, hex⟩
        · exact Or.inl e'
        · exact Or.inr ⟨hb', key0, List.mem_cons_self, hk', hex⟩
      | ok u =>
        simp only at h
        have ha1 : a < s1.heap.length := Nat.lt_of_lt_of_le ha hp0.1
        obtain ⟨hp1, htr1, honly1, hpos1⟩ := copyLoop_spec rest ha1 h
        refine ⟨hp0.trans hp1, htr1.trans htr0, fun b k p e hb => ?_, fun hr key hk hex hnone p hf => ?_⟩
        · rcases honly1 b k p e (Nat.lt_of_lt_of_le hb hp0.1) with e1 | ⟨hb', key, hk, hkk, hex⟩
          · rcases honly0 b k p e1 hb with e' | ⟨hb', hk', _, hex⟩
            · exact Or.inl e'
            · exact Or.inr ⟨hb', key0, List.mem_cons_self, hk', hex⟩
          · exact Or.inr ⟨hb', key, List.mem_cons_of_mem _ hk, hkk, hex⟩
        · cases hq : own s1.heap a (.str key) with
          | none =>
            have hne : key ≠ key0 := by
              intro e; subst e
              obtain ⟨g, hg, _⟩ := hpos0 rfl hex hnone
              rw [hq] at hg; cases hg
            have hk' : key ∈ rest := by
              cases hk with
              | head => exact absurd rfl hne
              | tail _ h' => exact h'
            exact hpos1 hr key hk' hex hq p (hp0.2.1 _ _ _ hf)
          | some q =>
            rcases honly0 a (.str key) q hq ha with e' | ⟨_, hk', _, _⟩
            · rw [hnone] at e'; cases e'
            · have hkk : key = key0 := by cases hk'; rfl
              subst hkk
              obtain ⟨g, hg, hcode⟩ := hpos0 rfl hex hnone
              rw [enOf_of_own hf] at hg
              exact ⟨g, hp1.2.1 _ _ _ hg, hp1.code_of hcode⟩

theorem defPropV_frame {a : Nat} {k : Key} {d : Desc} {s s' : St} {r : Res Unit}
    (h : defPropV (.obj a) k d s = (r, s')) : ∀ b, a ≠ b → s'.heap[b]? = s.heap[b]? := by
  unfold defPropV at h
  simp only at h
  intro b hb
  cases ha : s.heap[a]? with
  | none => simp only [ha] at h; cases h; rfl
  | some o =>
    simp only [ha] at h
    split at h
    · cases h; rfl
    · split at h
      · cases h; rfl
      · cases h; simp only [setObj]; rw [List.getElem?_set_ne hb]

theorem own_plain {h : Heap} {t : Nat} {p : Val} (ht : h[t]? = some (plain p)) (k : Key) : own h t k = none := by
  unfold own; simp [ht, plain, alGet]

end EsbuildModel.Interop
