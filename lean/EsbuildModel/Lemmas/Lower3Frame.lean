import EsbuildModel.Lemmas.Lower3Basic
/-!
Which temporaries a term can write (`wr P`: every temporary that occurs as an assignment target satisfies P), and
the frame property: evaluation leaves every other temporary alone.
-/
namespace EsbuildModel.Lower3

mutual
def E.wr (P : Nat → Bool) : E → Bool
  | .id _ => true
  | .lit _ => true
  | .call _ a => a.wr P
  | .obj ps => ps.wr P
  | .asg p rhs => p.wr P && rhs.wr P
  | .seq a b => a.wr P && b.wr P
  | .tmp _ => true
  | .spreadValues a b => a.wr P && b.wr P
  | .spreadProps a b => a.wr P && b.wr P
  | .objRest src _ => src.wr P
def PL.wr (P : Nat → Bool) : PL → Bool
  | .nil => true
  | .data _ ke v r => ke.wr P && v.wr P && r.wr P
  | .getter _ ke _ r => ke.wr P && r.wr P
  | .setter _ ke _ r => ke.wr P && r.wr P
  | .proto v r => v.wr P && r.wr P
  | .spread e r => e.wr P && r.wr P
def Pat.wr (P : Nat → Bool) : Pat → Bool
  | .var _ => true
  | .tmp k => P k
  | .obj ps _ => ps.wr P
def PPL.wr (P : Nat → Bool) : PPL → Bool
  | .nil => true
  | .prop _ ke t _ d tl => ke.wr P && t.wr P && d.wr P && tl.wr P
end

mutual
theorem E.wr_mono {P Q : Nat → Bool} (h : ∀ k, P k = true → Q k = true) : ∀ e : E, e.wr P = true → e.wr Q = true
  | .id _, _ => rfl
  | .lit _, _ => rfl
  | .call _ a, ha => by simp only [E.wr] at ha ⊢; exact E.wr_mono h a ha
  | .obj ps, ha => by simp only [E.wr] at ha ⊢; exact PL.wr_mono h ps ha
  | .asg p rhs, ha => by
    simp only [E.wr, Bool.and_eq_true] at ha ⊢
    exact ⟨Pat.wr_mono h p ha.1, E.wr_mono h rhs ha.2⟩
  | .seq a b, ha => by
    simp only [E.wr, Bool.and_eq_true] at ha ⊢
    exact ⟨E.wr_mono h a ha.1, E.wr_mono h b ha.2⟩
  | .tmp _, _ => rfl
  | .spreadValues a b, ha => by
    simp only [E.wr, Bool.and_eq_true] at ha ⊢
    exact ⟨E.wr_mono h a ha.1, E.wr_mono h b ha.2⟩
  | .spreadProps a b, ha => by
    simp only [E.wr, Bool.and_eq_true] at ha ⊢
    exact ⟨E.wr_mono h a ha.1, E.wr_mono h b ha.2⟩
  | .objRest src _, ha => by simp only [E.wr] at ha ⊢; exact E.wr_mono h src ha
theorem PL.wr_mono {P Q : Nat → Bool} (h : ∀ k, P k = true → Q k = true) : ∀ ps : PL, ps.wr P = true → ps.wr Q = true
  | .nil, _ => rfl
  | .data _ ke v r, ha => by
    simp only [PL.wr, Bool.and_eq_true] at ha ⊢
    exact ⟨⟨E.wr_mono h ke ha.1.1, E.wr_mono h v ha.1.2⟩, PL.wr_mono h r ha.2⟩
  | .getter _ ke _ r, ha => by
    simp only [PL.wr, Bool.and_eq_true] at ha ⊢
    exact ⟨E.wr_mono h ke ha.1, PL.wr_mono h r ha.2⟩
  | .setter _ ke _ r, ha => by
    simp only [PL.wr, Bool.and_eq_true] at ha ⊢
    exact ⟨E.wr_mono h ke ha.1, PL.wr_mono h r ha.2⟩
  | .proto v r, ha => by
    simp only [PL.wr, Bool.and_eq_true] at ha ⊢
    exact ⟨E.wr_mono h v ha.1, PL.wr_mono h r ha.2⟩
  | .spread e r, ha => by
    simp only [PL.wr, Bool.and_eq_true] at ha ⊢
    exact ⟨E.wr_mono h e ha.1, PL.wr_mono h r ha.2⟩
theorem Pat.wr_mono {P Q : Nat → Bool} (h : ∀ k, P k = true → Q k = true) : ∀ p : Pat, p.wr P = true → p.wr Q = true
  | .var _, _ => rfl
  | .tmp k, ha => by simp only [Pat.wr] at ha ⊢; exact h k ha
  | .obj ps _, ha => by simp only [Pat.wr] at ha ⊢; exact PPL.wr_mono h ps ha
theorem PPL.wr_mono {P Q : Nat → Bool} (h : ∀ k, P k = true → Q k = true) : ∀ ps : PPL, ps.wr P = true → ps.wr Q = true
  | .nil, _ => rfl
  | .prop _ ke t _ d tl, ha => by
    simp only [PPL.wr, Bool.and_eq_true] at ha ⊢
    exact ⟨⟨⟨E.wr_mono h ke ha.1.1.1, Pat.wr_mono h t ha.1.1.2⟩, E.wr_mono h d ha.1.2⟩, PPL.wr_mono h tl ha.2⟩
end

/-- a step leaves the temporary k alone -/
theorem tm_bind {α β : Type} {r : R α × TState} {F : α → TState → R β × TState} (k : Nat) (x : Val)
    (h1 : r.2.tm k = x) (h2 : ∀ v s1, s1.tm k = x → (F v s1).2.tm k = x) : (bindR r F).2.tm k = x := by
  obtain ⟨a, s⟩ := r
  cases a with
  | err e => exact h1
  | ok v => exact h2 v s h1

theorem evalCKs_tm (w : World) (cs : List CK) (s : TState) : (evalCKs w cs s).2.tm = s.tm := by
  induction cs generalizing s with
  | nil => rfl
  | cons c r ih =>
    funext k
    simp only [evalCKs]
    refine tm_bind k (s.tm k) ?_ (fun v s1 h1 => tm_bind k (s.tm k) (by rw [ih]; exact h1) (fun _ _ h => h))
    cases c <;> rfl

theorem keyOf_tm (w : World) (b : Bool) (kk : KK) (ev : TState → Res × TState) (s : TState) (k : Nat)
    (hev : (ev s).2.tm k = s.tm k) : (keyOf w b kk ev s).2.tm k = s.tm k := by
  cases kk with
  | str t => rfl
  | num n => rfl
  | comp =>
    simp only [keyOf]
    refine tm_bind k (s.tm k) hev (fun raw s1 h1 => ?_)
    split
    · exact h1
    · exact tm_bind k (s.tm k) h1 (fun _ _ h => h)

theorem restStep_tm (w : World) (g : Bool) (r : Nat) (v : Val) (ex : List Ex) (s : TState) :
    (restStep w g r v ex s).2.tm = s.tm := by
  funext k
  simp only [restStep]
  split
  · rfl
  · exact tm_bind k (s.tm k) rfl (fun _ _ h => h)

mutual
theorem evalE_frame (w : World) (g : Bool) (P : Nat → Bool) (k : Nat) (hk : P k = false) :
    ∀ (e : E) (s : TState), e.wr P = true → (evalE w g e s).2.tm k = s.tm k
  | .id _, _, _ => rfl
  | .lit _, _, _ => rfl
  | .tmp _, _, _ => rfl
  | .call f a, s, h => by
    simp only [E.wr] at h
    simp only [evalE]
    exact tm_bind k _ (evalE_frame w g P k hk a s h) (fun _ _ h1 => h1)
  | .obj ps, s, h => by
    simp only [E.wr] at h
    simp only [evalE]
    exact tm_bind k _ (evalPL_frame w g P k hk ps _ _ _ s h) (fun _ _ h1 => h1)
  | .asg p rhs, s, h => by
    simp only [E.wr, Bool.and_eq_true] at h
    simp only [evalE]
    refine tm_bind k _ (evalE_frame w g P k hk rhs s h.2) (fun v s1 h1 => ?_)
    exact tm_bind k _ ((bindPat_frame w g P k hk p v s1 h.1).trans h1) (fun _ _ h2 => h2)
  | .seq a b, s, h => by
    simp only [E.wr, Bool.and_eq_true] at h
    simp only [evalE]
    exact tm_bind k _ (evalE_frame w g P k hk a s h.1) (fun _ s1 h1 => (evalE_frame w g P k hk b s1 h.2).trans h1)
  | .spreadValues a b, s, h => by
    simp only [E.wr, Bool.and_eq_true] at h
    simp only [evalE]
    refine tm_bind k _ (evalE_frame w g P k hk a s h.1) (fun _ s1 h1 => ?_)
    exact tm_bind k _ ((evalE_frame w g P k hk b s1 h.2).trans h1) (fun _ _ h2 => h2)
  | .spreadProps a b, s, h => by
    simp only [E.wr, Bool.and_eq_true] at h
    simp only [evalE]
    refine tm_bind k _ (evalE_frame w g P k hk a s h.1) (fun _ s1 h1 => ?_)
    exact tm_bind k _ ((evalE_frame w g P k hk b s1 h.2).trans h1) (fun _ _ h2 => h2)
  | .objRest src keys, s, h => by
    simp only [E.wr] at h
    simp only [evalE]
    refine tm_bind k _ (evalE_frame w g P k hk src s h) (fun _ s1 h1 => ?_)
    exact tm_bind k _ (by rw [evalCKs_tm]; exact h1) (fun _ _ h2 => h2)
theorem evalPL_frame (w : World) (g : Bool) (P : Nat → Bool) (k : Nat) (hk : P k = false) :
    ∀ (ps : PL) (af : Bool) (seg : List Key) (t : Rec) (s : TState), ps.wr P = true →
      (evalPL w g ps af seg t s).2.tm k = s.tm k
  | .nil, _, _, _, _, _ => rfl
  | .data kk ke v rest, af, seg, t, s, h => by
    simp only [PL.wr, Bool.and_eq_true] at h
    simp only [evalPL]
    refine tm_bind k _ (keyOf_tm w _ kk _ s k (evalE_frame w g P k hk ke s h.1.1)) (fun kv s1 h1 => ?_)
    refine tm_bind k _ ((evalE_frame w g P k hk v s1 h.1.2).trans h1) (fun vv s2 h2 => ?_)
    exact (evalPL_frame w g P k hk rest _ _ _ s2 h.2).trans h2
  | .getter kk ke g' rest, af, seg, t, s, h => by
    simp only [PL.wr, Bool.and_eq_true] at h
    simp only [evalPL]
    refine tm_bind k _ (keyOf_tm w _ kk _ s k (evalE_frame w g P k hk ke s h.1)) (fun kv s1 h1 => ?_)
    split
    · exact h1
    · exact (evalPL_frame w g P k hk rest _ _ _ s1 h.2).trans h1
  | .setter kk ke f rest, af, seg, t, s, h => by
    simp only [PL.wr, Bool.and_eq_true] at h
    simp only [evalPL]
    refine tm_bind k _ (keyOf_tm w _ kk _ s k (evalE_frame w g P k hk ke s h.1)) (fun kv s1 h1 => ?_)
    split
    · exact h1
    · exact (evalPL_frame w g P k hk rest _ _ _ s1 h.2).trans h1
  | .proto v rest, af, seg, t, s, h => by
    simp only [PL.wr, Bool.and_eq_true] at h
    simp only [evalPL]
    refine tm_bind k _ (evalE_frame w g P k hk v s h.1) (fun pv s1 h1 => ?_)
    split
    · split
      · exact h1
      · exact (evalPL_frame w g P k hk rest _ _ _ s1 h.2).trans h1
    · exact (evalPL_frame w g P k hk rest _ _ _ s1 h.2).trans h1
  | .spread e rest, af, seg, t, s, h => by
    simp only [PL.wr, Bool.and_eq_true] at h
    simp only [evalPL]
    refine tm_bind k _ (evalE_frame w g P k hk e s h.1) (fun sv s1 h1 => ?_)
    refine tm_bind k _ h1 (fun t1 s2 h2 => ?_)
    exact (evalPL_frame w g P k hk rest _ _ _ s2 h.2).trans h2
theorem bindPat_frame (w : World) (g : Bool) (P : Nat → Bool) (k : Nat) (hk : P k = false) :
    ∀ (p : Pat) (v : Val) (s : TState), p.wr P = true → (bindPat w g p v s).2.tm k = s.tm k
  | .var _, _, _, _ => rfl
  | .tmp j, v, s, h => by
    simp only [Pat.wr] at h
    have : k ≠ j := fun e => by subst e; rw [h] at hk; exact Bool.noConfusion hk
    simp [bindPat, setTmp, upd, this]
  | .obj ps rest, v, s, h => by
    simp only [Pat.wr] at h
    simp only [bindPat]
    split
    · split <;> rfl
    · refine tm_bind k _ (bindPPL_frame w g P k hk ps _ v _ s h) (fun ex s1 h1 => ?_)
      cases rest with
      | none => exact h1
      | some r => simp only; rw [restStep_tm]; exact h1
theorem bindPPL_frame (w : World) (g : Bool) (P : Nat → Bool) (k : Nat) (hk : P k = false) :
    ∀ (ps : PPL) (hr : Bool) (v : Val) (ex : List Ex) (s : TState), ps.wr P = true →
      (bindPPL w g ps hr v ex s).2.tm k = s.tm k
  | .nil, _, _, _, _, _ => rfl
  | .prop kk ke t hd d tl, hr, v, ex, s, h => by
    simp only [PPL.wr, Bool.and_eq_true] at h
    simp only [bindPPL]
    refine tm_bind k _ (keyOf_tm w _ kk _ s k (evalE_frame w g P k hk ke s h.1.1.1)) (fun kv s1 h1 => ?_)
    refine tm_bind k _ h1 (fun pv s2 h2 => ?_)
    refine tm_bind k _ ?_ (fun pv' s3 h3 => ?_)
    · split
      · exact (evalE_frame w g P k hk d s2 h.1.2).trans h2
      · exact h2
    · refine tm_bind k _ ((bindPat_frame w g P k hk t pv' s3 h.1.1.2).trans h3) (fun _ s4 h4 => ?_)
      exact (bindPPL_frame w g P k hk tl hr v _ s4 h.2).trans h4
end

end EsbuildModel.Lower3
