import EsbuildModel.Lemmas.CssBoxBound
/-
What one declaration / one slot of the rule list contributes to the cascade of family `F` (`cD`, `cR`, `cAt`), and
the closed forms of these contributions for the declarations the tracker looks at.
-/
namespace EsbuildModel.CssBox
open EsbuildModel.Spec.BoxCascade

section
variable {V : Type} (B : Browser Tok V) (F : Family)

/-- contribution of a model declaration to side `s` at importance `imp` -/
def cD (s : Side) (imp : Bool) (d : CssBox.Decl) : Option (Val Tok V) := contribution B s imp (view F d)

/-- contribution of a slot of `rewrittenRules` (a removed rule contributes nothing) -/
def cR (s : Side) (imp : Bool) : Option CssBox.Decl → Option (Val Tok V)
  | some e => cD B F s imp e
  | none => none

def cAt (rules : List (Option CssBox.Decl)) (s : Side) (imp : Bool) (i : Nat) : Option (Val Tok V) :=
  match rules[i]? with
  | some x => cR B F s imp x
  | none => none

/-- the last contribution in a rule list -/
def LS (rules : List (Option CssBox.Decl)) (s : Side) (imp : Bool) : Option (Val Tok V) := lastSome (cR B F s imp) rules

theorem cAt_set (rules : List (Option CssBox.Decl)) (i : Nat) (x : Option CssBox.Decl) (s : Side) (imp : Bool) (j : Nat) :
    cAt B F (rules.set i x) s imp j = if i = j ∧ j < rules.length then cR B F s imp x else cAt B F rules s imp j := by
  unfold cAt
  rw [List.getElem?_set]
  by_cases h : i = j
  · subst h
    by_cases h2 : i < rules.length
    · simp [h2]
    · simp [h2]
  · simp [h]

theorem cAt_ge (rules : List (Option CssBox.Decl)) (s : Side) (imp : Bool) (j : Nat) (h : rules.length ≤ j) :
    cAt B F rules s imp j = none := by
  unfold cAt; rw [List.getElem?_eq_none h]

theorem cAt_append_left (l₁ l₂ : List (Option CssBox.Decl)) (s : Side) (imp : Bool) (j : Nat) (h : j < l₁.length) :
    cAt B F (l₁ ++ l₂) s imp j = cAt B F l₁ s imp j := by
  unfold cAt; rw [List.getElem?_append_left h]

theorem cAt_concat_last (l : List (Option CssBox.Decl)) (x : Option CssBox.Decl) (s : Side) (imp : Bool) :
    cAt B F (l ++ [x]) s imp l.length = cR B F s imp x := by
  unfold cAt; simp

theorem LS_congr (l l' : List (Option CssBox.Decl)) (s : Side) (imp : Bool) (hlen : l.length = l'.length)
    (h : ∀ i, cAt B F l s imp i = cAt B F l' s imp i) : LS B F l s imp = LS B F l' s imp := by
  apply lastSome_congr _ _ _ hlen
  intro i a₁ a₂ h₁ h₂
  have := h i
  simpa [cAt, h₁, h₂] using this

theorem LS_eq_some_of (l : List (Option CssBox.Decl)) (s : Side) (imp : Bool) (j : Nat) (v : Val Tok V)
    (hj : cAt B F l s imp j = some v) (hafter : ∀ k, j < k → cAt B F l s imp k = none) : LS B F l s imp = some v := by
  unfold cAt at hj
  cases hx : l[j]? with
  | none => simp [hx] at hj
  | some x =>
    simp only [hx] at hj
    apply lastSome_eq_some_of _ l j x v hx hj
    intro k a' hk ha'
    have := hafter k hk
    simpa [cAt, ha'] using this

theorem LS_concat (l : List (Option CssBox.Decl)) (x : Option CssBox.Decl) (s : Side) (imp : Bool) :
    LS B F (l ++ [x]) s imp = (cR B F s imp x).or (LS B F l s imp) := lastSome_concat _ _ _

/-! ### closed forms at the specification level -/

theorem contribution_none (s : Side) (imp : Bool) (d : Spec.BoxCascade.Decl Tok) (h : d.prop = none) :
    contribution B s imp d = none := by
  simp [contribution, h]

theorem contribution_side (s x : Side) (imp : Bool) (d : Spec.BoxCascade.Decl Tok) (t : Tok)
    (hp : d.prop = some (.side x)) (hv : d.value = [t]) (hpl : B.plain t = true) :
    contribution B s imp d =
      if d.important = imp ∧ B.ok (.side x) [t] = true ∧ x = s then some (.known (B.den t)) else none := by
  simp only [contribution, hp, hv, assigned, single, hpl, if_true]
  by_cases h1 : d.important = imp ∧ B.ok (.side x) [t] = true
  · by_cases h2 : x = s <;> simp [h1, h2]
  · have : ¬(d.important = imp ∧ B.ok (.side x) [t] = true ∧ x = s) := fun h => h1 ⟨h.1, h.2.1⟩
    simp [h1, this]

theorem contribution_shorthand (s : Side) (imp : Bool) (d : Spec.BoxCascade.Decl Tok) (q : Tok × Tok × Tok × Tok)
    (hp : d.prop = some .shorthand) (hq : quad d.value = some q) (hpl : d.value.all B.plain = true) :
    contribution B s imp d =
      if d.important = imp ∧ B.ok .shorthand d.value = true then some (.known (B.den (pick q s))) else none := by
  simp only [contribution, hp, assigned, hpl, hq, if_true]


/-! ### closed forms for the declarations the tracker looks at -/

theorem keyOfText_famName (f : Family) : keyOfText (famName f) = .box f .shorthand := by
  cases f <;> decide

theorem TrackerAccepts.of_core {t t' : Token} (h : t.core = t'.core) (ht : TrackerAccepts F t) : TrackerAccepts F t' := by
  simp only [Token.core, Prod.mk.injEq] at h
  unfold TrackerAccepts at *
  rw [← h.1, ← h.2]; exact ht

theorem okT_of_core {t t' : Token} (h : t.core = t'.core) : okT B t = okT B t' := by
  unfold okT; rw [h]

theorem TrackerAccepts.turn {t : Token} (ht : TrackerAccepts F t) : TrackerAccepts F t.turn.1 := by
  rcases turn_fst_cases t with ⟨h1, _⟩ | ⟨_, _, h1, _⟩
  · rw [h1]; exact ht
  · rw [h1]; left; rfl

theorem TrackerAccepts.kind_ne_eof {t : Token} (ht : TrackerAccepts F t) : t.kind ≠ .eof := by
  rcases ht with h | ⟨_, h, _⟩
  · intro h'; simp [h', Kind.isNumeric] at h
  · simp [h]

def pickT (q : Token × Token × Token × Token) : Side → Token
  | .top => q.1
  | .right => q.2.1
  | .bottom => q.2.2.1
  | .left => q.2.2.2

theorem expandTokenQuad_spec (ts : List Token) (al : List Nat) (q : Token × Token × Token × Token)
    (h : expandTokenQuad ts al = some q) :
    quad (ts.map Token.core) = some (q.1.core, q.2.1.core, q.2.2.1.core, q.2.2.2.core) ∧
    1 ≤ ts.length ∧ ts.length ≤ 4 ∧
    (∀ t ∈ ts, t.kind.isNumeric = true ∨ (t.kind = .ident ∧ al ≠ [] ∧ t.text = al)) ∧
    (∀ s, pickT q s ∈ ts) ∧
    (∀ p : Token → Bool, ts.all p = (p q.1 && p q.2.1 && p q.2.2.1 && p q.2.2.2)) := by
  unfold expandTokenQuad at h
  split at h
  · rename_i hall
    have hmem : ∀ t ∈ ts, t.kind.isNumeric = true ∨ (t.kind = .ident ∧ al ≠ [] ∧ t.text = al) := by
      intro t ht
      have := List.all_eq_true.mp hall t ht
      simpa [and_assoc] using this
    match ts, h with
    | [a], h =>
      cases h
      refine ⟨rfl, by simp, by simp, hmem, ?_, ?_⟩
      · intro s; cases s <;> simp [pickT]
      · intro p; simp
    | [a, c], h =>
      cases h
      refine ⟨rfl, by simp, by simp, hmem, ?_, ?_⟩
      · intro s; cases s <;> simp [pickT]
      · intro p; simp; cases p a <;> cases p c <;> rfl
    | [a, c, d], h =>
      cases h
      refine ⟨rfl, by simp, by simp, hmem, ?_, ?_⟩
      · intro s; cases s <;> simp [pickT]
      · intro p; simp; cases p a <;> cases p c <;> cases p d <;> rfl
    | [a, c, d, e], h =>
      cases h
      refine ⟨rfl, by simp, by simp, hmem, ?_, ?_⟩
      · intro s; cases s <;> simp [pickT]
      · intro p; simp [Bool.and_assoc]
    | [], h => simp at h
    | _ :: _ :: _ :: _ :: _ :: _, h => simp at h
  · simp at h

theorem pick_core (q : Token × Token × Token × Token) (s : Side) :
    pick (q.1.core, q.2.1.core, q.2.2.1.core, q.2.2.2.core) s = (pickT q s).core := by
  cases s <;> rfl

theorem lowerAscii_auto : lowerAscii (b "auto") = b "auto" := by decide

theorem propOf_tracked {f : Family} {k : Key} (h : Tracked f k) : propOf F k = none ∨ f = F := by
  rcases h with rfl | ⟨s, rfl⟩ <;> simp only [propOf] <;> by_cases hf : f = F <;> simp [hf]

variable {B F}

theorem cD_none (s : Side) (imp : Bool) (d : CssBox.Decl) (h : propOf F d.key = none) : cD B F s imp d = none :=
  contribution_none B s imp _ h

theorem cD_side (hB : CssFacts B F) (s x : Side) (imp : Bool) (d : CssBox.Decl) (t : Token)
    (hk : d.key = .box F (.side x)) (hv : d.value = [t]) (ht : TrackerAccepts F t) :
    cD B F s imp d = if d.important = imp ∧ okT B t = true ∧ x = s then some (.known (B.den t.core)) else none := by
  unfold cD
  rw [contribution_side B s x imp (view F d) t.core (by simp [view, hk, propOf]) (by simp [view, hv]) (hB.plain t ht),
    hB.ok_side x t ht]
  rfl

theorem cD_shorthand (hB : CssFacts B F) (s : Side) (imp : Bool) (d : CssBox.Decl) (al : List Nat)
    (q : Token × Token × Token × Token)
    (hk : d.key = .box F .shorthand) (hq : expandTokenQuad d.value al = some q)
    (hal : al = if famAllowAuto F = true then b "auto" else []) :
    (∀ t ∈ d.value, TrackerAccepts F t) ∧
    cD B F s imp d =
      if d.important = imp ∧ d.value.all (okT B) = true then some (.known (B.den (pickT q s).core)) else none := by
  obtain ⟨hquad, h1, h4, hmem, _, _⟩ := expandTokenQuad_spec d.value al q hq
  have hacc : ∀ t ∈ d.value, TrackerAccepts F t := by
    intro t ht
    rcases hmem t ht with h | ⟨hi, hne, htx⟩
    · exact Or.inl h
    · right
      by_cases ha : famAllowAuto F = true
      · simp only [ha, if_true] at hal
        exact ⟨ha, hi, by rw [htx, hal]; exact lowerAscii_auto⟩
      · simp only [ha] at hal; exact absurd hal hne
  refine ⟨hacc, ?_⟩
  unfold cD
  have hpl : (view F d).value.all B.plain = true := by
    simp only [view, List.all_map, List.all_eq_true]
    intro t ht; exact hB.plain t (hacc t ht)
  rw [contribution_shorthand B s imp (view F d) _ (by simp [view, hk, propOf]) hquad hpl]
  have hok : B.ok .shorthand (view F d).value = d.value.all (okT B) := hB.ok_shorthand d.value h1 h4 hacc
  rw [hok, pick_core]
  rfl


theorem all_setWs (p : Token → Bool) (hp : ∀ t t' : Token, t.core = t'.core → p t = p t') (mw : Bool) (n i : Nat)
    (l : List Token) : (setWs mw n i l).all p = l.all p := by
  induction l generalizing i with
  | nil => rfl
  | cons t r ih =>
    simp only [setWs, List.all_cons, ih]
    rw [hp { t with ws := wsOf mw i n } t rfl]

theorem all_compactTokenQuad (p : Token → Bool) (hp : ∀ t t' : Token, t.core = t'.core → p t = p t')
    (a c d e : Token) (mw : Bool) : (compactTokenQuad a c d e mw).all p = (p a && p c && p d && p e) := by
  rw [compactTokenQuad_eq, all_setWs p hp]
  unfold compactRaw
  by_cases h1 : e.eqIW c = true
  · have e1 := hp _ _ ((eqIW_iff _ _).mp h1)
    by_cases h2 : d.eqIW a = true
    · have e2 := hp _ _ ((eqIW_iff _ _).mp h2)
      by_cases h3 : c.eqIW a = true
      · have e3 := hp _ _ ((eqIW_iff _ _).mp h3)
        simp [h1, h2, h3, e1, e2, e3]
      · simp [h1, h2, h3, e1, e2]; cases p a <;> cases p c <;> rfl
    · simp [h1, h2, e1]; cases p a <;> cases p c <;> cases p d <;> rfl
  · simp [h1, Bool.and_assoc]

theorem mem_compactTokenQuad_core (a c d e : Token) (mw : Bool) (t : Token) (h : t ∈ compactTokenQuad a c d e mw) :
    t.core = a.core ∨ t.core = c.core ∨ t.core = d.core ∨ t.core = e.core := by
  rw [compactTokenQuad_eq] at h
  obtain ⟨t', ht', hk, htx, _⟩ := setWs_mem_core _ _ _ _ _ h
  have hc : t.core = t'.core := by simp [Token.core, hk, htx]
  rcases compactRaw_mem _ _ _ _ _ ht' with rfl | rfl | rfl | rfl <;> simp [hc]

theorem cD_merged (hB : CssFacts B F) (box : Tracker) (mw : Bool) (hkt : box.keyText = famName F)
    (hacc : ∀ s, TrackerAccepts F (box.sides.get s).token) (s : Side) (imp : Bool) :
    cD B F s imp (box.merged mw) =
      if box.important = imp ∧ (okT B box.sides.top.token && okT B box.sides.right.token &&
            okT B box.sides.bottom.token && okT B box.sides.left.token) = true
      then some (.known (B.den (box.sides.get s).token.core)) else none := by
  have ha := hacc .top
  have hb := hacc .right
  have hc := hacc .bottom
  have hd := hacc .left
  simp only [Sides.get] at ha hb hc hd
  have hmem : ∀ t ∈ (box.merged mw).value, TrackerAccepts F t := by
    intro t ht
    rcases mem_compactTokenQuad_core _ _ _ _ _ _ ht with h | h | h | h
    · exact TrackerAccepts.of_core F h.symm ha
    · exact TrackerAccepts.of_core F h.symm hb
    · exact TrackerAccepts.of_core F h.symm hc
    · exact TrackerAccepts.of_core F h.symm hd
  have hlen := compactRaw_length box.sides.top.token box.sides.right.token box.sides.bottom.token box.sides.left.token
  have hl : (box.merged mw).value.length = (compactRaw box.sides.top.token box.sides.right.token box.sides.bottom.token
      box.sides.left.token).length := by
    simp [Tracker.merged, compactTokenQuad_eq, setWs_length]
  unfold cD
  have hpl : (view F (box.merged mw)).value.all B.plain = true := by
    simp only [view, List.all_map, List.all_eq_true]
    intro t ht; exact hB.plain t (hmem t ht)
  have hkey : (box.merged mw).key = .box F .shorthand := by
    simp only [Decl.key, Tracker.merged, hkt]; exact keyOfText_famName F
  rw [contribution_shorthand B s imp (view F (box.merged mw)) _ (by simp [view, hkey, propOf])
    (quad_compactTokenQuad _ _ _ _ mw) hpl]
  have hok : B.ok .shorthand (view F (box.merged mw)).value = (box.merged mw).value.all (okT B) :=
    hB.ok_shorthand _ (by rw [hl]; exact hlen.1) (by rw [hl]; exact hlen.2) hmem
  have hall : (box.merged mw).value.all (okT B) = (okT B box.sides.top.token && okT B box.sides.right.token &&
      okT B box.sides.bottom.token && okT B box.sides.left.token) :=
    all_compactTokenQuad (okT B) (fun t t' h => okT_of_core B h) _ _ _ _ mw
  simp only [hok, hall]
  cases s <;> rfl

end
end EsbuildModel.CssBox
