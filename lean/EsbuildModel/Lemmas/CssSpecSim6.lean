import EsbuildModel.Lemmas.CssSpecSim5
/-!
Simulation model ↔ specification, part 6: one token (§4.3.1) for every start other than whitespace and comments.
-/
namespace EsbuildModel.CssLex
open EsbuildModel.Spec
open EsbuildModel.Spec.Unicode (IsScalar)

/-- the readings of the specification under which esbuild's lexer is described -/
def esbuildQuirks : CssSyntax.Quirks := ⟨true, true, true, true⟩

/-- the token the specification produces where the model runs `lexOther c t`, in the common view -/
def otherView (c : Ch) (t : List Ch) : View :=
  match (lexOther c t).kind with
  | .TString => ⟨.TString, strVal c.cp t, [], false⟩
  | .THash => ⟨.THash, (nameCps t).1, [], wouldStartIdentifier t⟩
  | .TAtKeyword => ⟨.TAtKeyword, (nameCps t).1, [], false⟩
  | .TIdent => ⟨.TIdent, identLikeVal (c :: t), [], false⟩
  | .TFunction => ⟨.TFunction, identLikeVal (c :: t), [], false⟩
  | .TURL => ⟨.TURL, identLikeVal (c :: t), [], false⟩
  | .TNumber => ⟨.TNumber, cpsOf (numChars (c :: t)), [], false⟩
  | .TPercentage => ⟨.TPercentage, cpsOf (numChars (c :: t)), [], false⟩
  | .TDimension => ⟨.TDimension, cpsOf (numChars (c :: t)), (nameCps (skipNumber (c :: t))).1, false⟩
  | k => if isDelimKind k then ⟨k, [c.cp], [], false⟩ else ⟨k, [], [], false⟩

theorem lookupT_none (c : Nat) : ∀ (l : List (Nat × T)), lookupT c l = none → ∀ p ∈ l, p.1 ≠ c
  | [], _, _, hp => by simp at hp
  | (a, k) :: r, h, p, hp => by
    simp only [lookupT] at h
    split at h
    · simp at h
    · next hne =>
      simp only [List.mem_cons] at hp
      rcases hp with rfl | hp
      · simpa using fun h' : a = c => hne (by simp [h'])
      · exact lookupT_none c r h p hp

/-- the specification's token for a code point that starts nothing longer -/
def specSingle (c : Nat) : CssSyntax.Token :=
  match CssSyntax.singleCodePointToken c with
  | some tok => tok
  | none => .delim c

theorem singleTable_spec : ∀ p ∈ singleCharTable,
    specView (specSingle p.1) = (if isDelimKind p.2 then ⟨p.2, [p.1], [], false⟩ else ⟨p.2, [], [], false⟩ : View) := by
  decide

/-- what the model needs to know about the first rune to follow the `switch` of `next()` -/
structure Start (c : Ch) (t : List Ch) : Prop where
  tame : Tame (c :: t)
  notWs : isWhitespace c.cp = false

theorem Start.ne_cr {c : Ch} {t : List Ch} (h : Start c t) : c.cp ≠ 13 := by
  intro hc; have := h.notWs; simp [isWhitespace, hc] at this

theorem Start.ppc {c : Ch} {t : List Ch} (h : Start c t) : ppc c.cp = c.cp := by
  apply ppc_of_not_newline
  have := h.notWs
  unfold isWhitespace at this; unfold isNewline
  simp only [Bool.or_eq_false_iff, beq_eq_false_iff_ne, ne_eq] at this ⊢; omega

theorem Start.pp {c : Ch} {t : List Ch} (h : Start c t) : ppS (c :: t) = c.cp :: ppS t := by
  rw [h.tame.cons (crlfAt_of_ne_cr c t h.ne_cr), h.ppc]

theorem Start.wsS {c : Ch} {t : List Ch} (h : Start c t) : CssSyntax.isWhitespace c.cp = false := by
  rw [← h.ppc, cls_whitespace]; exact h.notWs

/-- strings -/
theorem sim_lexOther_string (c : Ch) (t : List Ch) (h : Start c t) (hq : c.cp = 34 ∨ c.cp = 39) :
    Rel (lexOther c t).rest (CssSyntax.consumeToken esbuildQuirks c.cp (ppS t)).2 ∧
    specView (CssSyntax.consumeToken esbuildQuirks c.cp (ppS t)).1 = otherView c t := by
  have hq' : (c.cp == 34 || c.cp == 39) = true := by rcases hq with h | h <;> simp [h]
  have hlex : lexOther c t = .ofPair (stringLoop c.cp t) := by
    unfold lexOther; simp only [hq', if_true, consumeString]
  have hspec : CssSyntax.consumeToken esbuildQuirks c.cp (ppS t) = CssSyntax.stringLoop esbuildQuirks c.cp [] (ppS t) := by
    unfold CssSyntax.consumeToken
    have : c.cp = 0x22 ∨ c.cp = 0x27 := by omega
    simp only [h.wsS, Bool.false_eq_true, if_false, this, if_true]
  rw [hspec, sim_stringLoop esbuildQuirks rfl rfl c.cp hq t h.tame.tail []]
  unfold otherView
  rw [hlex]
  simp only [Lexed.ofPair]
  have htr : Tame (stringLoop c.cp t).2 := h.tame.tail.suffix (stringLoop_suffix _ _)
  refine ⟨Rel.refl _ htr, ?_⟩
  rcases stringLoop_kind c.cp t with hk | hk <;> simp [hk, specView, isDelimKind]

/-- the conclusion of the one-token simulation -/
def OtherSim (c : Ch) (t : List Ch) : Prop :=
  Rel (lexOther c t).rest (CssSyntax.consumeToken esbuildQuirks c.cp (ppS t)).2 ∧
  specView (CssSyntax.consumeToken esbuildQuirks c.cp (ppS t)).1 = otherView c t

theorem otherSim_numeric (c : Ch) (t : List Ch) (h : Start c t)
    (hlex : lexOther c t = .ofNumeric (consumeNumeric (c :: t)))
    (hspec : CssSyntax.consumeToken esbuildQuirks c.cp (ppS t) = CssSyntax.consumeNumeric esbuildQuirks (c.cp :: ppS t)) :
    OtherSim c t := by
  unfold OtherSim otherView
  rw [hspec, hlex, ← h.pp]
  obtain ⟨h1, h2⟩ := sim_consumeNumeric esbuildQuirks rfl (c :: t) h.tame
  rw [h1, h2]
  simp only [Lexed.ofNumeric]
  have htr : Tame (consumeNumeric (c :: t)).2.1 := h.tame.suffix (consumeNumeric_suffix _).1
  refine ⟨Rel.refl _ htr, ?_⟩
  rcases consumeNumeric_kind (c :: t) with hk | hk | hk <;> simp [hk]

theorem otherSim_identLike (c : Ch) (t : List Ch) (h : Start c t)
    (hlex : lexOther c t = .ofPair (consumeIdentLike (c :: t)))
    (hspec : CssSyntax.consumeToken esbuildQuirks c.cp (ppS t) = CssSyntax.consumeIdentLike esbuildQuirks (c.cp :: ppS t)) :
    OtherSim c t := by
  unfold OtherSim otherView
  rw [hspec, hlex, ← h.pp]
  obtain ⟨h1, h2⟩ := sim_consumeIdentLike esbuildQuirks rfl (c :: t) h.tame
  rw [h2]
  simp only [Lexed.ofPair]
  refine ⟨h1, ?_⟩
  rcases consumeIdentLike_kind (c :: t) with hk | hk | hk | hk
  · simp [hk]
  · simp [hk]
  · simp [hk]
  · simp [hk, identLikeVal, isDelimKind]

theorem otherSim_delim (c : Ch) (t : List Ch) (h : Start c t) (k : T)
    (hlex : lexOther c t = .simple k t) (hk : k = delimKind c.cp) (hkd : isDelimKind k = true)
    (hspec : CssSyntax.consumeToken esbuildQuirks c.cp (ppS t) = (.delim c.cp, ppS t)) :
    OtherSim c t := by
  unfold OtherSim otherView
  rw [hspec, hlex]
  simp only [Lexed.simple]
  refine ⟨Rel.refl _ h.tame.tail, ?_⟩
  subst hk
  have hne : ∀ v u i, (⟨delimKind c.cp, [c.cp], [], false⟩ : View) = ⟨delimKind c.cp, v, u, i⟩ → True := fun _ _ _ _ => trivial
  generalize hdk : delimKind c.cp = k at hkd
  cases k <;> simp [isDelimKind] at hkd <;> simp [specView, hdk, isDelimKind]

theorem sim_headIdentCode (t : List Ch) (ht : Tame t) :
    CssSyntax.nextIsIdentCode (ppS t) = headIs isNameContinue t := by
  cases t with
  | nil => rfl
  | cons d u =>
    obtain ⟨r, hr⟩ := ht.head
    rw [hr]
    simp [CssSyntax.nextIsIdentCode, headIs, cls_identCode d.cp ht.ne0]

theorem sim_lexOther_hash (c : Ch) (t : List Ch) (h : Start c t) (hc : c.cp = 35) : OtherSim c t := by
  have hic := sim_headIdentCode t h.tame.tail
  have hve := sim_validEscape t h.tame.tail
  have hid := sim_consumeIdentSeq t h.tame.tail
  have hws := sim_wouldStartIdent t h.tame.tail
  by_cases hcond : (headIs isNameContinue t || isValidEscape t) = true
  · have hlex : lexOther c t = ⟨.THash, (consumeName t).2, t, wouldStartIdentifier t⟩ := by
      unfold lexOther; simp [hc, hcond]
    have hspec : CssSyntax.consumeToken esbuildQuirks c.cp (ppS t) =
        (.hash (CssSyntax.consumeIdentSeq (ppS t)).1 (if CssSyntax.wouldStartIdent (ppS t) then .id else .unrestricted),
         (CssSyntax.consumeIdentSeq (ppS t)).2) := by
      unfold CssSyntax.consumeToken
      rw [hic, hve]
      simp [hc, hcond, CssSyntax.isWhitespace, CssSyntax.isNewline]
    unfold OtherSim otherView
    rw [hspec, hlex, hid, hws, consumeName_rest]
    have htr : Tame (nameCps t).2 := h.tame.tail.suffix (by rw [← consumeName_rest]; exact consumeName_suffix t)
    refine ⟨Rel.refl _ htr, ?_⟩
    by_cases hw : wouldStartIdentifier t = true <;> simp [specView, hw]
  · have hcond' : (headIs isNameContinue t || isValidEscape t) = false := by simpa using hcond
    apply otherSim_delim c t h .TDelim
    · unfold lexOther; simp [hc, hcond']
    · simp [delimKind, hc]
    · rfl
    · unfold CssSyntax.consumeToken
      rw [hic, hve]
      simp [hc, hcond', CssSyntax.isWhitespace, CssSyntax.isNewline]

theorem sim_lexOther_at (c : Ch) (t : List Ch) (h : Start c t) (hc : c.cp = 64) : OtherSim c t := by
  have hid := sim_consumeIdentSeq t h.tame.tail
  have hws := sim_wouldStartIdent t h.tame.tail
  by_cases hcond : wouldStartIdentifier t = true
  · have hlex : lexOther c t = .simple .TAtKeyword (consumeName t).2 := by
      unfold lexOther; simp [hc, hcond]
    have hspec : CssSyntax.consumeToken esbuildQuirks c.cp (ppS t) =
        (.atKeyword (CssSyntax.consumeIdentSeq (ppS t)).1, (CssSyntax.consumeIdentSeq (ppS t)).2) := by
      unfold CssSyntax.consumeToken
      rw [hws]
      simp [hc, hcond, CssSyntax.isWhitespace, CssSyntax.isNewline, CssSyntax.wouldStartNumber, CssSyntax.isDigit]
    unfold OtherSim otherView
    rw [hspec, hlex, hid]
    simp only [Lexed.simple, consumeName_rest]
    have htr : Tame (nameCps t).2 := h.tame.tail.suffix (by rw [← consumeName_rest]; exact consumeName_suffix t)
    exact ⟨Rel.refl _ htr, by simp [specView]⟩
  · have hcond' : wouldStartIdentifier t = false := by simpa using hcond
    apply otherSim_delim c t h .TDelim
    · unfold lexOther; simp [hc, hcond']
    · simp [delimKind, hc]
    · rfl
    · unfold CssSyntax.consumeToken
      rw [hws]
      simp [hc, hcond', CssSyntax.isWhitespace, CssSyntax.isNewline, CssSyntax.wouldStartNumber, CssSyntax.isDigit]

theorem sim_lexOther_plus (c : Ch) (t : List Ch) (h : Start c t) (hc : c.cp = 43) : OtherSim c t := by
  have hwn := sim_wouldStartNumber (c :: t) h.tame
  rw [h.pp] at hwn
  by_cases hcond : wouldStartNumber (c :: t) = true
  · apply otherSim_numeric c t h
    · unfold lexOther; simp [hc] at hcond ⊢; simp [hcond]
    · unfold CssSyntax.consumeToken; rw [hwn]; simp [hc] at hcond ⊢
      simp [hcond, CssSyntax.isWhitespace, CssSyntax.isNewline]
  · have hcond' : wouldStartNumber (c :: t) = false := by simpa using hcond
    apply otherSim_delim c t h .TDelimPlus
    · unfold lexOther; simp [hc] at hcond' ⊢; simp [hcond']
    · simp [delimKind, hc]
    · rfl
    · unfold CssSyntax.consumeToken; rw [hwn]; simp [hc] at hcond' ⊢
      simp [hcond', CssSyntax.isWhitespace, CssSyntax.isNewline]

theorem sim_lexOther_dot (c : Ch) (t : List Ch) (h : Start c t) (hc : c.cp = 46) : OtherSim c t := by
  have hwn := sim_wouldStartNumber (c :: t) h.tame
  rw [h.pp] at hwn
  by_cases hcond : wouldStartNumber (c :: t) = true
  · apply otherSim_numeric c t h
    · unfold lexOther; simp [hc] at hcond ⊢; simp [hcond]
    · unfold CssSyntax.consumeToken; rw [hwn]; simp [hc] at hcond ⊢
      simp [hcond, CssSyntax.isWhitespace, CssSyntax.isNewline]
  · have hcond' : wouldStartNumber (c :: t) = false := by simpa using hcond
    apply otherSim_delim c t h .TDelimDot
    · unfold lexOther; simp [hc] at hcond' ⊢; simp [hcond']
    · simp [delimKind, hc]
    · rfl
    · unfold CssSyntax.consumeToken; rw [hwn]; simp [hc] at hcond' ⊢
      simp [hcond', CssSyntax.isWhitespace, CssSyntax.isNewline]

/-- the first two preprocessed code points of a tame state -/
theorem ppS_two (d e : Ch) (u : List Ch) (ht : Tame (d :: e :: u)) (hd : d.cp ≠ 13) :
    ∃ r, ppS (d :: e :: u) = ppc d.cp :: ppc e.cp :: r := by
  rw [ht.cons (crlfAt_of_ne_cr d _ hd)]
  obtain ⟨r, hr⟩ := ht.tail.head
  exact ⟨r, by rw [hr]⟩

theorem sim_lexOther_minus (c : Ch) (t : List Ch) (h : Start c t) (hc : c.cp = 45) : OtherSim c t := by
  have hwn := sim_wouldStartNumber (c :: t) h.tame
  have hwi := sim_wouldStartIdent (c :: t) h.tame
  rw [h.pp] at hwn hwi
  by_cases hcond : wouldStartNumber (c :: t) = true
  · apply otherSim_numeric c t h
    · unfold lexOther; simp [hc] at hcond ⊢; simp [hcond]
    · unfold CssSyntax.consumeToken; rw [hwn]; simp [hc] at hcond ⊢
      simp [hcond, CssSyntax.isWhitespace, CssSyntax.isNewline]
  · have hcond' : wouldStartNumber (c :: t) = false := by simpa using hcond
    -- is it `-->`?
    by_cases hcdc : ∃ d e u, t = d :: e :: u ∧ d.cp = 45 ∧ e.cp = 62
    · obtain ⟨d, e, u, rfl, hd, he⟩ := hcdc
      have hlex : lexOther c (d :: e :: u) = .simple .TCDC u := by
        unfold lexOther; simp [hc] at hcond' ⊢; simp [hcond', hd, he]
      have htt := h.tame.tail
      have hpp : ppS (d :: e :: u) = 45 :: 62 :: ppS u := by
        rw [htt.cons (crlfAt_of_ne_cr d _ (by omega)), htt.tail.cons (crlfAt_of_ne_cr e _ (by omega)),
          (ppc_eq_iff _ 45 (by omega) (by omega) (by omega)).2 hd, (ppc_eq_iff _ 62 (by omega) (by omega) (by omega)).2 he]
      have hspec : CssSyntax.consumeToken esbuildQuirks c.cp (ppS (d :: e :: u)) = (.cdc, ppS u) := by
        unfold CssSyntax.consumeToken; rw [hwn, hpp]; simp [hc] at hcond' ⊢
        simp [hcond', CssSyntax.isWhitespace, CssSyntax.isNewline]
      unfold OtherSim otherView
      rw [hspec, hlex]
      exact ⟨Rel.refl _ htt.tail.tail, by simp [Lexed.simple, specView, isDelimKind]⟩
    · -- not `-->`: the specification does not see `->` either
      have hnocdc : ∀ u', ppS t ≠ 0x2D :: 0x3E :: u' := by
        intro u' hu
        apply hcdc
        match t, hu with
        | [], hu => simp [ppS_nil] at hu
        | [d], hu =>
          have := h.tame.tail.cons (show crlfAt d [] = false by simp [crlfAt, headIs])
          rw [this, ppS_nil] at hu; simp at hu
        | d :: e :: u, hu =>
          have hd13 : d.cp ≠ 13 := by
            intro h13
            obtain ⟨r, hr⟩ := h.tame.tail.head
            rw [hr, h13] at hu; simp [ppc] at hu
          obtain ⟨r, hr⟩ := ppS_two d e u h.tame.tail hd13
          rw [hr] at hu
          simp only [List.cons.injEq] at hu
          exact ⟨d, e, u, rfl, (ppc_eq_iff _ 45 (by omega) (by omega) (by omega)).1 hu.1,
            (ppc_eq_iff _ 62 (by omega) (by omega) (by omega)).1 hu.2.1⟩
      have hspecrest : CssSyntax.consumeToken esbuildQuirks c.cp (ppS t) =
          (if CssSyntax.wouldStartIdent (c.cp :: ppS t) then CssSyntax.consumeIdentLike esbuildQuirks (c.cp :: ppS t)
           else (.delim c.cp, ppS t)) := by
        unfold CssSyntax.consumeToken; rw [hwn]; simp [hc] at hcond' ⊢
        simp only [hcond', CssSyntax.isWhitespace, CssSyntax.isNewline, Bool.false_eq_true, if_false]
        simp only [show ((45 : Nat) == 10) = false from rfl, show ((45 : Nat) == 9) = false from rfl,
          show ((45 : Nat) == 32) = false from rfl, Bool.or_self, Bool.false_eq_true, if_false]
      have hlexrest : lexOther c t =
          (if wouldStartIdentifier (c :: t) then .ofPair (consumeIdentLike (c :: t)) else .simple .TDelimMinus t) := by
        unfold lexOther; simp [hc] at hcond' ⊢
        simp only [hcond', Bool.false_eq_true, if_false]
        split
        · next d e u =>
          have : ¬ (d.cp = 45 ∧ e.cp = 62) := fun hh => hcdc ⟨d, e, u, rfl, hh.1, hh.2⟩
          simp [this]
        · rfl
      by_cases hid : wouldStartIdentifier (c :: t) = true
      · apply otherSim_identLike c t h
        · rw [hlexrest]; simp [hid]
        · rw [hspecrest, hwi]; simp [hid]
      · have hid' : wouldStartIdentifier (c :: t) = false := by simpa using hid
        apply otherSim_delim c t h .TDelimMinus
        · rw [hlexrest]; simp [hid']
        · simp [delimKind, hc]
        · rfl
        · rw [hspecrest, hwi]; simp [hid']

theorem sim_lexOther_lt (c : Ch) (t : List Ch) (h : Start c t) (hc : c.cp = 60) : OtherSim c t := by
  by_cases hcdo : ∃ d e f u, t = d :: e :: f :: u ∧ d.cp = 33 ∧ e.cp = 45 ∧ f.cp = 45
  · obtain ⟨d, e, f, u, rfl, hd, he, hf⟩ := hcdo
    have hlex : lexOther c (d :: e :: f :: u) = .simple .TCDO u := by
      unfold lexOther; simp [hc, hd, he, hf]
    have htt := h.tame.tail
    have hpp : ppS (d :: e :: f :: u) = 33 :: 45 :: 45 :: ppS u := by
      rw [htt.cons (crlfAt_of_ne_cr d _ (by omega)), htt.tail.cons (crlfAt_of_ne_cr e _ (by omega)),
        htt.tail.tail.cons (crlfAt_of_ne_cr f _ (by omega)),
        (ppc_eq_iff _ 33 (by omega) (by omega) (by omega)).2 hd, (ppc_eq_iff _ 45 (by omega) (by omega) (by omega)).2 he,
        (ppc_eq_iff _ 45 (by omega) (by omega) (by omega)).2 hf]
    have hspec : CssSyntax.consumeToken esbuildQuirks c.cp (ppS (d :: e :: f :: u)) = (.cdo, ppS u) := by
      unfold CssSyntax.consumeToken; rw [hpp]
      simp [hc, CssSyntax.isWhitespace, CssSyntax.isNewline]
    unfold OtherSim otherView
    rw [hspec, hlex]
    exact ⟨Rel.refl _ htt.tail.tail.tail, by simp [Lexed.simple, specView, isDelimKind]⟩
  · have hnocdo : ∀ u', ppS t ≠ 0x21 :: 0x2D :: 0x2D :: u' := by
      intro u' hu
      apply hcdo
      match t, hu with
      | [], hu => simp [ppS_nil] at hu
      | [d], hu =>
        have := h.tame.tail.cons (show crlfAt d [] = false by simp [crlfAt, headIs])
        rw [this, ppS_nil] at hu; simp at hu
      | [d, e], hu =>
        have hd13 : d.cp ≠ 13 := by
          intro h13
          obtain ⟨r, hr⟩ := h.tame.tail.head
          rw [hr, h13] at hu; simp [ppc] at hu
        rw [h.tame.tail.cons (crlfAt_of_ne_cr d _ hd13),
          h.tame.tail.tail.cons (show crlfAt e [] = false by simp [crlfAt, headIs]), ppS_nil] at hu
        simp at hu
      | d :: e :: f :: u, hu =>
        have hd13 : d.cp ≠ 13 := by
          intro h13
          obtain ⟨r, hr⟩ := h.tame.tail.head
          rw [hr, h13] at hu; simp [ppc] at hu
        rw [h.tame.tail.cons (crlfAt_of_ne_cr d _ hd13)] at hu
        have he13 : e.cp ≠ 13 := by
          intro h13
          obtain ⟨r, hr⟩ := h.tame.tail.tail.head
          rw [hr, h13] at hu; simp [ppc] at hu
        obtain ⟨r, hr⟩ := ppS_two e f u h.tame.tail.tail he13
        rw [hr] at hu
        simp only [List.cons.injEq] at hu
        exact ⟨d, e, f, u, rfl, (ppc_eq_iff _ 33 (by omega) (by omega) (by omega)).1 hu.1,
          (ppc_eq_iff _ 45 (by omega) (by omega) (by omega)).1 hu.2.1,
          (ppc_eq_iff _ 45 (by omega) (by omega) (by omega)).1 hu.2.2.1⟩
    apply otherSim_delim c t h .TDelimLessThan
    · unfold lexOther; simp only [hc]
      simp only [show ((60 : Nat) == 34 || (60 : Nat) == 39) = false from rfl, Bool.false_eq_true, if_false,
        show ((60 : Nat) == 35) = false from rfl, show ((60 : Nat) == 43) = false from rfl,
        show ((60 : Nat) == 46) = false from rfl, show ((60 : Nat) == 45) = false from rfl, beq_self_eq_true, if_true]
      split
      · next d e f u =>
        have : ¬ (d.cp = 33 ∧ e.cp = 45 ∧ f.cp = 45) := fun hh => hcdo ⟨d, e, f, u, rfl, hh.1, hh.2.1, hh.2.2⟩
        simp only [Bool.and_eq_true, beq_iff_eq]
        have : ¬ ((d.cp = 33 ∧ e.cp = 45) ∧ f.cp = 45) := fun hh => this ⟨hh.1.1, hh.1.2, hh.2⟩
        simp [this]
      · rfl
    · simp [delimKind, hc]
    · rfl
    · unfold CssSyntax.consumeToken
      simp only [hc, CssSyntax.isWhitespace, CssSyntax.isNewline]
      simp only [show ((60 : Nat) == 10 || (60 : Nat) == 9 || (60 : Nat) == 32) = false from rfl, Bool.false_eq_true,
        if_false, show ¬ ((60 : Nat) = 34 ∨ (60 : Nat) = 39) by omega, show ¬ ((60 : Nat) = 35) by omega,
        show ¬ ((60 : Nat) = 43) by omega, show ¬ ((60 : Nat) = 45) by omega, show ¬ ((60 : Nat) = 46) by omega, if_true]

theorem sim_lexOther_backslash (c : Ch) (t : List Ch) (h : Start c t) (hc : c.cp = 92) : OtherSim c t := by
  have hve := sim_validEscape (c :: t) h.tame
  rw [h.pp] at hve
  by_cases hcond : isValidEscape (c :: t) = true
  · apply otherSim_identLike c t h
    · unfold lexOther; simp [hc] at hcond ⊢; simp [hcond]
    · unfold CssSyntax.consumeToken; rw [hve]; simp [hc] at hcond ⊢
      simp [hcond, CssSyntax.isWhitespace, CssSyntax.isNewline]
  · have hcond' : isValidEscape (c :: t) = false := by simpa using hcond
    apply otherSim_delim c t h .TDelim
    · unfold lexOther; simp [hc] at hcond' ⊢; simp [hcond']
    · simp [delimKind, hc]
    · rfl
    · unfold CssSyntax.consumeToken; rw [hve]; simp [hc] at hcond' ⊢
      simp [hcond', CssSyntax.isWhitespace, CssSyntax.isNewline]

theorem singleTable_classes : ∀ p ∈ singleCharTable,
    CssSyntax.isDigit p.1 = false ∧ CssSyntax.isIdentStart p.1 = false ∧ isDigit p.1 = false ∧ isNameStart p.1 = false ∧
    ¬ (p.1 = 34 ∨ p.1 = 39 ∨ p.1 = 35 ∨ p.1 = 43 ∨ p.1 = 45 ∨ p.1 = 46 ∨ p.1 = 60 ∨ p.1 = 64 ∨ p.1 = 92) := by
  decide

theorem singleTable_kinds : ∀ p ∈ singleCharTable,
    ¬ (p.2 = .TString ∨ p.2 = .THash ∨ p.2 = .TAtKeyword ∨ p.2 = .TIdent ∨ p.2 = .TFunction ∨ p.2 = .TURL ∨
       p.2 = .TNumber ∨ p.2 = .TPercentage ∨ p.2 = .TDimension) := by
  decide

/-- the `switch` cases that are not decided by one particular first rune -/
theorem sim_lexOther_general (c : Ch) (t : List Ch) (h : Start c t)
    (hne : ¬ (c.cp = 34 ∨ c.cp = 39 ∨ c.cp = 35 ∨ c.cp = 43 ∨ c.cp = 45 ∨ c.cp = 46 ∨ c.cp = 60 ∨ c.cp = 64 ∨ c.cp = 92))
    (hslash : c.cp ≠ 47) : OtherSim c t := by
  have hlex0 : lexOther c t =
      (if isDigit c.cp then .ofNumeric (consumeNumeric (c :: t))
       else match singleCharKind c.cp with
         | some k => .simple k t
         | none => if isNameStart c.cp then .ofPair (consumeIdentLike (c :: t)) else .simple .TDelim t) := by
    unfold lexOther
    have e1 : (c.cp == 34 || c.cp == 39) = false := by simp only [Bool.or_eq_false_iff, beq_eq_false_iff_ne]; omega
    have e2 : (c.cp == 35) = false := by simp only [beq_eq_false_iff_ne]; omega
    have e3 : (c.cp == 43) = false := by simp only [beq_eq_false_iff_ne]; omega
    have e4 : (c.cp == 46) = false := by simp only [beq_eq_false_iff_ne]; omega
    have e5 : (c.cp == 45) = false := by simp only [beq_eq_false_iff_ne]; omega
    have e6 : (c.cp == 60) = false := by simp only [beq_eq_false_iff_ne]; omega
    have e7 : (c.cp == 64) = false := by simp only [beq_eq_false_iff_ne]; omega
    have e8 : (c.cp == 92) = false := by simp only [beq_eq_false_iff_ne]; omega
    simp only [e1, e2, e3, e4, e5, e6, e7, e8, Bool.false_eq_true, if_false]
    rfl
  have hspec0 : CssSyntax.consumeToken esbuildQuirks c.cp (ppS t) =
      (if CssSyntax.isDigit c.cp then CssSyntax.consumeNumeric esbuildQuirks (c.cp :: ppS t)
       else if CssSyntax.isIdentStart c.cp then CssSyntax.consumeIdentLike esbuildQuirks (c.cp :: ppS t)
       else match CssSyntax.singleCodePointToken c.cp with
         | some tok => (tok, ppS t)
         | none => (.delim c.cp, ppS t)) := by
    unfold CssSyntax.consumeToken
    have e1 : ¬ (c.cp = 0x22 ∨ c.cp = 0x27) := by omega
    have e2 : ¬ c.cp = 0x23 := by omega
    have e3 : ¬ c.cp = 0x2B := by omega
    have e4 : ¬ c.cp = 0x2D := by omega
    have e5 : ¬ c.cp = 0x2E := by omega
    have e6 : ¬ c.cp = 0x3C := by omega
    have e7 : ¬ c.cp = 0x40 := by omega
    have e8 : ¬ c.cp = 0x5C := by omega
    simp only [h.wsS, Bool.false_eq_true, if_false, e1, e2, e3, e4, e5, e6, e7, e8]
    rfl
  have hdig : CssSyntax.isDigit c.cp = isDigit c.cp := by have := cls_digit c.cp; rw [h.ppc] at this; exact this
  have hids : CssSyntax.isIdentStart c.cp = isNameStart c.cp := by
    have := cls_identStart c.cp h.tame.ne0; rw [h.ppc] at this; exact this
  by_cases hd : isDigit c.cp = true
  · apply otherSim_numeric c t h
    · rw [hlex0]; simp [hd]
    · rw [hspec0, hdig]; simp [hd]
  · have hd' : isDigit c.cp = false := by simpa using hd
    cases hk : singleCharKind c.cp with
    | some k =>
      have hm := lookupT_mem c.cp k _ hk
      obtain ⟨_, c2, _, c4, _⟩ := singleTable_classes _ hm
      have hview := singleTable_spec _ hm
      simp only at c2 c4 hview
      unfold OtherSim otherView
      rw [hspec0, hlex0, hdig]
      simp only [hd', Bool.false_eq_true, if_false, c2, hk, Lexed.simple]
      refine ⟨by unfold specSingle at hview; split <;> exact Rel.refl _ h.tame.tail, ?_⟩
      have hkk : specView (match CssSyntax.singleCodePointToken c.cp with
          | some tok => (tok, ppS t) | none => (CssSyntax.Token.delim c.cp, ppS t)).1 = specView (specSingle c.cp) := by
        unfold specSingle; split <;> rfl
      rw [hkk, hview]
      have hnotin := singleTable_kinds _ hm
      simp only at hnotin
      cases k <;> simp at hnotin <;> simp [isDelimKind]
    | none =>
      have hnone := lookupT_none c.cp _ hk
      by_cases hns : isNameStart c.cp = true
      · apply otherSim_identLike c t h
        · rw [hlex0]; simp [hd', hk, hns]
        · rw [hspec0, hdig, hids]; simp [hd', hns]
      · have hns' : isNameStart c.cp = false := by simpa using hns
        have hnotkey : ∀ a k, (a, k) ∈ singleCharTable → a ≠ c.cp := fun a k hm => hnone (a, k) hm
        have hsingle : CssSyntax.singleCodePointToken c.cp = none := by
          unfold CssSyntax.singleCodePointToken
          have k1 := hnotkey 40 .TOpenParen (by decide)
          have k2 := hnotkey 41 .TCloseParen (by decide)
          have k3 := hnotkey 44 .TComma (by decide)
          have k4 := hnotkey 58 .TColon (by decide)
          have k5 := hnotkey 59 .TSemicolon (by decide)
          have k6 := hnotkey 91 .TOpenBracket (by decide)
          have k7 := hnotkey 93 .TCloseBracket (by decide)
          have k8 := hnotkey 123 .TOpenBrace (by decide)
          have k9 := hnotkey 125 .TCloseBrace (by decide)
          have e : ∀ n : Nat, n ≠ c.cp → ¬ c.cp = n := fun n hn hh => hn hh.symm
          simp [e _ k1, e _ k2, e _ k3, e _ k4, e _ k5, e _ k6, e _ k7, e _ k8, e _ k9]
        apply otherSim_delim c t h .TDelim
        · rw [hlex0]; simp [hd', hk, hns']
        · unfold delimKind
          have k1 := hnotkey 38 .TDelimAmpersand (by decide)
          have k2 := hnotkey 42 .TDelimAsterisk (by decide)
          have k3 := hnotkey 124 .TDelimBar (by decide)
          have k4 := hnotkey 94 .TDelimCaret (by decide)
          have k5 := hnotkey 36 .TDelimDollar (by decide)
          have k6 := hnotkey 61 .TDelimEquals (by decide)
          have k7 := hnotkey 33 .TDelimExclamation (by decide)
          have k8 := hnotkey 62 .TDelimGreaterThan (by decide)
          have k9 := hnotkey 126 .TDelimTilde (by decide)
          have e : ∀ n : Nat, n ≠ c.cp → ¬ c.cp = n := fun n hn hh => hn hh.symm
          have e46 : ¬ c.cp = 46 := by omega
          have e60 : ¬ c.cp = 60 := by omega
          have e45 : ¬ c.cp = 45 := by omega
          have e43 : ¬ c.cp = 43 := by omega
          simp [e _ k1, e _ k2, e _ k3, e _ k4, e _ k5, e _ k6, e _ k7, e _ k8, e _ k9, e46, e60, e45, e43, hslash]
        · rfl
        · rw [hspec0, hdig, hids]; simp [hd', hns', hsingle]

/-- S12: §4.3.1 "consume a token" for every first rune other than whitespace and `/` -/
theorem sim_lexOther (c : Ch) (t : List Ch) (h : Start c t) (hslash : c.cp ≠ 47) : OtherSim c t := by
  by_cases h1 : c.cp = 34 ∨ c.cp = 39
  · exact sim_lexOther_string c t h h1
  by_cases h2 : c.cp = 35
  · exact sim_lexOther_hash c t h h2
  by_cases h3 : c.cp = 43
  · exact sim_lexOther_plus c t h h3
  by_cases h4 : c.cp = 45
  · exact sim_lexOther_minus c t h h4
  by_cases h5 : c.cp = 46
  · exact sim_lexOther_dot c t h h5
  by_cases h6 : c.cp = 60
  · exact sim_lexOther_lt c t h h6
  by_cases h7 : c.cp = 64
  · exact sim_lexOther_at c t h h7
  by_cases h8 : c.cp = 92
  · exact sim_lexOther_backslash c t h h8
  exact sim_lexOther_general c t h (by omega) hslash

/-- a lone `/` -/
theorem sim_slash (c : Ch) (t : List Ch) (h : Start c t) (hc : c.cp = 47) :
    CssSyntax.consumeToken esbuildQuirks c.cp (ppS t) = (.delim 47, ppS t) := by
  unfold CssSyntax.consumeToken
  simp [hc, CssSyntax.isWhitespace, CssSyntax.isNewline, CssSyntax.isDigit, CssSyntax.isIdentStart, CssSyntax.isLetter,
    CssSyntax.isNonAscii, CssSyntax.singleCodePointToken]

end EsbuildModel.CssLex
