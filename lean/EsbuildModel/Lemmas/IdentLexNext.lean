import EsbuildModel.Lemmas.IdentLexComplete
/-! `next` on the spelling of a valid IdentifierName: one token with the name's code points. -/
namespace EsbuildModel.IdentLex
open EsbuildModel.Spec.JsIdentifier
open EsbuildModel.Spec.StrLit (isHexDigit digitsMV)
open EsbuildModel.StrLex

theorem next_ascii (T : Tables) (h127 : T.cont 127 = false) (a : Bool) (c : Nat) (rest : List Nat) (hc : asciiStart c = true) :
    next T a (c :: rest) =
      afterPlain T (fun name => if isKeyword name then .keyword else .ident) false (c :: rest) (1 + spanLen (isIdCont T) rest) := by
  have h35 : c ≠ 35 := by intro h; rw [h] at hc; simp [asciiStart] at hc
  simp only [next, h35, if_false, hc, if_true]
  rw [Nat.add_assoc, asciiArm_len T h127 rest]

theorem next_default (T : Tables) (a : Bool) (c : Nat) (rest : List Nat) (h128 : 128 ≤ c) (hls : c ≠ 0x2028 ∧ c ≠ 0x2029)
    (hws : isWhitespace c = false) (hst : isIdStart T c = true) :
    next T a (c :: rest) = afterPlain T (fun _ => .ident) false (c :: rest) (1 + spanLen (isIdCont T) rest) := by
  have h35 : c ≠ 35 := by omega
  have h92 : c ≠ 92 := by omega
  have hc : asciiStart c = false := by
    cases h : asciiStart c with
    | false => rfl
    | true => have := asciiStart_lt h; omega
  simp [next, h35, hc, h92, hls.1, hls.2, hws, hst]

theorem next_backslash (T : Tables) (a : Bool) (rest : List Nat) : next T a (92 :: rest) = scanEscaped T false (92 :: rest) 0 := by
  simp [next, asciiStart]

theorem chars_cp_eq (cs l : List Nat) (h : (cs.map Elem.char).map Elem.cp = l.map some) : l = cs := by
  induction cs generalizing l with
  | nil => cases l with | nil => rfl | cons _ _ => simp at h
  | cons c r ih =>
    cases l with
    | nil => simp at h
    | cons x l' =>
      simp only [List.map_cons, List.cons.injEq, Elem.cp] at h
      obtain ⟨h1, h2⟩ := h
      split at h1
      · cases h1
      · injection h1 with h1; rw [h1, ih l' h2]

theorem shape_of_valid (T : Tables) {e : Elem} {v : Nat} (hv : e.cp = some v) (hc : isCharElem e = true → isIdCont T v = true) :
    Shape T e := by
  cases e with
  | char c =>
    simp only [Elem.cp] at hv
    split at hv
    · cases hv
    · injection hv with hv; subst hv; exact hc rfl
  | esc4 a b c d =>
    simp only [Elem.cp] at hv
    split at hv
    · rename_i hall
      simpa [Shape, List.all_cons, Bool.and_eq_true] using hall
    · cases hv
  | escBrace ds =>
    simp only [Elem.cp] at hv
    split at hv
    · rename_i hcond
      intro d hd
      have := hcond.2.1
      rw [List.all_eq_true] at this
      exact this d hd
    · cases hv

/-- elementwise view of `es.map cp = cps.map some` -/
inductive Valid : List Elem → List Nat → Prop
  | nil : Valid [] []
  | cons {e : Elem} {v : Nat} {es : List Elem} {cps : List Nat} : e.cp = some v → Valid es cps → Valid (e :: es) (v :: cps)

theorem forall₂_of_map_eq {es : List Elem} {cps : List Nat} (h : es.map Elem.cp = cps.map some) :
    Valid es cps := by
  induction es generalizing cps with
  | nil => cases cps with | nil => exact .nil | cons _ _ => simp at h
  | cons e r ih =>
    cases cps with
    | nil => simp at h
    | cons v cps' =>
      simp only [List.map_cons, List.cons.injEq] at h
      exact .cons h.1 (ih h.2)

theorem shapes_of_valid (T : Tables) {es : List Elem} {cps : List Nat} (h : Valid es cps)
    (hc : ∀ v ∈ cps, isIdCont T v = true) : ∀ e ∈ es, Shape T e := by
  induction h with
  | nil => intro e he; cases he
  | cons hv _ ih =>
    intro e he
    rcases List.mem_cons.1 he with rfl | he
    · exact shape_of_valid T hv (fun _ => hc _ (by simp))
    · exact ih (fun v hv' => hc v (by simp [hv'])) e he

/-- the IdentifierCodePoints of a text made of code points are code points -/
theorem cps_le_of_valid {es : List Elem} {cps : List Nat} (h : Valid es cps)
    (hsrc : ∀ c ∈ textOf es, c ≤ 0x10FFFF) : ∀ v ∈ cps, v ≤ 0x10FFFF := by
  induction h with
  | nil => intro c hc; cases hc
  | cons hv _ ih =>
    rename_i e v es' cps' _
    rw [textOf_cons] at hsrc
    intro c hc
    rcases List.mem_cons.1 hc with rfl | hc
    · exact cp_le (fun x hx => hsrc x (by simp [hx])) hv
    · exact ih (fun x hx => hsrc x (by simp [hx])) c hc

theorem mem_cps_of_mem {es : List Elem} {cps : List Nat} (h : Valid es cps)
    {e : Elem} {v : Nat} (he : e ∈ es) (hv : e.cp = some v) : v ∈ cps := by
  induction h with
  | nil => cases he
  | cons hv' _ ih =>
    rcases List.mem_cons.1 he with rfl | he
    · rw [hv] at hv'; injection hv' with hv'; simp [hv']
    · simp [ih he]

theorem T_cont_127 {T : Tables} {U : UnicodeProps} (A : Agree T U) : T.cont 127 = false := by
  rw [A.cont 127 (by omega) (by omega) (by omega), (A.ascii 127 (by omega)).2]; rfl

theorem keyword_ascii : ∀ k ∈ keywordList, ∀ c ∈ k, asciiCont c = true := by decide

theorem not_keyword_of_nonascii {c : Nat} (r : List Nat) (h : asciiCont c = false) : isKeyword (c :: r) = false := by
  cases hk : isKeyword (c :: r) with
  | false => rfl
  | true =>
    have hm : (c :: r) ∈ keywordList := by simpa [isKeyword] using hk
    have := keyword_ascii _ hm c (by simp)
    rw [this] at h; cases h

/-- everything the arms of `next` need to know about a valid IdentifierName `es` with code points `c0 :: tail` -/
theorem next_elems {T : Tables} {U : UnicodeProps} (A : Agree T U) (atStart : Bool) (es : List Elem) (c0 : Nat) (tail rest : List Nat)
    (hcp : es.map Elem.cp = (c0 :: tail).map some) (hle : ∀ v ∈ c0 :: tail, v ≤ 0x10FFFF)
    (hstart : startChar U c0 = true) (hpart : ∀ d ∈ tail, partChar U d = true)
    (hrest : ∀ c, rest.head? = some c → c ≠ 92 ∧ partChar U c = false) :
    next T atStart (textOf es ++ rest) =
      .tok (if es.all isCharElem then (if isKeyword (c0 :: tail) then .keyword else .ident)
            else (if isKeyword (c0 :: tail) then .escapedKeyword else .ident))
        (textOf es).length (c0 :: tail) (es.all isCharElem) false := by
  have hV := forall₂_of_map_eq hcp
  have hstops : Stops T rest := fun c hc => ⟨(hrest c hc).1, by rw [isIdCont_eq A]; exact (hrest c hc).2⟩
  have hns : ∀ v ∈ c0 :: tail, isSurrogate v = false := by
    intro v hv
    cases hs : isSurrogate v with
    | false => rfl
    | true =>
      obtain ⟨s1, s2⟩ := not_partChar_surrogate A.noSurrogates hs
      rcases List.mem_cons.1 hv with rfl | hv
      · rw [s1] at hstart; cases hstart
      · have := hpart v hv; rw [s2] at this; cases this
  have hsc : Scalars (c0 :: tail) := fun v hv => ⟨hle v hv, hns v hv⟩
  have hid : isIdentifierRunes T (c0 :: tail) = true := by
    simp only [isIdentifierRunes, isIdentifierWith, Bool.and_eq_true, List.all_eq_true]
    exact ⟨by rw [isIdStart_eq A]; exact hstart, fun d hd => by rw [isIdCont_eq A]; exact hpart d hd⟩
  have h13 : Elem.char 13 ∉ es := by
    intro hm
    have h13m : 13 ∈ c0 :: tail := mem_cps_of_mem hV hm (by simp [Elem.cp])
    rcases List.mem_cons.1 h13m with h | h
    · rw [← h, ← isIdStart_eq A] at hstart; simp [isIdStart, asciiStart] at hstart
    · have := hpart 13 h; rw [← isIdCont_eq A] at this; simp [isIdCont, asciiCont, asciiStart] at this
  cases hV with
  | cons hv0 hVt =>
    rename_i e0 es'
    have hshape' : ∀ e ∈ es', Shape T e :=
      shapes_of_valid T hVt (fun v hv => by rw [isIdCont_eq A]; exact hpart v hv)
    cases he0 : isCharElem e0 with
    | false =>
      -- the name begins with an escape: the `\` arm
      have hall : (e0 :: es').all isCharElem = false := by simp [he0]
      have hsh0 : Shape T e0 := shape_of_valid T hv0 (fun h => by rw [he0] at h; cases h)
      have hshape : ∀ e ∈ e0 :: es', Shape T e := by
        intro e he; rcases List.mem_cons.1 he with rfl | he
        · exact hsh0
        · exact hshape' e he
      obtain ⟨l, hl⟩ : ∃ l, textOf (e0 :: es') ++ rest = 92 :: l := by
        cases e0 with
        | char c => simp [isCharElem] at he0
        | esc4 a b c d => exact ⟨117 :: a :: b :: c :: d :: (textOf es' ++ rest), by simp [textOf_cons, Elem.text]⟩
        | escBrace ds => exact ⟨117 :: 123 :: (ds ++ 125 :: (textOf es' ++ rest)), by simp [textOf_cons, Elem.text]⟩
      rw [hall, hl, next_backslash, ← hl]
      unfold scanEscaped
      rw [List.drop_zero, pass1_elems T _ hshape, pass1_stop T rest hstops]
      simp only [Nat.zero_add]
      rw [finishEscaped_elems T _ _ rest hcp h13 hsc hid]
      simp
    | true =>
      -- the name begins with a character: the `'a' … 'Z'` arm or the `default` arm
      obtain ⟨c, rfl⟩ : ∃ c, e0 = .char c := by
        cases e0 with
        | char c => exact ⟨c, rfl⟩
        | esc4 a b c d => simp [isCharElem] at he0
        | escBrace ds => simp [isCharElem] at he0
      have hc0 : c = c0 := by
        simp only [Elem.cp] at hv0
        split at hv0
        · cases hv0
        · injection hv0
      subst hc0
      obtain ⟨hsplit, hhead, hnil⟩ := plainPrefix_spec es'
      generalize hcs : (plainPrefix es').1 = cs at hsplit hhead hnil
      generalize hpost : (plainPrefix es').2 = post at hsplit hhead hnil
      have hshape_post : ∀ e ∈ post, Shape T e := fun e he => hshape' e (by rw [hsplit]; simp [he])
      have hcs_cont : ∀ d ∈ cs, isIdCont T d = true := by
        intro d hd
        have : Shape T (.char d) := hshape' _ (by rw [hsplit]; simp [hd])
        exact this
      have hsrc_eq : textOf (Elem.char c :: es') ++ rest = c :: (cs ++ (textOf post ++ rest)) := by
        rw [textOf_cons, hsplit, textOf_append, textOf_chars]; simp [Elem.text]
      have hlen : (textOf (Elem.char c :: es')).length = (c :: cs).length + (textOf post).length := by
        rw [textOf_cons, hsplit, textOf_append, textOf_chars]; simp [Elem.text]; omega
      have hnext_not_cont : ∀ d, (textOf post ++ rest).head? = some d → isIdCont T d = false := by
        intro d hd
        cases post with
        | nil => exact (hstops d (by simpa [textOf] using hd)).2
        | cons e r =>
          rw [textOf_cons, List.append_assoc, text_head_of_not_char (hhead e r rfl)] at hd
          injection hd with hd; rw [← hd]; exact isIdCont_backslash T
      have hspan : spanLen (isIdCont T) (cs ++ (textOf post ++ rest)) = cs.length :=
        spanLen_elems T cs hcs_cont _ hnext_not_cont
      have hall_eq : (Elem.char c :: es').all isCharElem = es'.all isCharElem := by simp [isCharElem]
      -- both arms lead to the same `afterPlain`, with different keyword lookups
      have key : ∀ k : List Nat → Kind, (k (c :: cs) = if isKeyword (c :: cs) then .keyword else .ident) →
          afterPlain T k false (c :: (cs ++ (textOf post ++ rest))) (1 + cs.length) =
          .tok (if (Elem.char c :: es').all isCharElem then (if isKeyword (c :: tail) then .keyword else .ident)
                else (if isKeyword (c :: tail) then .escapedKeyword else .ident))
            (textOf (Elem.char c :: es')).length (c :: tail) ((Elem.char c :: es').all isCharElem) false := by
        intro k hk
        have hap := afterPlain_elems T k false (c :: cs) post rest hshape_post hhead hstops
        have e1 : (c :: cs).length = 1 + cs.length := by simp; omega
        rw [e1] at hap
        simp only [List.cons_append] at hap
        rw [hap, hall_eq]
        by_cases hp : post = []
        · have hall : es'.all isCharElem = true := hnil.1 hp
          have htail : tail = cs := by
            apply chars_cp_eq cs tail
            have : es' = cs.map Elem.char := by rw [hsplit, hp]; simp
            rw [← this]
            have hcp' := hcp
            simp only [List.map_cons, List.cons.injEq] at hcp'
            exact hcp'.2
          subst hp
          simp only [if_true, hall, hk, htail]
          congr 1
          rw [hlen]; simp [textOf]; omega
        · have hall : es'.all isCharElem = false := by
            cases h : es'.all isCharElem with
            | false => rfl
            | true => exact absurd (hnil.2 h) hp
          simp only [hp, if_false, hall, Bool.false_eq_true]
          have := finishEscaped_elems T _ _ rest hcp h13 hsc hid
          rw [hsrc_eq, hlen] at this
          have e2 : (c :: cs).length + (textOf post).length = 1 + cs.length + (textOf post).length := by simp; omega
          rw [e2] at this
          rw [this, hlen, e2]
      rw [hsrc_eq]
      by_cases hasc : asciiStart c = true
      · rw [next_ascii T (T_cont_127 A) _ _ _ hasc, hspan]
        exact key _ rfl
      · have hasc' : asciiStart c = false := by simpa using hasc
        have hst : isIdStart T c = true := by rw [isIdStart_eq A]; exact hstart
        have h128 : 128 ≤ c := by
          by_cases h : c < 127
          · simp [isIdStart, hasc', h] at hst
          · by_cases h' : c = 127
            · subst h'
              have := (A.ascii 127 (by omega)).1
              rw [isIdStart_eq A] at hst
              simp [startChar, this, isAsciiLetter] at hst
            · omega
        have hidst : U.idStart c = true := by
          have h36 : (c == 36) = false := by simp; omega
          have h95 : (c == 95) = false := by simp; omega
          simpa [startChar, h36, h95] using hstart
        have hls : c ≠ 0x2028 ∧ c ≠ 0x2029 := by
          constructor <;> intro h <;> have := A.noSpace c h128 (by simp [h]) <;> rw [this] at hidst <;> cases hidst
        have hws : isWhitespace c = false := by
          cases h : isWhitespace c with
          | false => rfl
          | true => have := A.noSpace c h128 (Or.inl h); rw [this] at hidst; cases hidst
        rw [next_default T _ _ _ h128 hls hws hst, hspan]
        refine key _ ?_
        have : asciiCont c = false := by
          cases h : asciiCont c with
          | false => rfl
          | true => have := asciiCont_lt h; omega
        rw [not_keyword_of_nonascii cs this]; rfl
