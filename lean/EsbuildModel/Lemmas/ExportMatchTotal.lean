import EsbuildModel.Lemmas.ExportMatchTop
/-! Totality of the model on EVERY table whose indices are in range (CommonJS files, externals, re-export cycles, …
included): `matchLoop` never runs out of fuel and never indexes out of range.  The cycle detector holds pairwise
different trackers out of a finite universe, which bounds the depth of the recursion. -/
namespace EsbuildModel.ExportMatch

/-- what the tracker needs from an entry of `ResolvedExports`: files in range, and the main entry's location is the
location of an export of its file -/
def EntryValid (t : Table) (ex : ExportData) : Prop :=
  (∃ fo, t[ex.src]? = some fo ∧ ∃ e ∈ fo.exports, e.loc = ex.loc) ∧ ∀ d ∈ ex.ambs, d.src < t.length

theorem finds_valid {t : Table} {a : Name} {S : List Nat} {x : Nat} {d : ImportData} (h : Finds t a S x d) :
    ∃ fo, t[d.src]? = some fo ∧ ∃ e ∈ fo.exports, e.loc = d.loc := by
  obtain ⟨fo, e, hfo, he, _, _, hel⟩ := h.entry
  exact ⟨fo, hfo, e, he, hel⟩

theorem resolvedExports_valid {t : Table} {m : Nat} {res : Resolved} (hm : m < t.length)
    (h : resolvedExports t m = some res) (a : Name) (ex : ExportData) (hl : res.lookup a = some ex) :
    EntryValid t ex := by
  have hf : t[m]? = some t[m] := List.getElem?_eq_getElem hm
  obtain ⟨hext, _⟩ := resolvedExports_callSpec hf h a
  rw [hl, ownResolved_lookup] at hext
  have hsrc : ∀ d, Finds t a [] m d → d.src < t.length := by
    intro d hd
    obtain ⟨fo, hfo, _⟩ := finds_valid hd
    exact (List.getElem?_eq_some_iff.1 hfo).1
  cases he : entry t[m] a with
  | none =>
    rw [he] at hext
    simp only [Option.map_none] at hext
    exact ⟨finds_valid hext.1, fun d hd => hsrc d (hext.2 d hd)⟩
  | some e =>
    rw [he] at hext
    simp only [Option.map_some] at hext
    obtain ⟨h1, _, h3, new, h4, h5⟩ := hext
    refine ⟨⟨t[m], by rw [h1]; exact hf, e, (entry_some he).1, h3.symm⟩, ?_⟩
    intro d hd
    rw [h4] at hd
    simp at hd
    exact hsrc d (h5 d hd)

theorem advance_cases {t : Table} {rs : List Resolved} (hwf : WF t) (hrs : allResolved t = some rs) (k : Bool)
    {tr : Tracker} {f : File} {ni : NamedImport} (hf : t[tr.src]? = some f) (hi : findImport f tr.ref = some ni) :
    ∃ next status pot, advance ⟨t, rs, k⟩ tr = some (next, status, pot) ∧
      (status = .found → ∃ fo, t[next.src]? = some fo ∧ (next.loc = 0 ∨ ∃ e ∈ fo.exports, e.loc = next.loc) ∧
        ∀ d ∈ pot, d.src < t.length) := by
  have hfm := List.mem_of_getElem? hf
  have hnim := (findImport_mem hi).1
  unfold advance
  simp only [hf, hi]
  cases htg : ni.target with
  | none => exact ⟨_, _, _, rfl, fun h => by cases h⟩
  | some o =>
    have ho : o < t.length := hwf.targets f hfm ni hnim o htg
    have hother : t[o]? = some t[o] := List.getElem?_eq_getElem ho
    obtain ⟨res, hres1, hres2⟩ := allResolved_get hrs ho
    simp only [hother, hres1]
    split
    · exact ⟨_, _, _, rfl, fun h => by cases h⟩
    · split
      · exact ⟨_, _, _, rfl, fun h => by cases h⟩
      · split
        · exact ⟨_, _, _, rfl, fun _ => ⟨t[o], hother, Or.inl rfl, by simp⟩⟩
        · cases hl : res.lookup ni.alias with
          | some ex =>
            obtain ⟨⟨fo, hfo, hloc⟩, hambs⟩ := resolvedExports_valid ho hres2 ni.alias ex hl
            exact ⟨_, _, _, rfl, fun _ => ⟨fo, hfo, Or.inr hloc, hambs⟩⟩
          | none =>
            simp only
            split
            · exact ⟨_, _, _, rfl, fun h => by cases h⟩
            · split <;> exact ⟨_, _, _, rfl, fun h => by cases h⟩

theorem matchLoop_total {t : Table} {rs : List Resolved} (hwf : WF t) (hrs : allResolved t = some rs) (k : Bool) :
    ∀ (fuel : Nat) (tr : Tracker) (cd : List Tracker) (result : MResult) (ambs : List MResult) (f : File)
      (ni : NamedImport), t[tr.src]? = some f → findImport f tr.ref = some ni → tr ∈ trackers t →
      cd.Nodup → (∀ q ∈ cd, q ∈ trackers t) → (trackers t).length < fuel + cd.length →
      ∃ R, matchLoop ⟨t, rs, k⟩ fuel tr cd result ambs = some R := by
  intro fuel
  induction fuel with
  | zero =>
    intro tr cd result ambs f ni _ _ _ hn hs hfuel
    have := List.Nodup.length_le_of_subset hn hs
    omega
  | succ fuel ih =>
    intro tr cd result ambs f ni hf hi htr hn hs hfuel
    rw [matchLoop]
    by_cases hc : cd.contains tr = true
    · simp only [hc, if_true]; exact ⟨_, rfl⟩
    · have hnot : tr ∉ cd := by simpa using hc
      simp only [hc, Bool.false_eq_true, if_false]
      have hn1 : (cd ++ [tr]).Nodup := by
        rw [List.nodup_append]
        refine ⟨hn, by simp, ?_⟩
        intro p hp q hq hpq
        simp at hq; subst hq; subst hpq
        exact hnot hp
      have hs1 : ∀ q ∈ cd ++ [tr], q ∈ trackers t := by
        intro q hq
        rcases List.mem_append.1 hq with hq | hq
        · exact hs q hq
        · simp at hq; subst hq; exact htr
      have hfuel1 : (trackers t).length < fuel + (cd ++ [tr]).length := by simp; omega
      have hfm := List.mem_of_getElem? hf
      have hnim := (findImport_mem hi).1
      -- the recursive calls: one potentially ambiguous export, and the continuation of the loop
      have hcall : ∀ (s l r : Nat) (res0 : MResult) (ambs0 : List MResult) (fo : File), t[s]? = some fo →
          (l = 0 ∨ ∃ e ∈ fo.exports, e.loc = l) →
          ∃ R, (match isImport t s r with
            | none => none
            | some true => matchLoop ⟨t, rs, k⟩ fuel ⟨s, l, r⟩ (cd ++ [tr]) res0 ambs0
            | some false => some (finish res0 ambs0)) = some R := by
        intro s l r res0 ambs0 fo hfo hl
        rw [isImport_eq hfo]
        cases hfi : findImport fo r with
        | none => exact ⟨_, rfl⟩
        | some nid =>
          simp only [Option.isSome_some]
          exact ih ⟨s, l, r⟩ _ res0 ambs0 fo nid hfo hfi
            (mem_trackers (q := ⟨s, l, r⟩) hfo ⟨nid, (findImport_mem hfi).1, (findImport_mem hfi).2⟩ hl) hn1 hs1 hfuel1
      have hfound : ∀ (next : Tracker) (pot : List ImportData) (fo : File), t[next.src]? = some fo →
          (next.loc = 0 ∨ ∃ e ∈ fo.exports, e.loc = next.loc) → (∀ d ∈ pot, d.src < t.length) →
          ∃ R, (match mapOpt (fun p : ImportData =>
              match isImport t p.src p.ref with
              | none => none
              | some true => matchLoop ⟨t, rs, k⟩ fuel ⟨p.src, 0, p.ref⟩ (cd ++ [tr]) {} []
              | some false => some { kind := .normal, src := p.src, ref := p.ref, loc := p.loc }) pot with
            | none => none
            | some rs1 =>
              match isImport t next.src next.ref with
              | none => none
              | some true => matchLoop ⟨t, rs, k⟩ fuel next (cd ++ [tr])
                  { kind := .normal, src := next.src, ref := next.ref, loc := next.loc } (ambs ++ rs1)
              | some false => some (finish { kind := .normal, src := next.src, ref := next.ref, loc := next.loc }
                  (ambs ++ rs1))) = some R := by
        intro next pot fo hfo hl hpot
        obtain ⟨rs1, hrs1, _, _⟩ := mapOpt_rel (fun p : ImportData =>
              match isImport t p.src p.ref with
              | none => none
              | some true => matchLoop ⟨t, rs, k⟩ fuel ⟨p.src, 0, p.ref⟩ (cd ++ [tr]) {} []
              | some false => some { kind := .normal, src := p.src, ref := p.ref, loc := p.loc })
            (fun _ _ => True) pot (by
          intro p hp
          have hplt := hpot p hp
          have hpf : t[p.src]? = some t[p.src] := List.getElem?_eq_getElem hplt
          rw [isImport_eq hpf]
          cases hfi : findImport t[p.src] p.ref with
          | none => exact ⟨_, rfl, trivial⟩
          | some nid =>
            simp only [Option.isSome_some]
            obtain ⟨R, hR⟩ := ih ⟨p.src, 0, p.ref⟩ _ {} [] _ nid hpf hfi
              (mem_trackers (q := ⟨p.src, 0, p.ref⟩) hpf ⟨nid, (findImport_mem hfi).1, (findImport_mem hfi).2⟩
                (Or.inl rfl)) hn1 hs1 hfuel1
            exact ⟨R, hR, trivial⟩)
        rw [hrs1]
        obtain ⟨nsrc, nloc, nref⟩ := next
        exact hcall nsrc nloc nref _ _ fo hfo hl
      -- the first step
      obtain ⟨next, status, pot, hadv, hvalid⟩ := advance_cases hwf hrs k hf hi
      rw [hadv]
      simp only [hf, hi, Option.bind_some]
      cases status with
      | found =>
        obtain ⟨fo, hfo, hloc, hpot⟩ := hvalid rfl
        exact hfound next pot fo hfo hloc hpot
      | external =>
        simp only
        cases k <;> simp only [Bool.false_eq_true, if_false, if_true]
        · cases ni.nsRef <;> exact ⟨_, rfl⟩
        · exact ⟨_, rfl⟩
      | commonJS => simp only; cases ni.nsRef <;> exact ⟨_, rfl⟩
      | commonJSWithoutExports => simp only; cases ni.nsRef <;> exact ⟨_, rfl⟩
      | dynamicFallback => exact ⟨_, rfl⟩
      | noMatch => exact ⟨_, rfl⟩
      | probablyTS => exact ⟨_, rfl⟩

theorem matchAll_total {t : Table} {rs : List Resolved} (hwf : WF t) (hrs : allResolved t = some rs) (k : Bool) :
    ∃ results, matchAll ⟨t, rs, k⟩ = some results := by
  unfold matchAll
  obtain ⟨bs, hbs, _, _⟩ := mapOpt_rel
    (fun s => match (⟨t, rs, k⟩ : Ctx).t[s]? with
      | none => none
      | some f => mapOpt (fun ni => (matchImport ⟨t, rs, k⟩ s ni.ref).map (fun r => (ni.ref, r))) f.imports)
    (fun _ _ => True) (List.range t.length) (by
      intro s hs
      have hs' : s < t.length := List.mem_range.1 hs
      have hf : t[s]? = some t[s] := List.getElem?_eq_getElem hs'
      simp only [hf]
      obtain ⟨l, hl, _, _⟩ := mapOpt_rel
        (fun ni : NamedImport => (matchImport ⟨t, rs, k⟩ s ni.ref).map (fun r => (ni.ref, r))) (fun _ _ => True)
        t[s].imports (by
          intro ni hni
          have : ∃ ni', findImport t[s] ni.ref = some ni' := by
            unfold findImport
            cases hfind : t[s].imports.find? (·.ref = ni.ref) with
            | some ni' => exact ⟨ni', rfl⟩
            | none => exact absurd (List.find?_eq_none.1 hfind ni hni) (by simp)
          obtain ⟨ni', hni'⟩ := this
          obtain ⟨R, hR⟩ := matchLoop_total hwf hrs k (matchFuel t) ⟨s, 0, ni.ref⟩ [] {} [] t[s] ni' hf hni'
            (mem_trackers (q := ⟨s, 0, ni.ref⟩) hf ⟨ni', (findImport_mem hni').1, (findImport_mem hni').2⟩ (Or.inl rfl))
            List.nodup_nil (by simp) (by simpa using length_trackers_lt t)
          exact ⟨(ni.ref, R), by simp [matchImport, hR], trivial⟩)
      exact ⟨l, hl, trivial⟩)
  exact ⟨bs, hbs⟩

end EsbuildModel.ExportMatch
