import EsbuildModel.Lemmas.Lower3RestEnd
/-!
The loop of `visit` over the properties of an object pattern is right (`visitPPL_ok`), by induction over the
properties still to come; hence `visit` is right for object patterns (`visitObj_ok`).
-/
namespace EsbuildModel.Lower3

/-- the claim about `visitPPL done' todo' …`: running the emitted assignments = evaluating the initialiser and
matching its value against the properties `done₀ ++ todo₀` (and the rest element) as the language says -/
def VPClaim (w : World) (B : Nat) (todo' todo₀ : PPL) : Prop :=
  ∀ (done' done₀ : PPL) (cs : List CK) (nS m0 n : Nat) (rest : Option Nat) (init' : E) (I : TState → Res × TState)
    (cap0 : List CK) (ex0 : List Ex) (chk : Bool) (s s' : TState),
    DoneRel w B rest.isSome done' done₀ cs m0 n → B ≤ nS → nS ≤ m0 →
    init'.wr (ltB nS) = true → RelR (evalE w true init' s) (I s') →
    (∀ j, CK.temp j ∈ cap0 → nS ≤ j ∧ j < m0) → (rest.isSome = true → CapT s.tm cap0 ex0) →
    (chk = false → ∀ v, (I s').1 = .ok v → v.nullish = false) →
    RelQ (fun (_ : Val) _ => True)
      (runAL w true (visitPPL done' todo' rest init' (cap0 ++ (if rest.isSome = true then cs else [])) n).1 s)
      (bindR (I s') fun v s1' => srcTail w chk done₀ todo₀ rest ex0 v s1')

theorem srcTail_pass (w : World) (chk : Bool) (done₀ : PPL) (k : KK) (ke : E) (t : Pat) (hd : Bool) (d : E) (tl : PPL)
    (rest : Option Nat) (ex0 : List Ex) (v : Val) (s' : TState) :
    srcTail w chk done₀ (.prop k ke t hd d tl) rest ex0 v s' =
      srcTail w chk (done₀.append (.prop k ke t hd d .nil)) tl rest ex0 v s' := by
  simp only [srcTail, PPL.append_assoc, PPL.append]

theorem bindPPL_nil (w : World) (g hr : Bool) (v : Val) (ex : List Ex) (s : TState) :
    bindPPL w g .nil hr v ex s = (.ok ex, s) := by simp only [bindPPL]

theorem bindPat_tmp (w : World) (g : Bool) (j : Nat) (v : Val) (s : TState) :
    bindPat w g (.tmp j) v s = (.ok .undef, setTmp j v s) := by simp only [bindPat]

theorem setTmp_tm_self (j : Nat) (v : Val) (s : TState) : (setTmp j v s).tm j = v := by simp [setTmp, upd]
theorem setTmp_tm_ne (j i : Nat) (v : Val) (s : TState) (h : i ≠ j) : (setTmp j v s).tm i = s.tm i := by
  simp [setTmp, upd, h]
@[simp] theorem setTmp_h (j : Nat) (v : Val) (s : TState) : (setTmp j v s).h = s.h := rfl

/-- membership in the captured keys after one more key -/
theorem cap1_mem {hr : Bool} {cap0 cs : List CK} {ck : CK} {j : Nat}
    (h : CK.temp j ∈ (if hr = true then (cap0 ++ (if hr = true then cs else [])) ++ [ck] else cap0 ++ (if hr = true then cs else []))) :
    CK.temp j ∈ cap0 ∨ CK.temp j ∈ cs ∨ ck = .temp j := by
  cases hr with
  | false => simp at h; exact Or.inl h
  | true =>
    simp only [if_true, List.mem_append, List.mem_singleton] at h
    rcases h with (h | h) | h
    · exact Or.inl h
    · exact Or.inr (Or.inl h)
    · exact Or.inr (Or.inr h.symm)

theorem keyCap_facts (hr : Bool) (k : KK) (ke' : E) (n : Nat) (htmp : ∀ j, ke' ≠ .tmp j) :
    n ≤ (keyCap hr k ke' n).2.2 ∧ (keyCap hr k ke' n).2.2 ≤ n + 1 ∧
    ∀ j, (keyCap hr k ke' n).2.1 = .temp j → j = n ∧ (keyCap hr k ke' n).2.2 = n + 1 := by
  rcases keyCap_next hr k ke' n with ⟨h1, _, h3⟩ | ⟨h1, _, h3⟩
  · exact ⟨by omega, by omega, fun j hj => absurd (h3 j hj) (htmp j)⟩
  · refine ⟨by omega, by omega, fun j hj => ?_⟩
    rw [h3] at hj
    injection hj with hj
    exact ⟨hj.symm, h1⟩

/-- splitObjectPattern, with something after the split -/
theorem visit_split_more (w : World) (B : Nat) {k : KK} {ke' ke₀ : E} {t' t₀ : Pat} {hd : Bool} {d' d₀ : E} {tl' tl₀ : PPL}
    (hke : SimB w ke' ke₀) (hkw : ke'.wr (ltB B) = true) (hid : ∀ x, ke' = .id x → ke₀.asId = some x)
    (htmp : ∀ j, ke' ≠ .tmp j) (hsd : SimB w d' d₀) (hdw : d'.wr (ltB B) = true) (hpat : PatOK w B t' t₀)
    (ih : VPClaim w B tl' tl₀)
    (done' done₀ : PPL) (cs : List CK) (nS m0 n : Nat) (rest : Option Nat) (init' : E) (I : TState → Res × TState)
    (cap0 : List CK) (ex0 : List Ex) (chk : Bool) (s s' : TState)
    (hD : DoneRel w B rest.isSome done' done₀ cs m0 n) (hB : B ≤ nS) (hS : nS ≤ m0)
    (hiw : init'.wr (ltB nS) = true) (hI : RelR (evalE w true init' s) (I s'))
    (hc0r : ∀ j, CK.temp j ∈ cap0 → nS ≤ j ∧ j < m0) (hc0 : rest.isSome = true → CapT s.tm cap0 ex0)
    (hnn : chk = false → ∀ v, (I s').1 = .ok v → v.nullish = false) :
    RelQ (fun (_ : Val) _ => True)
      (runAL w true
        ([(Pat.tmp (keyCap rest.isSome k ke' n).2.2, init')] ++
         [(Pat.obj (done'.append (.prop k (keyCap rest.isSome k ke' n).1 (.tmp ((keyCap rest.isSome k ke' n).2.2 + 1)) hd d' .nil)) none,
           E.tmp (keyCap rest.isSome k ke' n).2.2)] ++
         (visitPat t' (.tmp ((keyCap rest.isSome k ke' n).2.2 + 1)) [] ((keyCap rest.isSome k ke' n).2.2 + 1 + 1)).1 ++
         (visitPPL .nil tl' rest (.tmp (keyCap rest.isSome k ke' n).2.2)
           (if rest.isSome = true then (cap0 ++ (if rest.isSome = true then cs else [])) ++ [(keyCap rest.isSome k ke' n).2.1]
            else cap0 ++ (if rest.isSome = true then cs else []))
           (visitPat t' (.tmp ((keyCap rest.isSome k ke' n).2.2 + 1)) [] ((keyCap rest.isSome k ke' n).2.2 + 1 + 1)).2).1) s)
      (bindR (I s') fun v s1' => srcTail w chk done₀ (.prop k ke₀ t₀ hd d₀ tl₀) rest ex0 v s1') := by
  have hmn := hD.le
  have hdwr := hD.wr
  have hcst := hD.temps
  obtain ⟨hn1a, hn1b, hckn⟩ := keyCap_facts rest.isSome k ke' n htmp
  have hv2 := visitPat_wr B t' (.tmp ((keyCap rest.isSome k ke' n).2.2 + 1)) [] ((keyCap rest.isSome k ke' n).2.2 + 1 + 1) hpat.wr rfl
  generalize hn1 : (keyCap rest.isSome k ke' n).2.2 = n1 at *
  generalize hr2 : visitPat t' (.tmp (n1 + 1)) [] (n1 + 1 + 1) = r2 at *
  rw [runAL_append, runAL_append]
  simp only [List.cons_append, List.nil_append, runAL_cons, runAL, evalE, bindPat_tmp, bindR_assoc, bindR_ok, setTmp_tm_self]
  refine RelR.bindQ hI (fun v s1 s1' e1 e1' hh1 => ?_)
  have hnilS : (done₀.append (.prop k ke₀ t₀ hd d₀ tl₀)).isNil = false := by
    rw [PPL.isNil_append]; simp [PPL.isNil]
  simp only [srcTail, hnilS, Bool.and_false, Bool.false_and, Bool.false_eq_true, if_false, bindPat,
    Option.isSome_none]
  by_cases hc : (chk && v.nullish) = true
  · simp only [Bool.and_eq_true] at hc
    obtain ⟨hchk, hv⟩ := hc
    simp only [hchk, hv, Bool.and_self, if_true, bindR_err]
    exact Or.inr ⟨rfl, hh1, fun y hy => by simp at hy⟩
  · have hv := nonNullish_of hc hnn (by rw [e1'])
    simp only [hv, Bool.and_false, if_false, Bool.false_eq_true, bindR_assoc, bindR_ok]
    rw [bindPPL_append, bindPPL_append]
    simp only [bindPPL_head, bindPPL_nil, bindPat_tmp, bindR_assoc, bindR_ok]
    refine RelQ.bind (done_sim w B rest.isSome hD v [] ex0 (setTmp n1 v s1) s1' hh1) (fun exL1 ex1 sa1 sb1 ea1 _ hha1 q1 => ?_)
    obtain ⟨exNew, hex, hcs⟩ := q1
    have f1 : ∀ j, B ≤ j → (j < m0 ∨ n ≤ j) → sa1.tm j = (setTmp n1 v s1).tm j := by
      intro j hj hj2
      have hf := bindPPL_frame w true _ j (by simp; omega) done' false v [] (setTmp n1 v s1) hdwr
      rw [ea1] at hf
      exact hf
    refine RelP.bindQ (head_sim w B n rest.isSome k ke' ke₀ hd d' d₀ hke hkw hid htmp hsd hdw (by omega) v sa1 sb1 hha1)
      (fun x sa3 sb3 ea3 _ hha3 q3 => ?_)
    obtain ⟨q3a, q3f⟩ := q3
    rw [hn1] at q3f
    -- the deferred target
    have hvis := hpat.visit (n1 + 1 + 1) (.tmp (n1 + 1)) (fun sb => (.ok x.2, sb)) (setTmp (n1 + 1) x.2 sa3) sb3 (by omega) rfl
      (by simpa using hha3) (Or.inr ⟨by simp [evalE, setTmp_tm_self], by simpa [evalE] using hha3⟩)
    rw [hr2] at hvis
    simp only [bindR_ok] at hvis
    refine RelQ.bind hvis (fun _ _ sa5 sb4 ea5 _ hha5 _ => ?_)
    have f5 : ∀ j, B ≤ j → j < n1 + 1 + 1 → sa5.tm j = (setTmp (n1 + 1) x.2 sa3).tm j := by
      intro j hj hj2
      have hf := runAL_frame w true (outP B (n1 + 1 + 1)) j (by simp [outP]; omega) r2.1 (setTmp (n1 + 1) x.2 sa3) hv2.2
      rw [ea5] at hf
      exact hf
    -- from the state after the native pattern to the state before the continuation
    have f35 : ∀ j, B ≤ j → j < n1 + 1 → sa5.tm j = sa3.tm j := by
      intro j hj hj2
      rw [f5 j hj (by omega), setTmp_tm_ne _ _ _ _ (by omega)]
    have hn1v : sa5.tm n1 = v := by
      rw [f35 n1 (by omega) (by omega), q3f n1 (by omega) (Or.inr (Nat.le_refl _)), f1 n1 (by omega) (Or.inr hn1a),
        setTmp_tm_self]
    -- the captured keys so far: where their temporaries are, and that they still hold the keys
    have hcapr : ∀ j, CK.temp j ∈ (if rest.isSome = true then
          (cap0 ++ (if rest.isSome = true then cs else [])) ++ [(keyCap rest.isSome k ke' n).2.1]
        else cap0 ++ (if rest.isSome = true then cs else [])) → nS ≤ j ∧ j < r2.2 := by
      intro j hj
      rcases cap1_mem hj with h | h | h
      · have := hc0r j h; omega
      · have := hcst j h; omega
      · have := hckn j h; omega
    have hcapT : rest.isSome = true → CapT sa5.tm (if rest.isSome = true then
          (cap0 ++ (if rest.isSome = true then cs else [])) ++ [(keyCap rest.isSome k ke' n).2.1]
        else cap0 ++ (if rest.isSome = true then cs else []))
        (ex1 ++ [⟨x.1.1, x.1.2, if k = .comp then ke₀.asId else none⟩]) := by
      intro hhr
      rw [if_pos hhr, if_pos hhr, hex]
      refine CapT.append (CapT.append ?_ ?_) ?_
      · refine (hc0 hhr).frame (fun j hj => ?_)
        have hj2 := hc0r j hj
        have hf := evalE_frame w true (ltB nS) j (ltB_false nS j hj2.1) init' s hiw
        rw [e1] at hf
        rw [f35 j (by omega) (by omega), q3f j (by omega) (Or.inl (by omega)), f1 j (by omega) (Or.inl hj2.2),
          setTmp_tm_ne _ _ _ _ (by omega)]
        exact hf
      · refine (hcs hhr).frame (fun j hj => ?_)
        have hj2 := hcst j hj
        rw [f35 j (by omega) (by omega), q3f j (by omega) (Or.inl hj2.2)]
      · obtain ⟨qa, qb⟩ := q3a hhr
        refine CapT.cons ?_ qb CapT.nil
        generalize hck : (keyCap rest.isSome k ke' n).2.1 = ck at qa ⊢
        cases ck with
        | temp j =>
          have := hckn j hck
          simp only [CKRel] at qa ⊢
          rw [f35 j (by omega) (by omega)]
          exact qa
        | str t => exact qa
        | num m => exact qa
        | ident y => exact qa
    have hcont := ih .nil .nil [] nS r2.2 r2.2 rest (.tmp n1) (fun sb => (.ok v, sb)) _
      (ex1 ++ [⟨x.1.1, x.1.2, if k = .comp then ke₀.asId else none⟩]) false sa5 sb4
      (DoneRel.nil _) hB (by omega) rfl (Or.inr ⟨by simp [evalE, hn1v], hha5⟩) hcapr hcapT
      (fun _ v' hv' => by simp only [R.ok.injEq] at hv'; rw [← hv']; exact hv)
    simp only [ite_self, List.append_nil, bindR_ok, srcTail, Bool.false_and, Bool.false_eq_true, if_false, PPL.append] at hcont
    exact hcont

theorem RelQ.pureR {α β γ : Type} {Q : β → TState → Prop} {a : R α × TState} {b : R β × TState} (c : γ)
    (h : RelQ Q a b) : RelQ (fun (_ : γ) _ => True) a (bindR b fun _ s => ((.ok c : R γ), s)) := by
  cases h with
  | inl h => exact Or.inl (outside_bind _ _ h)
  | inr h =>
    obtain ⟨rb, sb⟩ := b
    cases rb with
    | ok y => exact Or.inr ⟨by simpa using h.1, h.2.1, fun _ _ => trivial⟩
    | err x => exact Or.inr ⟨by simpa using h.1, h.2.1, fun _ _ => trivial⟩

/-- splitObjectPattern when the split property is the last one and there is no rest element -/
theorem visit_split_last (w : World) (B : Nat) {k : KK} {ke' ke₀ : E} {t' t₀ : Pat} {hd : Bool} {d' d₀ : E}
    (hke : SimB w ke' ke₀) (hkw : ke'.wr (ltB B) = true) (hid : ∀ x, ke' = .id x → ke₀.asId = some x)
    (htmp : ∀ j, ke' ≠ .tmp j) (hsd : SimB w d' d₀) (hdw : d'.wr (ltB B) = true) (hpat : PatOK w B t' t₀)
    (done' done₀ : PPL) (cs : List CK) (nS m0 n : Nat) (init' : E) (I : TState → Res × TState)
    (ex0 : List Ex) (chk : Bool) (s s' : TState)
    (hD : DoneRel w B false done' done₀ cs m0 n) (hB : B ≤ nS) (hS : nS ≤ m0)
    (hI : RelR (evalE w true init' s) (I s'))
    (hnn : chk = false → ∀ v, (I s').1 = .ok v → v.nullish = false) :
    RelQ (fun (_ : Val) _ => True)
      (runAL w true
        ([(Pat.obj (done'.append (.prop k (keyCap false k ke' n).1 (.tmp (keyCap false k ke' n).2.2) hd d' .nil)) none, init')] ++
         (visitPat t' (.tmp (keyCap false k ke' n).2.2) [] ((keyCap false k ke' n).2.2 + 1)).1) s)
      (bindR (I s') fun v s1' => srcTail w chk done₀ (.prop k ke₀ t₀ hd d₀ .nil) none ex0 v s1') := by
  have hmn := hD.le
  have e2 : (keyCap false k ke' n).2.2 = n := rfl
  rw [e2, runAL_append]
  simp only [runAL, bindR_assoc, bindR_ok]
  refine RelR.bindQ hI (fun v s1 s1' e1 e1' hh1 => ?_)
  have hnilS : (done₀.append (.prop k ke₀ t₀ hd d₀ .nil)).isNil = false := by
    rw [PPL.isNil_append]; simp [PPL.isNil]
  simp only [srcTail, hnilS, Bool.and_false, Bool.false_eq_true, if_false, bindPat, Option.isSome_none]
  by_cases hc : (chk && v.nullish) = true
  · simp only [Bool.and_eq_true] at hc
    obtain ⟨hchk, hv⟩ := hc
    simp only [hchk, hv, Bool.and_self, if_true, bindR_err]
    exact Or.inr ⟨rfl, hh1, fun y hy => by simp at hy⟩
  · have hv := nonNullish_of hc hnn (by rw [e1'])
    simp only [hv, Bool.and_false, if_false, Bool.false_eq_true, bindR_assoc, bindR_ok]
    rw [bindPPL_append, bindPPL_append]
    simp only [bindPPL_head, bindPPL_nil, bindPat_tmp, bindR_assoc, bindR_ok]
    refine RelQ.bind (done_sim w B false hD v [] ex0 s1 s1' hh1) (fun _ _ sa1 sb1 _ _ hha1 _ => ?_)
    refine RelP.bindQ (head_sim w B n false k ke' ke₀ hd d' d₀ hke hkw hid htmp hsd hdw (by omega) v sa1 sb1 hha1)
      (fun x sa3 sb3 _ _ hha3 _ => ?_)
    have hvis := hpat.visit (n + 1) (.tmp n) (fun sb => (.ok x.2, sb)) (setTmp n x.2 sa3) sb3 (by omega) rfl
      (by simpa using hha3) (Or.inr ⟨by simp [evalE, setTmp_tm_self], by simpa [evalE] using hha3⟩)
    simp only [bindR_ok] at hvis
    exact hvis.pureR _

/-- THE LOOP OF `visit`.  By induction over the properties still to come. -/
theorem visitPPL_ok (w : World) (hq : Quiet w) (B : Nat) {todo' todo₀ : PPL} (hp : PropsOK w B todo' todo₀) :
    VPClaim w B todo' todo₀ := by
  induction hp with
  | nil =>
    intro done' done₀ cs nS m0 n rest init' I cap0 ex0 chk s s' hD hB hS hiw hI hc0r hc0 hnn
    cases rest with
    | none =>
      simp only [visitPPL]
      exact visit_end_none w B hD init' I ex0 chk s s' hI hnn
    | some r =>
      simp only [visitPPL, Option.isSome_some, if_true]
      exact visit_end_rest w hq B r hD hB hS init' hiw I cap0 ex0 chk s s' hI hc0r (hc0 rfl) hnn
  | @cons k ke' ke₀ t' t₀ hd d' d₀ tl' tl₀ hke hkw hasid htmp hsd hdw hpat htl ih =>
    intro done' done₀ cs nS m0 n rest init' I cap0 ex0 chk s s' hD hB hS hiw hI hc0r hc0 hnn
    have hid : ∀ x, ke' = .id x → ke₀.asId = some x := fun x hx => by rw [← hasid, hx]; rfl
    have hmn := hD.le
    by_cases ht : t'.hasRest = true
    · by_cases hm : (!tl'.isNil || rest.isSome) = true
      · rw [visitPPL_split_more done' k ke' t' hd d' tl' rest init' _ n ht hm]
        exact visit_split_more w B hke hkw hid htmp hsd hdw hpat ih done' done₀ cs nS m0 n rest init' I cap0 ex0 chk s s'
          hD hB hS hiw hI hc0r hc0 hnn
      · have hm' : (!tl'.isNil || rest.isSome) = false := by simpa using hm
        rw [visitPPL_split_last done' k ke' t' hd d' tl' rest init' _ n ht hm']
        simp only [Bool.or_eq_false_iff, Bool.not_eq_false'] at hm'
        obtain ⟨hnil, hrs⟩ := hm'
        have htl' := PPL.isNil_eq tl' hnil
        have htl0 : tl₀ = .nil := PPL.isNil_eq tl₀ (by rw [← htl.isNil]; exact hnil)
        have hrn : rest = none := by cases rest <;> simp at hrs ⊢
        subst hrn htl0
        exact visit_split_last w B hke hkw hid htmp hsd hdw hpat done' done₀ cs nS m0 n init' I ex0 chk s s' hD hB hS hI hnn
    · have ht' : t'.hasRest = false := by simpa using ht
      rw [visitPPL_pass done' k ke' t' hd d' tl' rest init' _ n ht']
      simp only [srcTail_pass]
      have hD2 := hD.snoc (k := k) (hd := hd) hke hkw hid htmp hsd hdw hpat.wr hpat.native (Nat.le_trans hB hS)
      have hcap : (if rest.isSome = true then (cap0 ++ (if rest.isSome = true then cs else [])) ++ [(keyCap rest.isSome k ke' n).2.1]
          else cap0 ++ (if rest.isSome = true then cs else [])) =
          cap0 ++ (if rest.isSome = true then cs ++ [(keyCap rest.isSome k ke' n).2.1] else []) := by
        cases rest.isSome <;> simp
      rw [hcap]
      exact ih _ _ _ nS m0 _ rest init' I cap0 ex0 chk s s' hD2 hB hS hiw hI hc0r hc0 hnn

/-- `visit` is right for an object pattern -/
theorem visitObj_ok (w : World) (hq : Quiet w) (B : Nat) {ps' ps₀ : PPL} (rest : Option Nat) (hp : PropsOK w B ps' ps₀) :
    VisitOK w B (.obj ps' rest) (.obj ps₀ rest) := by
  intro n init' I s s' hBn hiw _ hI
  have := visitPPL_ok w hq B hp .nil .nil [] n n n rest init' I [] [] true s s' (DoneRel.nil n) hBn (Nat.le_refl _) hiw hI
    (fun j hj => by simp at hj) (fun _ => CapT.nil) (fun h => by simp at h)
  simp only [ite_self, List.append_nil, srcTail_start] at this
  simpa only [visitPat] using this

end EsbuildModel.Lower3
