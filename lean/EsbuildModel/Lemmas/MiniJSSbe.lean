/-
Lemmas/MiniJSSbe — SimplifyBooleanExpr preserves what a boolean context observes (and the AST invariant).
-/
import EsbuildModel.Lemmas.MiniJSSame
namespace EsbuildModel.MiniJS

-- ---------------------------------------------------------------- the rewrites keep the AST invariant

theorem wf_peelComma (k : Expr → Expr) (hk : ∀ x, x.wf = true → (k x).wf = true) :
    ∀ a, a.wf = true → (peelComma k a).wf = true
  | .binary op l r, h => by
    simp only [peelComma]
    split
    · simp only [Expr.wf, Bool.and_eq_true] at h ⊢
      exact ⟨h.1, wf_peelComma k hk r h.2⟩
    · exact hk _ h
  | .undef, h => hk _ h
  | .null, h => hk _ h
  | .bool _, h => hk _ h
  | .num _, h => hk _ h
  | .str _, h => hk _ h
  | .ident _, h => hk _ h
  | .unary _ _, h => hk _ h
  | .cond _ _ _, h => hk _ h
  | .call _ _, h => hk _ h
  | .dot _ _, h => hk _ h
  | .index _ _, h => hk _ h

theorem wf_binary (op : BinOp) (a b : Expr) : (Expr.binary op a b).wf = (a.wf && b.wf) := rfl

theorem wf_joinLoop (op : BinOp) : ∀ b a, b.wf = true → a.wf = true → (joinLoop op b a).wf = true
  | .binary op2 bl br, a, hb, ha => by
    simp only [joinLoop]
    simp only [wf_binary, Bool.and_eq_true] at hb
    split
    · exact wf_joinLoop op br _ hb.2 (wf_peelComma _ (fun x hx => wf_joinLoop op bl x hb.1 hx) a ha)
    · simp [wf_binary, ha, hb]
  | .undef, a, hb, ha => by simp [joinLoop, wf_binary, ha, hb]
  | .null, a, hb, ha => by simp [joinLoop, wf_binary, ha, hb]
  | .bool _, a, hb, ha => by simp [joinLoop, wf_binary, ha, hb]
  | .num _, a, hb, ha => by simp [joinLoop, wf_binary, ha, hb]
  | .str _, a, hb, ha => by simp [joinLoop, wf_binary, ha, hb]
  | .ident _, a, hb, ha => by simp [joinLoop, wf_binary, ha, hb]
  | .unary _ _, a, hb, ha => by simp [joinLoop, wf_binary, ha, hb]
  | .cond _ _ _, a, hb, ha => by simp [joinLoop, wf_binary, ha, hb]
  | .call _ _, a, hb, ha => by simp [joinLoop, wf_binary, ha, hb]
  | .dot _ _, a, hb, ha => by simp [joinLoop, wf_binary, ha, hb]
  | .index _ _, a, hb, ha => by simp [joinLoop, wf_binary, ha, hb]

theorem wf_join (op : BinOp) (a b : Expr) (ha : a.wf = true) (hb : b.wf = true) :
    (joinWithLeftAssociativeOp op a b).wf = true :=
  wf_peelComma _ (fun x hx => wf_joinLoop op b x hb hx) a ha

theorem wf_not (a : Expr) : (Expr.unary .not a).wf = a.wf := by simp [Expr.wf]

theorem wf_maybeSimplifyNot : ∀ (e r : Expr), e.wf = true → maybeSimplifyNot e = some r → r.wf = true
  | .null, r, _, h => by simp [maybeSimplifyNot] at h; subst h; rfl
  | .undef, r, _, h => by simp [maybeSimplifyNot] at h; subst h; rfl
  | .bool _, r, _, h => by simp [maybeSimplifyNot] at h; subst h; rfl
  | .num _, r, _, h => by simp [maybeSimplifyNot] at h; subst h; rfl
  | .str _, r, _, h => by simp [maybeSimplifyNot] at h; subst h; rfl
  | .unary op v, r, hw, h => by
    simp only [maybeSimplifyNot] at h
    split at h
    · simp at h; subst h
      rename_i hc; obtain ⟨rfl, -⟩ := hc
      simpa [wf_not] using hw
    · simp at h
  | .binary op l r, res, hw, h => by
    simp only [wf_binary, Bool.and_eq_true] at hw
    cases op <;> simp only [maybeSimplifyNot] at h <;> (try simp at h) <;> subst_vars <;>
      (try simp [wf_binary, hw])
    cases hr : maybeSimplifyNot r with
    | some x => exact wf_maybeSimplifyNot r x hw.2 hr
    | none => simpa [wf_not] using hw.2
  | .ident _, r, _, h => by simp [maybeSimplifyNot] at h
  | .cond _ _ _, r, _, h => by simp [maybeSimplifyNot] at h
  | .call _ _, r, _, h => by simp [maybeSimplifyNot] at h
  | .dot _ _, r, _, h => by simp [maybeSimplifyNot] at h
  | .index _ _, r, _, h => by simp [maybeSimplifyNot] at h

theorem wf_notExpr (e : Expr) (h : e.wf = true) : (notExpr e).wf = true := by
  simp only [notExpr]
  cases hr : maybeSimplifyNot e with
  | some x => exact wf_maybeSimplifyNot e x h hr
  | none => simpa [wf_not] using h


-- ---------------------------------------------------------------- isInt32OrUint32

theorem isInt32_sound (w : World) : ∀ (e : Expr) (tr tr' : Trace) (v : Val), isInt32OrUint32 e = true →
    eval w e tr = (.val v, tr') → ∃ x, v = .num x ∧ x.isNaN = false
  | .binary op l r, tr, tr', v, hi, h => by
    cases op <;> simp only [isInt32OrUint32] at hi <;> (try simp at hi)
    case ushr =>
      simp only [eval, BinOp.short, bind_eq_val, applyBinary, arith] at h
      obtain ⟨va, tr1, -, vb, tr2, -, na, tr3, -, nb, tr4, -, h⟩ := h
      split at h
      · simp at h; obtain ⟨rfl, -⟩ := h; exact ⟨_, rfl, rfl⟩
      · simp at h
      · simp at h
    case or =>
      rw [eval_or, bind_eq_val] at h
      obtain ⟨va, tr1, ha, h⟩ := h
      split at h
      · simp at h; obtain ⟨rfl, -⟩ := h; exact isInt32_sound w l _ _ _ hi.1 ha
      · exact isInt32_sound w r _ _ _ hi.2 h
    case and =>
      rw [eval_and, bind_eq_val] at h
      obtain ⟨va, tr1, ha, h⟩ := h
      split at h
      · exact isInt32_sound w r _ _ _ hi.2 h
      · simp at h; obtain ⟨rfl, -⟩ := h; exact isInt32_sound w l _ _ _ hi.1 ha
  | .cond c y n, tr, tr', v, hi, h => by
    simp only [isInt32OrUint32, Bool.and_eq_true] at hi
    rw [eval_cond, bind_eq_val] at h
    obtain ⟨t, tr1, -, h⟩ := h
    cases t
    · exact isInt32_sound w n _ _ _ hi.2 h
    · exact isInt32_sound w y _ _ _ hi.1 h
  | .undef, _, _, _, hi, _ => by simp [isInt32OrUint32] at hi
  | .null, _, _, _, hi, _ => by simp [isInt32OrUint32] at hi
  | .bool _, _, _, _, hi, _ => by simp [isInt32OrUint32] at hi
  | .num _, _, _, _, hi, _ => by simp [isInt32OrUint32] at hi
  | .str _, _, _, _, hi, _ => by simp [isInt32OrUint32] at hi
  | .ident _, _, _, _, hi, _ => by simp [isInt32OrUint32] at hi
  | .unary _ _, _, _, _, hi, _ => by simp [isInt32OrUint32] at hi
  | .call _ _, _, _, _, hi, _ => by simp [isInt32OrUint32] at hi
  | .dot _ _, _, _, _, hi, _ => by simp [isInt32OrUint32] at hi
  | .index _ _, _, _, _, hi, _ => by simp [isInt32OrUint32] at hi

theorem num_eq_zero (x n : Num) (hn : n.isZero = true) (hx : x.isNaN = false) : x.eq n = x.isZero := by
  cases x <;> cases n <;> simp_all [Num.eq, Num.isZero, Num.isNaN]

/-- on a non-NaN number, comparing with zero is the (negated) truthiness -/
theorem compare_zero (w : World) (op : BinOp) (hop : op.isEquality = true) (x n : Num) (hn : n.isZero = true)
    (hx : x.isNaN = false) (tr : Trace) :
    applyBinary w op (.num x) (.num n) tr =
      (.val (.bool (if op = .strictNe ∨ op = .looseNe then toBoolean (.num x) else !toBoolean (.num x))), tr) := by
  cases op <;> simp [BinOp.isEquality] at hop <;>
    simp [applyBinary, strictEq, looseEq, looseEqPrim, boolToNum, toBoolean, num_eq_zero x n hn hx, hx]

theorem short_equality (op : BinOp) (hop : op.isEquality = true) (v : Val) : op.short v = none := by
  cases op <;> simp [BinOp.isEquality] at hop <;> rfl

theorem sbeCompareZero_sound (w : World) (op : BinOp) (hop : op.isEquality = true) (l r : Expr) :
    BoolEq w (.binary op l r) (sbeCompareZero op l r) := by
  simp only [sbeCompareZero]
  split
  · rename_i n hn
    have hr : r = .num n := by
      cases r <;> simp [extractNumericValue] at hn
      subst hn; rfl
    subst hr
    split
    · rename_i hc
      simp only [Bool.and_eq_true] at hc
      have key : ∀ tr, evalBool w (.binary op l (.num n)) tr =
          bind (evalBool w l tr) fun t tr1 =>
            (.val (if op = .strictNe ∨ op = .looseNe then t else !t), tr1) := by
        intro tr
        simp only [evalBool_eq, eval, short_equality op hop, bind_assoc, bind_val]
        rcases res_cases (eval w l tr) with ⟨v, tr1, hv⟩ | ⟨x, tr1, hv⟩
        · obtain ⟨x, rfl, hx⟩ := isInt32_sound w l tr tr1 v hc.2 hv
          simp only [hv, bind_val, compare_zero w op hop x n hc.1 hx]
          split <;> simp [toBoolean]
        · simp [hv]
      split
      · rename_i hne
        intro tr
        rw [key tr]
        simp only [hne, if_true, bind_pure]
      · rename_i hne
        refine BoolEq.trans ?_ (notExpr_equiv w l).symm.toBool
        intro tr
        rw [key tr, evalBool_not]
        simp only [hne, if_false]
    · exact BoolEq.refl w _
  · exact BoolEq.refl w _

theorem wf_sbeCompareZero (op : BinOp) (l r : Expr) (h : (Expr.binary op l r).wf = true) :
    (sbeCompareZero op l r).wf = true := by
  simp only [sbeCompareZero]
  have h' := h
  simp only [wf_binary, Bool.and_eq_true] at h'
  split
  · split
    · split
      · exact h'.1
      · exact wf_notExpr l h'.1
    · exact h
  · exact h


-- ---------------------------------------------------------------- SimplifyBooleanExpr

theorem tbwse_pureBool (w : World) (e : Expr) (hok : (toBooleanWithSideEffects e).ok = true)
    (hse : (toBooleanWithSideEffects e).noSE = true) (hwf : e.wf = true) :
    PureBool w e (toBooleanWithSideEffects e).value := by
  have h := tbwse_sound w e hok
  intro tr
  obtain ⟨v, hv⟩ := h.2 hse hwf tr
  simp only [evalBool, hv, truthRes, h.1 tr v tr hv]

theorem sbeDefault_lit (w : World) (ub : Nat → Bool) (e : Expr) (hwf : e.wf = true)
    (hse : (toBooleanWithSideEffects e).ok = true → (toBooleanWithSideEffects e).noSE = true) :
    BoolEq w e (sbeDefault ub e) ∧ (sbeDefault ub e).wf = true := by
  simp only [sbeDefault]
  split
  · rename_i hc
    simp only [Bool.and_eq_true] at hc
    refine ⟨?_, rfl⟩
    intro tr
    rw [tbwse_pureBool w e hc.1 (hse hc.1) hwf tr]
    rfl
  · exact ⟨BoolEq.refl w _, hwf⟩

theorem sbe_sound (w : World) (ub : Nat → Bool) (e : Expr) :
    e.wf = true → BoolEq w e (simplifyBooleanExpr ub e) ∧ (simplifyBooleanExpr ub e).wf = true := by
  fun_induction simplifyBooleanExpr ub e
  case case1 v ih =>
    intro hwf
    simp only [wf_not] at hwf
    exact ⟨(notnot_bool w v).trans (ih hwf).1, (ih hwf).2⟩
  case case2 op v hop ih =>
    intro hwf
    rw [wf_not] at hwf
    exact ⟨(ih hwf).1.not.toBool, by rw [wf_not]; exact (ih hwf).2⟩
  case case3 v hv ih =>
    intro hwf
    rw [wf_not] at hwf
    exact ⟨(ih hwf).1.not.toBool, by rw [wf_not]; exact (ih hwf).2⟩
  case case4 op v hop =>
    intro hwf
    exact ⟨BoolEq.refl w _, hwf⟩
  case case5 l r left right t hc ihl ihr =>
    intro hwf
    simp only [wf_binary, Bool.and_eq_true] at hwf
    simp only [Bool.and_eq_true] at hc
    have hp := tbwse_pureBool w right hc.1.1 hc.2 (ihr hwf.2).2
    rw [show (toBooleanWithSideEffects right).value = true from hc.1.2] at hp
    exact ⟨(BoolEq.and (ihl hwf.1).1 (ihr hwf.2).1).trans (and_pure_true w _ _ hp), (ihl hwf.1).2⟩
  case case6 l r left right t hc ihl ihr =>
    intro hwf
    simp only [wf_binary, Bool.and_eq_true] at hwf
    exact ⟨BoolEq.and (ihl hwf.1).1 (ihr hwf.2).1, by rw [wf_binary, Bool.and_eq_true]; exact ⟨(ihl hwf.1).2, (ihr hwf.2).2⟩⟩
  case case7 l r left right t hc ihl ihr =>
    intro hwf
    simp only [wf_binary, Bool.and_eq_true] at hwf
    simp only [Bool.and_eq_true, Bool.not_eq_true'] at hc
    have hp := tbwse_pureBool w right hc.1.1 hc.2 (ihr hwf.2).2
    rw [show (toBooleanWithSideEffects right).value = false from hc.1.2] at hp
    exact ⟨(BoolEq.or (ihl hwf.1).1 (ihr hwf.2).1).trans (or_pure_false w _ _ hp), (ihl hwf.1).2⟩
  case case8 l r left right t hc ihl ihr =>
    intro hwf
    simp only [wf_binary, Bool.and_eq_true] at hwf
    exact ⟨BoolEq.or (ihl hwf.1).1 (ihr hwf.2).1, by rw [wf_binary, Bool.and_eq_true]; exact ⟨(ihl hwf.1).2, (ihr hwf.2).2⟩⟩
  case case9 l r op h1 h2 heq =>
    intro hwf
    exact ⟨sbeCompareZero_sound w op heq l r, wf_sbeCompareZero op l r hwf⟩
  case case10 l r op h1 h2 heq =>
    intro hwf
    exact ⟨BoolEq.refl w _, hwf⟩
  case case11 c y n yes no ty hc hv ihy ihn =>
    intro hwf
    simp only [Expr.wf, Bool.and_eq_true] at hwf
    simp only [Bool.and_eq_true] at hc
    have hp := tbwse_pureBool w yes hc.1 hc.2 (ihy hwf.1.2).2
    rw [show (toBooleanWithSideEffects yes).value = true from hv] at hp
    refine ⟨?_, wf_join _ _ _ hwf.1.1 (ihn hwf.2).2⟩
    exact ((BoolEq.condB (BoolEq.refl w c) (ihy hwf.1.2).1 (ihn hwf.2).1).trans (cond_yes_true w _ _ _ hp)).trans
      (join_equiv w .or rfl _ _).symm.toBool
  case case12 c y n yes no ty hc hv ihy ihn =>
    intro hwf
    simp only [Expr.wf, Bool.and_eq_true] at hwf
    simp only [Bool.and_eq_true] at hc
    have hp := tbwse_pureBool w yes hc.1 hc.2 (ihy hwf.1.2).2
    rw [show (toBooleanWithSideEffects yes).value = false by simpa using hv] at hp
    refine ⟨?_, wf_join _ _ _ (wf_notExpr c hwf.1.1) (ihn hwf.2).2⟩
    refine ((BoolEq.condB (BoolEq.refl w c) (ihy hwf.1.2).1 (ihn hwf.2).1).trans (cond_yes_false w _ _ _ hp)).trans ?_
    exact (BoolEq.and (notExpr_equiv w c).symm.toBool (BoolEq.refl w _)).trans (join_equiv w .and rfl _ _).symm.toBool
  case case13 c y n yes no ty hc tn hcn hv ihy ihn =>
    intro hwf
    simp only [Expr.wf, Bool.and_eq_true] at hwf
    simp only [Bool.and_eq_true] at hcn
    have hp := tbwse_pureBool w no hcn.1 hcn.2 (ihn hwf.2).2
    rw [show (toBooleanWithSideEffects no).value = true from hv] at hp
    refine ⟨?_, wf_join _ _ _ (wf_notExpr c hwf.1.1) (ihy hwf.1.2).2⟩
    refine ((BoolEq.condB (BoolEq.refl w c) (ihy hwf.1.2).1 (ihn hwf.2).1).trans (cond_no_true w _ _ _ hp)).trans ?_
    exact (BoolEq.or (notExpr_equiv w c).symm.toBool (BoolEq.refl w _)).trans (join_equiv w .or rfl _ _).symm.toBool
  case case14 c y n yes no ty hc tn hcn hv ihy ihn =>
    intro hwf
    simp only [Expr.wf, Bool.and_eq_true] at hwf
    simp only [Bool.and_eq_true] at hcn
    have hp := tbwse_pureBool w no hcn.1 hcn.2 (ihn hwf.2).2
    rw [show (toBooleanWithSideEffects no).value = false by simpa using hv] at hp
    refine ⟨?_, wf_join _ _ _ hwf.1.1 (ihy hwf.1.2).2⟩
    exact ((BoolEq.condB (BoolEq.refl w c) (ihy hwf.1.2).1 (ihn hwf.2).1).trans (cond_no_false w _ _ _ hp)).trans
      (join_equiv w .and rfl _ _).symm.toBool
  case case15 c y n yes no ty hc tn hcn ihy ihn =>
    intro hwf
    simp only [Expr.wf, Bool.and_eq_true] at hwf
    exact ⟨BoolEq.condB (BoolEq.refl w c) (ihy hwf.1.2).1 (ihn hwf.2).1,
      by simp only [Expr.wf, Bool.and_eq_true]; exact ⟨⟨hwf.1.1, (ihy hwf.1.2).2⟩, (ihn hwf.2).2⟩⟩
  case case16 => exact fun hwf => sbeDefault_lit w ub _ hwf (fun _ => rfl)
  case case17 => exact fun hwf => sbeDefault_lit w ub _ hwf (fun _ => rfl)
  case case18 => exact fun hwf => sbeDefault_lit w ub _ hwf (fun _ => rfl)
  case case19 => exact fun hwf => sbeDefault_lit w ub _ hwf (fun _ => rfl)
  case case20 => exact fun hwf => sbeDefault_lit w ub _ hwf (fun _ => rfl)
  case case21 => exact fun hwf => sbeDefault_lit w ub _ hwf (fun h => by simp [toBooleanWithSideEffects] at h)
  case case22 => exact fun hwf => sbeDefault_lit w ub _ hwf (fun h => by simp [toBooleanWithSideEffects] at h)
  case case23 => exact fun hwf => sbeDefault_lit w ub _ hwf (fun h => by simp [toBooleanWithSideEffects] at h)
  case case24 => exact fun hwf => sbeDefault_lit w ub _ hwf (fun h => by simp [toBooleanWithSideEffects] at h)

end EsbuildModel.MiniJS
