import EsbuildModel.Lemmas.JsonSoundTok
import EsbuildModel.Lemmas.JsonSoundStrTs
/-
Soundness for tokens (strict JSON flavour): words and strings.
-/
namespace EsbuildModel.Json
open EsbuildModel.Spec.Json

theorem keywordTok_inv {l : List Char} {t : Tok} (h : keywordTok l = t) (ht : t ≠ .other) :
    (t = .tTrue ∧ l = ['t', 'r', 'u', 'e']) ∨ (t = .tFalse ∧ l = ['f', 'a', 'l', 's', 'e']) ∨
    (t = .tNull ∧ l = ['n', 'u', 'l', 'l']) := by
  unfold keywordTok at h
  split at h
  · rename_i h1; exact Or.inl ⟨h.symm, h1⟩
  · split at h
    · rename_i h1; exact Or.inr (Or.inl ⟨h.symm, h1⟩)
    · split at h
      · rename_i h1; exact Or.inr (Or.inr ⟨h.symm, h1⟩)
      · exact absurd h.symm ht

theorem chars_takeWhile_dropWhile (p : Cp → Bool) (l : List Cp) :
    chars (l.takeWhile p) ++ chars (l.dropWhile p) = chars l := by
  rw [← chars_append, List.takeWhile_append_dropWhile]

/-- a word token other than `other`: `true`, `false` or `null`, followed by the rest of the input -/
theorem lexIdent_word_sound {fl : Flavor} {P : Params} {L0 : Lx} {sk : Sk} {c : Cp} {r : List Cp} {L : Lx}
    (h : lexIdent fl P L0 sk false [c] r = .ok L) (ht : L.tok ≠ .other) :
    ((L.tok = .tTrue ∧ chars (c :: r) = ['t', 'r', 'u', 'e'] ++ chars L.rest) ∨
     (L.tok = .tFalse ∧ chars (c :: r) = ['f', 'a', 'l', 's', 'e'] ++ chars L.rest) ∨
     (L.tok = .tNull ∧ chars (c :: r) = ['n', 'u', 'l', 'l'] ++ chars L.rest)) ∧ L.log = sk.log ∧ L.nl = sk.nl := by
  unfold lexIdent at h
  simp only at h
  split at h
  · exact absurd (idEsc_other h) ht
  · cases h
    simp only [Lx.at, Bool.false_eq_true, if_false] at ht ⊢
    refine ⟨?_, trivial, trivial⟩
    have hsplit : chars (c :: r) = chars ([c] ++ List.takeWhile (fun c => isIdCont P c.c) r) ++
        chars (List.dropWhile (fun c => isIdCont P c.c) r) := by
      rw [chars_append, List.append_assoc, chars_takeWhile_dropWhile]; rfl
    rcases keywordTok_inv rfl ht with ⟨h1, h2⟩ | ⟨h1, h2⟩ | ⟨h1, h2⟩
    · exact Or.inl ⟨h1, by rw [hsplit, h2]⟩
    · exact Or.inr (Or.inl ⟨h1, by rw [hsplit, h2]⟩)
    · exact Or.inr (Or.inr ⟨h1, by rw [hsplit, h2]⟩)

theorem scanClean_head {fl : Flavor} {c : Char} {t : List Char} (h : ScanClean fl (c :: t)) (hc : c ≠ '\\') :
    c ≠ '\r' ∧ ScanClean fl t := by
  cases h with
  | plain _ _ h1 h2 h3 h4 h5 h6 => exact ⟨h2, h6⟩
  | esc _ _ _ _ => exact absurd rfl hc
  | crlf _ _ => exact absurd rfl hc
  | cr _ _ => exact absurd rfl hc

/-- the fast path: text without backslash, all ASCII, decodes to its own characters -/
theorem decodeEsc_fast (fl : Flavor) (text : List Cp) (p : Nat) (hf : FastText text) (hs : ScanClean fl (chars text)) :
    decodeEsc fl .normal text p = .ok (text.map (·.c.toNat)) := by
  induction text generalizing p with
  | nil => simp [decodeEsc]
  | cons c t ih =>
    obtain ⟨h1, h2⟩ := hf c (by simp)
    have hsc := hs
    simp only [chars_cons] at hsc
    obtain ⟨a2, a6⟩ := scanClean_head hsc h1
    rw [decodeEsc_plain fl c t p a2 h1, ih _ (fun x hx => hf x (List.mem_cons_of_mem _ hx)) a6]
    rw [unitsOf_small _ (by omega)]
    simp

/-- soundness of the decoder for either flavour -/
theorem decodeEsc_sound (fl : Flavor) (l : List Cp) (p : Nat) (us : List Nat) (h : decodeEsc fl .normal l p = .ok us)
    (hs : ScanClean fl (chars l)) :
    ∃ cs, strOk (dialectOf fl) cs = true ∧ chars l = strRender cs ∧ us = strUnits cs := by
  cases fl with
  | json => exact decodeEsc_sound_json .normal l p us h hs
  | tsconfig => exact decodeEsc_sound_ts .normal l p us h hs

/-- **a string token**: when `StringLiteral()` succeeds on it, the source is a string of the
dialect and the result is its code units -/
theorem lexString_sound {fl : Flavor} {L0 : Lx} {sk : Sk} {q : Cp} {r : List Cp} {L : Lx}
    (hqc : q.c = '"' ∨ q.c = '\'' ∨ q.c = '`')
    (h : lexString fl L0 sk q r = .ok L) (ht : L.tok = .str) (hcl : sk.log.Clean) (hne : L.log.hasErrors = false) :
    L.log = sk.log ∧ L.nl = sk.nl ∧ ∀ us L', stringLiteral fl L = .ok (us, L') →
      ∃ cs, strOk (dialectOf fl) cs = true ∧ chars (q :: r) = strTok cs ++ chars L.rest ∧ us = strUnits cs ∧
        L'.view = L.view := by
  unfold lexString at h
  split at h
  · cases h
  · cases h
  · rename_i text rest e slow hscan
    simp only at h
    have hq : q.c = '"' := by
      rcases hqc with hq | hq | hq
      · exact hq
      · exfalso
        have : L.log = sk.log.rangeError sk.pos := by
          split at h <;> cases h <;> simp [Lx.at, hq]
        rw [this, Log.rangeError_hasErrors_of_clean hcl] at hne
        cases hne
      · exfalso
        split at h <;> cases h <;> simp [Lx.at, hq] at ht
    rw [hq] at hscan
    obtain ⟨k1, k2, k3⟩ := scanStr_sound fl '"' r _ rfl _ _ _ _ hscan
    have hnq : ¬ (q.c = '\'') := by rw [hq]; decide
    have hfin : ∀ (us : List Nat) (p : Nat), decodeEsc fl .normal text p = .ok us →
        ∃ cs, strOk (dialectOf fl) cs = true ∧ chars (q :: r) = strTok cs ++ chars rest ∧ us = strUnits cs := by
      intro us p hd
      obtain ⟨cs, c1, c2, c3⟩ := decodeEsc_sound fl text p us hd k2
      refine ⟨cs, c1, ?_, c3⟩
      simp [strTok, hq, k1, c2]
    cases slow with
    | true =>
      simp only [if_true] at h
      cases h
      refine ⟨by simp [Lx.at, hnq], rfl, ?_⟩
      intro us L' hs
      simp only [stringLiteral, Lx.at] at hs
      split at hs
      · cases hs
      · cases hs
      · rename_i us' hd
        simp only [R.ok.injEq, Prod.mk.injEq] at hs
        obtain ⟨rfl, rfl⟩ := hs
        obtain ⟨cs, c1, c2, c3⟩ := hfin _ _ hd
        exact ⟨cs, c1, c2, c3, rfl⟩
    | false =>
      simp only [Bool.false_eq_true, if_false] at h
      cases h
      refine ⟨by simp [Lx.at, hnq], rfl, ?_⟩
      intro us L' hs
      simp only [stringLiteral, Lx.at, R.ok.injEq, Prod.mk.injEq] at hs
      obtain ⟨rfl, rfl⟩ := hs
      obtain ⟨cs, c1, c2, c3⟩ := hfin _ 0 (decodeEsc_fast fl text 0 (k3 rfl) k2)
      exact ⟨cs, c1, c2, c3, rfl⟩

end EsbuildModel.Json
