import EsbuildModel.Lemmas.JsonSkip
import EsbuildModel.Lemmas.Wtf8Round
/-
The string scanner of `Next` (`scanStr`) and `tryToDecodeEscapeSequences` (`decodeEsc`) against the string
derivations `Spec.Json.SChar`: completeness (item by item).
-/
namespace EsbuildModel.Json
open EsbuildModel.Spec.Json

theorem hexVal_eq (c : Char) : hexVal c = Spec.Num.hexVal? c := rfl

theorem unitsOf_eq (c : Nat) (h : c ≤ 0x10FFFF) : unitsOf c = Spec.Unicode.utf16 c :=
  Wtf8.pushUTF16_eq_utf16 c h

theorem unitsOf_small (c : Nat) (h : c ≤ 0xFFFF) : unitsOf c = [c] := Wtf8.pushUTF16_small c h

theorem char_le (c : Char) : c.toNat ≤ 0x10FFFF := by
  have := c.valid
  simp only [Char.toNat, UInt32.isValidChar, Nat.isValidChar] at *
  omega

@[simp] theorem Dec.cons_nil (d : Dec) : d.cons [] = d := by cases d <;> rfl
theorem Dec.cons_cons (a b : List Nat) (d : Dec) : (d.cons b).cons a = d.cons (a ++ b) := by
  cases d <;> simp [Dec.cons]
@[simp] theorem Dec.cons_ok (a t : List Nat) : (Dec.ok t).cons a = .ok (a ++ t) := rfl

/-- an ordinary character -/
theorem decodeEsc_plain (fl : Flavor) (c : Cp) (r : List Cp) (pos : Nat) (h1 : c.c ≠ '\r') (h2 : c.c ≠ '\\') :
    decodeEsc fl .normal (c :: r) pos = (decodeEsc fl .normal r (pos + c.w)).cons (unitsOf c.c.toNat) := by
  cases r <;> simp [decodeEsc, h1, h2]

theorem hexD_lt (c : Char) : hexD c < 16 := by
  unfold hexD Spec.Num.hexVal?
  split
  · simp; omega
  · split
    · simp; omega
    · split
      · simp; omega
      · simp

theorem hexVal_of_isHexDigit {c : Char} (h : isHexDigit c = true) : hexVal c = some (hexD c) := by
  rw [hexVal_eq]
  unfold isHexDigit at h
  unfold hexD
  cases hv : Spec.Num.hexVal? c with
  | none => rw [hv] at h; cases h
  | some v => rfl

/-- what follows a backslash that RFC 8259 knows, `\8`, `\9` -/
theorem decodeEsc_simple (fl : Flavor) (b c2 : Cp) (r : List Cp) (pos : Nat) (hb : b.c = '\\')
    (u : Nat) (h : rfcEscape c2.c = some u ∨ ((c2.c = '8' ∨ c2.c = '9') ∧ u = c2.c.toNat)) :
    decodeEsc fl .normal (b :: c2 :: r) pos = (decodeEsc fl .normal r (pos + b.w + c2.w)).cons [u] := by
  have hb1 : b.c ≠ '\r' := by rw [hb]; decide
  rcases h with h | ⟨h, rfl⟩
  · simp only [rfcEscape] at h
    split at h
    · rename_i hc; cases h; simp [decodeEsc, hb, hc, unitsOf, Wtf8.pushUTF16]
    · split at h
      · rename_i hc; cases h; simp [decodeEsc, hb, hc, unitsOf, Wtf8.pushUTF16]
      · split at h
        · rename_i hc; cases h; simp [decodeEsc, hb, hc, unitsOf, Wtf8.pushUTF16]
        · split at h
          · rename_i hc; cases h; simp [decodeEsc, hb, hc]
          · split at h
            · rename_i hc; cases h; simp [decodeEsc, hb, hc]
            · split at h
              · rename_i hc; cases h; simp [decodeEsc, hb, hc]
              · split at h
                · rename_i hc; cases h; simp [decodeEsc, hb, hc]
                · split at h
                  · rename_i hc; cases h; simp [decodeEsc, hb, hc]
                  · cases h
  · rcases h with h | h <;> simp [decodeEsc, hb, h]

/-- `\\uXXXX` -/
theorem decodeEsc_u' (fl : Flavor) (b u h1 h2 h3 h4 : Cp) (r : List Cp) (pos : Nat) (hb : b.c = '\\') (hu : u.c = 'u')
    (hbr : h1.c ≠ '{') (d1 d2 d3 d4 : Nat) (e1 : hexVal h1.c = some d1) (e2 : hexVal h2.c = some d2)
    (e3 : hexVal h3.c = some d3) (e4 : hexVal h4.c = some d4) :
    decodeEsc fl .normal (b :: u :: h1 :: h2 :: h3 :: h4 :: r) pos =
      (decodeEsc fl .normal r (pos + b.w + u.w + h1.w + h2.w + h3.w + h4.w)).cons
        (unitsOf (((d1 * 16 + d2) * 16 + d3) * 16 + d4)) := by
  rw [decodeEsc.eq_4]
  simp only [hb, hu, hbr, e1, e2, e3, e4]
  simp

theorem decodeEsc_u (fl : Flavor) (a b c d : Char) (ha : isHexDigit a = true) (hb : isHexDigit b = true)
    (hc : isHexDigit c = true) (hd : isHexDigit d = true) (r : List Cp) (pos : Nat) :
    decodeEsc fl .normal (cps ['\\', 'u', a, b, c, d] ++ r) pos =
      (decodeEsc fl .normal r (pos + widths (cps ['\\', 'u', a, b, c, d]))).cons
        [((hexD a * 16 + hexD b) * 16 + hexD c) * 16 + hexD d] := by
  have hbr : a ≠ '{' := by rintro rfl; revert ha; decide
  have hlt := hexD_lt a; have := hexD_lt b; have := hexD_lt c; have := hexD_lt d
  have := decodeEsc_u' fl (cpOf '\\') (cpOf 'u') (cpOf a) (cpOf b) (cpOf c) (cpOf d) r pos rfl rfl hbr _ _ _ _
    (hexVal_of_isHexDigit ha) (hexVal_of_isHexDigit hb) (hexVal_of_isHexDigit hc) (hexVal_of_isHexDigit hd)
  simp only [cpOf_c] at this
  simp only [cps_cons, cps_nil, List.cons_append, List.nil_append, this]
  rw [unitsOf_small _ (by omega)]
  simp [Nat.add_assoc]

/-! ## the scanner -/

@[simp] theorem StrScan.cons_nil_false (x : StrScan) : x.cons [] false = x := by
  cases x <;> simp [StrScan.cons]
theorem StrScan.cons_cons (a b : List Cp) (s1 s2 : Bool) (x : StrScan) :
    (x.cons b s2).cons a s1 = x.cons (a ++ b) (s1 || s2) := by
  cases x <;> simp [StrScan.cons, Bool.or_assoc]

theorem scanStr_plain (fl : Flavor) (c : Cp) (r : List Cp) (pos : Nat) (h1 : c.c ≠ '\\') (h2 : c.c ≠ '\r')
    (h3 : c.c ≠ '\n') (h4 : c.c ≠ '"') (h5 : c.c.toNat ≥ 0x80 ∨ ¬ (fl = .json ∧ c.c.toNat < 0x20)) :
    scanStr fl '"' (c :: r) pos = (scanStr fl '"' r (pos + c.w)).cons [c] (decide (c.c.toNat ≥ 0x80)) := by
  have hq : ¬ (c.c = '$' ∧ ('"' : Char) = '`') := by intro h; exact absurd h.2 (by decide)
  by_cases h80 : c.c.toNat ≥ 0x80
  · rcases r with _ | ⟨d, _ | ⟨e, r⟩⟩ <;> simp [scanStr, h1, h2, h3, h4, hq, h80]
  · have h5' : ¬ (fl = .json ∧ c.c.toNat < 0x20) := by
      rcases h5 with h | h
      · exact absurd h h80
      · exact h
    rcases r with _ | ⟨d, _ | ⟨e, r⟩⟩ <;> simp [scanStr, h1, h2, h3, h4, hq, h80, h5']

theorem scanStr_bs (fl : Flavor) (q : Char) (c d : Cp) (r : List Cp) (pos : Nat) (h1 : c.c = '\\')
    (h2 : ¬ (d.c = '\r' ∧ fl ≠ .json)) :
    scanStr fl q (c :: d :: r) pos = (scanStr fl q r (pos + c.w + d.w)).cons [c, d] true := by
  rcases r with _ | ⟨e, r⟩ <;> simp [scanStr, h1, h2]

theorem scanStr_quote (fl : Flavor) (c : Cp) (r : List Cp) (pos : Nat) (h : c.c = '"') :
    scanStr fl '"' (c :: r) pos = .done [] r (pos + c.w) false := by
  have hq : ¬ (c.c = '$' ∧ ('"' : Char) = '`') := by intro h; exact absurd h.2 (by decide)
  rcases r with _ | ⟨d, _ | ⟨e, r⟩⟩ <;> simp [scanStr, h, hq]

/-- items that do not need the slow path: unescaped ASCII -/
def scharFast : SChar → Bool
  | .lit c => decide (c.toNat < 0x80)
  | _ => false

theorem dialect_jsStrings_json : (dialectOf .json).jsStrings = false := rfl

end EsbuildModel.Json
