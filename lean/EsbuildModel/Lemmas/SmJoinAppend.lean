import EsbuildModel.Lemmas.SmJoinShift
/-!
# Helper lemmas for `Props/C07Join.lean` — part 4: `AppendSourceMapChunk` on a chunk written by the sequential
encoder from the zero state is the sequential encoding of the shifted chunk after what the joiner already holds
-/
namespace EsbuildModel.SmJoin
open Vlq
open Spec.SourceMapV3 (Ev Orig Seg segsOf)

/-! ## byte-level facts -/

theorem decodeVLQ_at (A : Bytes) (v : Int) (B : Bytes) (n : Nat) (hn : n = A.length) :
    decodeVLQ (A ++ (enc v ++ B)) n = some (v, n + (enc v).length) := by
  subst hn
  have := C07_vlq A v B
  exact this
where
  C07_vlq (pre : Bytes) (v : Int) (rest : Bytes) :
      decodeVLQ (pre ++ (enc v ++ rest)) pre.length = some (v, pre.length + (enc v).length) := by
    unfold decodeVLQ enc decodeBytes encodeBytes
    have hmap : List.map (toDigit Gen.base64) (List.map (fromDigit Gen.base64) (encode v)) = encode v := by
      rw [List.map_map]
      conv => rhs; rw [← List.map_id (encode v)]
      apply List.map_congr_left
      intro d hd
      have : ∀ d, d < 64 → toDigit Gen.base64 (fromDigit Gen.base64 d) = d := by decide
      exact this d (encode_lt v d hd)
    simp only [List.length_append, List.length_map, List.drop_left',
      List.map_append, hmap, decode_encode_digits]
    split
    · omega
    · simp; omega

theorem enc_cons (v : Int) : ∃ b tl, enc v = b :: tl ∧ b ≠ 0 ∧ b ≠ 59 ∧ b ≠ 44 ∧ b ≠ 34 := by
  cases h : enc v with
  | nil => exact absurd h (enc_ne_nil v)
  | cons b tl =>
    have := enc_not_sep v b (by rw [h]; simp)
    exact ⟨b, tl, rfl, this⟩

theorem countSemis_replicate (s : Nat) (b : Nat) (rest : Bytes) (hb : b ≠ 59) :
    countSemis (List.replicate s 59 ++ b :: rest) = some s := by
  induction s with
  | zero => simp [countSemis, hb]
  | succ n ih => simp [List.replicate_succ, countSemis, ih]

/-! ## stripping the first mapping -/

theorem stripFirst_src (pre T : Bytes) (c a l o : Int) :
    stripFirst (pre ++ (enc c ++ (enc a ++ (enc l ++ (enc o ++ T))))) pre.length =
      some (c, a, l, o, pre.length + ((enc c).length + ((enc a).length + ((enc l).length + (enc o).length))),
        false) := by
  have h0 := decodeVLQ_at pre c (enc a ++ (enc l ++ (enc o ++ T))) pre.length rfl
  have h1 := decodeVLQ_at (pre ++ enc c) a (enc l ++ (enc o ++ T)) (pre.length + (enc c).length) (by simp)
  have h2 := decodeVLQ_at (pre ++ enc c ++ enc a) l (enc o ++ T)
    (pre.length + (enc c).length + (enc a).length) (by simp; omega)
  have h3 := decodeVLQ_at (pre ++ enc c ++ enc a ++ enc l) o T
    (pre.length + (enc c).length + (enc a).length + (enc l).length) (by simp; omega)
  simp only [List.append_assoc] at h1 h2 h3
  obtain ⟨b, tl, hb, _, hb59, hb44, _⟩ := enc_cons a
  have hget : (pre ++ (enc c ++ (enc a ++ (enc l ++ (enc o ++ T)))))[pre.length + (enc c).length]? = some b := by
    rw [← List.append_assoc, List.getElem?_append_right (by simp)]
    simp [hb]
  unfold stripFirst
  simp only [h0, hget, hb44, hb59, or_self, decide_false, Bool.false_eq_true, ↓reduceIte, h1, h2, h3]
  simp [Nat.add_assoc]

theorem stripFirst_nosrc (pre T : Bytes) (c : Int) (hT : T = [] ∨ ∃ b tl, T = b :: tl ∧ (b = 44 ∨ b = 59)) :
    stripFirst (pre ++ (enc c ++ T)) pre.length = some (c, 0, 0, 0, pre.length + (enc c).length, true) := by
  have h0 := decodeVLQ_at pre c T pre.length rfl
  unfold stripFirst
  rcases hT with rfl | ⟨b, tl, rfl, hb⟩
  · have hget : (pre ++ (enc c ++ []))[pre.length + (enc c).length]? = none := by simp
    simp only [h0, hget, ↓reduceIte]
  · have hget : (pre ++ (enc c ++ b :: tl))[pre.length + (enc c).length]? = some b := by
      rw [← List.append_assoc, List.getElem?_append_right (by simp)]
      simp
    simp only [h0, hget, hb, decide_true, ↓reduceIte]

/-! ## copying the rest -/

theorem appendRest_none (j : Joiner) (data : Bytes) (i : Nat) (d : Int) :
    appendRest j ⟨data, none⟩ i d = some ⟨j.data ++ data.drop i, lastAfter j.lastByte (data.drop i)⟩ := by
  simp [appendRest, addBytes_eq]

theorem appendRest_some (j : Joiner) (A X Y : Bytes) (n d : Int) :
    appendRest j ⟨A ++ (X ++ (enc n ++ Y)), some (A.length + X.length)⟩ A.length d =
      some ⟨j.data ++ (X ++ (enc (n + d) ++ Y)), lastAfter j.lastByte (X ++ (enc (n + d) ++ Y))⟩ := by
  have h0 := decodeVLQ_at (A ++ X) n Y (A.length + X.length) (by simp)
  simp only [List.append_assoc] at h0
  have hle : ¬ A.length > A.length + X.length := by omega
  have h1 : (List.take (A.length + X.length) (A ++ (X ++ (enc n ++ Y)))).drop A.length = X := by
    rw [← List.append_assoc, List.take_left' (by simp), List.drop_left' rfl]
  have h2 : List.drop (A.length + X.length + (enc n).length) (A ++ (X ++ (enc n ++ Y))) = Y := by
    have : A ++ (X ++ (enc n ++ Y)) = (A ++ X ++ enc n) ++ Y := by simp [List.append_assoc]
    rw [this, List.drop_left' (by simp; omega)]
  simp only [appendRest, h0, hle, ↓reduceIte, h1, h2, addBytes_eq, lastAfter_append, List.append_assoc]

/-! ## shape of what the sequential encoder writes -/

theorem encEvs_nls (p : State) (l : Nat) (n : Nat) :
    encEvs p l (List.replicate n Ev.nl) =
      ⟨List.replicate n 59,
       { p with genLine := p.genLine + n, genCol := if n = 0 then p.genCol else 0 },
       if n = 0 then l else 59, none⟩ := by
  induction n generalizing p l with
  | zero => simp [encEvs]
  | succ n ih =>
    simp only [List.replicate_succ, encEvs, encOne, ih]
    have e1 : p.genLine + 1 + (n : Int) = p.genLine + ((n + 1 : Nat) : Int) := by omega
    by_cases hn : n = 0
    · subst hn; simp
    · simp [hn, e1]

theorem Shift.noCol_noCol (δ : Shift) : δ.noCol.noCol = δ.noCol := rfl

theorem shiftEvs_nls (δ : Shift) (n : Nat) (evs : List Ev) :
    shiftEvs δ (List.replicate n Ev.nl ++ evs) =
      List.replicate n Ev.nl ++ shiftEvs (if n = 0 then δ else δ.noCol) evs := by
  cases n with
  | zero => simp
  | succ n =>
    simp only [List.replicate_succ, List.cons_append, shiftEvs, Nat.add_eq_zero_iff, Nat.succ_ne_self, and_false,
      ↓reduceIte]
    congr 1
    induction n with
    | zero => simp
    | succ n ih => simp only [List.replicate_succ, List.cons_append, shiftEvs, Shift.noCol_noCol, ih]

/-- the name field of the first segment -/
def nameBytes (nm : Option Int) (prevName : Int) : Bytes :=
  match nm with
  | some n => enc (n - prevName)
  | none => []

/-- the state after a first segment with source -/
def afterFirst (col : Int) (o : Orig) (prevName : Int) : State :=
  { genCol := col, srcIdx := o.src, origLine := o.line, origCol := o.col,
    origName := (match o.name with | some n => n | none => prevName), hasName := o.name.isSome }

theorem encEvs_first (p : State) (l : Nat) (c : Int) (o : Orig) (rest : List Ev) :
    (encEvs p l (Ev.seg c (some o) :: rest)).bytes =
        commaOf l ++ (enc (c - p.genCol) ++ (enc (o.src - p.srcIdx) ++ (enc (o.line - p.origLine)
          ++ enc (o.col - p.origCol)))) ++
          (nameBytes o.name p.origName ++ (encEvs { afterFirst c o p.origName with genLine := p.genLine } 65 rest).bytes) ∧
    (encEvs p l (Ev.seg c (some o) :: rest)).fno =
      (match o.name with
       | some _ => some (commaOf l ++ (enc (c - p.genCol) ++ (enc (o.src - p.srcIdx) ++ (enc (o.line - p.origLine)
          ++ enc (o.col - p.origCol))))).length
       | none => (encEvs { afterFirst c o p.origName with genLine := p.genLine } 65 rest).fno.map
          (· + (commaOf l ++ (enc (c - p.genCol) ++ (enc (o.src - p.srcIdx) ++ (enc (o.line - p.origLine)
          ++ enc (o.col - p.origCol))))).length)) ∧
    (encEvs p l (Ev.seg c (some o) :: rest)).st = (encEvs { afterFirst c o p.origName with genLine := p.genLine } 65 rest).st := by
  obtain ⟨a, ln, cl, nm⟩ := o
  have hlast : NoComma (encOne p l (.seg c (some ⟨a, ln, cl, nm⟩))).last ↔ NoComma 65 := by
    rw [encOne_last_noComma]; simp [NoComma]
  cases nm with
  | none =>
    have hst : (encOne p l (.seg c (some ⟨a, ln, cl, none⟩))).st =
        { afterFirst c ⟨a, ln, cl, none⟩ p.origName with genLine := p.genLine } := by
      simp [encOne, curOf, nextOf, afterFirst]
    obtain ⟨e1, e2, e3⟩ := encEvs_last_congr rest (encOne p l (.seg c (some ⟨a, ln, cl, none⟩))).st hlast
    rw [hst] at e1 e2 e3
    simp only [encEvs, hst, e1, e2, e3]
    simp [encOne, amb_bytes, amb_fno, fieldsOf, curOf, nameBytes, List.append_assoc]
  | some n =>
    have hst : (encOne p l (.seg c (some ⟨a, ln, cl, some n⟩))).st =
        { afterFirst c ⟨a, ln, cl, some n⟩ p.origName with genLine := p.genLine } := by
      simp [encOne, curOf, nextOf, afterFirst]
    obtain ⟨e1, e2, e3⟩ := encEvs_last_congr rest (encOne p l (.seg c (some ⟨a, ln, cl, some n⟩))).st hlast
    rw [hst] at e1 e2 e3
    simp only [encEvs, hst, e1, e2, e3]
    simp [encOne, amb_bytes, amb_fno, fieldsOf, fields0, curOf, nameBytes, List.append_assoc]

/-! ## the tail after the first mapping: spliced name = shifted encoding -/

/-- end state of the joined encoding (`q`) against the end state of the chunk (`p`): everything shifted, the name
index only if the chunk has a name at all (otherwise it stays what it was before the chunk, `P`) -/
structure EndRel (δ : Shift) (P : Int) (named : Bool) (p q : State) : Prop where
  c : q.genCol = p.genCol + δ.c
  a : q.srcIdx = p.srcIdx + δ.a
  dl : q.origLine = p.origLine + δ.dl
  dc : q.origCol = p.origCol + δ.dc
  b : q.origName = if named then p.origName + δ.b else P

theorem tail_shift (c : Int) (o : Orig) (rest : List Ev) (δ : Shift) (P : Int) (g g' : Int) :
    let R := encEvs { afterFirst c o 0 with genLine := g } 65 rest
    let R' := encEvs { afterFirst (c + δ.c) (shiftOrig δ o) P with genLine := g' } 65 (shiftEvs δ rest)
    (match o.name, R.fno with
     | none, some k => ∃ X n Y, R.bytes = X ++ (enc n ++ Y) ∧ X.length = k ∧ R'.bytes = X ++ (enc (n + (δ.b - P)) ++ Y)
     | _, _ => R'.bytes = R.bytes) ∧
    EndRel (if hasNl rest then δ.noCol else δ) P (o.name.isSome || R.fno.isSome) R.st R'.st := by
  obtain ⟨a, ln, cl, nm⟩ := o
  intro R R'
  cases nm with
  | some n =>
    have hrel : ShiftRel δ { afterFirst c ⟨a, ln, cl, some n⟩ 0 with genLine := g }
        { afterFirst (c + δ.c) (shiftOrig δ ⟨a, ln, cl, some n⟩) P with genLine := g' } := by
      constructor <;> simp [afterFirst, shiftOrig]
    obtain ⟨h1, _, h3⟩ := shift_all rest δ _ _ hrel 65
    refine ⟨by simpa using h1, ?_⟩
    obtain ⟨x1, x2, x3, x4, x5⟩ := h3
    exact ⟨x1, x2, x3, x4, by simpa using x5⟩
  | none =>
    -- the chunk-side state with the name index moved so that the shifted state is the joined one
    have hrel : ShiftRel δ { afterFirst c ⟨a, ln, cl, none⟩ (0 - (δ.b - P)) with genLine := g }
        { afterFirst (c + δ.c) (shiftOrig δ ⟨a, ln, cl, none⟩) P with genLine := g' } := by
      constructor <;> simp [afterFirst, shiftOrig]
      omega
    obtain ⟨h1, _, h3⟩ := shift_all rest δ _ _ hrel 65
    have hmk : ({ afterFirst c ⟨a, ln, cl, none⟩ (0 - (δ.b - P)) with genLine := g } : State) =
        { ({ afterFirst c ⟨a, ln, cl, none⟩ 0 with genLine := g } : State) with
          origName := ({ afterFirst c ⟨a, ln, cl, none⟩ 0 with genLine := g } : State).origName - (δ.b - P) } := by
      simp [afterFirst]
    cases hf : R.fno with
    | none =>
      obtain ⟨e1, e2⟩ := splice_none rest _ 65 hf (0 - (δ.b - P))
      have hmk' : ({ afterFirst c ⟨a, ln, cl, none⟩ (0 - (δ.b - P)) with genLine := g } : State) =
        { ({ afterFirst c ⟨a, ln, cl, none⟩ 0 with genLine := g } : State) with origName := 0 - (δ.b - P) } := by
        simp [afterFirst]
      rw [hmk'] at h1 h3
      refine ⟨by show R'.bytes = R.bytes; rw [h1, e1], ?_⟩
      rw [e2] at h3
      obtain ⟨x1, x2, x3, x4, x5⟩ := h3
      refine ⟨x1, x2, x3, x4, ?_⟩
      simp only [Option.isSome_none, Bool.or_self, Bool.false_eq_true, ↓reduceIte]
      rw [x5]
      have hb : (if hasNl rest = true then δ.noCol else δ).b = δ.b := by split <;> rfl
      simp only [hb]; omega
    | some k =>
      obtain ⟨X, n, Y, hb, hX, hδ⟩ := splice_some rest _ 65 k hf
      obtain ⟨e1, e2⟩ := hδ (δ.b - P)
      rw [hmk] at h1 h3
      refine ⟨⟨X, n, Y, by simpa [List.append_assoc] using hb, hX, ?_⟩, ?_⟩
      · rw [h1, e1]; simp [List.append_assoc]
      · rw [e2] at h3
        obtain ⟨x1, x2, x3, x4, x5⟩ := h3
        exact ⟨x1, x2, x3, x4, by simpa using x5⟩

/-! ## evaluating `AppendSourceMapChunk` -/

theorem lastAfter_replicate (l n x : Nat) : lastAfter l (List.replicate n x) = if n = 0 then l else x := by
  cases n with
  | zero => simp
  | succ n => simp [lastAfter, List.getLast?_replicate]

/-- the bytes `AppendSourceMapChunk` writes for a buffer `;…; col src line col T` whose rest `T` is copied as `T'` -/
theorem asmc_eval (j : Joiner) (prevEnd start : State) (hl : 0 ≤ start.genLine) (hn : start.hasName = false)
    (s : Nat) (c a l oc : Int) (T T' : Bytes) (fno : Option Nat)
    (hrest : ∀ j' : Joiner, appendRest j'
        ⟨List.replicate s 59 ++ (enc c ++ (enc a ++ (enc l ++ (enc oc ++ T)))), fno⟩
        (s + ((enc c).length + ((enc a).length + ((enc l).length + (enc oc).length))))
        (start.origName - prevEnd.origName) = some ⟨j'.data ++ T', lastAfter j'.lastByte T'⟩) :
    let K := start.genLine.toNat
    let lead := List.replicate K 59 ++ List.replicate s 59
    let rewritten := commaOf (lastAfter j.lastByte lead) ++
      (enc ((if s = 0 then start.genCol else 0) + c - (if K = 0 ∧ s = 0 then prevEnd.genCol else 0)) ++
        (enc (start.srcIdx + a - prevEnd.srcIdx) ++ (enc (start.origLine + l - prevEnd.origLine) ++
          enc (start.origCol + oc - prevEnd.origCol))))
    appendSourceMapChunk j prevEnd start ⟨List.replicate s 59 ++ (enc c ++ (enc a ++ (enc l ++ (enc oc ++ T)))), fno⟩ =
      some ⟨j.data ++ (lead ++ (rewritten ++ T')), lastAfter j.lastByte (lead ++ (rewritten ++ T'))⟩ := by
  intro K lead rewritten
  obtain ⟨b, tl, hb, _, hb59, _, _⟩ := enc_cons c
  have hcs : countSemis (List.replicate s 59 ++ (enc c ++ (enc a ++ (enc l ++ (enc oc ++ T))))) = some s := by
    rw [hb]; exact countSemis_replicate s b _ hb59
  have hsf := stripFirst_src (List.replicate s 59) T c a l oc
  simp only [List.length_replicate] at hsf
  have hneg : ¬ start.genLine < 0 := by omega
  have htake : List.take s (List.replicate s 59 ++ (enc c ++ (enc a ++ (enc l ++ (enc oc ++ T))))) =
      List.replicate s 59 := List.take_left' (by simp)
  by_cases hK : start.genLine = 0
  · have hK0 : start.genLine.toNat = 0 := by simp [hK]
    by_cases hs : s = 0
    · subst hs
      unfold appendSourceMapChunk
      simp only [↓reduceIte, hcs, hsf, hK, ne_eq, not_true_eq_false, Nat.lt_irrefl]
      rw [hrest]
      simp [K, hK0, lead, rewritten, addBytes_eq, amb_bytes, fieldsOf, hn, lastAfter_append, List.append_assoc]
    · have hs' : s > 0 := by omega
      unfold appendSourceMapChunk
      simp only [↓reduceIte, hcs, hsf, htake, hK, ne_eq, not_true_eq_false, hs']
      rw [hrest]
      simp [K, hK0, hs, lead, rewritten, addBytes_eq, amb_bytes, fieldsOf, hn, lastAfter_append, lastAfter_replicate, List.append_assoc]
  · have hK0 : start.genLine.toNat ≠ 0 := by omega
    by_cases hs : s = 0
    · subst hs
      unfold appendSourceMapChunk
      simp only [hneg, ↓reduceIte, hcs, hsf, hK, ne_eq, not_false_eq_true, Nat.lt_irrefl]
      rw [hrest]
      simp [K, hK0, lead, rewritten, addBytes_eq, amb_bytes, fieldsOf, hn, lastAfter_append, lastAfter_replicate, List.append_assoc]
    · have hs' : s > 0 := by omega
      unfold appendSourceMapChunk
      simp only [hneg, ↓reduceIte, hcs, hsf, htake, hK, ne_eq, not_false_eq_true, hs']
      rw [hrest]
      simp [K, hK0, hs, lead, rewritten, addBytes_eq, amb_bytes, fieldsOf, hn, lastAfter_append, lastAfter_replicate, List.append_assoc]

/-! ## the two shapes -/

theorem commaOf_noComma {l : Nat} (h : NoComma l) : commaOf l = [] := by simp [commaOf, h]

theorem chunk_shape (s : Nat) (c : Int) (o : Orig) (rest : List Ev) :
    (encEvs {} 0 (List.replicate s Ev.nl ++ Ev.seg c (some o) :: rest)).bytes =
        List.replicate s 59 ++ (enc c ++ (enc o.src ++ (enc o.line ++ (enc o.col ++
          (nameBytes o.name 0 ++ (encEvs { afterFirst c o 0 with genLine := s } 65 rest).bytes))))) ∧
    (encEvs {} 0 (List.replicate s Ev.nl ++ Ev.seg c (some o) :: rest)).fno =
      (match o.name with
       | some _ => some (s + ((enc c).length + ((enc o.src).length + ((enc o.line).length + (enc o.col).length))))
       | none => (encEvs { afterFirst c o 0 with genLine := s } 65 rest).fno.map
          (· + (s + ((enc c).length + ((enc o.src).length + ((enc o.line).length + (enc o.col).length)))))) ∧
    (encEvs {} 0 (List.replicate s Ev.nl ++ Ev.seg c (some o) :: rest)).st =
      (encEvs { afterFirst c o 0 with genLine := s } 65 rest).st := by
  have hnc : NoComma (if s = 0 then 0 else 59) := by unfold NoComma; split <;> simp
  obtain ⟨h1, h2, h3⟩ := encEvs_first
    { ({} : State) with genLine := (0 : Int) + s, genCol := if s = 0 then (0 : Int) else 0 }
    (if s = 0 then 0 else 59) c o rest
  simp only [ite_self, Int.sub_zero, commaOf_noComma hnc, List.nil_append, Int.zero_add] at h1 h2 h3
  rw [encEvs_append, encEvs_nls]
  simp only [ite_self, Int.zero_add]
  refine ⟨?_, ?_, ?_⟩
  · rw [h1]; simp [List.append_assoc]
  · rw [h2]
    cases o.name <;> simp
    · cases (encEvs { afterFirst c o 0 with genLine := s } 65 rest).fno <;> simp; omega
    · omega
  · rw [h3]

theorem joined_shape (p : State) (l : Nat) (n : Nat) (δ : Shift) (c : Int) (o : Orig) (rest : List Ev) :
    (encEvs p l (List.replicate n Ev.nl ++ shiftEvs δ (Ev.seg c (some o) :: rest))).bytes =
        List.replicate n 59 ++ (commaOf (if n = 0 then l else 59) ++
          (enc (c + δ.c - (if n = 0 then p.genCol else 0)) ++ (enc (o.src + δ.a - p.srcIdx) ++
          (enc (o.line + δ.dl - p.origLine) ++ (enc (o.col + δ.dc - p.origCol) ++
          (nameBytes (o.name.map (· + δ.b)) p.origName ++
            (encEvs { afterFirst (c + δ.c) (shiftOrig δ o) p.origName with genLine := p.genLine + n } 65
              (shiftEvs δ rest)).bytes)))))) ∧
    (encEvs p l (List.replicate n Ev.nl ++ shiftEvs δ (Ev.seg c (some o) :: rest))).st =
      (encEvs { afterFirst (c + δ.c) (shiftOrig δ o) p.origName with genLine := p.genLine + n } 65
        (shiftEvs δ rest)).st := by
  obtain ⟨h1, _, h3⟩ := encEvs_first
    { p with genLine := p.genLine + n, genCol := if n = 0 then p.genCol else 0 }
    (if n = 0 then l else 59) (c + δ.c) (shiftOrig δ o) (shiftEvs δ rest)
  rw [encEvs_append, encEvs_nls]
  simp only [shiftEvs, Option.map_some]
  refine ⟨?_, ?_⟩
  · rw [h1]; simp [shiftOrig, List.append_assoc]
  · rw [h3]

/-! ## joining = sequential encoding of the shifted chunk -/

/-- the shift a start state asks for -/
def shiftOfStart (start : State) : Shift :=
  ⟨start.genCol, start.srcIdx, start.origLine, start.origCol, start.origName⟩

theorem hasNl_nls_append (s : Nat) (evs : List Ev) :
    hasNl (List.replicate s Ev.nl ++ evs) = (decide (s ≠ 0) || hasNl evs) := by
  cases s with
  | zero => simp
  | succ n => simp [List.replicate_succ, hasNl]

/-- `hrest` of `asmc_eval` for the three kinds of rest -/
theorem rest_named (j' : Joiner) (s : Nat) (c a l oc n d : Int) (Y : Bytes) :
    appendRest j' ⟨List.replicate s 59 ++ (enc c ++ (enc a ++ (enc l ++ (enc oc ++ (enc n ++ Y))))),
        some (s + ((enc c).length + ((enc a).length + ((enc l).length + (enc oc).length))))⟩
      (s + ((enc c).length + ((enc a).length + ((enc l).length + (enc oc).length)))) d =
      some ⟨j'.data ++ (enc (n + d) ++ Y), lastAfter j'.lastByte (enc (n + d) ++ Y)⟩ := by
  have := appendRest_some j' (List.replicate s 59 ++ (enc c ++ (enc a ++ (enc l ++ enc oc)))) [] Y n d
  simpa [List.append_assoc] using this

theorem rest_later (j' : Joiner) (s : Nat) (c a l oc n d : Int) (X Y : Bytes) :
    appendRest j' ⟨List.replicate s 59 ++ (enc c ++ (enc a ++ (enc l ++ (enc oc ++ (X ++ (enc n ++ Y)))))),
        some (X.length + (s + ((enc c).length + ((enc a).length + ((enc l).length + (enc oc).length)))))⟩
      (s + ((enc c).length + ((enc a).length + ((enc l).length + (enc oc).length)))) d =
      some ⟨j'.data ++ (X ++ (enc (n + d) ++ Y)), lastAfter j'.lastByte (X ++ (enc (n + d) ++ Y))⟩ := by
  have := appendRest_some j' (List.replicate s 59 ++ (enc c ++ (enc a ++ (enc l ++ enc oc)))) X Y n d
  have hl : (List.replicate s 59 ++ (enc c ++ (enc a ++ (enc l ++ enc oc)))).length + X.length =
      X.length + (s + ((enc c).length + ((enc a).length + ((enc l).length + (enc oc).length)))) := by
    simp; omega
  rw [hl] at this
  simpa [List.append_assoc] using this

theorem rest_plain (j' : Joiner) (s : Nat) (c a l oc d : Int) (Y : Bytes) :
    appendRest j' ⟨List.replicate s 59 ++ (enc c ++ (enc a ++ (enc l ++ (enc oc ++ Y)))), none⟩
      (s + ((enc c).length + ((enc a).length + ((enc l).length + (enc oc).length)))) d =
      some ⟨j'.data ++ Y, lastAfter j'.lastByte Y⟩ := by
  rw [appendRest_none]
  have : List.drop (s + ((enc c).length + ((enc a).length + ((enc l).length + (enc oc).length))))
      (List.replicate s 59 ++ (enc c ++ (enc a ++ (enc l ++ (enc oc ++ Y))))) = Y := by
    have h : List.replicate s 59 ++ (enc c ++ (enc a ++ (enc l ++ (enc oc ++ Y)))) =
        (List.replicate s 59 ++ (enc c ++ (enc a ++ (enc l ++ enc oc)))) ++ Y := by simp [List.append_assoc]
    rw [h, List.drop_left' (by simp)]
  rw [this]

end EsbuildModel.SmJoin
