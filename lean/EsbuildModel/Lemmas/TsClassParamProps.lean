/-
What the statements esbuild generates for parameter properties mean (Impl ppStmts against Spec ppInit).
-/
import EsbuildModel.Impl.TsClass
namespace EsbuildModel.TsClass

/-- `__publicField` (runtime.go: `key in obj ? defineProperty : obj[key] = value`) has define semantics -/
theorem publicField_state (S : List Nat) (s : St) (id x : Nat) (v : Val) : (s.publicField S id x v).2 = s.define id x v := by
  unfold St.publicField
  split
  · rfl
  · rename_i h
    simp only [Bool.or_eq_true, not_or, Bool.not_eq_true] at h
    have h2 : ¬ x ∈ S := by simpa using h.2
    simp [St.assign, h.1, h2]

theorem evalStmts_cons_expr (m : Mode) (e : Expr) (r : Stmts) (C : Ctx) (env : Env) (t : Option Nat) (s : St) :
    evalStmts m (.cons (.expr e) r) C env t s =
      (evalE m e C env t s).bind fun r1 s1 => evalStmts m r C env r1.2 s1 := by
  rw [evalStmts]
  · simp only [evalStmt]
    cases evalE m e C env t s <;> simp [Res.bind]
  · intro i ins h; cases h

/-- the generated statements do, in order, what TypeScript defines for the parameter properties: assignments when
useDefineForClassFields is off or the fields are native, definitions otherwise; a parameter without a value throws -/
theorem ppStmts_sem (m o : Mode) (C : Ctx) (env : Env) (id : Nat) (rest : Stmts) :
    ∀ (ps : Params) (i : Nat) (s : St),
      evalStmts m ((ppStmts o ps i).append rest) C env (some id) s =
        (ppInit (o.useDefine && !o.native) C.setters env.params ps i id s).bind fun _ s' =>
          evalStmts m rest C env (some id) s'
  | .nil, _, s => by simp [ppStmts, Stmts.append, ppInit, Res.bind]
  | .cons isProp hasD d r, i, s => by
    have ih := ppStmts_sem m o C env id rest r (i + 1)
    cases isProp with
    | false => simpa [ppStmts, ppInit] using ih s
    | true =>
      simp only [ppStmts, ppInit, if_true]
      cases hud : o.useDefine <;> cases hn : o.native <;>
        simp only [Bool.not_true, Bool.not_false, Bool.and_true, Bool.and_false, Bool.or_true, Bool.or_false,
          Bool.false_or, Bool.true_or, if_true, if_false, Bool.false_eq_true, Bool.true_and, Bool.false_and, Stmts.append,
          evalStmts_cons_expr, evalE] <;>
        cases hv : env.params[i]? <;>
        simp [Res.bind, ih, hud, hn, publicField_state]

end EsbuildModel.TsClass
