import EsbuildModel.Lemmas.JsonParseC8
/-
Completeness of the parser: the recursion on the derivation.
-/
namespace EsbuildModel.Json
open EsbuildModel.Spec.Json EsbuildModel.Spec.NumLit

@[simp] theorem Lx.at_tok (L : Lx) (sk : Sk) (t : Tok) (r : List Cp) (e : Nat) : (L.at sk t r e).tok = t := rfl

section
variable {P : Params} {Rd : Rat → F64} (hP : ParamsOK P Rd) (o : Opts)
include hP

theorem follow_tail (s2 : List SepItem) (tr : Option (List SepItem)) (c : Char) (rest : List Cp)
    (hs2 : Sep.ok (dialectOf o.flavor) false false s2 = true) (hc : c = ']' ∨ c = '}') :
    Follow (cps (Sep.render s2) ++ (cps (trailingRender tr) ++ cpOf c :: rest)) := by
  apply follow_sep o.flavor hs2
  cases tr with
  | none =>
    simp only [trailingRender, cps_nil, List.nil_append]
    rcases hc with rfl | rfl
    · exact follow_of_punct (by simp)
    · exact follow_of_punct (by simp)
  | some s =>
    simp only [trailingRender, cps_cons, List.cons_append]
    exact follow_of_punct (by simp)

mutual
theorem val_complete (v : Val) (hok : v.ok (dialectOf o.flavor) = true) :
    ∃ n0, ∀ n, n0 ≤ n → ∀ (L0 : Lx) (sk : Sk) (rest : List Cp), Follow rest → sk.log.Clean →
      ValDone Rd o P n v L0 sk rest := by
  cases v with
  | null =>
    refine ⟨1, fun n hn L0 sk rest hf hcl => ?_⟩
    obtain ⟨m, rfl⟩ : ∃ m, n = m + 1 := ⟨n - 1, by omega⟩
    exact word_done hP o m .null L0 sk rest (Or.inl rfl) hf hcl
  | tt =>
    refine ⟨1, fun n hn L0 sk rest hf hcl => ?_⟩
    obtain ⟨m, rfl⟩ : ∃ m, n = m + 1 := ⟨n - 1, by omega⟩
    exact word_done hP o m .tt L0 sk rest (Or.inr (Or.inl rfl)) hf hcl
  | ff =>
    refine ⟨1, fun n hn L0 sk rest hf hcl => ?_⟩
    obtain ⟨m, rfl⟩ : ∃ m, n = m + 1 := ⟨n - 1, by omega⟩
    exact word_done hP o m .ff L0 sk rest (Or.inr (Or.inr rfl)) hf hcl
  | num jn =>
    refine ⟨1, fun n hn L0 sk rest hf hcl => ?_⟩
    obtain ⟨m, rfl⟩ : ∃ m, n = m + 1 := ⟨n - 1, by omega⟩
    exact num_done hP o m jn L0 sk rest hok hf hcl
  | str cs =>
    refine ⟨1, fun n hn L0 sk rest _ hcl => ?_⟩
    obtain ⟨m, rfl⟩ : ∃ m, n = m + 1 := ⟨n - 1, by omega⟩
    exact str_done o m cs L0 sk rest hok hcl
  | arr0 s =>
    refine ⟨2, fun n hn L0 sk rest _ hcl => ?_⟩
    obtain ⟨m, rfl⟩ : ∃ m, n = m + 2 := ⟨n - 2, by omega⟩
    have hlex := lexAt_punct o.flavor P L0 sk '[' .openBracket (cps (Sep.render s) ++ cpOf ']' :: rest) (Or.inl ⟨rfl, rfl⟩)
    have hpos := cpOf_w_pos '['
    obtain ⟨Lc, c1, c2, c3, c4, c5⟩ := punct_next o.flavor P
      (L0.at sk .openBracket (cps (Sep.render s) ++ cpOf ']' :: rest) (sk.pos + (cpOf '[').w)) s ']' .closeBracket rest
      rfl hcl (by simp only [Lx.at]; omega) hok (by simp)
    refine ⟨L0.at sk .openBracket (cps (Sep.render s) ++ cpOf ']' :: rest) (sk.pos + (cpOf '[').w),
      .arr [] (if Lc.nl then false else !Lc.nl), Lc, ?_, by simp [Lx.at], by simp [Lx.at], rfl, ?_, c3, c4, c5,
      ⟨_, rfl⟩⟩
    · simpa [Val.render] using hlex
    · simp only [parseExpr, Lx.at] at c1 ⊢
      rw [c1]
      simp only
      rw [arr_close o P m Lc [] _ c2]
  | arr es =>
    have hok' : es.ok (dialectOf o.flavor) = true := hok
    obtain ⟨n0, ih⟩ := elems_complete es hok'
    refine ⟨n0 + 2, fun n hn L0 sk rest _ hcl => ?_⟩
    obtain ⟨m, rfl⟩ : ∃ m, n = m + 2 := ⟨n - 2, by omega⟩
    have hpos := cpOf_w_pos '['
    have hlex := lexAt_punct o.flavor P L0 sk '[' .openBracket
      (cps (Sep.render (elemsS1 es)) ++ (cps (elemsTail es) ++ cpOf ']' :: rest)) (Or.inl ⟨rfl, rfl⟩)
    have he : (sk.pos + (cpOf '[').w == 0) = false := by simp; omega
    obtain ⟨log', n1, n2⟩ := next_at o.flavor P
      (L0.at sk .openBracket (cps (Sep.render (elemsS1 es)) ++ (cps (elemsTail es) ++ cpOf ']' :: rest)) (sk.pos + (cpOf '[').w))
      (elemsS1 es) (cps (elemsTail es) ++ cpOf ']' :: rest) false rfl
      (by simp only [Lx.at, he]; exact elemsS1_ok hok') hcl (by simp) (elemsTail_stop o es hok' _)
    obtain ⟨L, asts, s', L1, e1, e2, e3, e4, e5, e6, e7, e8⟩ := ih m (by omega)
      (L0.at sk .openBracket (cps (Sep.render (elemsS1 es)) ++ (cps (elemsTail es) ++ cpOf ']' :: rest)) (sk.pos + (cpOf '[').w))
      ⟨sk.pos + (cpOf '[').w + widths (cps (Sep.render (elemsS1 es))), (sk.pos + (cpOf '[').w == 0) || sepNl (elemsS1 es), log'⟩
      rest [] (!((sk.pos + (cpOf '[').w == 0) || sepNl (elemsS1 es))) n1
    refine ⟨L0.at sk .openBracket (cps (Sep.render (elemsS1 es)) ++ (cps (elemsTail es) ++ cpOf ']' :: rest)) (sk.pos + (cpOf '[').w),
      .arr asts s', L1, ?_, by simp [Lx.at], by simp [Lx.at], rfl, ?_, e5, e6, e7, ⟨asts, s', rfl, e8⟩⟩
    · have : cps (Val.arr es).render ++ rest =
          cpOf '[' :: (cps (Sep.render (elemsS1 es)) ++ (cps (elemsTail es) ++ cpOf ']' :: rest)) := by
        simp [Val.render, elems_render]
      rw [this]; exact hlex
    · simp only [parseExpr, Lx.at_tok]
      rw [n2]
      erw [e1]
      simp only
      rw [arrLoop_succ, if_neg e2]
      simp only [sepStep, List.isEmpty_nil, Bool.not_true, Bool.not_false, if_true, R.bind_ok, e3]
      simpa using e4
  | obj0 s =>
    refine ⟨2, fun n hn L0 sk rest _ hcl => ?_⟩
    obtain ⟨m, rfl⟩ : ∃ m, n = m + 2 := ⟨n - 2, by omega⟩
    have hlex := lexAt_punct o.flavor P L0 sk '{' .openBrace (cps (Sep.render s) ++ cpOf '}' :: rest)
      (Or.inr (Or.inr (Or.inl ⟨rfl, rfl⟩)))
    have hpos := cpOf_w_pos '{'
    obtain ⟨Lc, c1, c2, c3, c4, c5⟩ := punct_next o.flavor P
      (L0.at sk .openBrace (cps (Sep.render s) ++ cpOf '}' :: rest) (sk.pos + (cpOf '{').w)) s '}' .closeBrace rest
      rfl hcl (by simp only [Lx.at]; omega) hok (by simp)
    refine ⟨L0.at sk .openBrace (cps (Sep.render s) ++ cpOf '}' :: rest) (sk.pos + (cpOf '{').w),
      .obj [] (if Lc.nl then false else !Lc.nl), Lc, ?_, by simp [Lx.at], by simp [Lx.at], rfl, ?_, c3, c4, c5,
      ⟨_, rfl⟩⟩
    · simpa [Val.render] using hlex
    · simp only [parseExpr, Lx.at] at c1 ⊢
      rw [c1]
      simp only
      rw [obj_close o P m Lc [] [] _ c2]
  | obj ms =>
    have hok' : ms.ok (dialectOf o.flavor) = true := hok
    obtain ⟨n0, ih⟩ := members_complete ms hok'
    refine ⟨n0 + 2, fun n hn L0 sk rest _ hcl => ?_⟩
    obtain ⟨m, rfl⟩ : ∃ m, n = m + 2 := ⟨n - 2, by omega⟩
    have hpos := cpOf_w_pos '{'
    have hlex := lexAt_punct o.flavor P L0 sk '{' .openBrace
      (cps (Sep.render (membersS1 ms)) ++ (cps (membersTail ms) ++ cpOf '}' :: rest)) (Or.inr (Or.inr (Or.inl ⟨rfl, rfl⟩)))
    have he : (sk.pos + (cpOf '{').w == 0) = false := by simp; omega
    obtain ⟨log', n1, n2⟩ := next_at o.flavor P
      (L0.at sk .openBrace (cps (Sep.render (membersS1 ms)) ++ (cps (membersTail ms) ++ cpOf '}' :: rest)) (sk.pos + (cpOf '{').w))
      (membersS1 ms) (cps (membersTail ms) ++ cpOf '}' :: rest) false rfl
      (by simp only [Lx.at, he]; exact membersS1_ok hok') hcl (by simp) (membersTail_stop ms _)
    obtain ⟨L, asts, s', L1, e1, e2, e3, e4, e5, e6, e7, e8⟩ := ih m (by omega)
      (L0.at sk .openBrace (cps (Sep.render (membersS1 ms)) ++ (cps (membersTail ms) ++ cpOf '}' :: rest)) (sk.pos + (cpOf '{').w))
      ⟨sk.pos + (cpOf '{').w + widths (cps (Sep.render (membersS1 ms))), (sk.pos + (cpOf '{').w == 0) || sepNl (membersS1 ms), log'⟩
      rest [] [] (!((sk.pos + (cpOf '{').w == 0) || sepNl (membersS1 ms))) n1
    refine ⟨L0.at sk .openBrace (cps (Sep.render (membersS1 ms)) ++ (cps (membersTail ms) ++ cpOf '}' :: rest)) (sk.pos + (cpOf '{').w),
      .obj asts s', L1, ?_, by simp [Lx.at], by simp [Lx.at], rfl, ?_, e5, e6, e7, ⟨asts, s', rfl, e8⟩⟩
    · have : cps (Val.obj ms).render ++ rest =
          cpOf '{' :: (cps (Sep.render (membersS1 ms)) ++ (cps (membersTail ms) ++ cpOf '}' :: rest)) := by
        simp [Val.render, members_render]
      rw [this]; exact hlex
    · simp only [parseExpr, Lx.at_tok]
      rw [n2]
      erw [e1]
      simp only
      rw [objLoop_succ, if_neg e2]
      simp only [sepStep, List.isEmpty_nil, Bool.not_true, Bool.not_false, if_true, R.bind_ok, e3]
      simpa using e4

theorem elems_complete (es : Elems) (hok : es.ok (dialectOf o.flavor) = true) :
    ∃ n0, ∀ n, n0 ≤ n → ∀ (L0 : Lx) (sk : Sk) (rest : List Cp) (items : List Ast) (single : Bool), sk.log.Clean →
      ElemsDone Rd o P n es L0 sk rest items single := by
  cases es with
  | last s1 v s2 tr =>
    simp only [Elems.ok, Bool.and_eq_true] at hok
    obtain ⟨⟨⟨hs1, hv⟩, hs2⟩, htr⟩ := hok
    obtain ⟨n0, ih⟩ := val_complete v hv
    refine ⟨n0 + 2, fun n hn L0 sk rest items single hcl => ?_⟩
    obtain ⟨m, rfl⟩ : ∃ m, n = m + 2 := ⟨n - 2, by omega⟩
    obtain ⟨L, ast, L1v, h1, h2, h3, h4, h5, h6, h7, h8, h9⟩ := ih (m + 2) (by omega) L0 sk
      (cps (Sep.render s2) ++ (cps (trailingRender tr) ++ cpOf ']' :: rest)) (follow_tail hP o s2 tr ']' rest hs2 (Or.inl rfl)) hcl
    obtain ⟨s', L1, t1, t2, t3, t4⟩ := arr_tail_done o m L1v s2 tr rest (items ++ [ast]) single h6 h7 h8 hs2 htr (by simp)
    refine ⟨L, [ast], s', L1, ?_, h2, h4, ?_, t2, t3, t4, ⟨ast, rfl, h9⟩⟩
    · simpa [elemsTail] using h1
    · rw [h5, R.bind_assoc]
      simp only [R.bind_ok]
      exact t1
  | cons s1 v s2 rest_e =>
    simp only [Elems.ok, Bool.and_eq_true] at hok
    obtain ⟨⟨⟨hs1, hv⟩, hs2⟩, hre⟩ := hok
    obtain ⟨n0, ihv⟩ := val_complete v hv
    obtain ⟨n1, ihe⟩ := elems_complete rest_e hre
    refine ⟨n0 + n1 + 1, fun n hn L0 sk rest items single hcl => ?_⟩
    obtain ⟨m, rfl⟩ : ∃ m, n = m + 1 := ⟨n - 1, by omega⟩
    have hfol : Follow (cps (Sep.render s2) ++ cpOf ',' :: (cps (Sep.render (elemsS1 rest_e)) ++
        (cps (elemsTail rest_e) ++ cpOf ']' :: rest))) := follow_sep o.flavor hs2 (follow_of_punct (by simp))
    obtain ⟨L, ast, L1v, h1, h2, h3, h4, h5, h6, h7, h8, h9⟩ := ihv (m + 1) (by omega) L0 sk _ hfol hcl
    obtain ⟨Lm, sk', k1, k2, k3⟩ := arr_comma_step o m L1v s2 (elemsS1 rest_e) (cps (elemsTail rest_e) ++ cpOf ']' :: rest)
      (items ++ [ast]) single h6 h7 h8 hs2 (elemsS1_ok hre) (elemsTail_stop o rest_e hre _) (by simp)
    obtain ⟨L2, asts, s', L1, e1, e2, e3, e4, e5, e6, e7, e8⟩ := ihe m (by omega) Lm sk' rest (items ++ [ast])
      (if sk'.nl then false else if Lm.nl then false else single) k1
    refine ⟨L, ast :: asts, s', L1, ?_, h2, h4, ?_, e5, e6, e7, ⟨ast, asts, rfl, h9, e8⟩⟩
    · have : cps (elemsTail (.cons s1 v s2 rest_e)) ++ cpOf ']' :: rest = cps v.render ++ (cps (Sep.render s2) ++
          cpOf ',' :: (cps (Sep.render (elemsS1 rest_e)) ++ (cps (elemsTail rest_e) ++ cpOf ']' :: rest))) := by
        simp only [elemsTail, elems_render rest_e, cps_append, cps_cons, List.append_assoc, List.cons_append]
      rw [this]; exact h1
    · rw [h5, R.bind_assoc]
      simp only [R.bind_ok]
      rw [k3 L2 e1 e2 e3, e4]
      simp

theorem members_complete (ms : Members) (hok : ms.ok (dialectOf o.flavor) = true) :
    ∃ n0, ∀ n, n0 ≤ n → ∀ (L0 : Lx) (sk : Sk) (rest : List Cp) (props : List (List Nat × Bool × Ast))
      (seen : List (List Nat)) (single : Bool), sk.log.Clean →
      MembersDone Rd o P n ms L0 sk rest props seen single := by
  cases ms with
  | last s1 k s2 s3 v s4 tr =>
    simp only [Members.ok, Bool.and_eq_true] at hok
    obtain ⟨⟨⟨⟨⟨⟨hs1, hk⟩, hs2⟩, hs3⟩, hv⟩, hs4⟩, htr⟩ := hok
    obtain ⟨n0, ih⟩ := val_complete v hv
    refine ⟨n0 + 2, fun n hn L0 sk rest props seen single hcl => ?_⟩
    obtain ⟨m, rfl⟩ : ∃ m, n = m + 2 := ⟨n - 2, by omega⟩
    obtain ⟨L', seen', L3, sk3, q1, q2, q3, q4, q5⟩ := key_done (P := P) o L0 sk k s2 s3
      (cps v.render ++ (cps (Sep.render s4) ++ (cps (trailingRender tr) ++ cpOf '}' :: rest))) seen hk hs2 hs3 hcl
      (val_head_stop o.flavor v hv _)
    obtain ⟨L, ast, L1v, h1, h2, h3, h4, h5, h6, h7, h8, h9⟩ := ih (m + 2) (by omega) L3 sk3
      (cps (Sep.render s4) ++ (cps (trailingRender tr) ++ cpOf '}' :: rest)) (follow_tail hP o s4 tr '}' rest hs4 (Or.inr rfl)) q3
    obtain ⟨s', L1, t1, t2, t3, t4⟩ := obj_tail_done o m L1v s4 tr rest
      (props ++ [(strUnits k, decide (strUnits k = protoKey) && o.objExt, ast)]) seen' single h6 h7 h8 hs4 htr (by simp)
    refine ⟨L', [propOf o.objExt k ast], s', L1, ?_, by rw [q2]; simp, ?_, ?_, t2, t3, t4, ⟨ast, rfl, h9⟩⟩
    · have : cps (membersTail (.last s1 k s2 s3 v s4 tr)) ++ cpOf '}' :: rest = cps (strTok k) ++ (cps (Sep.render s2) ++
          cpOf ':' :: (cps (Sep.render s3) ++ (cps v.render ++ (cps (Sep.render s4) ++
            (cps (trailingRender tr) ++ cpOf '}' :: rest))))) := by
        simp [membersTail]
      rw [this]; exact q1
    · have := lexAt_string o.flavor P L0 sk k hk (cps (Sep.render s2) ++ cpOf ':' :: (cps (Sep.render s3) ++
        (cps v.render ++ (cps (Sep.render s4) ++ (cps (trailingRender tr) ++ cpOf '}' :: rest)))))
      obtain ⟨La, _, a1, a2, _, _⟩ := this
      rw [q1] at a1; cases a1
      exact Lx.view_nl a2
    · rw [q5, h1]
      simp only [R.bind_ok]
      rw [h5, R.bind_assoc]
      simp only [R.bind_ok]
      exact t1
  | cons s1 k s2 s3 v s4 rest_m =>
    simp only [Members.ok, Bool.and_eq_true] at hok
    obtain ⟨⟨⟨⟨⟨⟨hs1, hk⟩, hs2⟩, hs3⟩, hv⟩, hs4⟩, hre⟩ := hok
    obtain ⟨n0, ihv⟩ := val_complete v hv
    obtain ⟨n1, ihm⟩ := members_complete rest_m hre
    refine ⟨n0 + n1 + 1, fun n hn L0 sk rest props seen single hcl => ?_⟩
    obtain ⟨m, rfl⟩ : ∃ m, n = m + 1 := ⟨n - 1, by omega⟩
    obtain ⟨L', seen', L3, sk3, q1, q2, q3, q4, q5⟩ := key_done (P := P) o L0 sk k s2 s3
      (cps v.render ++ (cps (Sep.render s4) ++ cpOf ',' :: (cps (Sep.render (membersS1 rest_m)) ++
        (cps (membersTail rest_m) ++ cpOf '}' :: rest)))) seen hk hs2 hs3 hcl (val_head_stop o.flavor v hv _)
    have hfol : Follow (cps (Sep.render s4) ++ cpOf ',' :: (cps (Sep.render (membersS1 rest_m)) ++
        (cps (membersTail rest_m) ++ cpOf '}' :: rest))) := follow_sep o.flavor hs4 (follow_of_punct (by simp))
    obtain ⟨L, ast, L1v, h1, h2, h3, h4, h5, h6, h7, h8, h9⟩ := ihv (m + 1) (by omega) L3 sk3 _ hfol q3
    obtain ⟨Lm, sk', k1, k2, k3⟩ := obj_comma_step o m L1v s4 (membersS1 rest_m) (cps (membersTail rest_m) ++ cpOf '}' :: rest)
      (props ++ [(strUnits k, decide (strUnits k = protoKey) && o.objExt, ast)]) seen' single h6 h7 h8 hs4
      (membersS1_ok hre) (membersTail_stop rest_m _) (by simp)
    obtain ⟨L2, asts, s', L1, e1, e2, e3, e4, e5, e6, e7, e8⟩ := ihm m (by omega) Lm sk' rest
      (props ++ [(strUnits k, decide (strUnits k = protoKey) && o.objExt, ast)]) seen'
      (if sk'.nl then false else if Lm.nl then false else single) k1
    refine ⟨L', propOf o.objExt k ast :: asts, s', L1, ?_, by rw [q2]; simp, ?_, ?_, e5, e6, e7, ⟨ast, asts, rfl, h9, e8⟩⟩
    · have : cps (membersTail (.cons s1 k s2 s3 v s4 rest_m)) ++ cpOf '}' :: rest = cps (strTok k) ++ (cps (Sep.render s2) ++
          cpOf ':' :: (cps (Sep.render s3) ++ (cps v.render ++ (cps (Sep.render s4) ++ cpOf ',' ::
            (cps (Sep.render (membersS1 rest_m)) ++ (cps (membersTail rest_m) ++ cpOf '}' :: rest)))))) := by
        simp only [membersTail, members_render rest_m, cps_append, cps_cons, List.append_assoc, List.cons_append]
      rw [this]; exact q1
    · have := lexAt_string o.flavor P L0 sk k hk (cps (Sep.render s2) ++ cpOf ':' :: (cps (Sep.render s3) ++
        (cps v.render ++ (cps (Sep.render s4) ++ cpOf ',' :: (cps (Sep.render (membersS1 rest_m)) ++
          (cps (membersTail rest_m) ++ cpOf '}' :: rest))))))
      obtain ⟨La, _, a1, a2, _, _⟩ := this
      rw [q1] at a1; cases a1
      exact Lx.view_nl a2
    · rw [q5, h1]
      simp only [R.bind_ok]
      rw [h5, R.bind_assoc]
      simp only [R.bind_ok]
      rw [k3 L2 e1 e2 e3, e4]
      simp [propOf]
end

end
end EsbuildModel.Json
