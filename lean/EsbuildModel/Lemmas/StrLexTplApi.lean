import EsbuildModel.Lemmas.StrLexTplLoop
/-! Templates: the scanning loop on rendered derivations, the fast path, and the token returned by `lexToken`. -/
namespace EsbuildModel.StrLex
open EsbuildModel.Spec.StrLit
open EsbuildModel.Spec.JsString (hexVal? utf16)

theorem NotEsc.shape {n : NotEsc} (h : n.wf = true) : ∃ c2 xs, n.render = c2 :: xs ∧ c2 ≠ 13 ∧ ∀ c ∈ xs, Inert c := by
  cases n with
  | zeroDigit d =>
    simp only [NotEsc.wf, isDecimalDigit, Bool.and_eq_true, decide_eq_true_eq] at h
    exact ⟨48, [d], rfl, by omega, by intro c hc; simp at hc; subst hc; exact inert_of_range h⟩
  | digit d =>
    simp only [NotEsc.wf, Bool.and_eq_true, decide_eq_true_eq] at h
    exact ⟨d, [], rfl, by omega, by simp⟩
  | xShort ds =>
    simp only [NotEsc.wf, Bool.and_eq_true, List.all_eq_true] at h
    exact ⟨120, ds, rfl, by omega, fun c hc => hexDigit_inert (h.2 c hc)⟩
  | uShort ds =>
    simp only [NotEsc.wf, Bool.and_eq_true, List.all_eq_true] at h
    exact ⟨117, ds, rfl, by omega, fun c hc => hexDigit_inert (h.2 c hc)⟩
  | uBraceEmpty => exact ⟨117, [123], rfl, by omega, by intro c hc; simp at hc; subst hc; unfold Inert; omega⟩
  | uBraceNot ds =>
    simp only [NotEsc.wf, Bool.and_eq_true, List.all_eq_true] at h
    refine ⟨117, 123 :: ds, rfl, by omega, ?_⟩
    intro c hc; simp at hc; rcases hc with rfl | hc
    · unfold Inert; omega
    · exact hexDigit_inert (h.1.2 c hc)
  | uBraceOpen ds =>
    simp only [NotEsc.wf, Bool.and_eq_true, List.all_eq_true] at h
    refine ⟨117, 123 :: ds, rfl, by omega, ?_⟩
    intro c hc; simp at hc; rcases hc with rfl | hc
    · unfold Inert; omega
    · exact hexDigit_inert (h.1.2 c hc)

theorem bodyOK_tplChar (x : TplChar) (rest : List Nat) (hok : x.ok rest.head? = true) :
    bodyOK 96 true (x.render ++ rest) = bodyOK 96 true rest := by
  have hq : (96 : Nat) = 34 ∨ (96 : Nat) = 39 ∨ (96 : Nat) = 96 := by omega
  cases x with
  | dollar =>
    show bodyOK 96 true (36 :: rest) = _
    rw [bodyOK_dollar]
    have : rest.head? ≠ some 123 := by
      cases rest with
      | nil => simp
      | cons a r => simpa [TplChar.ok, lookNot] using hok
    simp [this]
  | esc e =>
    simp only [TplChar.ok, Bool.and_eq_true] at hok
    obtain ⟨c2, xs, hr, hc2, hin⟩ := CEsc.shape hok.1
    simp only [TplChar.render, hr]
    exact bodyOK_esc 96 true hq c2 xs rest hc2 hin
  | notEsc n =>
    simp only [TplChar.ok, Bool.and_eq_true] at hok
    obtain ⟨c2, xs, hr, hc2, hin⟩ := NotEsc.shape hok.1
    simp only [TplChar.render, hr]
    exact bodyOK_esc 96 true hq c2 xs rest hc2 hin
  | cont l => exact bodyOK_cont 96 true l rest hok
  | lineTerm l =>
    cases l with
    | lf => show bodyOK 96 true (10 :: rest) = _; rw [bodyOK_lf]; simp
    | cr => show bodyOK 96 true (13 :: rest) = _; rw [bodyOK_cr]; simp
    | crlf => show bodyOK 96 true (13 :: 10 :: rest) = _; rw [bodyOK_cr, bodyOK_lf]; simp
    | ls => show bodyOK 96 true (8232 :: rest) = _; rw [bodyOK_plain _ _ _ _ (by omega) (by omega) (by omega) (by simp)]; simp
    | ps => show bodyOK 96 true (8233 :: rest) = _; rw [bodyOK_plain _ _ _ _ (by omega) (by omega) (by omega) (by simp)]; simp
  | plain c =>
    simp only [TplChar.ok, Bool.and_eq_true, bne_iff_ne, ne_eq, Bool.not_eq_true', isLineTerminator, Bool.or_eq_false_iff,
      decide_eq_false_iff_not] at hok
    obtain ⟨⟨⟨⟨_, h96⟩, h92⟩, h36⟩, ⟨⟨h10, h13⟩, _⟩, _⟩ := hok
    show bodyOK 96 true (c :: rest) = _
    rw [bodyOK_plain _ _ _ _ h92 h13 h10 (by simp [h36])]; simp [h96]

theorem bodyOK_tpl (close : List Nat) (q0 : Nat) (hc : close.head? = some q0) (h0 : q0 = 96 ∨ q0 = 36) (ds : List TplChar)
    (hok : tplOK close ds = true) : bodyOK 96 true (renderTpl ds) = true := by
  induction ds with
  | nil => rfl
  | cons x xs ih =>
    simp only [tplOK, Bool.and_eq_true] at hok
    rw [TplChar.ok_local x _ close q0 hc h0] at hok
    simp only [renderTpl]
    rw [bodyOK_tplChar x _ hok.1]
    exact ih hok.2

/-- fast path: a template text without backslash, CR and non-ASCII characters is its own cooked value -/
theorem fast_tpl (close : List Nat) (ds : List TplChar) (hok : tplOK close ds = true)
    (hs : slowBody (renderTpl ds) = false) : tvChars ds = some (renderTpl ds) := by
  induction ds with
  | nil => rfl
  | cons x xs ih =>
    simp only [tplOK, Bool.and_eq_true] at hok
    simp only [renderTpl, slowBody_append, Bool.or_eq_false_iff] at hs
    have i1 := ih hok.2 hs.2
    cases x with
    | dollar => simp [tvChars, TplChar.tv, i1, renderTpl, TplChar.render]
    | esc e => simp [slowBody, TplChar.render] at hs
    | notEsc n => simp [slowBody, TplChar.render] at hs
    | cont l => simp [slowBody, TplChar.render] at hs
    | lineTerm l =>
      cases l with
      | lf => simp [tvChars, TplChar.tv, i1, renderTpl, TplChar.render, LTS.trv, LTS.render]
      | cr => simp [slowBody, TplChar.render, LTS.render] at hs
      | crlf => simp [slowBody, TplChar.render, LTS.render] at hs
      | ls => simp [slowBody, TplChar.render, LTS.render] at hs
      | ps => simp [slowBody, TplChar.render, LTS.render] at hs
    | plain c =>
      have hc : c < 128 := by have := hs.1; simp [slowBody, TplChar.render] at this; exact this.2
      simp [tvChars, TplChar.tv, i1, renderTpl, TplChar.render, utf16_small c (by omega)]

def kindOf : TplKind → Kind
  | .noSubst => .noSubst
  | .head => .head
  | .middle => .middle
  | .tail => .tail

/-- TemplateMiddle and TemplateTail are obtained by rescanning a `}` -/
def rescanOf : TplKind → Bool
  | .noSubst => false
  | .head => false
  | .middle => true
  | .tail => true

theorem closing_head_tpl (k : TplKind) : ∃ q0, k.closing.head? = some q0 ∧ (q0 = 96 ∨ q0 = 36) := by
  cases k
  · exact ⟨96, rfl, Or.inl rfl⟩
  · exact ⟨36, rfl, Or.inr rfl⟩
  · exact ⟨36, rfl, Or.inr rfl⟩
  · exact ⟨96, rfl, Or.inl rfl⟩

theorem lexToken_tpl (d : TplTok) (rest : List Nat) (hv : d.valid = true) :
    lexToken (rescanOf d.kind) (d.render ++ rest)
      = .tok ⟨kindOf d.kind, renderTpl d.chars, d.kind.closing.length, slowBody (renderTpl d.chars)⟩ := by
  obtain ⟨q0, hc, h0⟩ := closing_head_tpl d.kind
  have hb := bodyOK_tpl d.kind.closing q0 hc h0 d.chars hv
  have hq3 : (96 : Nat) = 34 ∨ (96 : Nat) = 39 ∨ (96 : Nat) = 96 := by omega
  have hclose : Closing 96 (rescanOf d.kind) (d.kind.closing ++ rest) (kindOf d.kind) d.kind.closing.length := by
    cases d.kind
    · exact Closing.quote rest
    · exact Closing.subst rest rfl
    · exact Closing.subst rest rfl
    · exact Closing.quote rest
  have hscan := scan_complete 96 (rescanOf d.kind) (d.kind.closing ++ rest) _ _ hq3 hclose _ (renderTpl d.chars) 0 false
    (Nat.le_refl _) hb
  simp only [Nat.zero_add, Bool.false_or] at hscan
  have hshape : d.render ++ rest = (d.kind.opening ++ (renderTpl d.chars ++ (d.kind.closing ++ rest))) := by
    simp [TplTok.render]
  rw [hshape]
  cases hk : d.kind <;> rw [hk] at hscan <;> simp only [rescanOf, kindOf] at hscan <;>
    simp [TplKind.opening, lexToken, rescanOf, hscan, kindOf, List.take_left']

end EsbuildModel.StrLex
