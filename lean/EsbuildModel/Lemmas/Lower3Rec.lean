import EsbuildModel.Lemmas.Lower3Basic
/-!
Objects made by the program: `define`, `get`, and `merge` (what `__spreadProps(a, b)` does: every own property
of b is defined on a).  The central fact: building the properties of a segment of an object literal on an empty
object and merging that into the target gives the same object as building them on the target directly
(`Rec.merge_define`, `Rec.merge_defGetter`, `Rec.merge_defSetter`).
-/
namespace EsbuildModel.Lower3

/-- each key once -/
def Rec.WF (r : Rec) : Prop := (alKeys r.strs).Nodup ∧ (alKeys r.syms).Nodup

theorem Rec.empty_WF : Rec.empty.WF := by simp [Rec.WF, Rec.empty, alKeys]

theorem Rec.define_WF (r : Rec) (k : Key) (sl : Slot Val) (h : r.WF) : (r.define k sl).WF := by
  cases k with
  | str s => exact ⟨alSet_nodup _ _ _ h.1, h.2⟩
  | sym j => exact ⟨h.1, alSet_nodup _ _ _ h.2⟩

theorem Rec.get_define (r : Rec) (k k' : Key) (sl : Slot Val) :
    (r.define k sl).get k' = if k = k' then some sl else r.get k' := by
  cases k with
  | str s =>
    cases k' with
    | str s' =>
      simp only [Rec.define, Rec.get, alGet_alSet, Key.str.injEq]
    | sym j' => simp [Rec.define, Rec.get]
  | sym j =>
    cases k' with
    | str s' => simp [Rec.define, Rec.get]
    | sym j' => simp only [Rec.define, Rec.get, alGet_alSet, Key.sym.injEq]

@[simp] theorem Rec.define_proto (r : Rec) (k : Key) (sl : Slot Val) : (r.define k sl).proto = r.proto := by
  cases k <;> rfl

/-- `Object.defineProperties(a, Object.getOwnPropertyDescriptors(b))` -/
def Rec.merge (a b : Rec) : Rec := ⟨a.proto, alMerge a.strs b.strs, alMerge a.syms b.syms⟩

theorem foldl_define_str (l : List (String × Slot Val)) (a : Rec) :
    l.foldl (fun (t : Rec) p => t.define (.str p.1) p.2) a = ⟨a.proto, alMerge a.strs l, a.syms⟩ := by
  induction l generalizing a with
  | nil => rfl
  | cons p r ih =>
    rw [List.foldl_cons, ih, alMerge_cons]
    rfl

theorem foldl_define_sym (l : List (Nat × Slot Val)) (a : Rec) :
    l.foldl (fun (t : Rec) p => t.define (.sym p.1) p.2) a = ⟨a.proto, a.strs, alMerge a.syms l⟩ := by
  induction l generalizing a with
  | nil => rfl
  | cons p r ih =>
    rw [List.foldl_cons, ih, alMerge_cons]
    rfl

@[simp] theorem Rec.asRec_toVal (r : Rec) : r.toVal.asRec = some r := rfl

theorem Val.asRec_some {v : Val} {r : Rec} (h : v.asRec = some r) : v = r.toVal := by
  cases v <;> simp [Val.asRec] at h
  subst h
  rfl

theorem spreadPropsH_eq (a b : Rec) : spreadPropsH a.toVal b.toVal = .ok (a.merge b).toVal := by
  simp only [spreadPropsH, Rec.asRec_toVal, foldl_define_str, foldl_define_sym, Rec.merge]

theorem Rec.merge_define (a tmp : Rec) (k : Key) (sl : Slot Val) (h : tmp.WF) :
    a.merge (tmp.define k sl) = (a.merge tmp).define k sl := by
  cases k with
  | str s => simp only [Rec.merge, Rec.define, alMerge_alSet _ _ _ _ h.1]
  | sym j => simp only [Rec.merge, Rec.define, alMerge_alSet _ _ _ _ h.2]

/-- what the segment proof keeps: `t` is the target with the properties of `tmp` merged in, and a lookup in `t`
finds what `tmp` has, else what the target had before -/
structure Seg (t0 tmp t : Rec) : Prop where
  eq : t = t0.merge tmp
  wf : tmp.WF
  hit : ∀ k sl, tmp.get k = some sl → t.get k = some sl
  miss : ∀ k, tmp.get k = none → t.get k = t0.get k

theorem alMerge_nil {κ σ : Type} [DecidableEq κ] (a : List (κ × σ)) : alMerge a [] = a := rfl

theorem Seg.start (t0 : Rec) : Seg t0 Rec.empty t0 :=
  ⟨by cases t0; rfl, Rec.empty_WF, fun k sl h => by cases k <;> simp [Rec.get, Rec.empty, alGet] at h, fun _ _ => rfl⟩

theorem Seg.define {t0 tmp t : Rec} (h : Seg t0 tmp t) (k : Key) (sl : Slot Val) :
    Seg t0 (tmp.define k sl) (t.define k sl) := by
  refine ⟨?_, Rec.define_WF _ _ _ h.wf, ?_, ?_⟩
  · rw [h.eq, Rec.merge_define _ _ _ _ h.wf]
  · intro k' sl' hk
    rw [Rec.get_define] at hk ⊢
    by_cases e : k = k'
    · simpa [e] using hk
    · simp only [e, if_false] at hk ⊢
      exact h.hit k' sl' hk
  · intro k' hk
    rw [Rec.get_define] at hk ⊢
    by_cases e : k = k'
    · simp [e] at hk
    · simp only [e, if_false] at hk ⊢
      exact h.miss k' hk

theorem Seg.proto {t0 tmp t : Rec} (h : Seg t0 tmp t) (p : Val) : Seg t0 { tmp with proto := p } t :=
  ⟨h.eq, h.wf, h.hit, h.miss⟩

theorem Seg.defGetter {t0 tmp t : Rec} (h : Seg t0 tmp t) (k : Key) (g : Nat)
    (hs : (tmp.get k).isSome ∨ t.hasSetter k = false) : Seg t0 (tmp.defGetter k g) (t.defGetter k g) := by
  cases hk : tmp.get k with
  | some sl =>
    have ht := h.hit k sl hk
    simp only [Rec.defGetter, hk, ht]
    cases sl <;> exact h.define k _
  | none =>
    have hs' : t.hasSetter k = false := by
      cases hs with
      | inl e => simp [hk] at e
      | inr e => exact e
    have : t.defGetter k g = t.define k (.acc (some g) none) := by
      simp only [Rec.defGetter]
      cases ht : t.get k with
      | none => rfl
      | some sl =>
        cases sl with
        | data v => rfl
        | acc g' s' =>
          cases s' with
          | none => rfl
          | some f => simp [Rec.hasSetter, ht] at hs'
    rw [this]
    simp only [Rec.defGetter, hk]
    exact h.define k _

theorem Seg.defSetter {t0 tmp t : Rec} (h : Seg t0 tmp t) (k : Key) (f : Nat)
    (hs : (tmp.get k).isSome ∨ t.hasGetter k = false) : Seg t0 (tmp.defSetter k f) (t.defSetter k f) := by
  cases hk : tmp.get k with
  | some sl =>
    have ht := h.hit k sl hk
    simp only [Rec.defSetter, hk, ht]
    cases sl <;> exact h.define k _
  | none =>
    have hs' : t.hasGetter k = false := by
      cases hs with
      | inl e => simp [hk] at e
      | inr e => exact e
    have : t.defSetter k f = t.define k (.acc none (some f)) := by
      simp only [Rec.defSetter]
      cases ht : t.get k with
      | none => rfl
      | some sl =>
        cases sl with
        | data v => rfl
        | acc g' s' =>
          cases g' with
          | none => rfl
          | some f => simp [Rec.hasGetter, ht] at hs'
    rw [this]
    simp only [Rec.defSetter, hk]
    exact h.define k _

theorem Rec.isSome_get_define (r : Rec) (k k' : Key) (sl : Slot Val) :
    ((r.define k sl).get k').isSome = (decide (k = k') || (r.get k').isSome) := by
  rw [Rec.get_define]
  by_cases e : k = k' <;> simp [e]

theorem Rec.isSome_get_defGetter (r : Rec) (k k' : Key) (g : Nat) :
    ((r.defGetter k g).get k').isSome = (decide (k = k') || (r.get k').isSome) := by
  simp only [Rec.defGetter]
  split <;> exact Rec.isSome_get_define _ _ _ _

theorem Rec.isSome_get_defSetter (r : Rec) (k k' : Key) (f : Nat) :
    ((r.defSetter k f).get k').isSome = (decide (k = k') || (r.get k').isSome) := by
  simp only [Rec.defSetter]
  split <;> exact Rec.isSome_get_define _ _ _ _

/-- the list of keys defined since the last spread is kept in step with the fresh object of the segment -/
theorem seg_contains_step (seg : List Key) (tmp r' : Rec) (k : Key)
    (hseg : ∀ k', seg.contains k' = (tmp.get k').isSome)
    (hr : ∀ k', (r'.get k').isSome = (decide (k = k') || (tmp.get k').isSome)) (k' : Key) :
    (k :: seg).contains k' = (r'.get k').isSome := by
  rw [hr, List.contains_cons, hseg k']
  by_cases e : k = k'
  · subst e; simp
  · have : (k' == k) = false := by
      simp only [beq_eq_false_iff_ne, ne_eq]
      exact fun h => e h.symm
    simp [e, this]

end EsbuildModel.Lower3
