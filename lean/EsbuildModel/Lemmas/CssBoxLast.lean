/-
Generic lemmas about "the last element of a list that has a contribution" (`lastSome`), used to reason about the
cascade (`Spec.BoxCascade.lastOf`) position by position.
-/
namespace EsbuildModel.CssBox

def lastSome {α β : Type} (c : α → Option β) (l : List α) : Option β := (l.filterMap c).getLast?

variable {α β : Type} (c : α → Option β)

@[simp] theorem lastSome_nil : lastSome c [] = none := rfl

theorem lastSome_append (l₁ l₂ : List α) : lastSome c (l₁ ++ l₂) = (lastSome c l₂).or (lastSome c l₁) := by
  simp [lastSome, List.filterMap_append, List.getLast?_append]

theorem lastSome_singleton (a : α) : lastSome c [a] = c a := by
  simp [lastSome, List.filterMap_cons]
  cases c a <;> simp

theorem lastSome_cons (a : α) (l : List α) : lastSome c (a :: l) = (lastSome c l).or (c a) := by
  have := lastSome_append c [a] l
  simpa [lastSome_singleton] using this

theorem lastSome_concat (a : α) (l : List α) : lastSome c (l ++ [a]) = (c a).or (lastSome c l) := by
  rw [lastSome_append, lastSome_singleton]

theorem lastSome_eq_none_iff (l : List α) : lastSome c l = none ↔ ∀ a ∈ l, c a = none := by
  simp [lastSome]

theorem lastSome_eq_some_of (l : List α) (j : Nat) (a : α) (v : β)
    (hj : l[j]? = some a) (hv : c a = some v)
    (hafter : ∀ k a', j < k → l[k]? = some a' → c a' = none) : lastSome c l = some v := by
  have hlt : j < l.length := by
    rcases Nat.lt_or_ge j l.length with h | h
    · exact h
    · simp [List.getElem?_eq_none h] at hj
  have ha : l[j] = a := by
    have := List.getElem?_eq_getElem hlt
    rw [this] at hj; exact Option.some.inj hj
  have hsplit : l = l.take j ++ (a :: l.drop (j + 1)) := by
    rw [← ha, ← List.drop_eq_getElem_cons hlt, List.take_append_drop]
  have hnone : lastSome c (l.drop (j + 1)) = none := by
    rw [lastSome_eq_none_iff]
    intro a' ha'
    obtain ⟨k, hk, rfl⟩ := List.mem_iff_getElem.mp ha'
    simp only [List.length_drop] at hk
    apply hafter (j + 1 + k) _ (by omega)
    rw [List.getElem_drop]
    exact List.getElem?_eq_getElem (by omega)
  rw [hsplit, lastSome_append, lastSome_cons, hnone, hv]
  simp

/-- two lists with the same contributions position by position have the same last contribution -/
theorem lastSome_congr (l₁ l₂ : List α) (hlen : l₁.length = l₂.length)
    (h : ∀ (i : Nat) a₁ a₂, l₁[i]? = some a₁ → l₂[i]? = some a₂ → c a₁ = c a₂) : lastSome c l₁ = lastSome c l₂ := by
  induction l₁ generalizing l₂ with
  | nil => cases l₂ <;> simp_all
  | cons a l ih =>
    cases l₂ with
    | nil => simp at hlen
    | cons a' l' =>
      rw [lastSome_cons, lastSome_cons]
      have h0 : c a = c a' := h 0 a a' (by simp) (by simp)
      have ih' := ih l' (by simpa using hlen) (fun i a₁ a₂ h₁ h₂ => h (i + 1) a₁ a₂ (by simpa using h₁) (by simpa using h₂))
      rw [h0, ih']

theorem lastSome_take_drop (l : List α) (g : Nat) :
    lastSome c l = (lastSome c (l.drop g)).or (lastSome c (l.take g)) := by
  conv => lhs; rw [← List.take_append_drop g l]
  rw [lastSome_append]

theorem lastSome_map {γ : Type} (f : γ → α) (l : List γ) : lastSome c (l.map f) = lastSome (fun x => c (f x)) l := by
  simp [lastSome, List.filterMap_map]; rfl

theorem lastSome_filterMap {γ : Type} (f : γ → Option α) (l : List γ) :
    lastSome c (l.filterMap f) = lastSome (fun x => (f x).bind c) l := by
  simp [lastSome, List.filterMap_filterMap]

end EsbuildModel.CssBox
