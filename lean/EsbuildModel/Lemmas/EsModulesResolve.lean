import EsbuildModel.Lemmas.EsModules
/-!
ResolveExport threads one `resolveSet` through all recursive calls and never rolls it back, so the answer to a
sub-request depends on what was visited before.  This file proves that the answer to the TOP request does not:
it is null / the binding / ambiguous according to whether zero / one / several different bindings are reachable in the
request graph (`resolveExport_spec`), and that the fuel used by `resolveExport` always suffices on a well-formed table.
-/
namespace EsbuildModel.Spec.EsModules

/-- a finite set of requests that contains every request a traversal can make -/
structure Universe (T : Table) (U : List Node) : Prop where
  lt : ∀ x ∈ U, x.1 < T.length
  closed : ∀ x ∈ U, ∀ y ∈ succ T x, y ∈ U

/-- what a traversal from `roots` added to the visited set -/
structure Frame (T : Table) (U : List Node) (roots : List Node) (V V' : List Node) : Prop where
  nodup : V'.Nodup
  mono : ∀ y ∈ V, y ∈ V'
  sub : ∀ y ∈ V', y ∈ U
  roots_in : ∀ x ∈ roots, x ∈ V'
  reach : ∀ y ∈ V', y ∉ V → ∃ x ∈ roots, Reach T x y
  closed : ∀ y ∈ V', y ∉ V → ∀ z ∈ succ T y, z ∈ V'

/-- a newly visited request is a terminal providing `b` -/
def NewTerm (T : Table) (V V' : List Node) (b : ResolvedBinding) : Prop := ∃ y ∈ V', y ∉ V ∧ term T y = some b

theorem Frame.rfl' {T : Table} {U roots V : List Node} (hn : V.Nodup) (hs : ∀ y ∈ V, y ∈ U) (hr : ∀ x ∈ roots, x ∈ V) :
    Frame T U roots V V :=
  ⟨hn, fun _ h => h, hs, hr, fun _ h hn => absurd h hn, fun _ h hn => absurd h hn⟩

theorem Frame.trans {T : Table} {U r1 r2 V V1 V2 : List Node} (h1 : Frame T U r1 V V1) (h2 : Frame T U r2 V1 V2) :
    Frame T U (r1 ++ r2) V V2 := by
  refine ⟨h2.nodup, fun y h => h2.mono y (h1.mono y h), h2.sub, ?_, ?_, ?_⟩
  · intro x hx
    rcases List.mem_append.1 hx with hx | hx
    · exact h2.mono x (h1.roots_in x hx)
    · exact h2.roots_in x hx
  · intro y hy hn
    by_cases h : y ∈ V1
    · obtain ⟨x, hx, hr⟩ := h1.reach y h hn
      exact ⟨x, List.mem_append_left _ hx, hr⟩
    · obtain ⟨x, hx, hr⟩ := h2.reach y hy h
      exact ⟨x, List.mem_append_right _ hx, hr⟩
  · intro y hy hn z hz
    by_cases h : y ∈ V1
    · exact h2.mono z (h1.closed y h hn z hz)
    · exact h2.closed y hy h z hz

theorem Frame.length_le {T : Table} {U roots V V' : List Node} (h : Frame T U roots V V') (hn : V.Nodup) :
    V.length ≤ V'.length :=
  List.Nodup.length_le_of_subset hn h.mono

theorem newTerm_trans {T : Table} {V V1 V2 : List Node} {b : ResolvedBinding}
    (m1 : ∀ y ∈ V, y ∈ V1) (m2 : ∀ y ∈ V1, y ∈ V2) :
    NewTerm T V V2 b ↔ NewTerm T V V1 b ∨ NewTerm T V1 V2 b := by
  constructor
  · rintro ⟨y, hy, hn, ht⟩
    by_cases h : y ∈ V1
    · exact Or.inl ⟨y, h, hn, ht⟩
    · exact Or.inr ⟨y, hy, h, ht⟩
  · rintro (⟨y, hy, hn, ht⟩ | ⟨y, hy, hn, ht⟩)
    · exact ⟨y, m2 y hy, hn, ht⟩
    · exact ⟨y, hy, fun h => hn (m1 y h), ht⟩

theorem newTerm_self {T : Table} {V : List Node} {b : ResolvedBinding} : ¬ NewTerm T V V b := by
  rintro ⟨y, hy, hn, _⟩
  exact hn hy

/-- entering request `x`: the traversal of its successors, started from `V ++ [x]`, seen from `V` -/
theorem Frame.push {T : Table} {U roots V V' : List Node} {x : Node} (hx : x ∉ V)
    (h : Frame T U roots (V ++ [x]) V') (hsucc : ∀ z ∈ succ T x, z ∈ roots) (hroots : ∀ z ∈ roots, z ∈ succ T x) :
    Frame T U [x] V V' := by
  refine ⟨h.nodup, fun y hy => h.mono y (List.mem_append_left _ hy), h.sub, ?_, ?_, ?_⟩
  · intro y hy
    simp at hy; subst hy
    exact h.mono _ (by simp)
  · intro y hy hn
    by_cases hxy : y = x
    · exact ⟨x, by simp, hxy ▸ .refl _⟩
    · have : y ∉ V ++ [x] := by simp [hn, hxy]
      obtain ⟨r, hr, hreach⟩ := h.reach y hy this
      exact ⟨x, by simp, Reach.head (hroots r hr) hreach⟩
  · intro y hy hn z hz
    by_cases hxy : y = x
    · subst hxy
      exact h.roots_in z (hsucc z hz)
    · exact h.closed y hy (by simp [hn, hxy]) z hz

theorem newTerm_push {T : Table} {V V' : List Node} {x : Node} {b : ResolvedBinding} (hx : x ∉ V)
    (hin : x ∈ V') : NewTerm T V V' b ↔ term T x = some b ∨ NewTerm T (V ++ [x]) V' b := by
  constructor
  · rintro ⟨y, hy, hn, ht⟩
    by_cases hxy : y = x
    · exact Or.inl (hxy ▸ ht)
    · exact Or.inr ⟨y, hy, by simp [hn, hxy], ht⟩
  · rintro (ht | ⟨y, hy, hn, ht⟩)
    · exact ⟨x, hin, hx, ht⟩
    · exact ⟨y, hy, fun h => hn (List.mem_append_left _ h), ht⟩

/-- result of one ResolveExport call on request `x` entered with resolveSet `V` -/
structure Post (T : Table) (U : List Node) (x : Node) (V : List Node) (r : Resolution) (V' : List Node) : Prop where
  amb : r = .ambiguous → ∃ b1 b2, Reaches T x b1 ∧ Reaches T x b2 ∧ b1 ≠ b2
  frame : r ≠ .ambiguous → Frame T U [x] V V'
  null : r = .null → ∀ b, ¬ NewTerm T V V' b
  bind : ∀ b, r = .binding b → NewTerm T V V' b ∧ ∀ b', NewTerm T V V' b' → b' = b

/-- result of the loop over the star export entries `es` for name `n`, started with `starResolution = acc` -/
structure LoopPost (T : Table) (U : List Node) (n : Name) (es : List ModuleId) (acc : Resolution) (V : List Node)
    (r : Resolution) (V' : List Node) : Prop where
  amb : r = .ambiguous → ∃ b1 b2,
    (acc = .binding b1 ∨ ∃ e ∈ es, Reaches T (e, n) b1) ∧ (acc = .binding b2 ∨ ∃ e ∈ es, Reaches T (e, n) b2) ∧ b1 ≠ b2
  frame : r ≠ .ambiguous → Frame T U (es.map (fun e => (e, n))) V V'
  null : r = .null → acc = .null ∧ ∀ b, ¬ NewTerm T V V' b
  bind : ∀ b, r = .binding b → (acc = .binding b ∨ NewTerm T V V' b) ∧ (∀ b', acc = .binding b' → b' = b) ∧
    ∀ b', NewTerm T V V' b' → b' = b

theorem newTerm_reaches {T : Table} {U roots V V' : List Node} {b : ResolvedBinding} (h : Frame T U roots V V')
    (hb : NewTerm T V V' b) : ∃ x ∈ roots, Reaches T x b := by
  obtain ⟨y, hy, hn, ht⟩ := hb
  obtain ⟨x, hx, hr⟩ := h.reach y hy hn
  exact ⟨x, hx, y, hr, ht⟩

theorem loop_post {T : Table} {U : List Node} {n : Name} {fuel : Nat}
    (f : ModuleId → List Node → Option (Resolution × List Node))
    (hf : ∀ e V, (e, n) ∈ U → V.Nodup → (∀ y ∈ V, y ∈ U) → U.length < fuel + V.length →
      ∃ r V', f e V = some (r, V') ∧ Post T U (e, n) V r V') :
    ∀ (es : List ModuleId) (acc : Resolution) (V : List Node), (∀ e ∈ es, (e, n) ∈ U) → acc ≠ .ambiguous →
      V.Nodup → (∀ y ∈ V, y ∈ U) → U.length < fuel + V.length →
      ∃ r V', starResolveLoop f es acc V = some (r, V') ∧ LoopPost T U n es acc V r V' := by
  intro es
  induction es with
  | nil =>
    intro acc V _ hacc hn hs _
    refine ⟨acc, V, rfl, ⟨fun h => absurd h hacc, fun _ => Frame.rfl' hn hs (by simp), ?_, ?_⟩⟩
    · intro h; exact ⟨h, fun b => newTerm_self⟩
    · intro b h
      exact ⟨Or.inl h, fun b' h' => (by rw [h] at h'; cases h'; rfl), fun b' h' => absurd h' newTerm_self⟩
  | cons e es ih =>
    intro acc V hes hacc hn hs hfuel
    obtain ⟨r1, V1, e1, p1⟩ := hf e V (hes e (by simp)) hn hs hfuel
    have hes' : ∀ e' ∈ es, (e', n) ∈ U := fun e' h => hes e' (by simp [h])
    -- continue the loop after a non-ambiguous answer
    have cont : r1 ≠ .ambiguous → ∀ acc', acc' ≠ .ambiguous →
        ∃ r V', starResolveLoop f es acc' V1 = some (r, V') ∧ LoopPost T U n es acc' V1 r V' := by
      intro h1 acc' hacc'
      have fr := p1.frame h1
      exact ih acc' V1 hes' hacc' fr.nodup fr.sub (by have := fr.length_le hn; omega)
    cases r1 with
    | ambiguous =>
      refine ⟨.ambiguous, V1, by simp [starResolveLoop, e1], ⟨?_, fun h => absurd rfl h, fun h => (by cases h), fun b h => (by cases h)⟩⟩
      intro _
      obtain ⟨b1, b2, h1, h2, hne⟩ := p1.amb rfl
      exact ⟨b1, b2, Or.inr ⟨e, by simp, h1⟩, Or.inr ⟨e, by simp, h2⟩, hne⟩
    | null =>
      obtain ⟨r, V', e2, p2⟩ := cont (by simp) acc hacc
      have fr1 := p1.frame (by simp)
      refine ⟨r, V', by simp [starResolveLoop, e1, e2], ⟨?_, ?_, ?_, ?_⟩⟩
      · intro h
        obtain ⟨b1, b2, h1, h2, hne⟩ := p2.amb h
        refine ⟨b1, b2, ?_, ?_, hne⟩
        · rcases h1 with h1 | ⟨e', he', h1⟩
          · exact Or.inl h1
          · exact Or.inr ⟨e', by simp [he'], h1⟩
        · rcases h2 with h2 | ⟨e', he', h2⟩
          · exact Or.inl h2
          · exact Or.inr ⟨e', by simp [he'], h2⟩
      · intro h
        have := fr1.trans (p2.frame h)
        simpa using this
      · intro h
        have fr2 := p2.frame (by rw [h]; simp)
        obtain ⟨ha, hnone⟩ := p2.null h
        refine ⟨ha, fun b hb => ?_⟩
        rcases (newTerm_trans fr1.mono fr2.mono).1 hb with hb | hb
        · exact p1.null rfl b hb
        · exact hnone b hb
      · intro b h
        have fr2 := p2.frame (by rw [h]; simp)
        obtain ⟨h1, h2, h3⟩ := p2.bind b h
        refine ⟨?_, h2, ?_⟩
        · rcases h1 with h1 | h1
          · exact Or.inl h1
          · exact Or.inr ((newTerm_trans fr1.mono fr2.mono).2 (Or.inr h1))
        · intro b' hb'
          rcases (newTerm_trans fr1.mono fr2.mono).1 hb' with hb' | hb'
          · exact absurd hb' (p1.null rfl b')
          · exact h3 b' hb'
    | binding b1 =>
      have fr1 := p1.frame (by simp)
      obtain ⟨hnew1, huniq1⟩ := p1.bind b1 rfl
      have hreach1 : Reaches T (e, n) b1 := by
        obtain ⟨x, hx, hr⟩ := newTerm_reaches fr1 hnew1
        simp at hx; subst hx; exact hr
      cases acc with
      | ambiguous => exact absurd rfl hacc
      | null =>
        obtain ⟨r, V', e2, p2⟩ := cont (by simp) (.binding b1) (by simp)
        refine ⟨r, V', by simp [starResolveLoop, e1, e2], ⟨?_, ?_, ?_, ?_⟩⟩
        · intro h
          obtain ⟨c1, c2, h1, h2, hne⟩ := p2.amb h
          refine ⟨c1, c2, ?_, ?_, hne⟩
          · rcases h1 with h1 | ⟨e', he', h1⟩
            · cases h1; exact Or.inr ⟨e, by simp, hreach1⟩
            · exact Or.inr ⟨e', by simp [he'], h1⟩
          · rcases h2 with h2 | ⟨e', he', h2⟩
            · cases h2; exact Or.inr ⟨e, by simp, hreach1⟩
            · exact Or.inr ⟨e', by simp [he'], h2⟩
        · intro h
          have := fr1.trans (p2.frame h)
          simpa using this
        · intro h
          exact absurd (p2.null h).1 (by simp)
        · intro b h
          have fr2 := p2.frame (by rw [h]; simp)
          obtain ⟨h1, h2, h3⟩ := p2.bind b h
          have hb : b1 = b := h2 b1 rfl
          subst hb
          refine ⟨Or.inr ((newTerm_trans fr1.mono fr2.mono).2 (Or.inl hnew1)), fun b' h' => (by cases h'), ?_⟩
          intro b' hb'
          rcases (newTerm_trans fr1.mono fr2.mono).1 hb' with hb' | hb'
          · exact huniq1 b' hb'
          · exact h3 b' hb'
      | binding s =>
        by_cases hd : b1.module ≠ s.module ∨ b1.bindingName ≠ s.bindingName
        · refine ⟨.ambiguous, V1, by simp [starResolveLoop, e1, hd], ⟨?_, fun h => absurd rfl h, fun h => (by cases h), fun b h => (by cases h)⟩⟩
          intro _
          refine ⟨s, b1, Or.inl rfl, Or.inr ⟨e, by simp, hreach1⟩, ?_⟩
          intro h; subst h; simp at hd
        · have hsame : b1 = s := by
            cases b1; cases s
            simp only [ne_eq, not_or, Decidable.not_not] at hd
            simp only [ResolvedBinding.mk.injEq]
            exact hd
          subst hsame
          obtain ⟨r, V', e2, p2⟩ := cont (by simp) (.binding b1) (by simp)
          refine ⟨r, V', by simp [starResolveLoop, e1, e2], ⟨?_, ?_, ?_, ?_⟩⟩
          · intro h
            obtain ⟨c1, c2, h1, h2, hne⟩ := p2.amb h
            refine ⟨c1, c2, ?_, ?_, hne⟩
            · rcases h1 with h1 | ⟨e', he', h1⟩
              · exact Or.inl h1
              · exact Or.inr ⟨e', by simp [he'], h1⟩
            · rcases h2 with h2 | ⟨e', he', h2⟩
              · exact Or.inl h2
              · exact Or.inr ⟨e', by simp [he'], h2⟩
          · intro h
            have := fr1.trans (p2.frame h)
            simpa using this
          · intro h
            exact absurd (p2.null h).1 (by simp)
          · intro b h
            have fr2 := p2.frame (by rw [h]; simp)
            obtain ⟨h1, h2, h3⟩ := p2.bind b h
            have hb : b1 = b := h2 b1 rfl
            subst hb
            refine ⟨Or.inl rfl, fun b' h' => (by cases h'; rfl), ?_⟩
            intro b' hb'
            rcases (newTerm_trans fr1.mono fr2.mono).1 hb' with hb' | hb'
            · exact huniq1 b' hb'
            · exact h3 b' hb'

theorem post_revisit {T : Table} {U V : List Node} {x : Node} (hx : x ∈ V) (hn : V.Nodup) (hs : ∀ y ∈ V, y ∈ U) :
    Post T U x V .null V :=
  ⟨fun h => (by cases h), fun _ => Frame.rfl' hn hs (by intro y hy; simp at hy; subst hy; exact hx), fun _ _ => newTerm_self, fun _ h => (by cases h)⟩

theorem frame_enter {U V : List Node} {x : Node} (hx : x ∉ V) (hxU : x ∈ U) (hn : V.Nodup)
    (hs : ∀ y ∈ V, y ∈ U) : (V ++ [x]).Nodup ∧ ∀ y ∈ V ++ [x], y ∈ U := by
  refine ⟨?_, ?_⟩
  · rw [List.nodup_append]
    refine ⟨hn, by simp, ?_⟩
    intro a ha b hb hab
    simp at hb; subst hb; subst hab
    exact hx ha
  · intro y hy
    rcases List.mem_append.1 hy with hy | hy
    · exact hs y hy
    · simp at hy; subst hy; exact hxU

theorem post_terminal {T : Table} {U V : List Node} {x : Node} (hx : x ∉ V) (hxU : x ∈ U) (hn : V.Nodup)
    (hs : ∀ y ∈ V, y ∈ U) (hsucc : succ T x = []) :
    Post T U x V (match term T x with | some b => .binding b | none => .null) (V ++ [x]) := by
  obtain ⟨hn1, hs1⟩ := frame_enter hx hxU hn hs
  have fr : Frame T U [x] V (V ++ [x]) :=
    Frame.push hx (Frame.rfl' (roots := []) hn1 hs1 (by simp)) (by simp [hsucc]) (by simp)
  have hnew : ∀ b, NewTerm T V (V ++ [x]) b ↔ term T x = some b := by
    intro b
    rw [newTerm_push hx (by simp)]
    constructor
    · rintro (h | h)
      · exact h
      · exact absurd h newTerm_self
    · exact Or.inl
  cases ht : term T x with
  | none =>
    refine ⟨fun h => (by cases h), fun _ => fr, ?_, fun _ h => (by cases h)⟩
    intro _ b hb
    rw [hnew, ht] at hb; cases hb
  | some b =>
    refine ⟨fun h => (by cases h), fun _ => fr, fun h => (by cases h), ?_⟩
    intro b' hb'
    cases hb'
    refine ⟨(hnew b).2 ht, ?_⟩
    intro b' hb'
    rw [hnew, ht] at hb'
    cases hb'; rfl

theorem post_push_single {T : Table} {U V V' : List Node} {x y : Node} {r : Resolution} (hx : x ∉ V)
    (hsucc : succ T x = [y]) (p : Post T U y (V ++ [x]) r V') : Post T U x V r V' := by
  have hterm : term T x = none := term_none_of_succ (y := y) (by simp [hsucc])
  have hin : r ≠ .ambiguous → x ∈ V' := fun h => (p.frame h).mono x (by simp)
  have hnew : r ≠ .ambiguous → ∀ b, NewTerm T V V' b ↔ NewTerm T (V ++ [x]) V' b := by
    intro h b
    rw [newTerm_push hx (hin h), hterm]
    simp
  refine ⟨?_, ?_, ?_, ?_⟩
  · intro h
    obtain ⟨b1, b2, h1, h2, hne⟩ := p.amb h
    exact ⟨b1, b2, Reaches.of_succ (by simp [hsucc]) h1, Reaches.of_succ (by simp [hsucc]) h2, hne⟩
  · intro h
    exact Frame.push hx (p.frame h) (by simp [hsucc]) (by simp [hsucc])
  · intro h b hb
    exact p.null h b ((hnew (by rw [h]; simp) b).1 hb)
  · intro b h
    have hne : r ≠ .ambiguous := by rw [h]; simp
    obtain ⟨h1, h2⟩ := p.bind b h
    exact ⟨(hnew hne b).2 h1, fun b' hb' => h2 b' ((hnew hne b').1 hb')⟩

theorem post_push_stars {T : Table} {U V V' : List Node} {m : ModuleId} {n : Name} {l : List ModuleId}
    {r : Resolution} (hx : (m, n) ∉ V) (hsucc : succ T (m, n) = l.map (fun e => (e, n))) (hterm : term T (m, n) = none)
    (p : LoopPost T U n l .null (V ++ [(m, n)]) r V') : Post T U (m, n) V r V' := by
  have hin : r ≠ .ambiguous → (m, n) ∈ V' := fun h => (p.frame h).mono _ (by simp)
  have hnew : r ≠ .ambiguous → ∀ b, NewTerm T V V' b ↔ NewTerm T (V ++ [(m, n)]) V' b := by
    intro h b
    rw [newTerm_push hx (hin h), hterm]
    simp
  have hsub : ∀ e ∈ l, (e, n) ∈ succ T (m, n) := by
    intro e he
    rw [hsucc]
    exact List.mem_map.2 ⟨e, he, rfl⟩
  refine ⟨?_, ?_, ?_, ?_⟩
  · intro h
    obtain ⟨b1, b2, h1, h2, hne⟩ := p.amb h
    refine ⟨b1, b2, ?_, ?_, hne⟩
    · rcases h1 with h1 | ⟨e, he, h1⟩
      · cases h1
      · exact Reaches.of_succ (hsub e he) h1
    · rcases h2 with h2 | ⟨e, he, h2⟩
      · cases h2
      · exact Reaches.of_succ (hsub e he) h2
  · intro h
    exact Frame.push hx (p.frame h) (by rw [hsucc]; exact fun z hz => hz) (by rw [hsucc]; exact fun z hz => hz)
  · intro h b hb
    exact (p.null h).2 b ((hnew (by rw [h]; simp) b).1 hb)
  · intro b h
    have hne : r ≠ .ambiguous := by rw [h]; simp
    obtain ⟨h1, _, h3⟩ := p.bind b h
    refine ⟨?_, fun b' hb' => h3 b' ((hnew hne b').1 hb')⟩
    rcases h1 with h1 | h1
    · cases h1
    · exact (hnew hne b).2 h1

theorem resolve_post {T : Table} (hwf : WellFormed T) {U : List Node} (hU : Universe T U) :
    ∀ (fuel : Nat) (m : ModuleId) (n : Name) (V : List Node), (m, n) ∈ U → V.Nodup → (∀ y ∈ V, y ∈ U) →
      U.length < fuel + V.length →
      ∃ r V', resolveExportAux T fuel m n V = some (r, V') ∧ Post T U (m, n) V r V' := by
  intro fuel
  induction fuel with
  | zero =>
    intro m n V _ hn hs hfuel
    have := List.Nodup.length_le_of_subset hn hs
    omega
  | succ fuel ih =>
    intro m n V hxU hn hs hfuel
    have hlt : m < T.length := hU.lt _ hxU
    rw [resolveExportAux_succ]
    by_cases hc : V.contains (m, n) = true
    · have hx : (m, n) ∈ V := by simpa using hc
      have hp := post_revisit (T := T) hx hn hs
      cases hk : node T m n with
      | missing => exact absurd hk (node_ne_missing n hlt)
      | loc b => exact ⟨_, _, by simp [hx], hp⟩
      | ns m' => exact ⟨_, _, by simp [hx], hp⟩
      | ind m' n' => exact ⟨_, _, by simp [hx], hp⟩
      | dflt => exact ⟨_, _, by simp [hx], hp⟩
      | stars l => exact ⟨_, _, by simp [hx], hp⟩
    · have hx : (m, n) ∉ V := by simpa using hc
      obtain ⟨hn1, hs1⟩ := frame_enter hx hxU hn hs
      have hfuel1 : U.length < fuel + (V ++ [(m, n)]).length := by simp; omega
      cases hk : node T m n with
      | missing => exact absurd hk (node_ne_missing n hlt)
      | loc b =>
        have := post_terminal (T := T) hx hxU hn hs (by simp [succ, hk])
        simp only [term, hk] at this
        exact ⟨_, _, by simp [hx], this⟩
      | ns m' =>
        have := post_terminal (T := T) hx hxU hn hs (by simp [succ, hk])
        simp only [term, hk] at this
        exact ⟨_, _, by simp [hx, wf_ns hwf hk], this⟩
      | dflt =>
        have := post_terminal (T := T) hx hxU hn hs (by simp [succ, hk])
        simp only [term, hk] at this
        exact ⟨_, _, by simp [hx], this⟩
      | ind m' n' =>
        have hsucc : succ T (m, n) = [(m', n')] := by simp [succ, hk]
        have hyU : (m', n') ∈ U := hU.closed _ hxU _ (by simp [hsucc])
        obtain ⟨r, V', e, p⟩ := ih m' n' _ hyU hn1 hs1 hfuel1
        exact ⟨r, V', by simp [hx, e], post_push_single hx hsucc p⟩
      | stars l =>
        have hsucc : succ T (m, n) = l.map (fun e => (e, n)) := by simp [succ, hk]
        have hes : ∀ e ∈ l, (e, n) ∈ U := by
          intro e he
          exact hU.closed _ hxU _ (by rw [hsucc]; exact List.mem_map.2 ⟨e, he, rfl⟩)
        obtain ⟨r, V', e, p⟩ := loop_post (T := T) (U := U) (n := n) (fuel := fuel)
          (fun e set => resolveExportAux T fuel e n set) (fun e V he hn hs hf => ih e n V he hn hs hf)
          l .null _ hes (by simp) hn1 hs1 hfuel1
        exact ⟨r, V', by simp [hx, e], post_push_stars hx hsucc (by simp [term, hk]) p⟩

/-! ### the universe of requests and the fuel -/

def importNamesOf (module : ModuleRecord) : List Name :=
  module.indirectExportEntries.filterMap (fun e => match e.importName with | .name n' => some n' | .all => none)

def importNames (T : Table) : List Name := T.flatMap importNamesOf

def requests (T : Table) (n : Name) : List Node :=
  (List.range T.length).flatMap (fun m => (n :: importNames T).map (fun k => (m, k)))

theorem mem_requests {T : Table} {n : Name} {x : Node} :
    x ∈ requests T n ↔ x.1 < T.length ∧ (x.2 = n ∨ x.2 ∈ importNames T) := by
  obtain ⟨m, k⟩ := x
  simp only [requests, List.mem_flatMap, List.mem_range, List.mem_map, List.mem_cons, Prod.mk.injEq]
  constructor
  · rintro ⟨m', hm', k', hk', rfl, rfl⟩
    exact ⟨hm', hk'⟩
  · rintro ⟨hm, hk⟩
    exact ⟨m, hm, k, hk, rfl, rfl⟩

theorem node_ind_importName {T : Table} {m m' : ModuleId} {n n' : Name} (h : node T m n = .ind m' n') :
    n' ∈ importNames T := by
  unfold node at h
  split at h
  · cases h
  · rename_i module hm
    have hmem : module ∈ T := List.mem_of_getElem? hm
    split at h
    · cases h
    · split at h
      · rename_i e he
        have hmem2 := List.mem_of_find?_eq_some he
        split at h
        · cases h
        · rename_i k hk
          cases h
          simp only [importNames, List.mem_flatMap]
          refine ⟨module, hmem, ?_⟩
          simp only [importNamesOf, List.mem_filterMap]
          exact ⟨e, hmem2, by rw [hk]⟩
      · split at h <;> cases h

theorem requests_ok {T : Table} (hwf : WellFormed T) (n : Name) : Universe T (requests T n) := by
  refine ⟨fun x hx => (mem_requests.1 hx).1, ?_⟩
  intro x hx y hy
  rw [mem_requests] at hx ⊢
  refine ⟨wf_succ hwf hy, ?_⟩
  unfold succ at hy
  split at hy
  · rename_i m' n' hk
    simp at hy; subst hy
    exact Or.inr (node_ind_importName hk)
  · simp at hy
    obtain ⟨s, _, rfl⟩ := hy
    exact hx.2
  · simp at hy

theorem length_range_flatMap_map {α : Type} (L : List α) (k : Nat) :
    ((List.range k).flatMap (fun m => L.map (fun a => (m, a)))).length = k * L.length := by
  induction k with
  | zero => simp
  | succ k ih =>
    rw [List.range_succ, List.flatMap_append, List.length_append, ih]
    simp [Nat.succ_mul]

theorem length_importNames_le (T : Table) : (importNames T).length ≤ (T.map (·.indirectExportEntries.length)).sum := by
  induction T with
  | nil => simp [importNames]
  | cons module T ih =>
    have h1 : (importNamesOf module).length ≤ module.indirectExportEntries.length := by
      unfold importNamesOf
      exact List.length_filterMap_le _ _
    have : importNames (module :: T) = importNamesOf module ++ importNames T := by
      simp [importNames]
    rw [this, List.length_append]
    simp only [List.map_cons, List.sum_cons]
    omega

theorem length_requests_lt (T : Table) (n : Name) : (requests T n).length < resolveFuel T := by
  unfold requests resolveFuel
  rw [length_range_flatMap_map]
  have := length_importNames_le T
  have h2 : T.length * (n :: importNames T).length ≤ T.length * (1 + (T.map (·.indirectExportEntries.length)).sum) := by
    apply Nat.mul_le_mul_left
    simp only [List.length_cons]
    omega
  omega

/-- **ResolveExport computes reachability in the request graph.**  On a well-formed table, for every module of the
table and every name, `module.ResolveExport(name)` terminates within the fuel and returns null iff no binding is
reachable, a binding iff that is the only reachable one, ambiguous iff two different bindings are reachable. -/
theorem resolveExport_spec {T : Table} (hwf : WellFormed T) {m : ModuleId} (hm : m < T.length) (n : Name) :
    ∃ r, resolveExport T m n = some r ∧
      (r = .null → ∀ b, ¬ Reaches T (m, n) b) ∧
      (∀ b, r = .binding b → Reaches T (m, n) b ∧ ∀ b', Reaches T (m, n) b' → b' = b) ∧
      (r = .ambiguous → ∃ b1 b2, Reaches T (m, n) b1 ∧ Reaches T (m, n) b2 ∧ b1 ≠ b2) := by
  have hU := requests_ok hwf n
  have hx : (m, n) ∈ requests T n := mem_requests.2 ⟨hm, Or.inl rfl⟩
  obtain ⟨r, V', e, p⟩ := resolve_post hwf hU (resolveFuel T) m n [] hx List.nodup_nil (by simp)
    (by simpa using length_requests_lt T n)
  refine ⟨r, by simp [resolveExport, e], ?_⟩
  -- everything reachable is visited
  have hall : r ≠ .ambiguous → ∀ b, Reaches T (m, n) b ↔ NewTerm T [] V' b := by
    intro hne b
    have fr := p.frame hne
    constructor
    · rintro ⟨y, hy, ht⟩
      have hv : y ∈ V' := by
        clear ht
        induction hy with
        | refl => exact fr.roots_in _ (by simp)
        | step _ hz ih => exact fr.closed _ ih (by simp) _ hz
      exact ⟨y, hv, by simp, ht⟩
    · intro hb
      obtain ⟨x, hx, hr⟩ := newTerm_reaches fr hb
      simp at hx; subst hx; exact hr
  refine ⟨?_, ?_, p.amb⟩
  · intro h b hb
    exact p.null h b ((hall (by rw [h]; simp) b).1 hb)
  · intro b h
    have hne : r ≠ .ambiguous := by rw [h]; simp
    obtain ⟨h1, h2⟩ := p.bind b h
    exact ⟨(hall hne b).2 h1, fun b' hb' => h2 b' ((hall hne b').1 hb')⟩

end EsbuildModel.Spec.EsModules
