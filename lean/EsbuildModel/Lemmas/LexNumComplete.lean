import EsbuildModel.Lemmas.LexNumTop
/-
Completeness: the phases accept every piece of a valid derivation.
-/
namespace EsbuildModel.LexNum
open EsbuildModel.Spec.Num EsbuildModel.Spec.NumLit

/-- "The SourceCharacter immediately following a NumericLiteral must not be an IdentifierStart or DecimalDigit"
(ECMA-262 §12.9.3); a following `.` is excluded as well because `1` followed by `.5` is the longer literal `1.5` -/
def FollowOK (P : Params) (rest : List Char) : Prop :=
  ∀ c r, rest = c :: r → isIdStart P c = false ∧ isDig c = false ∧ c ≠ '.'

theorem isIdStart_of_letter (P : Params) {c : Char}
    (h : (97 ≤ c.toNat ∧ c.toNat ≤ 122) ∨ (65 ≤ c.toNat ∧ c.toNat ≤ 90) ∨ c = '_') : isIdStart P c = true := by
  unfold isIdStart
  rcases h with h | h | h
  · simp [h.1, h.2]
  · simp [h.1, h.2]
  · simp [h]

theorem follow_stop {P : Params} {rest : List Char} (h : FollowOK P rest) : StopAt isDig rest := by
  intro c r hc
  obtain ⟨h1, h2, _⟩ := h c r hc
  refine ⟨h2, ?_⟩
  rintro rfl
  rw [isIdStart_of_letter P (Or.inr (Or.inr rfl))] at h1
  cases h1

theorem follow_not {P : Params} {rest : List Char} (h : FollowOK P rest) (x : Char)
    (hx : (97 ≤ x.toNat ∧ x.toNat ≤ 122) ∨ (65 ≤ x.toNat ∧ x.toNat ≤ 90) ∨ x = '_') :
    ∀ c r, rest = c :: r → c ≠ x := by
  intro c r hc hcx
  subst hcx
  have := (h c r hc).1
  rw [isIdStart_of_letter P hx] at this
  cases this

theorem follow_headIs {P : Params} {rest : List Char} (h : FollowOK P rest) : headIs rest (isIdStart P) = false := by
  cases rest with
  | nil => rfl
  | cons c r => exact (h c r rfl).1

theorem follow_not_n {P : Params} {rest : List Char} (h : FollowOK P rest) :
    headIs rest (fun c => c == 'n') = false := by
  cases rest with
  | nil => rfl
  | cons c r =>
    simp only [headIs, beq_eq_false_iff_ne, ne_eq]
    exact follow_not h 'n' (Or.inl (by decide)) c r rfl

theorem runOK_of_sepDigits {isD : Char → Bool} (hus : isD '_' = false) {g : List Char} (h : sepDigits isD g = true)
    (p : Bool) : runOK isD p g = some false := by
  cases g with
  | nil => simp [sepDigits] at h
  | cons c r =>
    simp only [sepDigits, Bool.and_eq_true] at h
    simp only [runOK, h.1, if_true]
    exact (runOK_sep isD hus r).1.2 h.2

theorem sepDigits_head {g : List Char} (h : sepDigits Spec.Num.isDigit g = true) : headIsDig g = true := by
  cases g with
  | nil => simp [sepDigits] at h
  | cons c r => simp only [sepDigits, Bool.and_eq_true] at h; exact h.1

theorem frac_complete {first : Char} (hf : first ≠ '.') (f : Option (List Char)) (hok : fracOk f = true)
    {r : List Char} {s1 : St} (hinv : Inv s1) (hp : s1.prevUS = false) (hstop : StopAt isDig r)
    (hdot : f = none → ∀ c r', r = c :: r' → c ≠ '.') :
    ∃ s2, fracPart first (fracText f ++ r) s1 = .ok (r, s2, f.isSome) ∧ Seg (fracText f ++ r) s1 (fracText f) r s2 ∧
      s2.prevUS = false := by
  cases f with
  | none =>
    refine ⟨s1, ?_, seg_nil hinv, hp⟩
    simp only [fracText, List.nil_append, Option.isSome_none]
    have hfd : (first == '.') = false := by simpa using hf
    unfold fracPart
    cases r with
    | nil => simp [hfd]
    | cons c r' =>
      have := hdot rfl c r' rfl
      simp [this, hfd]
  | some g =>
    have hrun : runOK isDig s1.step.prevUS g = some false := by
      rw [prevUS_step hinv]
      simp only [fracOk, Bool.or_eq_true] at hok
      rcases hok with h | h
      · have : g = [] := by simpa using h
        subst this; rfl
      · exact runOK_of_sepDigits isDigit_us h false
    obtain ⟨s2, h1, hseg, hp2⟩ := digLoop_complete (il := false) (inv_step hinv) hrun hstop (by intro h; cases h)
    refine ⟨s2, ?_, (seg_step (by decide) hinv).trans hseg, hp2⟩
    have hnus : headIs (g ++ r) (fun d => d == '_') = false := by
      cases g with
      | nil =>
        cases r with
        | nil => rfl
        | cons c r' => simpa [headIs] using (hstop c r' rfl).2
      | cons c g' =>
        simp only [fracOk, Bool.or_eq_true] at hok
        rcases hok with h | h
        · simp at h
        · simp only [sepDigits, Bool.and_eq_true] at h
          simpa [headIs] using isDigit_ne_us h.1
    simp only [fracText, List.cons_append, Option.isSome_some]
    unfold fracPart
    simp [hf, hp, hnus, h1]

theorem exp_complete (e : Option ExpS) (hok : expSOk e = true) {r : List Char} {s2 : St} (hinv : Inv s2)
    (hp : s2.prevUS = false) (hstop : StopAt isDig r) (he : e = none → ∀ c r', r = c :: r' → c ≠ 'e' ∧ c ≠ 'E') :
    ∃ s3, expPart (expSText e ++ r) s2 = .ok (r, s3, e.isSome) ∧ Seg (expSText e ++ r) s2 (expSText e) r s3 ∧
      s3.prevUS = false := by
  cases e with
  | none =>
    refine ⟨s2, ?_, seg_nil hinv, hp⟩
    simp only [expSText, List.nil_append, Option.isSome_none]
    unfold expPart
    cases r with
    | nil => rfl
    | cons c r' =>
      obtain ⟨h1, h2⟩ := he rfl c r' rfl
      simp [h1, h2]
  | some x =>
    obtain ⟨up, sg, ds⟩ := x
    simp only [expSOk] at hok
    -- the sign
    have hsign : ∃ s', signStep (sg.text ++ (ds ++ r)) s2.step = (ds ++ r, s') ∧
        Seg (sg.text ++ (ds ++ r)) s2.step sg.text (ds ++ r) s' ∧ s'.prevUS = false := by
      cases sg with
      | none =>
        refine ⟨s2.step, ?_, seg_nil (inv_step hinv), prevUS_step hinv⟩
        have hh := sepDigits_head hok
        cases ds with
        | nil => simp [headIsDig] at hh
        | cons d ds' =>
          have hd : isDig d = true := by simpa [headIsDig] using hh
          have h1 : d ≠ '+' := by rintro rfl; revert hd; decide
          have h2 : d ≠ '-' := by rintro rfl; revert hd; decide
          simp [signStep, Sign.text, h1, h2]
      | plus =>
        exact ⟨s2.step.step, by simp [signStep, Sign.text], seg_step (by decide) (inv_step hinv),
          prevUS_step (inv_step hinv)⟩
      | minus =>
        exact ⟨s2.step.step, by simp [signStep, Sign.text], seg_step (by decide) (inv_step hinv),
          prevUS_step (inv_step hinv)⟩
    obtain ⟨s', hss, hsegs, hp'⟩ := hsign
    have hrun : runOK isDig s'.prevUS ds = some false := runOK_of_sepDigits isDigit_us hok _
    obtain ⟨s3, h1, hseg, hp3⟩ := digLoop_complete (il := false) hsegs.inv hrun hstop (by intro h; cases h)
    have hc : (if up = true then 'E' else 'e') ≠ '_' := by cases up <;> decide
    refine ⟨s3, ?_, ?_, hp3⟩
    · have hhd : headIsDig (ds ++ r) = true := by
        have := sepDigits_head hok
        cases ds with
        | nil => simp [headIsDig] at this
        | cons d ds' => simpa [headIsDig] using this
      simp only [expSText, List.cons_append, List.append_assoc, Option.isSome_some]
      unfold expPart
      have hcE : (if up = true then 'E' else 'e') = 'e' ∨ (if up = true then 'E' else 'e') = 'E' := by
        cases up <;> simp
      simp [hcE, hp, hss, hhd, h1]
    · have := ((seg_step (r := sg.text ++ (ds ++ r)) hc hinv).trans hsegs).trans hseg
      simpa [expSText] using this

theorem finish_num_eval {P : Params} {r : List Char} {s : St} {hde lg : Bool} {v : F64} {ident : List Char}
    (hp : s.prevUS = false) (hn : headIs r (fun c => c == 'n') = false) (hid : headIs r (isIdStart P) = false) :
    finish P r s hde lg v ident = .num s.end_ v lg := by
  unfold finish
  simp [hp, hn, hid]

theorem finish_big_eval {P : Params} {r : List Char} {s : St} {lg : Bool} {v : F64} {ident : List Char}
    (hp : s.prevUS = false) (hid : headIs r (isIdStart P) = false) :
    finish P ('n' :: r) s false lg v ident = .big (s.end_ + 1) ident lg := by
  have h1 : headIs ('n' :: r) (fun c => c == 'n') = true := rfl
  unfold finish
  simp [hp, h1, hid]

/-- evaluation of the floating-point branch once the three phases are known (number token) -/
theorem float_core_num {P : Params} {first : Char} {tail : List Char} {r1 : List Char} {s1 : St}
    (h1 : digLoop (first == '0' && headIs tail (fun c => c == '8' || c == '9')) tail st1 = .ok (r1, s1))
    {r2 : List Char} {s2 : St} {hd : Bool} (h2 : fracPart first r1 s1 = .ok (r2, s2, hd))
    {r3 : List Char} {s3 : St} {he : Bool} (h3 : expPart r2 s2 = .ok (r3, s3, he))
    (hp : s3.prevUS = false) (hn : headIs r3 (fun c => c == 'n') = false) (hid : headIs r3 (isIdStart P) = false) :
    floatPath P first (first :: tail) tail =
      .num s3.end_
        (if (!(hd || he) && decide (s3.end_ < 10)) = true
         then P.rnd (u32Loop (stripUS s3.usCount ((first :: tail).take s3.end_)))
         else P.pf (stripUS s3.usCount ((first :: tail).take s3.end_)))
        (first == '0' && headIs tail (fun c => c == '8' || c == '9')) := by
  unfold floatPath
  simp only [h1, h2, h3, hn, Bool.false_and, Bool.false_eq_true, if_false]
  split <;> exact finish_num_eval hp hn hid

/-- … BigInt token -/
theorem float_core_big {P : Params} {first : Char} {tail : List Char} {r1 : List Char} {s1 : St}
    (h1 : digLoop (first == '0' && headIs tail (fun c => c == '8' || c == '9')) tail st1 = .ok (r1, s1))
    {r2 : List Char} {s2 : St} (h2 : fracPart first r1 s1 = .ok (r2, s2, false))
    {r3 : List Char} {s3 : St} (h3 : expPart r2 s2 = .ok ('n' :: r3, s3, false))
    (hp : s3.prevUS = false) (hid : headIs r3 (isIdStart P) = false)
    (hz : (decide ((stripUS s3.usCount ((first :: tail).take s3.end_)).length > 1) && first == '0') = false) :
    floatPath P first (first :: tail) tail =
      .big (s3.end_ + 1) (stripUS s3.usCount ((first :: tail).take s3.end_))
        (first == '0' && headIs tail (fun c => c == '8' || c == '9')) := by
  unfold floatPath
  have hn : headIs ('n' :: r3) (fun c => c == 'n') = true := rfl
  simp only [h1, h2, h3, hn, Bool.or_self, Bool.not_false, Bool.and_self, if_true, hz,
    Bool.false_eq_true, if_false]
  exact finish_big_eval hp hid

end EsbuildModel.LexNum
