import EsbuildModel.Lemmas.JsonTotal3
/-
Totality of the lexer model, part 4: `lexAt` and `next` never crash, and a token consumes input.
-/
namespace EsbuildModel.Json

/-- the equation of `lexAt` on a non-empty input, whatever its length -/
theorem lexAt_cons (fl : Flavor) (P : Params) (L : Lx) (sk : Sk) (c : Cp) (r : List Cp) :
    lexAt fl P L sk (c :: r) =
    (if c.c = '[' then .ok (L.at sk .openBracket r (sk.pos + c.w))
    else if c.c = ']' then .ok (L.at sk .closeBracket r (sk.pos + c.w))
    else if c.c = '{' then .ok (L.at sk .openBrace r (sk.pos + c.w))
    else if c.c = '}' then .ok (L.at sk .closeBrace r (sk.pos + c.w))
    else if c.c = ',' then .ok (L.at sk .comma r (sk.pos + c.w))
    else if c.c = ':' then .ok (L.at sk .colon r (sk.pos + c.w))
    else if c.c = '-' then
      if headIs r (fun d => d == '=' || d == '-') then .ok (L.at sk .other r (sk.pos + c.w))
      else if fl = .json ∧ !headIs r (fun d => d == '.' || isDigit d) then unexpected sk.log sk.pos
      else .ok (L.at sk .minus r (sk.pos + c.w))
    else if c.c = '"' ∨ c.c = '\'' ∨ c.c = '`' then lexString fl L sk c r
    else if c.c = '.' ∨ isDigit c.c then lexNumber fl P L sk (c :: r)
    else if c.c = '#' then
      if sk.pos = 0 ∧ headIs r (· == '!') then .ok (L.at sk .other r (sk.pos + c.w))
      else if headIs r (· == '\\') then idEsc fl P L sk true [c] r
      else
        match r with
        | d :: r' =>
          if !isIdStart P d.c then syntaxError sk.log (sk.pos + c.w)
          else lexIdent fl P L sk true [c, d] r'
        | [] => syntaxError sk.log (sk.pos + c.w)
    else if c.c = '\\' then idEsc fl P L sk false [] (c :: r)
    else if isAsciiIdStart c.c then lexIdent fl P L sk false [c] r
    else if c.c.toNat < 0x7F then .ok (L.at sk .other r (sk.pos + c.w))
    else if isIdStart P c.c then lexIdent fl P L sk false [c] r
    else .ok (L.at sk .other r (sk.pos + c.w))) := by
  cases r with
  | nil => rw [lexAt.eq_3]
  | cons d r' => rw [lexAt.eq_2]

theorem lexAt_total {P : Params} {Rd : Rat → F64} (hP : ParamsOK P Rd) (fl : Flavor) (L : Lx) (sk : Sk) (l : List Cp) :
    lexAt fl P L sk l ≠ .crash ∧ ∀ L', lexAt fl P L sk l = .ok L' → mu L' ≤ l.length := by
  cases l with
  | nil =>
    refine ⟨by simp [lexAt], ?_⟩
    intro L' h
    simp only [lexAt, R.ok.injEq] at h
    subst h
    simp [mu, Lx.at]
  | cons c r =>
    have hone : ∀ t : Tok, (R.ok (L.at sk t r (sk.pos + c.w)) : R Lx) ≠ .crash ∧
        ∀ L', (R.ok (L.at sk t r (sk.pos + c.w)) : R Lx) = .ok L' → mu L' ≤ (c :: r).length := by
      intro t
      refine ⟨by simp, ?_⟩
      intro L' h; cases h
      simpa using mu_at_le L sk t r (sk.pos + c.w)
    have hunx : (unexpected sk.log sk.pos : R Lx) ≠ .crash ∧
        ∀ L', (unexpected sk.log sk.pos : R Lx) = .ok L' → mu L' ≤ (c :: r).length :=
      ⟨by simp [unexpected], by intro L' h; cases h⟩
    have hsyn : ∀ e, (syntaxError sk.log e : R Lx) ≠ .crash ∧
        ∀ L', (syntaxError sk.log e : R Lx) = .ok L' → mu L' ≤ (c :: r).length :=
      fun e => ⟨by simp [syntaxError], by intro L' h; cases h⟩
    rw [lexAt_cons]
    by_cases hc : c.c = '['
    · rw [if_pos hc]
      exact hone _
    rw [if_neg hc]
    clear hc
    by_cases hc : c.c = ']'
    · rw [if_pos hc]
      exact hone _
    rw [if_neg hc]
    clear hc
    by_cases hc : c.c = '{'
    · rw [if_pos hc]
      exact hone _
    rw [if_neg hc]
    clear hc
    by_cases hc : c.c = '}'
    · rw [if_pos hc]
      exact hone _
    rw [if_neg hc]
    clear hc
    by_cases hc : c.c = ','
    · rw [if_pos hc]
      exact hone _
    rw [if_neg hc]
    clear hc
    by_cases hc : c.c = ':'
    · rw [if_pos hc]
      exact hone _
    rw [if_neg hc]
    clear hc
    by_cases hc : c.c = '-'
    · rw [if_pos hc]
      by_cases h1 : headIs r (fun d => d == '=' || d == '-') = true
      · rw [if_pos h1]; exact hone _
      · rw [if_neg h1]
        by_cases h2 : fl = .json ∧ (!headIs r (fun d => d == '.' || isDigit d)) = true
        · rw [if_pos h2]; exact hunx
        · rw [if_neg h2]; exact hone _
    rw [if_neg hc]
    clear hc
    by_cases hc : c.c = '"' ∨ c.c = '\'' ∨ c.c = '`'
    · rw [if_pos hc]
      obtain ⟨h1, h2⟩ := lexString_total fl L sk c r
      exact ⟨h1, fun L' h => by have := h2 L' h; simp only [List.length_cons]; omega⟩
    rw [if_neg hc]
    clear hc
    by_cases hc : c.c = '.' ∨ isDigit c.c = true
    · rw [if_pos hc]
      exact lexNumber_total hP fl L sk c r hc
    rw [if_neg hc]
    clear hc
    by_cases hhash : c.c = '#'
    · rw [if_pos hhash]
      by_cases h1 : sk.pos = 0 ∧ headIs r (· == '!') = true
      · rw [if_pos h1]; exact hone _
      · rw [if_neg h1]
        by_cases h2 : headIs r (· == '\\') = true
        · rw [if_pos h2]
          obtain ⟨h1, h2⟩ := idEsc_total fl P L sk true [c] r (fun _ => ⟨c, [], rfl, hhash⟩)
          exact ⟨h1, fun L' h => by have := h2 L' h; simp only [List.length_cons]; omega⟩
        · rw [if_neg h2]
          cases r with
          | nil => exact hsyn _
          | cons d r' =>
            simp only
            by_cases h3 : (!isIdStart P d.c) = true
            · rw [if_pos h3]; exact hsyn _
            · rw [if_neg h3]
              obtain ⟨h1, h2⟩ := lexIdent_total fl P L sk true [c, d] r' (fun _ => ⟨c, [d], rfl, hhash⟩)
              exact ⟨h1, fun L' h => by have := h2 L' h; simp only [List.length_cons]; omega⟩
    rw [if_neg hhash]
    by_cases hc : c.c = '\\'
    · rw [if_pos hc]
      unfold idEsc
      have hstep : idScan P .normal (c :: r) (sk.pos + widths []) = (idScan P .bs r (sk.pos + widths [] + c.w)).cons c := by
        simp [idScan, hc]
      rw [hstep]
      cases h : idScan P .bs r (sk.pos + widths [] + c.w) with
      | err a => exact ⟨by simp [IdScan.cons, syntaxError], by intro L' h; simp [IdScan.cons, syntaxError] at h⟩
      | ok consumed rest e =>
        have hle := idScan_le P .bs r _ _ _ _ h
        simp only [IdScan.cons]
        obtain ⟨h1, h2⟩ := idEscFinish_total fl P L sk false ([] ++ c :: consumed) rest e (by simp)
        exact ⟨h1, fun L' hL => by have := h2 L' hL; simp only [List.length_cons]; omega⟩
    rw [if_neg hc]
    clear hc
    by_cases hc : isAsciiIdStart c.c = true
    · rw [if_pos hc]
      obtain ⟨h1, h2⟩ := lexIdent_total fl P L sk false [c] r (by simp)
      exact ⟨h1, fun L' h => by have := h2 L' h; simp only [List.length_cons]; omega⟩
    rw [if_neg hc]
    clear hc
    by_cases hc : c.c.toNat < 0x7F
    · rw [if_pos hc]
      exact hone _
    rw [if_neg hc]
    clear hc
    by_cases hc : isIdStart P c.c = true
    · rw [if_pos hc]
      obtain ⟨h1, h2⟩ := lexIdent_total fl P L sk false [c] r (by simp)
      exact ⟨h1, fun L' h => by have := h2 L' h; simp only [List.length_cons]; omega⟩
    · rw [if_neg hc]; exact hone _

/-- **`Next` never crashes and reads a token** -/
theorem next_total {P : Params} {Rd : Rat → F64} (hP : ParamsOK P Rd) (fl : Flavor) (L : Lx) :
    next fl P L ≠ .crash ∧ ∀ L', next fl P L = .ok L' → mu L' ≤ L.rest.length := by
  unfold next
  cases h : skipSep fl .top L.rest ⟨L.end_, L.end_ == 0, L.log⟩ with
  | crash => exact absurd h (skipSep_ne_crash _ _ _ _)
  | panic l => exact ⟨by simp, by intro L' h; cases h⟩
  | ok p =>
    obtain ⟨sk, rest⟩ := p
    have hle := skipSep_le fl .top L.rest _ sk rest h
    obtain ⟨h1, h2⟩ := lexAt_total hP fl L sk rest
    exact ⟨h1, fun L' hL => by have := h2 L' hL; omega⟩

end EsbuildModel.Json
