import EsbuildModel.Lemmas.CssLexShape
/-!
`Tokenize` as a whole: the token ranges and the comments between them tile the input.
-/
namespace EsbuildModel.CssLex

/-- `Cover pos toks text`: `text`, which starts at byte offset `pos` of the file, is
`gap₀ tok₀ gap₁ tok₁ … gapₙ` where every `gapᵢ` is a run of comments (only the last one may be unterminated),
every token is not empty and lies exactly at its recorded range -/
inductive Cover : Nat → List Tok → List Nat → Prop
  | done (pos : Nat) (g : List Nat) : GapEnd g → Cover pos [] g
  | tok (pos : Nat) (g body rest : List Nat) (t : Tok) (ts : List Tok) :
      Gap g → body ≠ [] → t.start = pos + g.length → t.len = body.length →
      Cover (t.start + t.len) ts rest → Cover pos (t :: ts) (g ++ body ++ rest)

theorem next_token_nonempty (oldRem : Nat) (s : List Ch) (h : (next oldRem s).kind ≠ .TEndOfFile) :
    (next oldRem s).rest.length < (next oldRem s).startS.length := by
  fun_induction next oldRem s with
  | case1 => simp at h
  | case2 c h => simp
  | case3 c hc d u hd ih => simp only [NextOut.withComment] at h ⊢; exact ih h
  | case4 => simp
  | case5 => simp
  | case6 => simp
  | case7 c t hc hw => have := wsLoop_length t; simp only [List.length_cons]; omega
  | case8 c t hc hw => have := lexOther_progress c t; simp only [List.length_cons]; omega

theorem rawLen_append (a b : List Ch) : rawLen (a ++ b) = rawLen a + rawLen b := by simp [rawLen, rawOf_append]

theorem rawOf_ne_nil_of_wf (s : List Ch) (hw : WfS s) (h : s ≠ []) : rawOf s ≠ [] := by
  cases s with
  | nil => exact absurd rfl h
  | cons c t =>
    rw [rawOf_cons]
    have := (hw.head).raw_ne_nil
    cases hr : c.raw with
    | nil => exact absurd hr this
    | cons x xs => simp

theorem lexAll_cover (total oldRem : Nat) (s : List Ch) (hw : WfS s) (ht : rawLen s ≤ total) :
    Cover (total - rawLen s) (((lexAll oldRem s).filter (·.kind ≠ .TEndOfFile)).map (·.toTok total)) (rawOf s) := by
  fun_induction lexAll oldRem s with
  | case1 oldRem s hk =>
    obtain ⟨⟨gapc, hg1, _, hg3⟩, _, _⟩ := next_shape oldRem s hw
    have := hg3 hk
    simp only [hk, List.filter_cons, ne_eq, not_true_eq_false, decide_false, List.filter_nil, List.map_nil,
      Bool.false_eq_true, if_false]
    rw [hg1, this.2, List.append_nil]
    exact Cover.done _ _ this.1
  | case2 oldRem s hk ih =>
    obtain ⟨⟨gapc, hg1, hg2, _⟩, hrest, _⟩ := next_shape oldRem s hw
    have hsuf : (next oldRem s).startS <:+ s := ⟨gapc, hg1.symm⟩
    have hws : WfS (next oldRem s).startS := hw.suffix hsuf
    have hwr : WfS (next oldRem s).rest := hws.suffix hrest
    obtain ⟨chars, hch⟩ := hrest
    have hne := next_token_nonempty oldRem s hk
    have hwc : WfS chars := by
      intro c hc; exact hws c (by rw [← hch]; simp [hc])
    have hlen : rawLen s = rawLen gapc + (rawLen chars + rawLen (next oldRem s).rest) := by
      conv => lhs; rw [hg1, ← hch]
      simp [rawLen_append]
    have hstart : rawLen (next oldRem s).startS = rawLen chars + rawLen (next oldRem s).rest := by
      conv => lhs; rw [← hch]
      simp [rawLen_append]
    have ih' := ih hwr (by omega)
    simp only [hk, List.filter_cons, ne_eq, not_false_eq_true, decide_true, if_true, List.map_cons]
    have hraw : rawOf s = rawOf gapc ++ rawOf chars ++ rawOf (next oldRem s).rest := by
      conv => lhs; rw [hg1, ← hch]
      simp [rawOf_append]
    rw [hraw]
    have hcne : chars ≠ [] := by
      intro h0; rw [h0] at hch; simp at hch; rw [hch] at hne; omega
    refine Cover.tok _ _ _ _ _ _ (hg2 hk) (rawOf_ne_nil_of_wf chars hwc hcne) ?_ ?_ ?_
    · simp only [NextOut.toTok]; unfold rawLen at *; omega
    · simp only [NextOut.toTok]; unfold rawLen at *; omega
    · have e : ((next oldRem s).toTok total).start + ((next oldRem s).toTok total).len = total - rawLen (next oldRem s).rest := by
        simp only [NextOut.toTok]; omega
      rw [e]; exact ih'

end EsbuildModel.CssLex
