import EsbuildModel.Lemmas.PkgExportsTree
/-! PACKAGE_IMPORTS_EXPORTS_RESOLVE: which keys are expansion keys, their order, the loop over them. -/
namespace EsbuildModel.PkgExports
open EsbuildModel.NodeExports

theorem indexByte_star (k : Str) :
    indexByte k '*' = if k.contains '*' then some (indexOfStar k) else none := by
  induction k with
  | nil => rfl
  | cons d ds ih =>
    simp only [indexByte, indexOfStar, ih]
    by_cases hd : d = '*'
    · simp [hd]
    · have hd' : ¬ '*' = d := fun e => hd e.symm
      by_cases hm : '*' ∈ ds <;> simp [hd, hd', hm]

theorem indexOfStar_lt (k : Str) (h : k.contains '*' = true) : indexOfStar k < k.length := by
  induction k with
  | nil => simp at h
  | cons d ds ih =>
    simp only [indexOfStar]
    by_cases hd : d = '*'
    · simp [hd]
    · have : ds.contains '*' = true := by
        simp only [List.contains_cons, Bool.or_eq_true, beq_iff_eq] at h
        rcases h with h | h
        · exact absurd h.symm hd
        · exact h
      simp [hd]; exact ih this

theorem key_length (k : Str) (h : k.contains '*' = true) :
    (k.take (indexOfStar k)).length = indexOfStar k ∧
    k.length = indexOfStar k + 1 + (k.drop (indexOfStar k + 1)).length := by
  have := indexOfStar_lt k h
  simp only [List.length_take, List.length_drop]
  omega

theorem prefix_length_le (p s : Str) (h : p.isPrefixOf s = true) : p.length ≤ s.length := by
  induction p generalizing s with
  | nil => simp
  | cons a as ih =>
    cases s with
    | nil => simp [List.isPrefixOf] at h
    | cons b bs =>
      simp only [List.isPrefixOf, Bool.and_eq_true] at h
      simp only [List.length_cons]
      have := ih bs h.2
      omega

theorem lookup_of_mem (l : List (Str × Target)) (k : Str) (v : Target)
    (hn : nodupKeys (l.map Prod.fst) = true) (hm : (k, v) ∈ l) : lookup l k = some v := by
  induction l with
  | nil => cases hm
  | cons p ps ih =>
    obtain ⟨a, b⟩ := p
    simp only [List.map_cons, nodupKeys, Bool.and_eq_true, Bool.not_eq_true'] at hn
    simp only [lookup]
    rcases List.mem_cons.mp hm with h | h
    · cases h; simp
    · have hne : a ≠ k := by
        intro e; subst e
        have : a ∈ ps.map Prod.fst := List.mem_map.mpr ⟨(a, v), h, rfl⟩
        have hc := hn.1
        simp only [List.contains_eq_mem, decide_eq_false_iff_not] at hc
        exact hc this
      simp [hne, ih hn.2 h]

theorem wf_of_mem (l : List (Str × Target)) (k : Str) (v : Target)
    (hw : wfProps l = true) (hm : (k, v) ∈ l) : wf v = true := by
  induction l with
  | nil => cases hm
  | cons p ps ih =>
    obtain ⟨a, b⟩ := p
    simp only [wfProps, Bool.and_eq_true] at hw
    rcases List.mem_cons.mp hm with h | h
    · cases h; exact hw.1
    · exact ih hw.2 h

theorem wf_of_lookup (l : List (Str × Target)) (k : Str) (v : Target)
    (hw : wfProps l = true) (hl : lookup l k = some v) : wf v = true := by
  induction l with
  | nil => simp [lookup] at hl
  | cons p ps ih =>
    obtain ⟨a, b⟩ := p
    simp only [wfProps, Bool.and_eq_true] at hw
    simp only [lookup] at hl
    split at hl
    · cases hl; exact hw.1
    · exact ih hw.2 hl

theorem contains_of_count_one (k : Str) (h : k.count '*' = 1) : k.contains '*' = true := by
  have : 0 < k.count '*' := by omega
  simpa using List.count_pos_iff.mp this

/-- under `keyOK`, esbuild's expansion keys are exactly the keys with a "*" -/
theorem keyOK_class (k : Str) (h : keyOK k = true) : isExpansionKey k = k.contains '*' := by
  unfold keyOK at h
  cases hc : k.contains '*'
  · simp only [hc, Bool.false_or, Bool.not_eq_true'] at h
    simp only [isExpansionKey, indexByte_star, hc, Bool.false_eq_true, ↓reduceIte, Option.isSome_none, Bool.or_false]
    exact h
  · simp only [isExpansionKey, indexByte_star, hc, ↓reduceIte, Option.isSome_some, Bool.or_true]

theorem less_eq_compare (a b : Str) (ha : a.contains '*' = true) (hb : b.contains '*' = true) :
    less a b = decide (patternKeyCompare a b < 0) := by
  simp only [less, patternKeyCompare, indexByte_star, ha, hb, ↓reduceIte, Option.isSome_some, Option.isNone_some,
    Bool.false_eq_true, gt_iff_lt]
  by_cases h1 : indexOfStar b < indexOfStar a
  · simp [h1]
  · by_cases h2 : indexOfStar a < indexOfStar b
    · simp [h1, h2]
    · by_cases h3 : b.length < a.length
      · simp [h1, h2, h3]
      · by_cases h4 : a.length < b.length <;> simp [h1, h2, h3, h4]

theorem mem_insertEntry (e x : Str × Target) (xs : List (Str × Target)) :
    x ∈ insertEntry e xs ↔ x = e ∨ x ∈ xs := by
  induction xs with
  | nil => simp [insertEntry]
  | cons y ys ih =>
    simp only [insertEntry]
    split
    · simp only [List.mem_cons, ih]
      constructor
      · rintro (h | h | h)
        · exact Or.inr (Or.inl h)
        · exact Or.inl h
        · exact Or.inr (Or.inr h)
      · rintro (h | h | h)
        · exact Or.inr (Or.inl h)
        · exact Or.inl h
        · exact Or.inr (Or.inr h)
    · simp [List.mem_cons]

theorem mem_sortEntries (x : Str × Target) (es : List (Str × Target)) :
    x ∈ sortEntries es ↔ x ∈ es := by
  induction es with
  | nil => simp [sortEntries]
  | cons e es ih => simp [sortEntries, mem_insertEntry, ih]

theorem insertEntry_map_fst (e : Str × Target) (xs : List (Str × Target))
    (he : e.1.contains '*' = true) (hx : ∀ x ∈ xs, x.1.contains '*' = true) :
    (insertEntry e xs).map Prod.fst = insertKey e.1 (xs.map Prod.fst) := by
  induction xs with
  | nil => rfl
  | cons y ys ih =>
    have hy := hx y (by simp)
    have ih' := ih (fun x hm => hx x (by simp [hm]))
    simp only [insertEntry, List.map_cons, insertKey, less_eq_compare y.1 e.1 hy he, decide_eq_true_eq]
    split
    · simp [ih']
    · simp

theorem sortEntries_map_fst (es : List (Str × Target)) (h : ∀ x ∈ es, x.1.contains '*' = true) :
    (sortEntries es).map Prod.fst = sortKeys (es.map Prod.fst) := by
  induction es with
  | nil => rfl
  | cons e es ih =>
    have ih' := ih (fun x hm => h x (by simp [hm]))
    simp only [sortEntries, List.map_cons, sortKeys]
    rw [insertEntry_map_fst e _ (h e (by simp))
      (fun x hm => h x (by simp [(mem_sortEntries x es).mp hm])), ih']

/-- the sorted expansion keys of the specification are the keys of the sorted single-"*" entries -/
theorem expansionKeys_spec (l : List (Str × Target)) :
    sortKeys ((l.map Prod.fst).filter fun k => k.count '*' = 1) =
      (sortEntries (l.filter fun p => decide (p.1.count '*' = 1))).map Prod.fst := by
  have hf2 : (l.map Prod.fst).filter (fun k => decide (k.count '*' = 1)) =
      (l.filter (fun p => decide (p.1.count '*' = 1))).map Prod.fst := by
    rw [List.filter_map]; rfl
  rw [hf2, sortEntries_map_fst]
  intro x hm
  have := (List.mem_filter.mp hm).2
  exact contains_of_count_one x.1 (by simpa using this)

theorem mapOK_facts (matchKey : Str) (l : List (Str × Target)) (h : mapOK matchKey l = true) :
    requestOK matchKey = true ∧ nodupKeys (l.map Prod.fst) = true ∧ l.all (fun p => keyOK p.1) = true ∧
    wfProps l = true ∧
    (∀ p ∈ l, p.1.count '*' = 1 → matchKey ≠ p.1.take (indexOfStar p.1)) ∧
    (∀ p ∈ l, p.1.count '*' = 1 → ∀ pm, patternMatchOf p.1 matchKey = some pm → subOK pm = true) := by
  simp only [mapOK, Bool.and_eq_true] at h
  obtain ⟨⟨⟨⟨⟨h1, h2⟩, h3⟩, h4⟩, h5⟩, h6⟩ := h
  refine ⟨h1, h2, h3, h4, ?_, ?_⟩
  · intro p hm hc
    have := (List.all_eq_true.mp h5) p hm
    simp only [Bool.or_eq_true, Bool.not_eq_true', decide_eq_false_iff_not, bne_iff_ne, ne_eq] at this
    rcases this with h | h
    · exact absurd hc h
    · exact h
  · intro p hm hc pm hpm
    have := (List.all_eq_true.mp h6) p hm
    simp only [hpm, Bool.or_eq_true, Bool.not_eq_true', decide_eq_false_iff_not] at this
    rcases this with h | h
    · exact absurd hc h
    · exact h

theorem slice_ok (s : Str) (bl tl : Nat) (h : bl + tl ≤ s.length) :
    slice s bl ((s.length : Int) - tl) = some ((s.take (s.length - tl)).drop bl) := by
  unfold slice
  have h1 : (0 : Int) ≤ (bl : Int) ∧ (bl : Int) ≤ (s.length : Int) - tl ∧ (s.length : Int) - tl ≤ (s.length : Int) := by
    omega
  rw [if_pos h1]
  have h2 : ((s.length : Int) - (tl : Int)).toNat = s.length - tl := by omega
  have h3 : (bl : Int).toNat = bl := by omega
  rw [h2, h3]

theorem isEmpty_eq_decide (t : Str) : t.isEmpty = decide (t = []) := by
  cases t <;> simp

/-- one expansion key: esbuild's test and slice against the specification's `patternMatchOf` -/
theorem patternMatch_agree (key matchKey : Str) (hc : key.contains '*' = true)
    (hne : matchKey ≠ key.take (indexOfStar key)) :
    (hasPrefix matchKey (key.take (indexOfStar key)) = true ∧
      (decide (key.drop (indexOfStar key + 1) = []) ||
        (hasSuffix matchKey (key.drop (indexOfStar key + 1)) && decide (matchKey.length ≥ key.length))) = true ∧
      slice matchKey (key.take (indexOfStar key)).length ((matchKey.length : Int) - (key.drop (indexOfStar key + 1)).length)
        = patternMatchOf key matchKey ∧ (patternMatchOf key matchKey).isSome = true)
    ∨ ((hasPrefix matchKey (key.take (indexOfStar key)) = false ∨
        (decide (key.drop (indexOfStar key + 1) = []) ||
          (hasSuffix matchKey (key.drop (indexOfStar key + 1)) && decide (matchKey.length ≥ key.length))) = false) ∧
       patternMatchOf key matchKey = none) := by
  have hlen := key_length key hc
  have hne' : (matchKey != key.take (indexOfStar key)) = true := by simpa using hne
  unfold patternMatchOf
  simp only [hne', Bool.and_true, isEmpty_eq_decide]
  have e1 : startsWith matchKey (key.take (indexOfStar key)) = hasPrefix matchKey (key.take (indexOfStar key)) := rfl
  have e2 : endsWith matchKey (key.drop (indexOfStar key + 1)) = hasSuffix matchKey (key.drop (indexOfStar key + 1)) := rfl
  rw [e1, e2]
  cases hp : hasPrefix matchKey (key.take (indexOfStar key))
  · right; simp
  · cases hcnd : (decide (key.drop (indexOfStar key + 1) = []) ||
        (hasSuffix matchKey (key.drop (indexOfStar key + 1)) && decide (matchKey.length ≥ key.length)))
    · right; simp
    · left
      simp only [↓reduceIte, Option.isSome_some, and_true, true_and]
      have hbl := prefix_length_le _ _ hp
      apply slice_ok
      simp only [Bool.or_eq_true, decide_eq_true_eq, Bool.and_eq_true] at hcnd
      rcases hcnd with h | h
      · rw [h]; simpa using hbl
      · have := h.2; omega

/-- the loop over the expansion keys -/
theorem expansion_ok (strict isImports : Bool) (conds : List Str) (matchKey : Str) (l : List (Str × Target))
    (h : mapOK matchKey l = true) :
    ∀ S : List (Str × Target), (∀ e ∈ S, e ∈ l ∧ e.1.count '*' = 1) →
    toTR (PkgExports.expansionLoop ['/'] matchKey isImports conds S) =
      some (NodeExports.expansionLoop strict ['/'] isImports conds l matchKey (S.map Prod.fst)) := by
  obtain ⟨_, hnd, _, hwf, hd7, hsub⟩ := mapOK_facts matchKey l h
  intro S
  induction S with
  | nil => intro _; rfl
  | cons e rest ih =>
    intro hS
    obtain ⟨key, value⟩ := e
    have he := hS (key, value) (by simp)
    have hc : key.contains '*' = true := contains_of_count_one key he.2
    have ih' := ih (fun x hm => hS x (by simp [hm]))
    simp only [PkgExports.expansionLoop, NodeExports.expansionLoop, List.map_cons, indexByte_star, hc, ↓reduceIte]
    rcases patternMatch_agree key matchKey hc (hd7 (key, value) he.1 he.2) with ⟨hp, hcnd, hsl, hsome⟩ | ⟨hno, hnone⟩
    · simp only [hp, hcnd, ↓reduceIte, hsl]
      cases hpm : patternMatchOf key matchKey with
      | none => rw [hpm] at hsome; cases hsome
      | some pm =>
        simp only [lookup_of_mem l key value hnd he.1]
        have := target_ok strict isImports conds (some pm)
          (fun m hm => by cases hm; exact hsub (key, value) he.1 he.2 pm hpm) value (wf_of_mem l key value hwf he.1)
        simpa using this
    · simp only [hnone]
      rcases hno with hp | hcnd
      · simp only [hp, Bool.false_eq_true, ↓reduceIte]; exact ih'
      · cases hp : hasPrefix matchKey (key.take (indexOfStar key))
        · simp only [Bool.false_eq_true, ↓reduceIte]; exact ih'
        · simp only [hcnd, ↓reduceIte, Bool.false_eq_true]; exact ih'

end EsbuildModel.PkgExports
