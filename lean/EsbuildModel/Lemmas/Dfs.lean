import EsbuildModel.Impl.Dfs
import EsbuildModel.Lemmas.Split
/-! Lemmas about the generic mark-on-entry / post-order traversal `Dfs.visit`:
termination within `n + 1` levels, no node finished twice, every reachable node finished, and the
topological property (an edge goes to an earlier-finished node unless it closes a cycle). -/
namespace EsbuildModel.Dfs
open EsbuildModel.Split (Inv inv_length_le)

/-- every node below `n` has a successor list and it stays below `n` -/
def WF (succ : Nat → Option (List Nat)) (n : Nat) : Prop :=
  ∀ i, i < n → ∃ js, succ i = some js ∧ ∀ j ∈ js, j < n

def Edge (succ : Nat → Option (List Nat)) (a b : Nat) : Prop := ∃ js, succ a = some js ∧ b ∈ js

inductive Reach (succ : Nat → Option (List Nat)) : Nat → Nat → Prop
  | refl (a : Nat) : Reach succ a a
  | step {a b c : Nat} : Reach succ a b → Edge succ b c → Reach succ a c

theorem Reach.head {succ : Nat → Option (List Nat)} {a b c : Nat} (h : Edge succ a b) (h2 : Reach succ b c) :
    Reach succ a c := by
  induction h2 with
  | refl => exact .step (.refl a) h
  | step _ e ih => exact .step ih e

theorem Reach.trans {succ : Nat → Option (List Nat)} {a b c : Nat} (h1 : Reach succ a b) (h2 : Reach succ b c) :
    Reach succ a c := by
  induction h2 with
  | refl => exact h1
  | step _ e ih => exact .step ih e

/-- `y` is finished strictly before `x` in the finishing order `o` -/
def Before (o : List Nat) (y x : Nat) : Prop := ∃ l1 l2, o = l1 ++ x :: l2 ∧ y ∈ l1

theorem Before.append {o : List Nat} {y x : Nat} (h : Before o y x) (t : List Nat) : Before (o ++ t) y x := by
  obtain ⟨l1, l2, e, hy⟩ := h
  exact ⟨l1, l2 ++ t, by simp [e], hy⟩

/-- every finished node's edges go to an earlier-finished node or close a cycle -/
def Topo (succ : Nat → Option (List Nat)) (st : St) : Prop :=
  ∀ x ∈ st.order, ∀ y, Edge succ x y → Before st.order y x ∨ Reach succ y x

/-- what one successful traversal step guarantees -/
structure Post (succ : Nat → Option (List Nat)) (n : Nat) (st st' : St) : Prop where
  inv : Inv n st'.visited
  mono : ∀ x ∈ st.visited, x ∈ st'.visited
  ord : ∃ new, st'.order = st.order ++ new ∧ new.Nodup ∧
        (∀ x, x ∈ new ↔ (x ∈ st'.visited ∧ x ∉ st.visited))
  closed : ∀ x ∈ st'.visited, x ∉ st.visited → ∀ j, Edge succ x j → j ∈ st'.visited

theorem Post.rfl' {succ : Nat → Option (List Nat)} {n : Nat} {st : St} (h : Inv n st.visited) : Post succ n st st :=
  ⟨h, fun _ hx => hx, ⟨[], by simp, List.nodup_nil, by simp⟩, fun x hx hn => absurd hx hn⟩

theorem Post.trans {succ : Nat → Option (List Nat)} {n : Nat} {a b c : St}
    (h1 : Post succ n a b) (h2 : Post succ n b c) : Post succ n a c := by
  obtain ⟨n1, e1, nd1, m1⟩ := h1.ord
  obtain ⟨n2, e2, nd2, m2⟩ := h2.ord
  refine ⟨h2.inv, fun x hx => h2.mono x (h1.mono x hx), ⟨n1 ++ n2, ?_, ?_, ?_⟩, ?_⟩
  · rw [e2, e1, List.append_assoc]
  · rw [List.nodup_append]
    refine ⟨nd1, nd2, ?_⟩
    intro x hx1 y hy2 hxy
    subst hxy
    exact ((m2 x).1 hy2).2 ((m1 x).1 hx1).1
  · intro x
    rw [List.mem_append, m1, m2]
    constructor
    · rintro (⟨hb, ha⟩ | ⟨hc, hb⟩)
      · exact ⟨h2.mono x hb, ha⟩
      · exact ⟨hc, fun ha => hb (h1.mono x ha)⟩
    · rintro ⟨hc, ha⟩
      by_cases hb : x ∈ b.visited
      · exact Or.inl ⟨hb, ha⟩
      · exact Or.inr ⟨hc, hb⟩
  · intro x hc ha j hj
    by_cases hb : x ∈ b.visited
    · exact h2.mono j (h1.closed x hb ha j hj)
    · exact h2.closed x hc hb j hj

/-- nodes that are entered but not finished after the step were already so before it -/
theorem Post.stack {succ : Nat → Option (List Nat)} {n : Nat} {st st' : St} (p : Post succ n st st') :
    ∀ y ∈ st'.visited, y ∉ st'.order → y ∈ st.visited ∧ y ∉ st.order := by
  obtain ⟨new, eo, _, m⟩ := p.ord
  intro y hv ho
  rw [eo, List.mem_append] at ho
  have hn : y ∉ new := fun h => ho (Or.inr h)
  have ho' : y ∉ st.order := fun h => ho (Or.inl h)
  rw [m] at hn
  refine ⟨?_, ho'⟩
  by_cases h : y ∈ st.visited
  · exact h
  · exact absurd ⟨hv, h⟩ hn

theorem Post.length_le {succ : Nat → Option (List Nat)} {n : Nat} {st st' : St} (p : Post succ n st st')
    (hi : Inv n st.visited) : st.visited.length ≤ st'.visited.length :=
  List.Nodup.length_le_of_subset hi.1 p.mono

/-- the loop over a successor list, given that the step function behaves -/
theorem visitList_post {succ : Nat → Option (List Nat)} {n fuel : Nat} (f : Nat → St → Option St)
    (hf : ∀ j st, Inv n st.visited → j < n → n < fuel + st.visited.length →
      ∃ st', f j st = some st' ∧ Post succ n st st' ∧ j ∈ st'.visited ∧
        ((∀ y ∈ st.visited, y ∉ st.order → Reach succ y j) → Topo succ st → Topo succ st')) :
    ∀ (js : List Nat) (st : St), (∀ j ∈ js, j < n) → Inv n st.visited →
      n < fuel + st.visited.length →
      ∃ st', visitList f js st = some st' ∧ Post succ n st st' ∧ (∀ j ∈ js, j ∈ st'.visited) ∧
        ((∀ y ∈ st.visited, y ∉ st.order → ∀ j ∈ js, Reach succ y j) → Topo succ st → Topo succ st') := by
  intro js
  induction js with
  | nil => intro st _ hi _; exact ⟨st, rfl, Post.rfl' hi, by simp, fun _ h => h⟩
  | cons j js ih =>
    intro st hjs hi hfuel
    obtain ⟨st1, e1, p1, hj1, t1⟩ := hf j st hi (hjs j (by simp)) hfuel
    have hlen := p1.length_le hi
    obtain ⟨st2, e2, p2, hj2, t2⟩ := ih st1 (fun x hx => hjs x (by simp [hx])) p1.inv (by omega)
    refine ⟨st2, ?_, p1.trans p2, ?_, ?_⟩
    · simp [visitList, e1, e2]
    · intro x hx
      rcases List.mem_cons.1 hx with rfl | hx
      · exact p2.mono _ hj1
      · exact hj2 x hx
    · intro hstk htopo
      apply t2
      · intro y hv ho k hk
        have := p1.stack y hv ho
        exact hstk y this.1 this.2 k (by simp [hk])
      · exact t1 (fun y hv ho => hstk y hv ho j (by simp)) htopo

theorem visit_post {succ : Nat → Option (List Nat)} {n : Nat} (hwf : WF succ n) :
    ∀ (fuel i : Nat) (st : St), Inv n st.visited → i < n → n < fuel + st.visited.length →
      ∃ st', visit succ fuel i st = some st' ∧ Post succ n st st' ∧ i ∈ st'.visited ∧
        ((∀ y ∈ st.visited, y ∉ st.order → Reach succ y i) → Topo succ st → Topo succ st') := by
  intro fuel
  induction fuel with
  | zero =>
    intro i st hi _ hfuel
    have := inv_length_le hi
    omega
  | succ fuel ih =>
    intro i st hi hlt hfuel
    unfold visit
    by_cases hc : st.visited.contains i = true
    · simp only [hc, if_true]
      exact ⟨st, rfl, Post.rfl' hi, by simpa using hc, fun _ h => h⟩
    · have hni : i ∉ st.visited := by simpa using hc
      simp only [hc]
      obtain ⟨js, hsucc, himp⟩ := hwf i hlt
      rw [hsucc]
      simp only [Bool.false_eq_true, if_false]
      let st0 : St := { st with visited := i :: st.visited }
      have hi0 : Inv n st0.visited := by
        refine ⟨List.nodup_cons.2 ⟨hni, hi.1⟩, ?_⟩
        intro x hx
        rcases List.mem_cons.1 hx with rfl | hx
        · exact hlt
        · exact hi.2 x hx
      obtain ⟨st', e', p', hall, t'⟩ := visitList_post (succ := succ) (n := n) (fuel := fuel) (visit succ fuel) ih
        js st0 himp hi0 (by simp [st0]; omega)
      refine ⟨{ st' with order := st'.order ++ [i] }, ?_, ?_, ?_, ?_⟩
      · show (match visitList (visit succ fuel) js st0 with
              | none => none
              | some st' => some { st' with order := st'.order ++ [i] }) = _
        rw [e']
      · obtain ⟨new, eo, nd, m⟩ := p'.ord
        have hiv' : i ∈ st'.visited := p'.mono i (by simp [st0])
        refine ⟨p'.inv, fun x hx => p'.mono x (by simp [st0, hx]), ⟨new ++ [i], ?_, ?_, ?_⟩, ?_⟩
        · show st'.order ++ [i] = st.order ++ (new ++ [i])
          rw [eo, List.append_assoc]
        · rw [List.nodup_append]
          refine ⟨nd, by simp, ?_⟩
          intro x hx y hy hxy
          simp at hy
          subst hxy; subst hy
          exact ((m _).1 hx).2 (by simp [st0])
        · intro x
          simp only [List.mem_append, List.mem_singleton, m]
          constructor
          · rintro (⟨hv, hn⟩ | rfl)
            · exact ⟨hv, fun h => hn (by simp [st0, h])⟩
            · exact ⟨hiv', hni⟩
          · rintro ⟨hv, hn⟩
            by_cases hxi : x = i
            · exact Or.inr hxi
            · exact Or.inl ⟨hv, by simp [st0, hxi, hn]⟩
        · intro x hv hn j hj
          by_cases hxi : x = i
          · subst hxi
            obtain ⟨js', hs', hj'⟩ := hj
            rw [hsucc] at hs'
            cases hs'
            exact hall j hj'
          · exact p'.closed x hv (by simp [st0, hxi, hn]) j hj
      · exact p'.mono i (by simp [st0])
      · -- topological property
        intro hstk htopo
        have hstk0 : ∀ y ∈ st0.visited, y ∉ st0.order → ∀ j ∈ js, Reach succ y j := by
          intro y hy ho j hj
          have hedge : Edge succ i j := ⟨js, hsucc, hj⟩
          rcases List.mem_cons.1 hy with rfl | hy
          · exact .step (.refl _) hedge
          · exact .step (hstk y hy ho) hedge
        have htopo' : Topo succ st' := t' hstk0 htopo
        intro x hx y hxy
        have hx' : x ∈ st'.order ++ [i] := hx
        rcases List.mem_append.1 hx' with hx | hx
        · rcases htopo' x hx y hxy with hb | hr
          · exact Or.inl (hb.append [i])
          · exact Or.inr hr
        · simp at hx
          subst hx
          obtain ⟨js', hs', hj'⟩ := hxy
          rw [hsucc] at hs'
          cases hs'
          have hyv : y ∈ st'.visited := hall y hj'
          by_cases hyo : y ∈ st'.order
          · exact Or.inl ⟨st'.order, [], rfl, hyo⟩
          · right
            have := p'.stack y hyv hyo
            rcases List.mem_cons.1 this.1 with rfl | hy
            · exact .refl _
            · exact hstk y hy this.2

/-- the result of a whole run from a list of roots -/
theorem run_spec {succ : Nat → Option (List Nat)} {n : Nat} (hwf : WF succ n) (roots : List Nat)
    (hroots : ∀ r ∈ roots, r < n) :
    ∃ o, run succ n roots = some o ∧ o.Nodup ∧
      (∀ r ∈ roots, ∀ d, Reach succ r d → d ∈ o) ∧
      (∀ x ∈ o, ∀ y, Edge succ x y → Before o y x ∨ Reach succ y x) := by
  obtain ⟨st', e, p, hall, t⟩ := visitList_post (succ := succ) (n := n) (fuel := n + 1) (visit succ (n + 1))
    (visit_post hwf (n + 1)) roots ⟨[], []⟩ hroots ⟨List.nodup_nil, by simp⟩ (by simp)
  obtain ⟨new, eo, nd, m⟩ := p.ord
  simp only [List.nil_append] at eo
  refine ⟨st'.order, by simp [run, e], by rw [eo]; exact nd, ?_, ?_⟩
  · intro r hr d hd
    have hv : d ∈ st'.visited := by
      induction hd with
      | refl => exact hall r hr
      | step _ hj ih => exact p.closed _ ih (by simp) _ hj
    rw [eo]
    exact (m d).2 ⟨hv, by simp⟩
  · exact t (by simp) (by intro x hx; simp at hx)

/-- every finished node is reachable from one of the roots -/
theorem visit_sound {succ : Nat → Option (List Nat)} :
    ∀ (fuel i : Nat) (st st' : St), visit succ fuel i st = some st' →
      ∀ x ∈ st'.order, x ∈ st.order ∨ Reach succ i x := by
  intro fuel
  induction fuel with
  | zero => intro i st st' h; simp [visit] at h
  | succ fuel ih =>
    intro i st st' h
    unfold visit at h
    split at h
    · cases h; intro x hx; exact Or.inl hx
    · split at h
      · cases h
      · rename_i js hs
        split at h
        · cases h
        · rename_i st'' hl
          cases h
          have hlist : ∀ (js' : List Nat) (a b : St), (∀ j ∈ js', Edge succ i j) →
              visitList (visit succ fuel) js' a = some b →
              ∀ x ∈ b.order, x ∈ a.order ∨ Reach succ i x := by
            intro js'
            induction js' with
            | nil => intro a b _ h x hx; simp [visitList] at h; subst h; exact Or.inl hx
            | cons j js' ihl =>
              intro a b hed h x hx
              simp only [visitList] at h
              split at h
              · cases h
              · rename_i a' ha'
                rcases ihl a' b (fun k hk => hed k (by simp [hk])) h x hx with h1 | h1
                · rcases ih j a a' ha' x h1 with h2 | h2
                  · exact Or.inl h2
                  · exact Or.inr (Reach.head (hed j (by simp)) h2)
                · exact Or.inr h1
          intro x hx
          simp only [List.mem_append, List.mem_singleton] at hx
          rcases hx with hx | rfl
          · exact hlist js _ _ (fun j hj => ⟨js, hs, hj⟩) hl x hx
          · exact Or.inr (.refl _)

theorem run_sound {succ : Nat → Option (List Nat)} {n : Nat} (roots : List Nat) (o : List Nat)
    (h : run succ n roots = some o) : ∀ x ∈ o, ∃ r ∈ roots, Reach succ r x := by
  have hlist : ∀ (rs : List Nat) (a b : St), visitList (visit succ (n + 1)) rs a = some b →
      ∀ x ∈ b.order, x ∈ a.order ∨ ∃ r ∈ rs, Reach succ r x := by
    intro rs
    induction rs with
    | nil => intro a b h x hx; simp [visitList] at h; subst h; exact Or.inl hx
    | cons r rs ih =>
      intro a b h x hx
      simp only [visitList] at h
      split at h
      · cases h
      · rename_i a' ha'
        rcases ih a' b h x hx with h1 | ⟨r', hr', h1⟩
        · rcases visit_sound _ r a a' ha' x h1 with h2 | h2
          · exact Or.inl h2
          · exact Or.inr ⟨r, by simp, h2⟩
        · exact Or.inr ⟨r', by simp [hr'], h1⟩
  simp only [run, Option.map_eq_some_iff] at h
  obtain ⟨st, hst, rfl⟩ := h
  intro x hx
  rcases hlist roots _ _ hst x hx with h | h
  · simp at h
  · exact h

theorem visitList_append (k : Nat → St → Option St) (a b : List Nat) (g : St) :
    visitList k (a ++ b) g = (visitList k a g).bind (visitList k b) := by
  induction a generalizing g with
  | nil => simp [visitList]
  | cons x a ih =>
    simp only [List.cons_append, visitList]
    cases k x g with
    | none => simp
    | some g' => simp [ih]

/-- roots that are reachable from earlier roots change nothing -/
theorem run_extra_roots {succ : Nat → Option (List Nat)} {n : Nat} (hwf : WF succ n) (rs extra : List Nat)
    (hrs : ∀ r ∈ rs, r < n) (hex : ∀ x ∈ extra, ∃ r ∈ rs, Reach succ r x) :
    run succ n (rs ++ extra) = run succ n rs := by
  obtain ⟨st', e, p, hall, _⟩ := visitList_post (succ := succ) (n := n) (fuel := n + 1) (visit succ (n + 1))
    (visit_post hwf (n + 1)) rs ⟨[], []⟩ hrs ⟨List.nodup_nil, by simp⟩ (by simp)
  have hvis : ∀ x ∈ extra, x ∈ st'.visited := by
    intro x hx
    obtain ⟨r, hr, hreach⟩ := hex x hx
    clear hx
    induction hreach with
    | refl => exact hall r hr
    | step _ hj ih => exact p.closed _ ih (by simp) _ hj
  have hnoop : ∀ (xs : List Nat), (∀ x ∈ xs, x ∈ st'.visited) → visitList (visit succ (n + 1)) xs st' = some st' := by
    intro xs
    induction xs with
    | nil => intro _; rfl
    | cons x xs ih =>
      intro h
      have hx : st'.visited.contains x = true := by simpa using h x (by simp)
      simp only [visitList, visit, hx, if_true]
      exact ih (fun y hy => h y (by simp [hy]))
  simp only [run, visitList_append, e, Option.bind_some, hnoop extra hvis]

end EsbuildModel.Dfs
