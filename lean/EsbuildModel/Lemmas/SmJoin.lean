import EsbuildModel.Lemmas.Vlq
import EsbuildModel.Impl.SmJoin
import EsbuildModel.Spec.SourceMapV3
/-!
# Helper definitions and lemmas for `Props/C07Join.lean` — part 1

* `encEvs`: the *sequential reference encoder*: one `;` per line break, one `appendMappingToBuffer` per segment
  (this is what a single `ChunkBuilder` does once laziness and the cover-lines rule are taken away).
* `lower`: the line breaks and segments a `ChunkBuilder` is asked to record by a sequence of builder events.
* `Builder.run` = `encEvs ∘ lower` (bytes, end state, first-name offset).
* the Source Map v3 decoder of `Spec/SourceMapV3.lean` inverts `encEvs`.
-/
namespace EsbuildModel.SmJoin
open Vlq
open Spec.SourceMapV3 (Ev Orig Seg segsOf St)

/-! ## bytes written by `encodeVLQ` -/

theorem fromDigit_b64 : ∀ d, d < 64 → Spec.SourceMapV3.b64 (fromDigit Gen.base64 d) = some d := by decide

theorem fromDigit_not_sep : ∀ d, d < 64 →
    fromDigit Gen.base64 d ≠ 0 ∧ fromDigit Gen.base64 d ≠ 59 ∧ fromDigit Gen.base64 d ≠ 44 ∧
    fromDigit Gen.base64 d ≠ 34 := by decide

theorem encodeDigits_ne_nil (n : Nat) : encodeDigits n ≠ [] := by
  rw [encodeDigits]; split <;> simp

theorem enc_ne_nil (v : Int) : enc v ≠ [] := by
  unfold enc encodeBytes
  rw [encode_eq]
  simp [encodeDigits_ne_nil]

theorem enc_mem (v : Int) : ∀ b ∈ enc v, ∃ d, d < 64 ∧ b = fromDigit Gen.base64 d := by
  intro b hb
  unfold enc encodeBytes at hb
  rcases List.mem_map.1 hb with ⟨d, hd, rfl⟩
  exact ⟨d, encode_lt v d hd, rfl⟩

theorem enc_not_sep (v : Int) : ∀ b ∈ enc v, b ≠ 0 ∧ b ≠ 59 ∧ b ≠ 44 ∧ b ≠ 34 := by
  intro b hb
  rcases enc_mem v b hb with ⟨d, hd, rfl⟩
  exact fromDigit_not_sep d hd

/-- a byte after which `appendMappingToBuffer` writes no comma -/
def NoComma (last : Nat) : Prop := last = 0 ∨ last = 59 ∨ last = 34

instance (last : Nat) : Decidable (NoComma last) := by unfold NoComma; infer_instance

/-! ## last bytes -/

/-- last byte after writing `bs` when it was `last` before (`Joiner.AddBytes`) -/
def lastAfter (last : Nat) (bs : Bytes) : Nat :=
  match bs.getLast? with
  | some b => b
  | none => last

@[simp] theorem lastAfter_nil (l : Nat) : lastAfter l [] = l := rfl

theorem lastAfter_append (l : Nat) (a b : Bytes) : lastAfter l (a ++ b) = lastAfter (lastAfter l a) b := by
  unfold lastAfter
  rw [List.getLast?_append]
  cases b.getLast? <;> simp

theorem lastAfter_concat (l : Nat) (a : Bytes) (x : Nat) : lastAfter l (a ++ [x]) = x := by
  simp [lastAfter]

theorem lastAfter_mem (l : Nat) (bs : Bytes) (h : bs ≠ []) : lastAfter l bs ∈ bs := by
  unfold lastAfter
  cases hb : bs.getLast? with
  | none => simp [List.getLast?_eq_none_iff] at hb; exact absurd hb h
  | some b => exact List.mem_of_getLast? hb

theorem lastByteOf_eq (buf : Bytes) : lastByteOf buf = lastAfter 0 buf := rfl

theorem addBytes_eq (j : Joiner) (d : Bytes) : j.addBytes d = ⟨j.data ++ d, lastAfter j.lastByte d⟩ := by
  unfold Joiner.addBytes lastAfter
  cases d.getLast? <;> rfl

/-! ## `appendMappingToBuffer` appends -/

theorem amb_append (buf : Bytes) (last : Nat) (p c : State) (o : Bool) :
    appendMappingToBuffer buf last p c o =
      (buf ++ (appendMappingToBuffer [] last p c o).1,
       (appendMappingToBuffer [] last p c o).2.map (· + buf.length)) := by
  unfold appendMappingToBuffer
  by_cases h1 : last ≠ 0 ∧ last ≠ 59 ∧ last ≠ 34 <;> by_cases h2 : o = true <;> by_cases h3 : c.hasName = true <;>
    simp [h1, h2, h3, List.append_assoc] <;> omega

/-! ## the sequential reference encoder -/

/-- `currentState` of a segment: absolute column and (when present) original position -/
def curOf (prev : State) (col : Int) : Option Orig → State
  | none => { prev with genCol := col, hasName := false }
  | some o =>
    { genLine := prev.genLine, genCol := col, srcIdx := o.src, origLine := o.line, origCol := o.col,
      origName := (match o.name with | some n => n | none => 0), hasName := o.name.isSome }

/-- `prevState` after `appendMappingWithoutRemapping` -/
def nextOf (prev cur : State) : State :=
  if cur.hasName then cur else { cur with origName := prev.origName }

structure Enc where
  bytes : Bytes
  st : State
  last : Nat
  fno : Option Nat
deriving DecidableEq, Repr

def encOne (prev : State) (last : Nat) : Ev → Enc
  | .nl => ⟨[59], { prev with genLine := prev.genLine + 1, genCol := 0 }, 59, none⟩
  | .seg col orig =>
    let cur := curOf prev col orig
    let r := appendMappingToBuffer [] last prev cur orig.isNone
    ⟨r.1, nextOf prev cur, lastAfter last r.1, r.2⟩

def encEvs (prev : State) (last : Nat) : List Ev → Enc
  | [] => ⟨[], prev, last, none⟩
  | e :: es =>
    let r1 := encOne prev last e
    let r2 := encEvs r1.st r1.last es
    ⟨r1.bytes ++ r2.bytes, r2.st, r2.last,
      match r1.fno with
      | some k => some k
      | none => r2.fno.map (· + r1.bytes.length)⟩

theorem encEvs_append (p : State) (l : Nat) (a b : List Ev) :
    encEvs p l (a ++ b) =
      ⟨(encEvs p l a).bytes ++ (encEvs (encEvs p l a).st (encEvs p l a).last b).bytes,
       (encEvs (encEvs p l a).st (encEvs p l a).last b).st,
       (encEvs (encEvs p l a).st (encEvs p l a).last b).last,
        match (encEvs p l a).fno with
        | some k => some k
        | none => (encEvs (encEvs p l a).st (encEvs p l a).last b).fno.map (· + (encEvs p l a).bytes.length)⟩ := by
  induction a generalizing p l with
  | nil => simp [encEvs]
  | cons e es ih =>
    simp only [List.cons_append, encEvs, ih]
    cases h1 : (encOne p l e).fno <;> simp [List.append_assoc]
    cases h2 : (encEvs (encOne p l e).st (encOne p l e).last es).fno <;> simp
    cases h3 : (encEvs (encEvs (encOne p l e).st (encOne p l e).last es).st
      (encEvs (encOne p l e).st (encOne p l e).last es).last b).fno <;> simp
    omega

theorem encEvs_last (p : State) (l : Nat) (evs : List Ev) :
    (encEvs p l evs).last = lastAfter l (encEvs p l evs).bytes := by
  induction evs generalizing p l with
  | nil => rfl
  | cons e es ih =>
    simp only [encEvs]
    rw [ih, lastAfter_append]
    congr 1
    cases e with
    | nl => rfl
    | seg c o => rfl

/-! ## what a builder is asked to record -/

/-- the part of a builder's state that decides WHICH segments it records -/
structure LSt where
  gc : Int := 0
  lsm : Bool := false
  prevOrig : Option (Int × Int × Int) := none
deriving DecidableEq, Repr

/-- the cover-lines rule: a line that would not start with a mapping gets a copy of the previous mapping at
column 0 (before a line break always, before a mapping only if that mapping is not itself at column 0) -/
def coverEv (cover : Bool) (s : LSt) (needCol : Bool) : List Ev :=
  match s.prevOrig with
  | some (a, l, c) =>
    if cover && !s.lsm && (!needCol || decide (s.gc > 0)) then [Ev.seg 0 (some ⟨a, l, c, none⟩)] else []
  | none => []

def lowerStep (cover : Bool) (s : LSt) : BEv → List Ev × LSt
  | .newline => (coverEv cover s false ++ [Ev.nl], { s with gc := 0, lsm := false })
  | .cols k => ([], { s with gc := s.gc + k })
  | .map none => (coverEv cover s true, { s with lsm := true })
  | .map (some r) =>
    (coverEv cover s true ++ [Ev.seg s.gc (some ⟨r.src, r.line, r.col, r.name⟩)],
     { s with lsm := true, prevOrig := some (r.src, r.line, r.col) })

def lowerFrom (cover : Bool) (s : LSt) : List BEv → List Ev
  | [] => []
  | e :: es => (lowerStep cover s e).1 ++ lowerFrom cover (lowerStep cover s e).2 es

def lowerEnd (cover : Bool) (s : LSt) : List BEv → LSt
  | [] => s
  | e :: es => lowerEnd cover (lowerStep cover s e).2 es

/-- line breaks and segments recorded by a fresh builder -/
def lower (cover : Bool) (evs : List BEv) : List Ev := lowerFrom cover {} evs

/-! ## `Builder.run` is `encEvs ∘ lower` -/

def orElseFno (a : Option Nat) (b : Option Nat) (len : Nat) : Option Nat :=
  match a with
  | some k => some k
  | none => b.map (· + len)

/-- `b'` is `b` after recording `evs` -/
structure Ext (b b' : Builder) (evs : List Ev) : Prop where
  sm : b'.sourceMap = b.sourceMap ++ (encEvs b.prevState (lastByteOf b.sourceMap) evs).bytes
  st : b'.prevState = (encEvs b.prevState (lastByteOf b.sourceMap) evs).st
  fno : b'.firstNameOffset =
    orElseFno b.firstNameOffset (encEvs b.prevState (lastByteOf b.sourceMap) evs).fno b.sourceMap.length
  cover : b'.coverLinesWithoutMappings = b.coverLinesWithoutMappings

theorem Ext.refl (b : Builder) : Ext b b [] := by
  constructor <;> simp [encEvs, orElseFno]
  cases b.firstNameOffset <;> rfl

theorem Ext.trans {b b' b'' : Builder} {e1 e2 : List Ev} (h1 : Ext b b' e1) (h2 : Ext b' b'' e2) :
    Ext b b'' (e1 ++ e2) := by
  have hl : lastByteOf b'.sourceMap = (encEvs b.prevState (lastByteOf b.sourceMap) e1).last := by
    rw [h1.sm, lastByteOf_eq, lastAfter_append, encEvs_last, lastByteOf_eq]
  constructor
  · rw [h2.sm, hl, h1.st, h1.sm, encEvs_append]; simp [List.append_assoc]
  · rw [h2.st, hl, h1.st, encEvs_append]
  · rw [h2.fno, hl, h1.st, h1.fno, h1.sm, encEvs_append]
    simp only [orElseFno]
    cases b.firstNameOffset <;> simp
    cases (encEvs b.prevState (lastByteOf b.sourceMap) e1).fno <;> simp
    cases (encEvs (encEvs b.prevState (lastByteOf b.sourceMap) e1).st
      (encEvs b.prevState (lastByteOf b.sourceMap) e1).last e2).fno <;> simp
    omega
  · rw [h2.cover, h1.cover]

theorem Ext.of_eq {b b' b'' : Builder} {evs : List Ev} (h : Ext b b' evs)
    (h1 : b''.sourceMap = b'.sourceMap) (h2 : b''.prevState = b'.prevState)
    (h3 : b''.firstNameOffset = b'.firstNameOffset)
    (h4 : b''.coverLinesWithoutMappings = b'.coverLinesWithoutMappings) : Ext b b'' evs :=
  ⟨h1 ▸ h.sm, h2 ▸ h.st, h3 ▸ h.fno, h4 ▸ h.cover⟩

theorem ext_seg (b : Builder) (col : Int) (o : Orig) :
    Ext b (b.appendMappingWithoutRemapping (curOf b.prevState col (some o))) [Ev.seg col (some o)] := by
  constructor
  · simp only [Builder.appendMappingWithoutRemapping, encEvs, encOne, List.append_nil]
    rw [amb_append]; rfl
  · simp only [Builder.appendMappingWithoutRemapping, encEvs, encOne, nextOf]
  · simp only [Builder.appendMappingWithoutRemapping, encEvs, encOne, orElseFno]
    rw [amb_append]
    cases hh : (curOf b.prevState col (some o)).hasName <;> cases b.firstNameOffset <;>
      simp [appendMappingToBuffer, hh]
  · rfl

theorem ext_nl (b : Builder) :
    Ext b { b with
      prevState := { b.prevState with genLine := b.prevState.genLine + 1, genCol := 0 }
      generatedColumn := 0
      sourceMap := b.sourceMap ++ [59]
      lineStartsWithMapping := false } [Ev.nl] := by
  constructor <;> simp [encEvs, encOne, orElseFno]
  cases b.firstNameOffset <;> rfl

/-- the builder state and the abstract state agree -/
structure Rel (b : Builder) (s : LSt) : Prop where
  gc : b.generatedColumn = s.gc
  lsm : b.lineStartsWithMapping = s.lsm
  prev : match s.prevOrig with
    | none => b.hasPrevState = false
    | some (a, l, c) => b.hasPrevState = true ∧ b.prevState.srcIdx = a ∧ b.prevState.origLine = l ∧ b.prevState.origCol = c

theorem coverState_eq (b : Builder) :
    b.coverState = curOf b.prevState 0 (some ⟨b.prevState.srcIdx, b.prevState.origLine, b.prevState.origCol, none⟩) := rfl

/-- the optional cover mapping -/
theorem ext_cover (cover : Bool) (b : Builder) (s : LSt) (h : Rel b s) (needCol : Bool) :
    let b' := if cover && !s.lsm && (!needCol || decide (s.gc > 0)) && b.hasPrevState
      then b.appendMappingWithoutRemapping b.coverState else b
    Ext b b' (coverEv cover s needCol) ∧ Rel b' s := by
  intro b'
  have hp := h.prev
  unfold coverEv
  cases hs : s.prevOrig with
  | none =>
    rw [hs] at hp
    have : b' = b := by simp [b', hp]
    rw [this]; exact ⟨Ext.refl b, h⟩
  | some t =>
    obtain ⟨a, l, c⟩ := t
    rw [hs] at hp
    obtain ⟨h1, h2, h3, h4⟩ := hp
    by_cases hcond : (cover && !s.lsm && (!needCol || decide (s.gc > 0))) = true
    · have : b' = b.appendMappingWithoutRemapping b.coverState := by simp [b', hcond, h1]
      rw [this]
      simp only [hcond, ↓reduceIte]
      constructor
      · have := ext_seg b 0 ⟨a, l, c, none⟩
        rw [coverState_eq, h2, h3, h4]; exact this
      · constructor
        · exact h.gc
        · exact h.lsm
        · rw [hs]; simp [Builder.appendMappingWithoutRemapping, Builder.coverState, h2, h3, h4]
    · have : b' = b := by simp [b', hcond]
      rw [this]
      simp only [hcond]
      exact ⟨Ext.refl b, h⟩

theorem step_sim (cover : Bool) (b : Builder) (s : LSt) (h : Rel b s)
    (hc : b.coverLinesWithoutMappings = cover) (e : BEv) :
    Ext b (b.step e) (lowerStep cover s e).1 ∧ Rel (b.step e) (lowerStep cover s e).2 := by
  cases e with
  | newline =>
    have hcv := ext_cover cover b s h false
    simp only [Bool.not_false, Bool.true_or, Bool.and_true] at hcv
    simp only [Builder.step, lowerStep, hc, h.lsm]
    generalize (if (cover && !s.lsm && b.hasPrevState) = true then b.appendMappingWithoutRemapping b.coverState else b) = b1 at hcv ⊢
    obtain ⟨h1, h2⟩ := hcv
    refine ⟨h1.trans (ext_nl b1), ?_⟩
    constructor
    · rfl
    · rfl
    · have := h2.prev
      revert this
      cases s.prevOrig with
      | none => simp
      | some t => obtain ⟨a, l, c⟩ := t; simp
  | cols k =>
    simp only [Builder.step, lowerStep]
    refine ⟨(Ext.refl b).of_eq rfl rfl rfl rfl, ?_⟩
    constructor
    · simp [h.gc]
    · exact h.lsm
    · exact h.prev
  | map r =>
    have hcv := ext_cover cover b s h true
    simp only [Bool.not_true, Bool.false_or] at hcv
    cases r with
    | none =>
      simp only [Builder.step, lowerStep, hc, h.lsm, h.gc]
      generalize (if (cover && !s.lsm && decide (s.gc > 0) && b.hasPrevState) = true
        then b.appendMappingWithoutRemapping b.coverState else b) = b1 at hcv ⊢
      obtain ⟨h1, h2⟩ := hcv
      refine ⟨h1.of_eq rfl rfl rfl rfl, ?_⟩
      constructor
      · exact h2.gc
      · rfl
      · exact h2.prev
    | some r =>
      simp only [Builder.step, lowerStep, hc, h.lsm, h.gc]
      generalize (if (cover && !s.lsm && decide (s.gc > 0) && b.hasPrevState) = true
        then b.appendMappingWithoutRemapping b.coverState else b) = b1 at hcv ⊢
      obtain ⟨h1, h2⟩ := hcv
      have h3 := ext_seg b1 s.gc ⟨r.src, r.line, r.col, r.name⟩
      simp only [h2.gc]
      constructor
      · exact (h1.trans h3).of_eq rfl rfl rfl rfl
      · constructor
        · simp [Builder.appendMappingWithoutRemapping]; exact h2.gc
        · rfl
        · simp only [Builder.appendMappingWithoutRemapping]
          split <;> simp

theorem run_sim (cover : Bool) (b : Builder) (s : LSt) (h : Rel b s)
    (hc : b.coverLinesWithoutMappings = cover) (evs : List BEv) :
    Ext b (b.run evs) (lowerFrom cover s evs) ∧ Rel (b.run evs) (lowerEnd cover s evs) := by
  induction evs generalizing b s with
  | nil => exact ⟨Ext.refl b, h⟩
  | cons e es ih =>
    obtain ⟨h1, h2⟩ := step_sim cover b s h hc e
    obtain ⟨h3, h4⟩ := ih (b.step e) (lowerStep cover s e).2 h2 (h1.cover.trans hc)
    exact ⟨h1.trans h3, h4⟩

theorem rel_init (cover : Bool) : Rel { coverLinesWithoutMappings := cover } {} :=
  ⟨rfl, rfl, rfl⟩

/-- the chunk a `ChunkBuilder` returns, in terms of the sequential encoder -/
theorem buildChunk_eq (cover : Bool) (evs : List BEv) :
    buildChunk cover evs =
      { buffer := ⟨(encEvs {} 0 (lower cover evs)).bytes, (encEvs {} 0 (lower cover evs)).fno⟩
        endState := (encEvs {} 0 (lower cover evs)).st
        finalGeneratedColumn := (lowerEnd cover {} evs).gc
        shouldIgnore := (encEvs {} 0 (lower cover evs)).bytes.all (· == 59) } := by
  obtain ⟨h1, h2⟩ := run_sim cover { coverLinesWithoutMappings := cover } {} (rel_init cover) rfl evs
  have hsm := h1.sm
  have hst := h1.st
  have hfno := h1.fno
  simp only [List.nil_append, lastByteOf, List.getLast?_nil, orElseFno, List.length_nil, Nat.add_zero] at hsm hst hfno
  unfold buildChunk Builder.generateChunk lower
  rw [hsm, hst, hfno, h2.gc]
  simp

end EsbuildModel.SmJoin
