import EsbuildModel.Lemmas.LineOffsetRun
/-!
`GenerateLineOffsetTables` line by line: the text splits into lines (`Lines`), each line contributes exactly the
table `lineTableAt S 0 p na`, and the returned slice is the list of these tables.
-/
namespace EsbuildModel.LineOffset
open EsbuildModel.Spec.Unicode EsbuildModel.Spec.TextPosition

/-- the state at the start of a line (after a line break, and initially) -/
def Fresh (g : Gen) : Prop := g.cols = none ∧ g.first = 0 ∧ g.column = 0

/-- the last line: the code after the loop appends its table -/
theorem run_last_line (p : List Ch) (hv : Valid p) (hp : NoEnd p []) (g : Gen) (hf : Fresh g) (S : Nat) :
    finish (runC g S (crlfs p)) (S + bytes p) = g.tables ++ [lineTableAt S 0 p false] := by
  obtain ⟨g1, hrun, hpre⟩ := run_ascii p [] hv hp g S S 0 rfl hf.1 hf.2.1 hf.2.2 (fun h => absurd hf.2.2 h)
  rw [List.append_nil] at hrun
  rw [hrun]
  simp only [crlfs, runC]
  obtain ⟨h1, _, _, h4⟩ := hpre false
  unfold finish
  simp only
  rw [h1, h4]

/-- a line with its line end `t`: its table is appended and the next line starts fresh -/
theorem run_line (p : List Ch) (t : Ch) (rest : List Ch) (hv : Valid p) (hp : NoEnd p (t :: rest))
    (ht : ends t rest = true) (g : Gen) (hf : Fresh g) (S : Nat) :
    ∃ g', runC g S (crlfs (p ++ t :: rest)) = runC g' (S + bytes p + t.width) (crlfs rest) ∧ Fresh g' ∧
      g'.tables = g.tables ++ [lineTableAt S 0 p (decide (t.cp > 0x7F))] := by
  obtain ⟨g1, hrun, hpre⟩ := run_ascii p (t :: rest) hv hp g S S 0 rfl hf.1 hf.2.1 hf.2.2 (fun h => absurd hf.2.2 h)
  obtain ⟨h1, _, _, h4⟩ := hpre (decide (t.cp > 0x7F))
  refine ⟨step g1 (S + bytes p) t.cp (crlfFlag t rest), ?_, ?_, ?_⟩
  · rw [hrun, crlfs_cons]
    simp only [runC]
  · rw [step_end g1 (S + bytes p) t rest ht]
    exact ⟨rfl, rfl, rfl⟩
  · rw [step_end g1 (S + bytes p) t rest ht]
    simp only
    rw [h1, h4]

/-- a text is a last line, or a line, its line end and the rest -/
theorem line_split (chs : List Ch) :
    NoEnd chs [] ∨ ∃ p t rest, chs = p ++ t :: rest ∧ NoEnd p (t :: rest) ∧ ends t rest = true := by
  induction chs with
  | nil => left; trivial
  | cons c r ih =>
    by_cases he : ends c r = true
    · right; exact ⟨[], c, r, rfl, trivial, he⟩
    · have he' : ends c r = false := by simpa using he
      rcases ih with h | ⟨p, t, rest, e, hp, ht⟩
      · left; exact ⟨by rw [List.append_nil]; exact he', h⟩
      · right
        refine ⟨c :: p, t, rest, by rw [e]; rfl, ⟨?_, hp⟩, ht⟩
        rw [← e]; exact he'

/-- `Lines S chs ts`: `ts` are the tables of the lines of `chs`, the text starting at byte offset `S` -/
inductive Lines : Nat → List Ch → List Table → Prop
  | last (S : Nat) (p : List Ch) : NoEnd p [] → Lines S p [lineTableAt S 0 p false]
  | more (S : Nat) (p : List Ch) (t : Ch) (rest : List Ch) (ts : List Table) :
      NoEnd p (t :: rest) → ends t rest = true → Lines (S + bytes p + t.width) rest ts →
      Lines S (p ++ t :: rest) (lineTableAt S 0 p (decide (t.cp > 0x7F)) :: ts)

theorem lines_exist_aux (n : Nat) : ∀ (chs : List Ch) (S : Nat), chs.length = n → ∃ ts, Lines S chs ts := by
  induction n using Nat.strongRecOn with
  | _ n ih =>
    intro chs S hn
    rcases line_split chs with h | ⟨p, t, rest, e, hp, ht⟩
    · exact ⟨_, Lines.last S chs h⟩
    · have hlt : rest.length < n := by subst hn; rw [e]; simp; omega
      obtain ⟨ts, hts⟩ := ih _ hlt rest (S + bytes p + t.width) rfl
      exact ⟨_, e ▸ Lines.more S p t rest ts hp ht hts⟩

theorem lines_exist (chs : List Ch) (S : Nat) : ∃ ts, Lines S chs ts := lines_exist_aux _ chs S rfl

/-- the loop and the code after it produce the tables of the lines -/
theorem finish_run_lines {S : Nat} {chs : List Ch} {ts : List Table} (h : Lines S chs ts) (hv : Valid chs) :
    ∀ g, Fresh g → finish (runC g S (crlfs chs)) (S + bytes chs) = g.tables ++ ts := by
  induction h with
  | last S p hp => intro g hf; exact run_last_line p hv hp g hf S
  | more S p t rest ts hp ht _ ih =>
    intro g hf
    obtain ⟨g', hrun, hf', htab⟩ := run_line p t rest hv.append_left hp ht g hf S
    rw [hrun]
    have e : S + bytes (p ++ t :: rest) = S + bytes p + t.width + bytes rest := by
      rw [bytes_append, bytes_cons]; omega
    rw [e, ih hv.append_right.tail g' hf', htab]
    simp

/-- `GenerateLineOffsetTables` returns the tables of the lines of the decoded text -/
theorem tablesOf_lines (bs : List Nat) (ts : List Table) (h : Lines 0 (decode bs) ts) : tablesOf bs = ts := by
  unfold tablesOf
  rw [run_eq_runC, goRange_eq_decode]
  have := finish_run_lines h (decode_valid bs) {} ⟨rfl, rfl, rfl⟩
  rw [decode_bytes, Nat.zero_add] at this
  rw [this]; rfl

end EsbuildModel.LineOffset
