import EsbuildModel.Lemmas.LineOffsetIndex
/-!
The generated position: `AdvanceString` / `AdvanceBytes` and the scan of `updateGeneratedLineAndColumn`
reach the specified end position of the scanned text, placed at the current position.
-/
namespace EsbuildModel.LineOffset
open EsbuildModel.Spec.Unicode EsbuildModel.Spec.TextPosition

/-- character-level `advance` -/
def advC (o : LC) (items : List (Ch × Bool)) : LC := items.foldl (fun o x => advStep o x.1.cp x.2) o
/-- character-level scan of `updateGeneratedLineAndColumn` -/
def updC (o : LC) (items : List (Ch × Bool)) : LC := items.foldl (fun o x => updStep o x.1.cp x.2) o

theorem advance_eq_advC (o : LC) (text : List Nat) : advance o text = advC o (crlfs (decode text)) := by
  unfold advance advC
  rw [← goRange_eq_decode, List.foldl_map]

theorem updFold_eq_updC (o : LC) (text : List Nat) :
    (goRange text).foldl (fun o it => updStep o it.c (crBeforeLf it)) o = updC o (crlfs (decode text)) := by
  unfold updC
  rw [← goRange_eq_decode, List.foldl_map]

theorem advC_cons (o : LC) (c : Ch) (r : List Ch) :
    advC o (crlfs (c :: r)) = advC (advStep o c.cp (crlfFlag c r)) (crlfs r) := rfl
theorem updC_cons (o : LC) (c : Ch) (r : List Ch) :
    updC o (crlfs (c :: r)) = updC (updStep o c.cp (crlfFlag c r)) (crlfs r) := rfl

theorem advStep_noEnd (o : LC) (c : Ch) (rest : List Ch) (h : ends c rest = false) :
    advStep o c.cp (crlfFlag c rest) = ⟨o.lines, o.cols + colWidth c.cp⟩ := by
  rw [ends_eq] at h
  unfold advStep
  cases ht : isTerm c.cp
  · simp
  · rw [ht] at h
    simp only [Bool.true_and, Bool.not_eq_false'] at h
    have : c.cp = 13 := by
      unfold crlfFlag at h
      simp only [Bool.and_eq_true, beq_iff_eq] at h
      exact h.1
    simp only [h, if_true, this]
    rfl

theorem advStep_end (o : LC) (c : Ch) (rest : List Ch) (h : ends c rest = true) :
    advStep o c.cp (crlfFlag c rest) = ⟨o.lines + 1, 0⟩ := by
  rw [ends_eq] at h
  simp only [Bool.and_eq_true, Bool.not_eq_true'] at h
  unfold advStep
  simp [h.1, h.2]

theorem updStep_end (o : LC) (c : Ch) (rest : List Ch) (h : ends c rest = true) :
    updStep o c.cp (crlfFlag c rest) = ⟨o.lines + 1, 0⟩ := by
  rw [ends_eq] at h
  simp only [Bool.and_eq_true, Bool.not_eq_true'] at h
  unfold updStep
  simp [h.1, h.2]

/-- a character that does not end the line leaves the line number alone -/
theorem updStep_noEnd_lines (o : LC) (c : Ch) (rest : List Ch) (h : ends c rest = false) :
    (updStep o c.cp (crlfFlag c rest)).lines = o.lines := by
  rw [ends_eq] at h
  unfold updStep
  cases ht : isTerm c.cp
  · simp
  · rw [ht] at h
    simp only [Bool.true_and, Bool.not_eq_false'] at h
    simp [h]

theorem advC_noEnd (p tail : List Ch) (h : NoEnd p tail) (o : LC) :
    advC o (crlfs (p ++ tail)) = advC ⟨o.lines, o.cols + unitsOf p⟩ (crlfs tail) := by
  induction p generalizing o with
  | nil => simp
  | cons c r ih =>
    obtain ⟨he, hr⟩ := h
    rw [List.cons_append, advC_cons, advStep_noEnd o c _ he, ih hr]
    simp only [unitsOf_cons, Nat.add_assoc]

theorem updC_noEnd (p tail : List Ch) (h : NoEnd p tail) (o : LC) :
    ∃ c', updC o (crlfs (p ++ tail)) = updC ⟨o.lines, c'⟩ (crlfs tail) := by
  induction p generalizing o with
  | nil => exact ⟨o.cols, rfl⟩
  | cons c r ih =>
    obtain ⟨he, hr⟩ := h
    rw [List.cons_append, updC_cons]
    obtain ⟨c', hc'⟩ := ih hr (updStep o c.cp (crlfFlag c (r ++ tail)))
    rw [updStep_noEnd_lines o c _ he] at hc'
    exact ⟨c', hc'⟩

/-- in a last line nothing is a CR in front of an LF, so the scan counts every character -/
theorem updC_last (p : List Ch) (h : NoEnd p []) (o : LC) :
    updC o (crlfs p) = ⟨o.lines, o.cols + unitsOf p⟩ := by
  induction p generalizing o with
  | nil => rfl
  | cons c r ih =>
    obtain ⟨he, hr⟩ := h
    rw [List.append_nil] at he
    have hflag : crlfFlag c r = false := by
      cases hf : crlfFlag c r
      · rfl
      · exfalso
        unfold crlfFlag nextCp at hf
        simp only [Bool.and_eq_true, beq_iff_eq] at hf
        cases r with
        | nil => simp at hf
        | cons x r' =>
          simp only [List.head?_cons, Option.map_some, Option.some.injEq] at hf
          obtain ⟨hx, _⟩ := hr
          unfold ends endsLine at hx
          simp [hf.2] at hx
    have hterm : isTerm c.cp = false := by
      rw [ends_eq, hflag] at he
      simpa using he
    rw [updC_cons, hflag]
    have : updStep o c.cp false = ⟨o.lines, o.cols + colWidth c.cp⟩ := by
      unfold updStep; simp [hterm]
    rw [this, ih hr]
    simp only [unitsOf_cons, Nat.add_assoc]

theorem pos_end_last (p : List Ch) (h : NoEnd p []) : pos p p.length = ⟨0, unitsOf p⟩ := by
  have := pos_first_line p [] h p.length (Nat.le_refl _)
  rw [List.append_nil, List.take_length] at this
  exact this

theorem pos_end_more (p : List Ch) (t : Ch) (rest : List Ch) (h : NoEnd p (t :: rest)) (ht : ends t rest = true) :
    pos (p ++ t :: rest) (p ++ t :: rest).length = ⟨(pos rest rest.length).line + 1, (pos rest rest.length).col⟩ := by
  have := pos_later p t rest h ht (p ++ t :: rest).length (by simp)
  have e : (p ++ t :: rest).length - (p.length + 1) = rest.length := by simp; omega
  rw [e] at this
  exact this

/-- LC and Pos are the same pairs -/
def LC.toPos (o : LC) : Pos := ⟨o.lines, o.cols⟩

theorem advC_spec_aux (n : Nat) : ∀ (chs : List Ch) (o : LC), chs.length = n →
    (advC o (crlfs chs)).toPos = Pos.offsetBy o.toPos (pos chs chs.length) ∧
    updC o (crlfs chs) = advC o (crlfs chs) := by
  induction n using Nat.strongRecOn with
  | _ n ih =>
    intro chs o hn
    rcases line_split chs with h | ⟨p, t, rest, e, hp, ht⟩
    · have h1 := advC_noEnd chs [] h o
      rw [List.append_nil] at h1
      rw [h1, pos_end_last chs h, updC_last chs h]
      exact ⟨by simp [advC, crlfs, LC.toPos, Pos.offsetBy], by simp [advC, crlfs]⟩
    · subst e
      have hlt : rest.length < n := by subst hn; simp; omega
      obtain ⟨c', hc'⟩ := updC_noEnd p (t :: rest) hp o
      rw [advC_noEnd p (t :: rest) hp o, hc', advC_cons, updC_cons, advStep_end _ t rest ht, updStep_end _ t rest ht]
      obtain ⟨ih1, ih2⟩ := ih _ hlt rest ⟨o.lines + 1, 0⟩ rfl
      refine ⟨?_, ih2⟩
      rw [ih1, pos_end_more p t rest hp ht]
      unfold Pos.offsetBy LC.toPos
      simp only [Nat.add_one_ne_zero, if_false]
      split
      · next h0 => simp [h0]
      · simp only [Pos.mk.injEq, and_true]; omega

/-- `AdvanceString` / `AdvanceBytes` move to the specified end position of the text, placed at `o` -/
theorem advance_spec (o : LC) (text : List Nat) :
    (advance o text).toPos = Pos.offsetBy o.toPos (endPosition text) := by
  rw [advance_eq_advC]
  have := (advC_spec_aux _ (decode text) o rfl).1
  rw [this]
  rfl

/-- the scan of `updateGeneratedLineAndColumn` computes the same position as `AdvanceString` -/
theorem updFold_eq_advance (o : LC) (text : List Nat) :
    (goRange text).foldl (fun o it => updStep o it.c (crBeforeLf it)) o = advance o text := by
  rw [updFold_eq_updC, advance_eq_advC]
  exact (advC_spec_aux _ (decode text) o rfl).2

end EsbuildModel.LineOffset
