import EsbuildModel.Lemmas.GoSort
/-!
`sort.Stable` (model `Impl/GoSort.lean`), part 2a: arrays seen as functions `Nat → α` (`view`), the effect of the
elementary loops (`swapRange`, `rotate`, the two insertion loops of `symMerge`) as index transformations, and
`insertionSort`.
-/
namespace EsbuildModel.GoSort
set_option linter.unusedSectionVars false
variable {α : Type} [Inhabited α]

/-- the array as a total function (indices outside the array read `default`; nothing below depends on them) -/
def view (d : Array α) : Nat → α := fun k => d.getD k default

/-- `Swap(i, j)` on functions -/
def swapF (f : Nat → α) (i j : Nat) : Nat → α := fun k => if k = i then f j else if k = j then f i else f k

theorem swap?_view (d : Array α) (i j : Nat) (hi : i < d.size) (hj : j < d.size) :
    ∃ d', swap? d i j = some d' ∧ d'.size = d.size ∧ view d' = swapF (view d) i j := by
  refine ⟨d.swap i j hi hj, by simp [swap?, hi, hj], by simp, ?_⟩
  funext k
  simp only [view, swapF, Array.getD_eq_getD_getElem?, Array.getElem?_swap]
  by_cases h1 : k = i
  · subst h1
    by_cases h2 : j = k
    · subst h2; simp [Array.getElem?_eq_getElem hj]
    · simp [h2, Array.getElem?_eq_getElem hj]
  · by_cases h2 : k = j
    · subst h2; simp [h1, Array.getElem?_eq_getElem hi]
    · have h1' : ¬ i = k := fun h => h1 h.symm
      have h2' : ¬ j = k := fun h => h2 h.symm
      simp [h1, h2, h1', h2']

theorem less?_view (lt : α → α → Bool) (d : Array α) (i j : Nat) (hi : i < d.size) (hj : j < d.size) :
    less? lt d i j = some (lt (view d i) (view d j)) := by
  simp [less?, view, Array.getElem?_eq_getElem hi, Array.getElem?_eq_getElem hj]

/-! ### order vocabulary -/

/-- what is assumed of `Less`: any two elements are comparable one way or the other, and it is transitive
(a reflexive total preorder such as `<=` on a key; NOT the strict weak order `sort` asks for) -/
structure TotalPreorder (lt : α → α → Bool) : Prop where
  total : ∀ a b, lt a b = true ∨ lt b a = true
  trans : ∀ a b c, lt a b = true → lt b c = true → lt a c = true

theorem TotalPreorder.refl {lt : α → α → Bool} (h : TotalPreorder lt) (a : α) : lt a a = true := by
  rcases h.total a a with h | h <;> exact h

theorem TotalPreorder.of_not {lt : α → α → Bool} (h : TotalPreorder lt) {a b : α} (hn : lt a b = false) : lt b a = true := by
  rcases h.total a b with h' | h'
  · rw [h'] at hn; cases hn
  · exact h'

def SortedOn (lt : α → α → Bool) (f : Nat → α) (a b : Nat) : Prop :=
  ∀ i j, a ≤ i → i ≤ j → j < b → lt (f i) (f j) = true

/-- `g` agrees with `f` outside `[a, b)` -/
def EqOut (f g : Nat → α) (a b : Nat) : Prop := ∀ k, (k < a ∨ b ≤ k) → g k = f k

/-- every element of `g` in `[a, b)` is an element of `f` in `[a, b)` -/
def Sub (f g : Nat → α) (a b : Nat) : Prop := ∀ k, a ≤ k → k < b → ∃ k', a ≤ k' ∧ k' < b ∧ g k = f k'

theorem EqOut.refl (f : Nat → α) (a b : Nat) : EqOut f f a b := fun _ _ => rfl
theorem Sub.refl (f : Nat → α) (a b : Nat) : Sub f f a b := fun k h1 h2 => ⟨k, h1, h2, rfl⟩

theorem EqOut.trans {f g h : Nat → α} {a b : Nat} (h1 : EqOut f g a b) (h2 : EqOut g h a b) : EqOut f h a b :=
  fun k hk => (h2 k hk).trans (h1 k hk)

theorem EqOut.widen {f g : Nat → α} {a b a' b' : Nat} (h : EqOut f g a b) (ha : a' ≤ a) (hb : b ≤ b') :
    EqOut f g a' b' := fun k hk => h k (by omega)

theorem Sub.trans {f g h : Nat → α} {a b : Nat} (h1 : Sub f g a b) (h2 : Sub g h a b) : Sub f h a b := by
  intro k hk1 hk2
  obtain ⟨k', a1, a2, e1⟩ := h2 k hk1 hk2
  obtain ⟨k'', b1, b2, e2⟩ := h1 k' a1 a2
  exact ⟨k'', b1, b2, e1.trans e2⟩

/-- a change confined to `[a, b)` that maps it into itself also maps every larger interval into itself -/
theorem Sub.widen {f g : Nat → α} {a b a' b' : Nat} (h : Sub f g a b) (he : EqOut f g a b) (ha : a' ≤ a) (hb : b ≤ b') :
    Sub f g a' b' := by
  intro k hk1 hk2
  by_cases hin : a ≤ k ∧ k < b
  · obtain ⟨k', c1, c2, e⟩ := h k hin.1 hin.2
    exact ⟨k', by omega, by omega, e⟩
  · exact ⟨k, hk1, hk2, he k (by omega)⟩

theorem SortedOn.congr {lt : α → α → Bool} {f g : Nat → α} {a b : Nat} (h : SortedOn lt f a b)
    (he : ∀ k, a ≤ k → k < b → g k = f k) : SortedOn lt g a b := by
  intro i j h1 h2 h3
  rw [he i h1 (by omega), he j (by omega) h3]
  exact h i j h1 h2 h3

theorem SortedOn.mono {lt : α → α → Bool} {f : Nat → α} {a b a' b' : Nat} (h : SortedOn lt f a b) (ha : a ≤ a')
    (hb : b' ≤ b) : SortedOn lt f a' b' := fun i j h1 h2 h3 => h i j (by omega) h2 (by omega)

/-! ### `insertionSort` -/

theorem insInner_sorted (lt : α → α → Bool) (hlt : TotalPreorder lt) (a i : Nat) : ∀ (j : Nat) (d : Array α),
    a ≤ j → j ≤ i → i < d.size → SortedOn lt (view d) a j → SortedOn lt (view d) j (i + 1) →
    (∀ p q, a ≤ p → p < j → j < q → q ≤ i → lt (view d p) (view d q) = true) →
    ∃ d', insInner lt a j d = some d' ∧ d'.size = d.size ∧ SortedOn lt (view d') a (i + 1) ∧
      EqOut (view d) (view d') a (i + 1) := by
  intro j
  induction j with
  | zero =>
    intro d ha _ _ _ s2 _
    have : a = 0 := by omega
    subst this
    exact ⟨d, by simp [insInner], rfl, s2, EqOut.refl _ _ _⟩
  | succ j ih =>
    intro d ha hji hi s1 s2 hc
    unfold insInner
    by_cases hgt : j + 1 > a
    · simp only [hgt, if_true]
      rw [less?_view lt d (j + 1) j (by omega) (by omega)]
      cases hless : lt (view d (j + 1)) (view d j) with
      | false =>
        refine ⟨d, rfl, rfl, ?_, EqOut.refl _ _ _⟩
        have hle : lt (view d j) (view d (j + 1)) = true := hlt.of_not hless
        intro p q h1 h2 h3
        by_cases hq : q < j + 1
        · exact s1 p q h1 h2 hq
        · by_cases hp : j + 1 ≤ p
          · exact s2 p q hp h2 h3
          · by_cases hq1 : q = j + 1
            · subst hq1
              exact hlt.trans _ _ _ (s1 p j h1 (by omega) (by omega)) hle
            · exact hc p q h1 (by omega) (by omega) (by omega)
      | true =>
        obtain ⟨d1, h1, hs1, hv1⟩ := swap?_view d (j + 1) j (by omega) (by omega)
        simp only [h1]
        have hf : ∀ k, view d1 k = if k = j + 1 then view d j else if k = j then view d (j + 1) else view d k := by
          intro k; rw [hv1]; rfl
        have s1' : SortedOn lt (view d1) a j := by
          -- sorted below j: untouched
          intro p q g1 g2 g3
          rw [hf p, hf q]
          have : p ≠ j + 1 := by omega
          have : p ≠ j := by omega
          have : q ≠ j + 1 := by omega
          have : q ≠ j := by omega
          simp only [*, if_false]
          exact s1 p q g1 g2 (by omega)
        have s2' : SortedOn lt (view d1) j (i + 1) := by
          -- sorted from j on
          intro p q g1 g2 g3
          rw [hf p, hf q]
          by_cases e1 : p = j
          · subst e1
            by_cases e2 : q = p
            · subst e2; simp; exact hlt.refl _
            · by_cases e3 : q = p + 1
              · subst e3; simp; exact hless
              · have : p ≠ p + 1 := by omega
                simp only [*, if_false, if_true]
                exact s2 (p + 1) q (by omega) (by omega) g3
          · by_cases e2 : p = j + 1
            · subst e2
              by_cases e3 : q = j + 1
              · subst e3; simp; exact hlt.refl _
              · have : q ≠ j := by omega
                have : j + 1 ≠ j := by omega
                simp only [*, if_false, if_true]
                exact hc j q (by omega) (by omega) (by omega) (by omega)
            · have : q ≠ j + 1 := by omega
              have : q ≠ j := by omega
              simp only [*, if_false]
              exact s2 p q (by omega) g2 g3
        have hc' : ∀ p q, a ≤ p → p < j → j < q → q ≤ i → lt (view d1 p) (view d1 q) = true := by
          -- everything below j is at most everything above j
          intro p q g1 g2 g3 g4
          rw [hf p, hf q]
          have : p ≠ j + 1 := by omega
          have : p ≠ j := by omega
          have : q ≠ j := by omega
          by_cases e : q = j + 1
          · subst e
            simp only [*, if_false, if_true]
            exact s1 p j g1 (by omega) (by omega)
          · simp only [*, if_false]
            exact hc p q g1 (by omega) (by omega) g4
        obtain ⟨d', hd', hs', hsorted, heq⟩ := ih d1 (by omega) (by omega) (by omega) s1' s2' hc'
        refine ⟨d', hd', by omega, hsorted, ?_⟩
        intro k hk
        rw [heq k hk, hf k]
        have : k ≠ j + 1 := by omega
        have : k ≠ j := by omega
        simp [*]
    · simp only [hgt, if_false]
      have : j + 1 = a := by omega
      subst this
      exact ⟨d, rfl, rfl, s2, EqOut.refl _ _ _⟩

theorem insLoop_sorted (lt : α → α → Bool) (hlt : TotalPreorder lt) (a : Nat) : ∀ (cnt i : Nat) (d : Array α),
    a ≤ i → i + cnt ≤ d.size → (cnt = 0 ∨ a < i) → SortedOn lt (view d) a i →
    ∃ d', insLoop lt a i cnt d = some d' ∧ d'.size = d.size ∧ SortedOn lt (view d') a (i + cnt) ∧
      EqOut (view d) (view d') a (i + cnt) := by
  intro cnt
  induction cnt with
  | zero => intro i d _ _ _ s; exact ⟨d, rfl, rfl, s, EqOut.refl _ _ _⟩
  | succ cnt ih =>
    intro i d hai hsz hpos s
    unfold insLoop
    obtain ⟨d1, h1, hs1, hsorted1, heq1⟩ := insInner_sorted lt hlt a i i d hai (Nat.le_refl _) (by omega) s
      (fun p q g1 g2 g3 => by
        have : p = q := by omega
        subst this; exact hlt.refl _)
      (fun p q _ _ g3 g4 => by omega)
    simp only [h1]
    obtain ⟨d', h2, hs2, hsorted2, heq2⟩ := ih (i + 1) d1 (by omega) (by omega) (Or.inr (by omega)) hsorted1
    refine ⟨d', h2, by omega, by rw [show i + (cnt + 1) = i + 1 + cnt by omega]; exact hsorted2, ?_⟩
    rw [show i + (cnt + 1) = i + 1 + cnt by omega]
    exact (heq1.widen (Nat.le_refl _) (by omega)).trans heq2

/-- `insertionSort(data, a, b)` sorts `data[a:b]` and touches nothing else -/
theorem insertionSort_sorted (lt : α → α → Bool) (hlt : TotalPreorder lt) (d : Array α) (a b : Nat) (hab : a ≤ b)
    (hb : b ≤ d.size) :
    ∃ d', insertionSort lt d a b = some d' ∧ d'.size = d.size ∧ SortedOn lt (view d') a b ∧
      EqOut (view d) (view d') a b := by
  unfold insertionSort
  by_cases h : a = b
  · subst h
    have : a - (a + 1) = 0 := by omega
    rw [this]
    exact ⟨d, rfl, rfl, fun i j h1 h2 h3 => by omega, EqOut.refl _ _ _⟩
  · obtain ⟨d', h1, h2, h3, h4⟩ := insLoop_sorted lt hlt a (b - (a + 1)) (a + 1) d (by omega) (by omega) (Or.inr (by omega))
      (fun i j g1 g2 g3 => by
        have : i = j := by omega
        subst this; exact hlt.refl _)
    have e : a + 1 + (b - (a + 1)) = b := by omega
    rw [e] at h3 h4
    exact ⟨d', h1, h2, h3, h4⟩

end EsbuildModel.GoSort
