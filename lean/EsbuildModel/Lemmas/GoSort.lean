import EsbuildModel.Impl.GoSort
/-!
`sort.Stable` (model `Impl/GoSort.lean`), part 1: for ANY `lt` — strict, reflexive, inconsistent — no index leaves
the array, no subtraction goes negative, every loop ends, and the result is a permutation of the input.
Only index arithmetic is needed: the comparison results merely select among in-range indices.
-/
namespace EsbuildModel.GoSort
open Array
variable {α : Type}

/-- `r` is a result, and it is a permutation of `d` -/
def Ok (d : Array α) (r : Option (Array α)) : Prop := ∃ d', r = some d' ∧ d' ~ d

theorem Ok.size {d d' : Array α} (h : d' ~ d) : d'.size = d.size := h.size_eq

theorem Ok.refl (d : Array α) : Ok d (some d) := ⟨d, rfl, .rfl⟩

/-- chaining: `d1 ~ d` and the rest is Ok for `d1` -/
theorem Ok.trans {d d1 : Array α} {r : Option (Array α)} (h1 : d1 ~ d) (h2 : Ok d1 r) : Ok d r := by
  obtain ⟨d', hr, hp⟩ := h2
  exact ⟨d', hr, hp.trans h1⟩

theorem swap?_ok (d : Array α) (i j : Nat) (hi : i < d.size) (hj : j < d.size) : Ok d (swap? d i j) := by
  unfold swap?
  simp only [hi, hj, and_self, dite_true]
  exact ⟨_, rfl, swap_perm hi hj⟩

theorem less?_some (lt : α → α → Bool) (d : Array α) (i j : Nat) (hi : i < d.size) (hj : j < d.size) :
    ∃ b, less? lt d i j = some b := by
  unfold less?
  simp [getElem?_eq_getElem hi, getElem?_eq_getElem hj]

theorem sub?_some (x y : Nat) (h : y ≤ x) : sub? x y = some (x - y) := by
  unfold sub?; simp [h]

theorem insInner_ok (lt : α → α → Bool) (a : Nat) : ∀ (j : Nat) (d : Array α), j < d.size → Ok d (insInner lt a j d) := by
  intro j
  induction j with
  | zero => intro d _; exact Ok.refl d
  | succ j ih =>
    intro d hj
    unfold insInner
    split
    · obtain ⟨b, hb⟩ := less?_some lt d (j + 1) j hj (by omega)
      rw [hb]
      cases b with
      | false => exact Ok.refl d
      | true =>
        obtain ⟨d1, h1, hp⟩ := swap?_ok d (j + 1) j hj (by omega)
        simp only [h1]
        exact Ok.trans hp (ih d1 (by rw [hp.size_eq]; omega))
    · exact Ok.refl d

theorem insLoop_ok (lt : α → α → Bool) (a : Nat) : ∀ (cnt i : Nat) (d : Array α), (cnt = 0 ∨ i + cnt ≤ d.size) →
    Ok d (insLoop lt a i cnt d) := by
  intro cnt
  induction cnt with
  | zero => intro i d _; exact Ok.refl d
  | succ cnt ih =>
    intro i d h
    unfold insLoop
    obtain ⟨d1, h1, hp⟩ := insInner_ok lt a i d (by omega)
    simp only [h1]
    exact Ok.trans hp (ih (i + 1) d1 (by rw [hp.size_eq]; omega))

theorem insertionSort_ok (lt : α → α → Bool) (d : Array α) (a b : Nat) (hb : b ≤ d.size) :
    Ok d (insertionSort lt d a b) := by
  unfold insertionSort
  apply insLoop_ok
  omega

theorem swapRange_ok (a b : Nat) : ∀ (cnt i : Nat) (d : Array α), a + i + cnt ≤ d.size → b + i + cnt ≤ d.size →
    Ok d (swapRange d a b i cnt) := by
  intro cnt
  induction cnt with
  | zero => intro i d _ _; exact Ok.refl d
  | succ cnt ih =>
    intro i d ha hb
    unfold swapRange
    obtain ⟨d1, h1, hp⟩ := swap?_ok d (a + i) (b + i) (by omega) (by omega)
    simp only [h1]
    exact Ok.trans hp (ih (i + 1) d1 (by rw [hp.size_eq]; omega) (by rw [hp.size_eq]; omega))

theorem rotateLoop_ok (m : Nat) : ∀ (fuel i j : Nat) (d : Array α), 1 ≤ i → 1 ≤ j → i ≤ m → m + j ≤ d.size →
    i + j ≤ fuel → Ok d (rotateLoop m fuel i j d) := by
  intro fuel
  induction fuel with
  | zero => intro i j d hi hj _ _ h; omega
  | succ fuel ih =>
    intro i j d hi hj him hmj hf
    unfold rotateLoop
    split
    · split
      · rw [sub?_some m i him]
        obtain ⟨d1, h1, hp⟩ := swapRange_ok (m - i) m j 0 d (by omega) (by omega)
        simp only [h1]
        exact Ok.trans hp (ih (i - j) j d1 (by omega) hj (by omega) (by rw [hp.size_eq]; omega) (by omega))
      · rw [sub?_some m i him, sub?_some (m + j) i (by omega)]
        obtain ⟨d1, h1, hp⟩ := swapRange_ok (m - i) (m + j - i) i 0 d (by omega) (by omega)
        simp only [h1]
        exact Ok.trans hp (ih i (j - i) d1 hi (by omega) him (by rw [hp.size_eq]; omega) (by omega))
    · rw [sub?_some m i him]
      exact swapRange_ok (m - i) m i 0 d (by omega) (by omega)

theorem rotate_ok (d : Array α) (a m b : Nat) (ham : a < m) (hmb : m < b) (hb : b ≤ d.size) :
    Ok d (rotate d a m b) := by
  unfold rotate
  rw [sub?_some m a (by omega), sub?_some b m (by omega)]
  exact rotateLoop_ok m _ _ _ d (by omega) (by omega) (by omega) (by omega) (by omega)

theorem searchA_some (lt : α → α → Bool) (d : Array α) (a : Nat) (ha : a < d.size) : ∀ (fuel i j : Nat),
    j ≤ d.size → i ≤ j → j - i < fuel → ∃ r, searchA lt d a fuel i j = some r ∧ i ≤ r ∧ r ≤ j := by
  intro fuel
  induction fuel with
  | zero => intro i j _ _ h; omega
  | succ fuel ih =>
    intro i j hj hij hf
    unfold searchA
    split
    · next hlt =>
      simp only
      obtain ⟨b, hb⟩ := less?_some lt d ((i + j) / 2) a (by omega) ha
      rw [hb]
      cases b with
      | true =>
        obtain ⟨r, hr, h1, h2⟩ := ih ((i + j) / 2 + 1) j hj (by omega) (by omega)
        exact ⟨r, hr, by omega, h2⟩
      | false =>
        obtain ⟨r, hr, h1, h2⟩ := ih i ((i + j) / 2) (by omega) (by omega) (by omega)
        exact ⟨r, hr, h1, by omega⟩
    · exact ⟨i, rfl, Nat.le_refl _, hij⟩

theorem searchB_some (lt : α → α → Bool) (d : Array α) (m : Nat) (hm : m < d.size) : ∀ (fuel i j : Nat),
    j ≤ d.size → i ≤ j → j - i < fuel → ∃ r, searchB lt d m fuel i j = some r ∧ i ≤ r ∧ r ≤ j := by
  intro fuel
  induction fuel with
  | zero => intro i j _ _ h; omega
  | succ fuel ih =>
    intro i j hj hij hf
    unfold searchB
    split
    · next hlt =>
      simp only
      obtain ⟨b, hb⟩ := less?_some lt d m ((i + j) / 2) hm (by omega)
      rw [hb]
      cases b with
      | false =>
        obtain ⟨r, hr, h1, h2⟩ := ih ((i + j) / 2 + 1) j hj (by omega) (by omega)
        exact ⟨r, hr, by omega, h2⟩
      | true =>
        obtain ⟨r, hr, h1, h2⟩ := ih i ((i + j) / 2) (by omega) (by omega) (by omega)
        exact ⟨r, hr, h1, by omega⟩
    · exact ⟨i, rfl, Nat.le_refl _, hij⟩

theorem searchC_some (lt : α → α → Bool) (d : Array α) (p : Nat) : ∀ (fuel start r : Nat),
    (∀ c, start ≤ c → c < r → c ≤ p ∧ p - c < d.size ∧ c < d.size) → start ≤ r → r - start < fuel →
    ∃ res, searchC lt d p fuel start r = some res ∧ start ≤ res ∧ res ≤ r := by
  intro fuel
  induction fuel with
  | zero => intro s r _ _ h; omega
  | succ fuel ih =>
    intro s r hpre hsr hf
    unfold searchC
    split
    · next hlt =>
      simp only
      obtain ⟨h1, h2, h3⟩ := hpre ((s + r) / 2) (by omega) (by omega)
      rw [sub?_some p _ h1]
      obtain ⟨b, hb⟩ := less?_some lt d (p - (s + r) / 2) ((s + r) / 2) h2 h3
      simp only [hb]
      cases b with
      | false =>
        obtain ⟨res, hr, g1, g2⟩ := ih ((s + r) / 2 + 1) r (fun c hc1 hc2 => hpre c (by omega) hc2) (by omega) (by omega)
        exact ⟨res, hr, by omega, g2⟩
      | true =>
        obtain ⟨res, hr, g1, g2⟩ := ih s ((s + r) / 2) (fun c hc1 hc2 => hpre c hc1 (by omega)) (by omega) (by omega)
        exact ⟨res, hr, g1, by omega⟩
    · exact ⟨s, rfl, Nat.le_refl _, hsr⟩

theorem bubbleUp_ok : ∀ (cnt k : Nat) (d : Array α), (cnt = 0 ∨ k + cnt < d.size) → Ok d (bubbleUp d k cnt) := by
  intro cnt
  induction cnt with
  | zero => intro k d _; exact Ok.refl d
  | succ cnt ih =>
    intro k d h
    unfold bubbleUp
    obtain ⟨d1, h1, hp⟩ := swap?_ok d k (k + 1) (by omega) (by omega)
    simp only [h1]
    exact Ok.trans hp (ih (k + 1) d1 (by rw [hp.size_eq]; omega))

theorem bubbleDown_ok : ∀ (cnt k : Nat) (d : Array α), (cnt = 0 ∨ (k < d.size ∧ cnt ≤ k)) → Ok d (bubbleDown d k cnt) := by
  intro cnt
  induction cnt with
  | zero => intro k d _; exact Ok.refl d
  | succ cnt ih =>
    intro k d h
    unfold bubbleDown
    rw [sub?_some k 1 (by omega)]
    obtain ⟨d1, h1, hp⟩ := swap?_ok d k (k - 1) (by omega) (by omega)
    simp only [h1]
    exact Ok.trans hp (ih (k - 1) d1 (by rw [hp.size_eq]; omega))


theorem symMerge_ok (lt : α → α → Bool) : ∀ (fuel : Nat) (d : Array α) (a m b : Nat), a < m → m < b → b ≤ d.size →
    b - a ≤ fuel → Ok d (symMerge lt fuel d a m b) := by
  intro fuel
  induction fuel with
  | zero => intro d a m b h1 h2 _ h; omega
  | succ fuel ih =>
    intro d a m b ham hmb hb hf
    unfold symMerge
    split
    · next h1 =>
      obtain ⟨i, hi, hi1, hi2⟩ := searchA_some lt d a (by omega) (b - m + 1) m b hb (by omega) (by omega)
      rw [hi]
      exact bubbleUp_ok _ _ d (by omega)
    · split
      · next h1 h2 =>
        obtain ⟨i, hi, hi1, hi2⟩ := searchB_some lt d m (by omega) (m - a + 1) a m (by omega) (by omega) (by omega)
        rw [hi]
        exact bubbleDown_ok _ _ d (by omega)
      · next h1 h2 =>
        simp only
        have hmid1 : a < (a + b) / 2 := by omega
        have hmid2 : (a + b) / 2 < b := by omega
        by_cases hm : m > (a + b) / 2
        · simp only [hm, if_true]
          rw [sub?_some ((a + b) / 2 + m) b (by omega), sub?_some ((a + b) / 2 + m) 1 (by omega)]
          simp only
          obtain ⟨start, hs, hs1, hs2⟩ := searchC_some lt d ((a + b) / 2 + m - 1) ((a + b) / 2 - ((a + b) / 2 + m - b) + 1)
            ((a + b) / 2 + m - b) ((a + b) / 2) (fun c hc1 hc2 => by omega) (by omega) (by omega)
          rw [hs]
          simp only
          rw [sub?_some _ start (by omega)]
          simp only
          have hrot : Ok d (if start < m ∧ m < (a + b) / 2 + m - start then rotate d start m ((a + b) / 2 + m - start) else some d) := by
            split
            · next hc => exact rotate_ok d start m _ hc.1 hc.2 (by omega)
            · exact Ok.refl d
          obtain ⟨d1, hd1, hp1⟩ := hrot
          rw [hd1]
          simp only
          have hrec1 : Ok d1 (if a < start ∧ start < (a + b) / 2 then symMerge lt fuel d1 a start ((a + b) / 2) else some d1) := by
            split
            · next hc => exact ih d1 a start _ hc.1 hc.2 (by rw [hp1.size_eq]; omega) (by omega)
            · exact Ok.refl d1
          obtain ⟨d2, hd2, hp2⟩ := hrec1
          rw [hd2]
          simp only
          apply Ok.trans (hp2.trans hp1)
          split
          · next hc => exact ih d2 _ _ b hc.1 hc.2 (by rw [hp2.size_eq, hp1.size_eq]; omega) (by omega)
          · exact Ok.refl d2
        · simp only [hm, if_false]
          rw [sub?_some ((a + b) / 2 + m) 1 (by omega)]
          simp only
          obtain ⟨start, hs, hs1, hs2⟩ := searchC_some lt d ((a + b) / 2 + m - 1) (m - a + 1) a m
            (fun c hc1 hc2 => by omega) (by omega) (by omega)
          rw [hs]
          simp only
          rw [sub?_some _ start (by omega)]
          simp only
          have hrot : Ok d (if start < m ∧ m < (a + b) / 2 + m - start then rotate d start m ((a + b) / 2 + m - start) else some d) := by
            split
            · next hc => exact rotate_ok d start m _ hc.1 hc.2 (by omega)
            · exact Ok.refl d
          obtain ⟨d1, hd1, hp1⟩ := hrot
          rw [hd1]
          simp only
          have hrec1 : Ok d1 (if a < start ∧ start < (a + b) / 2 then symMerge lt fuel d1 a start ((a + b) / 2) else some d1) := by
            split
            · next hc => exact ih d1 a start _ hc.1 hc.2 (by rw [hp1.size_eq]; omega) (by omega)
            · exact Ok.refl d1
          obtain ⟨d2, hd2, hp2⟩ := hrec1
          rw [hd2]
          simp only
          apply Ok.trans (hp2.trans hp1)
          split
          · next hc => exact ih d2 _ _ b hc.1 hc.2 (by rw [hp2.size_eq, hp1.size_eq]; omega) (by omega)
          · exact Ok.refl d2

theorem blocks_ok (lt : α → α → Bool) (n bs : Nat) (hbs : 1 ≤ bs) : ∀ (fuel a : Nat) (d : Array α), n = d.size →
    n - a < fuel → Ok d (blocks lt n bs fuel a d) := by
  intro fuel
  induction fuel with
  | zero => intro a d _ h; omega
  | succ fuel ih =>
    intro a d hn hf
    unfold blocks
    split
    · obtain ⟨d1, h1, hp⟩ := insertionSort_ok lt d a (a + bs) (by omega)
      simp only [h1]
      exact Ok.trans hp (ih (a + bs) d1 (by rw [hp.size_eq]; exact hn) (by omega))
    · exact insertionSort_ok lt d a n (by omega)

theorem mergePass_ok (lt : α → α → Bool) (n bs : Nat) (hbs : 1 ≤ bs) : ∀ (fuel a : Nat) (d : Array α), n = d.size →
    n - a < fuel → Ok d (mergePass lt n bs fuel a d) := by
  intro fuel
  induction fuel with
  | zero => intro a d _ h; omega
  | succ fuel ih =>
    intro a d hn hf
    unfold mergePass
    split
    · obtain ⟨d1, h1, hp⟩ := symMerge_ok lt (2 * bs + 1) d a (a + bs) (a + 2 * bs) (by omega) (by omega) (by omega) (by omega)
      simp only [h1]
      exact Ok.trans hp (ih (a + 2 * bs) d1 (by rw [hp.size_eq]; exact hn) (by omega))
    · split
      · exact symMerge_ok lt _ d a (a + bs) n (by omega) (by omega) (by omega) (by omega)
      · exact Ok.refl d

theorem passes_ok (lt : α → α → Bool) (n : Nat) : ∀ (fuel bs : Nat) (d : Array α), n = d.size → 1 ≤ bs →
    n - bs < fuel → Ok d (passes lt n fuel bs d) := by
  intro fuel
  induction fuel with
  | zero => intro bs d _ _ h; omega
  | succ fuel ih =>
    intro bs d hn hbs hf
    unfold passes
    split
    · obtain ⟨d1, h1, hp⟩ := mergePass_ok lt n bs hbs (n + 1) 0 d hn (by omega)
      simp only [h1]
      exact Ok.trans hp (ih (2 * bs) d1 (by rw [hp.size_eq]; exact hn) (by omega) (by omega))
    · exact Ok.refl d

/-- `sort.Stable` never indexes out of range, always ends, and returns a permutation of its input —
whatever `Less` answers. -/
theorem stable_ok (lt : α → α → Bool) (d : Array α) : Ok d (stable lt d) := by
  unfold stable
  simp only
  obtain ⟨d1, h1, hp⟩ := blocks_ok lt d.size 20 (by omega) (d.size + 1) 0 d rfl (by omega)
  rw [h1]
  simp only
  exact Ok.trans hp (passes_ok lt d.size (d.size + 1) 20 d1 hp.size_eq.symm (by omega) (by omega))

end EsbuildModel.GoSort
