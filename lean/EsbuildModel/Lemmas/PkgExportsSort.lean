import EsbuildModel.Lemmas.PkgExportsMap
/-! `expansionKeysArray.Less` is a strict weak order, so `sort.Stable` has exactly one possible result (the stable
insertion sort of the model); the result is sorted; the expansion loop returns what the most specific applicable key says. -/
namespace EsbuildModel.PkgExports
open EsbuildModel.NodeExports

/-- the sort key of `Less`: (base length, has "*", length if it has "*") -/
def rank (k : Str) : Nat × Bool × Nat :=
  match indexByte k '*' with
  | some i => (i, true, k.length)
  | none => (k.length, false, 0)

theorem less_rank (a b : Str) :
    less a b = decide ((rank a).1 > (rank b).1 ∨ ((rank a).1 = (rank b).1 ∧
      (((rank a).2.1 = true ∧ (rank b).2.1 = false) ∨
       ((rank a).2.1 = true ∧ (rank b).2.1 = true ∧ (rank a).2.2 > (rank b).2.2)))) := by
  unfold less rank
  cases indexByte a '*' <;> cases indexByte b '*' <;> simp
  all_goals (rw [Bool.eq_iff_iff]; simp only [Bool.or_eq_true, Bool.and_eq_true, Bool.not_eq_true', decide_eq_true_eq, decide_eq_false_iff_not]; omega)

/-- `Less` is asymmetric -/
theorem less_asymm (a b : Str) (h : less a b = true) : less b a = false := by
  rw [less_rank] at h ⊢
  generalize rank a = ra at h ⊢
  generalize rank b = rb at h ⊢
  obtain ⟨a1, a2, a3⟩ := ra
  obtain ⟨b1, b2, b3⟩ := rb
  cases a2 <;> cases b2 <;> simp at h ⊢ <;> omega

/-- "not less" is transitive (so incomparability is an equivalence: `Less` is a strict weak order) -/
theorem less_negtrans (a b c : Str) (h1 : less a b = false) (h2 : less b c = false) : less a c = false := by
  rw [less_rank] at h1 h2 ⊢
  generalize rank a = ra at h1 h2 ⊢
  generalize rank b = rb at h1 h2 ⊢
  generalize rank c = rc at h1 h2 ⊢
  obtain ⟨a1, a2, a3⟩ := ra
  obtain ⟨b1, b2, b3⟩ := rb
  obtain ⟨c1, c2, c3⟩ := rc
  cases a2 <;> cases b2 <;> cases c2 <;> simp at h1 h2 ⊢ <;> omega

/-- no later entry is strictly before an earlier one -/
def Sorted (es : List (Str × Target)) : Prop := es.Pairwise fun x y => less y.1 x.1 = false

theorem insertEntry_sorted (e : Str × Target) (xs : List (Str × Target)) (h : Sorted xs) :
    Sorted (insertEntry e xs) := by
  induction xs with
  | nil => simp [insertEntry, Sorted]
  | cons x xs ih =>
    unfold Sorted at h ih ⊢
    rw [List.pairwise_cons] at h
    simp only [insertEntry]
    cases hl : less x.1 e.1
    · simp only [Bool.false_eq_true, ↓reduceIte]
      rw [List.pairwise_cons, List.pairwise_cons]
      refine ⟨?_, h⟩
      intro y hy
      rcases List.mem_cons.mp hy with rfl | hy'
      · exact hl
      · exact less_negtrans _ _ _ (h.1 y hy') hl
    · simp only [↓reduceIte]
      rw [List.pairwise_cons]
      refine ⟨?_, ih h.2⟩
      intro y hy
      rcases (mem_insertEntry e y xs).mp hy with rfl | hy'
      · exact less_asymm _ _ hl
      · exact h.1 y hy'

theorem sortEntries_sorted (es : List (Str × Target)) : Sorted (sortEntries es) := by
  induction es with
  | nil => simp [sortEntries, Sorted]
  | cons e es ih => exact insertEntry_sorted e _ ih

theorem insertEntry_head (e : Str × Target) (ys : List (Str × Target)) (h : ∀ y ∈ ys, less y.1 e.1 = false) :
    insertEntry e ys = e :: ys := by
  cases ys with
  | nil => rfl
  | cons y ys => simp [insertEntry, h y (by simp)]

/-- a stable sort commutes with filtering -/
theorem filter_insertEntry (q : Str × Target → Bool) (e : Str × Target) (xs : List (Str × Target)) (h : Sorted xs) :
    (insertEntry e xs).filter q = if q e then insertEntry e (xs.filter q) else xs.filter q := by
  induction xs with
  | nil => cases hq : q e <;> simp [insertEntry, hq]
  | cons x xs ih =>
    unfold Sorted at h ih
    rw [List.pairwise_cons] at h
    have ih' := ih h.2
    simp only [insertEntry]
    cases hl : less x.1 e.1
    · -- e is put in front of x
      simp only [Bool.false_eq_true, ↓reduceIte]
      have hall : ∀ y ∈ (x :: xs).filter q, less y.1 e.1 = false := by
        intro y hy
        have hy' := (List.mem_filter.mp hy).1
        rcases List.mem_cons.mp hy' with rfl | hy''
        · exact hl
        · exact less_negtrans _ _ _ (h.1 y hy'') hl
      cases hq : q e
      · simp [List.filter_cons, hq]
      · rw [List.filter_cons, hq]
        simp only [↓reduceIte]
        rw [insertEntry_head e _ hall]
    · simp only [↓reduceIte]
      rw [List.filter_cons, ih']
      cases hq : q e <;> cases hx : q x <;> simp [List.filter_cons, hx, insertEntry, hl]

theorem filter_sortEntries (q : Str × Target → Bool) (es : List (Str × Target)) :
    (sortEntries es).filter q = sortEntries (es.filter q) := by
  induction es with
  | nil => rfl
  | cons e es ih =>
    simp only [sortEntries]
    rw [filter_insertEntry q e _ (sortEntries_sorted es), ih, List.filter_cons]
    cases q e <;> simp [sortEntries]

/-- the test that the loop of esmPackageImportsExportsResolve makes for one expansion key -/
def keyMatches (matchKey key : Str) : Bool :=
  match indexByte key '*' with
  | some star =>
    hasPrefix matchKey (key.take star) &&
      (decide (key.drop (star + 1) = []) ||
        (hasSuffix matchKey (key.drop (star + 1)) && decide (matchKey.length ≥ key.length)))
  | none => hasPrefix matchKey key

theorem expansionLoop_skip (pk matchKey : Str) (isI : Bool) (conds : List Str) (key : Str) (value : Target)
    (rest : List (Str × Target)) (h : keyMatches matchKey key = false) :
    expansionLoop pk matchKey isI conds ((key, value) :: rest) = expansionLoop pk matchKey isI conds rest := by
  unfold keyMatches at h
  simp only [expansionLoop]
  cases hi : indexByte key '*' with
  | none => rw [hi] at h; simp only at h; simp [h]
  | some star =>
    rw [hi] at h
    simp only [Bool.and_eq_false_iff] at h
    simp only
    rcases h with h | h
    · simp [h]
    · cases hp : hasPrefix matchKey (key.take star)
      · simp
      · simp only [↓reduceIte]
        rw [if_neg (by simpa using h)]

/-- a key that applies ends the loop: what follows it is irrelevant -/
theorem expansionLoop_hit (pk matchKey : Str) (isI : Bool) (conds : List Str) (key : Str) (value : Target)
    (rest : List (Str × Target)) (h : keyMatches matchKey key = true) :
    expansionLoop pk matchKey isI conds ((key, value) :: rest) = expansionLoop pk matchKey isI conds [(key, value)] := by
  unfold keyMatches at h
  simp only [expansionLoop]
  cases hi : indexByte key '*' with
  | none => rw [hi] at h; simp only at h; simp [h]
  | some star =>
    rw [hi] at h
    simp only [Bool.and_eq_true] at h
    simp only [h.1, ↓reduceIte]
    rw [if_pos (by simpa using h.2), if_pos (by simpa using h.2)]

/-- a key that applies and maps to null makes the loop return null -/
theorem expansionLoop_null (pk matchKey : Str) (isI : Bool) (conds : List Str) (key : Str)
    (rest : List (Str × Target)) (h : keyMatches matchKey key = true) :
    expansionLoop pk matchKey isI conds ((key, .null) :: rest) = ([], .null) := by
  unfold keyMatches at h
  simp only [expansionLoop]
  have his := indexByte_star key
  cases hc : key.contains '*'
  · rw [hc] at his
    simp only [Bool.false_eq_true, ↓reduceIte] at his
    rw [his] at h ⊢
    simp only at h
    simp [h, PkgExports.targetResolve]
  · rw [hc] at his
    simp only [↓reduceIte] at his
    rw [his] at h ⊢
    simp only [Bool.and_eq_true] at h
    simp only [h.1, ↓reduceIte]
    rw [if_pos (by simpa using h.2)]
    have hlen := key_length key hc
    have hbl := prefix_length_le _ _ h.1
    have hsl : slice matchKey (key.take (indexOfStar key)).length
        ((matchKey.length : Int) - (key.drop (indexOfStar key + 1)).length) =
        some ((matchKey.take (matchKey.length - (key.drop (indexOfStar key + 1)).length)).drop (key.take (indexOfStar key)).length) := by
      apply slice_ok
      have h2 := h.2
      simp only [Bool.or_eq_true, decide_eq_true_eq, Bool.and_eq_true] at h2
      rcases h2 with h2 | h2
      · rw [h2]; simpa using hbl
      · have := h2.2; omega
    rw [hsl]
    simp [PkgExports.targetResolve]

/-- entries that do not apply can be removed from the list the loop runs over -/
theorem expansionLoop_filter (pk matchKey : Str) (isI : Bool) (conds : List Str) (q : Str × Target → Bool)
    (S : List (Str × Target)) (h : ∀ e ∈ S, q e = false → keyMatches matchKey e.1 = false) :
    expansionLoop pk matchKey isI conds S = expansionLoop pk matchKey isI conds (S.filter q) := by
  induction S with
  | nil => rfl
  | cons e rest ih =>
    have ih' := ih (fun x hx => h x (by simp [hx]))
    obtain ⟨k, v⟩ := e
    rw [List.filter_cons]
    cases hq : q (k, v)
    · simp only [Bool.false_eq_true, ↓reduceIte]
      rw [expansionLoop_skip pk matchKey isI conds k v rest (h (k, v) (by simp) hq)]
      exact ih'
    · simp only [↓reduceIte]
      cases hm : keyMatches matchKey k
      · rw [expansionLoop_skip _ _ _ _ k v rest hm, expansionLoop_skip _ _ _ _ k v _ hm]; exact ih'
      · rw [expansionLoop_hit _ _ _ _ k v rest hm]; exact (expansionLoop_hit _ _ _ _ k v _ hm).symm

theorem star_in_trailer (key : Str) (h : key.count '*' ≥ 2) : '*' ∈ key.drop (indexOfStar key + 1) := by
  induction key with
  | nil => simp at h
  | cons c cs ih =>
    rw [List.count_cons] at h
    simp only [indexOfStar]
    by_cases hc : c = '*'
    · subst hc
      simp only [↓reduceIte, Nat.zero_add, List.drop_succ_cons, List.drop_zero]
      simp only [beq_self_eq_true, ↓reduceIte] at h
      have : 0 < cs.count '*' := by omega
      exact List.count_pos_iff.mp this
    · have hb : (c == '*') = false := by simpa using hc
      simp only [hb, Bool.false_eq_true, ↓reduceIte, Nat.add_zero] at h
      simp only [hc, ↓reduceIte, List.drop_succ_cons]
      exact ih h

/-- a key with several "*" never applies to a request without "*" -/
theorem multiStar_no_match (matchKey key : Str) (hm : ¬ '*' ∈ matchKey) (hc : key.count '*' ≥ 2) :
    keyMatches matchKey key = false := by
  have hcont : key.contains '*' = true := by
    have : 0 < key.count '*' := by omega
    simpa using List.count_pos_iff.mp this
  have hin := star_in_trailer key hc
  unfold keyMatches
  rw [indexByte_star, hcont]
  simp only [↓reduceIte]
  have h1 : decide (key.drop (indexOfStar key + 1) = []) = false := by
    simp only [decide_eq_false_iff_not]
    intro e; rw [e] at hin; cases hin
  have h2 : hasSuffix matchKey (key.drop (indexOfStar key + 1)) = false := by
    cases hs : hasSuffix matchKey (key.drop (indexOfStar key + 1))
    · rfl
    · exact absurd (List.IsSuffix.mem hin (List.isSuffixOf_iff_suffix.mp hs)) hm
  rw [h1, h2]; simp

/-- THE MOST SPECIFIC APPLICABLE KEY DECIDES: if, among the expansion keys that apply to the request, `k` is
strictly before every other one in `Less` order, the loop over the sorted keys returns what `k` alone gives -/
theorem expansionLoop_most_specific (pk matchKey : Str) (isI : Bool) (conds : List Str)
    (S : List (Str × Target)) (hs : Sorted S) (k : Str) (v : Target) (hm : (k, v) ∈ S)
    (hk : keyMatches matchKey k = true)
    (hbest : ∀ x ∈ S, keyMatches matchKey x.1 = true → x = (k, v) ∨ less k x.1 = true) :
    expansionLoop pk matchKey isI conds S = expansionLoop pk matchKey isI conds [(k, v)] := by
  induction S with
  | nil => cases hm
  | cons x rest ih =>
    unfold Sorted at hs
    rw [List.pairwise_cons] at hs
    by_cases hx : x = (k, v)
    · subst hx; exact expansionLoop_hit pk matchKey isI conds k v rest hk
    · have hm' : (k, v) ∈ rest := by
        rcases List.mem_cons.mp hm with h | h
        · exact absurd h.symm hx
        · exact h
      have hnm : keyMatches matchKey x.1 = false := by
        cases hmx : keyMatches matchKey x.1
        · rfl
        · rcases hbest x (by simp) hmx with h | h
          · exact absurd h hx
          · have := hs.1 (k, v) hm'
            simp only at this
            rw [this] at h; cases h
      obtain ⟨xk, xv⟩ := x
      rw [expansionLoop_skip pk matchKey isI conds xk xv rest hnm]
      exact ih hs.2 hm' (fun y hy => hbest y (by simp [hy]))

end EsbuildModel.PkgExports
