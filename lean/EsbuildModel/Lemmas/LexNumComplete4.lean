import EsbuildModel.Lemmas.LexNumComplete3
/-
Completeness of the integer branch.
-/
namespace EsbuildModel.LexNum
open EsbuildModel.Spec.Num EsbuildModel.Spec.NumLit

theorem base_core_num {P : Params} {src rest : List Char} {base : Nat} {legacy : Bool} {r : List Char} {s : St}
    {inv : Bool} {x : F64}
    (h1 : intLoop P base legacy (if legacy then rest else rest.tail) (if legacy then st1 else st1.step) true false (P.rnd 0)
      = .ok (r, s, inv, x))
    (hp : s.prevUS = false) (hn : headIs r (fun c => c == 'n') = false) (hid : headIs r (isIdStart P) = false) :
    basePath P src rest base legacy =
      .num s.end_ (if inv = true then P.pf (stripUS s.usCount (src.take s.end_)) else fixed P src base legacy r s inv x)
        legacy := by
  unfold basePath
  simp only [h1, hn, Bool.false_or, Bool.false_and, Bool.false_eq_true, if_false]
  cases inv with
  | true => simp only [if_true]; exact finish_num_eval hp hn hid
  | false =>
    simp only [Bool.false_eq_true, if_false]
    rw [finish_num_eval hp hn hid]
    simp only [fixed, hn]
    rfl

theorem base_core_big {P : Params} {src rest : List Char} {base : Nat} {r : List Char} {s : St}
    {inv : Bool} {x : F64}
    (h1 : intLoop P base false rest.tail st1.step true false (P.rnd 0) = .ok ('n' :: r, s, inv, x))
    (hp : s.prevUS = false) (hid : headIs r (isIdStart P) = false) :
    basePath P src rest base false = .big (s.end_ + 1) (stripUS s.usCount (src.take s.end_)) false := by
  have hn : headIs ('n' :: r) (fun c => c == 'n') = true := rfl
  unfold basePath
  simp only [Bool.false_eq_true, if_false, h1, hn, Bool.true_or, if_true, Bool.and_false]
  exact finish_big_eval hp hid

theorem follow_stop_hex {P : Params} {rest : List Char} (hfol : FollowOK P rest) : StopAt isHexC rest := by
  intro c r hc
  obtain ⟨h1, h2, _⟩ := hfol c r hc
  refine ⟨?_, follow_not hfol '_' (Or.inr (Or.inr rfl)) c r hc⟩
  rcases hexValOf_cases c with ⟨a, b, _⟩ | ⟨a, b, _⟩ | ⟨a, b, _⟩ | ⟨h, _⟩
  · simp [isDig, a, b] at h2
  · rw [isIdStart_of_letter P (Or.inl ⟨a, by omega⟩)] at h1; cases h1
  · rw [isIdStart_of_letter P (Or.inr (Or.inl ⟨a, by omega⟩))] at h1; cases h1
  · simp [isHexC, h]

theorem stop_hex_n (r : List Char) : StopAt isHexC ('n' :: r) := by
  intro c r' hc
  cases hc
  exact ⟨by decide, by decide⟩

theorem lexNum_radix_of (P : Params) (r : Radix) (u : Bool) (cs : List Char) :
    lexNum P ('0' :: r.letter u :: cs) = basePath P ('0' :: r.letter u :: cs) (r.letter u :: cs) r.base false := by
  cases r <;> cases u <;> simp [lexNum, isDig, Radix.letter, Radix.base]

theorem lexNum_legacy_of (P : Params) {d : Char} (cs : List Char) (hd : 48 ≤ d.toNat ∧ d.toNat ≤ 55) :
    lexNum P ('0' :: d :: cs) = basePath P ('0' :: d :: cs) (d :: cs) 8 true := by
  have h1 : ¬ (d = 'b' ∨ d = 'B') := by rintro (rfl | rfl) <;> revert hd <;> decide
  have h2 : ¬ (d = 'o' ∨ d = 'O') := by rintro (rfl | rfl) <;> revert hd <;> decide
  have h3 : ¬ (d = 'x' ∨ d = 'X') := by rintro (rfl | rfl) <;> revert hd <;> decide
  simp only [lexNum, isDig]
  simp [h1, h2, h3, hd]

/-- the integer loop on the digits of a radix literal -/
theorem radix_loop {P : Params} (r : Radix) {run rest : List Char} (hsd : sepDigits r.isDigit run = true)
    (hstop : StopAt isHexC rest) :
    ∃ s, intLoop P r.base false (run ++ rest) st1.step true false (P.rnd 0) =
        .ok (rest, s, false, accRun P r.base (P.rnd 0) (strip run)) ∧
      Seg (run ++ rest) st1.step run rest s ∧ s.prevUS = false := by
  have hus : r.isDigit '_' = false := by rw [← intD_radix]; exact intD_us _ _
  have hfun : intD r.base false = r.isDigit := funext (intD_radix r)
  have hrun : runOK (intD r.base false) (st1.step.prevUS || true) run = some false := by
    rw [hfun, Bool.or_true]; exact runOK_of_sepDigits hus hsd true
  have hne : run ≠ [] := by intro h; subst h; simp [sepDigits] at hsd
  obtain ⟨s, h1, hseg, hp⟩ := intLoop_complete (P := P) (base := r.base) (legacy := false) (inv := false)
    (x := P.rnd 0) (inv_step inv_st1) hrun (fun _ => hne) hstop (by intro h; cases h)
  exact ⟨s, by simpa using h1, hseg, hp⟩

theorem nonDec_complete {P : Params} {R : Rat → F64} (hP : ParamsOK P R) (r : Radix) (u : Bool) {ds rest : List Char}
    (hv : (Lit.nonDec r u ds).valid = true) (hfol : FollowOK P rest) :
    lexNum P ((Lit.nonDec r u ds).render ++ rest) =
      .num (Lit.nonDec r u ds).render.length (R (Lit.nonDec r u ds).mv) false := by
  have hsd : sepDigits r.isDigit ds = true := hv
  obtain ⟨s, h1, hseg, hp⟩ := radix_loop (P := P) r hsd (follow_stop_hex hfol)
  have hseg' := (seg_step (r := ds ++ rest) (letter_ne_us r u) inv_st1).trans hseg
  obtain ⟨ht, _, hl⟩ := hseg'.take (first := '0') (by decide)
  have hsrc : (Lit.nonDec r u ds).render ++ rest = '0' :: r.letter u :: (ds ++ rest) := by simp [Lit.render]
  rw [hsrc, lexNum_radix_of]
  rw [base_core_num (src := '0' :: r.letter u :: (ds ++ rest)) (rest := r.letter u :: (ds ++ rest)) (base := r.base)
    (legacy := false) (by simpa using h1) hp (follow_not_n hfol) (follow_headIs hfol)]
  simp only [Res.num.injEq, Bool.false_eq_true, if_false, and_true]
  refine ⟨by rw [hl]; simp [Lit.render], ?_⟩
  rw [radix_value hP r u hsd ht rfl (follow_not_n hfol)]
  rfl

theorem bigNonDec_complete {P : Params} (r : Radix) (u : Bool) {ds rest : List Char}
    (hv : (Lit.bigNonDec r u ds).valid = true) (hfol : FollowOK P rest) :
    lexNum P ((Lit.bigNonDec r u ds).render ++ rest) =
      .big (Lit.bigNonDec r u ds).render.length ('0' :: r.letter u :: strip ds) false := by
  have hsd : sepDigits r.isDigit ds = true := hv
  obtain ⟨s, h1, hseg, hp⟩ := radix_loop (P := P) r hsd (stop_hex_n rest)
  have hseg' := (seg_step (r := ds ++ 'n' :: rest) (letter_ne_us r u) inv_st1).trans hseg
  obtain ⟨ht, hc, hl⟩ := hseg'.take (first := '0') (by decide)
  have hsrc : (Lit.bigNonDec r u ds).render ++ rest = '0' :: r.letter u :: (ds ++ 'n' :: rest) := by simp [Lit.render]
  rw [hsrc, lexNum_radix_of]
  rw [base_core_big (src := '0' :: r.letter u :: (ds ++ 'n' :: rest)) (rest := r.letter u :: (ds ++ 'n' :: rest))
    (base := r.base) (by simpa using h1) hp (follow_headIs hfol)]
  simp only [Res.big.injEq, and_true]
  refine ⟨by rw [hl]; simp [Lit.render], ?_⟩
  simp only [List.cons_append, List.nil_append] at ht hc
  rw [ht, stripUS_eq hc, strip_cons_ne (by decide), strip_cons_ne (letter_ne_us r u)]

/-! ### legacy octal, `0789` -/

theorem legacy_loop {P : Params} {run rest : List Char} (hall : ∀ c ∈ run, isDig c = true) (hne : run ≠ [])
    (hstop : StopAt isHexC rest) :
    ∃ s, intLoop P 8 true (run ++ rest) st1 true false (P.rnd 0) =
        .ok (rest, s, run.any is89, accRun P 8 (P.rnd 0) run) ∧
      Seg (run ++ rest) st1 run rest s ∧ s.prevUS = false := by
  have hfun : intD 8 true = isDig := funext intD_legacy
  have hno : ∀ c ∈ run, c ≠ '_' := fun c hc => isDig_ne_us (hall c hc)
  have hrun : runOK (intD 8 true) (st1.prevUS || true) run = some false := by
    rw [hfun, runOK_digits isDig _ hall]; simp [hne]
  obtain ⟨s, h1, hseg, hp⟩ := intLoop_complete (P := P) (base := 8) (legacy := true) (inv := false)
    (x := P.rnd 0) inv_st1 hrun (fun _ => hne) hstop (fun _ => hno)
  rw [strip_of_noUS hno] at h1
  exact ⟨s, by simpa using h1, hseg, hp⟩

theorem legacy_fixed {P : Params} {R : Rat → F64} (hP : ParamsOK P R) {rest run r' : List Char} {s : St} {x : F64}
    (hne : run ≠ []) (hoct : ∀ c ∈ run, isOctDigit c = true ∧ ∃ d, hexValOf c = some d ∧ d < 8)
    (hnous : ∀ c ∈ run, c ≠ '_')
    (ht : ('0' :: rest).take s.end_ = '0' :: run) (hx : x = accRun P 8 (P.rnd 0) run)
    (hn : headIs r' (fun c => c == 'n') = false) :
    fixed P ('0' :: rest) 8 true r' s false x = P.rnd (radixMV 8 run) := by
  have hacc : AccInv P.rnd x (radixMV 8 run) := by
    rw [hx]; exact accRun_inv hP.rndOK 8 (by decide) run (accInv_zero _)
  have hdig : ((('0' :: rest).take s.end_).filter (fun c => c != '_')).drop 1 = run := by
    rw [ht]
    show (strip ('0' :: run)).drop 1 = run
    rw [strip_cons_ne (by decide), strip_of_noUS hnous]; rfl
  unfold fixed
  simp only [hn, Bool.not_false, Bool.and_true, if_true, hdig, parseRadix_eq hne (fun c hcm => (hoct c hcm).2)]
  exact (acc_final hP.rndOK hacc).1

theorem octDigit_facts {c : Char} (h : isOctDigit c = true) :
    isDig c = true ∧ is89 c = false ∧ ∃ d, hexValOf c = some d ∧ d < 8 := by
  simp only [isOctDigit, Bool.and_eq_true, decide_eq_true_eq] at h
  have hd : isDig c = true := by simp [isDig]; omega
  have hv : hexValOf c = some (c.toNat - 48) := by
    unfold hexValOf; simp; omega
  refine ⟨hd, ?_, _, hv, by omega⟩
  simp only [is89, hv, d89]
  simp; omega

theorem legacyOctal_complete {P : Params} {R : Rat → F64} (hP : ParamsOK P R) {ds rest : List Char}
    (hv : (Lit.legacyOctal ds).valid = true) (hfol : FollowOK P rest) :
    lexNum P ((Lit.legacyOctal ds).render ++ rest) =
      .num (Lit.legacyOctal ds).render.length (R (Lit.legacyOctal ds).mv) true := by
  simp only [Lit.valid, Bool.and_eq_true, List.all_eq_true] at hv
  obtain ⟨hne, hoct⟩ := hv
  have hne : ds ≠ [] := by simpa using hne
  have hall : ∀ c ∈ ds, isDig c = true := fun c hc => (octDigit_facts (hoct c hc)).1
  obtain ⟨s, h1, hseg, hp⟩ := legacy_loop (P := P) hall hne (follow_stop_hex hfol)
  obtain ⟨ht, _, hl⟩ := hseg.take (first := '0') (by decide)
  have hany : ds.any is89 = false := by
    simp only [List.any_eq_false]
    intro c hc
    simpa using (octDigit_facts (hoct c hc)).2.1
  rw [hany] at h1
  cases ds with
  | nil => exact absurd rfl hne
  | cons d ds' =>
    have hd : 48 ≤ d.toNat ∧ d.toNat ≤ 55 := by
      have := hoct d List.mem_cons_self
      simpa [isOctDigit] using this
    have hsrc : (Lit.legacyOctal (d :: ds')).render ++ rest = '0' :: d :: (ds' ++ rest) := by simp [Lit.render]
    rw [hsrc, lexNum_legacy_of P _ hd]
    rw [base_core_num (src := '0' :: d :: (ds' ++ rest)) (rest := d :: (ds' ++ rest)) (base := 8) (legacy := true)
      (by simpa using h1) hp (follow_not_n hfol) (follow_headIs hfol)]
    simp only [Res.num.injEq, Bool.false_eq_true, if_false, and_true]
    refine ⟨by rw [hl]; simp [Lit.render], ?_⟩
    have ht' : List.take s.end_ ('0' :: d :: (ds' ++ rest)) = '0' :: d :: ds' := ht
    rw [legacy_fixed (rest := d :: (ds' ++ rest)) hP hne (fun c hc => ⟨hoct c hc, (octDigit_facts (hoct c hc)).2.2⟩)
      (fun c hc => isDig_ne_us (hall c hc)) ht' rfl (follow_not_n hfol), hP.rnd]
    rfl

/-- `0789` without fraction and exponent: scanned by the integer loop, value from ParseFloat -/
theorem decLegacyInt_complete {P : Params} {R : Rat → F64} (hP : ParamsOK P R) {i rest : List Char}
    (hv : (Lit.dec i none none).valid = true) (hfol : FollowOK P rest) (hso : secondIsOctal i = true) :
    lexNum P ((Lit.dec i none none).render ++ rest) =
      .num (Lit.dec i none none).render.length (R (Lit.dec i none none).mv) (nonOctalDec i) := by
  cases i with
  | nil => simp [secondIsOctal] at hso
  | cons c run =>
    cases run with
    | nil => simp [secondIsOctal] at hso
    | cons d run' =>
      simp only [secondIsOctal, Bool.and_eq_true, beq_iff_eq] at hso
      obtain ⟨hc0, hdo⟩ := hso
      subst hc0
      have hi : decIntOk ('0' :: d :: run') = true := by simpa [Lit.valid, expSOk] using hv
      obtain ⟨_, _, hshape⟩ := decIntOk_cons hi
      rcases hshape with ⟨_, h⟩ | ⟨h, _⟩ | ⟨_, hnod, hall, hne⟩
      · cases h
      · exact absurd rfl h
      · obtain ⟨s, h1, hseg, hp⟩ := legacy_loop (P := P) hall hne (follow_stop_hex hfol)
        obtain ⟨ht, hc, hl⟩ := hseg.take (first := '0') (by decide)
        have hany : (d :: run').any is89 = true := by
          simp only [nonOctalDec, Bool.and_eq_true, List.any_eq_true] at hnod
          obtain ⟨_, y, hy, hy89⟩ := hnod
          simp only [List.any_eq_true]
          exact ⟨y, hy, by rw [is89_iff]; exact hy89⟩
        rw [hany] at h1
        have hd : 48 ≤ d.toNat ∧ d.toNat ≤ 55 := by simpa [isOctDigit] using hdo
        have hrender : (Lit.dec ('0' :: d :: run') none none).render = '0' :: d :: run' := by
          simp [Lit.render, fracText, expSText]
        have hsrc : (Lit.dec ('0' :: d :: run') none none).render ++ rest = '0' :: d :: (run' ++ rest) := by
          rw [hrender]; rfl
        rw [hsrc, lexNum_legacy_of P _ hd]
        rw [base_core_num (src := '0' :: d :: (run' ++ rest)) (rest := d :: (run' ++ rest)) (base := 8) (legacy := true)
          (by simpa using h1) hp (follow_not_n hfol) (follow_headIs hfol)]
        simp only [Res.num.injEq, if_true]
        refine ⟨by rw [hl, hrender], ?_, hnod.symm⟩
        have ht' : List.take s.end_ ('0' :: d :: (run' ++ rest)) = '0' :: d :: run' := ht
        have hpf := dec_pf hP hv
        rw [hrender] at hpf
        rw [ht', stripUS_eq hc]
        exact hpf

end EsbuildModel.LexNum
