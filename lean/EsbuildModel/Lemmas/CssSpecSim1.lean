import EsbuildModel.Lemmas.CssSpecBase
/-!
Simulation model ↔ specification, part 1: the hypotheses (`Tame`), whitespace, hex digits, escapes, names.
Every lemma has the form `Spec.f (ppS s) = (…, ppS s')` where `s'` is where the model's `f` stops on `s`.
-/
namespace EsbuildModel.CssLex
open EsbuildModel.Spec
open EsbuildModel.Spec.Unicode (IsScalar)

/-- `s` starts with a hexadecimal escape that is directly followed by CR LF -/
def hexEscCRLF : List Ch → Bool
  | b :: d :: u =>
    b.cp == 92 &&
      (match isHex d.cp with
       | some h => (match (hexLoop 5 h u).2 with | w :: x => crlfAt w x | [] => false)
       | none => false)
  | _ => false

/-- `s` starts with `-` followed by an ill-formed byte -/
def dashIll : List Ch → Bool
  | c :: d :: _ => c.cp == 45 && d.cp == runeError && decide (d.raw.length ≤ 1)
  | _ => false

/-- the inputs for which the comparison with the specification is proved (see `Props/C16CssSyntax.lean`) -/
structure Tame (s : List Ch) : Prop where
  dec : IsDec s
  noNul : ∀ c ∈ s, c.cp ≠ 0
  noHexCRLF : ∀ t, t <:+ s → hexEscCRLF t = false
  noDashIll : ∀ t, t <:+ s → dashIll t = false

theorem Tame.suffix {a b : List Ch} (h : Tame b) (hs : a <:+ b) : Tame a :=
  ⟨h.dec.suffix hs, fun c hc => h.noNul c (hs.subset hc), fun t ht => h.noHexCRLF t (ht.trans hs),
   fun t ht => h.noDashIll t (ht.trans hs)⟩

theorem Tame.tail {c : Ch} {t : List Ch} (h : Tame (c :: t)) : Tame t := h.suffix (List.suffix_cons c t)

theorem Tame.pp1 {c : Ch} {t : List Ch} (h : Tame (c :: t)) : CssSyntax.preprocessOne c.cp = ppc c.cp :=
  preprocessOne_eq c.cp (h.dec.scalar c (by simp)) (h.noNul c (by simp))

theorem Tame.ne0 {c : Ch} {t : List Ch} (h : Tame (c :: t)) : c.cp ≠ 0 := h.noNul c (by simp)

theorem Tame.cons {c : Ch} {t : List Ch} (h : Tame (c :: t)) (hc : crlfAt c t = false) :
    ppS (c :: t) = ppc c.cp :: ppS t := by rw [ppS_cons c t hc, h.pp1]

theorem Tame.head {c : Ch} {t : List Ch} (h : Tame (c :: t)) : ∃ r, ppS (c :: t) = ppc c.cp :: r := by
  obtain ⟨r, hr⟩ := ppS_head c t; exact ⟨r, by rw [hr, h.pp1]⟩

theorem crlfAt_of_ne_cr (c : Ch) (t : List Ch) (h : c.cp ≠ 13) : crlfAt c t = false := by simp [crlfAt, h]

/-- a predicate of the first preprocessed code point that is false at the end of the stream -/
def headP (p : Nat → Bool) : List Nat → Bool
  | [] => false
  | c :: _ => p c

theorem Tame.headP {s : List Ch} (h : Tame s) (p : Nat → Bool) : headP p (ppS s) = headIs (fun c => p (ppc c)) s := by
  cases s with
  | nil => rfl
  | cons c t => obtain ⟨r, hr⟩ := h.head; rw [hr]; rfl

/-! ### S1 whitespace -/

theorem sim_dropWhitespace (s : List Ch) (ht : Tame s) :
    CssSyntax.dropWhitespace (ppS s) = ppS (skipWhile isWhitespace s) := by
  induction s with
  | nil => rfl
  | cons c t ih =>
    by_cases hcr : crlfAt c t = true
    · have hc : c.cp = 13 := by simp only [crlfAt, Bool.and_eq_true, beq_iff_eq] at hcr; exact hcr.1
      have hw : isWhitespace c.cp = true := by simp [isWhitespace, hc]
      rw [ppS_crlf c t hcr]
      simp only [skipWhile, hw, if_true]
      exact ih ht.tail
    · have hcr' : crlfAt c t = false := by simpa using hcr
      rw [ht.cons hcr']
      simp only [CssSyntax.dropWhitespace, skipWhile, cls_whitespace]
      by_cases hw : isWhitespace c.cp = true
      · simp only [hw, if_true]; exact ih ht.tail
      · simp only [hw, Bool.false_eq_true, if_false]; rw [ht.cons hcr']

/-! ### S2 hex digits -/

theorem isHex_ne_cr (c : Nat) (d : Nat) (h : isHex c = some d) : c ≠ 13 := by
  intro hc; subst hc; simp [isHex] at h

theorem sim_hexDigits (k v : Nat) (s : List Ch) (ht : Tame s) :
    CssSyntax.hexDigits k v (ppS s) = ((hexLoop k v s).1, ppS (hexLoop k v s).2) := by
  induction k generalizing v s with
  | zero => simp [CssSyntax.hexDigits, hexLoop]
  | succ k ih =>
    cases s with
    | nil => simp [CssSyntax.hexDigits, hexLoop, ppS_nil]
    | cons c t =>
      obtain ⟨hx1, hx2⟩ := cls_hex c.cp
      cases hh : isHex c.cp with
      | none =>
        obtain ⟨r, hr⟩ := ht.head
        simp only [hexLoop, hh]
        rw [hr]
        simp only [CssSyntax.hexDigits, hx1, hh, Option.isSome_none, Bool.false_eq_true, if_false]
      | some d =>
        have hne := isHex_ne_cr c.cp d hh
        rw [ht.cons (crlfAt_of_ne_cr c t hne)]
        simp only [CssSyntax.hexDigits, hexLoop, hh, hx1, Option.isSome_some, if_true, hx2 d hh]
        exact ih _ t ht.tail

/-! ### S3 escapes -/

theorem escapeValue_eq (v : Nat) : CssSyntax.escapeValue v = fixHex v := by
  unfold CssSyntax.escapeValue fixHex CssSyntax.isSurrogate CssSyntax.maxCodePoint runeError
  simp only [Bool.and_eq_true, decide_eq_true_eq]

theorem ppc_of_not_newline (c : Nat) (h : isNewline c = false) : ppc c = c := by
  unfold ppc
  have : ¬ (c = 13 ∨ c = 12) := by
    unfold isNewline at h
    simp only [Bool.or_eq_false_iff, beq_eq_false_iff_ne, ne_eq] at h; omega
  simp [this]

theorem ppc_hex (c d : Nat) (h : isHex c = some d) : ppc c = c := by
  apply ppc_of_not_newline
  unfold isHex at h
  unfold isNewline
  simp only [Bool.or_eq_false_iff, beq_eq_false_iff_ne, ne_eq]
  split at h
  · omega
  · split at h
    · omega
    · split at h
      · omega
      · simp at h

/-- the whitespace after a hex escape, in the standard reading (`keepNewline = false`) and in the reading of quirk
`stringHexEscapeKeepsNewline`, where a newline stays -/
theorem sim_skipEscapeWhitespace (keep : Bool) (r1 : List Ch) (ht : Tame r1)
    (hcr : ∀ w x, r1 = w :: x → crlfAt w x = false) :
    CssSyntax.skipEscapeWhitespace keep (ppS r1) =
      ppS (if keep && headIs isNewline r1 then r1 else skipOneWs r1) := by
  cases r1 with
  | nil => simp [CssSyntax.skipEscapeWhitespace, skipOneWs, ppS_nil, headIs]
  | cons w x =>
    rw [ht.cons (hcr w x rfl)]
    simp only [CssSyntax.skipEscapeWhitespace, cls_whitespace, cls_newline, skipOneWs, headIs]
    by_cases hw : isWhitespace w.cp = true
    · by_cases hk : (keep && isNewline w.cp) = true
      · simp only [hw, hk, Bool.not_true, Bool.and_false, Bool.false_eq_true, if_false, if_true]
        rw [ht.cons (hcr w x rfl)]
      · simp only [hw, hk, Bool.not_false, Bool.and_true, if_true, Bool.false_eq_true, if_false]
    · have hnl : isNewline w.cp = false := by
        unfold isWhitespace at hw; unfold isNewline
        simp only [Bool.or_eq_true, beq_iff_eq, not_or] at hw
        simp [hw.1.1.2, hw.1.2, hw.2]
      simp only [hw, hnl, Bool.and_false, Bool.false_eq_true, if_false, Bool.false_and]
      rw [ht.cons (hcr w x rfl)]

/-- the state and the value after `\` at the start of a tame state -/
theorem sim_consumeEscaped (keep : Bool) (b : Ch) (t : List Ch) (ht : Tame (b :: t)) (hb : b.cp = 92)
    (hnl : headIs isNewline t = false) :
    CssSyntax.consumeEscaped keep (ppS t) =
      ((consumeEscape (b :: t)).1,
       ppS (match t with
            | c :: u =>
              (match isHex c.cp with
               | some h => if keep && headIs isNewline (hexLoop 5 h u).2 then (hexLoop 5 h u).2 else (consumeEscape (b :: t)).2
               | none => (consumeEscape (b :: t)).2)
            | [] => [])) := by
  cases t with
  | nil => simp [CssSyntax.consumeEscaped, consumeEscape, ppS_nil, runeError]
  | cons c u =>
    simp only [headIs] at hnl
    have hcne : c.cp ≠ 13 := by intro h; simp [isNewline, h] at hnl
    have htt := ht.tail
    rw [htt.cons (crlfAt_of_ne_cr c u hcne)]
    obtain ⟨hx1, hx2⟩ := cls_hex c.cp
    simp only [CssSyntax.consumeEscaped, consumeEscape, hx1]
    cases hh : isHex c.cp with
    | none => simp [hh, ppc_of_not_newline c.cp hnl]
    | some h =>
      simp only [hh, Option.isSome_some, if_true, hx2 h hh]
      rw [sim_hexDigits 5 h u htt.tail, escapeValue_eq]
      simp only
      have htr : Tame (hexLoop 5 h u).2 := htt.tail.suffix (hexLoop_suffix 5 h u)
      rw [sim_skipEscapeWhitespace keep _ htr]
      · intro w x hwx
        have := ht.noHexCRLF (b :: c :: u) (List.suffix_refl _)
        simp only [hexEscCRLF, hb, beq_self_eq_true, Bool.true_and, hh, hwx] at this
        exact this

theorem sim_consumeEscaped_std (b : Ch) (t : List Ch) (ht : Tame (b :: t)) (hb : b.cp = 92)
    (hnl : headIs isNewline t = false) :
    CssSyntax.consumeEscaped false (ppS t) = ((consumeEscape (b :: t)).1, ppS (consumeEscape (b :: t)).2) := by
  rw [sim_consumeEscaped false b t ht hb hnl]
  cases t with
  | nil => simp [consumeEscape]
  | cons c u => simp only; cases isHex c.cp <;> simp

theorem ppc_eq_92 (c : Nat) : ppc c = 92 ↔ c = 92 := by unfold ppc; split <;> omega

/-- §4.3.8 on the preprocessed stream = `isValidEscape` on the state -/
theorem sim_validEscape (s : List Ch) (ht : Tame s) : CssSyntax.validEscape (ppS s) = isValidEscape s := by
  cases s with
  | nil => rfl
  | cons c t =>
    by_cases hc : c.cp = 92
    · rw [ht.cons (crlfAt_of_ne_cr c t (by omega))]
      have : ppc c.cp = 92 := (ppc_eq_92 _).2 hc
      rw [this]
      simp only [isValidEscape, hc, beq_self_eq_true, Bool.true_and]
      cases t with
      | nil => simp [ppS_nil, CssSyntax.validEscape, headIs]
      | cons d u =>
        obtain ⟨r, hr⟩ := ht.tail.head
        rw [hr]
        simp [CssSyntax.validEscape, headIs, cls_newline]
    · obtain ⟨r, hr⟩ := ht.head
      rw [hr]
      have : ppc c.cp ≠ 92 := fun h => hc ((ppc_eq_92 _).1 h)
      have h2 : (c.cp == 92) = false := by simp [hc]
      simp only [isValidEscape, h2, Bool.false_and]
      unfold CssSyntax.validEscape
      split
      · next h => simp only [List.cons.injEq] at h; exact absurd h.1 this
      · next h => simp only [List.cons.injEq] at h; exact absurd h.1 this
      · rfl

theorem isNameContinue_ne_cr (c : Nat) (h : isNameContinue c = true) : c ≠ 13 := by
  intro hc; subst hc; simp [isNameContinue, isNameStart, isDigit] at h

theorem isNameContinue_not_newline (c : Nat) (h : isNameContinue c = true) : isNewline c = false := by
  unfold isNameContinue isNameStart isDigit at h
  unfold isNewline
  simp only [Bool.or_eq_true, Bool.and_eq_true, decide_eq_true_eq, beq_iff_eq] at h
  simp only [Bool.or_eq_false_iff, beq_eq_false_iff_ne, ne_eq]
  omega

/-- S4: §4.3.11 "consume an ident sequence" on the preprocessed stream reads the code points of `nameCps` and stops
where the model's `consumeName` stops -/
theorem sim_consumeIdentSeq (s : List Ch) (ht : Tame s) :
    CssSyntax.consumeIdentSeq (ppS s) = ((nameCps s).1, ppS (nameCps s).2) := by
  fun_induction nameCps s with
  | case1 => simp [ppS_nil, CssSyntax.consumeIdentSeq]
  | case2 c t h ih =>
    rw [ht.cons (crlfAt_of_ne_cr c t (isNameContinue_ne_cr _ h))]
    rw [CssSyntax.consumeIdentSeq]
    have hcode := cls_identCode c.cp ht.ne0
    rw [ppc_of_not_newline c.cp (isNameContinue_not_newline _ h)] at hcode ⊢
    simp only [hcode, h, if_true, ih ht.tail]
  | case3 c t h1 h2 ih =>
    have hc : c.cp = 92 := by simp only [isValidEscape, Bool.and_eq_true, beq_iff_eq] at h2; exact h2.1
    have hnl : headIs isNewline t = false := by simp only [isValidEscape, Bool.and_eq_true, Bool.not_eq_true'] at h2; exact h2.2
    have hv := sim_validEscape (c :: t) ht
    rw [ht.cons (crlfAt_of_ne_cr c t (by omega))] at hv ⊢
    rw [CssSyntax.consumeIdentSeq]
    have h1' : CssSyntax.isIdentCode (ppc c.cp) = false := by rw [cls_identCode c.cp ht.ne0]; simpa using h1
    simp only [h1', Bool.false_eq_true, if_false, hv, h2, if_true]
    rw [sim_consumeEscaped_std c t ht hc hnl]
    simp only
    rw [ih (ht.suffix (consumeEscape_suffix _))]
  | case4 c t h1 h2 =>
    obtain ⟨r, hr⟩ := ht.head
    have hv := sim_validEscape (c :: t) ht
    rw [hr] at hv ⊢
    rw [CssSyntax.consumeIdentSeq]
    have h1' : CssSyntax.isIdentCode (ppc c.cp) = false := by rw [cls_identCode c.cp ht.ne0]; simpa using h1
    have h2' : isValidEscape (c :: t) = false := by simpa using h2
    simp [h1', hv, h2']

end EsbuildModel.CssLex
