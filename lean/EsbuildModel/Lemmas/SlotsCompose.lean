import EsbuildModel.Props.C15
/-!
Slot → name is injective for the table `AssignNamesByFrequency` fills (consequence of Props/C15.lean), in the
form needed to compose it with the slot separation of Props/C15Slots.lean.
-/
namespace EsbuildModel.Rename

theorem zip_snd_inj {α β : Type} : ∀ (xs : List α) (ys : List β), ys.Nodup → ∀ {i j : α} {n : β},
    (i, n) ∈ xs.zip ys → (j, n) ∈ xs.zip ys → i = j
  | [], _, _, _, _, _, h, _ => by simp at h
  | _ :: _, [], _, _, _, _, h, _ => by simp at h
  | x :: xs, y :: ys, hn, i, j, n, hi, hj => by
    simp only [List.zip_cons_cons, List.mem_cons, Prod.mk.injEq] at hi hj
    rw [List.nodup_cons] at hn
    rcases hi with ⟨rfl, rfl⟩ | hi
    · rcases hj with ⟨rfl, _⟩ | hj
      · rfl
      · exact absurd (List.of_mem_zip hj).2 hn.1
    · rcases hj with ⟨_, rfl⟩ | hj
      · exact absurd (List.of_mem_zip hi).2 hn.1
      · exact zip_snd_inj xs ys hn.2 hi hj

/-- two different slots of one namespace never receive the same name -/
theorem assign_names_injective (a : Alphabet) (hh : a.head.Nodup) (ht : a.tail.Nodup) (hH : 0 < a.head.length)
    (hT : 0 < a.tail.length) (ns : Nat) (reserved : List (List Char)) (fuel : Nat) (slots : List Slot)
    (pairs : List (Nat × List Char)) (h : assign a ns reserved fuel slots = some pairs)
    {i j : Nat} {n1 n2 : List Char} (h1 : (i, n1) ∈ pairs) (h2 : (j, n2) ∈ pairs) (hij : i ≠ j) : n1 ≠ n2 := by
  unfold assign at h
  simp only [Option.map_eq_some_iff] at h
  obtain ⟨ks, hks, rfl⟩ := h
  have hp := (assignSeq_spec _ 0 ks hks).2.1
  have hnd : (ks.map (fun k => (if ns = 2 then ['#'] else []) ++ name a k)).Nodup := by
    refine List.Pairwise.map _ (fun x y hlt heq => ?_) hp
    have := name_injective a hh ht hH hT x y (List.append_cancel_left heq)
    omega
  intro heq
  subst heq
  exact hij (zip_snd_inj _ _ hnd h1 h2)

end EsbuildModel.Rename
