import EsbuildModel.Lemmas.CssSpecSim4
import EsbuildModel.Lemmas.CssPrintIdent
/-!
Simulation model ↔ specification, part 5: URLs (§4.3.6, §4.3.14 with the reading `badUrlSkipsAfterEscape`) and
ident-like tokens (§4.3.4).
-/
namespace EsbuildModel.CssLex
open EsbuildModel.Spec
open EsbuildModel.Spec.Unicode (IsScalar)

theorem remnants_cons_plain (q : CssSyntax.Quirks) (c : Nat) (p : List Nat) (h1 : c ≠ 0x29) (h2 : c ≠ 0x5C) :
    CssSyntax.consumeBadUrlRemnants q (c :: p) = CssSyntax.consumeBadUrlRemnants q p := by
  rw [CssSyntax.consumeBadUrlRemnants]
  have : CssSyntax.validEscape (c :: p) = false := by
    unfold CssSyntax.validEscape
    split
    · next h => simp only [List.cons.injEq] at h; exact absurd h.1 h2
    · next h => simp only [List.cons.injEq] at h; exact absurd h.1 h2
    · rfl
  simp [h1, this]

theorem badUrl_cons_plain (c : Ch) (t : List Ch) (h1 : c.cp ≠ 41) (h2 : c.cp ≠ 92) : badUrl (c :: t) = badUrl t := by
  rw [badUrl]; simp [h1, h2]

/-- §4.3.14 "consume the remnants of a bad url" (reading `badUrlSkipsAfterEscape`) -/
theorem sim_badUrl (q : CssSyntax.Quirks) (hq : q.badUrlSkipsAfterEscape = true) (s : List Ch) (ht : Tame s) :
    CssSyntax.consumeBadUrlRemnants q (ppS s) = ppS (badUrl s).2 := by
  fun_induction badUrl s with
  | case1 => simp [ppS_nil, CssSyntax.consumeBadUrlRemnants]
  | case2 c t hc =>
    simp only [beq_iff_eq] at hc
    rw [ht.cons (crlfAt_of_ne_cr c t (by omega)), (ppc_eq_iff _ 41 (by omega) (by omega) (by omega)).2 hc,
      CssSyntax.consumeBadUrlRemnants]
    simp
  | case3 c t h41 h92 hv ih =>
    simp only [beq_iff_eq] at h92
    have hnl : headIs isNewline t = false := by
      simp only [isValidEscape, Bool.and_eq_true, Bool.not_eq_true'] at hv; exact hv.2
    have hve := sim_validEscape (c :: t) ht
    rw [ht.cons (crlfAt_of_ne_cr c t (by omega)), (ppc_eq_92 _).2 h92] at hve ⊢
    rw [CssSyntax.consumeBadUrlRemnants]
    simp only [show ¬ ((92 : Nat) = 0x29) by omega, if_false, hve, hv, if_true, hq]
    rw [sim_consumeEscaped_std c t ht h92 hnl]
    simp only
    have htr : Tame (consumeEscape (c :: t)).2 := ht.suffix (consumeEscape_suffix _)
    have ih' := ih (htr.suffix (step_suffix _))
    cases hr : (consumeEscape (c :: t)).2 with
    | nil => rw [hr] at ih'; simpa [step, ppS_nil] using ih'
    | cons w x =>
      rw [hr] at ih' htr
      simp only [step] at ih' ⊢
      by_cases hcr : crlfAt w x = true
      · -- the rune after the escape is the CR of a CR LF: the model skips the CR, the LF is skipped next
        rw [ppS_crlf w x hcr]
        simp only [crlfAt, Bool.and_eq_true, beq_iff_eq] at hcr
        cases x with
        | nil => simp [headIs] at hcr
        | cons y z =>
          simp only [headIs, beq_iff_eq] at hcr
          have hy : crlfAt y z = false := crlfAt_of_ne_cr y z (by omega)
          rw [htr.tail.cons hy] at ih' ⊢
          simp only [List.drop_succ_cons, List.drop_zero]
          have hp : ppc y.cp = 10 := by simp [ppc, hcr.2]
          rw [hp, remnants_cons_plain q 10 _ (by omega) (by omega)] at ih'
          exact ih'
      · have hcr' : crlfAt w x = false := by simpa using hcr
        rw [htr.cons hcr']
        simpa using ih'
  | case4 c t h41 h92 hv ih =>
    simp only [beq_iff_eq] at h92
    have hve := sim_validEscape (c :: t) ht
    rw [ht.cons (crlfAt_of_ne_cr c t (by omega)), (ppc_eq_92 _).2 h92] at hve ⊢
    rw [CssSyntax.consumeBadUrlRemnants]
    have hv' : isValidEscape (c :: t) = false := by simpa using hv
    simp only [show ¬ ((92 : Nat) = 0x29) by omega, if_false, hve, hv', Bool.false_eq_true]
    exact ih ht.tail
  | case5 c t h41 h92 ih =>
    have h41' : c.cp ≠ 41 := by simpa using h41
    have h92' : c.cp ≠ 92 := by simpa using h92
    by_cases hcr : crlfAt c t = true
    · rw [ppS_crlf c t hcr]; exact ih ht.tail
    · have hcr' : crlfAt c t = false := by simpa using hcr
      rw [ht.cons hcr']
      have hp1 : ppc c.cp ≠ 0x29 := fun h => h41' ((ppc_eq_iff _ 41 (by omega) (by omega) (by omega)).1 h)
      have hp2 : ppc c.cp ≠ 0x5C := fun h => h92' ((ppc_eq_92 _).1 h)
      rw [remnants_cons_plain q _ _ hp1 hp2]
      exact ih ht.tail

/-- the value of the URL whose body starts at `s` (meaningful when the token is a URL token): the code points the
specification appends, along the model's `consumeURL` -/
def urlVal (s : List Ch) : List Nat :=
  match s with
  | [] => []
  | c :: t =>
    if c.cp == 41 then []
    else if isWhitespace c.cp then []
    else if c.cp == 34 || c.cp == 39 || c.cp == 40 then []
    else if c.cp == 92 then
      if !isValidEscape (c :: t) then [] else (consumeEscape (c :: t)).1 :: urlVal (consumeEscape (c :: t)).2
    else if isNonPrintable c.cp then []
    else c.cp :: urlVal t
termination_by s.length
decreasing_by
  · have := consumeEscape_length c t; simp only [List.length_cons]; omega
  · simp

theorem isWhitespace_of_crlfAt (c : Ch) (t : List Ch) (h : crlfAt c t = true) : isWhitespace c.cp = true := by
  simp only [crlfAt, Bool.and_eq_true, beq_iff_eq] at h; simp [isWhitespace, h.1]

/-- a state that starts with whitespace: its preprocessed form starts with whitespace too, and dropping the
whitespace on both sides leads to corresponding states -/
theorem ppS_whitespace_run (c : Ch) (t : List Ch) (ht : Tame (c :: t)) (hw : isWhitespace c.cp = true) :
    ∃ w p, ppS (c :: t) = w :: p ∧ CssSyntax.isWhitespace w = true ∧
      CssSyntax.dropWhitespace p = ppS (skipWhile isWhitespace t) := by
  obtain ⟨r, hr⟩ := ht.head
  refine ⟨ppc c.cp, r, hr, by rw [cls_whitespace]; exact hw, ?_⟩
  have h1 := sim_dropWhitespace (c :: t) ht
  rw [hr] at h1
  simp only [CssSyntax.dropWhitespace, cls_whitespace, hw, if_true, skipWhile] at h1
  exact h1

/-- S10: §4.3.6 "consume a url token", after the leading whitespace -/
theorem sim_urlLoop (q : CssSyntax.Quirks) (hq : q.badUrlSkipsAfterEscape = true) (s : List Ch) (ht : Tame s)
    (acc : List Nat) :
    CssSyntax.urlLoop q acc (ppS s) =
      (if (consumeURL s).1 = .TURL then .url (acc.reverse ++ urlVal s) else .badUrl, ppS (consumeURL s).2) := by
  fun_induction consumeURL s generalizing acc with
  | case1 => simp [ppS_nil, CssSyntax.urlLoop, urlVal]
  | case2 c t hc =>
    simp only [beq_iff_eq] at hc
    rw [ht.cons (crlfAt_of_ne_cr c t (by omega)), (ppc_eq_iff _ 41 (by omega) (by omega) (by omega)).2 hc,
      CssSyntax.urlLoop, urlVal]
    simp [hc]
  | case3 c t h41 hw hnil =>
    obtain ⟨w, p, hp, hww, hdrop⟩ := ppS_whitespace_run c t ht hw
    have hwn : w ≠ 0x29 := by intro h; rw [h] at hww; simp [CssSyntax.isWhitespace, CssSyntax.isNewline] at hww
    rw [hp, CssSyntax.urlLoop, urlVal]
    simp only [hwn, if_false, hww, if_true, hdrop, hnil, ppS_nil, h41, Bool.false_eq_true, hw]
    simp
  | case4 c t h41 hw d u hdu hd =>
    obtain ⟨w, p, hp, hww, hdrop⟩ := ppS_whitespace_run c t ht hw
    have hwn : w ≠ 0x29 := by intro h; rw [h] at hww; simp [CssSyntax.isWhitespace, CssSyntax.isNewline] at hww
    simp only [beq_iff_eq] at hd
    have htd : Tame (d :: u) := by rw [← hdu]; exact ht.tail.suffix (skipWhile_suffix _ _)
    rw [hp, CssSyntax.urlLoop, urlVal]
    simp only [hwn, if_false, hww, if_true, hdrop, hdu, h41, Bool.false_eq_true, hw]
    rw [htd.cons (crlfAt_of_ne_cr d u (by omega)), (ppc_eq_iff _ 41 (by omega) (by omega) (by omega)).2 hd]
    simp
  | case5 c t h41 hw d u hdu hd =>
    obtain ⟨w, p, hp, hww, hdrop⟩ := ppS_whitespace_run c t ht hw
    have hwn : w ≠ 0x29 := by intro h; rw [h] at hww; simp [CssSyntax.isWhitespace, CssSyntax.isNewline] at hww
    have hd' : d.cp ≠ 41 := by simpa using hd
    have htd : Tame (d :: u) := by rw [← hdu]; exact ht.tail.suffix (skipWhile_suffix _ _)
    obtain ⟨r, hr⟩ := htd.head
    have hsim := sim_badUrl q hq (d :: u) htd
    rw [hp, CssSyntax.urlLoop]
    simp only [hwn, if_false, hww, if_true, hdrop, hdu]
    rw [hr] at hsim ⊢
    have hpd : ppc d.cp ≠ 0x29 := fun h => hd' ((ppc_eq_iff _ 41 (by omega) (by omega) (by omega)).1 h)
    simp only [hpd, if_false, hsim, badUrl_kind]
    simp
  | case6 c t h41 hw hq3 =>
    have hw' : isWhitespace c.cp = false := by simpa using hw
    have h41' : c.cp ≠ 41 := by simpa using h41
    have hcr : c.cp ≠ 13 := by intro h; simp [isWhitespace, h] at hw'
    have hq3' : c.cp = 34 ∨ c.cp = 39 ∨ c.cp = 40 := by
      simp only [Bool.or_eq_true, beq_iff_eq] at hq3; omega
    have hp : ppc c.cp = c.cp := by unfold ppc; split <;> omega
    have hwS : CssSyntax.isWhitespace c.cp = false := by rw [← hp, cls_whitespace]; exact hw'
    rw [ht.cons (crlfAt_of_ne_cr c t hcr), hp, CssSyntax.urlLoop]
    have hq3S : c.cp = 0x22 ∨ c.cp = 0x27 ∨ c.cp = 0x28 ∨ CssSyntax.isNonPrintable c.cp = true := by omega
    simp only [h41', if_false, hwS, Bool.false_eq_true, hq3S, if_true, badUrl_kind]
    rw [badUrl_cons_plain c t h41' (by omega), sim_badUrl q hq t ht.tail]
    simp
  | case7 c t h41 hw hq3 h92 hv =>
    simp only [beq_iff_eq] at h92
    have hw' : isWhitespace c.cp = false := by simpa using hw
    have hve := sim_validEscape (c :: t) ht
    have hv' : isValidEscape (c :: t) = false := by simpa using hv
    rw [ht.cons (crlfAt_of_ne_cr c t (by omega)), (ppc_eq_92 _).2 h92] at hve ⊢
    rw [CssSyntax.urlLoop]
    simp only [show ¬ ((92 : Nat) = 0x29) by omega, if_false,
      show CssSyntax.isWhitespace 92 = false from rfl, Bool.false_eq_true,
      show ¬ ((92 : Nat) = 0x22 ∨ (92 : Nat) = 0x27 ∨ (92 : Nat) = 0x28 ∨ CssSyntax.isNonPrintable 92 = true) by decide,
      if_true, hve, hv', badUrl_kind]
    have hbu : badUrl (c :: t) = badUrl t := by rw [badUrl]; simp [h92, hv']
    rw [hbu, sim_badUrl q hq t ht.tail]
    simp
  | case8 c t h41 hw hq3 h92 hv ih =>
    simp only [beq_iff_eq] at h92
    have hv' : isValidEscape (c :: t) = true := by simpa using hv
    have hnl : headIs isNewline t = false := by
      simp only [isValidEscape, Bool.and_eq_true, Bool.not_eq_true'] at hv'; exact hv'.2
    have hve := sim_validEscape (c :: t) ht
    rw [ht.cons (crlfAt_of_ne_cr c t (by omega)), (ppc_eq_92 _).2 h92] at hve ⊢
    rw [CssSyntax.urlLoop]
    simp only [show ¬ ((92 : Nat) = 0x29) by omega, if_false,
      show CssSyntax.isWhitespace 92 = false from rfl, Bool.false_eq_true,
      show ¬ ((92 : Nat) = 0x22 ∨ (92 : Nat) = 0x27 ∨ (92 : Nat) = 0x28 ∨ CssSyntax.isNonPrintable 92 = true) by decide,
      if_true, hve, hv']
    rw [sim_consumeEscaped_std c t ht h92 hnl]
    simp only
    rw [ih (ht.suffix (consumeEscape_suffix _))]
    conv => rhs; rw [urlVal]
    simp [h92, hv', isWhitespace]
  | case9 c t h41 hw hq3 h92 hnp =>
    have hw' : isWhitespace c.cp = false := by simpa using hw
    have h41' : c.cp ≠ 41 := by simpa using h41
    have h92' : c.cp ≠ 92 := by simpa using h92
    have hcr : c.cp ≠ 13 := by intro h; simp [isWhitespace, h] at hw'
    have hnl : isNewline c.cp = false := by
      unfold isWhitespace at hw'; unfold isNewline
      simp only [Bool.or_eq_false_iff, beq_eq_false_iff_ne, ne_eq] at hw' ⊢; omega
    have hp : ppc c.cp = c.cp := ppc_of_not_newline _ hnl
    have hwS : CssSyntax.isWhitespace c.cp = false := by rw [← hp, cls_whitespace]; exact hw'
    have hnpS : CssSyntax.isNonPrintable c.cp = true := by rw [← hp, cls_nonPrintable _ ht.ne0]; exact hnp
    rw [ht.cons (crlfAt_of_ne_cr c t hcr), hp, CssSyntax.urlLoop]
    simp only [h41', if_false, hwS, Bool.false_eq_true, hnpS, or_true, if_true, badUrl_kind]
    rw [badUrl_cons_plain c t h41' h92', sim_badUrl q hq t ht.tail]
    simp
  | case10 c t h41 hw hq3 h92 hnp ih =>
    have hw' : isWhitespace c.cp = false := by simpa using hw
    have h41' : c.cp ≠ 41 := by simpa using h41
    have h92' : c.cp ≠ 92 := by simpa using h92
    have hcr : c.cp ≠ 13 := by intro h; simp [isWhitespace, h] at hw'
    have hnl : isNewline c.cp = false := by
      unfold isWhitespace at hw'; unfold isNewline
      simp only [Bool.or_eq_false_iff, beq_eq_false_iff_ne, ne_eq] at hw' ⊢; omega
    have hp : ppc c.cp = c.cp := ppc_of_not_newline _ hnl
    have hwS : CssSyntax.isWhitespace c.cp = false := by rw [← hp, cls_whitespace]; exact hw'
    have hnp' : isNonPrintable c.cp = false := by simpa using hnp
    have hnpS : CssSyntax.isNonPrintable c.cp = false := by rw [← hp, cls_nonPrintable _ ht.ne0]; exact hnp'
    have hq3' : ¬ (c.cp = 0x22 ∨ c.cp = 0x27 ∨ c.cp = 0x28 ∨ CssSyntax.isNonPrintable c.cp = true) := by
      simp only [Bool.or_eq_true, beq_iff_eq, not_or] at hq3
      simp only [hnpS, Bool.false_eq_true, or_false]; omega
    rw [ht.cons (crlfAt_of_ne_cr c t hcr), hp, CssSyntax.urlLoop]
    simp only [h41', if_false, hwS, Bool.false_eq_true, hq3', h92']
    rw [ih ht.tail]
    conv => rhs; rw [urlVal]
    simp [h41, hw, hq3, h92, hnp]

/-! ### the `url` test on the name -/

theorem rawOf_eq_ascii (z : List Ch) (hw : WfS z) (l : List Nat) (hl : ∀ b ∈ l, b < 128) :
    rawOf z = l ↔ cpsOf z = l := by
  induction z generalizing l with
  | nil => simp [rawOf, cpsOf]
  | cons c t ih =>
    rw [rawOf_cons]
    simp only [cpsOf, List.map_cons]
    rcases hw.head with ⟨h1, h2⟩ | ⟨h1, h2, h3⟩
    · rw [h2]
      cases l with
      | nil => simp
      | cons x xs =>
        simp only [List.cons_append, List.nil_append, List.cons.injEq]
        have := ih hw.tail xs (fun b hb => hl b (List.mem_cons_of_mem _ hb))
        simp only [cpsOf] at this
        rw [this]
    · constructor
      · intro h
        exfalso
        cases hr : c.raw with
        | nil => exact h2 hr
        | cons x xs =>
          rw [hr] at h
          cases l with
          | nil => simp at h
          | cons y ys =>
            simp only [List.cons_append, List.cons.injEq] at h
            have := h3 x (by rw [hr]; simp)
            have := hl y (by simp)
            omega
      · intro h
        exfalso
        cases l with
        | nil => simp at h
        | cons y ys =>
          simp only [List.cons.injEq] at h
          have := hl y (by simp)
          omega

theorem isUrlName_ascii (l : List Nat) (h : isUrlName l = true) : (∀ b ∈ l, b < 128) := by
  unfold isUrlName at h
  split at h
  · next u r l' =>
    simp only [Bool.and_eq_true, Bool.or_eq_true, beq_iff_eq] at h
    intro b hb
    simp only [List.mem_cons, List.not_mem_nil, or_false] at hb
    omega
  · simp at h

theorem isUrl_ascii (l : List Nat) (h : CssSyntax.isUrl l = true) : (∀ b ∈ l, b < 128) := by
  unfold CssSyntax.isUrl at h
  simp only [beq_iff_eq] at h
  match l with
  | [] => simp at h
  | [_] => simp at h
  | [_, _] => simp at h
  | _ :: _ :: _ :: _ :: _ => simp at h
  | [a, b, c] =>
    simp only [List.map_cons, List.map_nil, List.cons.injEq, and_true] at h
    unfold CssSyntax.lowerAscii at h
    intro x hx
    simp only [List.mem_cons, List.not_mem_nil, or_false] at hx
    obtain ⟨h1, h2, h3⟩ := h
    split at h1 <;> split at h2 <;> split at h3 <;> omega

theorem isUrlName_eq_isUrl (l : List Nat) : isUrlName l = CssSyntax.isUrl l := by
  unfold isUrlName CssSyntax.isUrl
  match l with
  | [] => rfl
  | [_] => simp
  | [_, _] => simp
  | [a, b, c] =>
    simp only [List.map_cons, List.map_nil]
    unfold CssSyntax.lowerAscii
    rw [Bool.eq_iff_iff]
    simp only [Bool.and_eq_true, Bool.or_eq_true, beq_iff_eq, List.cons.injEq, and_true]
    constructor
    · rintro ⟨⟨h1, h2⟩, h3⟩
      refine ⟨?_, ?_, ?_⟩ <;> split <;> omega
    · rintro ⟨h1, h2, h3⟩
      split at h1 <;> split at h2 <;> split at h3 <;> omega
  | _ :: _ :: _ :: _ :: _ => simp

/-- the `len(name) == 3 && …` test of `consumeIdentLike` on bytes is the specification's "ASCII case-insensitive
match for url" on code points -/
theorem isUrl_bytes_cps (z : List Ch) (hw : WfS z) : isUrlName (rawOf z) = CssSyntax.isUrl (cpsOf z) := by
  by_cases h1 : isUrlName (rawOf z) = true
  · have hasc := isUrlName_ascii _ h1
    have := (rawOf_eq_ascii z hw (rawOf z) hasc).1 rfl
    rw [this, ← isUrlName_eq_isUrl]
  · by_cases h2 : CssSyntax.isUrl (cpsOf z) = true
    · have hasc := isUrl_ascii _ h2
      have := (rawOf_eq_ascii z hw (cpsOf z) hasc).2 rfl
      rw [this, isUrlName_eq_isUrl]
    · simp only [Bool.not_eq_true] at h1 h2; rw [h1, h2]

theorem wfCh_mk (c : Nat) (hs : IsScalar c) : WfCh (mk c) := by
  by_cases h : c < 128
  · left; exact ⟨h, encRune_ascii c h⟩
  · right
    refine ⟨by simp [mk]; omega, encRune_ne_nil c, ?_⟩
    intro b hb
    simp only [mk] at hb
    rw [encRune_scalar c hs] at hb
    unfold Wtf8.encA at hb
    have : ¬ c ≤ 127 := by omega
    simp only [this, if_false] at hb
    split at hb
    · simp at hb; omega
    · split at hb <;> (simp at hb; omega)

theorem consumeEscape_scalar (s : List Ch) (hd : IsDec s) : IsScalar (consumeEscape s).1 := by
  have herr : IsScalar runeError := by decide
  match s with
  | [] => exact herr
  | [_] => exact herr
  | b :: c :: u =>
    simp only [consumeEscape]
    split
    · exact fixHex_scalar _
    · exact hd.scalar c (by simp)

theorem nameCps_scalar (s : List Ch) (hd : IsDec s) : ∀ c ∈ (nameCps s).1, IsScalar c := by
  fun_induction nameCps s with
  | case1 => intro c hc; simp at hc
  | case2 c t h ih =>
    intro x hx
    simp only [List.mem_cons] at hx
    rcases hx with rfl | hx
    · exact hd.scalar c (by simp)
    · exact ih hd.tail x hx
  | case3 c t h1 h2 ih =>
    intro x hx
    simp only [List.mem_cons] at hx
    rcases hx with rfl | hx
    · exact consumeEscape_scalar _ hd
    · exact ih (hd.suffix (consumeEscape_suffix _)) x hx
  | case4 => intro c hc; simp at hc

/-- the string `consumeName` returns, as far as the `url` test can tell, is the name's code points -/
theorem consumeName_isUrl (s : List Ch) (hd : IsDec s) :
    isUrlName (consumeName s).1 = CssSyntax.isUrl (nameCps s).1 := by
  have hsplit := takeWhile_skipWhile isNameContinue s
  have hX : WfS (takeWhileCh isNameContinue s) := fun c hc => hd.wf c (by rw [← hsplit]; simp [hc])
  have hdr : IsDec (skipWhile isNameContinue s) := hd.suffix (skipWhile_suffix _ _)
  rw [nameCps_skip]
  simp only
  unfold consumeName
  by_cases hv : isValidEscape (skipWhile isNameContinue s) = true
  · simp only [hv, if_true]
    rw [nameLoop_eq]
    simp only
    have hstop : headIs isNameContinue (skipWhile isNameContinue s) = false := by
      cases hs : skipWhile isNameContinue s with
      | nil => rfl
      | cons c t =>
        rw [hs] at hv
        simp only [isValidEscape, Bool.and_eq_true, beq_iff_eq] at hv
        simp [headIs, hv.1, isNameContinue, isNameStart, isDigit]
    have hnc : nameCps (skipWhile isNameContinue s) =
        ((consumeEscape (skipWhile isNameContinue s)).1 :: (nameCps (consumeEscape (skipWhile isNameContinue s)).2).1,
         (nameCps (consumeEscape (skipWhile isNameContinue s)).2).2) := by
      cases hs : skipWhile isNameContinue s with
      | nil => rw [hs] at hv; simp [isValidEscape] at hv
      | cons c t =>
        rw [hs] at hv hstop
        simp only [headIs] at hstop
        exact nameCps_cons_escape c t hstop hv
    rw [hnc]
    simp only
    -- the well-formed runes whose bytes / code points these are
    have hsc : ∀ x ∈ (consumeEscape (skipWhile isNameContinue s)).1 :: (nameCps (consumeEscape (skipWhile isNameContinue s)).2).1,
        IsScalar x := by
      intro x hx
      simp only [List.mem_cons] at hx
      rcases hx with rfl | hx
      · exact consumeEscape_scalar _ hdr
      · exact nameCps_scalar _ (hdr.suffix (consumeEscape_suffix _)) x hx
    have hz : WfS (takeWhileCh isNameContinue s ++
        ((consumeEscape (skipWhile isNameContinue s)).1 :: (nameCps (consumeEscape (skipWhile isNameContinue s)).2).1).map mk) := by
      intro c hc
      simp only [List.mem_append, List.mem_map] at hc
      rcases hc with hc | ⟨x, hx, rfl⟩
      · exact hX c hc
      · exact wfCh_mk x (hsc x hx)
    have := isUrl_bytes_cps _ hz
    rw [rawOf_append, rawOf_map_mk] at this
    simp only [cpsOf, List.map_append, List.map_map] at this
    simp only [List.flatMap_cons, List.append_assoc] at this ⊢
    rw [this]
    congr 1
    simp [cpsOf, mk, Function.comp_def]
  · have hv' : isValidEscape (skipWhile isNameContinue s) = false := by simpa using hv
    simp only [hv', Bool.false_eq_true, if_false]
    have hnc : nameCps (skipWhile isNameContinue s) = ([], skipWhile isNameContinue s) := by
      cases hs : skipWhile isNameContinue s with
      | nil => simp [nameCps]
      | cons c t =>
        rw [hs] at hv'
        have : isNameContinue c.cp = false := by
          have : ∀ (s : List Ch) c t, skipWhile isNameContinue s = c :: t → isNameContinue c.cp = false := by
            intro s
            induction s with
            | nil => intro c t h; simp [skipWhile] at h
            | cons d u ih =>
              intro c t h
              simp only [skipWhile] at h
              split at h
              · exact ih c t h
              · next hd => simp only [List.cons.injEq] at h; rw [← h.1]; simpa using hd
          exact this s c t hs
        exact nameCps_stop _ (by simp [headIs, this]) hv'
    rw [hnc]
    simp only [List.append_nil]
    exact isUrl_bytes_cps _ hX

/-! ### states in step, up to the whitespace the specification has already consumed -/

/-- the specification's stream `p` corresponds to the model's state `s`: they are the same, except that in front of
whitespace the specification may have consumed some, but not all, of it (§4.3.4 does that in front of a quoted url) -/
def Rel (s : List Ch) (p : List Nat) : Prop :=
  if headIs isWhitespace s = true then
    headP CssSyntax.isWhitespace p = true ∧ CssSyntax.dropWhitespace p = ppS (skipWhile isWhitespace s)
  else p = ppS s

theorem Rel.refl (s : List Ch) (ht : Tame s) : Rel s (ppS s) := by
  unfold Rel
  split
  · next hw =>
    refine ⟨?_, sim_dropWhitespace s ht⟩
    rw [ht.headP]; simpa [cls_whitespace] using hw
  · rfl

theorem dbo_spec (p : List Nat) :
    CssSyntax.dropWhitespace (CssSyntax.dropWhitespaceButOne p) = CssSyntax.dropWhitespace p ∧
    headP CssSyntax.isWhitespace (CssSyntax.dropWhitespaceButOne p) = headP CssSyntax.isWhitespace p ∧
    CssSyntax.startsQuoted (CssSyntax.dropWhitespaceButOne p) =
      headP (fun x => x == 0x22 || x == 0x27) (CssSyntax.dropWhitespace p) := by
  fun_induction CssSyntax.dropWhitespaceButOne p with
  | case1 c d t h ih =>
    simp only [Bool.and_eq_true] at h
    obtain ⟨ih1, ih2, ih3⟩ := ih
    refine ⟨?_, ?_, ?_⟩
    · rw [ih1]; simp [CssSyntax.dropWhitespace, h.1, h.2]
    · rw [ih2]; simp [headP, h.1, h.2]
    · rw [ih3]; simp [CssSyntax.dropWhitespace, h.1, h.2]
  | case2 c d t h =>
    refine ⟨rfl, rfl, ?_⟩
    simp only [Bool.and_eq_true, not_and, Bool.not_eq_true] at h
    simp only [CssSyntax.startsQuoted, CssSyntax.dropWhitespace]
    by_cases hc : CssSyntax.isWhitespace c = true
    · have hd := h hc
      have hcq : (c == 0x22 || c == 0x27) = false := by
        unfold CssSyntax.isWhitespace CssSyntax.isNewline at hc
        simp only [Bool.or_eq_true, beq_iff_eq] at hc
        simp only [Bool.or_eq_false_iff, beq_eq_false_iff_ne]; omega
      simp [hc, hd, hcq, headP]
    · simp [hc, headP]
  | case3 s hs =>
    refine ⟨rfl, rfl, ?_⟩
    match s, hs with
    | [], _ => rfl
    | [c], _ =>
      simp only [CssSyntax.startsQuoted, CssSyntax.dropWhitespace]
      by_cases hc : CssSyntax.isWhitespace c = true
      · have hcq : (c == 0x22 || c == 0x27) = false := by
          unfold CssSyntax.isWhitespace CssSyntax.isNewline at hc
          simp only [Bool.or_eq_true, beq_iff_eq] at hc
          simp only [Bool.or_eq_false_iff, beq_eq_false_iff_ne]; omega
        simp [hc, hcq, headP]
      · simp [hc, headP]
    | c :: d :: t, hs => exact absurd rfl (hs c d t)

theorem Rel.dbo (t : List Ch) (ht : Tame t) : Rel t (CssSyntax.dropWhitespaceButOne (ppS t)) := by
  obtain ⟨h1, h2, _⟩ := dbo_spec (ppS t)
  unfold Rel
  split
  · next hw =>
    refine ⟨?_, by rw [h1]; exact sim_dropWhitespace t ht⟩
    rw [h2, ht.headP]; simpa [cls_whitespace] using hw
  · next hw =>
    -- no whitespace in front: nothing is dropped
    cases t with
    | nil => simp [ppS_nil, CssSyntax.dropWhitespaceButOne]
    | cons c u =>
      obtain ⟨r, hr⟩ := ht.head
      rw [hr]
      simp only [headIs] at hw
      have : CssSyntax.isWhitespace (ppc c.cp) = false := by rw [cls_whitespace]; simpa using hw
      cases r with
      | nil => simp [CssSyntax.dropWhitespaceButOne]
      | cons d r' => rw [CssSyntax.dropWhitespaceButOne]; simp [this]

/-- the state at which `consumeIdentLike` hands over to `consumeURL` (after `name(` and whitespace) -/
def urlBodyOf (s : List Ch) : List Ch := skipWhile isWhitespace ((nameCps s).2.drop 1)

/-- the value of the ident-like token at `s`, as the specification computes it -/
def identLikeVal (s : List Ch) : List Nat :=
  match (consumeIdentLike s).1 with
  | .TURL => urlVal (urlBodyOf s)
  | .TBadURL => []
  | _ => (nameCps s).1

/-- S11: §4.3.4 "consume an ident-like token" -/
theorem sim_consumeIdentLike (q : CssSyntax.Quirks) (hq : q.badUrlSkipsAfterEscape = true) (s : List Ch) (ht : Tame s) :
    Rel (consumeIdentLike s).2 (CssSyntax.consumeIdentLike q (ppS s)).2 ∧
    specView (CssSyntax.consumeIdentLike q (ppS s)).1 = ⟨(consumeIdentLike s).1, identLikeVal s, [], false⟩ := by
  have hid := sim_consumeIdentSeq s ht
  have hrest := consumeName_rest s
  have hurl := consumeName_isUrl s ht.dec
  have htr : Tame (nameCps s).2 := ht.suffix (by rw [← hrest]; exact consumeName_suffix s)
  unfold identLikeVal urlBodyOf
  unfold CssSyntax.consumeIdentLike consumeIdentLike
  rw [hid, hrest, hurl]
  simp only
  cases hr : (nameCps s).2 with
  | nil => simp [ppS_nil, specView, Rel, headIs]
  | cons c t =>
    rw [hr] at htr
    by_cases h40 : c.cp = 40
    · rw [htr.cons (crlfAt_of_ne_cr c t (by omega)), (ppc_eq_iff _ 40 (by omega) (by omega) (by omega)).2 h40]
      simp only [h40, beq_self_eq_true, if_true, List.drop_succ_cons, List.drop_zero]
      by_cases hu : CssSyntax.isUrl (nameCps s).1 = true
      · simp only [hu, if_true]
        obtain ⟨d1, d2, d3⟩ := dbo_spec (ppS t)
        rw [d3, sim_dropWhitespace t htr.tail]
        have htw : Tame (skipWhile isWhitespace t) := htr.tail.suffix (skipWhile_suffix _ _)
        have hq' : headP (fun x => x == 0x22 || x == 0x27) (ppS (skipWhile isWhitespace t)) =
            headIs (fun x => x == 34 || x == 39) (skipWhile isWhitespace t) := by
          rw [htw.headP]
          congr 1
          funext x
          have e1 : (ppc x == 34) = (x == 34) := by
            rw [Bool.eq_iff_iff]; simp only [beq_iff_eq]; exact ppc_eq_iff x 34 (by omega) (by omega) (by omega)
          have e2 : (ppc x == 39) = (x == 39) := by
            rw [Bool.eq_iff_iff]; simp only [beq_iff_eq]; exact ppc_eq_iff x 39 (by omega) (by omega) (by omega)
          simp only [e1, e2]
        rw [hq']
        by_cases hquoted : headIs (fun x => x == 34 || x == 39) (skipWhile isWhitespace t) = true
        · simp only [hquoted, if_true, Bool.not_true, Bool.false_eq_true, if_false, specView]
          exact ⟨Rel.dbo t htr.tail, trivial⟩
        · simp only [hquoted, Bool.false_eq_true, if_false, Bool.not_false, if_true]
          unfold CssSyntax.consumeUrl
          rw [d1, sim_dropWhitespace t htr.tail, sim_urlLoop q hq _ htw []]
          have htu : Tame (consumeURL (skipWhile isWhitespace t)).2 := htw.suffix (consumeURL_suffix _)
          refine ⟨Rel.refl _ htu, ?_⟩
          rcases consumeURL_kind (skipWhile isWhitespace t) with hk | hk <;> simp [hk, specView]
      · simp only [hu, Bool.false_eq_true, if_false, specView]
        exact ⟨Rel.refl _ htr.tail, trivial⟩
    · obtain ⟨r, hr'⟩ := htr.head
      have hp : ppc c.cp ≠ 0x28 := fun h => h40 ((ppc_eq_iff _ 40 (by omega) (by omega) (by omega)).1 h)
      have h40' : (c.cp == 40) = false := by simp [h40]
      simp only [h40', Bool.false_eq_true, if_false]
      rw [hr']
      split
      · next t' heq => simp only [List.cons.injEq] at heq; exact absurd heq.1 hp
      · rw [← hr']; exact ⟨Rel.refl _ htr, by simp [specView]⟩

end EsbuildModel.CssLex
