import EsbuildModel.Lemmas.ExportMatchNames2
/-! Finite checks that establish `NoReexportCycle` and `ReexportsLink` for a concrete table (used by the non-vacuity
examples of Props/C02ExportMatch.lean). -/
namespace EsbuildModel.ExportMatch
open EsbuildModel.Spec EsbuildModel.Spec.EsModules

/-- a level function on modules that export stars never increase and named re-exports strictly decrease -/
theorem noReexportCycle_of_level {T : EsModules.Table} (level : Nat → Nat)
    (hstar : ∀ p ∈ T.zipIdx, ∀ s ∈ p.1.starExportEntries, level s ≤ level p.2)
    (hind : ∀ p ∈ T.zipIdx, ∀ e ∈ p.1.indirectExportEntries, level e.moduleRequest < level p.2) :
    NoReexportCycle T := by
  have hnode : ∀ m n m' n', node T m n = .ind m' n' → level m' < level m := by
    intro m n m' n' h
    unfold node at h
    split at h
    · cases h
    · rename_i module hm
      have hp : (module, m) ∈ T.zipIdx := List.mem_zipIdx_iff_getElem?.2 hm
      split at h
      · cases h
      · split at h
        · rename_i e he
          have := hind _ hp e (List.mem_of_find?_eq_some he)
          split at h
          · cases h
          · cases h; exact this
        · split at h <;> cases h
  have hsucc : ∀ x y, y ∈ succ T x → level y.1 ≤ level x.1 := by
    intro x y hy
    obtain ⟨m, n⟩ := x
    unfold succ at hy
    simp only at hy
    cases hk : node T m n with
    | ind m' n' =>
      rw [hk] at hy
      simp at hy; subst hy
      exact Nat.le_of_lt (hnode m n m' n' hk)
    | stars l =>
      rw [hk] at hy
      simp only [List.mem_map] at hy
      obtain ⟨s, hs, rfl⟩ := hy
      -- `l` is the module's star export list
      unfold node at hk
      split at hk
      · cases hk
      · rename_i module hm
        have hp : (module, m) ∈ T.zipIdx := List.mem_zipIdx_iff_getElem?.2 hm
        split at hk
        · cases hk
        · split at hk
          · split at hk <;> cases hk
          · split at hk
            · cases hk
            · cases hk
              exact hstar _ hp s hs
    | missing => rw [hk] at hy; simp at hy
    | loc _ => rw [hk] at hy; simp at hy
    | ns _ => rw [hk] at hy; simp at hy
    | dflt => rw [hk] at hy; simp at hy
  have hreach : ∀ x y, Reach T x y → level y.1 ≤ level x.1 := by
    intro x y h
    induction h with
    | refl => exact Nat.le_refl _
    | step _ hz ih => exact Nat.le_trans (hsucc _ _ hz) ih
  intro m n m' n' h hr
  have h1 := hnode m n m' n' h
  have h2 := hreach _ _ hr
  simp only at h2
  omega

/-- every indirect export entry of every module resolves to a binding -/
def linkCheck (T : EsModules.Table) : Bool :=
  T.zipIdx.all (fun p => p.1.indirectExportEntries.all (fun e =>
    match resolveExport T p.2 e.exportName with
    | some (.binding _) => true
    | _ => false))

theorem reexportsLink_of_check {T : EsModules.Table} (h : linkCheck T = true) : ReexportsLink T := by
  intro m module hm e he
  unfold linkCheck at h
  rw [List.all_eq_true] at h
  have := h (module, m) (List.mem_zipIdx_iff_getElem?.2 hm)
  rw [List.all_eq_true] at this
  have := this e he
  split at this
  · rename_i b hb
    exact ⟨b, hb⟩
  · cases this

end EsbuildModel.ExportMatch
