import EsbuildModel.Impl.Shake
import EsbuildModel.Lemmas.Split
/-!
Lemmas for the tree-shaking model: every edge stays inside the node range, so the fuelled closure is the
least closed set containing the root (Lemmas/Split.lean), and the edge list contains the edges the marking
rules talk about.
-/
namespace EsbuildModel.Shake
open EsbuildModel.Split (Closed Reach EdgesLt closure)

theorem wf_entries {s : S} (h : wf s = true) : ∀ e ∈ s.entries, e < s.nf := by
  simp only [wf, Bool.and_eq_true, List.all_eq_true, decide_eq_true_eq] at h
  exact h.1.1

theorem wf_file {s : S} (h : wf s = true) {f : Nat} {fi : FileInfo} (hf : s.files[f]? = some fi) :
    (∀ c, fi.css = some c → c < s.nf) ∧ ∀ g ∈ fi.cssImports, g < s.nf := by
  simp only [wf, Bool.and_eq_true, List.all_eq_true, decide_eq_true_eq] at h
  have := h.1.2 fi (List.mem_of_getElem? hf)
  constructor
  · intro c hc
    have h1 := this.1
    simp [hc] at h1
    exact h1
  · exact this.2

theorem wf_part {s : S} (h : wf s = true) {q : Nat} {p : Part} (hq : s.parts[q]? = some p) :
    p.file < s.nf ∧ (∀ d ∈ p.deps, d < s.np) ∧ ∀ im ∈ p.imps, ∀ g, im.target = some g → g < s.nf := by
  simp only [wf, Bool.and_eq_true, List.all_eq_true, decide_eq_true_eq] at h
  have := h.2 p (List.mem_of_getElem? hq)
  refine ⟨this.1.1, this.1.2, ?_⟩
  intro im him g hg
  have h1 := this.2 im him
  simp [hg] at h1
  exact h1

theorem lt_of_getElem? {α : Type} {l : List α} {i : Nat} {a : α} (h : l[i]? = some a) : i < l.length := by
  rcases Nat.lt_or_ge i l.length with h' | h'
  · exact h'
  · simp [List.getElem?_eq_none h'] at h

theorem mem_fileEdges {s : S} {e : Nat × Nat} :
    e ∈ fileEdges s ↔ ∃ f fi, s.files[f]? = some fi ∧ (fi.css = some e.2 ∧ e.1 = f ∨ e.2 ∈ fi.cssImports ∧ e.1 = f) := by
  simp only [fileEdges, List.mem_flatMap, List.mem_range]
  constructor
  · rintro ⟨f, _, he⟩
    cases hfi : s.files[f]? with
    | none => simp [hfi] at he
    | some fi =>
      refine ⟨f, fi, hfi, ?_⟩
      simp only [hfi, List.mem_append, List.mem_map] at he
      rcases he with h1 | ⟨g, hg, rfl⟩
      · left
        cases hc : fi.css with
        | none => simp [hc] at h1
        | some c => simp [hc] at h1; subst h1; exact ⟨rfl, rfl⟩
      · right; exact ⟨hg, rfl⟩
  · rintro ⟨f, fi, hfi, h⟩
    refine ⟨f, by simpa [S.nf] using lt_of_getElem? hfi, ?_⟩
    simp only [hfi, List.mem_append, List.mem_map]
    rcases h with ⟨hc, h1⟩ | ⟨hg, h1⟩
    · left; simp [hc]; exact Prod.ext h1 rfl
    · right; exact ⟨e.2, hg, Prod.ext h1.symm rfl⟩

theorem mem_partEdges {s : S} {e : Nat × Nat} :
    e ∈ partEdges s ↔ ∃ q p, s.parts[q]? = some p ∧
      ((∃ im ∈ p.imps, kept s im = true ∧ im.target = some e.2 ∧ e.1 = p.file) ∨
       (mustKeep s p = true ∧ e = (p.file, s.partNode q)) ∨
       e = (s.partNode q, p.file) ∨
       (∃ d ∈ p.deps, e = (s.partNode q, s.partNode d))) := by
  simp only [partEdges, List.mem_flatMap, List.mem_range]
  constructor
  · rintro ⟨q, _, he⟩
    cases hp : s.parts[q]? with
    | none => simp [hp] at he
    | some p =>
      refine ⟨q, p, hp, ?_⟩
      simp only [hp, List.mem_append, List.mem_filterMap, List.mem_filter, List.mem_map,
        List.mem_singleton] at he
      rcases he with ((⟨im, ⟨him, hk⟩, hm⟩ | h2) | h3) | ⟨d, hd, rfl⟩
      · left
        cases ht : im.target with
        | none => simp [ht] at hm
        | some g =>
          simp [ht] at hm
          subst hm
          exact ⟨im, him, hk, ht, rfl⟩
      · right; left
        split at h2
        · next hmk => simp at h2; exact ⟨hmk, h2⟩
        · simp at h2
      · right; right; left; exact h3
      · right; right; right; exact ⟨d, hd, rfl⟩
  · rintro ⟨q, p, hp, h⟩
    refine ⟨q, by simpa [S.np] using lt_of_getElem? hp, ?_⟩
    simp only [hp, List.mem_append, List.mem_filterMap, List.mem_filter, List.mem_map,
      List.mem_singleton]
    rcases h with ⟨im, him, hk, ht, h1⟩ | ⟨hmk, rfl⟩ | rfl | ⟨d, hd, rfl⟩
    · left; left; left
      exact ⟨im, ⟨him, hk⟩, by simp [ht]; exact Prod.ext h1.symm rfl⟩
    · left; left; right; simp [hmk]
    · left; right; rfl
    · right; exact ⟨d, hd, rfl⟩

theorem edges_lt {s : S} (h : wf s = true) : EdgesLt (s.root + 1) (edges s) := by
  intro e he
  simp only [edges, List.mem_append, List.mem_map] at he
  rcases he with (⟨x, hx, rfl⟩ | hf) | hp
  · have := wf_entries h x hx
    simp only [S.root] at *
    constructor <;> omega
  · obtain ⟨f, fi, hfi, hh⟩ := mem_fileEdges.mp hf
    have hfl : f < s.nf := by simpa [S.nf] using lt_of_getElem? hfi
    have hw := wf_file h hfi
    simp only [S.root]
    rcases hh with ⟨hc, h1⟩ | ⟨hg, h1⟩
    · have := hw.1 _ hc; constructor <;> omega
    · have := hw.2 _ hg; constructor <;> omega
  · obtain ⟨q, p, hq, hh⟩ := mem_partEdges.mp hp
    have hql : q < s.np := by simpa [S.np] using lt_of_getElem? hq
    have hw := wf_part h hq
    simp only [S.root, S.partNode] at *
    rcases hh with ⟨im, him, _, ht, h1⟩ | ⟨_, rfl⟩ | rfl | ⟨d, hd, rfl⟩
    · have := hw.2.2 im him _ ht; constructor <;> omega
    · constructor <;> simp <;> omega
    · constructor <;> simp <;> omega
    · have := hw.2.1 d hd; constructor <;> simp <;> omega

theorem live_closed {s : S} (h : wf s = true) : Closed (edges s) (liveSet s) := by
  unfold liveSet
  apply Split.closure_closed (edges_lt h)
  · exact ⟨by simp, by intro x hx; simp at hx; omega⟩
  · simp

theorem root_live (s : S) : s.root ∈ liveSet s :=
  Split.subset_closure _ _ _ _ (by simp)

theorem live_iff_reach {s : S} (h : wf s = true) (x : Nat) : x ∈ liveSet s ↔ Reach (edges s) s.root x :=
  Split.closure_iff_reach (edges_lt h) (Nat.lt_succ_self _) x

end EsbuildModel.Shake
