import EsbuildModel.Lemmas.LexNumRadix
/-
Soundness of the integer branch (`0b`/`0o`/`0x` literals, legacy octal, `0789`).
-/
namespace EsbuildModel.LexNum
open EsbuildModel.Spec.Num EsbuildModel.Spec.NumLit

/-- `lexer.Number` after the exact re-conversion -/
def fixed (P : Params) (src : List Char) (base : Nat) (legacy : Bool) (r : List Char) (s : St) (inv : Bool) (x : F64) : F64 :=
  if (ge53 x && !headIs r (fun c => c == 'n') && !inv) = true then
    match parseRadix base (((src.take s.end_).filter (fun c => c != '_')).drop (if legacy then 1 else 2)) with
    | some n => P.rnd n
    | none => x
  else x

theorem basePath_cases {P : Params} {src rest : List Char} {base : Nat} {legacy : Bool} {res : Res}
    (h : basePath P src rest base legacy = res) (hne : ∀ p, res ≠ .err p) :
    ∃ r s inv x,
      intLoop P base legacy (if legacy then rest else rest.tail) (if legacy then st1 else st1.step) true false (P.rnd 0)
        = .ok (r, s, inv, x) ∧
      (((headIs r (fun c => c == 'n') || inv) = true ∧ (headIs r (fun c => c == 'n') && legacy) = false ∧
          res = finish P r s false legacy
            (if headIs r (fun c => c == 'n') = true then fixed P src base legacy r s inv x
             else P.pf (stripUS s.usCount (src.take s.end_)))
            (stripUS s.usCount (src.take s.end_))) ∨
       ((headIs r (fun c => c == 'n') || inv) = false ∧
          res = finish P r s false legacy (fixed P src base legacy r s inv x) [])) := by
  unfold basePath at h
  simp only at h
  cases h1 : intLoop P base legacy (if legacy = true then rest else rest.tail) (if legacy = true then st1 else st1.step)
      true false (P.rnd 0) with
  | error p => rw [h1] at h; exact absurd h.symm (hne p)
  | ok res1 =>
    obtain ⟨r, s, inv, x⟩ := res1
    rw [h1] at h
    simp only at h
    refine ⟨r, s, inv, x, rfl, ?_⟩
    split at h
    · rename_i hc
      split at h
      · exact absurd h.symm (hne _)
      · rename_i hbl
        exact Or.inl ⟨hc, by simpa using hbl, h.symm⟩
    · rename_i hc
      exact Or.inr ⟨by simpa using hc, h.symm⟩

theorem letter_ne_us (r : Radix) (u : Bool) : r.letter u ≠ '_' := by cases r <;> cases u <;> decide

theorem base_pos (r : Radix) : 1 ≤ r.base := by cases r <;> decide

theorem radix_shape {P : Params} (r : Radix) (u : Bool) {cs r' : List Char} {s : St} {inv : Bool} {x : F64}
    (h : intLoop P r.base false cs st1.step true false (P.rnd 0) = .ok (r', s, inv, x)) (hp : s.prevUS = false) :
    ∃ run, sepDigits r.isDigit run = true ∧ ('0' :: r.letter u :: cs).take s.end_ = '0' :: r.letter u :: run ∧
      s.usCount = ('0' :: r.letter u :: run).count '_' ∧ ('0' :: r.letter u :: cs).drop s.end_ = r' ∧ inv = false ∧
      x = accRun P r.base (P.rnd 0) (strip run) ∧ s.end_ = ('0' :: r.letter u :: run).length := by
  obtain ⟨run, hseg, hrun, _, _, _, hinv, hx⟩ := intLoop_ok (inv_step inv_st1) h
  rw [hp] at hrun
  simp only [Bool.or_true] at hrun
  have hfun : intD r.base false = r.isDigit := funext (intD_radix r)
  rw [hfun] at hrun
  have hus : r.isDigit '_' = false := by rw [← intD_radix]; exact intD_us _ _
  have hsd := (runOK_sep r.isDigit hus run).2.1 hrun
  have hseg' := (seg_step (r := cs) (letter_ne_us r u) inv_st1).trans hseg
  obtain ⟨ht, hc, hl⟩ := hseg'.take (first := '0') (by decide)
  exact ⟨run, hsd, ht, hc, hseg'.drop, by simpa using hinv, hx, hl⟩

theorem radix_digits (r : Radix) {run : List Char} (h : sepDigits r.isDigit run = true) :
    strip run ≠ [] ∧ ∀ c ∈ strip run, ∃ d, hexValOf c = some d ∧ d < r.base := by
  have hus : r.isDigit '_' = false := by rw [← intD_radix]; exact intD_us _ _
  obtain ⟨_, h2, h3⟩ := sepDigits_strip r.isDigit hus h
  refine ⟨h3, fun c hc => intD_lt r ?_⟩
  rw [intD_radix]; exact h2 c hc

theorem radix_value {P : Params} {R : Rat → F64} (hP : ParamsOK P R) (r : Radix) (u : Bool) {src run r' : List Char}
    {s : St} {x : F64} (hsd : sepDigits r.isDigit run = true) (ht : src.take s.end_ = '0' :: r.letter u :: run)
    (hx : x = accRun P r.base (P.rnd 0) (strip run)) (hn : headIs r' (fun c => c == 'n') = false) :
    fixed P src r.base false r' s false x = R ((radixMV r.base (strip run) : Nat) : Rat) := by
  obtain ⟨hne, hds⟩ := radix_digits r hsd
  have hacc : AccInv P.rnd x (radixMV r.base (strip run)) := by
    rw [hx]; exact accRun_inv hP.rndOK r.base (base_pos r) (strip run) (accInv_zero _)
  have hdig : ((src.take s.end_).filter (fun c => c != '_')).drop 2 = strip run := by
    rw [ht]
    show (strip ('0' :: r.letter u :: run)).drop 2 = strip run
    rw [strip_cons_ne (by decide), strip_cons_ne (letter_ne_us r u)]
    rfl
  unfold fixed
  simp only [hn, Bool.not_false, Bool.and_true, Bool.false_eq_true, if_false, hdig, parseRadix_eq hne hds]
  rw [← hP.rnd]
  exact (acc_final hP.rndOK hacc).1

theorem radixPath_num {P : Params} {R : Rat → F64} (hP : ParamsOK P R) (r : Radix) (u : Bool) {cs : List Char}
    {len : Nat} {v : F64} {lg : Bool}
    (h : basePath P ('0' :: r.letter u :: cs) (r.letter u :: cs) r.base false = .num len v lg) :
    NumSound R ('0' :: r.letter u :: cs) len v lg := by
  obtain ⟨r', s, inv, x, h1, hcase⟩ := basePath_cases h (by intro p hp; cases hp)
  simp only [Bool.false_eq_true, if_false, List.tail_cons] at h1
  rcases hcase with ⟨hc, _, hfin⟩ | ⟨hc, hfin⟩
  · obtain ⟨hp, _, _, _, hnb⟩ := finish_num hfin.symm
    obtain ⟨run, _, _, _, _, hinv, _⟩ := radix_shape r u h1 hp
    rw [hinv] at hc
    simp only [Bool.not_false, Bool.and_true] at hnb
    rw [hnb] at hc
    cases hc
  · obtain ⟨hp, hlen, hv, hlg, hnb⟩ := finish_num hfin.symm
    obtain ⟨run, hsd, ht, _, _, hinv, hx, _⟩ := radix_shape r u h1 hp
    simp only [Bool.not_false, Bool.and_true] at hnb
    subst hinv
    refine ⟨Lit.nonDec r u run, hsd, rfl, by rw [hlen, ht]; rfl, ?_, by rw [hlg]; rfl⟩
    rw [hv, radix_value hP r u hsd ht hx hnb]
    rfl

theorem radixPath_big {P : Params} (r : Radix) (u : Bool) {cs : List Char}
    {len : Nat} {text : List Char} {lg : Bool}
    (h : basePath P ('0' :: r.letter u :: cs) (r.letter u :: cs) r.base false = .big len text lg) :
    BigSound ('0' :: r.letter u :: cs) len text lg := by
  obtain ⟨r', s, inv, x, h1, hcase⟩ := basePath_cases h (by intro p hp; cases hp)
  simp only [Bool.false_eq_true, if_false, List.tail_cons] at h1
  have hus : r.isDigit '_' = false := by rw [← intD_radix]; exact intD_us _ _
  rcases hcase with ⟨hc, _, hfin⟩ | ⟨hc, hfin⟩
  · obtain ⟨hp, hlen, htext, hlg, hn, _⟩ := finish_big hfin.symm
    obtain ⟨run, hsd, ht, hcount, hdrop, _, _, _⟩ := radix_shape r u h1 hp
    obtain ⟨r'', rfl⟩ := headIs_n hn
    rw [ht, stripUS_eq hcount, strip_cons_ne (by decide), strip_cons_ne (letter_ne_us r u)] at htext
    obtain ⟨hsd', _, _⟩ := sepDigits_strip r.isDigit hus hsd
    refine ⟨Lit.bigNonDec r u run, hsd, rfl, ?_, ⟨Lit.bigNonDec r u (strip run), hsd', rfl, ?_, ?_⟩, ?_, hlg⟩
    · rw [hlen, take_succ_of_drop hdrop, ht]; rfl
    · rw [htext]; rfl
    · simp only [Lit.mv, strip_strip]
    · rw [htext]
      intro c hc
      rcases List.mem_cons.1 hc with rfl | hc
      · decide
      · rcases List.mem_cons.1 hc with rfl | hc
        · exact letter_ne_us r u
        · exact strip_noUS _ c hc
  · obtain ⟨_, _, _, _, hn, _⟩ := finish_big hfin.symm
    rw [hn] at hc
    cases hc

/-! ### legacy octal and `0789` -/

theorem legacy_shape {P : Params} {rest r' : List Char} {s : St} {inv : Bool} {x : F64}
    (h : intLoop P 8 true rest st1 true false (P.rnd 0) = .ok (r', s, inv, x)) :
    ∃ run, run ≠ [] ∧ (∀ c ∈ run, isDig c = true) ∧ ('0' :: rest).take s.end_ = '0' :: run ∧
      s.usCount = ('0' :: run).count '_' ∧ ('0' :: rest).drop s.end_ = r' ∧ inv = run.any is89 ∧
      x = accRun P 8 (P.rnd 0) run ∧ s.end_ = ('0' :: run).length := by
  obtain ⟨run, hseg, hrun, hne, _, hnous, hinv, hx⟩ := intLoop_ok inv_st1 h
  have hfun : intD 8 true = isDig := funext intD_legacy
  rw [hfun] at hrun
  have hno := hnous rfl
  have hall := runOK_noUS isDig hrun hno
  obtain ⟨ht, hc, hl⟩ := hseg.take (first := '0') (by decide)
  rw [strip_of_noUS hno] at hx
  exact ⟨run, hne rfl, hall, ht, hc, hseg.drop, by simpa using hinv, hx, hl⟩

theorem legacyPath_num {P : Params} {R : Rat → F64} (hP : ParamsOK P R) {rest : List Char}
    {len : Nat} {v : F64} {lg : Bool} (h : basePath P ('0' :: rest) rest 8 true = .num len v lg) :
    NumSound R ('0' :: rest) len v lg := by
  obtain ⟨r', s, inv, x, h1, hcase⟩ := basePath_cases h (by intro p hp; cases hp)
  simp only [if_true] at h1
  obtain ⟨run, hne, hall, ht, hcount, _, hinv, hx, _⟩ := legacy_shape h1
  have hnous : ∀ c ∈ ('0' :: run), c ≠ '_' := by
    intro c hc
    rcases List.mem_cons.1 hc with rfl | hc
    · decide
    · exact isDig_ne_us (hall c hc)
  rcases hcase with ⟨hc, _, hfin⟩ | ⟨hc, hfin⟩
  · obtain ⟨_, hlen, hv, hlg, hnb⟩ := finish_num hfin.symm
    simp only [Bool.not_false, Bool.and_true] at hnb
    rw [hnb] at hc hv
    simp only [Bool.false_or] at hc
    simp only [Bool.false_eq_true, if_false] at hv
    have hnod : nonOctalDec ('0' :: run) = true := by
      rw [hc] at hinv
      have h89 := hinv.symm
      simp only [List.any_eq_true] at h89
      obtain ⟨y, hy, hy89⟩ := h89
      rw [is89_iff] at hy89
      simp only [nonOctalDec, Bool.and_eq_true, List.all_eq_true, List.any_eq_true]
      exact ⟨⟨⟨by decide, by simpa using hne⟩, hall⟩, y, hy, hy89⟩
    have hvalid : (Lit.dec ('0' :: run) none none).valid = true := by simp [Lit.valid, decIntOk, hnod, expSOk]
    refine ⟨Lit.dec ('0' :: run) none none, hvalid, rfl, ?_, ?_, by rw [hlg]; exact hnod.symm⟩
    · rw [hlen, ht]; simp [Lit.render, fracText, expSText]
    · rw [hv, ht, stripUS_eq hcount, ← dec_pf hP hvalid]
      simp [Lit.render, fracText, expSText]
  · obtain ⟨_, hlen, hv, hlg, hnb⟩ := finish_num hfin.symm
    simp only [Bool.not_false, Bool.and_true] at hnb
    rw [hnb] at hc
    simp only [Bool.false_or] at hc
    subst hc
    have hoct : ∀ c ∈ run, isOctDigit c = true ∧ ∃ d, hexValOf c = some d ∧ d < 8 := by
      intro c hcm
      refine octal_of_not89 (hall c hcm) ?_
      have := hinv.symm
      simp only [List.any_eq_false] at this
      simpa using this c hcm
    have hacc : AccInv P.rnd x (radixMV 8 run) := by
      rw [hx]; exact accRun_inv hP.rndOK 8 (by decide) run (accInv_zero _)
    have hdig : ((('0' :: rest).take s.end_).filter (fun c => c != '_')).drop 1 = run := by
      rw [ht]
      show (strip ('0' :: run)).drop 1 = run
      rw [strip_of_noUS hnous]; rfl
    have hfix : fixed P ('0' :: rest) 8 true r' s false x = P.rnd (radixMV 8 run) := by
      unfold fixed
      simp only [hnb, Bool.not_false, Bool.and_true, if_true, hdig,
        parseRadix_eq hne (fun c hcm => (hoct c hcm).2)]
      exact (acc_final hP.rndOK hacc).1
    refine ⟨Lit.legacyOctal run, ?_, rfl, by rw [hlen, ht]; rfl, ?_, by rw [hlg]; rfl⟩
    · simp only [Lit.valid, Bool.and_eq_true, List.all_eq_true]
      exact ⟨by simpa using hne, fun c hcm => (hoct c hcm).1⟩
    · rw [hv, hfix, hP.rnd]; rfl

theorem legacyPath_big {P : Params} {rest : List Char} {len : Nat} {text : List Char} {lg : Bool}
    (h : basePath P ('0' :: rest) rest 8 true = .big len text lg) : False := by
  obtain ⟨r', s, inv, x, _, hcase⟩ := basePath_cases h (by intro p hp; cases hp)
  rcases hcase with ⟨_, hbl, hfin⟩ | ⟨hc, hfin⟩
  · obtain ⟨_, _, _, _, hn, _⟩ := finish_big hfin.symm
    rw [hn] at hbl
    cases hbl
  · obtain ⟨_, _, _, _, hn, _⟩ := finish_big hfin.symm
    rw [hn] at hc
    cases hc

end EsbuildModel.LexNum
