import EsbuildModel.Impl.JsxText
import EsbuildModel.Spec.JsxText
/-!
# JSX entities: the model's `decodeJSXEntities` against the specification's `decodeEntities`

The hypotheses the proofs need are defined here (`Runes`, `NamesOK`); the property theorems are in
`Props/C01JsxText.lean`.
-/
set_option linter.unusedSimpArgs false
namespace EsbuildModel.JsxText
open EsbuildModel.Spec.JsxText
open EsbuildModel.Spec.Unicode (utf16)

/-! ### hypotheses -/

/-- every element is a code point (what `utf8.DecodeRuneInString` can return) -/
def Runes (text : Text) : Prop := ∀ c ∈ text, c ≤ 0x10FFFF

instance (text : Text) : Decidable (Runes text) := by unfold Runes; exact inferInstance

/-- the name table yields code points -/
def NamesOK (names : Text → Option Nat) : Prop := ∀ n v, names n = some v → v ≤ 0x10FFFF

theorem Runes.tail {c : Nat} {t : Text} (h : Runes (c :: t)) : Runes t :=
  fun x hx => h x (List.mem_cons_of_mem _ hx)

theorem Runes.of_append_right {a b : Text} (h : Runes (a ++ b)) : Runes b :=
  fun x hx => h x (List.mem_append_right _ hx)

theorem Runes.of_append_left {a b : Text} (h : Runes (a ++ b)) : Runes a :=
  fun x hx => h x (List.mem_append_left _ hx)

/-! ### `strings.IndexByte(s, ';')` and `splitSemi` -/

theorem splitSemi_spec : ∀ (s body after : Text), splitSemi s = some (body, after) →
    s = body ++ 59 :: after ∧ 59 ∉ body := by
  intro s
  induction s with
  | nil => intro body after h; simp [splitSemi] at h
  | cons c cs ih =>
    intro body after h
    unfold splitSemi at h
    split at h
    · rename_i hc
      simp at h
      obtain ⟨rfl, rfl⟩ := h
      simp [hc]
    · rename_i hc
      split at h
      · rename_i b a hs
        simp at h
        obtain ⟨rfl, rfl⟩ := h
        obtain ⟨h1, h2⟩ := ih b a hs
        constructor
        · simp [h1]
        · simp only [List.mem_cons, not_or]
          exact ⟨fun e => hc e.symm, h2⟩
      · simp at h

theorem indexSemi_none : ∀ (s : Text), indexSemi s = none → splitSemi s = none := by
  intro s
  induction s with
  | nil => intro _; rfl
  | cons c cs ih =>
    intro h
    unfold indexSemi at h
    split at h
    · simp at h
    · rename_i hc
      simp at h
      simp [splitSemi, hc, ih h]

theorem indexSemi_some : ∀ (s : Text) (n : Nat), indexSemi s = some n →
    splitSemi s = some (s.take n, s.drop (n + 1)) := by
  intro s
  induction s with
  | nil => intro n h; simp [indexSemi] at h
  | cons c cs ih =>
    intro n h
    unfold indexSemi at h
    split at h
    · rename_i hc
      simp at h
      subst h
      simp [splitSemi, hc]
    · rename_i hc
      simp at h
      obtain ⟨m, hm, rfl⟩ := h
      simp [splitSemi, hc, ih m hm]

theorem splitSemi_length : ∀ (s body after : Text), splitSemi s = some (body, after) →
    after.length < s.length := by
  intro s body after h
  obtain ⟨h1, _⟩ := splitSemi_spec s body after h
  subst h1
  simp
  omega

/-! ### digits: `strconv.ParseUint`'s digit loop against positional notation -/

/-- the digit class `isDigit` of the specification is exactly what `ParseUint` accepts in `base` -/
structure DigitsAgree (base : Nat) (isDigit : Nat → Bool) : Prop where
  yes : ∀ c, isDigit c = true → digitVal c = some (digitValue c) ∧ digitValue c < base
  no : ∀ c, isDigit c = false → ∀ d, digitVal c = some d → ¬ d < base

theorem digitsAgree_dec : DigitsAgree 10 isDecDigit := by
  constructor
  · intro c h
    simp [isDecDigit] at h
    unfold digitVal digitValue
    have h1 : 48 ≤ c ∧ c ≤ 57 := h
    simp [h1]
    omega
  · intro c h d hd
    simp [isDecDigit] at h
    unfold digitVal at hd
    split at hd
    · omega
    · split at hd
      · simp at hd; omega
      · split at hd
        · simp at hd; omega
        · simp at hd

theorem digitsAgree_hex : DigitsAgree 16 isHexDigit := by
  constructor
  · intro c h
    simp [isHexDigit, isDecDigit] at h
    unfold digitVal digitValue
    rcases h with (h | h) | h
    · have h1 : 48 ≤ c ∧ c ≤ 57 := h
      simp [h1]; omega
    · have h1 : ¬ (48 ≤ c ∧ c ≤ 57) := by omega
      have h2 : 97 ≤ c ∧ c ≤ 122 := by omega
      have h3 : ¬ c ≤ 57 := by omega
      simp [h1, h2, h3]; omega
    · have h1 : ¬ (48 ≤ c ∧ c ≤ 57) := by omega
      have h2 : ¬ (97 ≤ c ∧ c ≤ 122) := by omega
      have h3 : 65 ≤ c ∧ c ≤ 90 := by omega
      have h4 : ¬ c ≤ 57 := by omega
      have h5 : ¬ 97 ≤ c := by omega
      simp [h1, h2, h3, h4, h5]; omega
  · intro c h d hd
    simp [isHexDigit, isDecDigit] at h
    unfold digitVal at hd
    split at hd
    · omega
    · split at hd
      · simp at hd; omega
      · split at hd
        · simp at hd; omega
        · simp at hd

theorem parseDigits_eq {base : Nat} {isDigit : Nat → Bool} (hag : DigitsAgree base isDigit) :
    ∀ (ds : Text) (acc : Nat), parseDigits base ds acc =
      if ds.all isDigit then some (ds.foldl (fun a c => a * base + digitValue c) acc) else none := by
  intro ds
  induction ds with
  | nil => intro acc; simp [parseDigits]
  | cons c cs ih =>
    intro acc
    unfold parseDigits
    cases hc : isDigit c with
    | true =>
      obtain ⟨h1, h2⟩ := hag.yes c hc
      simp [h1, h2, ih, hc]
    | false =>
      have hno := hag.no c hc
      cases hd : digitVal c with
      | none => simp [hc]
      | some d => simp [hno d hd, hc]

theorem parseUint32_eq {base : Nat} {isDigit : Nat → Bool} (hag : DigitsAgree base isDigit) (s : Text) :
    parseUint32 s base =
      if (!s.isEmpty && s.all isDigit && decide (numeral base s < 4294967296)) = true
      then some (numeral base s) else none := by
  unfold parseUint32
  cases s with
  | nil => simp
  | cons d ds =>
    simp only [reduceCtorEq, if_false, parseDigits_eq hag]
    unfold numeral
    by_cases hall : (d :: ds).all isDigit = true
    · simp only [hall, if_true]
      by_cases hlt : List.foldl (fun a c => a * base + digitValue c) 0 (d :: ds) < 4294967296
      · simp [hlt]
      · simp [hlt]
    · simp [hall]

/-! ### one entity body: `entityValue` (model) against `charRef` (specification) -/

/-- `ParseUint(·, base, 32)` followed by `value <= utf8.MaxRune` is the specification's numeric reference -/
theorem numeral_core {base : Nat} {isDigit : Nat → Bool} (hag : DigitsAgree base isDigit) (num : Text) :
    (match parseUint32 num base with
      | some value => if value ≤ 0x10FFFF then some (value : Int) else none
      | none => none) = (numericRef base isDigit num).map Int.ofNat := by
  rw [parseUint32_eq hag]
  cases num with
  | nil => simp [numericRef]
  | cons c ds =>
    by_cases hall : (c :: ds).all isDigit = true
    · by_cases hle : numeral base (c :: ds) ≤ 0x10FFFF
      · have hlt : numeral base (c :: ds) < 4294967296 := by omega
        have hspec : numericRef base isDigit (c :: ds) = some (numeral base (c :: ds)) := by
          unfold numericRef; rw [if_pos]; exact ⟨by simp, hall, hle⟩
        simp [hall, hlt, hle, hspec]
      · have hspec : numericRef base isDigit (c :: ds) = none := by
          unfold numericRef; rw [if_neg]; exact fun h => hle h.2.2
        by_cases hlt : numeral base (c :: ds) < 4294967296
        · simp [hall, hlt, hle, hspec]
        · simp [hall, hlt, hspec]
    · have hspec : numericRef base isDigit (c :: ds) = none := by
        unfold numericRef; rw [if_neg]; exact fun h => hall h.2.1
      simp [hall, hspec]

theorem entityValue_hash (names : Text → Option Nat) (number : Text) :
    entityValue names (35 :: number) =
      match parseUint32 (if number.length > 1 ∧ number.head? = some 120 then (number.drop 1, 16) else (number, 10)).1
        (if number.length > 1 ∧ number.head? = some 120 then (number.drop 1, 16) else (number, 10)).2 with
      | some value => if value ≤ 0x10FFFF then some (value : Int) else none
      | none => none := rfl

theorem entityValue_other (names : Text → Option Nat) (c : Nat) (t : Text) (hc : c ≠ 35) :
    entityValue names (c :: t) = (names (c :: t)).map Int.ofNat := by
  unfold entityValue
  split
  · rename_i h; simp at h; exact absurd h.1 hc
  · rfl

theorem charRef_other (names : Text → Option Nat) (c : Nat) (t : Text) (hc : c ≠ 35) :
    charRef names (c :: t) = names (c :: t) := by
  unfold charRef
  split
  · rename_i h; simp at h
  · rename_i h; simp at h; exact absurd h.1 hc
  · rename_i h; simp at h; exact absurd h.1 hc
  · rfl

theorem charRef_hex (names : Text → Option Nat) (ds : Text) :
    charRef names (35 :: 120 :: ds) = numericRef 16 isHexDigit ds := rfl

theorem charRef_dec (names : Text → Option Nat) (ds : Text) (h : ds.head? ≠ some 120) :
    charRef names (35 :: ds) = numericRef 10 isDecDigit ds := by
  unfold charRef
  split
  · rename_i h'; simp at h'
  · rename_i h'; simp at h'; subst h'; simp at h
  · rename_i h'; simp at h'; subst h'; rfl
  · rename_i h1 h2 h3; exact absurd rfl (h3 ds)

/-- the model reads an entity body exactly as the specification does -/
theorem entityValue_eq_charRef (names : Text → Option Nat) (body : Text) (hne : body ≠ []) :
    entityValue names body = (charRef names body).map Int.ofNat := by
  cases body with
  | nil => exact absurd rfl hne
  | cons c t =>
    by_cases hc : c = 35
    · subst hc
      rw [entityValue_hash]
      cases t with
      | nil => simp [parseUint32, charRef, numericRef]
      | cons d ds =>
        by_cases hd : d = 120
        · subst hd
          cases ds with
          | nil =>
            have : parseUint32 [120] 10 = none := by
              rw [parseUint32_eq digitsAgree_dec]
              simp [isDecDigit]
            simp [charRef, numericRef, this]
          | cons e es =>
            have hcond : ((120 :: e :: es).length > 1 ∧ (120 :: e :: es).head? = some 120) := by simp
            simp only [hcond, and_self, if_true, List.drop_succ_cons, List.drop_zero]
            rw [charRef_hex]
            exact numeral_core digitsAgree_hex (e :: es)
        · have hcond : ¬ ((d :: ds).length > 1 ∧ (d :: ds).head? = some 120) := by simp [hd]
          simp only [hcond, if_false]
          rw [charRef_dec names (d :: ds) (by simp [hd])]
          exact numeral_core digitsAgree_dec (d :: ds)
    · rw [entityValue_other names c t hc, charRef_other names c t hc]

/-! ### the whole loop -/

theorem emit_eq_utf16 (c : Nat) (h : c ≤ 0x10FFFF) : emit (c : Int) = utf16 c := by
  unfold emit utf16
  by_cases hc : c ≤ 0xFFFF
  · have : (c : Int) ≤ 0xFFFF := by omega
    simp only [this, hc, if_true]
    congr 1
    omega
  · have h1 : ¬ (c : Int) ≤ 0xFFFF := by omega
    have e1 : ((0xD800 + ((c : Int) - 0x10000) / 1024 % 1024) % 65536).toNat = 0xD800 + (c - 0x10000) / 1024 := by
      omega
    have e2 : ((0xDC00 + ((c : Int) - 0x10000) % 1024) % 65536).toNat = 0xDC00 + (c - 0x10000) % 1024 := by
      omega
    simp only [h1, hc, if_false, e1, e2]

theorem emit_amp : emit 38 = utf16 38 := by decide

theorem indexSemi_lt : ∀ (s : Text) (n : Nat), indexSemi s = some n → n < s.length := by
  intro s
  induction s with
  | nil => intro n h; simp [indexSemi] at h
  | cons c cs ih =>
    intro n h
    unfold indexSemi at h
    split at h
    · simp at h; subst h; simp
    · simp at h
      obtain ⟨m, hm, rfl⟩ := h
      have := ih m hm
      simp; omega

/-- the model's entity block in the vocabulary of the specification -/
theorem entityAt_eq (names : Text → Option Nat) (rest : Text) :
    entityAt names rest =
      match splitSemi rest with
      | some (body, after) =>
        if body = [] then none else (entityValue names body).map (fun v => (v, after))
      | none => none := by
  unfold entityAt
  cases h : indexSemi rest with
  | none => simp [indexSemi_none rest h]
  | some n =>
    have hlt := indexSemi_lt rest n h
    simp only [indexSemi_some rest n h]
    by_cases hn : n > 0
    · have hne : rest.take n ≠ [] := by
        intro he
        have := congrArg List.length he
        simp only [List.length_take, List.length_nil] at this
        omega
      simp only [hn, if_true, hne, if_false]
      cases entityValue names (rest.take n) <;> rfl
    · have : n = 0 := by omega
      subst this
      simp

theorem charRef_le (names : Text → Option Nat) (hn : NamesOK names) (body : Text) (cp : Nat)
    (h : charRef names body = some cp) : cp ≤ 0x10FFFF := by
  have hnum : ∀ base isDigit ds, numericRef base isDigit ds = some cp → cp ≤ 0x10FFFF := by
    intro base isDigit ds h
    unfold numericRef at h
    split at h
    · rename_i hc; simp at h; omega
    · simp at h
  unfold charRef at h
  split at h
  · simp at h
  · exact hnum _ _ _ h
  · exact hnum _ _ _ h
  · exact hn _ _ h

/-- **the entity decoder is the specification's** -/
theorem decodeFrom_eq_decodeGo (names : Text → Option Nat) (hn : NamesOK names) :
    ∀ (fuel : Nat) (text : Text), Runes text →
      decodeFrom names fuel text = decodeGo names fuel text := by
  intro fuel
  induction fuel with
  | zero => intro text _; cases text <;> rfl
  | succ fuel ih =>
    intro text hr
    cases text with
    | nil => rfl
    | cons c rest =>
      have hc : c ≤ 0x10FFFF := hr c (by simp)
      have ihrest := ih rest hr.tail
      unfold decodeFrom decodeGo
      by_cases h38 : c = 38
      · subst h38
        simp only [if_true, entityAt_eq]
        cases hs : splitSemi rest with
        | none => simp [emit_amp, ihrest]
        | some ba =>
          obtain ⟨body, after⟩ := ba
          obtain ⟨hsplit, _⟩ := splitSemi_spec rest body after hs
          by_cases hb : body = []
          · subst hb
            simp [charRef, emit_amp, ihrest]
          · have hev := entityValue_eq_charRef names body hb
            simp only [hb, if_false, hev]
            cases hcr : charRef names body with
            | none => simp [emit_amp, ihrest]
            | some cp =>
              have hcp := charRef_le names hn body cp hcr
              have hra : Runes after := by
                have : Runes (body ++ 59 :: after) := hsplit ▸ hr.tail
                exact (Runes.of_append_right this).tail
              simp [emit_eq_utf16 cp hcp, ih after hra]
      · simp [h38, emit_eq_utf16 c hc, ihrest]

/-! ### the specification's decoder: unfolding equations (fuel never matters) -/

theorem utf16_ne_nil (cp : Nat) : utf16 cp ≠ [] := by
  unfold utf16; split <;> simp

theorem decodeGo_nil (names : Text → Option Nat) (fuel : Nat) : decodeGo names fuel [] = [] := by
  cases fuel <;> rfl

theorem decodeGo_succ (names : Text → Option Nat) (fuel c : Nat) (rest : Text) :
    decodeGo names (fuel + 1) (c :: rest) =
      match (if c = 38 then
              match splitSemi rest with
              | some (body, after) => (charRef names body).map (·, after)
              | none => none
            else none : Option (Nat × Text)) with
      | some (cp, after) => utf16 cp ++ decodeGo names fuel after
      | none => utf16 c ++ decodeGo names fuel rest := rfl

theorem decodeGo_fuel (names : Text → Option Nat) : ∀ (f1 f2 : Nat) (text : Text),
    text.length ≤ f1 → text.length ≤ f2 → decodeGo names f1 text = decodeGo names f2 text := by
  intro f1
  induction f1 with
  | zero =>
    intro f2 text h1 _
    have : text = [] := List.eq_nil_of_length_eq_zero (by omega)
    subst this
    simp [decodeGo_nil]
  | succ f1 ih =>
    intro f2 text h1 h2
    cases text with
    | nil => simp [decodeGo_nil]
    | cons c rest =>
      cases f2 with
      | zero => simp at h2
      | succ f2 =>
        simp at h1 h2
        rw [decodeGo_succ, decodeGo_succ]
        by_cases h38 : c = 38
        · simp only [h38, if_true]
          cases hs : splitSemi rest with
          | none => simp [ih f2 rest h1 h2]
          | some ba =>
            obtain ⟨body, after⟩ := ba
            have hlen := splitSemi_length rest body after hs
            cases hcr : charRef names body with
            | none => simp [hcr, ih f2 rest h1 h2]
            | some cp => simp [hcr, ih f2 after (by omega) (by omega)]
        · simp [h38, ih f2 rest h1 h2]

theorem decodeEntities_nil (names : Text → Option Nat) : decodeEntities names [] = [] := rfl

theorem splitSemi_append : ∀ (body after : Text), 59 ∉ body →
    splitSemi (body ++ 59 :: after) = some (body, after) := by
  intro body
  induction body with
  | nil => intro after _; simp [splitSemi]
  | cons c cs ih =>
    intro after h
    simp at h
    have hc : c ≠ 59 := fun e => h.1 e.symm
    simp [splitSemi, hc, ih after h.2]

/-- a character that does not start a character reference stands for itself -/
theorem decodeEntities_cons_lit (names : Text → Option Nat) (c : Nat) (rest : Text)
    (h : c = 38 → ∀ body after, splitSemi rest = some (body, after) → charRef names body = none) :
    decodeEntities names (c :: rest) = utf16 c ++ decodeEntities names rest := by
  unfold decodeEntities
  simp only [List.length_cons]
  rw [decodeGo_succ]
  by_cases h38 : c = 38
  · simp only [h38, if_true]
    cases hs : splitSemi rest with
    | none => rfl
    | some ba =>
      obtain ⟨body, after⟩ := ba
      simp [h h38 body after hs]
  · simp [h38]

/-- `&body;` with a body that denotes `cp` is replaced by the UTF-16 form of `cp`, and decoding resumes after the `;` -/
theorem decodeEntities_cons_ref (names : Text → Option Nat) (body after : Text) (cp : Nat)
    (hb : 59 ∉ body) (hcr : charRef names body = some cp) :
    decodeEntities names (38 :: body ++ 59 :: after) = utf16 cp ++ decodeEntities names after := by
  unfold decodeEntities
  simp only [List.length_cons, List.cons_append]
  rw [decodeGo_succ]
  simp only [if_true, splitSemi_append body after hb, hcr, Option.map_some]
  congr 1
  apply decodeGo_fuel <;> simp <;> omega

theorem decodeEntities_ne_nil (names : Text → Option Nat) (text : Text) (h : text ≠ []) :
    decodeEntities names text ≠ [] := by
  cases text with
  | nil => exact absurd rfl h
  | cons c rest =>
    unfold decodeEntities
    simp only [List.length_cons]
    rw [decodeGo_succ]
    split <;> simp [utf16_ne_nil]

/-- without `&` nothing is decoded -/
theorem decodeEntities_no_amp (names : Text → Option Nat) : ∀ (text : Text), 38 ∉ text →
    decodeEntities names text = text.flatMap utf16 := by
  intro text
  induction text with
  | nil => intro _; rfl
  | cons c rest ih =>
    intro h
    simp at h
    rw [decodeEntities_cons_lit names c rest (fun e => absurd e.symm h.1), ih h.2]
    simp

/-! ### the model's function in terms of the specification -/

theorem decodeJSXEntities_eq (names : Text → Option Nat) (hn : NamesOK names) (decoded : List Nat) (text : Text)
    (hr : Runes text) :
    decodeJSXEntities names decoded text = decoded ++ decodeEntities names text := by
  unfold decodeJSXEntities decodeEntities
  rw [decodeFrom_eq_decodeGo names hn _ text hr]

end EsbuildModel.JsxText
