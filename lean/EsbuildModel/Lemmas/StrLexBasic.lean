import EsbuildModel.Impl.StrLex
import EsbuildModel.Spec.JsStringLiteral
/-! Basic facts about the `StrLex` model: digit values, the `\u{…}` loop against the true (unbounded) value of the
digits, the final UTF-16 encoding, and the unfolding of the main loop. -/
namespace EsbuildModel.StrLex
open EsbuildModel.Spec.StrLit
open EsbuildModel.Spec.JsString (hexVal? utf16)

theorem hexVal_eq (c : Nat) : hexVal c = hexVal? c := by
  unfold hexVal hexVal?
  split
  · rfl
  · split
    · rw [if_neg (by omega)]; simp
    · split <;> simp

theorem hexVal_lt {c d : Nat} (h : hexVal c = some d) : d < 16 := by
  unfold hexVal at h
  split at h
  · cases h; omega
  · split at h
    · cases h; omega
    · split at h
      · cases h; omega
      · cases h

theorem isHexDigit_iff (c : Nat) : isHexDigit c = true ↔ ∃ d, hexVal c = some d ∧ d < 16 := by
  unfold isHexDigit
  rw [← hexVal_eq, Option.isSome_iff_exists]
  constructor
  · rintro ⟨d, h⟩; exact ⟨d, h, hexVal_lt h⟩
  · rintro ⟨d, h, _⟩; exact ⟨d, h⟩

theorem isHexDigit_false_iff (c : Nat) : isHexDigit c = false ↔ hexVal c = none := by
  unfold isHexDigit
  rw [← hexVal_eq]
  cases hexVal c <;> simp

/-- hex digits are ASCII letters and digits -/
theorem hexVal_range {c d : Nat} (h : hexVal c = some d) : 48 ≤ c ∧ c ≤ 102 := by
  unfold hexVal at h
  split at h
  · omega
  · split at h
    · omega
    · split at h
      · omega
      · cases h

theorem encodeRune_eq (c : Nat) (h : c ≤ 1114111) : encodeRune c = utf16 c := by
  unfold encodeRune utf16
  split
  · rename_i h1
    rw [if_pos (by omega)]
    congr 1; omega
  · rename_i h1
    rw [if_neg (by omega)]
    congr 2; omega

theorem utf16_small (c : Nat) (h : c < 65536) : utf16 c = [c] := by simp [utf16, h]

/-! ### the main loop -/

theorem decodeLoop_skip (rep : Bool) (xs rest : List Nat) (i : Nat) :
    decodeLoop rep (xs ++ rest) xs.length i = decodeLoop rep rest 0 (i + xs.length) := by
  induction xs generalizing i with
  | nil => simp
  | cons x xs ih =>
    simp only [List.cons_append, List.length_cons, decodeLoop]
    rw [ih]; congr 1; omega

/-- one round that emits: `c :: t'` is what the round consumed -/
theorem decodeLoop_emit (rep : Bool) (c : Nat) (t' rest units : List Nat) (lg : Bool) (i : Nat)
    (h : step rep c (t' ++ rest) = .emit units (t'.length + 1) lg) :
    decodeLoop rep (c :: t' ++ rest) 0 i =
      (decodeLoop rep rest 0 (i + (t'.length + 1))).prepend units (if lg then some i else none) := by
  simp only [List.cons_append, decodeLoop, h, Nat.add_sub_cancel]
  rw [decodeLoop_skip]; congr 2; omega

theorem decodeLoop_fail (rep : Bool) (c : Nat) (t : List Nat) (off i : Nat) (h : step rep c t = .fail off) :
    decodeLoop rep (c :: t) 0 i = .fail (i + off) none := by
  simp only [decodeLoop, h]

theorem decodeLoop_range (rep : Bool) (c : Nat) (t : List Nat) (len i : Nat) (h : step rep c t = .range len) :
    decodeLoop rep (c :: t) 0 i = .range i len := by
  simp only [decodeLoop, h]

/-! ### the `\u{…}` loop -/

/-- the true value of hex digits appended to `v` -/
def trueMV (v : Nat) (ds : List Nat) : Nat := ds.foldl (fun a c => a * 16 + (hexVal? c).getD 0) v

theorem digitsMV_eq (ds : List Nat) : digitsMV 16 ds = trueMV 0 ds := rfl

theorem trueMV_ge (v : Nat) (ds : List Nat) : v ≤ trueMV v ds := by
  induction ds generalizing v with
  | nil => exact Nat.le_refl _
  | cons c r ih =>
    have := ih (v * 16 + (hexVal? c).getD 0)
    simp only [trueMV, List.foldl_cons] at this ⊢
    omega

def wrapStep (v c : Nat) : Nat := (v * 16 + (hexVal? c).getD 0) % 4294967296

def wrapMV : Nat → List Nat → Nat
  | v, [] => v
  | v, c :: r => wrapMV (wrapStep v c) r

def oorAcc : Nat → Bool → List Nat → Bool
  | _, o, [] => o
  | v, o, c :: r => oorAcc (wrapStep v c) (o || decide (wrapStep v c < 2147483648 ∧ wrapStep v c > 1114111)) r

theorem oorAcc_true (v : Nat) (ds : List Nat) : oorAcc v true ds = true := by
  induction ds generalizing v with
  | nil => rfl
  | cons c r ih => simp [oorAcc, ih]

theorem hexVal?_getD_lt (c : Nat) : (hexVal? c).getD 0 < 16 := by
  rw [← hexVal_eq]
  cases h : hexVal c with
  | none => simp
  | some d => simpa using hexVal_lt h

/-- a CodePoint (true value ≤ 0x10FFFF) never wraps and never sets isOutOfRange -/
theorem brace_in_range (v : Nat) (o : Bool) (ds : List Nat) (h : trueMV v ds ≤ 1114111) :
    wrapMV v ds = trueMV v ds ∧ oorAcc v o ds = o := by
  induction ds generalizing v o with
  | nil => exact ⟨rfl, rfl⟩
  | cons c r ih =>
    have hd := hexVal?_getD_lt c
    have hge := trueMV_ge (v * 16 + (hexVal? c).getD 0) r
    have h' : trueMV (v * 16 + (hexVal? c).getD 0) r ≤ 1114111 := h
    have hw : wrapStep v c = v * 16 + (hexVal? c).getD 0 := by unfold wrapStep; omega
    obtain ⟨i1, i2⟩ := ih (v * 16 + (hexVal? c).getD 0) (o || decide (wrapStep v c < 2147483648 ∧ wrapStep v c > 1114111)) h'
    refine ⟨?_, ?_⟩
    · simp only [wrapMV, hw, i1]; rfl
    · simp only [oorAcc]
      rw [hw] at i2 ⊢
      rw [i2]
      have : ¬ (v * 16 + (hexVal? c).getD 0 > 1114111) := by omega
      simp [this]

/-- a NotCodePoint (true value > 0x10FFFF) sets isOutOfRange, whatever wrapping happens later -/
theorem brace_out_of_range (v : Nat) (o : Bool) (ds : List Nat) (hv : v ≤ 1114111) (h : trueMV v ds > 1114111) :
    oorAcc v o ds = true := by
  induction ds generalizing v o with
  | nil => simp [trueMV] at h; omega
  | cons c r ih =>
    have hd := hexVal?_getD_lt c
    have hw : wrapStep v c = v * 16 + (hexVal? c).getD 0 := by unfold wrapStep; omega
    simp only [oorAcc]
    by_cases hb : v * 16 + (hexVal? c).getD 0 > 1114111
    · have : decide (wrapStep v c < 2147483648 ∧ wrapStep v c > 1114111) = true := by
        rw [hw]; simp; omega
      rw [this, Bool.or_true, oorAcc_true]
    · rw [hw]
      exact ih _ _ (by omega) h

theorem braceLoop_digits (ds : List Nat) (hds : ∀ c ∈ ds, isHexDigit c = true) (tail : List Nat) (v : Nat)
    (first oor : Bool) (n : Nat) :
    braceLoop (ds ++ tail) v first oor n
      = braceLoop tail (wrapMV v ds) (first && ds.isEmpty) (oorAcc v oor ds) (n + ds.length) := by
  induction ds generalizing v first oor n with
  | nil => simp [wrapMV, oorAcc]
  | cons c r ih =>
    obtain ⟨d, hd, _⟩ := (isHexDigit_iff c).1 (hds c (by simp))
    have hc : c ≠ 125 := by have := hexVal_range hd; omega
    have hd' : (hexVal? c).getD 0 = d := by rw [← hexVal_eq, hd]; rfl
    simp only [List.cons_append, braceLoop, hc, if_false, hd]
    rw [ih (fun x hx => hds x (by simp [hx]))]
    simp only [wrapMV, oorAcc, wrapStep, hd', List.isEmpty_cons, Bool.and_false, Bool.false_and, List.length_cons]
    congr 1; omega

end EsbuildModel.StrLex
