import EsbuildModel.Lemmas.OutPathsPrel
/-
`lowestCommonAncestorDirectory`: the scanning loop on two absolute paths in normal form, in terms of names.
-/
namespace EsbuildModel.OutPaths
open EsbuildModel.Spec.OutPath

/-- the `else if` branch of the loop: "If both paths are different at this point, stop" -/
def differ (absDir : Str) (lastSlash : Nat) : Str :=
  absDir.take (if lastSlash < absDir.length ∧ ¬ (absDir.take lastSlash).any isSlashOrBackslash
    then lastSlash + 1 else lastSlash)

theorem lcaLoop_cons_cons (absDir : Str) (ca cb : Char) (ra rb : Str) (a ls : Nat) :
    lcaLoop absDir (ca :: ra) (cb :: rb) a ls =
      if isSlashOrBackslash ca && isSlashOrBackslash cb then lcaLoop absDir ra rb (a + 1) a
      else if isSlashOrBackslash ca != isSlashOrBackslash cb || asciiLower ca != asciiLower cb then differ absDir ls
      else lcaLoop absDir ra rb (a + 1) ls := by
  rw [lcaLoop]; rfl

/-- `widthX == 0 || runeX == '/' || runeX == '\\'` -/
def isBoundary : Str → Bool
  | [] => true
  | c :: _ => isSlashOrBackslash c

theorem lcaLoop_nil_left (absDir : Str) (rb : Str) (a ls : Nat) :
    lcaLoop absDir [] rb a ls = if isBoundary rb then absDir.take a else differ absDir ls := by
  cases rb <;> (rw [lcaLoop.eq_def]; simp [differ, isBoundary])

theorem lcaLoop_nil_right (absDir : Str) (ra : Str) (a ls : Nat) :
    lcaLoop absDir ra [] a ls = if isBoundary ra then absDir.take a else differ absDir ls := by
  cases ra <;> (rw [lcaLoop.eq_def]; simp [differ, isBoundary])

/-- characters for which the loop's comparison is plain equality: no backslash (a boundary for the loop),
no upper-case ASCII letter (the loop compares lower-cased) -/
def PlainChar (c : Char) : Prop := c ≠ '\\' ∧ ¬ ('A' ≤ c ∧ c ≤ 'Z')

def Plain (x : Str) : Prop := ∀ c ∈ x, PlainChar c

instance (x : Str) : Decidable (Plain x) := by unfold Plain PlainChar; infer_instance

theorem asciiLower_plain {c : Char} (h : PlainChar c) : asciiLower c = c := by
  unfold asciiLower; simp [h.2]

/-- what is left of a path starts at a boundary: it is empty or starts with '/' -/
def AtBoundary (r : Str) : Prop := r = [] ∨ ∃ q, r = '/' :: q

theorem boundary_of {r : Str} (h : AtBoundary r) : isBoundary r = true := by
  rcases h with rfl | ⟨q, rfl⟩ <;> rfl

theorem notSlash_of {c : Char} (h1 : c ≠ '/') (h2 : PlainChar c) : isSlashOrBackslash c = false := by
  simp [isSlashOrBackslash, h1, h2.1]

/-- scanning through one name of each path -/
theorem lcaLoop_name (absDir : Str) (x : Str) : ∀ (y ra rb : Str) (a ls : Nat),
    '/' ∉ x → '/' ∉ y → Plain x → Plain y → AtBoundary ra → AtBoundary rb →
    lcaLoop absDir (x ++ ra) (y ++ rb) a ls =
      if x = y then lcaLoop absDir ra rb (a + x.length) ls else differ absDir ls := by
  induction x with
  | nil =>
    intro y ra rb a ls _ hy _ py hra hrb
    cases y with
    | nil => simp
    | cons d y =>
      have hd : isSlashOrBackslash d = false := notSlash_of (fun e => hy (by simp [e])) (py d (by simp))
      have hne : ([] : Str) ≠ d :: y := by simp
      simp only [List.nil_append, List.cons_append, hne, if_false]
      rcases hra with rfl | ⟨q, rfl⟩
      · rw [lcaLoop_nil_left]; simp [isBoundary, hd]
      · have hs : isSlashOrBackslash '/' = true := rfl
        rw [lcaLoop_cons_cons, hs, hd]; rfl
  | cons c x ih =>
    intro y ra rb a ls hx hy px py hra hrb
    have hc : isSlashOrBackslash c = false := notSlash_of (fun e => hx (by simp [e])) (px c (by simp))
    cases y with
    | nil =>
      have hne : c :: x ≠ ([] : Str) := by simp
      simp only [List.nil_append, List.cons_append, hne, if_false]
      rcases hrb with rfl | ⟨q, rfl⟩
      · rw [lcaLoop_nil_right]; simp [isBoundary, hc]
      · have hs : isSlashOrBackslash '/' = true := rfl
        rw [lcaLoop_cons_cons, hs, hc]; rfl
    | cons d y =>
      have hd : isSlashOrBackslash d = false := notSlash_of (fun e => hy (by simp [e])) (py d (by simp))
      simp only [List.cons_append]
      rw [lcaLoop_cons_cons]
      simp only [hc, hd, Bool.false_and, Bool.false_eq_true, if_false, bne_self_eq_false, Bool.false_or]
      rw [asciiLower_plain (px c (by simp)), asciiLower_plain (py d (by simp))]
      by_cases hcd : c = d
      · subst hcd
        simp only [bne_self_eq_false, Bool.false_eq_true, if_false]
        rw [ih y ra rb (a + 1) ls (fun e => hx (by simp [e])) (fun e => hy (by simp [e]))
          (fun z hz => px z (by simp [hz])) (fun z hz => py z (by simp [hz])) hra hrb]
        simp only [List.cons.injEq, true_and, List.length_cons]
        have : a + 1 + x.length = a + (x.length + 1) := by omega
        rw [this]
      · have : (c != d) = true := by simpa using hcd
        simp [this, hcd]

/-- every name with a separator in front; for a non-empty list this is `render` -/
def front (Y : List Str) : Str := (Y.map fun n => '/' :: n).flatten

theorem front_cons (y : Str) (Y : List Str) : front (y :: Y) = '/' :: y ++ front Y := by
  simp [front]

theorem atBoundary_front (Y : List Str) : AtBoundary (front Y) := by
  cases Y with
  | nil => exact Or.inl rfl
  | cons y Y => exact Or.inr ⟨y ++ front Y, by rw [front_cons]; rfl⟩

/-- the result of the loop in terms of names, when both paths are at a boundary at index `a` -/
def lcaNames (absDir : Str) : List Str → List Str → Nat → Str
  | x :: As, y :: Ls, a => if x = y then lcaNames absDir As Ls (a + 1 + x.length) else differ absDir a
  | _, _, a => absDir.take a

theorem lcaLoop_front (absDir : Str) (As : List Str) : ∀ (Ls : List Str) (a ls : Nat),
    (∀ x ∈ As, '/' ∉ x ∧ Plain x) → (∀ x ∈ Ls, '/' ∉ x ∧ Plain x) →
    lcaLoop absDir (front As) (front Ls) a ls = lcaNames absDir As Ls a := by
  induction As with
  | nil =>
    intro Ls a ls _ _
    have : front ([] : List Str) = [] := rfl
    rw [this, lcaLoop_nil_left, boundary_of (atBoundary_front Ls)]
    cases Ls <;> simp [lcaNames]
  | cons x As ih =>
    intro Ls a ls hA hL
    cases Ls with
    | nil =>
      have : front ([] : List Str) = [] := rfl
      rw [this, lcaLoop_nil_right, boundary_of (atBoundary_front (x :: As))]
      simp [lcaNames]
    | cons y Ls =>
      rw [front_cons, front_cons]
      simp only [List.cons_append]
      rw [lcaLoop_cons_cons]
      have hs : isSlashOrBackslash '/' = true := rfl
      simp only [hs, Bool.and_self, if_true]
      have hx := hA x (by simp)
      have hy := hL y (by simp)
      rw [lcaLoop_name absDir x y (front As) (front Ls) (a + 1) a hx.1 hy.1 hx.2 hy.2
        (atBoundary_front As) (atBoundary_front Ls)]
      simp only [lcaNames]
      by_cases hxy : x = y
      · simp only [hxy, if_true]
        subst hxy
        exact ih Ls _ _ (fun z hz => hA z (by simp [hz])) (fun z hz => hL z (by simp [hz]))
      · simp [hxy]

end EsbuildModel.OutPaths
