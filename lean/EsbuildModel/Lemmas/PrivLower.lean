import EsbuildModel.Impl.PrivLower
/-!
Lemmas for Props/C05Private.lean: the abstraction from [[PrivateElements]] to WeakMaps / WeakSets, the invariant
under which the two agree, and the operation-level simulations (what the lowered form of each private-name
operation does once its operands are values).
-/
namespace EsbuildModel.PrivLower
open EsbuildModel.JsPrivate

def _root_.EsbuildModel.JsPrivate.PKind.methodLike : PKind → Bool
  | .field _ => false
  | _ => true

/-- the placement a class declares for a private name -/
def declSt (P : Prog) (c n : Nat) : Option Bool := (P.decl c n).map (·.1)

/-- the contents of the generated WeakMaps and WeakSets that correspond to the private elements of all objects:
`_n` of class c maps o to the value of o's field element (c, n); `_C_instances` / `_C_static` contain o iff o has a
method or accessor element of class c with that placement -/
noncomputable def absT (P : Prog) (s : SSt) : TSt where
  c := s.c
  wm := fun c n o =>
    match s.priv o c n with
    | some (.field v) => some v
    | _ => none
  ws := fun c st o =>
    open Classical in decide (∃ n k, s.priv o c n = some k ∧ k.methodLike = true ∧ declSt P c n = some st)

/-- what ECMA-262 guarantees about [[PrivateElements]] for the programs of the model: an element is what its class
declares (fields may hold any value), and the methods and accessors of one class and placement are added together
(InitializeInstanceElements / ClassDefinitionEvaluation add all of them before any user code runs) -/
structure Inv (P : Prog) (s : SSt) : Prop where
  decl : ∀ o c n k, s.priv o c n = some k →
    ∃ st k0, P.decl c n = some (st, k0) ∧ (k0.methodLike = true → k = k0) ∧ (k0.methodLike = false → k.methodLike = false)
  atomic : ∀ o c st n' k', s.priv o c n' = some k' → k'.methodLike = true → declSt P c n' = some st →
    ∀ n k0, P.decl c n = some (st, k0) → k0.methodLike = true → s.priv o c n = some k0

def mapSt {α β : Type} (f : α → β) (r : Res × α) : Res × β := (r.1, f r.2)

/-- what the lowered read `lowerGet o k st kind` does once `o` is a value -/
def getT (orc : Orc TSt) (ov : Val) (k : Nat × Nat) (st : Bool) (kind : PKind) (t : TSt) : Res × TSt :=
  match kind with
  | .method f => hPrivateMethod ov (.ws k.1 st) f t
  | .accessor (some g) _ => hPrivateGet orc ov (.ws k.1 st) (some g) t
  | kind => hPrivateGet orc ov (memOf k st kind) none t

/-- what the lowered write `lowerSet o k st kind v` does once `o` and `v` are values -/
def setT (orc : Orc TSt) (ov : Val) (k : Nat × Nat) (st : Bool) (kind : PKind) (v : Val) (t : TSt) : Res × TSt :=
  match kind with
  | .accessor _ (some s) => hPrivateSet orc ov (.ws k.1 st) v (some s) t
  | kind => hPrivateSet orc ov (memOf k st kind) v none t

theorem evalT_lowerGet (P : Prog) (w : World) (orc : Orc TSt) (fr : TFrame) (o : T) (k : Nat × Nat) (st : Bool)
    (kind : PKind) (l : TLoc) :
    evalT P w orc fr (lowerGet o k st kind) l
      = bindR (evalT P w orc fr o l) fun ov l1 => liftS (getT orc ov k st kind) l1 := by
  cases kind with
  | field v => simp only [lowerGet, evalT]; rfl
  | method f => simp only [lowerGet, evalT]; rfl
  | accessor g s => cases g <;> (simp only [lowerGet, evalT]; rfl)

theorem evalT_lowerSet (P : Prog) (w : World) (orc : Orc TSt) (fr : TFrame) (o v : T) (k : Nat × Nat) (st : Bool)
    (kind : PKind) (l : TLoc) :
    evalT P w orc fr (lowerSet o k st kind v) l
      = bindR (evalT P w orc fr o l) fun ov l1 =>
          bindR (evalT P w orc fr v l1) fun vv l2 => liftS (setT orc ov k st kind vv) l2 := by
  cases kind with
  | field x => simp only [lowerSet, evalT]; rfl
  | method f => simp only [lowerSet, evalT]; rfl
  | accessor g s => cases s <;> (simp only [lowerSet, evalT]; rfl)

-- ---------------------------------------------------------------- membership tests

theorem memHas_wm (P : Prog) (s : SSt) (c n o : Nat) :
    memHas (absT P s) (.wm c n) (.obj o) = (match s.priv o c n with | some (.field _) => true | _ => false) := by
  simp only [memHas, absT]
  cases h : s.priv o c n with
  | none => rfl
  | some k => cases k <;> rfl

theorem memHas_ws (P : Prog) (s : SSt) (c : Nat) (st : Bool) (o : Nat) :
    memHas (absT P s) (.ws c st) (.obj o) = true ↔
      ∃ n k, s.priv o c n = some k ∧ k.methodLike = true ∧ declSt P c n = some st := by
  simp [memHas, absT]

/-- a declared field: the WeakMap knows the object exactly when the object has the element -/
theorem has_field (P : Prog) (s : SSt) (hI : Inv P s) (c n o : Nat) (st : Bool) (v0 : Val)
    (hd : P.decl c n = some (st, .field v0)) :
    memHas (absT P s) (.wm c n) (.obj o) = (s.priv o c n).isSome := by
  rw [memHas_wm]
  cases h : s.priv o c n with
  | none => rfl
  | some k =>
    obtain ⟨st', k0, h1, _, h3⟩ := hI.decl o c n k h
    rw [hd] at h1
    cases h1
    cases k with
    | field v => rfl
    | method f => simp [PKind.methodLike] at h3
    | accessor g s => simp [PKind.methodLike] at h3

/-- a declared method or accessor: the WeakSet of its class and placement knows the object exactly when the object
has the element -/
theorem has_method (P : Prog) (s : SSt) (hI : Inv P s) (c n o : Nat) (st : Bool) (k0 : PKind)
    (hd : P.decl c n = some (st, k0)) (hm : k0.methodLike = true) :
    memHas (absT P s) (.ws c st) (.obj o) = (s.priv o c n).isSome := by
  cases h : s.priv o c n with
  | some k =>
    have : memHas (absT P s) (.ws c st) (.obj o) = true := by
      rw [memHas_ws]
      obtain ⟨st', k1, h1, h2, _⟩ := hI.decl o c n k h
      rw [hd] at h1
      cases h1
      exact ⟨n, k, h, by rw [h2 hm]; exact hm, by simp [declSt, hd]⟩
    simpa using this
  | none =>
    have : ¬ (memHas (absT P s) (.ws c st) (.obj o) = true) := by
      rw [memHas_ws]
      rintro ⟨n', k', h1, h2, h3⟩
      have := hI.atomic o c st n' k' h1 h2 h3 n k0 hd hm
      rw [h] at this
      cases this
    simpa using this

theorem elem_of_method (P : Prog) (s : SSt) (hI : Inv P s) (c n o : Nat) (st : Bool) (k0 k : PKind)
    (hd : P.decl c n = some (st, k0)) (hm : k0.methodLike = true) (h : s.priv o c n = some k) : k = k0 := by
  obtain ⟨st', k1, h1, h2, _⟩ := hI.decl o c n k h
  rw [hd] at h1
  cases h1
  exact h2 hm

theorem elem_of_field (P : Prog) (s : SSt) (hI : Inv P s) (c n o : Nat) (st : Bool) (v0 : Val) (k : PKind)
    (hd : P.decl c n = some (st, .field v0)) (h : s.priv o c n = some k) : ∃ v, k = .field v := by
  obtain ⟨st', k1, h1, _, h3⟩ := hI.decl o c n k h
  rw [hd] at h1
  cases h1
  cases k with
  | field v => exact ⟨v, rfl⟩
  | method f => simp [PKind.methodLike] at h3
  | accessor g s => simp [PKind.methodLike] at h3

/-- storing a field value in an element that is absent or a field: only that entry of that WeakMap changes -/
theorem absT_setField (P : Prog) (s : SSt) (o c n : Nat) (v : Val)
    (hold : ∀ k, s.priv o c n = some k → k.methodLike = false) :
    absT P (s.setElem o (c, n) (.field v)) =
      { absT P s with wm := upd (absT P s).wm c (upd ((absT P s).wm c) n (upd ((absT P s).wm c n) o (some v))) } := by
  have hw : (absT P (s.setElem o (c, n) (.field v))).wm =
      upd (absT P s).wm c (upd ((absT P s).wm c) n (upd ((absT P s).wm c n) o (some v))) := by
    funext c' n' o'
    simp only [absT, SSt.setElem, upd]
    by_cases hc : c' = c
    · subst hc
      by_cases hn : n' = n
      · subst hn
        by_cases ho : o' = o
        · subst ho; simp [upd]
        · simp [upd, ho]
      · simp [upd, hn]
        by_cases ho : o' = o
        · subst ho; simp [upd, hn]
        · simp [upd, ho]
    · simp [upd, hc]
      by_cases ho : o' = o
      · subst ho; simp [upd, hc]
      · simp [upd, ho]
  have hs : (absT P (s.setElem o (c, n) (.field v))).ws = (absT P s).ws := by
    funext c' st' o'
    simp only [absT, SSt.setElem, upd]
    congr 1
    apply propext
    constructor
    · rintro ⟨n1, k1, h1, h2, h3⟩
      by_cases ho : o' = o
      · subst ho
        by_cases hc : c' = c
        · subst hc
          by_cases hn : n1 = n
          · subst hn
            simp [upd] at h1
            subst h1
            simp [PKind.methodLike] at h2
          · simp [upd, hn] at h1
            exact ⟨n1, k1, h1, h2, h3⟩
        · simp [upd, hc] at h1
          exact ⟨n1, k1, h1, h2, h3⟩
      · simp [upd, ho] at h1
        exact ⟨n1, k1, h1, h2, h3⟩
    · rintro ⟨n1, k1, h1, h2, h3⟩
      refine ⟨n1, k1, ?_, h2, h3⟩
      by_cases ho : o' = o
      · subst ho
        by_cases hc : c' = c
        · subst hc
          by_cases hn : n1 = n
          · subst hn
            have := hold k1 h1
            rw [this] at h2
            cases h2
          · simp [upd, hn, h1]
        · simp [upd, hc, h1]
      · simp [upd, ho, h1]
  have hc : (absT P (s.setElem o (c, n) (.field v))).c = (absT P s).c := rfl
  cases hA : absT P (s.setElem o (c, n) (.field v)) with
  | mk c1 wm1 ws1 =>
    rw [hA] at hw hs hc
    simp only at hw hs hc
    subst hw hs hc
    rfl

end EsbuildModel.PrivLower
