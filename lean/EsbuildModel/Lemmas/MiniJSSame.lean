/-
Lemmas/MiniJSSame — ValuesLookTheSame is sound: expressions that look the same evaluate the same.
-/
import EsbuildModel.Lemmas.MiniJSPure
namespace EsbuildModel.MiniJS

theorem num_eq_same (a b : Num) (h : a.eq b = true)
    (hz : (a.isZero && b.isZero && a.signbitZero != b.signbitZero) = false) : a = b := by
  cases a <;> cases b <;> simp_all [Num.eq, Num.isZero, Num.signbitZero]

theorem vlts_ident_right : ∀ (a : Expr) (y : Nat), valuesLookTheSame a (.ident y) = true → a = .ident y
  | .ident x, y, h => by simp [valuesLookTheSame] at h; subst h; rfl
  | .undef, y, h => by simp [valuesLookTheSame, checkEqualityIfNoSideEffects, isPrimitiveLiteral] at h
  | .null, y, h => by simp [valuesLookTheSame, checkEqualityIfNoSideEffects, isPrimitiveLiteral] at h
  | .bool _, y, h => by simp [valuesLookTheSame, checkEqualityIfNoSideEffects, isPrimitiveLiteral] at h
  | .num _, y, h => by simp [valuesLookTheSame, checkEqualityIfNoSideEffects, isPrimitiveLiteral] at h
  | .str _, y, h => by simp [valuesLookTheSame, checkEqualityIfNoSideEffects, isPrimitiveLiteral] at h
  | .unary _ _, y, h => by simp [valuesLookTheSame] at h
  | .binary _ _ _, y, h => by simp [valuesLookTheSame] at h
  | .cond _ _ _, y, h => by simp [valuesLookTheSame] at h
  | .call _ _, y, h => by simp [valuesLookTheSame] at h
  | .dot _ _, y, h => by simp [valuesLookTheSame] at h
  | .index _ _, y, h => by simp [valuesLookTheSame] at h

theorem vlts_ident_left (x : Nat) (b : Expr) (h : valuesLookTheSame (.ident x) b = true) : b = .ident x := by
  cases b <;> simp [valuesLookTheSame] at h
  subst h; rfl

theorem typeofIdent?_vlts (op : UnOp) (va vb : Expr) (hv : valuesLookTheSame va vb = true) :
    typeofIdent? op va = typeofIdent? op vb := by
  cases va with
  | ident x => have := vlts_ident_left x vb hv; subst this; rfl
  | _ =>
    cases vb with
    | ident y => have := vlts_ident_right _ y hv; simp at this
    | _ => cases op <;> (try rfl) <;> (rename_i f; cases f <;> rfl)

mutual
/-- ValuesLookTheSame is sound: two expressions that look the same behave the same -/
theorem vlts_sound (w : World) : ∀ (a b : Expr), valuesLookTheSame a b = true → EvalEq w a b
  | .ident x, b, h => by
    have := vlts_ident_left x b h; subst this; exact EvalEq.refl w _
  | .dot ta na, b, h => by
    cases b <;> simp [valuesLookTheSame] at h
    rename_i tb nb
    obtain ⟨rfl, ht⟩ := h
    have := vlts_sound w ta tb ht
    intro tr; simp only [eval, this tr]
  | .index ta ia, b, h => by
    cases b <;> simp [valuesLookTheSame] at h
    rename_i tb ib
    have h1 : ∀ tr, eval w ta tr = eval w tb tr := vlts_sound w ta tb h.1
    have h2 : ∀ tr, eval w ia tr = eval w ib tr := vlts_sound w ia ib h.2
    intro tr; simp only [eval, h1, h2]
  | .cond ca ya na, b, h => by
    cases b <;> simp [valuesLookTheSame] at h
    rename_i cb yb nb
    exact EvalEq.condAll (vlts_sound w ca cb h.1.1).toBool (vlts_sound w ya yb h.1.2) (vlts_sound w na nb h.2)
  | .unary opa va, b, h => by
    cases b <;> simp [valuesLookTheSame] at h
    rename_i opb vb
    obtain ⟨rfl, hv⟩ := h
    have h1 : ∀ tr, eval w va tr = eval w vb tr := vlts_sound w va vb hv
    intro tr
    simp only [eval, typeofIdent?_vlts opa va vb hv, h1]
  | .binary opa la ra, b, h => by
    cases b <;> simp [valuesLookTheSame] at h
    rename_i opb lb rb
    obtain ⟨⟨rfl, hl⟩, hr⟩ := h
    exact EvalEq.binary opa (vlts_sound w la lb hl) (vlts_sound w ra rb hr)
  | .call fa aa, b, h => by
    cases b <;> simp [valuesLookTheSame] at h
    rename_i fb ab
    have h1 : ∀ tr, eval w fa tr = eval w fb tr := vlts_sound w fa fb h.1.2
    have h2 := alts_sound w aa ab h.1.1 h.2
    intro tr; simp only [eval, h1, h2]
  | .num a, b, h => by
    cases b <;> simp [valuesLookTheSame, checkEqualityIfNoSideEffects, isPrimitiveLiteral] at h
    rename_i n
    have : a = n := by
      refine num_eq_same a n h.2 ?_
      rcases h.1 with (h1 | h1) | h1 <;> simp [h1]
    subst this; exact EvalEq.refl w _
  | .undef, b, h => by
    cases b <;> simp [valuesLookTheSame, checkEqualityIfNoSideEffects, isPrimitiveLiteral] at h
    exact EvalEq.refl w _
  | .null, b, h => by
    cases b <;> simp [valuesLookTheSame, checkEqualityIfNoSideEffects, isPrimitiveLiteral] at h
    exact EvalEq.refl w _
  | .bool x, b, h => by
    cases b <;> simp [valuesLookTheSame, checkEqualityIfNoSideEffects, isPrimitiveLiteral] at h
    subst h; exact EvalEq.refl w _
  | .str x, b, h => by
    cases b <;> simp [valuesLookTheSame, checkEqualityIfNoSideEffects, isPrimitiveLiteral] at h
    subst h; exact EvalEq.refl w _
theorem alts_sound (w : World) : ∀ (a b : Args), a.len = b.len → argsLookTheSame a b = true →
    ∀ tr, evalArgs w a tr = evalArgs w b tr
  | .nil, .nil, _, _ => fun _ => rfl
  | .nil, .cons _ _, hl, _ => by simp [Args.len] at hl
  | .cons _ _, .nil, hl, _ => by simp [Args.len] at hl
  | .cons x ra, .cons y rb, hl, h => by
    simp [argsLookTheSame] at h
    simp [Args.len] at hl
    have h1 : ∀ tr, eval w x tr = eval w y tr := vlts_sound w x y h.1
    have h2 := alts_sound w ra rb hl h.2
    intro tr; simp only [evalArgs, h1, h2]
end

end EsbuildModel.MiniJS
