import EsbuildModel.Lemmas.Lower3Helpers
/-!
lowerObjectSpread is right: for every property list `ps` (whatever its sub-expressions are),
`evalE (lowerSpread ps)` agrees with `evalE (.obj ps)` unless the latter leaves the model
(`__proto__: v` or half of an accessor pair after a spread).
-/
namespace EsbuildModel.Lower3

/-- `evalPL` with an explicit continuation (it gets the flags, the object and the state reached at the end of
the list), so that a list can be cut in two -/
def evalPLk (w : World) (guard : Bool) : PL → Bool → List Key → Rec → TState →
    (Bool → List Key → Rec → TState → R Rec × TState) → R Rec × TState
  | .nil, af, seg, t, s, K => K af seg t s
  | .data k ke v rest, af, seg, t, s, K =>
    bindR (keyOf w false k (evalE w guard ke) s) fun kv s1 =>
      bindR (evalE w guard v s1) fun vv s2 => evalPLk w guard rest af (kv.1 :: seg) (t.createData kv.1 vv) s2 K
  | .getter k ke g rest, af, seg, t, s, K =>
    bindR (keyOf w false k (evalE w guard ke) s) fun kv s1 =>
      if guard && af && !seg.contains kv.1 && t.hasSetter kv.1 then (.err (.outside .accessorSplit), s1)
      else evalPLk w guard rest af (kv.1 :: seg) (t.defGetter kv.1 g) s1 K
  | .setter k ke f rest, af, seg, t, s, K =>
    bindR (keyOf w false k (evalE w guard ke) s) fun kv s1 =>
      if guard && af && !seg.contains kv.1 && t.hasGetter kv.1 then (.err (.outside .accessorSplit), s1)
      else evalPLk w guard rest af (kv.1 :: seg) (t.defSetter kv.1 f) s1 K
  | .proto v rest, af, seg, t, s, K =>
    bindR (evalE w guard v s) fun pv s1 =>
      if pv.isObject || pv == .null then
        (if guard && af then (.err (.outside .protoAfterSpread), s1)
         else evalPLk w guard rest af seg { t with proto := pv } s1 K)
      else evalPLk w guard rest af seg t s1 K
  | .spread e rest, _, _, t, s, K =>
    bindR (evalE w guard e s) fun sv s1 =>
      bindR (liftH (copyDataProps w guard false sv [] t) s1) fun t1 s2 => evalPLk w guard rest true [] t1 s2 K

theorem evalPL_k (w : World) (g : Bool) (ps : PL) : ∀ (af : Bool) (seg : List Key) (t : Rec) (s : TState)
    (F : Rec → TState → R Rec × TState),
    bindR (evalPL w g ps af seg t s) F = evalPLk w g ps af seg t s (fun _ _ t' s' => F t' s') := by
  induction ps using PL.ind with
  | nil => intro af seg t s F; simp only [evalPL, evalPLk, bindR_ok]
  | data k ke v rest ih =>
    intro af seg t s F
    simp only [evalPL, evalPLk, bindR_assoc, ih]
  | getter k ke g' rest ih =>
    intro af seg t s F
    simp only [evalPL, evalPLk, bindR_assoc]
    congr 1; funext kv s1
    split
    · rfl
    · exact ih _ _ _ _ _
  | setter k ke f rest ih =>
    intro af seg t s F
    simp only [evalPL, evalPLk, bindR_assoc]
    congr 1; funext kv s1
    split
    · rfl
    · exact ih _ _ _ _ _
  | proto v rest ih =>
    intro af seg t s F
    simp only [evalPL, evalPLk, bindR_assoc]
    congr 1; funext pv s1
    split
    · split
      · rfl
      · exact ih _ _ _ _ _
    · exact ih _ _ _ _ _
  | spread e rest ih =>
    intro af seg t s F
    simp only [evalPL, evalPLk, bindR_assoc, ih]

theorem evalPLk_append (w : World) (g : Bool) (p q : PL) : ∀ (af : Bool) (seg : List Key) (t : Rec) (s : TState)
    (K : Bool → List Key → Rec → TState → R Rec × TState),
    evalPLk w g (p.append q) af seg t s K =
      evalPLk w g p af seg t s (fun af' seg' t' s' => evalPLk w g q af' seg' t' s' K) := by
  induction p using PL.ind with
  | nil => intro af seg t s K; rfl
  | data k ke v rest ih => intro af seg t s K; simp only [PL.append, evalPLk, ih]
  | getter k ke g' rest ih => intro af seg t s K; simp only [PL.append, evalPLk, ih]
  | setter k ke f rest ih => intro af seg t s K; simp only [PL.append, evalPLk, ih]
  | proto v rest ih => intro af seg t s K; simp only [PL.append, evalPLk, ih]
  | spread e rest ih => intro af seg t s K; simp only [PL.append, evalPLk, ih]

theorem PL.append_nil (p : PL) : p.append .nil = p := by
  induction p using PL.ind with
  | nil => rfl
  | data k ke v rest ih => simp only [PL.append, ih]
  | getter k ke g rest ih => simp only [PL.append, ih]
  | setter k ke f rest ih => simp only [PL.append, ih]
  | proto v rest ih => simp only [PL.append, ih]
  | spread e rest ih => simp only [PL.append, ih]

theorem PL.append_assoc (p q r : PL) : (p.append q).append r = p.append (q.append r) := by
  induction p using PL.ind with
  | nil => rfl
  | data k ke v rest ih => simp only [PL.append, ih]
  | getter k ke g rest ih => simp only [PL.append, ih]
  | setter k ke f rest ih => simp only [PL.append, ih]
  | proto v rest ih => simp only [PL.append, ih]
  | spread e rest ih => simp only [PL.append, ih]

theorem PL.hasSpread_append (p q : PL) : (p.append q).hasSpread = (p.hasSpread || q.hasSpread) := by
  induction p using PL.ind with
  | nil => simp [PL.append, PL.hasSpread]
  | data k ke v rest ih => simpa only [PL.append, PL.hasSpread] using ih
  | getter k ke g rest ih => simpa only [PL.append, PL.hasSpread] using ih
  | setter k ke f rest ih => simpa only [PL.append, PL.hasSpread] using ih
  | proto v rest ih => simpa only [PL.append, PL.hasSpread] using ih
  | spread e rest ih => simp [PL.append, PL.hasSpread]

/-- THE SEGMENT.  The properties between two spreads (or after the last one) are evaluated by the lowered code
into a fresh object `tmp` which is then merged into the target (`__spreadProps(target, {…})`); the source evaluates
them directly on the target `t`.  Same events, same final object — unless the source run stops at `__proto__: v`
or at an accessor that completes a pair begun before the spread. -/
theorem seg_lemma (w : World) (pend : PL) (hns : pend.hasSpread = false) :
    ∀ (seg : List Key) (t0 tmp t : Rec) (s : TState) (F : Rec → TState → R Rec × TState),
      Seg t0 tmp t → (∀ k, seg.contains k = (tmp.get k).isSome) →
      RelH (evalPLk w true pend false seg tmp s (fun _ _ tmp' s' => F (t0.merge tmp') s'))
        (evalPLk w true pend true seg t s (fun _ _ t' s' => F t' s')) := by
  induction pend using PL.ind with
  | nil =>
    intro seg t0 tmp t s F hs _
    simp only [evalPLk, hs.eq]
    exact Or.inr rfl
  | data k ke v rest ih =>
    intro seg t0 tmp t s F hs hseg
    simp only [PL.hasSpread] at hns
    simp only [evalPLk]
    refine RelH.bind (Or.inr rfl) (fun kv s1 => RelH.bind (Or.inr rfl) (fun vv s2 => ?_))
    exact ih hns _ _ _ _ _ _ (hs.define kv.1 (.data vv))
      (seg_contains_step seg tmp _ kv.1 hseg (fun k' => Rec.isSome_get_define _ _ _ _))
  | getter k ke g rest ih =>
    intro seg t0 tmp t s F hs hseg
    simp only [PL.hasSpread] at hns
    simp only [evalPLk, Bool.true_and, Bool.false_and, Bool.and_false, Bool.false_eq_true, if_false]
    refine RelH.bind (Or.inr rfl) (fun kv s1 => ?_)
    split
    · exact Or.inl trivial
    · rename_i hcond
      have hside : (tmp.get kv.1).isSome ∨ t.hasSetter kv.1 = false := by
        cases hc : seg.contains kv.1 with
        | true => left; rw [← hseg]; exact hc
        | false =>
          right
          cases ht : t.hasSetter kv.1 with
          | false => rfl
          | true => rw [hc, ht] at hcond; exact absurd rfl hcond
      exact ih hns _ _ _ _ _ _ (hs.defGetter kv.1 g hside)
        (seg_contains_step seg tmp _ kv.1 hseg (fun k' => Rec.isSome_get_defGetter _ _ _ _))
  | setter k ke f rest ih =>
    intro seg t0 tmp t s F hs hseg
    simp only [PL.hasSpread] at hns
    simp only [evalPLk, Bool.true_and, Bool.false_and, Bool.and_false, Bool.false_eq_true, if_false]
    refine RelH.bind (Or.inr rfl) (fun kv s1 => ?_)
    split
    · exact Or.inl trivial
    · rename_i hcond
      have hside : (tmp.get kv.1).isSome ∨ t.hasGetter kv.1 = false := by
        cases hc : seg.contains kv.1 with
        | true => left; rw [← hseg]; exact hc
        | false =>
          right
          cases ht : t.hasGetter kv.1 with
          | false => rfl
          | true => rw [hc, ht] at hcond; exact absurd rfl hcond
      exact ih hns _ _ _ _ _ _ (hs.defSetter kv.1 f hside)
        (seg_contains_step seg tmp _ kv.1 hseg (fun k' => Rec.isSome_get_defSetter _ _ _ _))
  | proto v rest ih =>
    intro seg t0 tmp t s F hs hseg
    simp only [PL.hasSpread] at hns
    simp only [evalPLk, Bool.true_and, Bool.and_false, Bool.false_eq_true, if_false, if_true]
    refine RelH.bind (Or.inr rfl) (fun pv s1 => ?_)
    split
    · exact Or.inl trivial
    · exact ih hns _ _ _ _ _ _ hs hseg
  | spread e rest _ => simp [PL.hasSpread] at hns

-- ---------------------------------------------------------------- the loop of lowerObjectSpread

theorem RelH.liftH {α : Type} (f g : H → R α × H) (s : TState) (h : RelH (f s.h) (g s.h)) : RelH (liftH f s) (liftH g s) := by
  cases h with
  | inl h => exact Or.inl h
  | inr h => exact Or.inr (by unfold Lower3.liftH; rw [h])

theorem liftH_bind_pure {α β : Type} (f : H → R α × H) (p : α → β) (s : TState) :
    liftH (fun h => bindR (f h) fun a h' => ((.ok (p a) : R β), h')) s =
      bindR (liftH f s) fun a s' => ((.ok (p a) : R β), s') := by
  simp only [liftH]
  rcases f s.h with ⟨a, h'⟩
  cases a <;> rfl

/-- the value of the expression is an object made by the program whenever there is a value -/
def RecValued (w : World) (r : E) : Prop := ∀ s v s', evalE w true r s = (.ok v, s') → ∃ t : Rec, v = t.toVal

theorem bind_pure_ok {α β σ : Type} (r : R α × σ) (p : α → β) (v : β) (s' : σ)
    (h : bindR r (fun a s => ((.ok (p a) : R β), s)) = (.ok v, s')) : ∃ a, v = p a := by
  obtain ⟨a, s⟩ := r
  cases a with
  | err x => simp at h
  | ok a => simp only [bindR_ok, Prod.mk.injEq, R.ok.injEq] at h; exact ⟨a, h.1.symm⟩

theorem bind_ok_inv {α β σ : Type} (r : R α × σ) (f : α → σ → R β × σ) (v : β) (s' : σ)
    (h : bindR r f = (.ok v, s')) : ∃ a s1, r = (.ok a, s1) ∧ f a s1 = (.ok v, s') := by
  obtain ⟨a, s⟩ := r
  cases a with
  | err x => simp at h
  | ok a => exact ⟨a, s, rfl, h⟩

theorem spreadValuesH_rec (w : World) (a b : Val) (h : H) (v : Val) (h' : H)
    (e : spreadValuesH w a b h = (.ok v, h')) : ∃ t : Rec, v = t.toVal := by
  unfold spreadValuesH at e
  split at e
  · simp at e
  · simp only at e
    split at e
    · obtain ⟨a1, h1, _, e2⟩ := bind_ok_inv _ _ _ _ e
      exact bind_pure_ok _ Rec.toVal _ _ e2
    · obtain ⟨a1, h1, _, e2⟩ := bind_ok_inv _ _ _ _ e
      exact bind_pure_ok _ Rec.toVal _ _ e2

theorem recValued_spreadValues (w : World) (a b : E) : RecValued w (.spreadValues a b) := by
  intro s v s' e
  simp only [evalE] at e
  obtain ⟨av, s1, _, e1⟩ := bind_ok_inv _ _ _ _ e
  obtain ⟨bv, s2, _, e2⟩ := bind_ok_inv _ _ _ _ e1
  have : spreadValuesH w av bv s2.h = (.ok v, s'.h) := by
    have e3 := congrArg (fun r => (r.1, r.2.h)) e2
    simp only [liftH] at e3
    exact e3
  exact spreadValuesH_rec w av bv s2.h v s'.h this

theorem recValued_spreadProps (w : World) (a b : E) : RecValued w (.spreadProps a b) := by
  intro s v s' e
  simp only [evalE] at e
  obtain ⟨av, s1, _, e1⟩ := bind_ok_inv _ _ _ _ e
  obtain ⟨bv, s2, _, e2⟩ := bind_ok_inv _ _ _ _ e1
  simp only [Prod.mk.injEq] at e2
  have e3 := e2.1
  unfold spreadPropsH at e3
  split at e3
  · simp only [R.ok.injEq] at e3; exact ⟨_, e3.symm⟩
  · simp at e3

theorem recValued_obj (w : World) (ps : PL) : RecValued w (.obj ps) := by
  intro s v s' e
  simp only [evalE] at e
  exact bind_pure_ok _ Rec.toVal _ _ e

/-- the expression handed to the next helper call: everything so far with the pending properties merged in -/
def r1Of (res : Option E) (pend : PL) : E :=
  match res with
  | none => .obj pend
  | some r => if pend.isNil then r else .spreadProps r (.obj pend)

theorem recValued_r1 (w : World) (res : Option E) (pend : PL) (hrv : ∀ r, res = some r → RecValued w r) :
    RecValued w (r1Of res pend) := by
  cases res with
  | none => exact recValued_obj w pend
  | some r =>
    simp only [r1Of]
    split
    · exact hrv r rfl
    · exact recValued_spreadProps w _ _

/-- the source side: start from the value of `res` (or from the empty object), define the properties `ps` on
it, then go on with F -/
def srcPrefix (w : World) (res : Option E) (ps : PL) (s : TState) (K : Bool → List Key → Rec → TState → R Rec × TState) :
    R Rec × TState :=
  match res with
  | none => evalPLk w true ps false [] Rec.empty s K
  | some r =>
    bindR (evalE w true r s) fun rv s1 =>
      match rv.asRec with
      | some t => evalPLk w true ps true [] t s1 K
      | none => (.err .illFormed, s1)

theorem PL.isNil_eq (p : PL) (h : p.isNil = true) : p = .nil := by
  cases p <;> simp [PL.isNil] at h
  rfl

theorem prefix_ok (w : World) (res : Option E) (pend : PL) (hns : pend.hasSpread = false)
    (hrv : ∀ r, res = some r → RecValued w r) (s : TState) (F : Rec → TState → R Rec × TState) :
    RelH (bindR (evalE w true (r1Of res pend) s) fun av s1 =>
        match av.asRec with
        | some t => F t s1
        | none => (.err .illFormed, s1))
      (srcPrefix w res pend s (fun _ _ t s1 => F t s1)) := by
  cases res with
  | none =>
    simp only [r1Of, srcPrefix, evalE, bindR_assoc, bindR_ok, Rec.asRec_toVal]
    rw [evalPL_k]
    exact Or.inr rfl
  | some r =>
    simp only [r1Of, srcPrefix]
    by_cases hn : pend.isNil = true
    · have := PL.isNil_eq pend hn
      subst this
      simp only [PL.isNil, if_true, evalPLk]
      exact Or.inr rfl
    · simp only [hn, if_false, Bool.false_eq_true, evalE, bindR_assoc]
      refine RelH.bind' (Or.inr rfl) (fun av s1 he => ?_)
      obtain ⟨t, ht⟩ := hrv r rfl s av s1 he
      subst ht
      simp only [bindR_ok, Rec.asRec_toVal, spreadPropsH_eq]
      rw [evalPL_k]
      exact seg_lemma w pend hns [] t Rec.empty t s1 F (Seg.start t)
        (fun k => by cases k <;> rfl)

/-- the end of every run: the finished object as a value -/
def finK : Bool → List Key → Rec → TState → R Rec × TState := fun _ _ t s => (.ok t, s)

/-- what the lowered expression computes, as an object -/
def asRecR (r : Res × TState) : R Rec × TState :=
  bindR r fun av s1 =>
    match av.asRec with
    | some t => (.ok t, s1)
    | none => (.err .illFormed, s1)

theorem spreadLoop_nil (res : Option E) (pend : PL) : spreadLoop .nil res pend = r1Of res pend := by
  cases res <;> rfl

theorem spreadLoop_ok (w : World) (hq : Quiet w) : ∀ (todo : PL) (res : Option E) (pend : PL) (s : TState),
    pend.hasSpread = false → (∀ r, res = some r → RecValued w r) →
    RelH (asRecR (evalE w true (spreadLoop todo res pend) s)) (srcPrefix w res (pend.append todo) s finK) := by
  intro todo
  induction todo using PL.ind with
  | nil =>
    intro res pend s hns hrv
    rw [spreadLoop_nil, PL.append_nil]
    exact prefix_ok w res pend hns hrv s (fun t s1 => (.ok t, s1))
  | data k ke v rest ih =>
    intro res pend s hns hrv
    have := ih res (pend.append (.data k ke v .nil)) s (by simp [PL.hasSpread_append, hns, PL.hasSpread]) hrv
    simpa only [spreadLoop, PL.append_assoc, PL.append] using this
  | getter k ke g rest ih =>
    intro res pend s hns hrv
    have := ih res (pend.append (.getter k ke g .nil)) s (by simp [PL.hasSpread_append, hns, PL.hasSpread]) hrv
    simpa only [spreadLoop, PL.append_assoc, PL.append] using this
  | setter k ke f rest ih =>
    intro res pend s hns hrv
    have := ih res (pend.append (.setter k ke f .nil)) s (by simp [PL.hasSpread_append, hns, PL.hasSpread]) hrv
    simpa only [spreadLoop, PL.append_assoc, PL.append] using this
  | proto v rest ih =>
    intro res pend s hns hrv
    have := ih res (pend.append (.proto v .nil)) s (by simp [PL.hasSpread_append, hns, PL.hasSpread]) hrv
    simpa only [spreadLoop, PL.append_assoc, PL.append] using this
  | spread e rest ih =>
    intro res pend s hns hrv
    have hr1 : spreadLoop (.spread e rest) res pend = spreadLoop rest (some (.spreadValues (r1Of res pend) e)) .nil := by
      cases res <;> rfl
    rw [hr1]
    have h1 := ih (some (.spreadValues (r1Of res pend) e)) .nil s rfl
      (fun r hr => by cases hr; exact recValued_spreadValues w _ _)
    refine RelH.trans h1 ?_
    -- the source side: cut the list at the spread
    have hsrc : srcPrefix w res (pend.append (.spread e rest)) s finK =
        srcPrefix w res pend s (fun _ _ t s1 =>
          bindR (evalE w true e s1) fun sv s2 =>
            bindR (liftH (copyDataProps w true false sv [] t) s2) fun t1 s3 => evalPLk w true rest true [] t1 s3 finK) := by
      cases res <;> simp only [srcPrefix, evalPLk_append, evalPLk]
    rw [hsrc]
    refine RelH.trans ?_ (prefix_ok w res pend hns hrv s _)
    -- the lowered side: __spreadValues(r1, e)
    simp only [srcPrefix, PL.append, evalE, bindR_assoc]
    refine RelH.bind' (Or.inr rfl) (fun av s1 he => ?_)
    obtain ⟨t, ht⟩ := recValued_r1 w res pend hrv s av s1 he
    subst ht
    simp only [Rec.asRec_toVal]
    refine RelH.bind (Or.inr rfl) (fun bv s2 => ?_)
    have h2 := RelH.liftH (fun h => spreadValuesH w t.toVal bv h)
      (fun h => bindR (copyDataProps w true false bv [] t h) fun t' h' => ((.ok t'.toVal : Res), h')) s2
      (spreadValuesH_spec w hq t bv s2.h)
    rw [liftH_bind_pure] at h2
    have h3 := RelH.bind (F := fun rv s3 => match rv.asRec with
        | some t => evalPLk w true rest true [] t s3 finK
        | none => (.err .illFormed, s3))
      (G := fun rv s3 => match rv.asRec with
        | some t => evalPLk w true rest true [] t s3 finK
        | none => (.err .illFormed, s3)) h2 (fun _ _ => Or.inr rfl)
    simpa only [bindR_assoc, bindR_ok, Rec.asRec_toVal] using h3

theorem recValued_spreadLoop (w : World) : ∀ (todo : PL) (res : Option E) (pend : PL),
    (∀ r, res = some r → RecValued w r) → RecValued w (spreadLoop todo res pend) := by
  intro todo
  induction todo using PL.ind with
  | nil => intro res pend hrv; rw [spreadLoop_nil]; exact recValued_r1 w res pend hrv
  | data k ke v rest ih => intro res pend hrv; exact ih res _ hrv
  | getter k ke g rest ih => intro res pend hrv; exact ih res _ hrv
  | setter k ke f rest ih => intro res pend hrv; exact ih res _ hrv
  | proto v rest ih => intro res pend hrv; exact ih res _ hrv
  | spread e rest ih =>
    intro res pend hrv
    have hr1 : spreadLoop (.spread e rest) res pend = spreadLoop rest (some (.spreadValues (r1Of res pend) e)) .nil := by
      cases res <;> rfl
    rw [hr1]
    exact ih _ _ (fun r hr => by cases hr; exact recValued_spreadValues w _ _)

theorem asRecR_toVal (w : World) (r : E) (hr : RecValued w r) (s : TState) :
    (bindR (asRecR (evalE w true r s)) fun t s1 => ((.ok t.toVal : Res), s1)) = evalE w true r s := by
  have h := hr s
  rcases he : evalE w true r s with ⟨a, s1⟩
  cases a with
  | err x => rfl
  | ok v =>
    obtain ⟨t, ht⟩ := h v s1 he
    subst ht
    rfl

/-- lowerObjectSpread preserves behaviour: same object (same keys in the same order, same values and accessors,
same prototype), same events in the same order, same exception — unless the source run leaves the model -/
theorem lowerSpread_ok (w : World) (hq : Quiet w) (ps : PL) (s : TState) :
    RelH (evalE w true (lowerSpread ps) s) (evalE w true (.obj ps) s) := by
  unfold lowerSpread
  split
  · have h := spreadLoop_ok w hq ps none .nil s rfl (fun r hr => by cases hr)
    have hrv := recValued_spreadLoop w ps none .nil (fun r hr => by cases hr)
    have h2 := RelH.bind (F := fun t s1 => ((.ok t.toVal : Res), s1)) (G := fun t s1 => ((.ok t.toVal : Res), s1)) h
      (fun _ _ => Or.inr rfl)
    rw [asRecR_toVal w _ hrv] at h2
    simp only [srcPrefix, PL.append] at h2
    have hk : evalPLk w true ps false [] Rec.empty s finK = evalPL w true ps false [] Rec.empty s := by
      have := evalPL_k w true ps false [] Rec.empty s (fun t s1 => (.ok t, s1))
      rw [bindR_ret] at this
      exact this.symm
    rw [hk] at h2
    simpa only [evalE] using h2
  · exact Or.inr rfl

end EsbuildModel.Lower3
