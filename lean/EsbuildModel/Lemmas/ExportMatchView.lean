import EsbuildModel.Impl.ExportMatchView
import EsbuildModel.Lemmas.EsModules
/-! The request graph of `toSpec t`, computed directly from the linker's tables (`node_toSpec`). -/
namespace EsbuildModel.ExportMatch
open EsbuildModel.Spec EsbuildModel.Spec.EsModules

/-- the entry of `NamedExports` for alias `a` -/
def entry (f : File) (a : Name) : Option NamedExport := f.exports.find? (·.alias = a)

theorem entry_some {f : File} {a : Name} {e : NamedExport} (h : entry f a = some e) : e ∈ f.exports ∧ e.alias = a := by
  unfold entry at h
  exact ⟨List.mem_of_find?_eq_some h, by simpa using List.find?_some h⟩

theorem entry_none {f : File} {a : Name} (h : entry f a = none) : ∀ e ∈ f.exports, e.alias ≠ a := by
  unfold entry at h
  intro e he
  simpa using List.find?_eq_none.1 h e he

theorem hasExport_iff {f : File} {a : Name} : hasExport f a = true ↔ (entry f a).isSome := by
  unfold hasExport entry
  rw [List.any_eq_true]
  constructor
  · rintro ⟨e, he, h⟩
    cases hf : f.exports.find? (·.alias = a) with
    | some _ => rfl
    | none => exact absurd h (List.find?_eq_none.1 hf e he)
  · intro h
    cases hf : f.exports.find? (·.alias = a) with
    | some e => exact ⟨e, List.mem_of_find?_eq_some hf, List.find?_some (p := fun (x : NamedExport) => decide (x.alias = a)) hf⟩
    | none => rw [hf] at h; cases h

/-- with one entry per alias, an entry with alias `a` is THE entry -/
theorem entry_unique {f : File} (hn : (f.exports.map (·.alias)).Nodup) {a : Name} {e : NamedExport}
    (he : e ∈ f.exports) (ha : e.alias = a) : entry f a = some e := by
  unfold entry
  generalize f.exports = l at hn he
  induction l with
  | nil => cases he
  | cons x l ih =>
    simp only [List.map_cons, List.nodup_cons] at hn
    rcases List.mem_cons.1 he with rfl | he
    · simp [ha]
    · have hx : x.alias ≠ a := by
        intro hx
        apply hn.1
        rw [hx, ← ha]
        exact List.mem_map.2 ⟨e, he, rfl⟩
      simp [List.find?, hx, ih hn.2 he]

theorem find_filterMap_key {α β : Type} (key : α → Name) (g : α → Option β) (p : β → Bool) (a : Name)
    (hg : ∀ e x, g e = some x → (p x = true ↔ key e = a)) :
    ∀ (l : List α), (l.map key).Nodup →
      (l.filterMap g).find? p = (l.find? (fun e => key e = a)).bind g := by
  intro l
  induction l with
  | nil => intro _; rfl
  | cons e l ih =>
    intro hn
    simp only [List.map_cons, List.nodup_cons] at hn
    by_cases hk : key e = a
    · have hrest : (l.filterMap g).find? p = none := by
        rw [List.find?_eq_none]
        intro x hx
        obtain ⟨e', he', hx'⟩ := List.mem_filterMap.1 hx
        have : key e' ≠ a := by
          intro h
          apply hn.1
          rw [hk, ← h]
          exact List.mem_map.2 ⟨e', he', rfl⟩
        intro hp
        exact this ((hg e' x hx').1 hp)
      cases hge : g e with
      | none => simp [hge, hrest, List.find?, hk]
      | some x =>
        have : p x = true := (hg e x hge).2 hk
        simp [hge, List.find?, this, hk]
    · cases hge : g e with
      | none => simp [hge, List.find?, hk, ih hn.2]
      | some x =>
        have : p x = false := by
          cases hp : p x with
          | false => rfl
          | true => exact absurd ((hg e x hge).1 hp) hk
        simp [hge, List.find?, this, hk, ih hn.2]

/-- the request graph of `toSpec t` at (m, a), read off the linker's tables -/
def nodeOf (t : Table) (m : Nat) (a : Name) : NodeKind :=
  match t[m]? with
  | none => .missing
  | some f =>
    match entry f a with
    | some e =>
      match findImport f e.ref with
      | none => .loc e.ref
      | some ni =>
        match ni.target with
        | some tg => if ni.isStar then .ns tg else .ind tg ni.alias
        | none => if a = "default" then .dflt else .stars (f.stars.filterMap id)
    | none => if a = "default" then .dflt else .stars (f.stars.filterMap id)

theorem node_toSpec {t : Table} (hal : ∀ f ∈ t, (f.exports.map (·.alias)).Nodup) (m : Nat) (a : Name) :
    node (toSpec t) m a = nodeOf t m a := by
  unfold node nodeOf toSpec
  rw [List.getElem?_map]
  cases hf : t[m]? with
  | none => rfl
  | some f =>
    have hn := hal f (List.mem_of_getElem? hf)
    simp only [Option.map_some]
    have h1 := find_filterMap_key (fun e : NamedExport => e.alias) (localOf f)
      (fun x => decide (x.exportName = a)) a
      (by intro e x hx; unfold localOf at hx; split at hx <;> simp at hx; subst hx; simp) f.exports hn
    have h2 := find_filterMap_key (fun e : NamedExport => e.alias) (indirectOf f)
      (fun x => decide (x.exportName = a)) a
      (by
        intro e x hx
        unfold indirectOf at hx
        split at hx
        · simp only [Option.map_eq_some_iff] at hx
          obtain ⟨tg, _, rfl⟩ := hx
          simp
        · cases hx) f.exports hn
    simp only [toRecord]
    rw [h1, h2]
    unfold entry
    cases he : f.exports.find? (fun e => decide (e.alias = a)) with
    | none => simp
    | some e =>
      simp only [Option.bind_some, localOf, indirectOf]
      cases hi : findImport f e.ref with
      | none => simp
      | some ni =>
        simp only
        cases ht : ni.target with
        | none => simp
        | some tg =>
          simp only [Option.map_some, importNameOf]
          by_cases hs : ni.isStar = true <;> simp [hs]

end EsbuildModel.ExportMatch
