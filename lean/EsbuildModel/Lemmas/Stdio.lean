import EsbuildModel.Impl.Stdio
/-!
Helper definitions and lemmas for the stdio protocol model (`Impl/Stdio.lean`).
-/
namespace EsbuildModel.Stdio

/-! ## little-endian words -/

@[simp] theorem u32le_length (v : Nat) : (u32le v).length = 4 := rfl

theorem readUint32_u32le_mod (v : Nat) (rest : Bytes) :
    readUint32 (u32le v ++ rest) = some (v % 4294967296, rest) := by
  simp only [u32le, readUint32, List.cons_append, List.nil_append]
  congr 2
  omega

theorem readUint32_u32le (v : Nat) (rest : Bytes) (h : v < 4294967296) :
    readUint32 (u32le v ++ rest) = some (v, rest) := by
  rw [readUint32_u32le_mod, Nat.mod_eq_of_lt h]

theorem readUint32_length {bs : Bytes} {n : Nat} {next : Bytes} (h : readUint32 bs = some (n, next)) :
    bs.length = next.length + 4 := by
  match bs, h with
  | b0 :: b1 :: b2 :: b3 :: rest, h =>
    simp only [readUint32, Option.some.injEq, Prod.mk.injEq] at h
    simp [← h.2]

theorem readUint32_none {bs : Bytes} (h : readUint32 bs = none) : bs.length < 4 := by
  match bs, h with
  | [], _ => simp
  | [_], _ => simp
  | [_, _], _ => simp
  | [_, _, _], _ => simp

theorem readUint32_lt {bs : Bytes} {n : Nat} {next : Bytes} (hb : ∀ b ∈ bs, b < 256)
    (h : readUint32 bs = some (n, next)) : n < 4294967296 := by
  match bs, h with
  | b0 :: b1 :: b2 :: b3 :: rest, h =>
    simp only [readUint32, Option.some.injEq, Prod.mk.injEq] at h
    have h0 := hb b0 (by simp)
    have h1 := hb b1 (by simp)
    have h2 := hb b2 (by simp)
    have h3 := hb b3 (by simp)
    omega

theorem readLPS_u32le (s rest : Bytes) (h : s.length < 4294967296) :
    readLPS (u32le s.length ++ (s ++ rest)) = some (s, rest) := by
  simp [readLPS, readUint32_u32le _ _ h]

theorem readLPS_length {bs s next : Bytes} (h : readLPS bs = some (s, next)) :
    bs.length = 4 + s.length + next.length := by
  unfold readLPS at h
  split at h
  · rename_i n after hr
    split at h
    · simp only [Option.some.injEq, Prod.mk.injEq] at h
      have := readUint32_length hr
      rw [← h.1, ← h.2, List.length_take, List.length_drop]
      omega
    · cases h
  · cases h

theorem readLPS_eq {bs s next : Bytes} (h : readLPS bs = some (s, next)) :
    ∃ n, readUint32 bs = some (n, s ++ next) ∧ n = s.length := by
  unfold readLPS at h
  split at h
  · rename_i n after hr
    split at h
    · rename_i hle
      simp only [Option.some.injEq, Prod.mk.injEq] at h
      refine ⟨n, ?_, ?_⟩
      · rw [hr, ← h.1, ← h.2, List.take_append_drop]
      · rw [← h.1, List.length_take]; omega
    · cases h
  · cases h

/-! ## Go string order, sorted key lists -/

theorem bytesLt_irrefl (a : Bytes) : bytesLt a a = false := by
  induction a with
  | nil => rfl
  | cons x xs ih => simp [bytesLt, ih]

theorem bytesLt_asymm : ∀ (a b : Bytes), bytesLt a b = true → bytesLt b a = false
  | [], [], h => by simp [bytesLt] at h
  | [], _ :: _, _ => by simp [bytesLt]
  | _ :: _, [], h => by simp [bytesLt] at h
  | x :: xs, y :: ys, h => by
    simp only [bytesLt] at h ⊢
    split at h
    · rename_i hlt
      have h1 : ¬ y < x := by omega
      have h2 : ¬ y = x := by omega
      simp [h1, h2]
    · split at h
      · rename_i _ heq
        subst heq
        simp [bytesLt_asymm xs ys h]
      · cases h

theorem bytesLt_trans : ∀ (a b c : Bytes), bytesLt a b = true → bytesLt b c = true → bytesLt a c = true
  | [], [], _, h, _ => by simp [bytesLt] at h
  | [], _ :: _, [], _, h => by simp [bytesLt] at h
  | [], _ :: _, _ :: _, _, _ => by simp [bytesLt]
  | _ :: _, [], _, h, _ => by simp [bytesLt] at h
  | _ :: _, _ :: _, [], _, h => by simp [bytesLt] at h
  | x :: xs, y :: ys, z :: zs, h1, h2 => by
    simp only [bytesLt] at h1 h2 ⊢
    split at h1
    · split at h2
      · have : x < z := by omega
        simp [this]
      · split at h2
        · rename_i _ heq; subst heq; simp [*]
        · cases h2
    · split at h1
      · rename_i _ heq; subst heq
        split at h2
        · simp [*]
        · split at h2
          · rename_i _ heq2; subst heq2
            simp [bytesLt_trans xs ys zs h1 h2]
          · cases h2
      · cases h1

/-- total: two different keys are always ordered (so a Go map has exactly one sorted key list) -/
theorem bytesLt_total : ∀ (a b : Bytes), a ≠ b → bytesLt a b = true ∨ bytesLt b a = true
  | [], [], h => absurd rfl h
  | [], _ :: _, _ => by simp [bytesLt]
  | _ :: _, [], _ => by simp [bytesLt]
  | x :: xs, y :: ys, h => by
    simp only [bytesLt]
    by_cases hxy : x < y
    · simp [hxy]
    · by_cases hyx : y < x
      · simp [hyx]
      · have heq : x = y := by omega
        subst heq
        have hne : xs ≠ ys := fun h' => h (by rw [h'])
        simpa using bytesLt_total xs ys hne

/-- strictly increasing keys: the key list of a Go map after `sort.Strings` (distinct because map keys are) -/
def KeysSorted {β : Type} (l : List (Bytes × β)) : Prop :=
  l.Pairwise (fun a b => bytesLt a.1 b.1 = true)

theorem insertKV_of_lt {β : Type} (x : Bytes × β) (l : List (Bytes × β))
    (h : ∀ y ∈ l, bytesLt x.1 y.1 = true) : insertKV x l = x :: l := by
  cases l with
  | nil => rfl
  | cons y ys =>
    have := bytesLt_asymm _ _ (h y (by simp))
    simp [insertKV, this]

theorem sortKV_of_sorted {β : Type} (l : List (Bytes × β)) (h : KeysSorted l) : sortKV l = l := by
  induction l with
  | nil => rfl
  | cons x xs ih =>
    have hp := List.pairwise_cons.mp h
    show insertKV x (sortKV xs) = x :: xs
    rw [show sortKV xs = xs from ih hp.2]
    exact insertKV_of_lt x xs hp.1

theorem mapInsert_append (k : Bytes) (v : Val) (m : List (Bytes × Val))
    (h : ∀ y ∈ m, bytesLt y.1 k = true) : mapInsert k v m = m ++ [(k, v)] := by
  induction m with
  | nil => rfl
  | cons y ys ih =>
    obtain ⟨k', v'⟩ := y
    have hy : bytesLt k' k = true := h (k', v') (by simp)
    have h1 : k ≠ k' := by
      intro heq; subst heq; rw [bytesLt_irrefl] at hy; cases hy
    have h2 : bytesLt k k' = false := bytesLt_asymm _ _ hy
    simp only [mapInsert, h1, h2, if_false, List.cons_append]
    rw [ih (fun y hy => h y (by simp [hy]))]
    simp

theorem buildMap_aux (acc es : List (Bytes × Val)) (h : KeysSorted (acc ++ es)) :
    es.foldl (fun m e => mapInsert e.1 e.2 m) acc = acc ++ es := by
  induction es generalizing acc with
  | nil => simp
  | cons e es ih =>
    have hp := List.pairwise_append.mp h
    have hins : mapInsert e.1 e.2 acc = acc ++ [e] :=
      mapInsert_append e.1 e.2 acc (fun y hy => hp.2.2 y hy e (by simp))
    simp only [List.foldl_cons, hins]
    rw [ih (acc ++ [e]) (by simpa using h)]
    simp

theorem buildMap_of_sorted (es : List (Bytes × Val)) (h : KeysSorted es) : buildMap es = es := by
  simpa [buildMap] using buildMap_aux [] es (by simpa using h)

/-! ## what a value looks like after the wire -/

/- `wireV v`: every `int` reduced modulo 2^32 (the `uint32(v)` cast of `encodePacket`), nothing else changed -/
mutual
def wireV : Val → Val
  | .nil => .nil
  | .bool b => .bool b
  | .int n => .int (n % 4294967296)
  | .str s => .str s
  | .bytes s => .bytes s
  | .arr xs => .arr (wireList xs)
  | .map kvs => .map (wireKVs kvs)
def wireList : List Val → List Val
  | [] => []
  | x :: xs => wireV x :: wireList xs
def wireKVs : List (Bytes × Val) → List (Bytes × Val)
  | [] => []
  | (k, v) :: kvs => (k, wireV v) :: wireKVs kvs
end

/- every map node of the value lists its keys in strictly increasing Go string order (canonical form of a Go map) -/
mutual
def MapsSorted : Val → Prop
  | .nil => True
  | .bool _ => True
  | .int _ => True
  | .str _ => True
  | .bytes _ => True
  | .arr xs => AllSorted xs
  | .map kvs => KeysSorted kvs ∧ AllSortedKV kvs
def AllSorted : List Val → Prop
  | [] => True
  | x :: xs => MapsSorted x ∧ AllSorted xs
def AllSortedKV : List (Bytes × Val) → Prop
  | [] => True
  | (_, v) :: kvs => MapsSorted v ∧ AllSortedKV kvs
end

/- every `int` of the value is a uint32 -/
mutual
def IntsInRange : Val → Prop
  | .nil => True
  | .bool _ => True
  | .int n => 0 ≤ n ∧ n < 4294967296
  | .str _ => True
  | .bytes _ => True
  | .arr xs => AllInRange xs
  | .map kvs => AllInRangeKV kvs
def AllInRange : List Val → Prop
  | [] => True
  | x :: xs => IntsInRange x ∧ AllInRange xs
def AllInRangeKV : List (Bytes × Val) → Prop
  | [] => True
  | (_, v) :: kvs => IntsInRange v ∧ AllInRangeKV kvs
end

mutual
theorem wireV_of_inRange : ∀ (v : Val), IntsInRange v → wireV v = v
  | .nil, _ => rfl
  | .bool _, _ => rfl
  | .int n, h => by
    simp only [IntsInRange] at h
    simp only [wireV]
    congr 1
    omega
  | .str _, _ => rfl
  | .bytes _, _ => rfl
  | .arr xs, h => by
    simp only [IntsInRange] at h
    simp only [wireV, wireList_of_inRange xs h]
  | .map kvs, h => by
    simp only [IntsInRange] at h
    simp only [wireV, wireKVs_of_inRange kvs h]
theorem wireList_of_inRange : ∀ (xs : List Val), AllInRange xs → wireList xs = xs
  | [], _ => rfl
  | x :: xs, h => by
    simp only [AllInRange] at h
    simp only [wireList, wireV_of_inRange x h.1, wireList_of_inRange xs h.2]
theorem wireKVs_of_inRange : ∀ (kvs : List (Bytes × Val)), AllInRangeKV kvs → wireKVs kvs = kvs
  | [], _ => rfl
  | (k, v) :: kvs, h => by
    simp only [AllInRangeKV] at h
    simp only [wireKVs, wireV_of_inRange v h.1, wireKVs_of_inRange kvs h.2]
end

theorem wireKVs_keys (kvs : List (Bytes × Val)) : (wireKVs kvs).map (·.1) = kvs.map (·.1) := by
  induction kvs with
  | nil => rfl
  | cons kv kvs ih => obtain ⟨k, v⟩ := kv; simp [wireKVs, ih]

theorem encPairs_keys (kvs : List (Bytes × Val)) : (encPairs kvs).map (·.1) = kvs.map (·.1) := by
  induction kvs with
  | nil => rfl
  | cons kv kvs ih => obtain ⟨k, v⟩ := kv; simp [encPairs, ih]

theorem keysSorted_iff_keys {β : Type} (l : List (Bytes × β)) :
    KeysSorted l ↔ (l.map (·.1)).Pairwise (fun a b => bytesLt a b = true) := by
  simp [KeysSorted, List.pairwise_map]

theorem keysSorted_congr {β γ : Type} (l : List (Bytes × β)) (l' : List (Bytes × γ))
    (h : l'.map (·.1) = l.map (·.1)) : KeysSorted l → KeysSorted l' := by
  rw [keysSorted_iff_keys, keysSorted_iff_keys, h]; exact id

/-! ## lengths -/

theorem encV_length_pos : ∀ (v : Val), 1 ≤ (encV v).length
  | .nil => by simp [encV]
  | .bool _ => by simp [encV]
  | .int _ => by simp [encV]
  | .str _ => by simp [encV]
  | .bytes _ => by simp [encV]
  | .arr _ => by simp [encV]
  | .map _ => by simp [encV]

theorem length_le_encList (xs : List Val) : xs.length ≤ (encList xs).length := by
  induction xs with
  | nil => simp [encList]
  | cons x xs ih =>
    have := encV_length_pos x
    simp only [encList, List.length_cons, List.length_append]
    omega

theorem length_le_catKV (l : List (Bytes × Bytes)) : l.length ≤ (catKV l).length := by
  induction l with
  | nil => simp [catKV]
  | cons x xs ih =>
    obtain ⟨k, e⟩ := x
    simp only [catKV, List.length_cons, List.length_append, u32le_length]
    omega

theorem encPairs_length (kvs : List (Bytes × Val)) : (encPairs kvs).length = kvs.length := by
  induction kvs with
  | nil => rfl
  | cons kv kvs ih => obtain ⟨k, v⟩ := kv; simp [encPairs, ih]

end EsbuildModel.Stdio
