import EsbuildModel.Lemmas.RealPathPure
/-
The resolver's dirCache: every cache reachable from the empty one by `dirInfoCached` / `finalizeResolve` calls is
coherent (holds only values of the cache-free function), and on a coherent cache the cached computation returns the
cache-free value.
-/
namespace EsbuildModel.RealPath
open EsbuildModel.PosixFS

theorem lookup_set (c : Cache) (p q : Path) (v : Option DirInfo) :
    (c.set p v).lookup q = if p = q then some v else c.lookup q := by
  unfold Cache.set Cache.lookup
  by_cases h : p = q
  · simp [List.find?, h]
  · simp [List.find?, h]

/-- every cached value is the cache-free value, except that a path in `bad` may hold the placeholder `nil` -/
def Coh (t : Tree) (preserve : Bool) (c : Cache) (bad : Path → Prop) : Prop :=
  ∀ p v, c.lookup p = some v → v = dirInfoPure t preserve p.reverse ∨ (bad p ∧ v = none)

def Coherent (t : Tree) (preserve : Bool) (c : Cache) : Prop := Coh t preserve c (fun _ => False)

theorem coherent_nil (t : Tree) (preserve : Bool) : Coherent t preserve [] := by
  intro p v h; simp [Cache.lookup] at h

/-- drop the placeholder's exemption once the path has its final value -/
theorem cacheFinish_coh {t : Tree} {preserve : Bool} {bad : Path → Prop} {rp : List Name} {c2 : Cache}
    (hc2 : Coh t preserve c2 (fun p => bad p ∨ p = rp.reverse)) {res : Option DirInfo}
    (hres : res = dirInfoPure t preserve rp) :
    (cacheFinish c2 rp.reverse res).2 = dirInfoPure t preserve rp ∧
    Coh t preserve (cacheFinish c2 rp.reverse res).1 bad := by
  cases res with
  | none =>
    refine ⟨hres, ?_⟩
    intro p v hp
    simp only [cacheFinish] at hp
    rcases hc2 p v hp with h | ⟨h, hv⟩
    · exact .inl h
    · rcases h with h | h
      · exact .inr ⟨h, hv⟩
      · subst h; subst hv; left; rw [hres]; simp
  | some i =>
    refine ⟨hres, ?_⟩
    intro p v hp
    simp only [cacheFinish] at hp
    rw [lookup_set] at hp
    by_cases he : rp.reverse = p
    · rw [if_pos he] at hp; cases hp; subst he; left; rw [hres]; simp
    · rw [if_neg he] at hp
      rcases hc2 p v hp with h | ⟨h, hv⟩
      · exact .inl h
      · rcases h with h | h
        · exact .inr ⟨h, hv⟩
        · exact absurd h.symm he

theorem set_placeholder_coh {t : Tree} {preserve : Bool} {bad : Path → Prop} {c : Cache} {q : Path}
    (hc : Coh t preserve c bad) : Coh t preserve (c.set q none) (fun p => bad p ∨ p = q) := by
  intro p v hp
  rw [lookup_set] at hp
  by_cases he : q = p
  · rw [if_pos he] at hp; cases hp
    exact .inr ⟨.inr he.symm, rfl⟩
  · rw [if_neg he] at hp
    rcases hc p v hp with h | ⟨h, hv⟩
    · exact .inl h
    · exact .inr ⟨.inl h, hv⟩

theorem cached_spec (t : Tree) (preserve : Bool) : ∀ (rp : List Name) (c : Cache) (bad : Path → Prop),
    Coh t preserve c bad → (∀ s, s <:+ rp → ¬ bad s.reverse) →
    (dirInfoCachedRev t preserve rp c).2 = dirInfoPure t preserve rp ∧
    Coh t preserve (dirInfoCachedRev t preserve rp c).1 bad := by
  intro rp
  induction rp with
  | nil =>
    intro c bad hc hb
    rw [dirInfoCachedRev]
    cases hl : c.lookup [] with
    | some v =>
      simp only
      rcases hc _ v hl with h | ⟨h, _⟩
      · exact ⟨by simpa using h, hc⟩
      · exact absurd h (hb [] (List.suffix_refl _))
    | none =>
      simp only
      exact cacheFinish_coh (rp := []) (set_placeholder_coh hc) (by simp [dirInfoPure])
  | cons b pr ih =>
    intro c bad hc hb
    rw [dirInfoCachedRev]
    cases hl : c.lookup (b :: pr).reverse with
    | some v =>
      simp only
      rcases hc _ v hl with h | ⟨h, _⟩
      · exact ⟨by simpa using h, hc⟩
      · exact absurd h (hb _ (List.suffix_refl _))
    | none =>
      simp only
      have hb1 : ∀ s, s <:+ pr → ¬ (bad s.reverse ∨ s.reverse = (b :: pr).reverse) := by
        intro s hs hbad
        rcases hbad with h | h
        · exact hb s (List.IsSuffix.trans hs (List.suffix_cons b pr)) h
        · have hlen := congrArg List.length h
          have := List.IsSuffix.length_le hs
          simp at hlen; omega
      obtain ⟨hres, hc2⟩ := ih (c.set (b :: pr).reverse none) _ (set_placeholder_coh hc) hb1
      refine cacheFinish_coh (rp := b :: pr) hc2 ?_
      rw [hres]
      rfl

theorem dirInfoCached_spec {t : Tree} {preserve : Bool} {c : Cache} (hc : Coherent t preserve c) (p : Path) :
    (dirInfoCached t preserve c p).2 = dirInfoPure t preserve p.reverse ∧
    Coherent t preserve (dirInfoCached t preserve c p).1 :=
  cached_spec t preserve p.reverse c _ hc (fun _ _ h => h)

end EsbuildModel.RealPath
