import EsbuildModel.Lemmas.SmChunkFind
/-!
One call of `ChunkBuilder.appendMapping` with an input source map is one step of map composition.
-/
namespace EsbuildModel.SmChunk
open Spec.SourceMapCompose SmJoin

/-- the input map as the specification sees it: sources as indices into ITS `sources`, names as strings -/
def denote (im : InputMap) : List (Entry Int Bytes) :=
  im.mappings.toList.map fun m =>
    ⟨m.genLine, m.genCol, m.srcIdx, m.origLine, m.origCol, m.name.bind fun i => im.names[i]?⟩

theorem lastLE_map {σ ν σ' ν' : Type} (f : Entry σ ν → Entry σ' ν') (hf : ∀ e, (f e).gline = e.gline ∧ (f e).gcol = e.gcol)
    (line col : Int) : ∀ L : List (Entry σ ν), lastLE line col (L.map f) = (lastLE line col L).map f := by
  intro L
  induction L with
  | nil => rfl
  | cons e rest ih =>
    simp only [List.map_cons, lastLE, ih]
    cases lastLE line col rest with
    | some e' => rfl
    | none =>
      simp only [Option.map_none, (hf e).1, (hf e).2]
      split <;> rfl

theorem lookup_map {σ ν σ' ν' : Type} (f : Entry σ ν → Entry σ' ν') (hf : ∀ e, (f e).gline = e.gline ∧ (f e).gcol = e.gcol)
    (line col : Int) (L : List (Entry σ ν)) : lookup (L.map f) line col = (lookup L line col).map f := by
  simp only [lookup, lastLE_map f hf]
  cases lastLE line col L with
  | none => rfl
  | some e =>
    simp only [Option.map_some, (hf e).1]
    split <;> rfl

def resolveNames (im : InputMap) (e : Entry Int Nat) : Entry Int Bytes :=
  ⟨e.gline, e.gcol, e.source, e.oline, e.ocol, e.name.bind fun i => im.names[i]?⟩

theorem denote_eq (im : InputMap) : denote im = (im.mappings.toList.map entryOf).map (resolveNames im) := by
  simp [denote, resolveNames, entryOf, List.map_map, Function.comp_def]

theorem internName_spec (names : List Bytes) (n : Bytes) :
    (∃ ext, (internName names n).2 = names ++ ext) ∧ (internName names n).2[(internName names n).1]? = some n := by
  unfold internName
  split
  · next i hi =>
    refine ⟨⟨[], by simp⟩, ?_⟩
    obtain ⟨h, hp, _⟩ := List.findIdx?_eq_some_iff_getElem.1 hi
    simp only [List.getElem?_eq_getElem h]
    simpa using hp
  · exact ⟨⟨[n], rfl⟩, by simp⟩

/-- names in range, as `ParseSourceMap` checks them -/
def NamesInRange (im : InputMap) : Prop :=
  ∀ k (h : k < im.mappings.size) i, im.mappings[k].name = some i → i < im.names.length

/-- **One `appendMapping` is one step of composition.** For an input map ordered by generated position whose name
indices are in range: the call never panics; if the specification's lookup of the printer's position in the input
map is undefined, nothing is recorded (the position stays unmapped) and the names table is untouched; otherwise the
recorded mapping has the source index and original position of the entry found, and its name — the entry's own
name if it has one, else the printer's; no name at all if that string is empty — is in the (only ever extended)
names table at the recorded index. -/
theorem remap_is_lookup (im : InputMap) (hs : SortedArr im.mappings) (hn : NamesInRange im)
    (names : List Bytes) (line col : Int) (name : Bytes) :
    ∃ res names', remap (some im) names line col name = some (res, names') ∧ (∃ ext, names' = names ++ ext) ∧
      match lookup (denote im) line col with
      | none => res = none ∧ names' = names
      | some e =>
        let nm : Bytes := match e.name with | some n => n | none => name
        ∃ r, res = some r ∧ r.src = e.source ∧ r.line = e.oline ∧ r.col = e.ocol ∧
          (if nm = [] then r.name = none ∧ names' = names
           else ∃ i : Nat, r.name = some (i : Int) ∧ names'[i]? = some nm) := by
  obtain ⟨r, hr, hspec⟩ := find_eq_lookup im.mappings hs line col
  rw [denote_eq, lookup_map (resolveNames im) (fun e => ⟨rfl, rfl⟩)]
  unfold remap
  simp only [hr]
  cases r with
  | none =>
    simp only at hspec
    rw [hspec]
    exact ⟨none, names, rfl, ⟨[], by simp⟩, rfl, rfl⟩
  | some k =>
    simp only at hspec
    obtain ⟨hk, hl⟩ := hspec
    rw [hl]
    simp only [Array.getElem?_eq_getElem hk, Option.map_some]
    cases hname : im.mappings[k].name with
    | none =>
      simp only [resolveNames, entryOf, hname, Option.bind_none]
      by_cases hnm : name = []
      · subst hnm
        exact ⟨_, names, rfl, ⟨[], by simp⟩, _, rfl, rfl, rfl, rfl, by simp⟩
      · simp only [hnm, ne_eq, not_false_eq_true, if_true, if_false]
        obtain ⟨hext, hidx⟩ := internName_spec names name
        exact ⟨_, _, rfl, hext, _, rfl, rfl, rfl, rfl, _, rfl, hidx⟩
    | some i =>
      have hi : i < im.names.length := hn k hk i hname
      simp only [resolveNames, entryOf, hname, Option.bind_some, List.getElem?_eq_getElem hi]
      by_cases hnm : im.names[i] = []
      · simp only [hnm, ne_eq, not_true_eq_false, if_false, if_true]
        exact ⟨_, names, rfl, ⟨[], by simp⟩, _, rfl, rfl, rfl, rfl, rfl, rfl⟩
      · simp only [hnm, ne_eq, not_false_eq_true, if_true, if_false]
        obtain ⟨hext, hidx⟩ := internName_spec names im.names[i]
        exact ⟨_, _, rfl, hext, _, rfl, rfl, rfl, rfl, _, rfl, hidx⟩

end EsbuildModel.SmChunk
