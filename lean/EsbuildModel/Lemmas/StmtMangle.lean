import EsbuildModel.Impl.StmtMangle
import EsbuildModel.Lemmas.MiniJSIf
import EsbuildModel.Lemmas.MiniJSUnused
/-!
Lemmas/StmtMangle — the statement semantics as computations over the expression semantics (`stBind`), the
bridges from the expression-level equivalences (EvalEq / BoolEq / UnusedEq in the world `w.withEnv env`) to
statements, and the building blocks of the statement-level theorems of Props/C03StmtMangle.
-/
namespace EsbuildModel.MiniJS

/-- the world an expression of a statement sees -/
abbrev wOf (w : World) (st : St) : World := w.withEnv st.env

/-- continue a statement after an expression-level computation (the environment is unchanged by expressions) -/
def stBind {α : Type} (st : St) (r : Res α × Trace) (k : α → St → Out) : Out :=
  match r with
  | (.val v, tr) => k v ⟨st.env, tr⟩
  | (.throw ex, tr) => some (.throw ex, ⟨st.env, tr⟩)

theorem stBind_val {α : Type} (st : St) (v : α) (tr : Trace) (k : α → St → Out) :
    stBind st (.val v, tr) k = k v ⟨st.env, tr⟩ := rfl

theorem stBind_throw {α : Type} (st : St) (ex : Exn) (tr : Trace) (k : α → St → Out) :
    stBind st ((.throw ex : Res α), tr) k = some (.throw ex, ⟨st.env, tr⟩) := rfl

theorem stBind_bind {α β : Type} (st : St) (r : Res α × Trace) (f : α → Trace → Res β × Trace) (k : β → St → Out) :
    stBind st (bind r f) k = stBind st r fun a st1 => stBind st1 (f a st1.tr) k := by
  rcases res_cases r with ⟨v, tr1, h⟩ | ⟨x, tr1, h⟩ <;> subst h <;> simp [bind, stBind]

theorem stBind_congr {α : Type} (st : St) (r : Res α × Trace) (k k2 : α → St → Out)
    (h : ∀ a tr, k a ⟨st.env, tr⟩ = k2 a ⟨st.env, tr⟩) : stBind st r k = stBind st r k2 := by
  rcases res_cases r with ⟨v, tr1, hr⟩ | ⟨x, tr1, hr⟩ <;> subst hr <;> simp [stBind, h]

theorem withVal_eq (w : World) (st : St) (e : Expr) (k : Val → St → Out) :
    withVal w st e k = stBind st (eval (wOf w st) e st.tr) k := by
  simp only [withVal, evalIn, stBind]
  split <;> simp_all

def done : Unit → St → Out := fun _ st => some (.normal, st)

/-- an expression statement observes `evalUnused` -/
theorem execS_expr (w : World) (again : List Nat → Stmt → St → Out) (labs : List Nat) (e : Expr) (st : St) :
    execS w again labs (.expr e) st = stBind st (evalUnused (wOf w st) e st.tr) done := by
  simp only [execS, withVal_eq, evalUnused_eq, stBind_bind]
  apply stBind_congr; intro a tr; rfl

/-- an `if` observes `evalBool` of its test -/
theorem execS_if (w : World) (again : List Nat → Stmt → St → Out) (labs : List Nat) (c : Expr) (y : Stmt)
    (n : Option Stmt) (st : St) :
    execS w again labs (.ifS c y n) st =
      stBind st (evalBool (wOf w st) c st.tr) fun t st1 =>
        if t then execS w again [] y st1 else execOpt w again n st1 := by
  simp only [execS, withVal_eq, evalBool_eq, stBind_bind]
  apply stBind_congr; intro a tr; rfl

theorem execS_ret (w : World) (again : List Nat → Stmt → St → Out) (labs : List Nat) (e : Expr) (st : St) :
    execS w again labs (.ret (some e)) st =
      stBind st (eval (wOf w st) e st.tr) fun v st1 => some (.ret v, st1) := by
  simp only [execS, withVal_eq]

theorem execS_throw (w : World) (again : List Nat → Stmt → St → Out) (labs : List Nat) (e : Expr) (st : St) :
    execS w again labs (.throw e) st =
      stBind st (eval (wOf w st) e st.tr) fun v st1 => some (.throw (.host v), st1) := by
  simp only [execS, withVal_eq]

theorem boundOK_withEnv (w : World) (ub : Nat → Bool) (H : BoundOK w ub) (env : Env) : BoundOK (w.withEnv env) ub := by
  intro tr x hx
  have := H tr x hx
  simp only [World.withEnv]
  cases env x <;> simp_all

-- ---------------------------------------------------------------- lists

/-- sequencing of two statement lists -/
def seqOut (r : Out) (k : St → Out) : Out :=
  match r with
  | some (.normal, st) => k st
  | r => r

theorem execL_cons (w : World) (again : List Nat → Stmt → St → Out) (s : Stmt) (ss : List Stmt) (st : St) :
    execL w again (s :: ss) st = seqOut (execS w again [] s st) (execL w again ss) := by
  simp only [execL, seqOut]
  split <;> simp_all

theorem seqOut_normal (st : St) (k : St → Out) : seqOut (some (.normal, st)) k = k st := rfl

theorem seqOut_assoc (r : Out) (k k2 : St → Out) : seqOut (seqOut r k) k2 = seqOut r fun st => seqOut (k st) k2 := by
  rcases r with _ | ⟨c, st⟩
  · rfl
  · cases c <;> rfl

theorem seqOut_id (r : Out) : seqOut r (fun st => some (.normal, st)) = r := by
  rcases r with _ | ⟨c, st⟩
  · rfl
  · cases c <;> rfl

theorem execL_append (w : World) (again : List Nat → Stmt → St → Out) (a b : List Stmt) (st : St) :
    execL w again (a ++ b) st = seqOut (execL w again a st) (execL w again b) := by
  induction a generalizing st with
  | nil => simp [execL, seqOut]
  | cons s ss ih =>
    simp only [List.cons_append, execL_cons, seqOut_assoc]
    congr 1; funext st1; exact ih st1

theorem execL_single (w : World) (again : List Nat → Stmt → St → Out) (s : Stmt) (st : St) :
    execL w again [s] st = execS w again [] s st := by
  rw [execL_cons]
  have : execL w again [] = fun st => some (.normal, st) := by funext st; simp [execL]
  rw [this, seqOut_id]

/-- the meaning of a result stack followed by more statements -/
theorem execL_stack (w : World) (again : List Nat → Stmt → St → Out) (acc : List Stmt) (s : Stmt) (st : St) :
    execL w again (s :: acc).reverse st = seqOut (execL w again acc.reverse st) (execS w again [] s) := by
  simp only [List.reverse_cons, execL_append]
  congr 1; funext st1; exact execL_single w again s st1

theorem stBind_seq {α : Type} (st : St) (r : Res α × Trace) (k : α → St → Out) (k2 : St → Out) :
    seqOut (stBind st r k) k2 = stBind st r fun a st1 => seqOut (k a st1) k2 := by
  rcases res_cases r with ⟨v, tr1, h⟩ | ⟨x, tr1, h⟩ <;> subst h <;> simp [stBind, seqOut]

-- ---------------------------------------------------------------- a preceding expression statement is absorbed

theorem seq_expr (w : World) (again : List Nat → Stmt → St → Out) (a : Expr) (st : St) (k : St → Out) :
    seqOut (execS w again [] (.expr a) st) k = stBind st (eval (wOf w st) a st.tr) fun _ st1 => k st1 := by
  rw [execS_expr, stBind_seq, evalUnused_eq, stBind_bind]
  apply stBind_congr; intro v tr; rfl

/-- "a(); b();" => "a(), b();" -/
theorem expr_expr_merge (w : World) (again : List Nat → Stmt → St → Out) (a b : Expr) (st : St) :
    seqOut (execS w again [] (.expr a) st) (execS w again [] (.expr b)) =
      execS w again [] (.expr (.binary .comma a b)) st := by
  rw [seq_expr, execS_expr (e := .binary .comma a b), evalUnused_eq, eval_comma, bind_assoc, stBind_bind]
  apply stBind_congr; intro v tr
  rw [execS_expr, evalUnused_eq]

/-- "a(); return b;" => "return a(), b;" -/
theorem expr_ret_merge (w : World) (again : List Nat → Stmt → St → Out) (a b : Expr) (st : St) :
    seqOut (execS w again [] (.expr a) st) (execS w again [] (.ret (some b))) =
      execS w again [] (.ret (some (.binary .comma a b))) st := by
  rw [seq_expr, execS_ret (e := .binary .comma a b), eval_comma, stBind_bind]
  apply stBind_congr; intro v tr
  rw [execS_ret]

/-- "a(); throw b;" => "throw a(), b;" -/
theorem expr_throw_merge (w : World) (again : List Nat → Stmt → St → Out) (a b : Expr) (st : St) :
    seqOut (execS w again [] (.expr a) st) (execS w again [] (.throw b)) =
      execS w again [] (.throw (.binary .comma a b)) st := by
  rw [seq_expr, execS_throw (e := .binary .comma a b), eval_comma, stBind_bind]
  apply stBind_congr; intro v tr
  rw [execS_throw]

/-- "a(); if (b) …" => "if (a(), b) …" -/
theorem expr_if_merge (w : World) (again : List Nat → Stmt → St → Out) (a c : Expr) (y : Stmt) (n : Option Stmt)
    (st : St) :
    seqOut (execS w again [] (.expr a) st) (execS w again [] (.ifS c y n)) =
      execS w again [] (.ifS (.binary .comma a c) y n) st := by
  rw [seq_expr, execS_if (c := .binary .comma a c), evalBool_comma, stBind_bind]
  apply stBind_congr; intro v tr
  rw [execS_if]

-- ---------------------------------------------------------------- congruences for tests and unused expressions

theorem execS_if_congr (w : World) (again : List Nat → Stmt → St → Out) (labs : List Nat) (c c2 : Expr) (y : Stmt)
    (n : Option Stmt) (st : St) (h : BoolEq (wOf w st) c c2) :
    execS w again labs (.ifS c y n) st = execS w again labs (.ifS c2 y n) st := by
  rw [execS_if, execS_if, h st.tr]

theorem execS_expr_congr (w : World) (again : List Nat → Stmt → St → Out) (labs : List Nat) (a b : Expr) (st : St)
    (h : UnusedEq (wOf w st) a b) : execS w again labs (.expr a) st = execS w again labs (.expr b) st := by
  rw [execS_expr, execS_expr, h st.tr]

theorem execS_expr_nop (w : World) (again : List Nat → Stmt → St → Out) (labs : List Nat) (a : Expr) (st : St)
    (h : Nop (wOf w st) a) : execS w again labs (.expr a) st = some (.normal, st) := by
  rw [execS_expr, h st.tr]; rfl

theorem execS_ret_congr (w : World) (again : List Nat → Stmt → St → Out) (labs : List Nat) (a b : Expr) (st : St)
    (h : EvalEq (wOf w st) a b) : execS w again labs (.ret (some a)) st = execS w again labs (.ret (some b)) st := by
  rw [execS_ret, execS_ret, h st.tr]

theorem execS_throw_congr (w : World) (again : List Nat → Stmt → St → Out) (labs : List Nat) (a b : Expr) (st : St)
    (h : EvalEq (wOf w st) a b) : execS w again labs (.throw a) st = execS w again labs (.throw b) st := by
  rw [execS_throw, execS_throw, h st.tr]

/-- what `pushExpr` appends behaves like the expression statement it stands for -/
theorem pushExpr_sound (w : World) (again : List Nat → Stmt → St → Out) (cfg : Cfg) (H : BoundOK w cfg.ub)
    (acc : List Stmt) (e : Expr) (hwf : e.wf = true) (st : St) :
    execL w again (pushExpr cfg acc e).reverse st =
      seqOut (execL w again acc.reverse st) (execS w again [] (.expr e)) := by
  have hs := sue_sound (wOf w st) cfg.ub
  simp only [pushExpr]
  cases hr : simplifyUnusedExpr cfg.ub e with
  | none =>
    rw [execL_stack]
    congr 1; funext st1
    have := sue_sound (wOf w st1) cfg.ub (boundOK_withEnv w cfg.ub H st1.env) e hwf
    rw [hr] at this
    rw [execS_expr_nop w again [] e st1 this]; rfl
  | some e2 =>
    rw [execL_stack]
    congr 1; funext st1
    have := sue_sound (wOf w st1) cfg.ub (boundOK_withEnv w cfg.ub H st1.env) e hwf
    rw [hr] at this
    exact (execS_expr_congr w again [] e e2 st1 this).symm

-- ---------------------------------------------------------------- an `if` over expression statements is an expression

theorem execS_empty (w : World) (again : List Nat → Stmt → St → Out) (labs : List Nat) (st : St) :
    execS w again labs .empty st = some (.normal, st) := by simp [execS]

/-- the unused-value meaning of "test ? a : b" where a missing branch does nothing -/
def ifUnused (w : World) (c : Expr) (a b : Option Expr) (tr : Trace) : Res Unit × Trace :=
  bind (evalBool w c tr) fun t tr1 =>
    if t then (match a with | some a => evalUnused w a tr1 | none => (.val (), tr1))
    else (match b with | some b => evalUnused w b tr1 | none => (.val (), tr1))

def optExprStmt : Option Expr → Stmt
  | some e => .expr e
  | none => .empty

theorem execS_optExprStmt (w : World) (again : List Nat → Stmt → St → Out) (labs : List Nat) (a : Option Expr) (st : St) :
    execS w again labs (optExprStmt a) st =
      stBind st (match a with | some a => evalUnused (wOf w st) a st.tr | none => (.val (), st.tr)) done := by
  cases a with
  | none => simp [optExprStmt, execS_empty, stBind, done]
  | some a => simp [optExprStmt, execS_expr]

/-- if the expression `E`, with its value discarded, behaves like "c ? a : b" then the statement `E;` behaves like
`if (c) a; else b;` -/
theorem expr_eq_if (w : World) (again : List Nat → Stmt → St → Out) (E c : Expr) (a b : Option Expr) (st : St)
    (n : Option Stmt) (hn : execOpt w again n = execS w again [] (optExprStmt b))
    (hE : ∀ tr, evalUnused (wOf w st) E tr = ifUnused (wOf w st) c a b tr) :
    execS w again [] (.expr E) st = execS w again [] (.ifS c (optExprStmt a) n) st := by
  rw [execS_expr, execS_if, hE, ifUnused, stBind_bind]
  apply stBind_congr; intro t tr
  cases t
  · simp only [Bool.false_eq_true, if_false, hn]; rw [execS_optExprStmt]
  · simp only [if_true]; rw [execS_optExprStmt]

theorem execOpt_none (w : World) (again : List Nat → Stmt → St → Out) :
    execOpt w again none = execS w again [] (optExprStmt none) := by
  funext st; simp [execOpt, optExprStmt, execS_empty]

theorem execOpt_some_expr (w : World) (again : List Nat → Stmt → St → Out) (e : Expr) :
    execOpt w again (some (.expr e)) = execS w again [] (optExprStmt (some e)) := by
  funext st; simp [execOpt, optExprStmt]

theorem notOperand?_some (t v : Expr) (h : notOperand? t = some v) : t = .unary .not v := by
  cases t <;> simp [notOperand?] at h
  obtain ⟨h1, h2⟩ := h; subst h1 h2; rfl

theorem ifUnused_not (w : World) (v : Expr) (a b : Option Expr) (tr : Trace) :
    ifUnused w (.unary .not v) a b tr = ifUnused w v b a tr := by
  simp only [ifUnused, evalBool_not, bind_assoc]
  apply bind_congr; intro t tr1
  cases t <;> simp [bind]

theorem unused_and (w : World) (c a : Expr) (tr : Trace) :
    evalUnused w (.binary .and c a) tr = ifUnused w c (some a) none tr := by
  rw [evalUnused_and]; rfl

theorem unused_or (w : World) (c a : Expr) (tr : Trace) :
    evalUnused w (.binary .or c a) tr = ifUnused w c none (some a) tr := by
  rw [evalUnused_or]; rfl

theorem unused_cond (w : World) (c a b : Expr) (tr : Trace) :
    evalUnused w (.cond c a b) tr = ifUnused w c (some a) (some b) tr := by
  rw [evalUnused_cond]; rfl

theorem unused_test (w : World) (c : Expr) (tr : Trace) :
    evalUnused w c tr = ifUnused w c none none tr := by
  rw [evalUnused_of_bool, ifUnused]
  apply bind_congr; intro t tr1; cases t <;> rfl

theorem isLogical_and : BinOp.isLogical .and = true := rfl
theorem isLogical_or : BinOp.isLogical .or = true := rfl

theorem unused_join_and (w : World) (c a : Expr) (tr : Trace) :
    evalUnused w (joinWithLeftAssociativeOp .and c a) tr = ifUnused w c (some a) none tr := by
  rw [← unused_and]; exact (join_equiv w .and rfl c a).toUnused tr

theorem unused_join_or (w : World) (c a : Expr) (tr : Trace) :
    evalUnused w (joinWithLeftAssociativeOp .or c a) tr = ifUnused w c none (some a) tr := by
  rw [← unused_or]; exact (join_equiv w .or rfl c a).toUnused tr

-- ---------------------------------------------------------------- well-formed statements (typeof flags)

def declsWf : List Decl → Bool
  | [] => true
  | d :: ds => (match d.init with | some e => e.wf | none => true) && declsWf ds

def optExprWf : Option Expr → Bool
  | some e => e.wf
  | none => true

def ForInit.wf : ForInit → Bool
  | .none => true
  | .expr e => e.wf
  | .decl _ ds => declsWf ds

mutual
def Stmt.wf : Stmt → Bool
  | .expr e => e.wf
  | .decl _ ds => declsWf ds
  | .ifS c y n => c.wf && y.wf && optStmtWf n
  | .block ss => listWf ss
  | .ret e => optExprWf e
  | .throw e => e.wf
  | .label _ s => s.wf
  | .forS i t u b => i.wf && optExprWf t && optExprWf u && b.wf
  | .whileS c b => c.wf && b.wf
  | .doWhile b c => b.wf && c.wf
  | _ => true
def optStmtWf : Option Stmt → Bool
  | none => true
  | some s => s.wf
def listWf : List Stmt → Bool
  | [] => true
  | s :: ss => s.wf && listWf ss
end

-- ---------------------------------------------------------------- mangleIf, second half

/-- the side condition of the if-else → conditional rule: MangleIfExpr keeps the typeof-flag invariant on this input
(true for every input; not proved in general, so the statement theorems ask for it on their input) -/
def condWf (cfg : Cfg) (test : Expr) (yes : Stmt) (no : Option Stmt) : Bool :=
  match yes, no with
  | .expr ye, some (.expr ne) => (mangleIfExpr cfg.ub cfg.nullishOK test ye ne).wf
  | _, _ => true

theorem mangleIfShape_sound (w : World) (again : List Nat → Stmt → St → Out) (cfg : Cfg) (H : BoundOK w cfg.ub)
    (acc : List Stmt) (test : Expr) (yes : Stmt) (no : Option Stmt)
    (hwf : (Stmt.ifS test yes no).wf = true) (hc : condWf cfg test yes no = true) (st : St) :
    execL w again (mangleIfShape cfg acc test yes no).reverse st =
      seqOut (execL w again acc.reverse st) (execS w again [] (.ifS test yes no)) := by
  simp only [Stmt.wf, Bool.and_eq_true] at hwf
  obtain ⟨⟨hwt, hwy⟩, hwn⟩ := hwf
  -- a pushed expression `E` that stands for the whole `if`
  have push : ∀ (E : Expr), E.wf = true →
      (∀ st1 : St, execS w again [] (.expr E) st1 = execS w again [] (.ifS test yes no) st1) →
      execL w again (pushExpr cfg acc E).reverse st =
        seqOut (execL w again acc.reverse st) (execS w again [] (.ifS test yes no)) := by
    intro E hE h
    rw [pushExpr_sound w again cfg H acc E hE st]
    congr 1; funext st1; exact h st1
  -- a pushed `if` that stands for the whole `if`
  have pushIf : ∀ (s : Stmt),
      (∀ st1 : St, execS w again [] s st1 = execS w again [] (.ifS test yes no) st1) →
      execL w again (s :: acc).reverse st =
        seqOut (execL w again acc.reverse st) (execS w again [] (.ifS test yes no)) := by
    intro s h
    rw [execL_stack]; congr 1; funext st1; exact h st1
  unfold mangleIfShape
  split
  · -- yes is an expression
    rename_i ye
    simp only [Stmt.wf] at hwy
    split
    · -- no else
      split
      · rename_i v hv
        have ht := notOperand?_some test v hv; subst ht
        have hwv : v.wf = true := by simpa [wf_not] using hwt
        refine push _ (wf_join .or v ye hwv hwy) fun st1 => ?_
        refine expr_eq_if w again _ _ (some ye) none st1 none (execOpt_none w again) fun tr => ?_
        rw [unused_join_or, ifUnused_not]
      · refine push _ (wf_join .and test ye hwt hwy) fun st1 => ?_
        exact expr_eq_if w again _ _ (some ye) none st1 none (execOpt_none w again) fun tr => unused_join_and _ _ _ tr
    · -- else is an expression
      rename_i ne
      simp only [condWf] at hc
      refine push _ hc fun st1 => ?_
      refine expr_eq_if w again _ _ (some ye) (some ne) st1 _ (execOpt_some_expr w again ne) fun tr => ?_
      rw [← unused_cond]
      exact ((mangleIfExpr_sound (wOf w st1) cfg.ub (boundOK_withEnv w cfg.ub H st1.env) cfg.nullishOK test ye ne).toUnused tr).symm
    · exact pushIf _ fun _ => rfl
  · -- yes is empty
    split
    · -- no else: the test alone
      split
      · rename_i hrm
        have : ∀ st1 : St, execS w again [] (.ifS test .empty none) st1 = some (.normal, st1) := by
          intro st1
          have hp := rm_sound (wOf w st1) cfg.ub (boundOK_withEnv w cfg.ub H st1.env) test hrm st1.tr
          obtain ⟨v, hv⟩ := hp
          rw [execS_if, evalBool_eq, hv]
          simp [bind, stBind, execS_empty, execOpt]
        have h2 : execS w again [] (.ifS test .empty none) = fun st1 => some (.normal, st1) := funext this
        rw [h2, seqOut_id]
      · refine push _ hwt fun st1 => ?_
        exact expr_eq_if w again _ _ none none st1 none (execOpt_none w again) fun tr => unused_test _ _ tr
    · -- else is an expression
      rename_i ne
      have hwne : ne.wf = true := by simpa [optStmtWf, Stmt.wf] using hwn
      split
      · rename_i v hv
        have ht := notOperand?_some test v hv; subst ht
        have hwv : v.wf = true := by simpa [wf_not] using hwt
        refine push _ (wf_join .and v ne hwv hwne) fun st1 => ?_
        refine expr_eq_if w again _ _ none (some ne) st1 _ (execOpt_some_expr w again ne) fun tr => ?_
        rw [unused_join_and, ifUnused_not]
      · refine push _ (wf_join .or test ne hwt hwne) fun st1 => ?_
        exact expr_eq_if w again _ _ none (some ne) st1 _ (execOpt_some_expr w again ne) fun tr => unused_join_or _ _ _ tr
    · -- else is another statement: flip
      rename_i n hne
      split
      · rename_i v hv
        have ht := notOperand?_some test v hv; subst ht
        refine pushIf _ fun st1 => ?_
        rw [execS_if, execS_if, evalBool_not, stBind_bind]
        apply stBind_congr; intro t tr
        cases t <;> simp [stBind, execOpt, execS_empty]
      · refine pushIf _ fun st1 => ?_
        rw [execS_if, execS_if, (notExpr_equiv (wOf w st1) test).toBool st1.tr, evalBool_not, stBind_bind]
        apply stBind_congr; intro t tr
        cases t <;> simp [stBind, execOpt, execS_empty]
  · -- yes is another statement
    rename_i hy1 hy2
    split
    · rename_i n
      split
      · rename_i v hv
        have ht := notOperand?_some test v hv; subst ht
        refine pushIf _ fun st1 => ?_
        rw [execS_if, execS_if, evalBool_not, stBind_bind]
        apply stBind_congr; intro t tr
        cases t <;> simp [stBind, execOpt]
      · exact pushIf _ fun _ => rfl
    · split
      · rename_i c2 y2
        refine pushIf _ fun st1 => ?_
        rw [execS_if, execS_if, (join_equiv (wOf w st1) .and rfl test c2).toBool st1.tr, evalBool_and, stBind_bind]
        apply stBind_congr; intro t tr
        cases t
        · simp [stBind, execOpt]
        · simp only [if_true]; rw [execS_if]
      · exact pushIf _ fun _ => rfl

-- ---------------------------------------------------------------- keepDead keeps the invariants

theorem declsWf_stripInits : ∀ ds : List Decl, declsWf (stripInits ds) = true
  | [] => rfl
  | d :: ds => by simp [stripInits, declsWf, declsWf_stripInits ds]

theorem keepDeadDecl_wf (k : DeclKind) (ds : List Decl) (h : declsWf ds = true) : declsWf (keepDeadDecl k ds).2 = true := by
  simp only [keepDeadDecl]
  split
  · exact h
  · split
    · exact h
    · exact declsWf_stripInits ds

mutual
theorem keepDead_wf : ∀ s : Stmt, s.wf = true → (keepDead s).2.wf = true
  | .decl k ds, h => by simp only [keepDead, Stmt.wf] at *; exact keepDeadDecl_wf k ds h
  | .block ss, h => by simp only [keepDead, Stmt.wf] at *; exact keepDeadList_wf ss h
  | .ifS c y n, h => by
    simp only [Stmt.wf, Bool.and_eq_true] at h
    simp only [keepDead]
    split
    · simp [Stmt.wf, h.1.1, h.2, keepDead_wf y h.1.2]
    · simp [Stmt.wf, h.1.1, h.1.2, keepDeadOpt_wf n h.2]
  | .whileS c b, h => by
    simp only [Stmt.wf, Bool.and_eq_true] at h
    simp [keepDead, Stmt.wf, h.1, keepDead_wf b h.2]
  | .doWhile b c, h => by
    simp only [Stmt.wf, Bool.and_eq_true] at h
    simp [keepDead, Stmt.wf, h.2, keepDead_wf b h.1]
  | .forS init t u b, h => by
    simp only [Stmt.wf, Bool.and_eq_true] at h
    obtain ⟨⟨⟨hi, ht⟩, hu⟩, hb⟩ := h
    cases init with
    | none => simp [keepDead, Stmt.wf, ForInit.wf, ht, hu, keepDead_wf b hb]
    | expr e => simp only [ForInit.wf] at hi; simp [keepDead, Stmt.wf, ForInit.wf, hi, ht, hu, keepDead_wf b hb]
    | decl k ds =>
      simp only [ForInit.wf] at hi
      simp only [keepDead]
      split
      · simp [Stmt.wf, ForInit.wf, ht, hu, hb, keepDeadDecl_wf k ds hi]
      · simp [Stmt.wf, ForInit.wf, hi, ht, hu, keepDead_wf b hb]
  | .label l s, h => by simp only [keepDead, Stmt.wf] at *; exact keepDead_wf s h
  | .func f fid, _ => by simp [keepDead, Stmt.wf]
  | .empty, _ => by simp [keepDead, Stmt.wf]
  | .expr _, h => by simpa [keepDead] using h
  | .ret _, h => by simpa [keepDead] using h
  | .throw _, h => by simpa [keepDead] using h
  | .brk _, _ => by simp [keepDead, Stmt.wf]
  | .cont _, _ => by simp [keepDead, Stmt.wf]
theorem keepDeadOpt_wf : ∀ n : Option Stmt, optStmtWf n = true → optStmtWf (keepDeadOpt n).2 = true
  | none, _ => by simp [keepDeadOpt, optStmtWf]
  | some s, h => by simp only [keepDeadOpt, optStmtWf] at *; exact keepDead_wf s h
theorem keepDeadList_wf : ∀ ss : List Stmt, listWf ss = true → listWf (keepDeadList ss).2 = true
  | [], _ => by simp [keepDeadList, listWf]
  | s :: ss, h => by
    simp only [listWf, Bool.and_eq_true] at h
    simp only [keepDeadList]
    split
    · simp [listWf, h.2, keepDead_wf s h.1]
    · simp [listWf, h.1, keepDeadList_wf ss h.2]
end

end EsbuildModel.MiniJS
