import EsbuildModel.Impl.Shifts
namespace EsbuildModel.Shifts

theorem add_zero (a : LC) : add a ⟨0, 0⟩ = a := by simp [add]

theorem add_assoc (a b c : LC) : add (add a b) c = add a (add b c) := by
  unfold add
  by_cases hc : c.lines = 0 <;> by_cases hb : b.lines = 0 <;> simp [hc, hb] <;> omega

/-- advancing from `o` is adding the offset of the text alone (`shift.Before.Add(dataOffset)`) -/
theorem advance_eq_add (t : List Nat) : ∀ o : LC, advance o t = add o (advance ⟨0, 0⟩ t) := by
  induction t with
  | nil => intro o; simp [advance, add_zero]
  | cons c rest ih =>
    intro o
    have step : ∀ (d : LC), advance (add o d) rest = add o (advance d rest) := by
      intro d
      rw [ih (add o d), ih d, add_assoc]
    unfold advance
    split
    · split
      · have := step ⟨0, 0 + 1⟩
        simpa [add] using this
      · have := step ⟨0 + 1, 0⟩
        simpa [add] using this
    · have := step ⟨0, 0 + (if c ≤ 0xFFFF then 1 else 2)⟩
      simpa [add] using this

/-- one step of `advance`, with the look-ahead made explicit -/
theorem advance_cons (o : LC) (c : Nat) (rest : List Nat) :
    advance o (c :: rest) =
      advance (if isTerm c then (if c == 13 && rest.head? == some 10 then ⟨o.lines, o.cols + 1⟩ else ⟨o.lines + 1, 0⟩)
               else ⟨o.lines, o.cols + (if c ≤ 0xFFFF then 1 else 2)⟩) rest := by
  rw [advance]
  split
  · split <;> rfl
  · rfl

/-- a text may be advanced over in two steps unless the cut separates a CR from its LF -/
theorem advance_append (a b : List Nat) (h : ¬(a.getLast? = some 13 ∧ b.head? = some 10)) :
    ∀ o : LC, advance o (a ++ b) = advance (advance o a) b := by
  induction a with
  | nil => intro o; simp [advance]
  | cons c a' ih =>
    intro o
    cases a' with
    | nil =>
      have hc : ¬(c = 13 ∧ b.head? = some 10) := by simpa using h
      simp only [List.cons_append, List.nil_append]
      rw [advance_cons o c b, advance_cons o c []]
      simp only [advance, List.head?_nil]
      congr 1
      by_cases h13 : c = 13
      · have hb : b.head? ≠ some 10 := fun hb => hc ⟨h13, hb⟩
        simp [h13, hb]
      · simp [h13]
    | cons d a'' =>
      have h' : ¬((d :: a'').getLast? = some 13 ∧ b.head? = some 10) := by
        simpa [List.getLast?_cons_cons] using h
      have ih' := ih h'
      simp only [List.cons_append] at ih' ⊢
      rw [advance_cons o c (d :: (a'' ++ b)), advance_cons o c (d :: a'')]
      simp only [List.head?_cons]
      exact ih' _

/-- reference: positions of the end of every placeholder in the intermediate text (prefix `A`) and of the end
of every substituted path in the final text (prefix `B`) -/
def spec : List Nat → List Nat → List Piece → List Shift
  | _, _, [] => []
  | A, B, p :: ps =>
    match p.subst with
    | none => []
    | some (k, path) =>
      ⟨advance ⟨0, 0⟩ (A ++ p.data ++ k), advance ⟨0, 0⟩ (B ++ p.data ++ path)⟩
        :: spec (A ++ p.data ++ k) (B ++ p.data ++ path) ps

/-- unique keys and final paths neither start with LF nor end with CR (they contain no line breaks at all) -/
def CleanEnds (t : List Nat) : Prop := t.head? ≠ some 10 ∧ t.getLast? ≠ some 13 ∧ t ≠ []

/-- well-formed piece list: only the final piece may lack a placeholder (as `breakOutputIntoPieces`
produces them), and keys / paths have clean ends -/
def WF : List Piece → Prop
  | [] => True
  | p :: ps =>
    (match p.subst with
     | none => ps = []
     | some (k, path) => CleanEnds k ∧ CleanEnds path) ∧ WF ps

theorem getLast?_append_of_ne_nil (a b : List Nat) (hb : b ≠ []) : (a ++ b).getLast? = b.getLast? := by
  cases b with
  | nil => exact absurd rfl hb
  | cons x xs =>
    rw [List.getLast?_append]
    cases h : (x :: xs).getLast? with
    | none => simp at h
    | some v => simp

theorem loop_spec : ∀ (ps : List Piece) (A B : List Nat),
    WF ps → A.getLast? ≠ some 13 → B.getLast? ≠ some 13 →
    loop ⟨advance ⟨0, 0⟩ A, advance ⟨0, 0⟩ B⟩ ps = spec A B ps := by
  intro ps
  induction ps with
  | nil => intro A B _ _ _; rfl
  | cons p ps ih =>
    intro A B hwf hA hB
    obtain ⟨hp, hwf'⟩ := hwf
    unfold loop spec
    cases hs : p.subst with
    | none =>
      rw [hs] at hp
      simp only at hp
      subst hp
      simp [loop]
    | some kp =>
      obtain ⟨k, path⟩ := kp
      rw [hs] at hp
      simp only at hp
      obtain ⟨⟨hk1, hk2, hk3⟩, ⟨hp1, hp2, hp3⟩⟩ := hp
      simp only
      -- the running shift after the data and the key / path
      have eA : advance (add (advance ⟨0, 0⟩ A) (advance ⟨0, 0⟩ p.data)) k = advance ⟨0, 0⟩ (A ++ p.data ++ k) := by
        rw [← advance_eq_add p.data (advance ⟨0, 0⟩ A),
            ← advance_append A p.data (fun h => hA h.1) ⟨0, 0⟩,
            ← advance_append (A ++ p.data) k (fun h => hk1 h.2) ⟨0, 0⟩]
      have eB : advance (add (advance ⟨0, 0⟩ B) (advance ⟨0, 0⟩ p.data)) path = advance ⟨0, 0⟩ (B ++ p.data ++ path) := by
        rw [← advance_eq_add p.data (advance ⟨0, 0⟩ B),
            ← advance_append B p.data (fun h => hB h.1) ⟨0, 0⟩,
            ← advance_append (B ++ p.data) path (fun h => hp1 h.2) ⟨0, 0⟩]
      rw [eA, eB]
      congr 1
      exact ih _ _ hwf' (by rw [getLast?_append_of_ne_nil _ _ hk3]; exact hk2)
        (by rw [getLast?_append_of_ne_nil _ _ hp3]; exact hp2)

end EsbuildModel.Shifts
