import EsbuildModel.Lemmas.LineOffsetDecode
/-!
What the loop of `GenerateLineOffsetTables` does on one line of characters (character level: `runC` over
`crlfs chs`).  `Ucol p q` = UTF-16 units of the characters of `p` that start before relative byte offset `q`;
the column slice of a line is `Ucol` tabulated from the first non-ASCII character on.
-/
namespace EsbuildModel.LineOffset
open EsbuildModel.Spec.Unicode EsbuildModel.Spec.TextPosition

theorem units_eq_colWidth (cp : Nat) : units cp = colWidth cp := by
  unfold units utf16 colWidth
  split <;> rfl

/-- UTF-16 units of a character list -/
def unitsOf (chs : List Ch) : Nat := (chs.map (fun c => colWidth c.cp)).sum

@[simp] theorem unitsOf_nil : unitsOf [] = 0 := rfl
@[simp] theorem unitsOf_cons (c : Ch) (r : List Ch) : unitsOf (c :: r) = colWidth c.cp + unitsOf r := by simp [unitsOf]
@[simp] theorem unitsOf_append (a b : List Ch) : unitsOf (a ++ b) = unitsOf a + unitsOf b := by simp [unitsOf]

theorem colWidth_pos (c : Nat) : 1 ≤ colWidth c := by unfold colWidth; split <;> omega
theorem colWidth_ascii (c : Nat) (h : c ≤ 0x7F) : colWidth c = 1 := by unfold colWidth; rw [if_pos (by omega)]

/-- code point of the next character -/
def nextCp (rest : List Ch) : Option Nat := rest.head?.map (·.cp)

/-- does `c`, followed by `rest`, end a line (ECMA-262 LineTerminatorSequence ends here)? -/
def ends (c : Ch) (rest : List Ch) : Bool := endsLine c.cp (nextCp rest)

/-- the look-ahead flag `crlfs` attaches to `c` -/
def crlfFlag (c : Ch) (rest : List Ch) : Bool := c.cp == 13 && nextCp rest == some 10

theorem crlfs_cons (c : Ch) (rest : List Ch) : crlfs (c :: rest) = (c, crlfFlag c rest) :: crlfs rest := rfl

theorem ends_eq (c : Ch) (rest : List Ch) : ends c rest = (isTerm c.cp && !crlfFlag c rest) := by
  unfold ends endsLine isTerm crlfFlag
  by_cases h13 : c.cp = 13
  · rw [h13]; cases h : (nextCp rest == some 10) <;> simp [h, bne]
  · have : (c.cp == 13) = false := beq_false_of_ne h13
    rw [this]
    cases c.cp == 10 <;> cases c.cp == 0x2028 <;> cases c.cp == 0x2029 <;> rfl

/-- no character of `p` ends a line when `p` is followed by `tail` -/
def NoEnd : List Ch → List Ch → Prop
  | [], _ => True
  | c :: r, tail => ends c (r ++ tail) = false ∧ NoEnd r tail

/-- UTF-16 units of the characters of the line that start before relative byte offset `q` -/
def Ucol : List Ch → Nat → Nat
  | [], _ => 0
  | c :: rest, q => if q = 0 then 0 else colWidth c.cp + Ucol rest (q - c.width)

@[simp] theorem Ucol_zero (p : List Ch) : Ucol p 0 = 0 := by cases p <;> simp [Ucol]

/-- the character-level loop -/
def runC (g : Gen) (i : Nat) : List (Ch × Bool) → Gen
  | [] => g
  | (c, crlf) :: rest => runC (step g i c.cp crlf) (i + c.width) rest

theorem run_eq_runC (g : Gen) (i : Nat) (its : List Item) :
    run g i its = runC g i (its.map (fun it => ((⟨it.c, it.w⟩ : Ch), crBeforeLf it))) := by
  induction its generalizing g i with
  | nil => rfl
  | cons it rest ih => simp only [run, List.map_cons, runC]; exact ih _ _

/-- the loop body on a character that does not end a line: the head, then the column advances -/
theorem step_noEnd (g : Gen) (i : Nat) (c : Ch) (rest : List Ch) (h : ends c rest = false) :
    step g i c.cp (crlfFlag c rest) =
      { pre g i (decide (c.cp > 0x7F)) with column := (pre g i (decide (c.cp > 0x7F))).column + colWidth c.cp } := by
  rw [ends_eq] at h
  unfold step
  simp only
  cases ht : isTerm c.cp
  · simp
  · rw [ht] at h
    simp only [Bool.true_and, Bool.not_eq_false'] at h
    rw [h]
    simp only [if_true]
    have : c.cp = 13 := by
      unfold crlfFlag at h
      simp only [Bool.and_eq_true, beq_iff_eq] at h
      exact h.1
    rw [this]; rfl

/-- the loop body on a character that ends a line: the head, then the table is appended and the state reset -/
theorem step_end (g : Gen) (i : Nat) (c : Ch) (rest : List Ch) (h : ends c rest = true) :
    step g i c.cp (crlfFlag c rest) =
      { cols := none, first := 0, lineByteOffset := (pre g i (decide (c.cp > 0x7F))).lineByteOffset,
        columnByteOffset := 0, column := 0,
        tables := (pre g i (decide (c.cp > 0x7F))).tables ++ [tableOf (pre g i (decide (c.cp > 0x7F)))] } := by
  rw [ends_eq] at h
  simp only [Bool.and_eq_true, Bool.not_eq_true'] at h
  unfold step
  simp only [h.1, h.2, if_true]
  rfl

theorem pre_tables (g : Gen) (i : Nat) (na : Bool) : (pre g i na).tables = g.tables := by
  unfold pre; simp only; split <;> rfl
theorem pre_column (g : Gen) (i : Nat) (na : Bool) : (pre g i na).column = g.column := by
  unfold pre; simp only; split <;> rfl

/-- the head of the loop body once a column slice exists: `b0 + 1 - k0` copies of the current column are appended -/
theorem pre_cols (g : Gen) (i S b0 k0 : Nat) (L0 : List Nat) (na : Bool) (hi : i = S + b0)
    (hc : g.cols = some L0) (hk : g.columnByteOffset = k0) (hk0 : k0 ≤ b0)
    (hl : g.column ≠ 0 → g.lineByteOffset = S) (hz : g.column = 0 → b0 = 0) :
    pre g i na = { g with cols := some (L0 ++ List.replicate (b0 + 1 - k0) g.column),
                          lineByteOffset := S, columnByteOffset := b0 + 1 } := by
  have hlbo : (if g.column = 0 then i else g.lineByteOffset) = S := by
    split
    · next h => have := hz h; omega
    · next h => exact hl h
  unfold pre
  simp only [hlbo, hc, Option.isNone_some, Bool.and_false, Bool.false_eq_true, if_false]
  have hsub : i - S = b0 := by omega
  rw [hsub, hk]
  unfold fill
  rw [if_pos hk0]

theorem map_range'_const (f : Nat → Nat) (a s n : Nat) (h : ∀ q, s ≤ q → q < s + n → f q = a) :
    (List.range' s n).map f = List.replicate n a := by
  rw [List.eq_replicate_iff]
  refine ⟨by simp, ?_⟩
  intro b hb
  rw [List.mem_map] at hb
  obtain ⟨q, hq, rfl⟩ := hb
  rw [List.mem_range'_1] at hq
  exact h q hq.1 hq.2

theorem map_range'_congr (f g : Nat → Nat) (s n : Nat) (h : ∀ q, s ≤ q → q < s + n → f q = g q) :
    (List.range' s n).map f = (List.range' s n).map g := by
  apply List.map_congr_left
  intro q hq
  rw [List.mem_range'_1] at hq
  exact h q hq.1 hq.2

/-- the tabulated columns of `c :: r` from `k0 ≤ b0` on: copies of the current column up to the start `b0` of `c`,
then the columns of `r` shifted by `c` -/
theorem cols_split (c : Ch) (r : List Ch) (col b0 k0 n : Nat) (hk : k0 ≤ b0) :
    (List.range' k0 (b0 + n + 1 - k0)).map (fun q => col + Ucol (c :: r) (q - b0)) =
      List.replicate (b0 + 1 - k0) col ++
        (List.range' (b0 + 1) n).map (fun q => col + colWidth c.cp + Ucol r (q - (b0 + c.width))) := by
  have e : b0 + n + 1 - k0 = (b0 + 1 - k0) + n := by omega
  rw [e, ← List.range'_append_1, List.map_append]
  congr 1
  · apply map_range'_const
    intro q h1 h2
    have : q - b0 = 0 := by omega
    rw [this]; simp
  · have e2 : k0 + (b0 + 1 - k0) = b0 + 1 := by omega
    rw [e2]
    apply map_range'_congr
    intro q h1 h2
    have : q - b0 ≠ 0 := by omega
    simp only [Ucol, this, if_false]
    have e3 : q - b0 - c.width = q - (b0 + c.width) := by omega
    rw [e3]; omega

/-- Lemma A: the loop over characters `p` that do not end the line, once the column slice exists -/
theorem run_cols (p tail : List Ch) (hv : Valid p) (hp : NoEnd p tail) :
    ∀ (g : Gen) (i S b0 k0 : Nat) (L0 : List Nat), i = S + b0 → g.cols = some L0 → g.columnByteOffset = k0 →
      k0 ≤ b0 → (g.column ≠ 0 → g.lineByteOffset = S) → (g.column = 0 → b0 = 0) →
      ∃ g1, runC g i (crlfs (p ++ tail)) = runC g1 (i + bytes p) (crlfs tail) ∧
        ∀ na, (pre g1 (i + bytes p) na).tables = g.tables ∧
          (pre g1 (i + bytes p) na).column = g.column + unitsOf p ∧
          (pre g1 (i + bytes p) na).lineByteOffset = S ∧
          tableOf (pre g1 (i + bytes p) na) =
            ⟨some (L0 ++ (List.range' k0 (b0 + bytes p + 1 - k0)).map (fun q => g.column + Ucol p (q - b0))),
              g.first, S⟩ := by
  induction p with
  | nil =>
    intro g i S b0 k0 L0 hi hc hk hk0 hl hz
    refine ⟨g, by simp, fun na => ?_⟩
    simp only [bytes_nil, Nat.add_zero]
    rw [pre_cols g i S b0 k0 L0 na hi hc hk hk0 hl hz]
    refine ⟨rfl, by simp, rfl, ?_⟩
    simp only [tableOf, Ucol, Nat.add_zero]
    rw [map_range'_const (fun _ => g.column) g.column k0 _ (fun _ _ _ => rfl)]
  | cons c r ih =>
    intro g i S b0 k0 L0 hi hc hk hk0 hl hz
    obtain ⟨he, hr⟩ := hp
    have hcv := hv.head
    simp only [List.cons_append, crlfs_cons, runC]
    rw [step_noEnd g i c (r ++ tail) he, pre_cols g i S b0 k0 L0 _ hi hc hk hk0 hl hz]
    obtain ⟨g1, hrun, hpre⟩ := ih hv.tail hr
      { g with cols := some (L0 ++ List.replicate (b0 + 1 - k0) g.column), lineByteOffset := S,
               columnByteOffset := b0 + 1, column := g.column + colWidth c.cp }
      (i + c.width) S (b0 + c.width) (b0 + 1) (L0 ++ List.replicate (b0 + 1 - k0) g.column)
      (by omega) rfl rfl (by omega) (fun _ => rfl)
      (by intro h; have := colWidth_pos c.cp; simp only at h; omega)
    refine ⟨g1, ?_, fun na => ?_⟩
    · rw [hrun, bytes_cons, Nat.add_assoc]
    · obtain ⟨h1, h2, h3, h4⟩ := hpre na
      rw [bytes_cons, ← Nat.add_assoc]
      refine ⟨h1, ?_, h3, ?_⟩
      · rw [h2, unitsOf_cons]; simp only; omega
      · rw [h4]
        simp only [Table.mk.injEq, and_true, Option.some.injEq]
        have e : b0 + (c.width + bytes r) + 1 - k0 = b0 + (c.width + bytes r) + 1 - k0 := rfl
        rw [cols_split c r g.column b0 k0 (c.width + bytes r) hk0, List.append_assoc]
        congr 2
        have e1 : b0 + c.width + bytes r + 1 - (b0 + 1) = c.width + bytes r := by omega
        rw [e1]

/-- number of leading ASCII characters (= their bytes) -/
def asciiLen : List Ch → Nat
  | [] => 0
  | c :: r => if c.cp ≤ 0x7F then 1 + asciiLen r else 0

def allAscii (p : List Ch) : Bool := p.all (fun c => decide (c.cp ≤ 0x7F))

/-- the table of a line whose characters in front of the line end are `p`, the line starting `b0` bytes after `S`
(`na`: the character that ends the line is non-ASCII, i.e. LS or PS; `false` for the last line) -/
def lineTableAt (S b0 : Nat) (p : List Ch) (na : Bool) : Table :=
  if allAscii p = true ∧ na = false then ⟨none, 0, S⟩
  else
    ⟨some ((List.range' (b0 + asciiLen p) (b0 + bytes p + 1 - (b0 + asciiLen p))).map (fun q => b0 + Ucol p (q - b0))),
      b0 + asciiLen p, S⟩

theorem pre_none_false (g : Gen) (i S b0 : Nat) (hi : i = S + b0) (hc : g.cols = none)
    (hl : g.column ≠ 0 → g.lineByteOffset = S) (hz : g.column = 0 → b0 = 0) :
    pre g i false = { g with cols := none, lineByteOffset := S } := by
  have hlbo : (if g.column = 0 then i else g.lineByteOffset) = S := by
    split
    · next h => have := hz h; omega
    · next h => exact hl h
  unfold pre
  simp only [hlbo, hc, Bool.false_and, Bool.false_eq_true, if_false]

theorem pre_none_true (g : Gen) (i S b0 : Nat) (hi : i = S + b0) (hc : g.cols = none)
    (hl : g.column ≠ 0 → g.lineByteOffset = S) (hz : g.column = 0 → b0 = 0) :
    pre g i true = { g with cols := some [g.column], first := b0, lineByteOffset := S, columnByteOffset := b0 + 1 } := by
  have hlbo : (if g.column = 0 then i else g.lineByteOffset) = S := by
    split
    · next h => have := hz h; omega
    · next h => exact hl h
  have hsub : i - S = b0 := by omega
  unfold pre
  simp only [hlbo, hc, Option.isNone_none, Bool.and_self, if_true, hsub]
  unfold fill
  simp only [Nat.le_refl, if_true, List.nil_append]
  have : b0 + 1 - b0 = 1 := by omega
  rw [this]; rfl

/-- Lemma B: the loop over characters `p` that do not end the line, from a state in which the line is ASCII so far -/
theorem run_ascii (p tail : List Ch) (hv : Valid p) (hp : NoEnd p tail) :
    ∀ (g : Gen) (i S b0 : Nat), i = S + b0 → g.cols = none → g.first = 0 → g.column = b0 →
      (g.column ≠ 0 → g.lineByteOffset = S) →
      ∃ g1, runC g i (crlfs (p ++ tail)) = runC g1 (i + bytes p) (crlfs tail) ∧
        ∀ na, (pre g1 (i + bytes p) na).tables = g.tables ∧
          (pre g1 (i + bytes p) na).column = b0 + unitsOf p ∧
          (pre g1 (i + bytes p) na).lineByteOffset = S ∧
          tableOf (pre g1 (i + bytes p) na) = lineTableAt S b0 p na := by
  induction p with
  | nil =>
    intro g i S b0 hi hc hf hcol hl
    refine ⟨g, by simp, fun na => ?_⟩
    simp only [bytes_nil, Nat.add_zero, unitsOf_nil]
    cases na
    · rw [pre_none_false g i S b0 hi hc hl (by omega)]
      refine ⟨rfl, hcol, rfl, ?_⟩
      simp [tableOf, lineTableAt, allAscii, hf]
    · rw [pre_none_true g i S b0 hi hc hl (by omega)]
      refine ⟨rfl, hcol, rfl, ?_⟩
      simp only [tableOf, lineTableAt, allAscii, asciiLen, Nat.add_zero, bytes_nil, Ucol]
      have : b0 + 1 - b0 = 1 := by omega
      simp [this, hcol]
  | cons c r ih =>
    intro g i S b0 hi hc hf hcol hl
    obtain ⟨he, hr⟩ := hp
    have hcv := hv.head
    simp only [List.cons_append, crlfs_cons, runC]
    rw [step_noEnd g i c (r ++ tail) he]
    by_cases ha : c.cp ≤ 0x7F
    · -- an ASCII character: one byte, one column
      have hw : c.width = 1 := hcv.2 ha
      have hd : decide (c.cp > 0x7F) = false := by simp; omega
      rw [hd, pre_none_false g i S b0 hi hc hl (by omega)]
      obtain ⟨g1, hrun, hpre⟩ := ih hv.tail hr
        { g with cols := none, lineByteOffset := S, column := g.column + colWidth c.cp }
        (i + c.width) S (b0 + 1) (by omega) rfl hf (by simp only; rw [colWidth_ascii _ ha]; omega) (fun _ => rfl)
      refine ⟨g1, ?_, fun na => ?_⟩
      · rw [hrun, bytes_cons, Nat.add_assoc]
      · obtain ⟨h1, h2, h3, h4⟩ := hpre na
        rw [bytes_cons, ← Nat.add_assoc]
        refine ⟨h1, ?_, h3, ?_⟩
        · rw [h2, unitsOf_cons, colWidth_ascii _ ha]; omega
        · rw [h4]
          unfold lineTableAt
          have e1 : allAscii (c :: r) = allAscii r := by simp [allAscii, ha]
          have e2 : asciiLen (c :: r) = 1 + asciiLen r := by simp [asciiLen, ha]
          rw [e1, e2, bytes_cons, hw]
          split
          · rfl
          · simp only [Table.mk.injEq, and_true, Option.some.injEq]
            refine ⟨?_, by omega⟩
            have e3 : b0 + 1 + asciiLen r = b0 + (1 + asciiLen r) := by omega
            have e4 : b0 + 1 + bytes r + 1 - (b0 + (1 + asciiLen r)) = b0 + (1 + bytes r) + 1 - (b0 + (1 + asciiLen r)) := by
              omega
            rw [e3, e4]
            apply map_range'_congr
            intro q h1 _
            have : q - b0 ≠ 0 := by omega
            simp only [Ucol, this, if_false, hw, colWidth_ascii _ ha]
            have e5 : q - b0 - 1 = q - (b0 + 1) := by omega
            rw [e5]; omega
    · -- the first non-ASCII character of the line: the column slice starts here
      have hd : decide (c.cp > 0x7F) = true := by simp; omega
      rw [hd, pre_none_true g i S b0 hi hc hl (by omega)]
      obtain ⟨g1, hrun, hpre⟩ := run_cols r tail hv.tail hr
        { g with cols := some [g.column], first := b0, lineByteOffset := S, columnByteOffset := b0 + 1,
                 column := g.column + colWidth c.cp }
        (i + c.width) S (b0 + c.width) (b0 + 1) [g.column] (by omega) rfl rfl (by omega) (fun _ => rfl)
        (by intro h; have := colWidth_pos c.cp; simp only at h; omega)
      refine ⟨g1, ?_, fun na => ?_⟩
      · rw [hrun, bytes_cons, Nat.add_assoc]
      · obtain ⟨h1, h2, h3, h4⟩ := hpre na
        rw [bytes_cons, ← Nat.add_assoc]
        refine ⟨h1, ?_, h3, ?_⟩
        · rw [h2, unitsOf_cons]; simp only; omega
        · rw [h4]
          unfold lineTableAt
          have e1 : allAscii (c :: r) = false := by simp [allAscii, ha]
          have e2 : asciiLen (c :: r) = 0 := by simp [asciiLen, ha]
          rw [e1, e2, bytes_cons]
          simp only [Bool.false_eq_true, false_and, if_false, Nat.add_zero, Table.mk.injEq, and_true,
            Option.some.injEq]
          rw [cols_split c r b0 b0 b0 (c.width + bytes r) (Nat.le_refl _)]
          have e3 : b0 + 1 - b0 = 1 := by omega
          have e4 : b0 + c.width + bytes r + 1 - (b0 + 1) = c.width + bytes r := by omega
          rw [e3, e4, hcol]
          rfl

end EsbuildModel.LineOffset
