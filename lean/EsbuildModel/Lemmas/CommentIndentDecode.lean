import EsbuildModel.Impl.CommentIndent
import EsbuildModel.Spec.CommentIndent
import EsbuildModel.Lemmas.Wtf8Bits
/-!
Facts about Go's UTF-8 decoding (`Wtf8.goDecodeRune`) that the comment re-indentation needs: what one decoding
step consumes, and that the line terminator CODE POINTS are decoded exactly at the terminator BYTE patterns.
-/
namespace EsbuildModel.CommentIndent
open EsbuildModel.Wtf8

/-- everything `utf8.DecodeRuneInString` can return on the non-empty string `b :: rest` -/
def DecCases (b : Nat) (rest : List Nat) (r : Nat × Nat) : Prop :=
  (b < 128 ∧ r = (b, 1)) ∨
  (128 ≤ b ∧ r = (runeError, 1)) ∨
  (∃ s1 t, rest = s1 :: t ∧ 128 ≤ s1 ∧ s1 ≤ 191 ∧ 0xC2 ≤ b ∧ b ≤ 0xDF ∧ r = (b % 32 * 64 + s1 % 64, 2)) ∨
  (∃ s1 s2 t, rest = s1 :: s2 :: t ∧ 128 ≤ s1 ∧ s1 ≤ 191 ∧ 128 ≤ s2 ∧ s2 ≤ 191 ∧ 0xE0 ≤ b ∧ b ≤ 0xEF ∧
      (b = 0xE0 → 0xA0 ≤ s1) ∧ r = (b % 16 * 4096 + s1 % 64 * 64 + s2 % 64, 3)) ∨
  (∃ s1 s2 s3 t, rest = s1 :: s2 :: s3 :: t ∧ 128 ≤ s1 ∧ s1 ≤ 191 ∧ 128 ≤ s2 ∧ s2 ≤ 191 ∧ 128 ≤ s3 ∧ s3 ≤ 191 ∧
      0xF0 ≤ b ∧ b ≤ 0xF4 ∧ (b = 0xF0 → 0x90 ≤ s1) ∧
      r = (b % 8 * 262144 + s1 % 64 * 4096 + s2 % 64 * 64 + s3 % 64, 4))

theorem isCont_iff (x : Nat) : isCont x = true ↔ 128 ≤ x ∧ x ≤ 191 := by
  simp [isCont]

theorem acceptLo_ge' (a : Nat) : 128 ≤ acceptLo a := by
  unfold acceptLo; split
  · omega
  · split <;> omega

theorem acceptHi_le' (a : Nat) : acceptHi a ≤ 191 := by
  unfold acceptHi; split
  · omega
  · split <;> omega

theorem goDecodeRune_cases (b : Nat) (rest : List Nat) : DecCases b rest (goDecodeRune b rest) := by
  unfold goDecodeRune
  by_cases h1 : b < 0x80
  · simp only [h1, if_true]; exact Or.inl ⟨h1, rfl⟩
  · simp only [h1, if_false]
    have hb : 128 ≤ b := by omega
    have herr : DecCases b rest (runeError, 1) := Or.inr (Or.inl ⟨hb, rfl⟩)
    split
    · next h2 =>
      match rest with
      | [] => exact herr
      | s1 :: t =>
        simp only
        split
        · next hc =>
          rw [isCont_iff] at hc
          rw [dec2]
          exact Or.inr (Or.inr (Or.inl ⟨s1, t, rfl, hc.1, hc.2, h2.1, h2.2, rfl⟩))
        · exact herr
    · split
      · next h3 =>
        match rest with
        | [] => exact herr
        | [_] => exact herr
        | s1 :: s2 :: t =>
          simp only
          split
          · next hc =>
            have h1' : 128 ≤ s1 := Nat.le_trans (acceptLo_ge' b) hc.1
            have h1'' : s1 ≤ 191 := Nat.le_trans hc.2.1 (acceptHi_le' b)
            have hc2 := (isCont_iff s2).mp hc.2.2
            rw [dec3]
            refine Or.inr (Or.inr (Or.inr (Or.inl ⟨s1, s2, t, rfl, h1', h1'', hc2.1, hc2.2, h3.1, h3.2, ?_, rfl⟩)))
            intro hb0
            have := hc.1
            rw [hb0] at this
            exact this
          · exact herr
      · split
        · next h4 =>
          match rest with
          | [] => exact herr
          | [_] => exact herr
          | [_, _] => exact herr
          | s1 :: s2 :: s3 :: t =>
            simp only
            split
            · next hc =>
              have h1' : 128 ≤ s1 := Nat.le_trans (acceptLo_ge' b) hc.1
              have h1'' : s1 ≤ 191 := Nat.le_trans hc.2.1 (acceptHi_le' b)
              have hc2 := (isCont_iff s2).mp hc.2.2.1
              have hc3 := (isCont_iff s3).mp hc.2.2.2
              rw [dec4]
              refine Or.inr (Or.inr (Or.inr (Or.inr ⟨s1, s2, s3, t, rfl, h1', h1'', hc2.1, hc2.2, hc3.1, hc3.2,
                h4.1, h4.2, ?_, rfl⟩)))
              intro hb0
              have := hc.1
              rw [hb0] at this
              exact this
            · exact herr
        · exact herr


/-- one decoding step: at least one byte, at most the string, and every byte after the first is a continuation byte -/
theorem dec_width (b : Nat) (rest : List Nat) :
    1 ≤ (goDecodeRune b rest).2 ∧ (goDecodeRune b rest).2 - 1 ≤ rest.length ∧
      ∀ x ∈ rest.take ((goDecodeRune b rest).2 - 1), 128 ≤ x ∧ x ≤ 191 := by
  rcases goDecodeRune_cases b rest with ⟨_, e⟩ | ⟨_, e⟩ | ⟨s1, t, rfl, h1, h2, _, _, e⟩ |
    ⟨s1, s2, t, rfl, h1, h2, h3, h4, _, _, _, e⟩ | ⟨s1, s2, s3, t, rfl, h1, h2, h3, h4, h5, h6, _, _, _, e⟩ <;>
    rw [e] <;> simp <;> omega

theorem dec_ascii (b : Nat) (rest : List Nat) (h : b < 128) : goDecodeRune b rest = (b, 1) := by
  unfold goDecodeRune; simp [h]

/-- a decoded code point below 128 is the byte itself -/
theorem dec_lt128 (b : Nat) (rest : List Nat) (c : Nat) (hc : c < 128) :
    (goDecodeRune b rest).1 = c ↔ b = c := by
  rcases goDecodeRune_cases b rest with ⟨h, e⟩ | ⟨h, e⟩ | ⟨s1, t, rfl, h1, h2, h3, h4, e⟩ |
    ⟨s1, s2, t, rfl, h1, h2, h3, h4, h5, h6, h7, e⟩ | ⟨s1, s2, s3, t, rfl, h1, h2, h3, h4, h5, h6, h7, h8, h9, e⟩ <;>
    rw [e] <;> simp only [runeError] <;> omega

/-- U+2028 is decoded exactly at the bytes E2 80 A8 -/
theorem dec_ls (b : Nat) (rest : List Nat) :
    (goDecodeRune b rest).1 = 0x2028 ↔ b = 0xE2 ∧ ∃ t, rest = 0x80 :: 0xA8 :: t := by
  constructor
  · intro h
    rcases goDecodeRune_cases b rest with ⟨h0, e⟩ | ⟨h0, e⟩ | ⟨s1, t, rfl, h1, h2, h3, h4, e⟩ |
      ⟨s1, s2, t, rfl, h1, h2, h3, h4, h5, h6, h7, e⟩ | ⟨s1, s2, s3, t, rfl, h1, h2, h3, h4, h5, h6, h7, h8, h9, e⟩ <;>
      rw [e] at h <;> simp only [runeError] at h
    · omega
    · omega
    · omega
    · have : b = 226 ∧ s1 = 128 ∧ s2 = 168 := by omega
      exact ⟨this.1, t, by rw [this.2.1, this.2.2]⟩
    · by_cases hb : b = 240
      · have := h9 hb; omega
      · omega
  · rintro ⟨rfl, t, rfl⟩; rfl

/-- U+2029 is decoded exactly at the bytes E2 80 A9 -/
theorem dec_ps (b : Nat) (rest : List Nat) :
    (goDecodeRune b rest).1 = 0x2029 ↔ b = 0xE2 ∧ ∃ t, rest = 0x80 :: 0xA9 :: t := by
  constructor
  · intro h
    rcases goDecodeRune_cases b rest with ⟨h0, e⟩ | ⟨h0, e⟩ | ⟨s1, t, rfl, h1, h2, h3, h4, e⟩ |
      ⟨s1, s2, t, rfl, h1, h2, h3, h4, h5, h6, h7, e⟩ | ⟨s1, s2, s3, t, rfl, h1, h2, h3, h4, h5, h6, h7, h8, h9, e⟩ <;>
      rw [e] at h <;> simp only [runeError] at h
    · omega
    · omega
    · omega
    · have : b = 226 ∧ s1 = 128 ∧ s2 = 169 := by omega
      exact ⟨this.1, t, by rw [this.2.1, this.2.2]⟩
    · by_cases hb : b = 240
      · have := h9 hb; omega
      · omega
  · rintro ⟨rfl, t, rfl⟩; rfl

theorem dec_ls_width (t : List Nat) : goDecodeRune 0xE2 (0x80 :: 0xA8 :: t) = (0x2028, 3) := rfl
theorem dec_ps_width (t : List Nat) : goDecodeRune 0xE2 (0x80 :: 0xA9 :: t) = (0x2029, 3) := rfl

end EsbuildModel.CommentIndent
