import EsbuildModel.Lemmas.OutPathsTemplate
/-
Which placeholders survive `SubstituteTemplate`; what `validatePathTemplate` keeps of its input.
-/
namespace EsbuildModel.OutPaths

theorem substPart_ph (phs : Placeholders) (part : Part) :
    (substPart phs part).ph ≠ .none → phs.get (substPart phs part).ph = none ∧ (substPart phs part).ph = part.ph := by
  unfold substPart
  cases h : phs.get part.ph with
  | some v => simp
  | none => intro _; exact ⟨h, rfl⟩

theorem substituteLoop_gone (phs : Placeholders) (t res : List Part)
    (hres : ∀ p ∈ res, p.ph ≠ .none → phs.get p.ph = none) :
    ∀ p ∈ substituteLoop phs t res, p.ph ≠ .none → phs.get p.ph = none := by
  induction t generalizing res with
  | nil => simpa [substituteLoop] using hres
  | cons part rest ih =>
    rw [substituteLoop_cons]
    cases res with
    | nil =>
      apply ih
      intro p hp hne
      simp only [List.mem_singleton] at hp
      subst hp
      exact (substPart_ph phs part hne).1
    | cons last before =>
      simp only
      by_cases hl : last.ph = .none
      · simp only [hl, if_true]
        apply ih
        intro p hp hne
        rcases List.mem_cons.mp hp with rfl | hp
        · exact (substPart_ph phs part hne).1
        · exact hres p (by simp [hp]) hne
      · simp only [hl, if_false]
        apply ih
        intro p hp hne
        rcases List.mem_cons.mp hp with rfl | hp
        · exact (substPart_ph phs part hne).1
        · exact hres p hp hne

/-- a placeholder that is still there after `SubstituteTemplate` had no value -/
theorem hasPlaceholder_substituteTemplate {phs : Placeholders} {t : List Part} {ph : Placeholder}
    (hne : ph ≠ .none) (h : hasPlaceholder (substituteTemplate t phs) ph = true) : phs.get ph = none := by
  unfold hasPlaceholder at h
  obtain ⟨p, hp, hpp⟩ := List.any_eq_true.mp h
  have hpp' : p.ph = ph := by simpa using hpp
  unfold substituteTemplate at hp
  by_cases hs : shouldSubstitute phs t = true
  · simp only [hs, if_true, List.mem_reverse] at hp
    have := substituteLoop_gone phs t [] (by simp) p hp (by rw [hpp']; exact hne)
    rwa [hpp'] at this
  · have hs' : shouldSubstitute phs t = false := by simpa using hs
    rw [hs'] at hp
    simp only [Bool.false_eq_true, if_false] at hp
    have := shouldSubstitute_false hs' p hp
    rwa [hpp'] at this

theorem substituteLoop_keeps (phs : Placeholders) {ph : Placeholder} (hne : ph ≠ .none)
    (hget : phs.get ph = none) (t res : List Part)
    (h : (∃ p ∈ res, p.ph = ph) ∨ (∃ p ∈ t, p.ph = ph)) :
    ∃ p ∈ substituteLoop phs t res, p.ph = ph := by
  induction t generalizing res with
  | nil =>
    rcases h with h | ⟨p, hp, _⟩
    · simpa [substituteLoop] using h
    · simp at hp
  | cons part rest ih =>
    rw [substituteLoop_cons]
    have hsp : part.ph = ph → (substPart phs part).ph = ph := by
      intro e
      unfold substPart
      rw [e, hget]
      exact e
    cases res with
    | nil =>
      apply ih
      rcases h with ⟨p, hp, _⟩ | ⟨p, hp, hpp⟩
      · simp at hp
      · rcases List.mem_cons.mp hp with rfl | hp
        · exact Or.inl ⟨_, by simp, hsp hpp⟩
        · exact Or.inr ⟨p, hp, hpp⟩
    | cons last before =>
      simp only
      by_cases hl : last.ph = .none
      · simp only [hl, if_true]
        apply ih
        rcases h with ⟨p, hp, hpp⟩ | ⟨p, hp, hpp⟩
        · rcases List.mem_cons.mp hp with rfl | hp
          · rw [hl] at hpp; exact absurd hpp.symm hne
          · exact Or.inl ⟨p, by simp [hp], hpp⟩
        · rcases List.mem_cons.mp hp with rfl | hp
          · exact Or.inl ⟨⟨last.data ++ (substPart phs p).data, (substPart phs p).ph⟩, by simp, hsp hpp⟩
          · exact Or.inr ⟨p, hp, hpp⟩
      · simp only [hl, if_false]
        apply ih
        rcases h with ⟨p, hp, hpp⟩ | ⟨p, hp, hpp⟩
        · exact Or.inl ⟨p, by simp [hp], hpp⟩
        · rcases List.mem_cons.mp hp with rfl | hp
          · exact Or.inl ⟨_, by simp, hsp hpp⟩
          · exact Or.inr ⟨p, hp, hpp⟩

/-- a placeholder without a value survives `SubstituteTemplate` -/
theorem hasPlaceholder_kept {phs : Placeholders} {t : List Part} {ph : Placeholder}
    (hne : ph ≠ .none) (hget : phs.get ph = none) (h : hasPlaceholder t ph = true) :
    hasPlaceholder (substituteTemplate t phs) ph = true := by
  unfold hasPlaceholder at h ⊢
  obtain ⟨p, hp, hpp⟩ := List.any_eq_true.mp h
  have hpp' : p.ph = ph := by simpa using hpp
  apply List.any_eq_true.mpr
  unfold substituteTemplate
  by_cases hs : shouldSubstitute phs t = true
  · simp only [hs, if_true, List.mem_reverse]
    obtain ⟨q, hq, hqq⟩ := substituteLoop_keeps phs hne hget t [] (Or.inr ⟨p, hp, hpp'⟩)
    exact ⟨q, hq, by simpa using hqq⟩
  · have hs' : shouldSubstitute phs t = false := by simpa using hs
    rw [hs']
    exact ⟨p, by simpa using hp, hpp⟩

end EsbuildModel.OutPaths
