import EsbuildModel.Impl.Scopes
/-!
Which symbols a scope of the model declares (`Frame.decls`, `Sc.all`), the shape property the renamers need
(`KidsDisj`: sibling scopes never declare a common symbol) and basic facts about the association lists.
-/
namespace EsbuildModel.Scopes

def refsOf (m : Members) : List Nat := m.map (·.2)

/-- the symbols a scope declares: members, generated symbols, the label -/
def Frame.decls (f : Frame) : List Nat := refsOf f.members ++ f.generated ++ f.label.toList

mutual
/-- every symbol declared by the scope or a scope inside it -/
def Sc.all : Sc → List Nat
  | .node f kids => f.decls ++ allKids kids
def allKids : List Sc → List Nat
  | [] => []
  | k :: ks => k.all ++ allKids ks
end

mutual
/-- sibling scopes (at every level) declare disjoint sets of symbols -/
def Sc.SibDisj : Sc → Prop
  | .node _ kids => KidsDisj kids
def KidsDisj : List Sc → Prop
  | [] => True
  | k :: ks => k.SibDisj ∧ KidsDisj ks ∧ ∀ s, s ∈ k.all → s ∉ allKids ks
end

/-- every symbol of the subtree is below `n` -/
def Sc.Below (n : Nat) (sc : Sc) : Prop := ∀ s, s ∈ sc.all → s < n
def KidsBelow (n : Nat) (ks : List Sc) : Prop := ∀ s, s ∈ allKids ks → s < n

theorem allKids_append (a b : List Sc) : allKids (a ++ b) = allKids a ++ allKids b := by
  induction a with
  | nil => simp [allKids]
  | cons k ks ih => simp [allKids, ih]

theorem allKids_singleton (k : Sc) : allKids [k] = k.all := by simp [allKids]

theorem mem_allKids {s : Nat} : ∀ {ks : List Sc}, s ∈ allKids ks ↔ ∃ k, k ∈ ks ∧ s ∈ k.all
  | [] => by simp [allKids]
  | k :: ks => by
    simp only [allKids, List.mem_append, List.mem_cons, mem_allKids (ks := ks)]
    constructor
    · rintro (h | ⟨k', hk', hs⟩)
      · exact ⟨k, Or.inl rfl, h⟩
      · exact ⟨k', Or.inr hk', hs⟩
    · rintro ⟨k', hk' | hk', hs⟩
      · subst hk'; exact Or.inl hs
      · exact Or.inr ⟨k', hk', hs⟩

theorem kidsDisj_append {a : List Sc} {k : Sc} (ha : KidsDisj a) (hk : k.SibDisj)
    (hd : ∀ s, s ∈ allKids a → s ∉ k.all) : KidsDisj (a ++ [k]) := by
  induction a with
  | nil => simp [KidsDisj, hk, allKids]
  | cons x xs ih =>
    simp only [KidsDisj] at ha
    simp only [List.cons_append, KidsDisj]
    refine ⟨ha.1, ih ha.2.1 (fun s hs => hd s (by simp [allKids, hs])), ?_⟩
    intro s hs
    rw [allKids_append, List.mem_append, allKids_singleton]
    rintro (h | h)
    · exact ha.2.2 s hs h
    · exact hd s (by simp [allKids, hs]) h

-- association lists -------------------------------------------------------------------------------

theorem mem_refsOf_insert {s n r : Nat} : ∀ {m : Members}, s ∈ refsOf (insert n r m) → s = r ∨ s ∈ refsOf m
  | [] => by simp [insert, refsOf]
  | (k, v) :: rest => by
    simp only [insert]
    split
    · simp only [refsOf, List.map_cons, List.mem_cons]
      rintro (h | h)
      · exact Or.inl h
      · exact Or.inr (Or.inr h)
    · simp only [refsOf, List.map_cons, List.mem_cons]
      rintro (h | h)
      · exact Or.inr (Or.inl h)
      · rcases mem_refsOf_insert (m := rest) (by simpa [refsOf] using h) with h | h
        · exact Or.inl h
        · exact Or.inr (Or.inr (by simpa [refsOf] using h))

theorem lookup_mem_refsOf {n r : Nat} : ∀ {m : Members}, lookup n m = some r → r ∈ refsOf m
  | [] => by simp [lookup]
  | (k, v) :: rest => by
    simp only [lookup]
    split
    · intro h; cases h; simp [refsOf]
    · intro h; have := lookup_mem_refsOf (m := rest) h; simp [refsOf] at this ⊢; exact Or.inr this

theorem lookup_insert_self (n r : Nat) : ∀ (m : Members), lookup n (insert n r m) = some r
  | [] => by simp [insert, lookup]
  | (k, v) :: rest => by
    simp only [insert]
    split
    · next h => simp [lookup, h]
    · next h => simp [lookup, h, lookup_insert_self n r rest]

theorem lookup_insert_ne {n n' r : Nat} (h : n' ≠ n) : ∀ (m : Members), lookup n' (insert n r m) = lookup n' m
  | [] => by simp [insert, lookup, Ne.symm h]
  | (k, v) :: rest => by
    simp only [insert]
    split
    · next hk => subst hk; simp [lookup, Ne.symm h]
    · next hk =>
      simp only [lookup]
      split
      · rfl
      · exact lookup_insert_ne h rest

theorem insert_same {n r : Nat} : ∀ {m : Members}, lookup n m = some r → insert n r m = m
  | [] => by simp [lookup]
  | (k, v) :: rest => by
    simp only [lookup, insert]
    split
    · intro h; cases h; rfl
    · intro h; rw [insert_same (m := rest) h]

theorem mem_decls {f : Frame} {s : Nat} :
    s ∈ f.decls ↔ s ∈ refsOf f.members ∨ s ∈ f.generated ∨ f.label = some s := by
  simp only [Frame.decls, List.mem_append, Option.mem_toList]
  constructor
  · rintro ((h | h) | h)
    · exact Or.inl h
    · exact Or.inr (Or.inl h)
    · exact Or.inr (Or.inr h)
  · rintro (h | h | h)
    · exact Or.inl (Or.inl h)
    · exact Or.inl (Or.inr h)
    · exact Or.inr h

-- symbol table updates keep the length ---------------------------------------------------------

@[simp] theorem length_setLink (syms : Syms) (i : Nat) (l : Option Nat) : (setLink syms i l).length = syms.length := by
  simp [setLink]
@[simp] theorem length_setKind (syms : Syms) (i : Nat) (k : SK) : (setKind syms i k).length = syms.length := by
  simp [setKind]
@[simp] theorem length_pin (syms : Syms) (i : Nat) : (pin syms i).length = syms.length := by
  simp [pin]
/-- `pinLinks` is a sequence of `pin`s -/
theorem pinLinks_ind (P : Syms → Prop) (hpin : ∀ a i, P a → P (pin a i)) : ∀ (fuel : Nat) (syms : Syms) (t : Nat), P syms →
    P (pinLinks fuel syms t)
  | 0, _, _, h => h
  | fuel + 1, syms, t, h => by
    simp only [pinLinks]
    split
    · exact h
    · split
      · exact hpin _ _ h
      · exact pinLinks_ind P hpin fuel _ _ (hpin _ _ h)

@[simp] theorem length_pinLinks (fuel : Nat) (syms : Syms) (t : Nat) : (pinLinks fuel syms t).length = syms.length :=
  pinLinks_ind (fun a => a.length = syms.length) (fun a i h => by simp [h]) fuel syms t rfl

@[simp] theorem length_pinIfWith (f : Frame) (syms : Syms) (i : Nat) : (pinIfWith f syms i).length = syms.length := by
  unfold pinIfWith; split <;> simp
@[simp] theorem length_newSymbol (syms : Syms) (k : SK) (n : Name) : (newSymbol syms k n).1.length = syms.length + 1 := by
  simp [newSymbol]
@[simp] theorem ref_newSymbol (syms : Syms) (k : SK) (n : Name) : (newSymbol syms k n).2 = syms.length := rfl

end EsbuildModel.Scopes
