import EsbuildModel.Lemmas.Stdio
/-!
The read loop of `runService`: splitting the stdin stream into length-prefixed packets does not depend on how
the stream arrives in `Read` chunks.
-/
namespace EsbuildModel.Stdio

theorem readLPS_append {a p after : Bytes} (b : Bytes) (h : readLPS a = some (p, after)) :
    readLPS (a ++ b) = some (p, after ++ b) := by
  match a, h with
  | b0 :: b1 :: b2 :: b3 :: rest, h =>
    simp only [readLPS, readUint32, List.cons_append] at h ⊢
    split at h
    · rename_i hle
      simp only [Option.some.injEq, Prod.mk.injEq] at h
      have hle' : (rest ++ b).length ≥ b0 + 256 * b1 + 65536 * b2 + 16777216 * b3 := by
        simp only [List.length_append]; omega
      rw [if_pos hle', ← h.1, ← h.2, List.take_append_of_le_length hle, List.drop_append_of_le_length hle]
    · cases h
  | [], h => simp [readLPS, readUint32] at h
  | [_], h => simp [readLPS, readUint32] at h
  | [_, _], h => simp [readLPS, readUint32] at h
  | [_, _, _], h => simp [readLPS, readUint32] at h

/-! ### fuel of the inner loop -/

theorem framesAux_total : ∀ (fuel : Nat) (bs : Bytes), bs.length + 1 ≤ fuel → framesAux fuel bs ≠ none
  | 0, _, h => by omega
  | f + 1, bs, h => by
    simp only [framesAux]
    split
    · simp
    · rename_i p after hr
      have hl := readLPS_length hr
      have ih := framesAux_total f after (by omega)
      split
      · rename_i hn; exact absurd hn ih
      · simp

theorem framesAux_mono : ∀ (fuel : Nat) (bs : Bytes) r, framesAux fuel bs = some r → framesAux (fuel + 1) bs = some r
  | 0, _, _, h => by simp [framesAux] at h
  | f + 1, bs, r, h => by
    rw [framesAux] at h ⊢
    split
    · rename_i hr; rw [hr] at h; exact h
    · rename_i p after hr
      rw [hr] at h
      simp only at h
      split at h
      · cases h
      · rename_i ps left hrec
        rw [framesAux_mono f after _ hrec]
        exact h

theorem framesAux_mono' (fuel k : Nat) (bs : Bytes) r (h : framesAux fuel bs = some r) :
    framesAux (fuel + k) bs = some r := by
  induction k with
  | zero => exact h
  | succ k ih => exact framesAux_mono _ _ _ ih

theorem framesAux_eq_frames (fuel : Nat) (bs : Bytes) (h : bs.length + 1 ≤ fuel) : framesAux fuel bs = frames bs := by
  unfold frames
  cases hr : framesAux (bs.length + 1) bs with
  | none => exact absurd hr (framesAux_total _ _ (Nat.le_refl _))
  | some r =>
    have := framesAux_mono' (bs.length + 1) (fuel - (bs.length + 1)) bs r hr
    rwa [show bs.length + 1 + (fuel - (bs.length + 1)) = fuel by omega] at this

theorem frames_total (bs : Bytes) : frames bs ≠ none := framesAux_total _ _ (Nat.le_refl _)

/-! ### the loop equations, fuel free -/

theorem frames_of_none {bs : Bytes} (h : readLPS bs = none) : frames bs = some ([], bs) := by
  simp [frames, framesAux, h]

theorem frames_of_some {bs p after : Bytes} (h : readLPS bs = some (p, after)) :
    frames bs = match frames after with
      | none => none
      | some (ps, left) => some (p :: ps, left) := by
  have hl := readLPS_length h
  rw [← framesAux_eq_frames bs.length after (by omega)]
  simp only [frames, framesAux, h]
  rcases framesAux bs.length after with _ | ⟨ps, left⟩ <;> rfl

/-- what the loop leaves over is a partial packet -/
theorem frames_left : ∀ (n : Nat) (bs : Bytes), bs.length ≤ n → ∀ ps left, frames bs = some (ps, left) → readLPS left = none
  | n, bs, hn, ps, left, h => by
    cases hr : readLPS bs with
    | none =>
      rw [frames_of_none hr] at h
      simp only [Option.some.injEq, Prod.mk.injEq] at h
      rw [← h.2]; exact hr
    | some r =>
      obtain ⟨p, after⟩ := r
      have hl := readLPS_length hr
      rw [frames_of_some hr] at h
      cases n with
      | zero => omega
      | succ n =>
        split at h
        · cases h
        · rename_i ps' left' hrec
          simp only [Option.some.injEq, Prod.mk.injEq] at h
          rw [← h.2]
          exact frames_left n after (by omega) ps' left' hrec

/-- splitting `a ++ b` = splitting `a`, then splitting what was left of `a` followed by `b` -/
theorem frames_append : ∀ (n : Nat) (a : Bytes), a.length ≤ n → ∀ (b : Bytes),
    frames (a ++ b) = match frames a with
      | none => none
      | some (ps, left) =>
        match frames (left ++ b) with
        | none => none
        | some (qs, left') => some (ps ++ qs, left')
  | n, a, hn, b => by
    cases hr : readLPS a with
    | none =>
      rw [frames_of_none hr]
      simp only
      cases frames (a ++ b) with
      | none => rfl
      | some r => simp
    | some r =>
      obtain ⟨p, after⟩ := r
      have hl := readLPS_length hr
      cases n with
      | zero => omega
      | succ n =>
        rw [frames_of_some hr, frames_of_some (readLPS_append b hr), frames_append n after (by omega) b]
        cases frames after with
        | none => rfl
        | some r =>
          obtain ⟨ps, left⟩ := r
          simp only
          cases frames (left ++ b) with
          | none => rfl
          | some r' => simp

/-! ### the outer loop -/

theorem runFraming_eq_frames : ∀ (chunks : List Bytes) (stream : Bytes), readLPS stream = none →
    (∀ c ∈ chunks, c ≠ []) → runFraming stream chunks = frames (stream ++ chunks.flatten)
  | [], stream, hs, _ => by
    simp [runFraming, frames_of_none hs]
  | c :: cs, stream, hs, hc => by
    have hne : c ≠ [] := hc c (by simp)
    have hempty : c.isEmpty = false := by cases c <;> simp_all
    simp only [runFraming, hempty, Bool.false_eq_true, if_false, List.flatten_cons]
    rw [← List.append_assoc, frames_append _ (stream ++ c) (Nat.le_refl _) cs.flatten]
    cases hfr : frames (stream ++ c) with
    | none => rfl
    | some r =>
      obtain ⟨ps, left⟩ := r
      simp only
      have hleft := frames_left _ _ (Nat.le_refl _) ps left hfr
      rw [runFraming_eq_frames cs left hleft (fun c' h' => hc c' (by simp [h']))]
      rcases frames (left ++ cs.flatten) with _ | ⟨qs, left'⟩ <;> rfl

/-- the wire form of a sequence of packets -/
def wire : List Bytes → Bytes
  | [] => []
  | p :: ps => u32le p.length ++ (p ++ wire ps)

theorem frames_wire : ∀ (ps : List Bytes) (tail : Bytes), (∀ p ∈ ps, p.length < 4294967296) →
    readLPS tail = none → frames (wire ps ++ tail) = some (ps, tail)
  | [], tail, _, ht => by simp [wire, frames_of_none ht]
  | p :: ps, tail, hp, ht => by
    have h1 : readLPS (wire (p :: ps) ++ tail) = some (p, wire ps ++ tail) := by
      simp only [wire, List.append_assoc]
      exact readLPS_u32le p _ (hp p (by simp))
    rw [frames_of_some h1, frames_wire ps tail (fun q hq => hp q (by simp [hq])) ht]

end EsbuildModel.Stdio
