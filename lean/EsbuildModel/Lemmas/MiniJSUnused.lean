/-
Lemmas/MiniJSUnused — SimplifyUnusedExpr (with simplifyUnusedStringAdditionChain) preserves what a context that
discards the value observes: completion (normal / which exception) and trace.
-/
import EsbuildModel.Lemmas.MiniJSIf
namespace EsbuildModel.MiniJS

/-- in a context that discards the value: no effect at all -/
def Nop (w : World) (e : Expr) : Prop := ∀ tr, evalUnused w e tr = (.val (), tr)

/-- what SimplifyUnusedExpr promises: `none` (Go's nil expression) means the expression can be dropped,
`some x` means `x` can stand for it when the value is discarded -/
def SueSpec (w : World) (e : Expr) (r : Option Expr) : Prop :=
  match r with
  | none => Nop w e
  | some x => UnusedEq w e x

theorem evalUnused_eq (w : World) (e : Expr) (tr : Trace) :
    evalUnused w e tr = bind (eval w e tr) fun _ tr1 => (.val (), tr1) := by
  simp only [evalUnused]
  rcases res_cases (eval w e tr) with ⟨v, tr1, h⟩ | ⟨x, tr1, h⟩ <;> simp [h, unitRes]

theorem evalUnused_of_bool (w : World) (e : Expr) (tr : Trace) :
    evalUnused w e tr = bind (evalBool w e tr) fun _ tr1 => (.val (), tr1) := by
  simp only [evalUnused_eq, evalBool_eq, bind_assoc, bind_val]

theorem nop_of_pure (w : World) (e : Expr) (h : Pure w e) : Nop w e := by
  intro tr
  obtain ⟨v, hv⟩ := h tr
  simp [evalUnused_eq, hv]

theorem pure_of_nop (w : World) (e : Expr) (h : Nop w e) : Pure w e := by
  intro tr
  have := h tr
  rw [evalUnused_eq] at this
  rcases res_cases (eval w e tr) with ⟨v, tr1, hv⟩ | ⟨x, tr1, hv⟩
  · rw [hv] at this; simp at this; subst this; exact ⟨v, hv⟩
  · rw [hv] at this; simp at this

theorem evalUnused_cond (w : World) (c y n : Expr) (tr : Trace) :
    evalUnused w (.cond c y n) tr =
      bind (evalBool w c tr) fun t tr1 => if t then evalUnused w y tr1 else evalUnused w n tr1 := by
  rw [evalUnused_eq, eval_cond, bind_assoc]
  apply bind_congr; intro t tr1
  cases t <;> simp [evalUnused_eq]

theorem evalUnused_and (w : World) (a b : Expr) (tr : Trace) :
    evalUnused w (.binary .and a b) tr =
      bind (evalBool w a tr) fun t tr1 => if t then evalUnused w b tr1 else (.val (), tr1) := by
  rw [evalUnused_eq, eval_and, evalBool_eq, bind_assoc, bind_assoc]
  apply bind_congr; intro v tr1
  cases h : toBoolean v <;> simp [evalUnused_eq]

theorem evalUnused_or (w : World) (a b : Expr) (tr : Trace) :
    evalUnused w (.binary .or a b) tr =
      bind (evalBool w a tr) fun t tr1 => if t then (.val (), tr1) else evalUnused w b tr1 := by
  rw [evalUnused_eq, eval_or, evalBool_eq, bind_assoc, bind_assoc]
  apply bind_congr; intro v tr1
  cases h : toBoolean v <;> simp [evalUnused_eq]

theorem evalUnused_nullish (w : World) (a b : Expr) (tr : Trace) :
    evalUnused w (.binary .nullish a b) tr =
      bind (eval w a tr) fun v tr1 => if v.nullish then evalUnused w b tr1 else (.val (), tr1) := by
  rw [evalUnused_eq, eval_nullish, bind_assoc]
  apply bind_congr; intro v tr1
  cases h : v.nullish <;> simp [evalUnused_eq]

/-- operators that evaluate both operands and then compute without any effect -/
theorem evalUnused_seq (w : World) (op : BinOp) (a b : Expr)
    (hs : ∀ v, op.short v = none)
    (hp : ∀ va vb tr, ∃ v, applyBinary w op va vb tr = (.val v, tr)) (tr : Trace) :
    evalUnused w (.binary op a b) tr = bind (evalUnused w a tr) fun _ tr1 => evalUnused w b tr1 := by
  simp only [evalUnused_eq, eval, hs, bind_assoc, bind_val]
  apply bind_congr; intro va tr1
  apply bind_congr; intro vb tr2
  obtain ⟨v, hv⟩ := hp va vb tr2
  simp [hv]

theorem evalUnused_unary (w : World) (op : UnOp) (v : Expr) (hti : typeofIdent? op v = none)
    (hp : ∀ u tr, ∃ r, applyUnary w op u tr = (.val r, tr)) (tr : Trace) :
    evalUnused w (.unary op v) tr = evalUnused w v tr := by
  simp only [evalUnused_eq, eval, hti, bind_assoc]
  apply bind_congr; intro u tr1
  obtain ⟨r, hr⟩ := hp u tr1
  simp [hr]

theorem UnusedEq.refl (w : World) (a : Expr) : UnusedEq w a a := fun _ => rfl
theorem UnusedEq.trans {w : World} {a b c : Expr} (h : UnusedEq w a b) (h2 : UnusedEq w b c) : UnusedEq w a c :=
  fun tr => (h tr).trans (h2 tr)

/-- the value-discarding sequence of two expressions, each replaced by what SimplifyUnusedExpr made of it -/
theorem seq_spec (w : World) (E l r : Expr) (ol or : Option Expr)
    (hseq : ∀ tr, evalUnused w E tr = bind (evalUnused w l tr) fun _ tr1 => evalUnused w r tr1)
    (hl : SueSpec w l ol) (hr : SueSpec w r or) : SueSpec w E (joinWithComma ol or) := by
  cases ol with
  | none =>
    have hl' : ∀ tr, evalUnused w l tr = (.val (), tr) := hl
    cases or with
    | none =>
      have hr' : ∀ tr, evalUnused w r tr = (.val (), tr) := hr
      intro tr; simp [hseq, hl', hr']
    | some r2 =>
      have hr' : ∀ tr, evalUnused w r tr = evalUnused w r2 tr := hr
      intro tr; simp [hseq, hl', hr']
  | some l2 =>
    have hl' : ∀ tr, evalUnused w l tr = evalUnused w l2 tr := hl
    cases or with
    | none =>
      have hr' : ∀ tr, evalUnused w r tr = (.val (), tr) := hr
      show UnusedEq w E l2
      intro tr
      rw [hseq, hl']
      simp only [hr']
      rcases res_cases (evalUnused w l2 tr) with ⟨v, tr1, h⟩ | ⟨x, tr1, h⟩ <;> simp [h]
    | some r2 =>
      have hr' : ∀ tr, evalUnused w r tr = evalUnused w r2 tr := hr
      show UnusedEq w E (.binary .comma l2 r2)
      intro tr
      rw [hseq, hl']
      simp only [hr']
      rw [evalUnused_eq w (.binary .comma l2 r2), eval_comma, bind_assoc, evalUnused_eq w l2, bind_assoc]
      apply bind_congr; intro v tr1
      simp [evalUnused_eq]


theorem bind_congr' {α β : Type} (r : Res α × Trace) (k k2 : α → Trace → Res β × Trace)
    (h : ∀ v tr, r = (.val v, tr) → k v tr = k2 v tr) : bind r k = bind r k2 := by
  obtain ⟨r, tr⟩ := r
  cases r with
  | val v => simp [h v tr rfl]
  | throw e => simp

theorem spec_of_unusedEq (w : World) (E c : Expr) (r : Option Expr) (h : UnusedEq w E c) (hc : SueSpec w c r) :
    SueSpec w E r := by
  cases r with
  | none => intro tr; rw [h tr]; exact hc tr
  | some x => exact h.trans hc

-- ---------------------------------------------------------------- the string addition chain

/-- every normally returned value is a string -/
def StrVal (w : World) (e : Expr) : Prop := ∀ tr v tr', eval w e tr = (.val v, tr') → ∃ s, v = .str s

def ChainSpec (w : World) (e : Expr) (c : Expr × Bool) : Prop :=
  if c.2 then UnusedEq w e c.1 ∧ StrVal w e ∧ StrVal w c.1 else EvalEq w e c.1

theorem eval_add (w : World) (a b : Expr) (tr : Trace) :
    eval w (.binary .add a b) tr =
      bind (eval w a tr) fun va tr1 => bind (eval w b tr1) fun vb tr2 =>
        bind (toPrimitive w .default va tr2) fun pa tr3 =>
        bind (toPrimitive w .default vb tr3) fun pb tr4 => (addPrim w pa pb, tr4) := by
  simp only [eval, BinOp.short, applyBinary]

theorem strVal_add_right (w : World) (l : Expr) (s : JStr) : StrVal w (.binary .add l (.str s)) := by
  intro tr v tr' h
  rw [eval_add] at h
  simp only [bind_eq_val, eval] at h
  obtain ⟨va, tr1, -, vb, tr2, hb, pa, tr3, -, pb, tr4, hpb, h⟩ := h
  simp at hb; obtain ⟨rfl, rfl⟩ := hb
  simp [toPrimitive] at hpb; obtain ⟨rfl, rfl⟩ := hpb
  simp only [Prod.mk.injEq] at h
  have := addPrim_str_right w s pa v h.1
  cases v <;> simp [PType.has] at this
  exact ⟨_, rfl⟩

theorem strVal_add_left (w : World) (l r : Expr) (hl : StrVal w l) : StrVal w (.binary .add l r) := by
  intro tr v tr' h
  rw [eval_add] at h
  simp only [bind_eq_val] at h
  obtain ⟨va, tr1, ha, vb, tr2, hb, pa, tr3, hpa, pb, tr4, hpb, h⟩ := h
  obtain ⟨s, rfl⟩ := hl tr va tr1 ha
  simp [toPrimitive] at hpa; obtain ⟨rfl, rfl⟩ := hpa
  simp only [Prod.mk.injEq] at h
  have := addPrim_str_left w s pb v h.1
  cases v <;> simp [PType.has] at this
  exact ⟨_, rfl⟩

/-- what a discarding context sees of `string + b` does not depend on the string -/
theorem unused_add_str (w : World) (s s2 : JStr) (b : Expr) (tr : Trace) :
    (bind (bind (eval w b tr) fun vb tr2 =>
        bind (toPrimitive w .default (.str s) tr2) fun pa tr3 =>
        bind (toPrimitive w .default vb tr3) fun pb tr4 => (addPrim w pa pb, tr4)) fun _ t => (Res.val (), t)) =
    (bind (bind (eval w b tr) fun vb tr2 =>
        bind (toPrimitive w .default (.str s2) tr2) fun pa tr3 =>
        bind (toPrimitive w .default vb tr3) fun pb tr4 => (addPrim w pa pb, tr4)) fun _ t => (Res.val (), t)) := by
  simp only [bind_assoc, toPrimitive, bind_val]
  apply bind_congr; intro vb tr2
  apply bind_congr; intro pb tr4
  simp only [addPrim]
  cases toStr w pb <;> simp

theorem unusedEq_add_left_str (w : World) (l l2 r : Expr) (h : UnusedEq w l l2) (h1 : StrVal w l)
    (h2 : StrVal w l2) : UnusedEq w (.binary .add l r) (.binary .add l2 r) := by
  intro tr
  have hu := h tr
  simp only [evalUnused_eq] at hu ⊢
  rw [eval_add, eval_add]
  rcases res_cases (eval w l tr) with ⟨va, tr1, ha⟩ | ⟨x, tr1, ha⟩ <;>
    rcases res_cases (eval w l2 tr) with ⟨va2, tr12, ha2⟩ | ⟨x2, tr12, ha2⟩ <;>
    rw [ha, ha2] at hu <;> simp at hu
  · subst hu
    obtain ⟨s, rfl⟩ := h1 tr va tr1 ha
    obtain ⟨s2, rfl⟩ := h2 tr va2 tr1 ha2
    rw [ha, ha2]
    exact unused_add_str w s s2 r tr1
  · obtain ⟨rfl, rfl⟩ := hu
    simp [ha, ha2]

theorem unusedEq_add_lit_drop (w : World) (l : Expr) (s : JStr) (h1 : StrVal w l) :
    UnusedEq w (.binary .add l (.str s)) l := by
  intro tr
  simp only [evalUnused_eq]
  rw [eval_add]
  rcases res_cases (eval w l tr) with ⟨va, tr1, ha⟩ | ⟨x, tr1, ha⟩
  · obtain ⟨t, rfl⟩ := h1 tr va tr1 ha
    simp [ha, eval, toPrimitive, addPrim, toStr]
  · simp [ha]

theorem unusedEq_add_lit_empty (w : World) (l : Expr) (s : JStr) :
    UnusedEq w (.binary .add l (.str s)) (.binary .add l (.str [])) := by
  intro tr
  simp only [evalUnused_eq]
  rw [eval_add, eval_add]
  simp only [bind_assoc, eval, bind_val, toPrimitive]
  apply bind_congr; intro va tr1
  apply bind_congr; intro pa tr3
  cases pa <;> simp [addPrim, toStr]

theorem chain_sound (w : World) : ∀ e, ChainSpec w e (simplifyUnusedStringAdditionChain e)
  | .str s => by
    simp only [simplifyUnusedStringAdditionChain, ChainSpec, if_true]
    refine ⟨fun tr => rfl, ?_, ?_⟩
    · intro tr v tr' h; simp [eval] at h; exact ⟨_, h.1.symm⟩
    · intro tr v tr' h; simp [eval] at h; exact ⟨_, h.1.symm⟩
  | .binary op l r => by
    simp only [simplifyUnusedStringAdditionChain]
    split
    · rename_i hop; subst hop
      have ih := chain_sound w l
      simp only [ChainSpec] at ih
      split
      · rename_i rv hrv
        have := strOf?_some _ _ hrv; subst this
        split
        · rename_i hc
          simp only [hc, if_true] at ih
          simp only [ChainSpec, if_true]
          exact ⟨(unusedEq_add_lit_drop w l rv ih.2.1).trans ih.1, strVal_add_right w l rv, ih.2.2⟩
        · rename_i hc
          simp only [hc] at ih
          have ih : EvalEq w l (simplifyUnusedStringAdditionChain l).1 := by simpa using ih
          split
          · simp only [ChainSpec, if_true]
            refine ⟨?_, strVal_add_right w l rv, strVal_add_right w _ []⟩
            exact (unusedEq_add_lit_empty w l rv).trans (EvalEq.binary .add ih (EvalEq.refl w _)).toUnused
          · simp only [ChainSpec, hc]
            exact EvalEq.binary .add ih (EvalEq.refl w _)
      · simp only [ChainSpec]
        split
        · rename_i hc
          simp only [hc, if_true] at ih
          exact ⟨unusedEq_add_left_str w l _ r ih.1 ih.2.1 ih.2.2, strVal_add_left w l r ih.2.1,
            strVal_add_left w _ r ih.2.2⟩
        · rename_i hc
          simp only [hc] at ih
          have ih : EvalEq w l (simplifyUnusedStringAdditionChain l).1 := by simpa using ih
          exact EvalEq.binary .add ih (EvalEq.refl w _)
    · simp only [ChainSpec]; exact EvalEq.refl w _
  | .undef => by simp only [simplifyUnusedStringAdditionChain, ChainSpec]; exact EvalEq.refl w _
  | .null => by simp only [simplifyUnusedStringAdditionChain, ChainSpec]; exact EvalEq.refl w _
  | .bool _ => by simp only [simplifyUnusedStringAdditionChain, ChainSpec]; exact EvalEq.refl w _
  | .num _ => by simp only [simplifyUnusedStringAdditionChain, ChainSpec]; exact EvalEq.refl w _
  | .ident _ => by simp only [simplifyUnusedStringAdditionChain, ChainSpec]; exact EvalEq.refl w _
  | .unary _ _ => by simp only [simplifyUnusedStringAdditionChain, ChainSpec]; exact EvalEq.refl w _
  | .cond _ _ _ => by simp only [simplifyUnusedStringAdditionChain, ChainSpec]; exact EvalEq.refl w _
  | .call _ _ => by simp only [simplifyUnusedStringAdditionChain, ChainSpec]; exact EvalEq.refl w _
  | .dot _ _ => by simp only [simplifyUnusedStringAdditionChain, ChainSpec]; exact EvalEq.refl w _
  | .index _ _ => by simp only [simplifyUnusedStringAdditionChain, ChainSpec]; exact EvalEq.refl w _


-- ---------------------------------------------------------------- SimplifyUnusedExpr

theorem looseEq_unused_seq (w : World) (op : BinOp) (hop : op = .looseEq ∨ op = .looseNe) (l r : Expr)
    (hk : mergedTypes (knownPrimitiveType l) (knownPrimitiveType r) ≠ .unknown) (tr : Trace) :
    evalUnused w (.binary op l r) tr = bind (evalUnused w l tr) fun _ tr1 => evalUnused w r tr1 := by
  have hs : ∀ v, op.short v = none := by rcases hop with rfl | rfl <;> intro v <;> rfl
  have hkl : knownPrimitiveType l ≠ .unknown := by intro h; simp [mergedTypes, h] at hk
  have hkr : knownPrimitiveType r ≠ .unknown := by intro h; simp [mergedTypes, h] at hk
  simp only [evalUnused_eq, eval, hs, bind_assoc, bind_val]
  apply bind_congr'; intro va tr1 ha
  apply bind_congr'; intro vb tr2 hb
  have pa : va.isObj = false := by
    have := has_mixed_of_known _ va hkl (kpt_sound w l tr tr1 va ha)
    cases va <;> simp_all [PType.has, Val.isObj]
  have pb : vb.isObj = false := by
    have := has_mixed_of_known _ vb hkr (kpt_sound w r tr1 tr2 vb hb)
    cases vb <;> simp_all [PType.has, Val.isObj]
  rcases hop with rfl | rfl <;> simp [applyBinary, looseEq_prim w va vb tr2 pa pb]

theorem sue_sound (w : World) (ub : Nat → Bool) (H : BoundOK w ub) (e : Expr) :
    e.wf = true → SueSpec w e (simplifyUnusedExpr ub e) := by
  fun_induction simplifyUnusedExpr ub e
  case case1 => exact fun _ _ => rfl
  case case2 => exact fun _ _ => rfl
  case case3 => exact fun _ _ => rfl
  case case4 => exact fun _ _ => rfl
  case case5 => exact fun _ _ => rfl
  case case6 x hx =>
    intro _
    exact nop_of_pure w _ (rm_sound w ub H (.ident x) (by simpa [exprCanBeRemovedIfUnused] using hx))
  case case7 x hx => exact fun _ => UnusedEq.refl w _
  case case8 c y n hn hy ihy ihn ihc =>
    intro hwf
    simp only [Expr.wf, Bool.and_eq_true] at hwf
    have hy' : ∀ tr, evalUnused w y tr = (.val (), tr) := by have := ihy hwf.1.2; rw [hy] at this; exact this
    have hn' : ∀ tr, evalUnused w n tr = (.val (), tr) := by have := ihn hwf.2; rw [hn] at this; exact this
    refine spec_of_unusedEq w _ c _ ?_ (ihc hwf.1.1)
    intro tr
    rw [evalUnused_cond, evalUnused_of_bool w c]
    apply bind_congr; intro t tr1
    cases t <;> simp [hy', hn']
  case case9 c y n no hn hy ihy ihn =>
    intro hwf
    simp only [Expr.wf, Bool.and_eq_true] at hwf
    have hy' : ∀ tr, evalUnused w y tr = (.val (), tr) := by have := ihy hwf.1.2; rw [hy] at this; exact this
    have hn' : ∀ tr, evalUnused w n tr = evalUnused w no tr := by have := ihn hwf.2; rw [hn] at this; exact this
    show UnusedEq w _ _
    refine UnusedEq.trans ?_ (join_equiv w .or rfl c no).symm.toUnused
    intro tr
    rw [evalUnused_cond, evalUnused_or]
    apply bind_congr; intro t tr1
    cases t <;> simp [hy', hn']
  case case10 c y n yes hn hy ihy ihn =>
    intro hwf
    simp only [Expr.wf, Bool.and_eq_true] at hwf
    have hy' : ∀ tr, evalUnused w y tr = evalUnused w yes tr := by have := ihy hwf.1.2; rw [hy] at this; exact this
    have hn' : ∀ tr, evalUnused w n tr = (.val (), tr) := by have := ihn hwf.2; rw [hn] at this; exact this
    show UnusedEq w _ _
    refine UnusedEq.trans ?_ (join_equiv w .and rfl c yes).symm.toUnused
    intro tr
    rw [evalUnused_cond, evalUnused_and]
    apply bind_congr; intro t tr1
    cases t <;> simp [hy', hn']
  case case11 c y n yes no hn hy ihy ihn =>
    intro hwf
    simp only [Expr.wf, Bool.and_eq_true] at hwf
    have hy' : ∀ tr, evalUnused w y tr = evalUnused w yes tr := by have := ihy hwf.1.2; rw [hy] at this; exact this
    have hn' : ∀ tr, evalUnused w n tr = evalUnused w no tr := by have := ihn hwf.2; rw [hn] at this; exact this
    show UnusedEq w _ _
    intro tr
    rw [evalUnused_cond, evalUnused_cond]
    apply bind_congr; intro t tr1
    cases t <;> simp [hy', hn']
  case case12 v ih =>
    intro hwf
    simp only [Expr.wf, Bool.true_and] at hwf
    exact spec_of_unusedEq w _ v _ (fun tr => evalUnused_unary w .void v rfl (fun u tr => ⟨_, rfl⟩) tr) (ih hwf)
  case case13 v ih =>
    intro hwf
    simp only [Expr.wf, Bool.true_and] at hwf
    exact spec_of_unusedEq w _ v _ (fun tr => evalUnused_unary w .not v rfl (fun u tr => ⟨_, rfl⟩) tr) (ih hwf)
  case case14 v flag hc =>
    intro _
    simp only [Bool.and_eq_true] at hc
    obtain ⟨hv, rfl⟩ := hc
    cases v <;> simp [isIdent] at hv
    rename_i x _
    exact nop_of_pure w _ (fun tr => ⟨.str (typeofRef w tr x), by simp only [eval, typeofIdent?]⟩)
  case case15 v flag hc ih =>
    intro hwf
    have hti : typeofIdent? (.typeof flag) v = none := by
      cases flag <;> cases v <;> simp [typeofIdent?, isIdent] at hc ⊢
    have hwf' : v.wf = true := by
      simp only [Expr.wf, Bool.and_eq_true] at hwf; exact hwf.2
    exact spec_of_unusedEq w _ v _
      (fun tr => evalUnused_unary w (.typeof flag) v hti (fun u tr => ⟨_, rfl⟩) tr) (ih hwf')
  case case16 => exact fun _ => UnusedEq.refl w _
  case case17 l r ihl ihr =>
    intro hwf
    simp only [wf_binary, Bool.and_eq_true] at hwf
    exact seq_spec w _ l r _ _ (evalUnused_seq w .strictEq l r (fun _ => rfl) (fun _ _ _ => ⟨_, rfl⟩))
      (ihl hwf.1) (ihr hwf.2)
  case case18 l r ihl ihr =>
    intro hwf
    simp only [wf_binary, Bool.and_eq_true] at hwf
    exact seq_spec w _ l r _ _ (evalUnused_seq w .strictNe l r (fun _ => rfl) (fun _ _ _ => ⟨_, rfl⟩))
      (ihl hwf.1) (ihr hwf.2)
  case case19 l r ihl ihr =>
    intro hwf
    simp only [wf_binary, Bool.and_eq_true] at hwf
    exact seq_spec w _ l r _ _ (evalUnused_seq w .comma l r (fun _ => rfl) (fun _ _ _ => ⟨_, rfl⟩))
      (ihl hwf.1) (ihr hwf.2)
  case case20 l r hk ihl ihr =>
    intro hwf
    simp only [wf_binary, Bool.and_eq_true] at hwf
    exact seq_spec w _ l r _ _ (looseEq_unused_seq w .looseEq (.inl rfl) l r hk) (ihl hwf.1) (ihr hwf.2)
  case case21 => exact fun _ => UnusedEq.refl w _
  case case22 l r hk ihl ihr =>
    intro hwf
    simp only [wf_binary, Bool.and_eq_true] at hwf
    exact seq_spec w _ l r _ _ (looseEq_unused_seq w .looseNe (.inr rfl) l r hk) (ihl hwf.1) (ihr hwf.2)
  case case23 => exact fun _ => UnusedEq.refl w _
  case case24 l r hr ihr ihl =>
    intro hwf
    simp only [wf_binary, Bool.and_eq_true] at hwf
    have hr' : ∀ tr, evalUnused w r tr = (.val (), tr) := by have := ihr hwf.2; rw [hr] at this; exact this
    have hs := sbe_sound w ub l hwf.1
    refine spec_of_unusedEq w _ _ _ ?_ (ihl hs.2)
    refine UnusedEq.trans ?_ hs.1.toUnused
    intro tr
    rw [evalUnused_and, evalUnused_of_bool w l]
    apply bind_congr; intro t tr1
    cases t <;> simp [hr']
  case case25 l r right hr ihr =>
    intro hwf
    simp only [wf_binary, Bool.and_eq_true] at hwf
    have hr' : ∀ tr, evalUnused w r tr = evalUnused w right tr := by have := ihr hwf.2; rw [hr] at this; exact this
    have hs := sbe_sound w ub l hwf.1
    show UnusedEq w _ _
    intro tr
    rw [evalUnused_and, evalUnused_and, hs.1 tr]
    apply bind_congr; intro t tr1
    cases t <;> simp [hr']
  case case26 l r hr ihr ihl =>
    intro hwf
    simp only [wf_binary, Bool.and_eq_true] at hwf
    have hr' : ∀ tr, evalUnused w r tr = (.val (), tr) := by have := ihr hwf.2; rw [hr] at this; exact this
    have hs := sbe_sound w ub l hwf.1
    refine spec_of_unusedEq w _ _ _ ?_ (ihl hs.2)
    refine UnusedEq.trans ?_ hs.1.toUnused
    intro tr
    rw [evalUnused_or, evalUnused_of_bool w l]
    apply bind_congr; intro t tr1
    cases t <;> simp [hr']
  case case27 l r right hr ihr =>
    intro hwf
    simp only [wf_binary, Bool.and_eq_true] at hwf
    have hr' : ∀ tr, evalUnused w r tr = evalUnused w right tr := by have := ihr hwf.2; rw [hr] at this; exact this
    have hs := sbe_sound w ub l hwf.1
    show UnusedEq w _ _
    intro tr
    rw [evalUnused_or, evalUnused_or, hs.1 tr]
    apply bind_congr; intro t tr1
    cases t <;> simp [hr']
  case case28 l r hr ihr ihl =>
    intro hwf
    simp only [wf_binary, Bool.and_eq_true] at hwf
    have hr' : ∀ tr, evalUnused w r tr = (.val (), tr) := by have := ihr hwf.2; rw [hr] at this; exact this
    refine spec_of_unusedEq w _ _ _ ?_ (ihl hwf.1)
    intro tr
    rw [evalUnused_nullish, evalUnused_eq w l]
    apply bind_congr; intro v tr1
    cases v.nullish <;> simp [hr']
  case case29 l r right hr ihr =>
    intro hwf
    simp only [wf_binary, Bool.and_eq_true] at hwf
    have hr' : ∀ tr, evalUnused w r tr = evalUnused w right tr := by have := ihr hwf.2; rw [hr] at this; exact this
    show UnusedEq w _ _
    intro tr
    rw [evalUnused_nullish, evalUnused_nullish]
    apply bind_congr; intro v tr1
    cases v.nullish <;> simp [hr']
  case case30 l r c hc =>
    intro _
    have := chain_sound w (.binary .add l r)
    simp only [ChainSpec] at this
    rw [if_pos hc] at this
    exact this.1
  case case31 => exact fun _ => UnusedEq.refl w _
  case case32 => exact fun _ => UnusedEq.refl w _
  case case33 => exact fun _ => UnusedEq.refl w _
  case case34 => exact fun _ => UnusedEq.refl w _
  case case35 => exact fun _ => UnusedEq.refl w _

end EsbuildModel.MiniJS
