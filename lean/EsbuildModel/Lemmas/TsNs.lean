/-
Helper lemmas for Props/C06TsNs.lean: parsing of namespaces without run-time content, the joins of
mangleStmts, the two spellings of the closure argument.
-/
import EsbuildModel.Impl.TsNs
import EsbuildModel.Spec.TsNamespaces
namespace EsbuildModel.TsNs.Lemmas
open EsbuildModel.TsNs EsbuildModel.TsNs.Impl

/-! ### namespaces that TypeScript does not instantiate -/

mutual
theorem parseM_uninstantiated (o : Opts) (π : Path) (pmap : Option MapId) (i : Nat) (mem : List SMember) (maps : Maps)
    (hπ : π ≠ []) :
    (m : Member) → Spec.instantiatedM m = false →
      ∃ maps', parseM o π pmap i mem maps m = .ok ([], mem, maps', false)
  | .typeOnly _, _ => ⟨maps, by simp [parseM]⟩
  | .ns exported dotted name body, hi => by
    have hi' : Spec.instantiatedL body = false := by simpa [Spec.instantiatedM] using hi
    obtain ⟨maps', hp⟩ := parseL_uninstantiated o (i :: π) (some (getOrCreate mem pmap maps name exported (i :: π)).1) 0 []
      (getOrCreate mem pmap maps name exported (i :: π)).2 (by simp) body hi'
    refine ⟨registerExports maps' (getOrCreate mem pmap maps name exported (i :: π)).1 [], ?_⟩
    simp only [parseM]
    have hne : ¬ (exported = true ∧ π = []) := fun h => hπ h.2
    simp only [hne, if_false]
    rw [hp]
    simp
  | .local_ .., hi => by simp [Spec.instantiatedM] at hi
  | .func .., hi => by simp [Spec.instantiatedM] at hi
  | .enum_ .., hi => by simp [Spec.instantiatedM] at hi
  | .expr _, hi => by simp [Spec.instantiatedM] at hi
  | .importEq .., hi => by simp [Spec.instantiatedM] at hi
  | .declareFn, hi => by simp [Spec.instantiatedM] at hi

theorem parseL_uninstantiated (o : Opts) (π : Path) (pmap : Option MapId) (i : Nat) (mem : List SMember) (maps : Maps)
    (hπ : π ≠ []) :
    (ms : List Member) → Spec.instantiatedL ms = false →
      ∃ maps', parseL o π pmap i mem maps ms = .ok ([], mem, maps', false)
  | [], _ => ⟨maps, by simp [parseL]⟩
  | m :: rest, hi => by
    simp [Spec.instantiatedL] at hi
    obtain ⟨maps1, h1⟩ := parseM_uninstantiated o π pmap i mem maps hπ m hi.1
    obtain ⟨maps2, h2⟩ := parseL_uninstantiated o π pmap (i + 1) mem maps1 hπ rest hi.2
    exact ⟨maps2, by simp [parseL, h1, h2]⟩
end

/-! ### the monad of the machine -/

@[simp] theorem bind_apply {α β} (m : M α) (f : α → M β) (s : State) :
    (m >>= f) s = match m s with
      | .ok a s' => f a s'
      | .err e s' => .err e s' := rfl

@[simp] theorem pure_apply {α} (a : α) (s : State) : (pure a : M α) s = .ok a s := rfl

/-! ### statement lists -/

theorem execJs_append (call : Path → String → M Value) (a b : List JStmt) (s : State) :
    execJs call (a ++ b) s =
      match execJs call a s with
      | .ok none s' => execJs call b s'
      | .ok (some v) s' => .ok (some v) s'
      | .err e s' => .err e s' := by
  induction a generalizing s with
  | nil => simp [execJs]
  | cons x rest ih =>
    simp only [List.cons_append, execJs, bind_apply]
    cases hx : execJ call x s with
    | err e s' => simp
    | ok c s' =>
      cases c with
      | some v => simp
      | none => simp [ih]

/-- `a; b;` and `a, b;` -/
theorem exec_join_expr (call : Path → String → M Value) (pe e : JExpr) (s : State) :
    execJs call [.expr (.comma pe e)] s = execJs call [.expr pe, .expr e] s := by
  simp only [execJs, execJ, evalJ, bind_apply, pure_apply]
  cases h1 : evalJ call pe s with
  | err e s' => simp
  | ok v s' => simp only [bind_apply, pure_apply]

/-- `a; return b;` and `return a, b;` -/
theorem exec_join_ret (call : Path → String → M Value) (pe e : JExpr) (s : State) :
    execJs call [.ret (.comma pe e)] s = execJs call [.expr pe, .ret e] s := by
  simp only [execJs, execJ, evalJ, bind_apply, pure_apply]
  cases h1 : evalJ call pe s with
  | err e s' => simp
  | ok v s' => simp only [bind_apply, pure_apply]

theorem dropLast_append_of_getLast? {α} : ∀ (l : List α) (a : α), l.getLast? = some a → l.dropLast ++ [a] = l
  | [], a, h => by simp at h
  | [x], a, h => by simp at h; simp [h]
  | x :: y :: rest, a, h => by
    have := dropLast_append_of_getLast? (y :: rest) a (by simpa [List.getLast?_cons_cons] using h)
    simp [List.dropLast, this]

theorem mangle_exec (call : Path → String → M Value) (ss acc : List JStmt) (s : State) :
    execJs call (mangle acc ss) s = execJs call (acc ++ ss) s := by
  induction ss generalizing acc s with
  | nil => simp [mangle]
  | cons x rest ih =>
    unfold mangle
    split
    · -- previous statement and this one are expression statements
      rename_i pe e hlast
      rw [ih]
      have hacc : acc = acc.dropLast ++ [.expr pe] := by
        exact (dropLast_append_of_getLast? acc (.expr pe) hlast).symm
      conv => rhs; rw [hacc]
      simp only [List.append_assoc, List.cons_append, List.nil_append]
      rw [execJs_append, execJs_append (a := acc.dropLast)]
      cases execJs call acc.dropLast s with
      | err e s' => rfl
      | ok c s' =>
        cases c with
        | some v => rfl
        | none =>
          simp only []
          have h1 := execJs_append call [.expr (.comma pe e)] rest s'
          have h2 := execJs_append call [.expr pe, .expr e] rest s'
          simp only [List.cons_append, List.nil_append] at h1 h2
          rw [h1, h2, exec_join_expr]
    · rename_i pe e hlast
      rw [ih]
      have hacc : acc = acc.dropLast ++ [.expr pe] := by
        exact (dropLast_append_of_getLast? acc (.expr pe) hlast).symm
      conv => rhs; rw [hacc]
      simp only [List.append_assoc, List.cons_append, List.nil_append]
      rw [execJs_append, execJs_append (a := acc.dropLast)]
      cases execJs call acc.dropLast s with
      | err e s' => rfl
      | ok c s' =>
        cases c with
        | some v => rfl
        | none =>
          simp only []
          have h1 := execJs_append call [.ret (.comma pe e)] rest s'
          have h2 := execJs_append call [.expr pe, .ret e] rest s'
          simp only [List.cons_append, List.nil_append] at h1 h2
          rw [h1, h2, exec_join_ret]
    · rw [ih]; simp

/-! ### the two spellings of the closure argument -/

theorem orAssign_var_eq (call : Path → String → M Value) (l : Loc) (rhs : JExpr) (s : State) :
    evalJ call (.orAssign (.var l) rhs) s = evalJ call (.or (.var l) (.assign (.var l) rhs)) s := by
  simp only [evalJ, bind_apply, pure_apply]

end EsbuildModel.TsNs.Lemmas
