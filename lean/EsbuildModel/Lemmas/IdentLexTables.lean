import EsbuildModel.Impl.IdentLexDriver
import EsbuildModel.Lemmas.IdentLexBasic
/-! Facts about the REGENERATED tables (`Gen.IdentTables`, checked again whenever esbuild's tables change): they meet every
hypothesis the theorems put on `Tables` (so the theorems are not vacuous and hold for the code as it is). -/
namespace EsbuildModel.IdentLex
open EsbuildModel.Spec.JsIdentifier

/-- no range meets the interval `[a, b]` -/
def disjointFrom (l : List (Nat × Nat)) (a b : Nat) : Bool := l.all (fun p => decide (p.2 < a) || decide (b < p.1))

theorem inRanges_disjoint {l : List (Nat × Nat)} {a b : Nat} (h : disjointFrom l a b = true) {c : Nat} (ha : a ≤ c) (hb : c ≤ b) :
    inRanges l c = false := by
  unfold inRanges
  rw [List.any_eq_false]
  intro p hp
  have := (List.all_eq_true.1 h) p hp
  simp only [Bool.or_eq_true, decide_eq_true_eq] at this
  simp only [Bool.and_eq_true, decide_eq_true_eq]
  omega

/-- every range of `a` lies inside one range of `b` -/
def subRanges (a b : List (Nat × Nat)) : Bool := a.all (fun p => b.any (fun q => decide (q.1 ≤ p.1) && decide (p.2 ≤ q.2)))

theorem inRanges_sub {a b : List (Nat × Nat)} (h : subRanges a b = true) {c : Nat} (hc : inRanges a c = true) : inRanges b c = true := by
  unfold inRanges at hc ⊢
  rw [List.any_eq_true] at hc ⊢
  obtain ⟨p, hp, hpc⟩ := hc
  obtain ⟨q, hq, hqp⟩ := List.any_eq_true.1 ((List.all_eq_true.1 h) p hp)
  refine ⟨q, hq, ?_⟩
  simp only [Bool.and_eq_true, decide_eq_true_eq] at hpc hqp ⊢
  omega

theorem gen_startBoth_sub : subRanges Gen.IdentTables.startBoth Gen.IdentTables.startOr = true := by decide +kernel
theorem gen_contBoth_sub : subRanges Gen.IdentTables.contBoth Gen.IdentTables.contOr = true := by decide +kernel
theorem gen_start_sub_cont : subRanges Gen.IdentTables.startOr Gen.IdentTables.contOr = true := by decide +kernel
theorem gen_start_no_surrogates : disjointFrom Gen.IdentTables.startOr 0xD800 0xDFFF = true := by decide +kernel
theorem gen_cont_no_surrogates : disjointFrom Gen.IdentTables.contOr 0xD800 0xDFFF = true := by decide +kernel
theorem gen_start_127 : disjointFrom Gen.IdentTables.startOr 127 127 = true := by decide +kernel
theorem gen_cont_127 : disjointFrom Gen.IdentTables.contOr 127 127 = true := by decide +kernel

/-- the non-ASCII WhiteSpace and LineTerminator code points (what `isWhitespace` and the `' ', ' '` case list) -/
def spacePoints : List Nat :=
  [160, 0x1680, 0x2000, 0x2001, 0x2002, 0x2003, 0x2004, 0x2005, 0x2006, 0x2007, 0x2008, 0x2009, 0x200A, 0x202F, 0x205F, 0x3000, 0xFEFF, 0x2028, 0x2029]

theorem gen_start_no_space : spacePoints.all (fun c => !inRanges Gen.IdentTables.startOr c) = true := by decide +kernel

theorem mem_spacePoints {c : Nat} (h128 : 128 ≤ c) (h : isWhitespace c = true ∨ c = 0x2028 ∨ c = 0x2029) : c ∈ spacePoints := by
  simp only [isWhitespace, Bool.or_eq_true, Bool.and_eq_true, beq_iff_eq, decide_eq_true_eq] at h
  simp only [spacePoints, List.mem_cons, List.not_mem_nil, or_false]
  omega

/-- the tables meet `BothSubset`: what passes the ES5-and-ESNext test passes the ES5-or-ESNext test -/
theorem gen_both_subset (c : Nat) :
    (isIdStartBoth genTables c = true → isIdStart genTables c = true) ∧ (isIdContBoth genTables c = true → isIdCont genTables c = true) := by
  constructor
  · unfold isIdStartBoth isIdStart
    intro h
    split at h
    · simp [*]
    · split at h
      · cases h
      · simp only [*, if_false]; exact inRanges_sub gen_startBoth_sub h
  · unfold isIdContBoth isIdCont
    intro h
    split at h
    · simp [*]
    · split at h
      · cases h
      · split at h
        · simp [*]
        · simp only [*, if_false]; exact inRanges_sub gen_contBoth_sub h

/-- ID_Start / ID_Continue as esbuild's tables have them (ASCII per the UCD, ZWNJ / ZWJ taken out again) -/
def genU : UnicodeProps where
  idStart c := if c < 128 then isAsciiLetter c else genTables.start c
  idContinue c := if c < 128 then (isAsciiLetter c || isAsciiDigit c || c == 95) else (c != 0x200C && c != 0x200D && genTables.cont c)

theorem gen_agree : Agree genTables genU where
  start := by
    intro c hc
    by_cases h : c < 128
    · have : c = 127 := by omega
      subst this
      simp only [genU, genTables, isAsciiLetter]
      rw [inRanges_disjoint gen_start_127 (Nat.le_refl _) (Nat.le_refl _)]; rfl
    · simp [genU, h]
  cont := by
    intro c hc h1 h2
    by_cases h : c < 128
    · have : c = 127 := by omega
      subst this
      simp only [genU, genTables, isAsciiLetter, isAsciiDigit]
      rw [inRanges_disjoint gen_cont_127 (Nat.le_refl _) (Nat.le_refl _)]; rfl
    · simp [genU, h, h1, h2]
  ascii := by
    intro c hc
    simp [genU, hc]
  noSurrogates := by
    intro c h1 h2
    have h : ¬ c < 128 := by omega
    simp only [genU, h, if_false, genTables]
    rw [inRanges_disjoint gen_start_no_surrogates h1 h2, inRanges_disjoint gen_cont_no_surrogates h1 h2]
    simp
  noSpace := by
    intro c h128 hws
    have h : ¬ c < 128 := by omega
    simp only [genU, h, if_false, genTables]
    have := (List.all_eq_true.1 gen_start_no_space) c (mem_spacePoints h128 hws)
    simpa using this

end EsbuildModel.IdentLex
