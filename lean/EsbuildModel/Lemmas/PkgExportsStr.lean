import EsbuildModel.Lemmas.PkgExportsHyp
/-! String-level lemmas for the refinement proof: the Go helpers of the model compute the same functions as the
helpers of the specification; `path.Join` and URL resolution agree on well-behaved paths. -/
namespace EsbuildModel.PkgExports
open EsbuildModel.NodeExports

theorem splitAt_eq (p : Char → Bool) (s : Str) : splitAt p s = splitBy p s := by
  induction s with
  | nil => rfl
  | cons c cs ih =>
    simp only [splitAt, splitBy, ih]
    by_cases hp : p c = true
    · simp [hp]
    · simp only [hp]; cases splitBy p cs <;> rfl

theorem replaceAllStar_eq (s b : Str) : replaceAllStar s b = replaceStar s b := by
  induction s with
  | nil => rfl
  | cons c cs ih =>
    simp only [replaceAllStar, replaceStar, List.flatMap_cons] at *
    split <;> simp [ih]

theorem joinSlash_eq (l : List Str) : joinSlash l = joinWith '/' l := by
  induction l with
  | nil => rfl
  | cons s ss ih =>
    cases ss with
    | nil => rfl
    | cons t ts => simp only [joinSlash, joinWith]; rw [ih]

theorem valueForKey_eq (l : List (Str × Target)) (k : Str) : valueForKey l k = lookup l k := by
  induction l with
  | nil => rfl
  | cons p ps ih => obtain ⟨a, b⟩ := p; simp [valueForKey, lookup, ih]

theorem splitBy_ne_nil (p : Char → Bool) (s : Str) : splitBy p s ≠ [] := by
  cases s with
  | nil => simp [splitBy]
  | cons c cs =>
    simp only [splitBy]
    split
    · simp
    · split <;> simp

theorem joinWith_cons (sep : Char) (s : Str) (ss : List Str) (h : ss ≠ []) :
    joinWith sep (s :: ss) = s ++ sep :: joinWith sep ss := by
  cases ss with
  | nil => exact absurd rfl h
  | cons t ts => rfl

theorem joinWith_cons_head (sep c : Char) (s : Str) (ss : List Str) :
    joinWith sep ((c :: s) :: ss) = c :: joinWith sep (s :: ss) := by
  cases ss <;> rfl

/-- join ∘ split = id -/
theorem joinWith_splitBy (s : Str) : joinWith '/' (splitBy (· = '/') s) = s := by
  induction s with
  | nil => rfl
  | cons c cs ih =>
    simp only [splitBy]
    split
    · rename_i h
      have hc : c = '/' := by simpa using h
      rw [joinWith_cons _ _ _ (splitBy_ne_nil _ _), ih, hc]; rfl
    · split
      · rename_i h; exact absurd h (splitBy_ne_nil _ _)
      · rename_i s ss h
        rw [joinWith_cons_head, ← h, ih]

/-! ### path.Clean and URL normalisation are the identity on paths without empty or dot segments -/

/-- a segment that neither `path.Clean` nor URL resolution touches -/
def goodSeg (s : Str) : Prop := s ≠ [] ∧ s ≠ ['.'] ∧ s ≠ ['.', '.']

theorem cleanSegs_id (rooted : Bool) (out segs : List Str) (h : ∀ s ∈ segs, goodSeg s) :
    cleanSegs rooted out segs = out ++ segs := by
  induction segs generalizing out with
  | nil => simp [cleanSegs]
  | cons s rest ih =>
    have hs := h s (by simp)
    have hr : ∀ s ∈ rest, goodSeg s := fun x hx => h x (by simp [hx])
    simp only [cleanSegs]
    simp [hs.1, hs.2.1, hs.2.2, ih _ hr]

theorem lowerChar_dot (c : Char) (h : lowerChar c = '.') : c = '.' := by
  unfold lowerChar at h
  split at h <;> first | exact h | (revert h; decide)

theorem lowerChar_pct (c : Char) (h : lowerChar c = '%') : c = '%' := by
  unfold lowerChar at h
  split at h <;> first | exact h | (revert h; decide)

theorem isSingleDot_false (s : Str) (h1 : s ≠ ['.']) (hp : ¬ '%' ∈ s) : isSingleDot s = false := by
  simp only [isSingleDot, Bool.or_eq_false_iff, beq_eq_false_iff_ne, ne_eq]
  constructor
  · intro h
    simp only [List.map_eq_cons_iff, List.map_eq_nil_iff] at h
    obtain ⟨a, _, rfl, ha, rfl⟩ := h
    exact h1 (by rw [lowerChar_dot a ha])
  · intro h
    simp only [List.map_eq_cons_iff, List.map_eq_nil_iff] at h
    obtain ⟨a, _, rfl, ha, _⟩ := h
    exact hp (by rw [lowerChar_pct a ha]; simp)

theorem isDoubleDot_false (s : Str) (h2 : s ≠ ['.', '.']) (hp : ¬ '%' ∈ s) : isDoubleDot s = false := by
  simp only [isDoubleDot, Bool.or_eq_false_iff, beq_eq_false_iff_ne, ne_eq]
  refine ⟨⟨⟨?_, ?_⟩, ?_⟩, ?_⟩
  · intro h
    simp only [List.map_eq_cons_iff, List.map_eq_nil_iff] at h
    obtain ⟨a, _, rfl, ha, b, _, rfl, hb, rfl⟩ := h
    exact h2 (by rw [lowerChar_dot a ha, lowerChar_dot b hb])
  · intro h
    simp only [List.map_eq_cons_iff, List.map_eq_nil_iff] at h
    obtain ⟨a, _, rfl, ha, b, _, rfl, hb, _⟩ := h
    exact hp (by rw [lowerChar_pct b hb]; simp)
  · intro h
    simp only [List.map_eq_cons_iff, List.map_eq_nil_iff] at h
    obtain ⟨a, _, rfl, ha, _⟩ := h
    exact hp (by rw [lowerChar_pct a ha]; simp)
  · intro h
    simp only [List.map_eq_cons_iff, List.map_eq_nil_iff] at h
    obtain ⟨a, _, rfl, ha, _⟩ := h
    exact hp (by rw [lowerChar_pct a ha]; simp)

/-- a segment that URL resolution keeps: not a (possibly percent-encoded) dot segment -/
def keptSeg (s : Str) : Prop := isSingleDot s = false ∧ isDoubleDot s = false

theorem removeDots_id (out segs : List Str) (h : ∀ s ∈ segs, keptSeg s) :
    removeDots out segs = out ++ segs := by
  induction segs generalizing out with
  | nil => simp [removeDots]
  | cons s rest ih =>
    have hs := h s (by simp)
    have hr : ∀ s ∈ rest, keptSeg s := fun x hx => h x (by simp [hx])
    cases rest with
    | nil => simp [removeDots, hs.1, hs.2]
    | cons t ts => simp [removeDots, hs.1, hs.2, ih _ hr]

theorem splitBy_slash_cons (cs : Str) : splitBy (· = '/') ('/' :: cs) = [] :: splitBy (· = '/') cs := by
  simp [splitBy]

theorem splitBy_dot_slash (rest : Str) :
    splitBy (· = '/') ('.' :: '/' :: rest) = ['.'] :: splitBy (· = '/') rest := by
  simp [splitBy]

theorem cleanSegs_skip_nil (r : Bool) (out rest : List Str) : cleanSegs r out ([] :: rest) = cleanSegs r out rest := by
  simp [cleanSegs]

theorem cleanSegs_skip_dot (r : Bool) (out rest : List Str) : cleanSegs r out (['.'] :: rest) = cleanSegs r out rest := by
  simp [cleanSegs]

/-- `path.Join("/", "./" + rest)` = "/" + rest when rest has only good segments -/
theorem goJoin_root (rest : Str) (h : ∀ s ∈ splitBy (· = '/') rest, goodSeg s) :
    goJoin ['/'] ('.' :: '/' :: rest) = '/' :: rest := by
  simp only [goJoin, goClean]
  simp only [List.cons_ne_nil, ↓reduceIte, List.cons_append, List.nil_append, List.head?_cons]
  rw [splitAt_eq, splitBy_slash_cons, splitBy_slash_cons, splitBy_dot_slash]
  rw [cleanSegs_skip_nil, cleanSegs_skip_nil, cleanSegs_skip_dot]
  rw [cleanSegs_id _ _ _ h, joinSlash_eq]
  simp [joinWith_splitBy]

/-- `path.Join("/" + rest, "")` = `path.Clean("/" + rest)` = "/" + rest -/
theorem goClean_root (rest : Str) (h : ∀ s ∈ splitBy (· = '/') rest, goodSeg s) :
    goJoin ('/' :: rest) [] = '/' :: rest := by
  simp only [goJoin, goClean]
  simp only [List.cons_ne_nil, ↓reduceIte, List.head?_cons]
  rw [splitAt_eq, splitBy_slash_cons]
  rw [cleanSegs_skip_nil]
  rw [cleanSegs_id _ _ _ h, joinSlash_eq]
  simp [joinWith_splitBy]

theorem map_backslash_id (s : Str) (h : ¬ '\\' ∈ s) : s.map (fun c => if c = '\\' then '/' else c) = s := by
  induction s with
  | nil => rfl
  | cons c cs ih =>
    simp only [List.mem_cons, not_or] at h
    simp only [List.map_cons, ih h.2]
    rw [if_neg (fun e => h.1 e.symm)]

/-- URL normalisation of "/" + y is the identity when y has no "\" and no dot segment -/
theorem urlNormalize_id (y : Str) (hb : ¬ '\\' ∈ y) (h : ∀ s ∈ splitBy (· = '/') y, keptSeg s) :
    urlNormalize ('/' :: y) = '/' :: y := by
  simp only [urlNormalize]
  rw [map_backslash_id _ (by simpa using hb)]
  simp only [startsWith, List.isPrefixOf, List.drop]
  simp [removeDots_id _ _ h, joinWith_splitBy]

/-- URL resolution of "/" ++ "./" ++ rest is "/" + rest -/
theorem urlNormalize_root (rest : Str) (hb : ¬ '\\' ∈ rest) (h : ∀ s ∈ splitBy (· = '/') rest, keptSeg s) :
    urlNormalize (['/'] ++ '.' :: '/' :: rest) = '/' :: rest := by
  simp only [urlNormalize]
  rw [map_backslash_id _ (by simpa using hb)]
  simp only [startsWith, List.cons_append, List.nil_append, List.isPrefixOf, List.drop]
  simp only [beq_self_eq_true, Bool.and_self, ↓reduceIte]
  rw [splitBy_dot_slash]
  have hne := splitBy_ne_nil (· = '/') rest
  cases hs : splitBy (· = '/') rest with
  | nil => exact absurd hs hne
  | cons a as =>
    simp only [removeDots]
    have : isDoubleDot ['.'] = false := by decide
    have h1 : isSingleDot ['.'] = true := by decide
    simp only [this, h1, Bool.false_eq_true, ↓reduceIte]
    rw [← hs, removeDots_id _ _ h]
    simp [joinWith_splitBy]

end EsbuildModel.PkgExports
