import EsbuildModel.Lemmas.ScopesAbs
/-!
"The same symbol after following links": `Conn syms a b` says that `a` and `b` are joined by `Link` edges (in either
direction).  ast.FollowSymbols maps two such symbols to the same symbol when the links form no cycle.
-/
namespace EsbuildModel.Scopes

/-- `Symbol.Link` of symbol `i` -/
def linkOf (syms : Syms) (i : Nat) : Option Nat := (syms[i]?).bind (·.link)

/-- joined by links -/
inductive Conn (syms : Syms) : Nat → Nat → Prop
  | refl (a : Nat) : Conn syms a a
  | link {a b : Nat} : linkOf syms a = some b → Conn syms a b
  | symm {a b : Nat} : Conn syms a b → Conn syms b a
  | trans {a b c : Nat} : Conn syms a b → Conn syms b c → Conn syms a c

/-- every link of `a` is a link of `b` (links are only added, never changed) -/
def LinksKept (a b : Syms) : Prop := ∀ i l, linkOf a i = some l → linkOf b i = some l

theorem LinksKept.refl (a : Syms) : LinksKept a a := fun _ _ h => h
theorem LinksKept.trans {a b c : Syms} (h1 : LinksKept a b) (h2 : LinksKept b c) : LinksKept a c :=
  fun i l h => h2 i l (h1 i l h)

theorem Conn.mono {a b : Syms} (h : LinksKept a b) {x y : Nat} (hc : Conn a x y) : Conn b x y := by
  induction hc with
  | refl x => exact .refl x
  | link hl => exact .link (h _ _ hl)
  | symm _ ih => exact .symm ih
  | trans _ _ ih1 ih2 => exact .trans ih1 ih2

theorem linkOf_append_old (a : Syms) (x : List Sym) (i : Nat) (hi : i < a.length) : linkOf (a ++ x) i = linkOf a i := by
  simp [linkOf, List.getElem?_append_left hi]

theorem LinksKept.append (a : Syms) (x : List Sym) : LinksKept a (a ++ x) := by
  intro i l h
  have hi : i < a.length := by
    rcases Nat.lt_or_ge i a.length with h1 | h1
    · exact h1
    · simp [linkOf, List.getElem?_eq_none h1] at h
  rw [linkOf_append_old a x i hi]; exact h

theorem linkOf_modify_other (a : Syms) (f : Sym → Sym) {i j : Nat} (h : i ≠ j) : linkOf (a.modify i f) j = linkOf a j := by
  simp [linkOf, List.getElem?_modify, h]

theorem linkOf_modify_self (a : Syms) (f : Sym → Sym) (i : Nat) :
    linkOf (a.modify i f) i = (a[i]?).bind (fun s => (f s).link) := by
  simp only [linkOf, List.getElem?_modify]
  cases a[i]? <;> simp

theorem LinksKept.pin (a : Syms) (i : Nat) : LinksKept a (pin a i) := by
  intro j l h
  by_cases hij : i = j
  · subst hij
    unfold Scopes.pin
    rw [linkOf_modify_self]
    simpa [linkOf] using h
  · unfold Scopes.pin; rw [linkOf_modify_other _ _ hij]; exact h

/-- setting the link of a symbol that has none -/
theorem LinksKept.setLink (a : Syms) (i : Nat) (l : Option Nat) (hn : linkOf a i = none) : LinksKept a (setLink a i l) := by
  intro j l' h
  by_cases hij : i = j
  · subst hij; rw [hn] at h; cases h
  · unfold Scopes.setLink; rw [linkOf_modify_other _ _ hij]; exact h

theorem linkOf_setLink_self (a : Syms) (i : Nat) (l : Nat) (hi : i < a.length) : linkOf (setLink a i (some l)) i = some l := by
  unfold Scopes.setLink
  rw [linkOf_modify_self]
  rw [List.getElem?_eq_getElem hi]
  rfl

theorem linkOf_new (a : Syms) (k : SK) (n : Name) : linkOf (a ++ [⟨k, n, none, false⟩]) a.length = none := by
  simp [linkOf]

theorem linkOf_none_of_ge (a : Syms) {i : Nat} (h : a.length ≤ i) : linkOf a i = none := by
  simp [linkOf, List.getElem?_eq_none h]

end EsbuildModel.Scopes
