import EsbuildModel.Spec.JsNumber
/-!
Lemmas about the specification `Spec/JsNumber.lean`: digit strings, the parser/renderer round trip, and the
normal form `MV = m × 10^e` of a decimal literal.
-/
namespace EsbuildModel.Spec.Num

def AllDigits (l : List Char) : Prop := ∀ c ∈ l, isDigit c = true

theorem allDigits_nil : AllDigits [] := by intro c h; cases h

theorem allDigits_cons {c : Char} {l : List Char} : AllDigits (c :: l) ↔ isDigit c = true ∧ AllDigits l := by
  simp [AllDigits]

theorem allDigits_append {a b : List Char} : AllDigits (a ++ b) ↔ AllDigits a ∧ AllDigits b := by
  simp only [AllDigits, List.mem_append]
  constructor
  · intro h; exact ⟨fun c hc => h c (Or.inl hc), fun c hc => h c (Or.inr hc)⟩
  · rintro ⟨h1, h2⟩ c (hc | hc)
    · exact h1 c hc
    · exact h2 c hc

theorem allDigits_replicate_zero (k : Nat) : AllDigits (List.replicate k '0') := by
  intro c hc
  rw [List.mem_replicate] at hc
  rw [hc.2]; decide

theorem allDigits_iff_all {l : List Char} : l.all isDigit = true ↔ AllDigits l := List.all_eq_true

theorem isDigit_range {c : Char} (h : isDigit c = true) : 48 ≤ c.toNat ∧ c.toNat ≤ 57 := by
  simpa [isDigit] using h

theorem isDigit_ne_dot {c : Char} (h : isDigit c = true) : c ≠ '.' := by rintro rfl; revert h; decide
theorem isDigit_ne_e {c : Char} (h : isDigit c = true) : c ≠ 'e' := by rintro rfl; revert h; decide
theorem isDigit_ne_E {c : Char} (h : isDigit c = true) : c ≠ 'E' := by rintro rfl; revert h; decide
theorem isDigit_ne_plus {c : Char} (h : isDigit c = true) : c ≠ '+' := by rintro rfl; revert h; decide
theorem isDigit_ne_minus {c : Char} (h : isDigit c = true) : c ≠ '-' := by rintro rfl; revert h; decide
theorem isDigit_ne_x {c : Char} (h : isDigit c = true) : c ≠ 'x' := by rintro rfl; revert h; decide

theorem not_mem_of_allDigits {l : List Char} (h : AllDigits l) {c : Char} (hc : isDigit c = false) : c ∉ l := by
  intro hm
  have := h c hm
  rw [hc] at this
  cases this

/-! ### digit values -/

theorem digitsMV_foldl (l : List Char) (a : Nat) :
    l.foldl (fun a c => a * 10 + digitVal c) a = a * 10 ^ l.length + digitsMV l := by
  induction l generalizing a with
  | nil => simp [digitsMV]
  | cons c l ih =>
    simp only [List.foldl_cons, List.length_cons, digitsMV]
    rw [ih, ih (0 * 10 + digitVal c)]
    simp only [Nat.pow_succ, Nat.zero_mul, Nat.zero_add]
    rw [Nat.add_mul, Nat.add_assoc]
    congr 1
    rw [Nat.mul_assoc, Nat.mul_comm 10]

@[simp] theorem digitsMV_nil : digitsMV [] = 0 := rfl

theorem digitsMV_append (a b : List Char) : digitsMV (a ++ b) = digitsMV a * 10 ^ b.length + digitsMV b := by
  unfold digitsMV
  rw [List.foldl_append, digitsMV_foldl]
  rfl

theorem digitsMV_cons (c : Char) (l : List Char) : digitsMV (c :: l) = digitVal c * 10 ^ l.length + digitsMV l := by
  have := digitsMV_append [c] l
  simpa [digitsMV] using this

theorem digitsMV_singleton (c : Char) : digitsMV [c] = digitVal c := by simp [digitsMV]

theorem digitsMV_zero_cons (l : List Char) : digitsMV ('0' :: l) = digitsMV l := by
  rw [digitsMV_cons]
  have : digitVal '0' = 0 := by decide
  simp [this]

theorem digitsMV_replicate_zero (k : Nat) : digitsMV (List.replicate k '0') = 0 := by
  induction k with
  | zero => rfl
  | succ k ih => rw [List.replicate_succ, digitsMV_zero_cons, ih]

theorem digitsMV_zeros_append (k : Nat) (l : List Char) : digitsMV (List.replicate k '0' ++ l) = digitsMV l := by
  rw [digitsMV_append, digitsMV_replicate_zero]; simp

theorem digitsMV_append_zeros (l : List Char) (k : Nat) :
    digitsMV (l ++ List.replicate k '0') = digitsMV l * 10 ^ k := by
  rw [digitsMV_append, digitsMV_replicate_zero]; simp

theorem digitVal_lt {c : Char} (h : isDigit c = true) : digitVal c < 10 := by
  have := isDigit_range h
  unfold digitVal; omega

theorem digitVal_pos {c : Char} (h : isDigit c = true) (h0 : c ≠ '0') : 0 < digitVal c := by
  have hr := isDigit_range h
  unfold digitVal
  have : c.toNat ≠ 48 := by
    intro h48
    apply h0
    apply Char.ext
    apply UInt32.toNat_inj.mp
    exact h48
  omega

theorem digitsMV_lt {l : List Char} (h : AllDigits l) : digitsMV l < 10 ^ l.length := by
  induction l with
  | nil => simp
  | cons c l ih =>
    rw [allDigits_cons] at h
    rw [digitsMV_cons, List.length_cons, Nat.pow_succ]
    have := digitVal_lt h.1
    have := ih h.2
    have h10 : 0 < 10 ^ l.length := Nat.pow_pos (by decide)
    calc digitVal c * 10 ^ l.length + digitsMV l
        < digitVal c * 10 ^ l.length + 10 ^ l.length := by omega
      _ = (digitVal c + 1) * 10 ^ l.length := by rw [Nat.add_mul]; simp
      _ ≤ 10 * 10 ^ l.length := Nat.mul_le_mul_right _ (by omega)
      _ = 10 ^ l.length * 10 := Nat.mul_comm _ _

/-- a digit string without leading zero has at least `10^(len-1)` as value -/
theorem digitsMV_ge {c : Char} {l : List Char} (hc : isDigit c = true) (h0 : c ≠ '0') :
    10 ^ l.length ≤ digitsMV (c :: l) := by
  rw [digitsMV_cons]
  have := digitVal_pos hc h0
  calc 10 ^ l.length = 1 * 10 ^ l.length := by simp
    _ ≤ digitVal c * 10 ^ l.length := Nat.mul_le_mul_right _ this
    _ ≤ _ := Nat.le_add_right _ _

/-! ### the parser inverts the renderer -/

theorem takeWhile_digits_append {a r : List Char} (ha : AllDigits a)
    (hr : r = [] ∨ ∃ c r', r = c :: r' ∧ isDigit c = false) :
    (a ++ r).takeWhile isDigit = a ∧ (a ++ r).dropWhile isDigit = r := by
  rw [List.takeWhile_append_of_pos ha, List.dropWhile_append_of_pos ha]
  rcases hr with rfl | ⟨c, r', rfl, hc⟩
  · simp
  · rw [List.takeWhile_cons_of_neg (by simp [hc]), List.dropWhile_cons_of_neg (by simp [hc])]
    simp

theorem expText_head (e : Option ExpPart) :
    expText e = [] ∨ ∃ c r', expText e = c :: r' ∧ isDigit c = false := by
  cases e with
  | none => exact Or.inl rfl
  | some x =>
    refine Or.inr ⟨_, _, rfl, ?_⟩
    cases x.upper <;> decide

theorem parseExp_expText (e : Option ExpPart)
    (h : ∀ x, e = some x → AllDigits x.digits ∧ x.digits ≠ []) : parseExp (expText e) = some e := by
  cases e with
  | none => rfl
  | some x =>
    obtain ⟨hd, hne⟩ := h x rfl
    obtain ⟨upper, sign, digits⟩ := x
    simp only at hd hne
    have hall : digits.all isDigit = true := allDigits_iff_all.mpr hd
    cases sign with
    | none =>
      cases digits with
      | nil => exact absurd rfl hne
      | cons s ds =>
        have hs : isDigit s = true := hd s (List.mem_cons_self)
        have h1 := isDigit_ne_plus hs
        have h2 := isDigit_ne_minus hs
        cases upper <;> simp [expText, Sign.text, parseExp, h1, h2, hall]
    | plus =>
      cases upper <;> simp [expText, Sign.text, parseExp, hall, hne]
    | minus =>
      cases upper <;> simp [expText, Sign.text, parseExp, hall, hne]

/-- well-formedness of the pieces: digit strings where digits are expected, a non-empty exponent -/
structure DecParts.WF (p : DecParts) : Prop where
  int : AllDigits p.int
  frac : ∀ f, p.frac = some f → AllDigits f
  exp : ∀ x, p.exp = some x → AllDigits x.digits ∧ x.digits ≠ []

theorem parseDec_render (p : DecParts) (h : p.WF) : parseDec p.render = some p := by
  obtain ⟨int, frac, exp⟩ := p
  obtain ⟨hi, hf, he⟩ := h
  simp only at hi hf he
  unfold parseDec DecParts.render
  simp only
  cases frac with
  | none =>
    simp only [fracText, List.nil_append]
    obtain ⟨h1, h2⟩ := takeWhile_digits_append (r := expText exp) hi (expText_head exp)
    rw [h1, h2]
    have hp := parseExp_expText exp he
    cases exp with
    | none => simp [expText, parseExp]
    | some x =>
      have : ∀ r, expText (some x) ≠ '.' :: r := by
        intro r; simp only [expText]; cases x.upper <;> simp
      split
      · rename_i r heq; exact absurd heq (this r)
      · rw [hp]; rfl
  | some f =>
    have hf' := hf f rfl
    simp only [fracText, List.cons_append]
    obtain ⟨h1, h2⟩ := takeWhile_digits_append (a := int) (r := '.' :: (f ++ expText exp)) hi
      (Or.inr ⟨'.', _, rfl, by decide⟩)
    rw [h1, h2]
    simp only
    obtain ⟨h3, h4⟩ := takeWhile_digits_append (r := expText exp) hf' (expText_head exp)
    rw [h3, h4, parseExp_expText exp he]
    rfl

/-! ### the parser is sound: what it accepts is the rendering of the pieces -/

theorem parseExp_sound {r : List Char} {e : Option ExpPart} (h : parseExp r = some e) :
    r = expText e ∧ ∀ x, e = some x → AllDigits x.digits ∧ x.digits ≠ [] := by
  cases r with
  | nil =>
    simp only [parseExp, Option.some.injEq] at h
    subst h
    exact ⟨rfl, fun x hx => by cases hx⟩
  | cons c r =>
    simp only [parseExp] at h
    split at h
    · rename_i hc
      cases r with
      | nil => cases h
      | cons s ds =>
        simp only at h
        split at h
        · rename_i hs
          split at h
          · rename_i hd
            simp only [Option.some.injEq] at h
            subst h
            refine ⟨?_, ?_⟩
            · rcases hc with rfl | rfl <;> simp [expText, Sign.text, hs]
            · intro x hx
              simp only [Option.some.injEq] at hx
              subst hx
              exact ⟨allDigits_iff_all.mp hd.2, hd.1⟩
          · cases h
        · split at h
          · rename_i hs
            split at h
            · rename_i hd
              simp only [Option.some.injEq] at h
              subst h
              refine ⟨?_, ?_⟩
              · rcases hc with rfl | rfl <;> simp [expText, Sign.text, hs]
              · intro x hx
                simp only [Option.some.injEq] at hx
                subst hx
                exact ⟨allDigits_iff_all.mp hd.2, hd.1⟩
            · cases h
          · split at h
            · rename_i hd
              simp only [Option.some.injEq] at h
              subst h
              refine ⟨?_, ?_⟩
              · rcases hc with rfl | rfl <;> simp [expText, Sign.text]
              · intro x hx
                simp only [Option.some.injEq] at hx
                subst hx
                exact ⟨allDigits_iff_all.mp hd, by simp⟩
            · cases h
    · cases h

theorem allDigits_takeWhile (t : List Char) : AllDigits (t.takeWhile isDigit) := by
  intro c hc
  induction t with
  | nil => cases hc
  | cons x t ih =>
    simp only [List.takeWhile_cons] at hc
    split at hc
    · rename_i hx
      rcases List.mem_cons.mp hc with rfl | h
      · exact hx
      · exact ih h
    · cases hc

theorem parseDec_sound {t : List Char} {p : DecParts} (h : parseDec t = some p) : t = p.render ∧ p.WF := by
  have hsplit : t = t.takeWhile isDigit ++ t.dropWhile isDigit := List.takeWhile_append_dropWhile.symm
  unfold parseDec at h
  split at h
  · rename_i r heq
    simp only [Option.map_eq_some_iff] at h
    obtain ⟨e, he, rfl⟩ := h
    obtain ⟨h1, h2⟩ := parseExp_sound he
    refine ⟨?_, ⟨allDigits_takeWhile t, ?_, h2⟩⟩
    · simp only [DecParts.render, fracText]
      rw [← h1, List.cons_append, List.takeWhile_append_dropWhile, ← heq]
      exact hsplit
    · intro f hf
      simp only [Option.some.injEq] at hf
      subst hf
      exact allDigits_takeWhile r
  · rename_i r hne
    simp only [Option.map_eq_some_iff] at h
    obtain ⟨e, he, rfl⟩ := h
    obtain ⟨h1, h2⟩ := parseExp_sound he
    refine ⟨?_, ⟨allDigits_takeWhile t, ?_, h2⟩⟩
    · simp only [DecParts.render, fracText, List.nil_append]
      rw [← h1]
      exact hsplit
    · intro f hf; cases hf

/-! ### normal form of the value -/

/-- `m × 10^e` -/
def dec (m : Nat) (e : Int) : Rat := (m : Rat) * (10 : Rat) ^ e

theorem ten_ne_zero : (10 : Rat) ≠ 0 := by decide

theorem dec_shift (m k : Nat) (e : Int) : dec (m * 10 ^ k) e = dec m (e + k) := by
  unfold dec
  rw [Int.add_comm, Rat.zpow_add ten_ne_zero, Rat.zpow_natCast, Rat.natCast_mul, Rat.natCast_pow]
  rw [Rat.mul_assoc]
  rfl

theorem dec_zero_exp (m : Nat) : dec m 0 = (m : Rat) := by simp [dec]

theorem dec_zero (e e' : Int) : dec 0 e = dec 0 e' := by simp [dec]

theorem mv_eq_dec (p : DecParts) :
    p.mv = dec (digitsMV (p.int ++ p.frac.getD [])) (expVal p.exp - ((p.frac.getD []).length : Int)) := by
  unfold DecParts.mv dec
  generalize p.frac.getD [] = f
  rw [digitsMV_append, Int.sub_eq_add_neg, Rat.zpow_add ten_ne_zero]
  rw [Rat.natCast_add, Rat.natCast_mul, Rat.natCast_pow]
  have h : ((10 : Nat) : Rat) ^ f.length * (10 : Rat) ^ (-(f.length : Int)) = 1 := by
    rw [Rat.zpow_neg, Rat.zpow_natCast]
    exact Rat.mul_inv_cancel _ (by
      intro h0
      have : (0 : Rat) < (10 : Rat) ^ f.length := Rat.pow_pos (by decide)
      rw [show ((10 : Nat) : Rat) = (10 : Rat) from rfl] at h0
      rw [h0] at this
      exact absurd this (by decide))
  generalize hx : (10 : Rat) ^ (-(f.length : Int)) = x at h ⊢
  generalize hy : (10 : Rat) ^ expVal p.exp = y
  generalize hz : ((10 : Nat) : Rat) ^ f.length = z at h ⊢
  grind

end EsbuildModel.Spec.Num
