import EsbuildModel.Lemmas.SmJoinLink3
/-!
# Helper lemmas for `Props/C07Join.lean` — part 9: generated positions are in order
-/
namespace EsbuildModel.SmJoin
open Spec.SourceMapV3 (Ev Orig Seg segsOf LineCol place genLE SortedGen)

/-- within every line the columns do not decrease; the first line starts at `lo` or later -/
def Mono (lo : Int) : List Ev → Prop
  | [] => True
  | .nl :: es => Mono 0 es
  | .seg c _ :: es => lo ≤ c ∧ Mono c es

/-- column of the last segment of the last line (`lo` if the list has no line break and no segment, 0 if the
last line has no segment) -/
def lastCol (lo : Int) : List Ev → Int
  | [] => lo
  | .nl :: es => lastCol 0 es
  | .seg c _ :: es => lastCol c es

theorem mono_append (a b : List Ev) (lo : Int) : Mono lo (a ++ b) ↔ Mono lo a ∧ Mono (lastCol lo a) b := by
  induction a generalizing lo with
  | nil => simp [Mono, lastCol]
  | cons e es ih => cases e <;> simp [Mono, lastCol, ih, and_assoc]

theorem lastCol_append (a b : List Ev) (lo : Int) : lastCol lo (a ++ b) = lastCol (lastCol lo a) b := by
  induction a generalizing lo with
  | nil => simp [lastCol]
  | cons e es ih => cases e <;> simp [lastCol, ih]

theorem mono_le (evs : List Ev) (lo lo' : Int) (h : lo' ≤ lo) (hm : Mono lo evs) : Mono lo' evs := by
  cases evs with
  | nil => trivial
  | cons e es =>
    cases e with
    | nl => exact hm
    | seg c o => exact ⟨by have := hm.1; omega, hm.2⟩

theorem lastCol_le (evs : List Ev) (lo lo' : Int) (h : lo' ≤ lo) : lastCol lo' evs ≤ lastCol lo evs := by
  cases evs with
  | nil => exact h
  | cons e es => cases e <;> simp [lastCol]

/-- `Mono` gives sorted segments; all of them lie at or after `(L, lo)` -/
theorem sorted_of_mono (evs : List Ev) (L : Nat) (lo : Int) (hm : Mono lo evs) :
    (segsOf L evs).Pairwise genLE ∧
      ∀ s ∈ segsOf L evs, L < s.genLine ∨ (s.genLine = L ∧ lo ≤ s.genCol) := by
  induction evs generalizing L lo with
  | nil => simp [segsOf]
  | cons e es ih =>
    cases e with
    | nl =>
      obtain ⟨h1, h2⟩ := ih (L + 1) 0 hm
      refine ⟨h1, ?_⟩
      intro s hs
      rcases h2 s hs with h | ⟨h, _⟩
      · left; omega
      · left; omega
    | seg c o =>
      obtain ⟨h1, h2⟩ := ih L c hm.2
      constructor
      · simp only [segsOf, List.pairwise_cons]
        refine ⟨?_, h1⟩
        intro s hs
        rcases h2 s hs with h | ⟨h, hc⟩
        · left; exact h
        · right; exact ⟨h.symm, hc⟩
      · intro s hs
        simp only [segsOf, List.mem_cons] at hs
        rcases hs with rfl | hs
        · right; exact ⟨rfl, hm.1⟩
        · rcases h2 s hs with h | ⟨h, hc⟩
          · left; exact h
          · right; exact ⟨h, by have := hm.1; omega⟩

/-! ## the builder records in order -/

theorem mono_coverEv (cover : Bool) (s : LSt) (b : Bool) (lo : Int) (h : s.lsm = false → lo ≤ 0) :
    Mono lo (coverEv cover s b) ∧
      lastCol lo (coverEv cover s b) = (if coverEv cover s b = [] then lo else 0) := by
  unfold coverEv
  cases s.prevOrig with
  | none => simp [Mono, lastCol]
  | some t =>
    obtain ⟨a, l, c⟩ := t
    simp only
    split
    · rename_i hc
      have : s.lsm = false := by
        cases hl : s.lsm <;> simp_all
      simp [Mono, lastCol, h this]
    · simp [Mono, lastCol]

theorem coverEv_nil_of_lsm (cover : Bool) (s : LSt) (b : Bool) (h : s.lsm = true) : coverEv cover s b = [] := by
  unfold coverEv
  cases s.prevOrig with
  | none => rfl
  | some t => obtain ⟨a, l, c⟩ := t; simp [h]

theorem coverEv_map_gc (cover : Bool) (s : LSt) (h : coverEv cover s true ≠ []) : 0 < s.gc := by
  unfold coverEv at h
  cases hp : s.prevOrig with
  | none => rw [hp] at h; simp at h
  | some t =>
    obtain ⟨a, l, c⟩ := t
    rw [hp] at h
    simp only at h
    split at h
    · rename_i hc; simp at hc; exact hc.2
    · simp at h

theorem mono_lowerFrom (cover : Bool) (bevs : List BEv) (s : LSt) (lo : Int) (h1 : lo ≤ s.gc)
    (h2 : s.lsm = false → lo ≤ 0) :
    Mono lo (lowerFrom cover s bevs) ∧ lastCol lo (lowerFrom cover s bevs) ≤ (lowerEnd cover s bevs).gc := by
  induction bevs generalizing s lo with
  | nil => simp [lowerFrom, lowerEnd, Mono, lastCol, h1]
  | cons e es ih =>
    simp only [lowerFrom, lowerEnd, mono_append, lastCol_append]
    cases e with
    | newline =>
      obtain ⟨hc1, _⟩ := mono_coverEv cover s false lo h2
      obtain ⟨i1, i2⟩ := ih { s with gc := 0, lsm := false } 0 (by simp) (by simp)
      simp only [lowerStep, mono_append, lastCol_append, Mono, lastCol, and_true]
      exact ⟨⟨hc1, i1⟩, i2⟩
    | cols k =>
      obtain ⟨i1, i2⟩ := ih { s with gc := s.gc + k } lo (by simp; omega) (by simpa using h2)
      simp only [lowerStep, Mono, lastCol, true_and]
      exact ⟨i1, i2⟩
    | map r =>
      obtain ⟨hc1, hc2⟩ := mono_coverEv cover s true lo h2
      cases r with
      | none =>
        have hlo : lastCol lo (coverEv cover s true) ≤ s.gc := by
          rw [hc2]; split
          · exact h1
          · rename_i hne; have := coverEv_map_gc cover s hne; omega
        obtain ⟨i1, i2⟩ := ih { s with lsm := true } (lastCol lo (coverEv cover s true)) hlo (by simp)
        simp only [lowerStep]
        exact ⟨⟨hc1, i1⟩, i2⟩
      | some r =>
        have hlo : lastCol lo (coverEv cover s true) ≤ s.gc := by
          rw [hc2]; split
          · exact h1
          · rename_i hne; have := coverEv_map_gc cover s hne; omega
        obtain ⟨i1, i2⟩ := ih { s with lsm := true, prevOrig := some (r.src, r.line, r.col) } s.gc
          (by simp) (by simp)
        simp only [lowerStep, mono_append, lastCol_append, Mono, lastCol, and_true]
        exact ⟨⟨⟨hc1, hlo⟩, i1⟩, i2⟩

theorem mono_lower (cover : Bool) (bevs : List BEv) :
    Mono 0 (lower cover bevs) ∧ lastCol 0 (lower cover bevs) ≤ (lowerEnd cover {} bevs).gc :=
  mono_lowerFrom cover bevs {} 0 (by simp) (by simp)

/-! ## the joined file is in order -/

theorem mono_shift (evs : List Ev) (δ : Shift) (lo : Int) (h : Mono lo evs) :
    Mono (lo + δ.c) (shiftEvs δ evs) ∧
      lastCol (lo + δ.c) (shiftEvs δ evs) = lastCol lo evs + (if hasNl evs then 0 else δ.c) := by
  induction evs generalizing δ lo with
  | nil => simp [shiftEvs, Mono, lastCol, hasNl]
  | cons e es ih =>
    cases e with
    | nl =>
      obtain ⟨i1, i2⟩ := ih δ.noCol 0 h
      have hz : (0 : Int) + δ.noCol.c = 0 := by simp [Shift.noCol]
      rw [hz] at i1 i2
      simp only [shiftEvs, Mono, lastCol, hasNl, ↓reduceIte, Int.add_zero]
      refine ⟨i1, ?_⟩
      rw [i2]; split <;> simp [Shift.noCol]
    | seg c o =>
      obtain ⟨i1, i2⟩ := ih δ c h.2
      simp only [shiftEvs, Mono, lastCol, hasNl]
      exact ⟨⟨by have := h.1; omega, i1⟩, i2⟩

theorem mono_nls (K : Nat) (lo : Int) (evs : List Ev) :
    (Mono lo (List.replicate K Ev.nl ++ evs) ↔ Mono (if K = 0 then lo else 0) evs) ∧
      lastCol lo (List.replicate K Ev.nl ++ evs) = lastCol (if K = 0 then lo else 0) evs := by
  induction K generalizing lo with
  | zero => simp
  | succ n ih =>
    obtain ⟨i1, i2⟩ := ih 0
    simp only [List.replicate_succ, List.cons_append, Mono, lastCol, i1, i2]
    simp

/-- what makes a piece of the joined file orderly: its own segments in order, not beyond the end of its text,
and it is placed to the right of (or below) the end of the text before -/
structure Piece.orderly (p : Piece) : Prop where
  mono : Mono 0 p.evs
  last : lastCol 0 p.evs ≤ p.extent.columns
  lines : 0 ≤ p.offsetLC.lines
  cols : 0 ≤ p.offsetLC.columns

theorem add_columns (a b : LineCol) : (a.add b).columns = if b.lines = 0 then a.columns + b.columns else b.columns := by
  unfold LineCol.add; split <;> rfl

theorem mono_joined (ps : List Piece) (hord : ∀ p ∈ ps, p.orderly) (E : LineCol) (names : Int) (lo : Int)
    (hlo : lo ≤ E.columns) : Mono lo (joinedEvs E names ps) := by
  induction ps generalizing E names lo with
  | nil => trivial
  | cons p ps ih =>
    obtain ⟨hm, hl, hlines, hcols⟩ := hord p (by simp)
    simp only [joinedEvs, mono_append]
    have hSc := add_columns E p.offsetLC
    unfold pieceEvs pieceEnd
    generalize E.add p.offsetLC = S at *
    -- the piece itself
    obtain ⟨n1, n2⟩ := mono_nls p.offsetLC.lines.toNat lo (shiftEvs ⟨S.columns, p.src, 0, 0, names⟩ p.evs)
    obtain ⟨s1, s2⟩ := mono_shift p.evs ⟨S.columns, p.src, 0, 0, names⟩ 0 hm
    simp only [Int.zero_add] at s1 s2
    have hK : p.offsetLC.lines.toNat = 0 ↔ p.offsetLC.lines = 0 := by omega
    have hle : (if p.offsetLC.lines.toNat = 0 then lo else 0) ≤ S.columns := by
      rw [hSc]
      by_cases h0 : p.offsetLC.lines = 0
      · simp [h0]; omega
      · simp [h0, hK]; omega
    constructor
    · rw [n1]
      exact mono_le _ _ _ hle s1
    · apply ih (fun q hq => hord q (by simp [hq]))
      rw [n2]
      have h3 := lastCol_le (shiftEvs ⟨S.columns, p.src, 0, 0, names⟩ p.evs) _ _ hle
      rw [s2] at h3
      rw [add_columns, Piece.extent_lines]
      rw [hasNl_iff] at h3
      by_cases h0 : nlCount p.evs = 0
      · simp [h0] at h3 ⊢; omega
      · simp [h0] at h3 ⊢; omega

theorem Piece.orderly_of_ok (p : Piece) (hok : p.ok) (hcols : 0 ≤ p.offsetLC.columns) : p.orderly := by
  cases p with
  | chunk cover bevs off si q =>
    obtain ⟨h1, h2⟩ := mono_lower cover bevs
    exact ⟨h1, h2, hok.2, hcols⟩
  | null si =>
    exact ⟨by simp [Piece.evs, Mono], by simp [Piece.evs, Piece.extent, lastCol], by simp [Piece.offsetLC], hcols⟩

end EsbuildModel.SmJoin
