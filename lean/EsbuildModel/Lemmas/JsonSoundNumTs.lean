import EsbuildModel.Lemmas.JsonSoundNum
/-
Soundness for numbers (tsconfig flavour): the NumericLiteral a TNumericLiteral token covers is never one of the
`0789.5` forms (a legacy-octal-like integer part followed by a fraction or an exponent), because after `0` and an
octal digit the lexer reads digits only.
-/
namespace EsbuildModel.Json
open EsbuildModel.Spec.Json EsbuildModel.Spec.NumLit EsbuildModel.Spec.Num EsbuildModel.LexNum

theorem runOK_all {isD : Char → Bool} : ∀ (run : List Char) (p p' : Bool), runOK isD p run = some p' →
    (∀ c ∈ run, c ≠ '_') → ∀ c ∈ run, isD c = true := by
  intro run
  induction run with
  | nil => intro p p' _ _ c hc; cases hc
  | cons a t ih =>
    intro p p' h hn c hc
    have ha : a ≠ '_' := hn a (by simp)
    by_cases hd : isD a = true
    · simp only [runOK, hd, if_true] at h
      rcases List.mem_cons.1 hc with rfl | hc
      · exact hd
      · exact ih _ _ h (fun x hx => hn x (List.mem_cons_of_mem _ hx)) c hc
    · simp only [runOK, hd, ha, if_false] at h
      cases h

theorem intD_legacy_digit {c : Char} (h : intD 8 true c = true) : c ≠ '.' ∧ c ≠ 'e' ∧ c ≠ 'E' := by
  refine ⟨?_, ?_, ?_⟩ <;> (rintro rfl; revert h; decide)

theorem mem_fracText_dot {f : Option (List Char)} (h : f.isSome = true) : '.' ∈ fracText f := by
  cases f with
  | none => cases h
  | some g => simp [fracText]

theorem mem_expSText_e {e : Option ExpS} (h : e.isSome = true) : 'e' ∈ expSText e ∨ 'E' ∈ expSText e := by
  cases e with
  | none => cases h
  | some x =>
    simp only [expSText]
    cases x.upper
    · left; simp
    · right; simp

/-- **the Lit of a number token has no tail behind a legacy-octal-like integer part** -/
theorem lexNum_no_tail {P : LexNum.Params} {src : List Char} {len : Nat} {v : F64} {lg : Bool} (h : lexNum P src = .num len v lg)
    {l : Lit} (hv : l.valid = true) (hr : l.render = src.take len) : legacyIntWithTail l = false := by
  cases hl : legacyIntWithTail l with
  | false => rfl
  | true =>
    exfalso
    -- the shape of `l`
    cases l with
    | dec i f e =>
      rcases i with _ | ⟨a, _ | ⟨b, i'⟩⟩
      · simp [legacyIntWithTail] at hl
      · simp [legacyIntWithTail] at hl
      · simp only [legacyIntWithTail, Bool.and_eq_true, beq_iff_eq, Bool.or_eq_true] at hl
        obtain ⟨⟨ha, hb⟩, hfe⟩ := hl
        subst ha
        have hbo : 48 ≤ b.toNat ∧ b.toNat ≤ 55 := by simpa [Spec.Json.isOctDigit] using hb
        have hrender : (Lit.dec ('0' :: b :: i') f e).render = '0' :: b :: (i' ++ (fracText f ++ expSText e)) := by
          simp [Lit.render]
        rw [hrender] at hr
        -- the source starts with `0` and an octal digit
        obtain ⟨rest, hsrc⟩ : ∃ rest, src = '0' :: b :: rest := by
          rcases src with _ | ⟨x, _ | ⟨y, r⟩⟩
          · cases len <;> simp at hr
          · cases len with
            | zero => simp at hr
            | succ k => cases k <;> simp at hr
          · cases len with
            | zero => simp at hr
            | succ k =>
              cases k with
              | zero => simp at hr
              | succ k' =>
                simp only [List.take_succ_cons, List.cons.injEq] at hr
                exact ⟨r, by rw [hr.1, hr.2.1]⟩
        subst hsrc
        -- which branch of the lexer
        rcases lexNum_cases P ('0' :: b :: rest) with ⟨r, h1, _⟩ | h1 | ⟨first, r, h1, _, hz, _⟩ | ⟨rd, u, cs, h1, _⟩ | ⟨r, h1, h2⟩
        · cases h1
        · rw [h1] at h; cases h
        · simp only [List.cons.injEq] at h1
          obtain ⟨rfl, rfl⟩ := h1
          exact (hz rfl b rest rfl).1 hbo
        · simp only [List.cons.injEq] at h1
          obtain ⟨_, hb', _⟩ := h1
          cases rd <;> cases u <;> (rw [hb'] at hbo; revert hbo; decide)
        · simp only [List.cons.injEq, true_and] at h1
          subst h1
          rw [h2] at h
          obtain ⟨r', s, inv, x, hloop, hfin⟩ := basePath_cases h (by intro p hp; cases hp)
          simp only [if_true] at hloop
          obtain ⟨run, hseg, hrun, _, _, hnus, _, _⟩ := intLoop_ok inv_st1 hloop
          have hlen : len = s.end_ := by
            rcases hfin with ⟨_, _, hf⟩ | ⟨_, hf⟩
            · exact (finish_num hf.symm).2.1
            · exact (finish_num hf.symm).2.1
          have hend : s.end_ = 1 + run.length := by rw [hseg.end_]; rfl
          have hsplit := hseg.split
          -- the consumed text is `0` followed by `run`
          have htake : ('0' :: b :: rest).take len = '0' :: run := by
            rw [hlen, hend, Nat.add_comm, List.take_succ_cons, hsplit, List.take_left']
            rfl
          rw [htake] at hr
          simp only [List.cons.injEq, true_and] at hr
          have hall := runOK_all run _ _ hrun (hnus rfl)
          have hmem : ∀ c, c ∈ fracText f ++ expSText e → c ∈ run := by
            intro c hc
            rw [← hr]
            exact List.mem_cons_of_mem _ (List.mem_append_right _ hc)
          rcases hfe with hf | he
          · have := intD_legacy_digit (hall '.' (hmem '.' (List.mem_append_left _ (mem_fracText_dot hf))))
            exact this.1 rfl
          · rcases mem_expSText_e he with he | he
            · have := intD_legacy_digit (hall 'e' (hmem 'e' (List.mem_append_right _ he)))
              exact this.2.1 rfl
            · have := intD_legacy_digit (hall 'E' (hmem 'E' (List.mem_append_right _ he)))
              exact this.2.2 rfl
    | legacyOctal ds => simp [legacyIntWithTail] at hl
    | nonDec r u ds => simp [legacyIntWithTail] at hl
    | bigDec ds => simp [legacyIntWithTail] at hl
    | bigNonDec r u ds => simp [legacyIntWithTail] at hl

end EsbuildModel.Json
