import EsbuildModel.Lemmas.Glob
/-
More lemmas for Props/C04Glob.lean: when the implemented dialect coincides with the specified one, the UTF-8 layer.
-/
namespace EsbuildModel.Glob
open EsbuildModel.Spec.MiniRegex
open EsbuildModel.Spec.Glob (Tok tokOf matchToks starLoop dirsLoop deepLoop)

/-- the last token is not `**/` -/
def lastNotDirs : List Tok → Bool
  | [] => true
  | [t] => t != .dirs
  | _ :: t :: ts => lastNotDirs (t :: ts)

theorem lastNotDirs_tail (t : Tok) (ts : List Tok) (h : lastNotDirs (t :: ts) = true) : lastNotDirs ts = true := by
  cases ts with
  | nil => rfl
  | cons t2 ts => exact h

/-- every path is "zero or more directories" followed by a slash-free rest -/
theorem split_last_slash (w : List Nat) : ∃ d seg, w = d ++ seg ∧ DirsForm d ∧ ∀ c ∈ seg, c ≠ 47 := by
  induction w with
  | nil => exact ⟨[], [], rfl, Or.inl rfl, by simp⟩
  | cons x xs ih =>
    obtain ⟨d, seg, rfl, hd, hseg⟩ := ih
    cases d with
    | nil =>
      by_cases hx : x = 47
      · subst hx
        exact ⟨[47], seg, rfl, Or.inr rfl, hseg⟩
      · refine ⟨[], x :: seg, rfl, Or.inl rfl, ?_⟩
        intro c hc
        rcases List.mem_cons.mp hc with rfl | hc
        · exact hx
        · exact hseg c hc
    | cons y d =>
      refine ⟨x :: y :: d, seg, rfl, Or.inr ?_, hseg⟩
      rcases hd with hd | hd
      · simp at hd
      · rw [List.getLast?_cons_cons]; exact hd

/-- a pattern rest that matches the empty path and does not end with `**/` matches every slash-free segment -/
theorem nullable_eats_seg (ts : List Tok) (hne : ts ≠ []) (hl : lastNotDirs ts = true)
    (h0 : matchToks ts [] = true) (seg : List Nat) (hseg : ∀ c ∈ seg, c ≠ 47) : matchToks ts seg = true := by
  induction ts with
  | nil => exact absurd rfl hne
  | cons t ts ih =>
    cases ts with
    | nil =>
      cases t with
      | lit c => simp [matchToks_lit] at h0
      | one => simp [matchToks_one] at h0
      | star => rw [matchToks_star, starLoop_iff]; exact ⟨seg, [], by simp, hseg, rfl⟩
      | dirs => simp [lastNotDirs] at hl
      | deep => rw [matchToks_deep, deepLoop_iff]; exact ⟨seg, [], by simp, rfl⟩
    | cons t2 rest =>
      have ih' := fun h => ih (by simp) hl h
      cases t with
      | lit c => simp [matchToks_lit] at h0
      | one => simp [matchToks_one] at h0
      | star =>
        rw [matchToks_star] at h0 ⊢
        rw [starLoop_iff]
        exact ⟨[], seg, rfl, by simp, ih' (by simpa [starLoop] using h0)⟩
      | dirs =>
        rw [matchToks_dirs] at h0 ⊢
        rw [dirsLoop_iff]
        exact ⟨[], seg, rfl, Or.inl ⟨rfl, rfl⟩, ih' (by simpa [dirsLoop] using h0)⟩
      | deep =>
        rw [matchToks_deep] at h0 ⊢
        rw [deepLoop_iff]
        exact ⟨[], seg, rfl, ih' (by simpa [deepLoop] using h0)⟩

/-- **exactness**: without `?`, and when the pattern does not end with `**/`, the implemented dialect IS the
specified one -/
theorem codeMatch_eq_spec (ts : List Tok) (h1 : Tok.one ∉ ts) (h2 : lastNotDirs ts = true) (h3 : deepLast ts = true) :
    ∀ w, codeMatch (ts.map ofSpecTok) w = matchToks ts w := by
  induction ts with
  | nil => intro w; rfl
  | cons t ts ih =>
    have h1' : Tok.one ∉ ts := fun h => h1 (List.mem_cons_of_mem _ h)
    have h2' := lastNotDirs_tail t ts h2
    intro w
    cases t with
    | lit c =>
      have hf : codeMatch (ts.map ofSpecTok) = matchToks ts := funext (ih h1' h2' h3)
      simp only [List.map_cons, ofSpecTok, codeMatch_lit, matchToks_lit, hf]
    | one => exact absurd (by simp) h1
    | star =>
      have hf : codeMatch (ts.map ofSpecTok) = matchToks ts := funext (ih h1' h2' h3)
      simp only [List.map_cons, ofSpecTok, codeMatch_star, matchToks_star, hf]
    | dirs =>
      have hf : codeMatch (ts.map ofSpecTok) = matchToks ts := funext (ih h1' h2' h3)
      simp only [List.map_cons, ofSpecTok, codeMatch_gstar, matchToks_dirs, hf]
      cases h0 : matchToks ts [] with
      | false => simp
      | true =>
        rw [Bool.or_true]
        symm
        have hne : ts ≠ [] := by
          intro h; subst h; simp [lastNotDirs] at h2
        obtain ⟨d, seg, rfl, hd, hseg⟩ := split_last_slash w
        rw [dirsLoop_iff]
        refine ⟨d, seg, rfl, ?_, nullable_eats_seg ts hne h2' h0 seg hseg⟩
        rcases hd with hd | hd
        · exact Or.inl ⟨hd, rfl⟩
        · exact Or.inr hd
    | deep =>
      have hts : ts = [] := by simpa [deepLast] using h3
      subst hts
      simp only [List.map_cons, List.map_nil, ofSpecTok, codeMatch_gstar, codeMatch_nil, matchToks_deep, List.isEmpty_nil,
        Bool.or_true]
      symm
      rw [deepLoop_iff]
      exact ⟨w, [], by simp, rfl⟩

theorem lastNotDirs_iff (ts : List Tok) : lastNotDirs ts = true ↔ ts.getLast? ≠ some .dirs := by
  induction ts with
  | nil => simp [lastNotDirs]
  | cons t ts ih =>
    cases ts with
    | nil => cases t <;> simp [lastNotDirs]
    | cons t2 ts => rw [List.getLast?_cons_cons, ← ih]; rfl

end EsbuildModel.Glob
