import EsbuildModel.Lemmas.JsonStrTs
/-
One item of a string body: the scanner steps over exactly its text, and the decoder appends exactly its code units.
-/
namespace EsbuildModel.Json
open EsbuildModel.Spec.Json

/-- **one item of a string body**, scanner and decoder -/
theorem schar_complete (fl : Flavor) (it : SChar) (tl : List Char) (hok : it.ok (dialectOf fl) tl.head? = true)
    (rest : List Cp) (hrest : tl.head? ≠ some '\n' → headIs rest (· == '\n') = false) (pos p : Nat) :
    scanStr fl '"' (cps it.render ++ rest) pos =
        (scanStr fl '"' rest (pos + widths (cps it.render))).cons (cps it.render) (!scharFast it) ∧
      decodeEsc fl .normal (cps (it.render ++ tl)) p =
        (decodeEsc fl .normal (cps tl) (p + widths (cps it.render))).cons it.units ∧
      (scharFast it = true → it.render.map Char.toNat = it.units) := by
  cases it with
  | lit c =>
    simp only [SChar.ok, Bool.and_eq_true, bne_iff_ne, ne_eq] at hok
    obtain ⟨⟨h1, h2⟩, h3⟩ := hok
    have hcr : c ≠ '\r' ∧ c ≠ '\n' ∧ (c.toNat ≥ 0x80 ∨ ¬ (fl = .json ∧ c.toNat < 0x20)) := by
      cases fl
      · have : c.toNat ≥ 0x20 := by simpa [dialectOf, esbuildStrict, rfc8259] using h3
        refine ⟨?_, ?_, Or.inr (by omega)⟩ <;> (rintro rfl; revert this; decide)
      · have : ¬ (c = '\n' ∨ c = '\r') := by simpa [dialectOf, esbuildTsconfig] using h3
        exact ⟨fun h => this (Or.inr h), fun h => this (Or.inl h), Or.inr (by simp)⟩
    refine ⟨?_, ?_, ?_⟩
    · simp only [SChar.render, cps_cons, cps_nil, List.cons_append, List.nil_append]
      rw [scanStr_plain fl (cpOf c) rest pos h2 hcr.1 hcr.2.1 h1 hcr.2.2]
      congr 1
      simp only [scharFast]
      by_cases h : c.toNat < 128 <;> simp [h] <;> omega
    · simp only [SChar.render, List.cons_append, List.nil_append, cps_cons, cps_nil]
      rw [decodeEsc_plain fl (cpOf c) _ p hcr.1 h2, cpOf_c, unitsOf_eq _ (char_le c)]
      simp [SChar.units]
    · intro hf
      simp only [scharFast, decide_eq_true_eq] at hf
      simp [SChar.render, SChar.units, Spec.Unicode.utf16]
      omega
  | esc c =>
    refine ⟨?_, ?_, by simp [scharFast]⟩
    · simp only [SChar.render, cps_cons, cps_nil, List.cons_append, List.nil_append]
      have hnr : ¬ ((cpOf c).c = '\r' ∧ fl ≠ .json) := by
        rintro ⟨h, hfl⟩
        simp only [cpOf_c] at h; subst h
        cases fl
        · exact hfl rfl
        · revert hok; simp [SChar.ok, dialectOf, esbuildTsconfig, rfcEscape, jsEscapeLead, isLT]
      rw [scanStr_bs fl '"' (cpOf '\\') (cpOf c) rest pos rfl hnr]
      simp [scharFast, Nat.add_assoc]
    · simp only [SChar.render, List.cons_append, List.nil_append, cps_cons, cps_nil]
      by_cases hr : (rfcEscape c).isSome = true
      · obtain ⟨u, hu⟩ := Option.isSome_iff_exists.mp hr
        rw [decodeEsc_simple fl (cpOf '\\') (cpOf c) _ p rfl u (Or.inl hu)]
        have hle : u ≤ 0xFFFF := by
          simp only [rfcEscape] at hu
          repeat' split at hu
          all_goals first | (cases hu; omega) | cases hu
        simp [SChar.units, hu, Spec.Unicode.utf16, hle, Nat.add_assoc]
      · have hr' : rfcEscape c = none := by
          cases h : rfcEscape c with
          | none => rfl
          | some v => rw [h] at hr; simp at hr
        by_cases h89 : c = '8' ∨ c = '9'
        · rw [decodeEsc_simple fl (cpOf '\\') (cpOf c) _ p rfl c.toNat (Or.inr ⟨h89, rfl⟩)]
          rcases h89 with rfl | rfl <;> simp [SChar.units, rfcEscape, Spec.Unicode.utf16, Nat.add_assoc]
        · cases fl
          · simp only [not_or] at h89
            simp [SChar.ok, hr', dialectOf, esbuildStrict, rfc8259, h89.1, h89.2] at hok
          · have hjs : c = 'v' ∨ jsEscapeLead c = false := by
              simp only [not_or] at h89
              by_cases hv : c = 'v'
              · exact Or.inl hv
              · right
                cases hj : jsEscapeLead c with
                | false => rfl
                | true => simp [SChar.ok, hr', dialectOf, esbuildTsconfig, h89.1, h89.2, hv, hj] at hok
            rcases hjs with rfl | hjs
            · rw [decodeEsc_v (cpOf '\\') (cpOf 'v') _ p rfl rfl]
              simp [SChar.units, rfcEscape, Spec.Unicode.utf16, Nat.add_assoc]
            · simp only [jsEscapeLead, Bool.or_eq_false_iff, beq_eq_false_iff_ne, ne_eq, Bool.and_eq_false_iff,
                decide_eq_false_iff_not, isLT] at hjs
              obtain ⟨⟨⟨⟨hu, hx⟩, hv⟩, hdig⟩, ⟨⟨hn, hcr⟩, h28⟩, h29⟩ := hjs
              have hnr : c ≠ 'b' ∧ c ≠ 'f' ∧ c ≠ 'n' ∧ c ≠ 'r' ∧ c ≠ 't' ∧ c ≠ 'v' := by
                simp only [rfcEscape] at hr'
                refine ⟨?_, ?_, ?_, ?_, ?_, hv⟩ <;> (rintro rfl; simp at hr')
              rw [decodeEsc_default .tsconfig (cpOf '\\') (cpOf c) _ p rfl hnr (by simp only [cpOf_c]; rcases hdig with h | h <;> omega) ⟨hx, hu⟩
                ⟨hcr, hn, h28, h29⟩ (fun h => by cases h)]
              simp [SChar.units, hr', hv, unitsOf_eq _ (char_le c), Nat.add_assoc]
  | u a b c d =>
    simp only [SChar.ok, Bool.and_eq_true] at hok
    obtain ⟨⟨⟨ha, hb⟩, hc⟩, hd⟩ := hok
    refine ⟨?_, ?_, by simp [scharFast]⟩
    · have hne : ∀ x, isHexDigit x = true → x ≠ '\\' ∧ x ≠ '\r' ∧ x ≠ '\n' ∧ x ≠ '"' ∧ x.toNat < 0x80 ∧ ¬ x.toNat < 0x20 := by
        intro x hx
        simp only [isHexDigit, Spec.Num.hexVal?] at hx
        have hr : (48 ≤ x.toNat ∧ x.toNat ≤ 57) ∨ (97 ≤ x.toNat ∧ x.toNat ≤ 102) ∨ (65 ≤ x.toNat ∧ x.toNat ≤ 70) := by
          by_cases h1 : 48 ≤ x.toNat ∧ x.toNat ≤ 57
          · exact Or.inl h1
          · by_cases h2 : 97 ≤ x.toNat ∧ x.toNat ≤ 102
            · exact Or.inr (Or.inl h2)
            · by_cases h3 : 65 ≤ x.toNat ∧ x.toNat ≤ 70
              · exact Or.inr (Or.inr h3)
              · simp [h1, h2, h3] at hx
        refine ⟨?_, ?_, ?_, ?_, by omega, by omega⟩ <;> (rintro rfl; revert hr; decide)
      simp only [SChar.render, cps_cons, cps_nil, List.cons_append, List.nil_append]
      rw [scanStr_bs fl '"' (cpOf '\\') (cpOf 'u') _ pos rfl (by simp)]
      obtain ⟨a1, a2, a3, a4, a5, a6⟩ := hne a ha
      obtain ⟨b1, b2, b3, b4, b5, b6⟩ := hne b hb
      obtain ⟨c1, c2, c3, c4, c5, c6⟩ := hne c hc
      obtain ⟨d1, d2, d3, d4, d5, d6⟩ := hne d hd
      rw [scanStr_plain fl (cpOf a) _ _ a1 a2 a3 a4 (Or.inr (fun h => a6 h.2)),
        scanStr_plain fl (cpOf b) _ _ b1 b2 b3 b4 (Or.inr (fun h => b6 h.2)),
        scanStr_plain fl (cpOf c) _ _ c1 c2 c3 c4 (Or.inr (fun h => c6 h.2)),
        scanStr_plain fl (cpOf d) _ _ d1 d2 d3 d4 (Or.inr (fun h => d6 h.2))]
      simp only [StrScan.cons_cons, cpOf_c]
      simp [scharFast, Nat.add_assoc, Nat.not_le.mpr a5, Nat.not_le.mpr b5, Nat.not_le.mpr c5, Nat.not_le.mpr d5]
    · simp only [SChar.render, cps_append]
      rw [decodeEsc_u fl a b c d ha hb hc hd]
      simp [SChar.units]
  | x a b =>
    have hts : fl = .tsconfig := by
      cases fl
      · simp [SChar.ok, dialectOf, esbuildStrict, rfc8259] at hok
      · rfl
    subst hts
    simp only [SChar.ok, Bool.and_eq_true] at hok
    obtain ⟨⟨_, ha⟩, hb⟩ := hok
    refine ⟨?_, ?_, by simp [scharFast]⟩
    · simp only [SChar.render, cps_cons, cps_nil, List.cons_append, List.nil_append]
      rw [scanStr_bs .tsconfig '"' (cpOf '\\') (cpOf 'x') _ pos rfl (by simp)]
      have := scanStr_plains .tsconfig [a, b] (by
        intro c hc; simp at hc; rcases hc with rfl | rfl
        · exact hex_plain_facts ha
        · exact hex_plain_facts hb) rest (pos + (cpOf '\\').w + (cpOf 'x').w)
      simp only [cps_cons, cps_nil, List.cons_append, List.nil_append] at this
      rw [this]
      simp [StrScan.cons_cons, scharFast, Nat.add_assoc]
    · have hl1 := hexD_lt a; have hl2 := hexD_lt b
      simp only [SChar.render, List.cons_append, List.nil_append, cps_cons, cps_nil]
      rw [decodeEsc_x (cpOf '\\') (cpOf 'x') (cpOf a) (cpOf b) _ p rfl rfl _ _ (hexVal_of_isHexDigit ha)
        (hexVal_of_isHexDigit hb)]
      simp only [cpOf_c]
      rw [unitsOf_small _ (by omega)]
      simp [SChar.units, Nat.add_assoc]
  | ubrace ds =>
    have hts : fl = .tsconfig := by
      cases fl
      · simp [SChar.ok, dialectOf, esbuildStrict, rfc8259] at hok
      · rfl
    subst hts
    simp only [SChar.ok, Bool.and_eq_true, Bool.not_eq_true', List.isEmpty_eq_false_iff, List.all_eq_true,
      decide_eq_true_eq] at hok
    obtain ⟨⟨⟨_, hne⟩, hds⟩, hle⟩ := hok
    refine ⟨?_, ?_, by simp [scharFast]⟩
    · simp only [SChar.render, cps_cons, cps_append, cps_nil, List.cons_append, List.append_assoc, List.nil_append]
      rw [scanStr_bs .tsconfig '"' (cpOf '\\') (cpOf 'u') _ pos rfl (by simp)]
      have := scanStr_plains .tsconfig ('{' :: (ds ++ ['}'])) (by
        intro c hc
        simp only [List.mem_cons, List.mem_append, List.not_mem_nil, or_false] at hc
        rcases hc with rfl | hc | rfl
        · exact ⟨by decide, by decide, by decide, by decide, by decide, by decide⟩
        · exact hex_plain_facts (hds c hc)
        · exact ⟨by decide, by decide, by decide, by decide, by decide, by decide⟩) rest
        (pos + (cpOf '\\').w + (cpOf 'u').w)
      simp only [cps_cons, cps_append, cps_nil, List.cons_append, List.append_assoc, List.nil_append] at this
      rw [this]
      simp [StrScan.cons_cons, scharFast, widths_append, Nat.add_assoc]
    · simp only [SChar.render, List.cons_append, List.append_assoc, List.nil_append, cps_cons, cps_append, cps_nil]
      rw [decodeEsc_ubrace (cpOf '\\') (cpOf 'u') (cpOf '{') ds hds hne hle _ p rfl rfl rfl,
        unitsOf_eq _ hle]
      simp [SChar.units, widths_append, Nat.add_assoc]
  | oct ds =>
    have hts : fl = .tsconfig := by
      cases fl
      · simp [SChar.ok, dialectOf, esbuildStrict, rfc8259] at hok
      · rfl
    subst hts
    simp only [SChar.ok, Bool.and_eq_true, List.all_eq_true] at hok
    obtain ⟨⟨_, hoct⟩, hshape⟩ := hok
    have hoc : ∀ c ∈ ds, isOct c = true := hoct
    have hscan : scanStr .tsconfig '"' (cps (SChar.oct ds).render ++ rest) pos =
        (scanStr .tsconfig '"' rest (pos + widths (cps (SChar.oct ds).render))).cons (cps (SChar.oct ds).render) true := by
      cases ds with
      | nil => simp at hshape
      | cons a t =>
        simp only [SChar.render, cps_cons, List.cons_append]
        rw [scanStr_bs .tsconfig '"' (cpOf '\\') (cpOf a) _ pos rfl (by
          have := (oct_plain_facts (hoct a (by simp))).2.1
          simp [this])]
        rw [scanStr_plains .tsconfig t (fun c hc => oct_plain_facts (hoct c (List.mem_cons_of_mem _ hc))) rest]
        simp [StrScan.cons_cons, Nat.add_assoc]
    refine ⟨by simpa [scharFast] using hscan, ?_, by simp [scharFast]⟩
    rcases ds with _ | ⟨a, _ | ⟨b, _ | ⟨c, _ | ⟨d, t⟩⟩⟩⟩
    · simp at hshape
    · -- one digit
      have hn : headIs (cps tl) isOct = false := by
        rw [headIs_cps]
        have e : Spec.Json.isOctDigit = isOct := rfl
        rw [e] at hshape
        simpa using hshape
      have ha := hoc a (by simp)
      have hr : 48 ≤ a.toNat ∧ a.toNat ≤ 55 := by simpa [isOct] using ha
      simp only [SChar.render, List.cons_append, List.nil_append, cps_cons, cps_nil]
      rw [decodeEsc_oct1 (cpOf '\\') (cpOf a) _ p rfl ha hn, cpOf_c, unitsOf_small _ (by omega)]
      simp [SChar.units, octMV, Nat.add_assoc]
    · -- two digits
      have ha := hoc a (by simp); have hb := hoc b (by simp)
      have hra : 48 ≤ a.toNat ∧ a.toNat ≤ 55 := by simpa [isOct] using ha
      have hrb : 48 ≤ b.toNat ∧ b.toNat ≤ 55 := by simpa [isOct] using hb
      have hn : headIs (cps tl) (fun c4 => isOct c4 && decide (((a.toNat - 48) * 8 + (b.toNat - 48)) * 8 + (c4.toNat - 48) < 256)) = false := by
        rw [headIs_cps]
        simp only [Bool.or_eq_true, decide_eq_true_eq, Bool.not_eq_true'] at hshape
        cases htl : tl.head? with
        | none => rfl
        | some x =>
          simp only [Option.map_some, Option.getD_some, Bool.and_eq_false_iff, decide_eq_false_iff_not, Nat.not_lt]
          rcases hshape with h | h
          · right; omega
          · left; rw [htl] at h; simpa [Spec.Json.isOctDigit, isOct] using h
      simp only [SChar.render, List.cons_append, List.nil_append, cps_cons, cps_nil]
      rw [decodeEsc_oct2 (cpOf '\\') (cpOf a) (cpOf b) _ p rfl ha hb hn, cpOf_c, cpOf_c, unitsOf_small _ (by omega)]
      simp [SChar.units, octMV, Nat.add_assoc]
    · -- three digits
      have ha := hoc a (by simp); have hb := hoc b (by simp); have hc := hoc c (by simp)
      have hra : 48 ≤ a.toNat ∧ a.toNat ≤ 55 := by simpa [isOct] using ha
      have hrb : 48 ≤ b.toNat ∧ b.toNat ≤ 55 := by simpa [isOct] using hb
      have hrc : 48 ≤ c.toNat ∧ c.toNat ≤ 55 := by simpa [isOct] using hc
      have h3 : a.toNat ≤ 51 := by simpa using hshape
      simp only [SChar.render, List.cons_append, List.nil_append, cps_cons, cps_nil]
      rw [decodeEsc_oct3 (cpOf '\\') (cpOf a) (cpOf b) (cpOf c) _ p rfl ha hb hc (by simp only [cpOf_c]; omega),
        cpOf_c, cpOf_c, cpOf_c, unitsOf_small _ (by omega)]
      simp [SChar.units, octMV, Nat.add_assoc]
    · simp at hshape
  | cont lt =>
    have hts : fl = .tsconfig := by
      cases fl
      · simp [SChar.ok, dialectOf, esbuildStrict, rfc8259] at hok
      · rfl
    subst hts
    simp only [SChar.ok, Bool.and_eq_true, Bool.or_eq_true, decide_eq_true_eq, bne_iff_ne, ne_eq] at hok
    obtain ⟨_, hlt⟩ := hok
    rcases hlt with (((hlt | hlt) | hlt) | hlt) | ⟨hlt, hnext⟩
    · subst hlt
      refine ⟨?_, ?_, by simp [scharFast]⟩
      · simp only [SChar.render, cps_cons, cps_nil, List.cons_append, List.nil_append]
        rw [scanStr_bs .tsconfig '"' (cpOf '\\') (cpOf '\n') _ pos rfl (by simp)]
        simp [scharFast, Nat.add_assoc]
      · simp only [SChar.render, List.cons_append, List.nil_append, cps_cons, cps_nil]
        rw [decodeEsc_cont1 (cpOf '\\') (cpOf '\n') _ p rfl (Or.inl rfl)]
        simp [SChar.units, Nat.add_assoc]
    · subst hlt
      refine ⟨?_, ?_, by simp [scharFast]⟩
      · simp only [SChar.render, cps_cons, cps_nil, List.cons_append, List.nil_append]
        rw [scanStr_crlf '"' (cpOf '\\') (cpOf '\r') (cpOf '\n') _ pos rfl rfl rfl]
        simp [scharFast, Nat.add_assoc]
      · simp only [SChar.render, List.cons_append, List.nil_append, cps_cons, cps_nil]
        rw [decodeEsc_contCRLF (cpOf '\\') (cpOf '\r') (cpOf '\n') _ p rfl rfl rfl]
        simp [SChar.units, Nat.add_assoc]
    · subst hlt
      refine ⟨?_, ?_, by simp [scharFast]⟩
      · simp only [SChar.render, cps_cons, cps_nil, List.cons_append, List.nil_append]
        rw [scanStr_bs .tsconfig '"' (cpOf '\\') (cpOf (Char.ofNat 0x2028)) _ pos rfl (by simp)]
        simp [scharFast, Nat.add_assoc]
      · simp only [SChar.render, List.cons_append, List.nil_append, cps_cons, cps_nil]
        rw [decodeEsc_cont1 (cpOf '\\') (cpOf (Char.ofNat 0x2028)) _ p rfl (Or.inr (Or.inl (by decide)))]
        simp [SChar.units, Nat.add_assoc]
    · subst hlt
      refine ⟨?_, ?_, by simp [scharFast]⟩
      · simp only [SChar.render, cps_cons, cps_nil, List.cons_append, List.nil_append]
        rw [scanStr_bs .tsconfig '"' (cpOf '\\') (cpOf (Char.ofNat 0x2029)) _ pos rfl (by simp)]
        simp [scharFast, Nat.add_assoc]
      · simp only [SChar.render, List.cons_append, List.nil_append, cps_cons, cps_nil]
        rw [decodeEsc_cont1 (cpOf '\\') (cpOf (Char.ofNat 0x2029)) _ p rfl (Or.inr (Or.inr (by decide)))]
        simp [SChar.units, Nat.add_assoc]
    · subst hlt
      refine ⟨?_, ?_, by simp [scharFast]⟩
      · simp only [SChar.render, cps_cons, cps_nil, List.cons_append, List.nil_append]
        rw [scanStr_cr '"' (cpOf '\\') (cpOf '\r') _ pos rfl rfl (hrest hnext)]
        simp [scharFast, Nat.add_assoc]
      · have hn : headIs (cps tl) (· == '\n') = false := by
          rw [headIs_cps]
          cases htl : tl.head? with
          | none => rfl
          | some x => rw [htl] at hnext; simpa using hnext
        simp only [SChar.render, List.cons_append, List.nil_append, cps_cons, cps_nil]
        rw [decodeEsc_contCR (cpOf '\\') (cpOf '\r') _ p rfl rfl hn]
        simp [SChar.units, Nat.add_assoc]


end EsbuildModel.Json
