import EsbuildModel.Lemmas.JsonSoundParse7
import EsbuildModel.Lemmas.JsonTop
/-
Soundness of the parser (either flavour): the induction, and `ParseJSON` as a whole — an accepted text is a text
of the dialect `(dialectOf fl)`, and the expression represents its derivation.
-/
namespace EsbuildModel.Json
open EsbuildModel.Spec.Json EsbuildModel.Spec.NumLit

section
variable {P : Params} {Rd : Rat → F64} (hP : ParamsOK P Rd) (o : Opts) {fl : Flavor} (hfl : o.flavor = fl)
include hP hfl

theorem parse_sound_step (n : Nat) (ih : SoundAt fl Rd o P n) {L : Lx} {inp : List Cp} {a : Ast} {L' : Lx}
    (hat : AtTok fl Rd L inp) (h : parseExpr o P (n + 1) L = .ok (a, L')) (hne : L'.log.hasErrors = false) :
    ValSound fl Rd o P inp a L' := by
  rw [parseExpr_succ, hfl] at h
  cases ht : L.tok <;> simp only [ht] at h
  case tTrue =>
    obtain ⟨L1, hn, h⟩ := R.bind_eq_ok h; cases h
    exact word_sound o hat hn .tt _ (Or.inl ⟨ht, rfl, rfl⟩)
  case tFalse =>
    obtain ⟨L1, hn, h⟩ := R.bind_eq_ok h; cases h
    exact word_sound o hat hn .ff _ (Or.inr (Or.inl ⟨ht, rfl, rfl⟩))
  case tNull =>
    obtain ⟨L1, hn, h⟩ := R.bind_eq_ok h; cases h
    exact word_sound o hat hn .null _ (Or.inr (Or.inr ⟨ht, rfl, rfl⟩))
  case num =>
    obtain ⟨L1, hn, h⟩ := R.bind_eq_ok h; cases h
    exact num_sound o hat hn ht
  case str =>
    obtain ⟨⟨u, L1⟩, hs, h⟩ := R.bind_eq_ok h
    obtain ⟨L2, hn, h⟩ := R.bind_eq_ok h; cases h
    exact str_sound o hat hs hn ht
  case minus =>
    obtain ⟨L1, hn1, h⟩ := R.bind_eq_ok h
    obtain ⟨L2, he, h⟩ := R.bind_eq_ok h; cases h
    obtain ⟨t, n2⟩ := expect_ok he
    exact minus_sound hP o hat hn1 t n2 ht hne
  case openBracket =>
    obtain ⟨L1, hn1, hl⟩ := R.bind_eq_ok h
    have hne1 : L1.log.hasErrors = false := noErr_of_le ((mono_step o P n).2.1 L1 _ _ _ hl) hne
    have hf := hat.1
    simp only [TokFacts, ht] at hf
    obtain ⟨s, inp1, k1, k2, k3⟩ := after_tok hP (after_of_tok hat hn1 (by rw [ht]; simp) (by rw [ht]; simp)) hne1
    rcases ih.2.2.2.1 L1 inp1 _ a L' k3 hl hne with ⟨rest, s', e1, e2, e3⟩ | ⟨v1, s2, t, av, asts, rest, s', e1, e2, e3, e4, e5, e6, e7, e8⟩
    · refine ⟨.arr0 s, rest, ?_, sepok_final k2 (nonempty_of_chars e1), ⟨s', e2⟩, e3⟩
      simp only [Val.render, List.cons_append, List.append_assoc, List.nil_append]
      rw [hf, k1, e1]
    · refine ⟨.arr (mkElems s v1 s2 t), rest, ?_, ?_, ⟨av :: asts, s', e5, mkElems_rep _ _ _ _ _ _ _ _ e6 e7⟩, e8⟩
      · simp only [Val.render, mkElems_render, List.cons_append, List.append_assoc, List.nil_append]
        rw [hf, k1, e1]
      · simp only [Val.ok, mkElems_ok, e2, e3, e4, Bool.and_true]
        apply sepok_final k2
        have := val_render_ne v1 e2
        cases hvr : v1.render with
        | nil => exact absurd hvr this
        | cons c x => rw [hvr] at e1; exact nonempty_of_chars e1
  case openBrace =>
    obtain ⟨L1, hn1, hl⟩ := R.bind_eq_ok h
    have hne1 : L1.log.hasErrors = false := noErr_of_le ((mono_step o P n).2.2 L1 _ _ _ _ hl) hne
    have hf := hat.1
    simp only [TokFacts, ht] at hf
    obtain ⟨s, inp1, k1, k2, k3⟩ := after_tok hP (after_of_tok hat hn1 (by rw [ht]; simp) (by rw [ht]; simp)) hne1
    rcases ih.2.2.2.2 L1 inp1 _ _ a L' k3 hl hne with ⟨rest, s', e1, e2, e3⟩ |
      ⟨k, s2, s3, v1, s4, t, av, asts, rest, s', e1, e2, e3, e4, e5, e6, e7, e8, e9, e10, e11⟩
    · refine ⟨.obj0 s, rest, ?_, sepok_final k2 (nonempty_of_chars e1), ⟨s', e2⟩, e3⟩
      simp only [Val.render, List.cons_append, List.append_assoc, List.nil_append]
      rw [hf, k1, e1]
    · refine ⟨.obj (mkMembers s k s2 s3 v1 s4 t), rest, ?_, ?_,
        ⟨propOf o.objExt k av :: asts, s', e8, mkMembers_rep _ _ _ _ _ _ _ _ _ _ _ e9 e10⟩, e11⟩
      · simp only [Val.render, mkMembers_render, List.cons_append, List.append_assoc, List.nil_append]
        rw [hf, k1, e1]
      · simp only [Val.ok, mkMembers_ok, e2, e3, e4, e5, e6, e7, Bool.and_true]
        apply sepok_final k2
        simp only [strTok, List.cons_append] at e1
        exact nonempty_of_chars e1
  all_goals cases h

theorem sound_step : ∀ n, SoundAt fl Rd o P n := by
  intro n
  induction n with
  | zero =>
    refine ⟨?_, ?_, ?_, ?_, ?_⟩
    · intro L inp a L' _ h; rw [parseExpr] at h; cases h
    · intro L inp items single a L' _ _ h; rw [arrLoop] at h; cases h
    · intro L inp props seen single a L' _ _ h; rw [objLoop] at h; cases h
    · intro L inp single a L' _ h; rw [arrLoop] at h; cases h
    · intro L inp seen single a L' _ h; rw [objLoop] at h; cases h
  | succ n ih =>
    refine ⟨?_, ?_, ?_, ?_, ?_⟩
    · intro L inp a L' hat h hne; exact parse_sound_step hP o hfl n ih hat h hne
    · intro L inp items single a L' hi hat h hne; exact arr_tail_sound hP o hfl n ih hi hat h hne
    · intro L inp props seen single a L' hi hat h hne; exact obj_tail_sound hP o hfl n ih hi hat h hne
    · intro L inp single a L' hat h hne; exact arr_first_sound hP o hfl n ih hat h hne
    · intro L inp seen single a L' hat h hne; exact obj_first_sound hP o hfl n ih hat h hne

omit hP hfl in
theorem accepted_inv {o : Opts} {P : Params} {bytes : List Nat} {ast : Ast} (h : (parseJSON o P bytes).accepted = some ast) :
    ∃ L L1 L2, newLexer o.flavor P bytes = .ok L ∧ parseExpr o P (fuelFor bytes) L = .ok (ast, L1) ∧
      expect o.flavor P L1 .eof = .ok L2 ∧ L2.log.hasErrors = false := by
  unfold parseJSON at h
  split at h
  · simp [Out.accepted] at h
  · simp [Out.accepted] at h
  · rename_i L hL
    split at h
    · simp [Out.accepted] at h
    · simp [Out.accepted] at h
    · rename_i a L1 hp
      split at h
      · simp [Out.accepted] at h
      · simp [Out.accepted] at h
      · rename_i L2 he
        simp only [Out.accepted] at h
        split at h
        · cases h
        · rename_i hno
          cases h
          refine ⟨L, L1, L2, hL, hp, he, ?_⟩
          simp only [Log.hasErrors]
          simpa using hno

/-- **soundness**: what the strict flavour accepts is a text of the dialect `(dialectOf fl)`, and the expression
represents the value of its derivation -/
theorem doc_sound (text : List Char) (ast : Ast) (h : (parseJSON o P (utf8Text text)).accepted = some ast) :
    ∃ t : Doc, t.ok (dialectOf fl) = true ∧ t.render = text ∧ RepV Rd o.objExt t.v ast := by
  obtain ⟨L, L1, L2, hL, hp, he, hne2⟩ := accepted_inv h
  rw [hfl] at hL he
  obtain ⟨teof, hn2⟩ := expect_ok he
  have hne1 : L1.log.hasErrors = false := noErr_of_le (next_log_le fl P L1 L2 hn2) hne2
  have hne0 : L.log.hasErrors = false := noErr_of_le ((mono_step o P _).1 L _ hp) hne1
  rw [newLexer_eq] at hL
  have hw : PosW (initLx (utf8Text text)).rest := by
    simp only [initLx, decodeRunes_utf8]; exact posW_cps text
  obtain ⟨s1, inp, k1, k2, k3, k4, k5⟩ := next_sound hP hL ⟨rfl, rfl⟩ hne0 hw
  have hat : AtTok fl Rd L inp := ⟨k4, k3, fun ho => by obtain ⟨a1, _, a3, a4⟩ := k5 ho; exact ⟨a1, a3, a4⟩⟩
  obtain ⟨v, rest, v1, v2, v3, v4⟩ := (sound_step hP o hfl (fuelFor (utf8Text text))).1 L inp ast L1 hat hp hne1
  obtain ⟨s2, inp2, m1, m2, m3⟩ := after_tok hP v4 hne1
  have hf := m3.1
  simp only [TokFacts, teof] at hf
  subst hf
  simp only [chars_nil, List.append_nil] at m1
  simp only [initLx, decodeRunes_utf8, chars_cps] at k1
  refine ⟨⟨s1, v, s2⟩, ?_, ?_, v3⟩
  · simp only [Doc.ok, v2, Bool.and_true, Bool.true_and]
    have h1 : Sep.ok (dialectOf fl) false true s1 = true := by
      have := k2
      simp only [initLx, beq_self_eq_true] at this
      apply sepok_final this
      have hvne := val_render_ne v v2
      cases hvr : v.render with
      | nil => exact absurd hvr hvne
      | cons c x => rw [hvr] at v1; exact nonempty_of_chars v1
    rw [h1]
    simpa using m2
  · simp only [Doc.render]
    rw [k1, v1, m1]

end
end EsbuildModel.Json
