import EsbuildModel.Lemmas.CssImportDupEq
import EsbuildModel.Lemmas.CssImportDedupe
/-!
Semantic lemmas for the two `@layer` passes: a piece that only repeats layer declarations which an earlier piece
already made (under implied conditions) can be dropped; a piece made of exactly the declarations of the piece that
follows it can be dropped; simplification of the conditions around an empty content.
-/
namespace EsbuildModel.CssImport
open EsbuildModel.Spec.CssCascade

-- ------------------------------------------------------------------ declared layers stay declared

theorem layerOrderFrom_contains (env : Env) (acc : List Layer) (items : List Item) {cs : List Atom} {l : Layer}
    (hit : Item.declare cs l ∈ items) (ha : cs.all (Atom.holds env) = true) :
    ∀ q ∈ prefixes l, q ∈ layerOrderFrom env acc items := by
  induction items generalizing acc with
  | nil => cases hit
  | cons it items ih =>
    intro q hq
    rw [layerOrderFrom_cons]
    rcases List.mem_cons.1 hit with h | h
    · subst h
      simp only [Item.declares, ha, ↓reduceIte]
      apply mem_layerOrderFrom_of_mem
      exact mem_foldl_addLayer_self acc (prefixes l) q hq
    · exact ih _ h q hq

theorem layerOrderFrom_noop (env : Env) (acc : List Layer) (e : List Item)
    (h : ∀ cs l, Item.declare cs l ∈ e → cs.all (Atom.holds env) = true → ∀ q ∈ prefixes l, q ∈ acc) :
    layerOrderFrom env acc e = acc := by
  induction e with
  | nil => rfl
  | cons it e ih =>
    rw [layerOrderFrom_cons]
    have ih' := ih (fun cs l hm => h cs l (List.mem_cons_of_mem _ hm))
    cases it with
    | rule cs l d => simpa [Item.declares] using ih'
    | declare cs l =>
      simp only [Item.declares]
      by_cases ha : cs.all (Atom.holds env) = true
      · simp only [ha, ↓reduceIte]
        have : addLayers acc l = acc :=
          foldl_addLayer_of_all_mem _ _ (h cs l (List.mem_cons_self ..) ha)
        rw [this]; exact ih'
      · simp only [ha, Bool.false_eq_true, ↓reduceIte]; exact ih'

/-- every layer declaration of `e` that is in force is also made, in force, by `y` -/
def DeclCovered (e y : List Item) : Prop :=
  ∀ env cs l, Item.declare cs l ∈ e → cs.all (Atom.holds env) = true →
    ∃ cs', Item.declare cs' l ∈ y ∧ cs'.all (Atom.holds env) = true

theorem ctxSame_drop_declCovered (y mid e : List Item) (honly : OnlyDeclares e) (hcov : DeclCovered e y) :
    CtxSame (y ++ mid ++ e) (y ++ mid) := by
  intro p t
  have hL : SameLayers (p ++ (y ++ mid ++ e) ++ t) (p ++ (y ++ mid) ++ t) := by
    intro env acc
    have e1 : p ++ (y ++ mid ++ e) ++ t = (p ++ y ++ mid) ++ e ++ t := by simp [List.append_assoc]
    have e2 : p ++ (y ++ mid) ++ t = (p ++ y ++ mid) ++ t := by simp [List.append_assoc]
    rw [e1, e2, layerOrderFrom_append env acc ((p ++ y ++ mid) ++ e) t,
      layerOrderFrom_append env acc (p ++ y ++ mid) e, layerOrderFrom_append env acc (p ++ y ++ mid) t]
    have : layerOrderFrom env (layerOrderFrom env acc (p ++ y ++ mid)) e = layerOrderFrom env acc (p ++ y ++ mid) := by
      apply layerOrderFrom_noop
      intro cs l hm ha q hq
      obtain ⟨cs', hm', ha'⟩ := hcov env cs l hm ha
      exact layerOrderFrom_contains env acc _ (by simp [hm']) ha' q hq
    rw [this]
  refine ⟨hL, ?_⟩
  intro env m prop
  unfold winner layerOrder
  rw [hL env []]
  congr 2
  simp [cands_append, cands_onlyDeclares honly]

/-- a piece that consists of exactly the layer declarations of the piece after it -/
theorem ctxSame_decls_prefix (a b : List Item) (honly : OnlyDeclares a) (hsame : SameDecls a b) :
    CtxSame (a ++ b) b := by
  intro p t
  have hL : SameLayers (p ++ (a ++ b) ++ t) (p ++ b ++ t) := by
    intro env acc
    have e1 : p ++ (a ++ b) ++ t = p ++ a ++ b ++ t := by simp [List.append_assoc]
    rw [e1]
    simp only [layerOrderFrom_append]
    have : layerOrderFrom env (layerOrderFrom env (layerOrderFrom env acc p) a) b =
        layerOrderFrom env (layerOrderFrom env acc p) b := by
      rw [hsame.sameLayers env]
      apply layerOrderFrom_noop
      intro cs l hm ha q hq
      exact layerOrderFrom_contains env _ _ hm ha q hq
    rw [this]
  refine ⟨hL, ?_⟩
  intro env m prop
  unfold winner layerOrder
  rw [hL env []]
  congr 2
  simp [cands_append, cands_onlyDeclares honly]

-- ------------------------------------------------------------------ declarations of a wrapped piece

theorem mem_wrap_declare {c : Cond} {id : List Nat} {items : List Item} {a : List Atom} {l : Layer} :
    Item.declare a l ∈ wrap c id items ↔
      (condLayer c id ≠ [] ∧ a = condAtoms c ∧ l = condLayer c id) ∨
      ∃ a0 l0, Item.declare a0 l0 ∈ items ∧ a = condAtoms c ++ a0 ∧ l = condLayer c id ++ l0 := by
  unfold wrap
  rw [List.mem_append]
  constructor
  · rintro (h | h)
    · split at h
      · cases h
      · rename_i hne
        simp only [List.mem_singleton, Item.declare.injEq] at h
        exact Or.inl ⟨hne, h.1, h.2⟩
    · rw [List.mem_map] at h
      obtain ⟨it, hit, he⟩ := h
      cases it with
      | rule cs l' d' => simp [Item.under] at he
      | declare cs l' =>
        simp only [Item.under, Item.declare.injEq] at he
        exact Or.inr ⟨cs, l', hit, he.1.symm, he.2.symm⟩
  · rintro (⟨hne, rfl, rfl⟩ | ⟨a0, l0, hit, rfl, rfl⟩)
    · left; simp [hne]
    · right
      rw [List.mem_map]
      exact ⟨_, hit, rfl⟩

theorem DeclCovered.wrap {p q : List Item} (h : DeclCovered p q) {a b : Cond} (hr : condRedundant a b = true) :
    DeclCovered (Spec.CssCascade.wrap a [] p) (Spec.CssCascade.wrap b [] q) := by
  intro env cs l hm ha
  have hlay : condLayer a [] = condLayer b [] := by
    unfold condLayer; rw [condRedundant_layer hr]
  rcases mem_wrap_declare.1 hm with ⟨hne, rfl, rfl⟩ | ⟨a0, l0, hit, rfl, rfl⟩
  · refine ⟨condAtoms b, mem_wrap_declare.2 (Or.inl ⟨by rw [← hlay]; exact hne, rfl, hlay⟩), ?_⟩
    exact condRedundant_atoms hr env ha
  · simp only [List.all_append, Bool.and_eq_true] at ha
    obtain ⟨cs', hm', ha'⟩ := h env a0 l0 hit ha.2
    refine ⟨condAtoms b ++ cs', mem_wrap_declare.2 (Or.inr ⟨cs', l0, hm', rfl, by rw [hlay]⟩), ?_⟩
    simp only [List.all_append, Bool.and_eq_true]
    exact ⟨condRedundant_atoms hr env ha.1, ha'⟩

theorem DeclCovered.wrap_noLayer {p q : List Item} (h : DeclCovered p q) {a : Cond} (hl : a.layer = none) :
    DeclCovered (Spec.CssCascade.wrap a [] p) q := by
  intro env cs l hm ha
  rcases mem_wrap_declare.1 hm with ⟨hne, _, _⟩ | ⟨a0, l0, hit, rfl, rfl⟩
  · exact absurd (condLayer_of_none hl []) hne
  · simp only [List.all_append, Bool.and_eq_true] at ha
    rw [condLayer_of_none hl, List.nil_append]
    exact h env a0 l0 hit ha.2

theorem declCovered_wrapN {e l : List Cond} (hr : isRedundant e l = true) (hx : extraNoLayer e l = true)
    {p q : List Item} (h : DeclCovered p q) : DeclCovered (wrapN e p) (wrapN l q) := by
  induction e generalizing l with
  | nil =>
    cases l with
    | nil => exact h
    | cons b bs => simp [isRedundant] at hr
  | cons a as ih =>
    cases l with
    | nil =>
      simp only [extraNoLayer, List.length_nil, List.drop_zero, List.all_cons, Bool.and_eq_true,
        Option.isNone_iff_eq_none] at hx
      have ih' := ih (l := []) (by cases as <;> rfl) (by simpa [extraNoLayer] using hx.2)
      exact ih'.wrap_noLayer hx.1
    | cons b bs =>
      simp only [isRedundant, Bool.and_eq_true] at hr
      have hx' : extraNoLayer as bs = true := by simpa [extraNoLayer] using hx
      exact (ih hr.2 hx').wrap hr.1

theorem declCovered_of_subset {p q : List Item} (h : ∀ it ∈ p, Item.isDeclare it = true → it ∈ q) : DeclCovered p q := by
  intro env cs l hm ha
  exact ⟨cs, h _ hm rfl, ha⟩

-- ------------------------------------------------------------------ simplification of `@layer` entries

theorem wrap_nil_noLayer {c : Cond} (h : c.layer = none) (id : List Nat) : wrap c id [] = [] := by
  simp [wrap, condLayer, h]

theorem wrapN_trimNoLayer (cs : List Cond) : wrapN (trimNoLayer cs) [] = wrapN cs [] := by
  induction cs with
  | nil => rfl
  | cons c cs ih =>
    show _ = wrap c [] (wrapN cs [])
    rw [← ih]
    simp only [trimNoLayer]
    cases ht : trimNoLayer cs with
    | nil =>
      simp only
      cases hl : c.layer with
      | none => simp [wrapN, wrap_nil_noLayer hl]
      | some t => simp [wrapN]
    | cons r rs => rfl

theorem trimNoLayer_sublist (cs : List Cond) : ∀ c ∈ trimNoLayer cs, c ∈ cs := by
  induction cs with
  | nil => intro c hc; cases hc
  | cons x xs ih =>
    intro c hc
    simp only [trimNoLayer] at hc
    cases ht : trimNoLayer xs with
    | nil =>
      rw [ht] at hc
      simp only at hc
      split at hc
      · simp only [List.mem_singleton] at hc; subst hc; exact List.mem_cons_self ..
      · cases hc
    | cons r rs =>
      rw [ht] at hc
      simp only at hc
      rcases List.mem_cons.1 hc with rfl | h
      · exact List.mem_cons_self ..
      · exact List.mem_cons_of_mem _ (ih c (by rw [ht]; exact h))

theorem truncateAnon_noAnon {e : Entry} (h : NoAnon e.conds) : truncateAnon e = e := by
  unfold truncateAnon
  have : e.conds.findIdx? isAnonLayer = none := by
    rw [List.findIdx?_eq_none_iff]
    intro c hc
    have := h c hc
    simpa [isAnonLayer] using this
  rw [this]

end EsbuildModel.CssImport
