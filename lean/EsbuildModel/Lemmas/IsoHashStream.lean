import EsbuildModel.Impl.IsoHash
/-!
The streaming XXH64 digest depends only on the CONCATENATION of the bytes written to it:
`Digest.write (Digest.write d a) b = Digest.write d (a ++ b)`.  Hence the isolated hash is a function
of the pre-image, whatever the boundaries of the `hash.Write` calls are.
-/
namespace EsbuildModel.IsoHash

/-- `writeBlocks` with the canonical amount of fuel -/
def wbc (v : V4) (b : List Nat) : V4 × List Nat := writeBlocks b.length v b

theorem writeBlocks_short (fuel : Nat) (v : V4) (b : List Nat) (h : b.length < 32) :
    writeBlocks fuel v b = (v, b) := by
  cases fuel with
  | zero => rfl
  | succ f => simp [writeBlocks]; omega

theorem writeBlocks_fuel (f1 : Nat) : ∀ (f2 : Nat) (v : V4) (b : List Nat), b.length ≤ f1 → b.length ≤ f2 →
    writeBlocks f1 v b = writeBlocks f2 v b := by
  induction f1 with
  | zero =>
    intro f2 v b h1 _
    rw [writeBlocks_short 0 v b (by omega), writeBlocks_short f2 v b (by omega)]
  | succ f1 ih =>
    intro f2 v b h1 h2
    by_cases hb : b.length ≥ 32
    · cases f2 with
      | zero => omega
      | succ f2 =>
        simp only [writeBlocks, hb, if_true]
        apply ih
        · simp; omega
        · simp; omega
    · rw [writeBlocks_short _ v b (by omega), writeBlocks_short _ v b (by omega)]

theorem wbc_short (v : V4) (b : List Nat) (h : b.length < 32) : wbc v b = (v, b) :=
  writeBlocks_short _ v b h

theorem wbc_long (v : V4) (b : List Nat) (h : b.length ≥ 32) :
    wbc v b = wbc (round4 v (b.take 32)) (b.drop 32) := by
  unfold wbc
  obtain ⟨n, hn⟩ : ∃ n, b.length = n + 1 := ⟨b.length - 1, by omega⟩
  rw [hn]
  simp only [writeBlocks, h, if_true]
  apply writeBlocks_fuel
  · simp; omega
  · simp

theorem wbc_rest_short (n : Nat) : ∀ (v : V4) (b : List Nat), b.length ≤ n → (wbc v b).2.length < 32 := by
  induction n with
  | zero => intro v b h; rw [wbc_short v b (by omega)]; simp; omega
  | succ n ih =>
    intro v b h
    by_cases hb : b.length ≥ 32
    · rw [wbc_long v b hb]
      apply ih
      simp; omega
    · rw [wbc_short v b (by omega)]; simp; omega

/-- absorbing `x ++ y` = absorbing `x`, then the unfinished rest of `x` followed by `y` -/
theorem wbc_append (n : Nat) : ∀ (v : V4) (x y : List Nat), x.length ≤ n →
    wbc v (x ++ y) = wbc (wbc v x).1 ((wbc v x).2 ++ y) := by
  induction n with
  | zero =>
    intro v x y h
    rw [wbc_short v x (by omega)]
  | succ n ih =>
    intro v x y h
    by_cases hx : x.length ≥ 32
    · rw [wbc_long v x hx, wbc_long v (x ++ y) (by simp; omega)]
      rw [List.take_append_of_le_length (by omega), List.drop_append_of_le_length (by omega)]
      apply ih
      simp; omega
    · rw [wbc_short v x (by omega)]

/-- `Digest.Write` in closed form -/
theorem write_eq (d : Digest) (b : List Nat) (hm : d.mem.length < 32) :
    d.write b = { v := (wbc d.v (d.mem ++ b)).1, total := d.total + UInt64.ofNat b.length,
                  mem := (wbc d.v (d.mem ++ b)).2 } := by
  unfold Digest.write
  by_cases h1 : d.mem.length + b.length < 32
  · simp only [h1, if_true]
    rw [wbc_short d.v (d.mem ++ b) (by simp; omega)]
  · simp only [h1, if_false]
    have hlong : (d.mem ++ b).length ≥ 32 := by simp; omega
    by_cases h2 : d.mem.length > 0
    · simp only [h2, if_true]
      rw [wbc_long d.v (d.mem ++ b) hlong]
      have ht : (d.mem ++ b).take 32 = d.mem ++ b.take (32 - d.mem.length) := by
        rw [List.take_append, List.take_of_length_le (by omega)]
      have hd : (d.mem ++ b).drop 32 = b.drop (32 - d.mem.length) := by
        rw [List.drop_append, List.drop_of_length_le (by omega)]; simp
      rw [ht, hd]
      by_cases h3 : (b.drop (32 - d.mem.length)).length ≥ 32
      · simp only [h3, if_true]; rfl
      · simp only [h3, if_false]
        rw [wbc_short _ _ (by omega)]
    · have hnil : d.mem = [] := List.eq_nil_of_length_eq_zero (by omega)
      have h3 : b.length ≥ 32 := by simp [hnil] at hlong; exact hlong
      have h2' : ¬ (([] : List Nat).length > 0) := by simp
      simp only [hnil, h2', if_false, List.nil_append, h3, if_true]
      rfl

theorem write_mem_short (d : Digest) (b : List Nat) (hm : d.mem.length < 32) :
    (d.write b).mem.length < 32 := by
  rw [write_eq d b hm]
  exact wbc_rest_short _ _ _ (Nat.le_refl _)

theorem write_nil (d : Digest) (hm : d.mem.length < 32) : d.write [] = d := by
  rw [write_eq d [] hm]
  simp only [List.append_nil, List.length_nil]
  rw [wbc_short d.v d.mem hm]
  cases d; simp

/-- two `Write` calls are one `Write` of the concatenation -/
theorem write_write (d : Digest) (a b : List Nat) (hm : d.mem.length < 32) :
    (d.write a).write b = d.write (a ++ b) := by
  have hm' := write_mem_short d a hm
  rw [write_eq (d.write a) b hm', write_eq d (a ++ b) hm]
  rw [write_eq d a hm]
  simp only
  rw [← List.append_assoc, wbc_append _ d.v (d.mem ++ a) b (Nat.le_refl _)]
  simp [UInt64.ofNat_add, UInt64.add_assoc]

theorem foldl_write (ws : List (List Nat)) : ∀ (d : Digest), d.mem.length < 32 →
    ws.foldl Digest.write d = d.write ws.flatten := by
  induction ws with
  | nil => intro d hm; simp [write_nil d hm]
  | cons w ws ih =>
    intro d hm
    simp only [List.foldl_cons, List.flatten_cons]
    rw [ih _ (write_mem_short d w hm), write_write d w _ hm]

/-- the digest of a sequence of writes is the digest of one write of all the bytes -/
theorem digestOfWrites_flatten (ws : List (List Nat)) :
    digestOfWrites ws = Digest.new.write ws.flatten :=
  foldl_write ws Digest.new (by simp [Digest.new])

end EsbuildModel.IsoHash
